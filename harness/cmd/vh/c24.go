package main

// C24 — CTE literals decode to exactly the value written.
//
// Search oracle: grammar-driven random spellings (codegen/cte/CTELexer.g4) are
// decoded with ce.NewCTEDecoder + rules + Recorder and compared with an
// independent reference evaluation (math/big; exact rationals).
// Correspondence: what the listener delivered (decoder -> Recorder, no rules in
// between) is written as ctelit_case terms for CE.Model.CteLit.

import (
	"encoding/hex"
	"fmt"
	"math"
	"math/big"
	"math/rand"
	"strconv"
	"strings"
	"unicode/utf8"

	"github.com/kstenerud/go-concise-encoding/ce"
	"github.com/kstenerud/go-concise-encoding/ce/events"
	"github.com/kstenerud/go-concise-encoding/configuration"
)

func init() { register("C24", runC24, replayC24) }

// ---------------------------------------------------------------------------
// decoding

type c24Res struct {
	ok  bool
	ev  *Ev // the single value event when ok
	all string
}

func c24DecodeWith(doc string, rules bool) (res c24Res) {
	defer func() {
		if r := recover(); r != nil {
			res = c24Res{ok: false, all: "panic"}
		}
	}()
	cfg := configuration.New()
	rec := &Recorder{}
	var rcv events.DataEventReceiver = rec
	if rules {
		rcv = ce.NewRules(rec, cfg)
	}
	err := ce.NewCTEDecoder(cfg).DecodeDocument([]byte(doc), rcv)
	res.all = evsString(rec.Evs)
	if err != nil {
		return
	}
	// bd v X ed
	if len(rec.Evs) != 4 || rec.Evs[0].K != "bd" || rec.Evs[1].K != "v" || rec.Evs[3].K != "ed" {
		return
	}
	res.ok = true
	res.ev = &rec.Evs[2]
	return
}

// ---------------------------------------------------------------------------
// spelling trees (reference side)

type c24Dseq struct {
	chars []byte
	us    []int // underscores in front of chars[i]; us[0] == 0
}

func (d c24Dseq) render() string {
	var sb strings.Builder
	for i, c := range d.chars {
		sb.WriteString(strings.Repeat("_", d.us[i]))
		sb.WriteByte(c)
	}
	return sb.String()
}
func (d c24Dseq) maxUs() int {
	m := 0
	for _, u := range d.us {
		if u > m {
			m = u
		}
	}
	return m
}

func c24DigitVal(c byte) int {
	switch {
	case c >= '0' && c <= '9':
		return int(c - '0')
	case c >= 'a' && c <= 'f':
		return int(c-'a') + 10
	case c >= 'A' && c <= 'F':
		return int(c-'A') + 10
	}
	return 99
}

func c24CharsVal(chars []byte, base int) *big.Int {
	v := new(big.Int)
	b := big.NewInt(int64(base))
	for _, c := range chars {
		v.Mul(v, b)
		v.Add(v, big.NewInt(int64(c24DigitVal(c))))
	}
	return v
}

type c24Int struct {
	neg   bool
	base  int // 2 8 10 16
	upper bool
	d     c24Dseq
}

func c24Prefix(base int, upper bool) string {
	s := map[int]string{2: "0b", 8: "0o", 16: "0x", 10: ""}[base]
	if upper {
		s = strings.ToUpper(s)
	}
	return s
}
func (l c24Int) render(prefix bool) string {
	s := ""
	if l.neg {
		s = "-"
	}
	if prefix {
		s += c24Prefix(l.base, l.upper)
	}
	return s + l.d.render()
}
func (l c24Int) mag() *big.Int { return c24CharsVal(l.d.chars, l.base) }
func (l c24Int) value() *big.Int {
	v := l.mag()
	if l.neg {
		v.Neg(v)
	}
	return v
}
func (l c24Int) leadingZeroDec() bool {
	return l.base == 10 && len(l.d.chars) > 1 && l.d.chars[0] == '0'
}

// maxUsAfterLeadingZeros: the longest separator run that is left once the leading zeros of
// a decimal spelling are dropped together with the separators behind them (what
// stripDecimalLeadingZeros does to an element text before strconv sees it).
func (l c24Int) maxUsAfterLeadingZeros() int {
	i := 0
	if l.base == 10 {
		for i+1 < len(l.d.chars) && l.d.chars[i] == '0' {
			i++
		}
	}
	m := 0
	for j := i + 1; j < len(l.d.us); j++ {
		if l.d.us[j] > m {
			m = l.d.us[j]
		}
	}
	return m
}

// zeroBeforeSeparator: once the leading zeros that are directly followed by a digit are
// dropped (what stripDecimalLeadingZeros does to the element text), a zero followed by a
// separator is still in front, as in 0_10 or 00_8.
func (l c24Int) zeroBeforeSeparator() bool {
	i := 0
	for i+1 < len(l.d.chars) && l.d.chars[i] == '0' && l.d.us[i+1] == 0 {
		i++
	}
	return i+1 < len(l.d.chars) && l.d.chars[i] == '0'
}

type c24Exp struct {
	upper bool
	sign  int // 0 none, 1 '+', 2 '-'
	d     c24Dseq
}
type c24Float struct {
	neg    bool
	hex    bool
	prefix int // -1 none, 0 "0x", 1 "0X"
	ip     c24Dseq
	fp     *c24Dseq
	ex     *c24Exp
}

func (l c24Float) render() string {
	s := ""
	if l.neg {
		s = "-"
	}
	if l.prefix >= 0 {
		s += c24Prefix(16, l.prefix == 1)
	}
	s += l.ip.render()
	if l.fp != nil {
		s += "." + l.fp.render()
	}
	if l.ex != nil {
		c := "e"
		if l.hex {
			c = "p"
		}
		if l.ex.upper {
			c = strings.ToUpper(c)
		}
		s += c + []string{"", "+", "-"}[l.ex.sign] + l.ex.d.render()
	}
	return s
}

// value = mant * B^exp, B = 10 or (hex spelling) 2
func (l c24Float) parts() (mant *big.Int, exp *big.Int) {
	base := 10
	if l.hex {
		base = 16
	}
	chars := append([]byte{}, l.ip.chars...)
	nf := 0
	if l.fp != nil {
		chars = append(chars, l.fp.chars...)
		nf = len(l.fp.chars)
	}
	mant = c24CharsVal(chars, base)
	exp = new(big.Int)
	if l.ex != nil {
		exp = c24CharsVal(l.ex.d.chars, 10)
		if l.ex.sign == 2 {
			exp.Neg(exp)
		}
	}
	k := int64(1)
	if l.hex {
		k = 4
	}
	exp.Sub(exp, big.NewInt(int64(nf)*k))
	return
}

// ---------------------------------------------------------------------------
// reference recognisers (text -> tree), used by replay and by the malformed stream

func c24ParseDseq(s string, base int) (c24Dseq, string, bool) {
	d := c24Dseq{}
	i := 0
	for {
		j := i
		for j < len(s) && s[j] == '_' {
			j++
		}
		if j >= len(s) || c24DigitVal(s[j]) >= base {
			break
		}
		if len(d.chars) == 0 && j > i {
			break
		}
		d.chars = append(d.chars, s[j])
		d.us = append(d.us, j-i)
		i = j + 1
	}
	return d, s[i:], len(d.chars) > 0
}

// forced: 0 = prefix decides (decimal when none), 2/8/16 = no prefix allowed
func c24ParseInt(s string, forced int) (c24Int, bool) {
	l := c24Int{base: 10}
	if strings.HasPrefix(s, "-") {
		l.neg = true
		s = s[1:]
	}
	if forced != 0 {
		l.base = forced
	} else if len(s) >= 2 && s[0] == '0' {
		switch s[1] {
		case 'b', 'B':
			l.base = 2
		case 'o', 'O':
			l.base = 8
		case 'x', 'X':
			l.base = 16
		}
		if l.base != 10 {
			l.upper = s[1] < 'a'
			s = s[2:]
		}
	}
	d, rest, ok := c24ParseDseq(s, l.base)
	l.d = d
	return l, ok && rest == ""
}

// noPrefixHex: element of an @fNNx array
func c24ParseFloat(s string, noPrefixHex bool) (c24Float, bool) {
	l := c24Float{prefix: -1}
	if strings.HasPrefix(s, "-") {
		l.neg = true
		s = s[1:]
	}
	if noPrefixHex {
		l.hex = true
	} else if len(s) >= 2 && s[0] == '0' && (s[1] == 'x' || s[1] == 'X') {
		l.hex = true
		l.prefix = 0
		if s[1] == 'X' {
			l.prefix = 1
		}
		s = s[2:]
	}
	base := 10
	if l.hex {
		base = 16
	}
	var ok bool
	l.ip, s, ok = c24ParseDseq(s, base)
	if !ok {
		return l, false
	}
	if strings.HasPrefix(s, ".") {
		d, rest, ok := c24ParseDseq(s[1:], base)
		if !ok {
			return l, false
		}
		l.fp = &d
		s = rest
	}
	if s != "" {
		c := s[0] | 0x20
		if (l.hex && c != 'p') || (!l.hex && c != 'e') {
			return l, false
		}
		ex := c24Exp{upper: s[0] < 'a'}
		s = s[1:]
		if strings.HasPrefix(s, "+") {
			ex.sign = 1
			s = s[1:]
		} else if strings.HasPrefix(s, "-") {
			ex.sign = 2
			s = s[1:]
		}
		d, rest, ok := c24ParseDseq(s, 10)
		if !ok || rest != "" {
			return l, false
		}
		ex.d = d
		l.ex = &ex
	}
	return l, true
}

// ---------------------------------------------------------------------------
// reference rounding: |v| = num/den correctly rounded (nearest, ties to even);
// returns the magnitude bit pattern, the +inf pattern on overflow.

type c24Fmt struct {
	p    uint
	emin int
	inf  uint64
	sign uint64
}

var c24Fmts = map[int]c24Fmt{
	64: {53, -1074, 0x7ff0000000000000, 1 << 63},
	32: {24, -149, 0x7f800000, 1 << 31},
	16: {8, -133, 0x7f80, 1 << 15},
}

func c24RoundDiv(n, d *big.Int, nearest bool) *big.Int {
	q, r := new(big.Int).QuoRem(n, d, new(big.Int))
	if !nearest {
		return q
	}
	r2 := new(big.Int).Lsh(r, 1)
	switch r2.Cmp(d) {
	case 1:
		q.Add(q, big.NewInt(1))
	case 0:
		if q.Bit(0) == 1 {
			q.Add(q, big.NewInt(1))
		}
	}
	return q
}

func c24RoundBits(num, den *big.Int, f c24Fmt, nearest bool) uint64 {
	if num.Sign() == 0 {
		return 0
	}
	// floor(log2(num/den))
	fl := num.BitLen() - den.BitLen()
	a, b := new(big.Int).Set(num), new(big.Int).Set(den)
	if fl >= 0 {
		b.Lsh(b, uint(fl))
	} else {
		a.Lsh(a, uint(-fl))
	}
	if a.Cmp(b) < 0 {
		fl--
	}
	q := fl - int(f.p-1)
	if q < f.emin {
		q = f.emin
	}
	n, d := new(big.Int).Set(num), new(big.Int).Set(den)
	if q >= 0 {
		d.Lsh(d, uint(q))
	} else {
		n.Lsh(n, uint(-q))
	}
	m := c24RoundDiv(n, d, nearest)
	bits := new(big.Int).Lsh(big.NewInt(int64(q-f.emin)), f.p-1)
	bits.Add(bits, m)
	if !bits.IsUint64() || bits.Uint64() >= f.inf {
		return f.inf
	}
	return bits.Uint64()
}

// mant * B^exp as a fraction; ok=false when the exponent is too large to expand
func c24Ratio(mant, exp *big.Int, hex bool) (num, den *big.Int, ok bool) {
	if !exp.IsInt64() || exp.Int64() > 6000 || exp.Int64() < -6000 {
		return nil, nil, false
	}
	e := exp.Int64()
	B := big.NewInt(10)
	if hex {
		B = big.NewInt(2)
	}
	pw := new(big.Int).Exp(B, big.NewInt(abs64(e)), nil)
	if e >= 0 {
		return new(big.Int).Mul(mant, pw), big.NewInt(1), true
	}
	return new(big.Int).Set(mant), pw, true
}

func abs64(x int64) int64 {
	if x < 0 {
		return -x
	}
	return x
}

// expected element bits; reject=true when the value does not fit the element type
func c24RefFloatElem(l c24Float, bits int, nearest bool) (pattern uint64, reject bool, exactRef string) {
	f := c24Fmts[bits]
	mant, exp := l.parts()
	var mag uint64
	if mant.Sign() == 0 {
		mag = 0
	} else if num, den, ok := c24Ratio(mant, exp, l.hex); ok {
		mag = c24RoundBits(num, den, f, nearest)
		if nearest && bits != 16 {
			// cross-check with math/big's own conversion
			r := new(big.Rat).SetFrac(num, den)
			var alt uint64
			if bits == 64 {
				x, _ := r.Float64()
				alt = math.Float64bits(x)
			} else {
				x, _ := r.Float32()
				alt = uint64(math.Float32bits(x))
			}
			if alt != mag {
				exactRef = fmt.Sprintf("reference disagreement: own %x, big.Rat %x", mag, alt)
			}
		}
	} else if exp.Sign() > 0 {
		mag = f.inf
	} else {
		mag = 0
	}
	if mag >= f.inf {
		if !nearest {
			mag = f.inf - 1 // truncation never reaches infinity
		} else {
			return 0, true, exactRef
		}
	}
	if mag == 0 && mant.Sign() != 0 && nearest {
		return 0, true, exactRef
	}
	if l.neg {
		mag |= f.sign
	}
	return mag, false, exactRef
}

func leBytes(v uint64, bits int) []byte {
	b := make([]byte, bits/8)
	for i := range b {
		b[i] = byte(v >> (8 * uint(i)))
	}
	return b
}

// ---------------------------------------------------------------------------
// reference string decoding: code points of the body (after the opening quote,
// including the closing quote) -> bytes, or reject

var c24EscapeMap = map[rune]rune{'r': '\r', 'R': '\r', 'n': '\n', 'N': '\n', 't': '\t', 'T': '\t',
	'"': '"', '*': '*', '/': '/', '\\': '\\', '-': 0xad, '_': 0xa0}

func c24ModelledNonASCII(c rune) bool {
	return (c >= 0xa0 && c <= 0xff) || (c >= 0x391 && c <= 0x3a1) || (c >= 0x4e00 && c <= 0x9fa5) || (c >= 0x1f600 && c <= 0x1f64f)
}
func c24CharQuoted(c rune) bool {
	return c == 9 || c == 10 || c == 13 || (c >= 32 && c <= 126) || c24ModelledNonASCII(c)
}
func c24CharSentinel(c rune) bool {
	return (c >= 33 && c <= 126) || (c24ModelledNonASCII(c) && c != 0xa0 && c != 0xad)
}
func c24IsWS(c rune) bool { return c == ' ' || c == '\t' || c == '\n' || c == '\r' }

type c24StrInfo struct {
	verbatims, emptyVerb, multiSentinel, nonASCIISentinel, invalidCode, escapes, codes, conts int
}

func runesHasPrefix(s, p []rune) bool {
	if len(p) > len(s) {
		return false
	}
	for i := range p {
		if s[i] != p[i] {
			return false
		}
	}
	return true
}

// c24RefString implements the escape rules as the grammar states them.
func c24RefString(body []rune) (out []byte, ok bool, info c24StrInfo) {
	i := 0
	emit := func(r rune) { out = append(out, string(r)...) }
	for {
		if i >= len(body) {
			return nil, false, info
		}
		c := body[i]
		switch {
		case c == '"':
			for _, r := range body[i+1:] {
				if !c24IsWS(r) {
					return nil, false, info
				}
			}
			return out, true, info
		case c == '\\':
			i++
			if i >= len(body) {
				return nil, false, info
			}
			e := body[i]
			i++
			switch {
			case e == '.':
				j := i
				for j < len(body) && c24CharSentinel(body[j]) {
					j++
				}
				sent := body[i:j]
				if len(sent) == 0 {
					return nil, false, info
				}
				i = j
				if i < len(body) && (body[i] == ' ' || body[i] == '\t' || body[i] == '\n') {
					i++
				} else if i+1 < len(body) && body[i] == '\r' && body[i+1] == '\n' {
					i += 2
				} else {
					return nil, false, info
				}
				k := i
				for k < len(body) && !runesHasPrefix(body[k:], sent) {
					k++
				}
				if k >= len(body) {
					return nil, false, info
				}
				info.verbatims++
				if k == i {
					info.emptyVerb++
				}
				if len(sent) > 1 {
					info.multiSentinel++
				}
				for _, r := range sent {
					if r >= 128 {
						info.nonASCIISentinel++
						break
					}
				}
				for _, r := range body[i:k] {
					emit(r)
				}
				i = k + len(sent)
			case e == '[':
				j := i
				for j < len(body) && body[j] < 128 && c24DigitVal(byte(body[j])) < 16 {
					j++
				}
				if j == i || j >= len(body) || body[j] != ']' {
					return nil, false, info
				}
				v := new(big.Int)
				for _, r := range body[i:j] {
					v.Mul(v, big.NewInt(16))
					v.Add(v, big.NewInt(int64(c24DigitVal(byte(r)))))
				}
				info.codes++
				if !v.IsInt64() || v.Int64() > 0x10ffff || (v.Int64() >= 0xd800 && v.Int64() <= 0xdfff) {
					info.invalidCode++
					return nil, false, info
				}
				emit(rune(v.Int64()))
				i = j + 1
			case e == '\n' || e == '\r':
				for i < len(body) && c24IsWS(body[i]) {
					i++
				}
				info.conts++
			default:
				v, found := c24EscapeMap[e]
				if !found {
					return nil, false, info
				}
				info.escapes++
				emit(v)
			}
		case c24CharQuoted(c):
			emit(c)
			i++
		default:
			return nil, false, info
		}
	}
}

// ---------------------------------------------------------------------------
// Coq printers

func cOutBytes(ok bool, data []byte) string {
	if !ok {
		return "Err"
	}
	return "(Ok " + cBytes(data) + ")"
}
func cRunes(rs []rune) string {
	items := make([]string, len(rs))
	for i, r := range rs {
		items[i] = strconv.Itoa(int(r))
	}
	return "[" + strings.Join(items, ";") + "]"
}
func cBytesList(ss []string) string {
	items := make([]string, len(ss))
	for i, s := range ss {
		items[i] = cBytes([]byte(s))
	}
	return cList(items)
}

// the listener's event as a lit_result
func c24LitResult(r c24Res) string {
	if !r.ok {
		return "Err"
	}
	e := r.ev
	switch e.K {
	case "i":
		return "(Ok (RInt " + cZ(e.I) + "))"
	case "ni":
		return "(Ok (RNegInt " + cN(e.N) + "))"
	case "bi":
		if e.Big != nil {
			return "(Ok (RBigInt " + cBigZ(e.Big) + "))"
		}
	case "fl":
		return "(Ok (RFloat " + cN(math.Float64bits(e.F)) + "))"
	case "bf":
		if e.BF != nil && !e.BF.IsInf() && e.BF.Sign() != 0 {
			mant := new(big.Float)
			exp := e.BF.MantExp(mant)
			prec := int(e.BF.MinPrec())
			mant.SetMantExp(mant, prec)
			mi, _ := mant.Int(nil)
			mi.Abs(mi)
			return "(Ok " + cApp("RBigFloat", cBool(e.BF.Signbit()), cBigN(mi), cZ(int64(exp-prec)), cN(uint64(e.BF.Prec()))) + ")"
		}
	case "df":
		return "(Ok " + cApp("RDec", cZ(e.DF.Coefficient), cZ(int64(e.DF.Exponent))) + ")"
	case "bdf":
		if e.BDF != nil && e.BDF.Form == 0 {
			return "(Ok " + cApp("RBigDec", cBool(e.BDF.Negative), cBigN(new(big.Int).Abs(&e.BDF.Coeff)), cZ(int64(e.BDF.Exponent))) + ")"
		}
	}
	// anything else is outside the model's result type: make the case fail visibly
	return "(Ok (RBytes [999]))"
}

// ---------------------------------------------------------------------------
// oracles (property evaluated on the implementation, rules in the chain)

type c24Verdict struct {
	ok          bool
	key         string
	expect, got string
}

func c24Good() c24Verdict { return c24Verdict{ok: true} }

func c24IntOfEvent(e *Ev) (v *big.Int, negZero bool, isInt bool) {
	switch e.K {
	case "i":
		return big.NewInt(e.I), false, true
	case "pi":
		return new(big.Int).SetUint64(e.N), false, true
	case "ni":
		v := new(big.Int).SetUint64(e.N)
		return v.Neg(v), e.N == 0, true
	case "bi":
		if e.Big != nil {
			return new(big.Int).Set(e.Big), false, true
		}
	}
	return nil, false, false
}

func c24CheckInt(text string) c24Verdict {
	l, ok := c24ParseInt(text, 0)
	if !ok {
		return c24Verdict{ok: false, key: "C24/harness-bad-int", expect: "an integer literal", got: text}
	}
	want := l.value()
	expect := "int " + want.String()
	if want.Sign() == 0 && l.neg {
		expect = "int -0"
	}
	r := c24DecodeWith("c0 "+text, true)
	key := "C24/int-other"
	if l.leadingZeroDec() {
		key = "C24/int-decimal-leading-zero"
	}
	if !r.ok {
		return c24Verdict{false, key, expect, "rejected: " + r.all}
	}
	v, nz, isInt := c24IntOfEvent(r.ev)
	if !isInt || v.Cmp(want) != 0 || (want.Sign() == 0 && nz != l.neg) {
		return c24Verdict{false, key, expect, r.ev.String()}
	}
	return c24Good()
}

// exact comparison a*10^ea == b*10^eb
func c24DecEqual(a *big.Int, ea int64, b *big.Int, eb int64) bool {
	if a.Sign() == 0 || b.Sign() == 0 {
		return a.Sign() == b.Sign()
	}
	d := ea - eb
	if d > 100000 || d < -100000 {
		return false
	}
	x, y := new(big.Int).Set(a), new(big.Int).Set(b)
	pw := new(big.Int).Exp(big.NewInt(10), big.NewInt(abs64(d)), nil)
	if d >= 0 {
		x.Mul(x, pw)
	} else {
		y.Mul(y, pw)
	}
	return x.Cmp(y) == 0
}

func c24CheckFloat(text string) c24Verdict {
	l, ok := c24ParseFloat(text, false)
	if !ok || (l.fp == nil && l.ex == nil) {
		return c24Verdict{ok: false, key: "C24/harness-bad-float", expect: "a float literal", got: text}
	}
	mant, exp := l.parts()
	r := c24DecodeWith("c0 "+text, true)
	sgn := ""
	if l.neg {
		sgn = "-"
	}
	if l.hex {
		expect := fmt.Sprintf("%s%s * 2^%s", sgn, mant.String(), exp.String())
		extreme := !exp.IsInt64() || abs64(exp.Int64()) > 1000000
		if !r.ok {
			if extreme {
				return c24Good() // not representable by any event type
			}
			return c24Verdict{false, "C24/float-hex-rejected", expect, "rejected: " + r.all}
		}
		if extreme {
			// accepted: must still be right; representable only as big float
			if r.ev.K != "bf" || r.ev.BF == nil {
				if mant.Sign() == 0 && r.ev.K == "fl" && r.ev.F == 0 && math.Signbit(r.ev.F) == l.neg {
					return c24Good()
				}
				return c24Verdict{false, "C24/float-hex-other", expect, r.ev.String()}
			}
		}
		var got *big.Float
		switch r.ev.K {
		case "fl":
			if math.IsNaN(r.ev.F) || math.IsInf(r.ev.F, 0) {
				return c24Verdict{false, "C24/float-hex-other", expect, r.ev.String()}
			}
			got = new(big.Float).SetFloat64(r.ev.F)
		case "bf":
			if r.ev.BF == nil || r.ev.BF.IsInf() {
				return c24Verdict{false, "C24/float-hex-other", expect, r.ev.String()}
			}
			got = r.ev.BF
		default:
			return c24Verdict{false, "C24/float-hex-other", expect, r.ev.String()}
		}
		// exact comparison: got = gm * 2^ge with gm in [0.5, 1)
		if mant.Sign() == 0 {
			if got.Sign() != 0 || got.Signbit() != l.neg {
				return c24Verdict{false, "C24/float-hex-other", expect, r.ev.String()}
			}
			return c24Good()
		}
		gm := new(big.Float)
		ge := got.MantExp(gm)
		gm.SetMantExp(gm, mant.BitLen())
		gi, acc := gm.Int(nil)
		wantExp := new(big.Int).Add(exp, big.NewInt(int64(mant.BitLen())))
		if acc != big.Exact || gi.CmpAbs(mant) != 0 || got.Signbit() != l.neg || !wantExp.IsInt64() || wantExp.Int64() != int64(ge) {
			return c24Verdict{false, "C24/float-hex-other", expect, r.ev.String()}
		}
		return c24Good()
	}
	// decimal
	expect := fmt.Sprintf("%s%s * 10^%s", sgn, mant.String(), exp.String())
	extreme := !exp.IsInt64() || abs64(exp.Int64()) > 90000
	big63 := new(big.Int).Lsh(big.NewInt(1), 63)
	wrongKey := "C24/float-decimal-other"
	if extreme {
		wrongKey = "C24/float-decimal-exponent-int32-wrap"
	} else if mant.Cmp(big63) >= 0 {
		wrongKey = "C24/float-decimal-coefficient-uint64-wrap"
	}
	if !r.ok {
		if extreme {
			return c24Good()
		}
		return c24Verdict{false, "C24/float-decimal-rejected", expect, "rejected: " + r.all}
	}
	if !exp.IsInt64() {
		return c24Verdict{false, wrongKey, expect, r.ev.String()}
	}
	switch r.ev.K {
	case "df":
		d := r.ev.DF
		if d.Exponent == math.MinInt32 { // special encodings
			if d.Coefficient == 0 && mant.Sign() == 0 && l.neg {
				return c24Good() // negative zero
			}
			return c24Verdict{false, wrongKey, expect, fmt.Sprintf("special DFloat coefficient=%d", d.Coefficient)}
		}
		c := big.NewInt(d.Coefficient)
		if mant.Sign() == 0 {
			if d.Coefficient == 0 && !l.neg {
				return c24Good()
			}
			return c24Verdict{false, wrongKey, expect, r.ev.String()}
		}
		w := new(big.Int).Set(mant)
		if l.neg {
			w.Neg(w)
		}
		if c24DecEqual(w, exp.Int64(), c, int64(d.Exponent)) {
			return c24Good()
		}
		return c24Verdict{false, wrongKey, expect, r.ev.String()}
	case "bdf":
		b := r.ev.BDF
		if b == nil || b.Form != 0 || b.Negative != l.neg || !c24DecEqual(mant, exp.Int64(), new(big.Int).Abs(&b.Coeff), int64(b.Exponent)) {
			return c24Verdict{false, wrongKey, expect, r.ev.String()}
		}
		return c24Good()
	}
	return c24Verdict{false, wrongKey, expect, r.ev.String()}
}

// array header, e.g. "i16x": signed/unsigned/float, bits, mode (0 implicit, 2 8 16)
type c24ArrType struct {
	kind byte // 'i' 'u' 'f'
	bits int
	mode int
}

func c24ParseArrType(t string) (c24ArrType, bool) {
	lt := strings.ToLower(t)
	if len(lt) < 2 {
		return c24ArrType{}, false
	}
	a := c24ArrType{kind: lt[0]}
	rest := lt[1:]
	switch rest[len(rest)-1] {
	case 'b':
		a.mode = 2
	case 'o':
		a.mode = 8
	case 'x':
		a.mode = 16
	}
	if a.mode != 0 {
		rest = rest[:len(rest)-1]
	}
	n, err := strconv.Atoi(rest)
	if err != nil {
		return a, false
	}
	a.bits = n
	okBits := n == 8 || n == 16 || n == 32 || n == 64
	switch a.kind {
	case 'i', 'u':
		return a, okBits
	case 'f':
		return a, n != 8 && okBits && (a.mode == 0 || a.mode == 16)
	}
	return a, false
}

func (a c24ArrType) evType() events.ArrayType {
	idx := map[int]int{8: 0, 16: 1, 32: 2, 64: 3}[a.bits]
	switch a.kind {
	case 'u':
		return events.ArrayTypeUint8 + events.ArrayType(idx)
	case 'i':
		return events.ArrayTypeInt8 + events.ArrayType(idx)
	}
	return events.ArrayTypeFloat16 + events.ArrayType(idx-1)
}

// expected bytes of one element; reject when it does not fit; cls = defect class of the spelling
func c24RefElem(a c24ArrType, text string) (data []byte, reject bool, cls string, note string, ok bool) {
	switch a.kind {
	case 'i', 'u':
		l, pok := c24ParseInt(text, a.mode)
		if !pok || (a.kind == 'u' && l.neg) {
			return nil, false, "", "", false
		}
		cls = "other"
		switch {
		case a.mode != 0 && l.d.maxUs() > 0:
			cls = "separator-explicit-base"
		case a.mode == 0 && l.maxUsAfterLeadingZeros() > 1:
			cls = "repeated-separator"
		case a.mode == 0 && l.leadingZeroDec() && l.zeroBeforeSeparator():
			// repaired by 6b24587; kept so that a regression is reported under the old key
			cls = "leading-zero-separator"
		case a.mode == 0 && l.leadingZeroDec():
			// repaired by 601f9e0; kept so that a regression is reported under the old key
			cls = "decimal-leading-zero"
		}
		v := l.value()
		lo, hi := new(big.Int), new(big.Int)
		if a.kind == 'i' {
			hi.Lsh(big.NewInt(1), uint(a.bits-1))
			lo.Neg(hi)
		} else {
			hi.Lsh(big.NewInt(1), uint(a.bits))
		}
		if v.Cmp(lo) < 0 || v.Cmp(hi) >= 0 {
			return nil, true, cls, "", true
		}
		m := new(big.Int).Lsh(big.NewInt(1), uint(a.bits))
		v.Mod(v, m)
		return leBytes(v.Uint64(), a.bits), false, cls, "", true
	case 'f':
		l, pok := c24ParseFloat(text, a.mode == 16)
		if !pok {
			return nil, false, "", "", false
		}
		pat, rej, nt := c24RefFloatElem(l, a.bits, true)
		if rej {
			return nil, true, "float", nt, true
		}
		return leBytes(pat, a.bits), false, "float", nt, true
	}
	return nil, false, "", "", false
}

func c24ArrDoc(typ string, elems []string) string {
	return "c0 @" + typ + "[" + strings.Join(elems, " ") + "]"
}

// decode an array document; ok=false when rejected
func c24DecodeArr(a c24ArrType, doc string, rules bool) (data []byte, ok bool, all string) {
	r := c24DecodeWith(doc, rules)
	if !r.ok {
		return nil, false, r.all
	}
	if r.ev.K != "a" || r.ev.A != a.evType() || r.ev.N*uint64(a.bits/8) != uint64(len(r.ev.Data)) {
		return nil, false, "unexpected event " + r.all
	}
	return r.ev.Data, true, r.all
}

// one element evaluated in an array of its own
func c24CheckElem(typ string, text string) c24Verdict {
	a, ok := c24ParseArrType(typ)
	if !ok {
		return c24Verdict{ok: false, key: "C24/harness-bad-array-type", got: typ}
	}
	want, reject, cls, note, pok := c24RefElem(a, text)
	if !pok {
		return c24Verdict{ok: false, key: "C24/harness-bad-element", got: text}
	}
	if note != "" {
		return c24Verdict{false, "C24/reference-disagreement", note, text}
	}
	got, accepted, all := c24DecodeArr(a, c24ArrDoc(typ, []string{text}), true)
	expect := "rejected (does not fit " + typ + ")"
	if !reject {
		expect = "element bytes " + hex.EncodeToString(want)
	}
	gots := "rejected: " + all
	if accepted {
		gots = "element bytes " + hex.EncodeToString(got)
	}
	if reject == !accepted && (reject || string(want) == string(got)) {
		return c24Good()
	}
	key := ""
	switch {
	case a.kind != 'f' && cls != "other":
		key = "C24/array-int-" + cls
	case a.kind != 'f' && reject:
		key = "C24/array-int-range-not-rejected"
	case a.kind != 'f':
		key = "C24/array-int-other"
	case a.bits == 16:
		key = "C24/array-float-other"
		if accepted {
			l, _ := c24ParseFloat(text, a.mode == 16)
			tr, _, _ := c24RefFloatElem(l, 16, false)
			if string(leBytes(tr, 16)) == string(got) {
				key = "C24/array-f16-truncated-not-rounded"
				mant, _ := l.parts()
				if tr&0x7fff == 0 && mant.Sign() != 0 {
					key = "C24/array-f16-nonzero-becomes-zero"
				}
			}
		}
	default:
		key = "C24/array-float-other"
	}
	if a.kind == 'f' && accepted && reject {
		// a non-zero decimal spelling with an exponent below about -646 million comes out as zero
		l, _ := c24ParseFloat(text, a.mode == 16)
		_, exp := l.parts()
		zero := true
		for i, b := range got {
			if b != 0 && !(i == len(got)-1 && b == 0x80) {
				zero = false
			}
		}
		if zero && !l.hex && exp.Cmp(big.NewInt(-100000000)) < 0 {
			key = "C24/array-float-tiny-becomes-zero"
		}
	}
	return c24Verdict{false, key, expect, gots}
}

func c24CheckString(body []rune) (c24Verdict, c24StrInfo) {
	want, accept, info := c24RefString(body)
	r := c24DecodeWith("c0 \""+string(body), true)
	var got []byte
	accepted := false
	if r.ok && r.ev.K == "a" && r.ev.A == events.ArrayTypeString {
		got, accepted = r.ev.Data, true
	}
	if accept == accepted && (!accept || string(want) == string(got)) {
		return c24Good(), info
	}
	expect := "rejected"
	if accept {
		expect = "string bytes " + hex.EncodeToString(want)
	}
	gots := "rejected: " + r.all
	if accepted {
		gots = "string bytes " + hex.EncodeToString(got)
	}
	key := "C24/string-other"
	switch {
	case info.invalidCode > 0:
		key = "C24/codepoint-invalid-accepted"
	case info.nonASCIISentinel > 0:
		key = "C24/verbatim-nonascii-sentinel"
	case info.emptyVerb > 0:
		key = "C24/verbatim-empty-content"
	case info.multiSentinel > 0:
		key = "C24/verbatim-multichar-sentinel"
	}
	return c24Verdict{false, key, expect, gots}, info
}

// malformed numbers: a text over the numeric alphabet is accepted exactly when
// it is an integer or float literal (texts that could be dates are not judged)
func c24CheckNumberText(text string) (c24Verdict, string) {
	if _, ok := c24ParseInt(text, 0); ok {
		return c24CheckInt(text), "int"
	}
	if l, ok := c24ParseFloat(text, false); ok && (l.fp != nil || l.ex != nil) {
		return c24CheckFloat(text), "float"
	}
	if strings.Count(strings.TrimPrefix(text, "-"), "-") >= 2 || strings.Contains(text, ":") {
		return c24Good(), "date-like"
	}
	r := c24DecodeWith("c0 "+text, true)
	if r.ok {
		return c24Verdict{false, "C24/malformed-number-accepted", "rejected (not a literal of the grammar)", r.ev.String()}, "malformed"
	}
	return c24Good(), "malformed"
}

// ---------------------------------------------------------------------------
// generators

type c24Gen struct{ r *rand.Rand }

func (g *c24Gen) digitChar(v int) byte {
	if v < 10 {
		return byte('0' + v)
	}
	if g.r.Intn(2) == 0 {
		return byte('a' + v - 10)
	}
	return byte('A' + v - 10)
}

// separators: style 0 none, 1 at most one underscore between digits, 2 runs of 1..3
func (g *c24Gen) withSeps(chars []byte, style int) c24Dseq {
	d := c24Dseq{chars: chars, us: make([]int, len(chars))}
	for i := 1; i < len(chars); i++ {
		switch style {
		case 1:
			if g.r.Intn(3) == 0 {
				d.us[i] = 1
			}
		case 2:
			if g.r.Intn(3) == 0 {
				d.us[i] = 1 + g.r.Intn(3)
			}
		}
	}
	return d
}

func (g *c24Gen) sepStyle() int { return []int{0, 0, 0, 1, 1, 2}[g.r.Intn(6)] }

func (g *c24Gen) randDigits(base, n int) []byte {
	b := make([]byte, n)
	for i := range b {
		b[i] = g.digitChar(g.r.Intn(base))
	}
	return b
}

func (g *c24Gen) digitsOf(v *big.Int, base int, lead0 int) []byte {
	t := v.Text(base)
	b := make([]byte, 0, len(t)+lead0)
	for i := 0; i < lead0; i++ {
		b = append(b, '0')
	}
	for i := 0; i < len(t); i++ {
		b = append(b, g.digitChar(c24DigitVal(t[i])))
	}
	return b
}

var c24Pows = []uint{0, 3, 7, 8, 15, 16, 31, 32, 52, 53, 63, 64, 65, 100, 127, 128}

func (g *c24Gen) boundaryMag() *big.Int {
	switch g.r.Intn(4) {
	case 0:
		return big.NewInt(int64(g.r.Intn(20)))
	case 1:
		v := new(big.Int).Exp(big.NewInt(10), big.NewInt(int64(g.r.Intn(30))), nil)
		return v.Add(v, big.NewInt(int64(g.r.Intn(3)-1))).Abs(v)
	default:
		v := new(big.Int).Lsh(big.NewInt(1), c24Pows[g.r.Intn(len(c24Pows))])
		v.Add(v, big.NewInt(int64(g.r.Intn(5)-2)))
		return v.Abs(v)
	}
}

func (g *c24Gen) randMag(maxBits int) *big.Int {
	n := 1 + g.r.Intn(maxBits)
	v := new(big.Int)
	for i := 0; i < n; i += 31 {
		v.Lsh(v, 31)
		v.Or(v, big.NewInt(g.r.Int63()>>32))
	}
	return v.Rsh(v, uint(g.r.Intn(31)))
}

func (g *c24Gen) lead0() int {
	if g.r.Intn(10) < 7 {
		return 0
	}
	return 1 + g.r.Intn(3)
}

func (g *c24Gen) intLit(base int, mag *big.Int, allowNeg bool) c24Int {
	return c24Int{neg: allowNeg && g.r.Intn(3) == 0, base: base, upper: g.r.Intn(4) == 0,
		d: g.withSeps(g.digitsOf(mag, base, g.lead0()), g.sepStyle())}
}

var c24Bases = []int{10, 10, 10, 16, 16, 2, 8}

func (g *c24Gen) anyInt() c24Int {
	base := c24Bases[g.r.Intn(len(c24Bases))]
	var mag *big.Int
	if g.r.Intn(2) == 0 {
		mag = g.boundaryMag()
	} else {
		mag = g.randMag(140)
	}
	return g.intLit(base, mag, true)
}

// an element aimed at an integer array type: mostly in range, boundaries, some out of range
func (g *c24Gen) elemInt(a c24ArrType) c24Int {
	base := a.mode
	if base == 0 {
		base = c24Bases[g.r.Intn(len(c24Bases))]
	}
	limit := new(big.Int).Lsh(big.NewInt(1), uint(a.bits))
	if a.kind == 'i' {
		limit.Rsh(limit, 1)
	}
	var mag *big.Int
	switch g.r.Intn(8) {
	case 0: // boundary
		mag = new(big.Int).Add(limit, big.NewInt(int64(g.r.Intn(4)-2)))
	case 1:
		mag = big.NewInt(int64(g.r.Intn(10)))
	case 2: // out of range
		mag = new(big.Int).Add(limit, g.randMag(a.bits+8))
	default:
		mag = g.randMag(a.bits + 6)
		mag.Mod(mag, limit)
	}
	l := g.intLit(base, mag, a.kind == 'i')
	if a.kind == 'i' && g.r.Intn(8) == 0 && mag.Cmp(limit) == 0 {
		l.neg = true
	}
	return l
}

func (g *c24Gen) expPart(maxDigits int, small bool) *c24Exp {
	n := 1 + g.r.Intn(maxDigits)
	var v *big.Int
	if small {
		v = big.NewInt(int64(g.r.Intn(60)))
	} else {
		v = g.randMag(n * 3)
	}
	chars := g.digitsOf(v, 10, []int{0, 0, 0, 1, 2}[g.r.Intn(5)])
	return &c24Exp{upper: g.r.Intn(3) == 0, sign: g.r.Intn(3), d: g.withSeps(chars, g.sepStyle())}
}

// float literal; top: must have fraction or exponent; style picks the exponent range
func (g *c24Gen) floatLit(hex bool, prefix bool, top bool, intDigits, fracDigits int, ex *c24Exp) c24Float {
	base := 10
	if hex {
		base = 16
	}
	l := c24Float{neg: g.r.Intn(3) == 0, hex: hex, prefix: -1}
	if prefix {
		l.prefix = g.r.Intn(2)
	}
	ip := g.randDigits(base, intDigits)
	if g.r.Intn(4) == 0 {
		ip = append([]byte(strings.Repeat("0", 1+g.r.Intn(2))), ip...)
	}
	l.ip = g.withSeps(ip, g.sepStyle())
	if fracDigits > 0 {
		d := g.withSeps(g.randDigits(base, fracDigits), g.sepStyle())
		l.fp = &d
	}
	l.ex = ex
	if top && l.fp == nil && l.ex == nil {
		d := g.withSeps([]byte{'0'}, 0)
		l.fp = &d
	}
	return l
}

func (g *c24Gen) anyFloat(hex, prefix, top bool) c24Float {
	var ex *c24Exp
	switch g.r.Intn(6) {
	case 0:
	case 1:
		ex = g.expPart(5, false)
	default:
		ex = g.expPart(2, true)
	}
	id, fd := 1+g.r.Intn(6), g.r.Intn(8)
	switch g.r.Intn(8) {
	case 0:
		id = 15 + g.r.Intn(10) // around the int64 / uint64 coefficient limits
	case 1:
		fd = 12 + g.r.Intn(14)
	}
	l := g.floatLit(hex, prefix, top, id, fd, ex)
	if g.r.Intn(12) == 0 { // zero mantissa
		l.ip = g.withSeps([]byte(strings.Repeat("0", 1+g.r.Intn(3))), 0)
		if l.fp != nil {
			d := g.withSeps([]byte(strings.Repeat("0", 1+g.r.Intn(3))), 0)
			l.fp = &d
		}
	}
	return l
}

// a float spelling of a given exact value neighbourhood: mantissa digits of v, exponent e
func (g *c24Gen) floatOf(hex, prefix bool, mant *big.Int, fracDigits int, e int64, withExp bool) c24Float {
	base := 10
	if hex {
		base = 16
	}
	chars := g.digitsOf(mant, base, 0)
	for len(chars) <= fracDigits {
		chars = append([]byte{'0'}, chars...)
	}
	l := c24Float{neg: g.r.Intn(4) == 0, hex: hex, prefix: -1}
	if prefix {
		l.prefix = g.r.Intn(2)
	}
	l.ip = g.withSeps(chars[:len(chars)-fracDigits], g.sepStyle())
	if fracDigits > 0 {
		d := g.withSeps(chars[len(chars)-fracDigits:], g.sepStyle())
		l.fp = &d
	}
	if withExp {
		ex := &c24Exp{upper: g.r.Intn(3) == 0, d: g.withSeps([]byte(strconv.FormatInt(abs64(e), 10)), 0)}
		if e < 0 {
			ex.sign = 2
		} else {
			ex.sign = g.r.Intn(2)
		}
		l.ex = ex
	}
	return l
}

// ---- strings ----

type c24Item struct {
	kind            byte // c e x n v
	c               rune
	hex             string
	ws              []rune
	sent, sep, cont []rune
}

func (it c24Item) render() []rune {
	switch it.kind {
	case 'c':
		return []rune{it.c}
	case 'e':
		return []rune{'\\', it.c}
	case 'x':
		return append(append([]rune{'\\', '['}, []rune(it.hex)...), ']')
	case 'n':
		return append([]rune{'\\', it.c}, it.ws...)
	}
	r := append([]rune{'\\', '.'}, it.sent...)
	r = append(r, it.sep...)
	r = append(r, it.cont...)
	return append(r, it.sent...)
}

var c24PlainChars = []rune("abcxyz019 AZ_-.,;:!?#$%&'()*+/<=>@[]^`{|}~\t\n\r\u00a0\u00ad\u00a1\u00e9\u00ff\u0394\u65e5\u672c\U0001F600")
var c24SentinelChars = []rune("ab@#|'!x9\u00a1\u00e9\u65e5")
var c24EscChars = []rune("rRnNtT\"*/\\-_")
var c24CodePoints = []int64{0, 1, 0x41, 0x7f, 0x80, 0x7ff, 0x800, 0xd7ff, 0xd800, 0xdbff, 0xdfff, 0xe000, 0xfffd, 0xffff, 0x10000, 0x1f600, 0x10ffff, 0x110000, 0x7fffffff, 0x80000000, 0xffffffff, 0x100000000}

func (g *c24Gen) pick(rs []rune) rune { return rs[g.r.Intn(len(rs))] }

func (g *c24Gen) verbatim(sentinelLen int, asciiOnly bool, empty bool) c24Item {
	it := c24Item{kind: 'v'}
	for {
		it.sent = it.sent[:0]
		for i := 0; i < sentinelLen; i++ {
			c := g.pick(c24SentinelChars)
			if asciiOnly && c >= 128 {
				c = 'a'
			}
			it.sent = append(it.sent, c)
		}
		it.sep = [][]rune{{' '}, {' '}, {'\t'}, {'\n'}, {'\r', '\n'}}[g.r.Intn(5)]
		it.cont = nil
		if !empty {
			n := 1 + g.r.Intn(6)
			for i := 0; i < n; i++ {
				switch g.r.Intn(5) {
				case 0: // characters of the sentinel itself: near misses
					it.cont = append(it.cont, it.sent[g.r.Intn(len(it.sent))])
				case 1:
					it.cont = append(it.cont, g.pick([]rune("\\\"[].\x01\x7f")))
				default:
					it.cont = append(it.cont, g.pick(c24PlainChars))
				}
			}
		}
		// the sentinel must first occur at the very end
		full := append(append([]rune{}, it.cont...), it.sent...)
		first := 0
		for !runesHasPrefix(full[first:], it.sent) {
			first++
		}
		if first == len(it.cont) {
			return it
		}
	}
}

// style: 0 plain+escapes, 1 simple verbatim (1-char ASCII sentinel, non-empty), 2 any verbatim, 3 code points
func (g *c24Gen) stringItems(style int) []c24Item {
	n := 1 + g.r.Intn(8)
	items := []c24Item{}
	afterCont := false
	for i := 0; i < n; i++ {
		var it c24Item
		k := g.r.Intn(10)
		switch {
		case k < 4:
			it = c24Item{kind: 'c', c: g.pick(c24PlainChars)}
			if afterCont && c24IsWS(it.c) {
				it.c = 'q'
			}
		case k < 6:
			it = c24Item{kind: 'e', c: g.pick(c24EscChars)}
		case k < 7:
			it = c24Item{kind: 'n', c: g.pick([]rune("\n\r"))}
			for j := g.r.Intn(4); j > 0; j-- {
				it.ws = append(it.ws, g.pick([]rune(" \t\n\r")))
			}
		case k < 8 || style == 0:
			var v int64
			if style == 3 || g.r.Intn(3) == 0 {
				v = c24CodePoints[g.r.Intn(len(c24CodePoints))]
			} else {
				v = []int64{0x41, 0xe9, 0x65e5, 0x1f600, 0x10ffff}[g.r.Intn(5)]
			}
			h := strconv.FormatInt(v, 16)
			if g.r.Intn(3) == 0 {
				h = strings.ToUpper(h)
			}
			it = c24Item{kind: 'x', hex: strings.Repeat("0", g.r.Intn(3)) + h}
		case style == 1:
			it = g.verbatim(1, true, false)
		default:
			it = g.verbatim(1+g.r.Intn(3), g.r.Intn(6) != 0, g.r.Intn(4) == 0)
		}
		afterCont = it.kind == 'n'
		items = append(items, it)
	}
	return items
}

func c24Body(items []c24Item) []rune {
	b := []rune{}
	for _, it := range items {
		b = append(b, it.render()...)
	}
	return append(b, '"')
}

// ---------------------------------------------------------------------------
// run

type c24Run struct {
	c  *Ctx
	g  *c24Gen
	cf *caseFile
}

func (x *c24Run) verdict(kind string, v c24Verdict, input map[string]string) {
	if v.ok {
		x.c.Dist("oracle/" + kind + "/ok")
		return
	}
	x.c.Dist("oracle/" + kind + "/FAIL")
	x.c.Fail(Replay{Kind: kind, Key: v.key, Input: input, Expect: v.expect, Got: v.got})
}

func c24SepClass(maxUs int) string {
	return []string{"none", "single", "repeated", "repeated"}[min(maxUs, 3)]
}

func min(a, b int) int {
	if a < b {
		return a
	}
	return b
}

func (x *c24Run) oneInt(l c24Int) {
	text := l.render(true)
	if _, ok := c24ParseInt(text, 0); !ok {
		panic("c24: generator produced a non-literal: " + text)
	}
	x.c.Count("int|"+text, l.neg || l.base != 10 || l.d.maxUs() > 0 || len(l.d.chars) > 3)
	x.c.Dist(fmt.Sprintf("int/base=%d/sep=%s/leading0=%v", l.base, c24SepClass(l.d.maxUs()), len(l.d.chars) > 1 && l.d.chars[0] == '0'))
	x.verdict("int", c24CheckInt(text), map[string]string{"text": text})
	raw := c24DecodeWith("c0 "+text, false)
	x.cf.Add(cApp("CInt", cBytes([]byte(text)), c24LitResult(raw)), "int "+text+" -> "+raw.all)
	x.c.Sample(map[string]string{"kind": "int", "text": text, "events": raw.all})
}

func (x *c24Run) oneFloat(l c24Float) {
	text := l.render()
	if p, ok := c24ParseFloat(text, false); !ok || (p.fp == nil && p.ex == nil) {
		panic("c24: generator produced a non-literal: " + text)
	}
	x.c.Count("float|"+text, true)
	kind := "dec"
	if l.hex {
		kind = "hex"
	}
	mant, _ := l.parts()
	x.c.Dist(fmt.Sprintf("float/%s/mantissa-bits<=%d/exp=%v", kind, ((mant.BitLen()+31)/32)*32, l.ex != nil))
	x.verdict("float", c24CheckFloat(text), map[string]string{"text": text})
	raw := c24DecodeWith("c0 "+text, false)
	x.cf.Add(cApp("CFloat", cBytes([]byte(text)), c24LitResult(raw)), "float "+text+" -> "+raw.all)
	if l.hex || l.ex != nil {
		x.c.Sample(map[string]string{"kind": "float", "text": text, "events": raw.all})
	}
}

func (x *c24Run) oneArray(typ string, elems []string) {
	a, ok := c24ParseArrType(typ)
	if !ok {
		panic("c24: bad array type " + typ)
	}
	doc := c24ArrDoc(typ, elems)
	x.c.Count("arr|"+doc, true)
	// expectation for the whole array
	var want []byte
	reject := false
	for _, e := range elems {
		d, rej, _, _, pok := c24RefElem(a, e)
		if !pok {
			panic("c24: generator produced a non-element: " + typ + " " + e)
		}
		if rej {
			reject = true
		}
		want = append(want, d...)
	}
	got, accepted, _ := c24DecodeArr(a, doc, true)
	x.c.Dist(fmt.Sprintf("array/%c%d/mode=%d/accepted=%v", a.kind, a.bits, a.mode, accepted))
	if reject == !accepted && (reject || string(want) == string(got)) {
		x.c.Dist("oracle/array/ok")
	} else {
		// attribute to elements
		found := false
		for _, e := range elems {
			if v := c24CheckElem(typ, e); !v.ok {
				found = true
				x.verdict("elem", v, map[string]string{"type": typ, "text": e})
			}
		}
		if !found {
			x.verdict("array", c24Verdict{false, "C24/array-other", hex.EncodeToString(want), hex.EncodeToString(got)}, map[string]string{"type": typ, "elems": strings.Join(elems, " ")})
		}
	}
	rawData, rawOK, rawAll := c24DecodeArr(a, doc, false)
	ctor := map[byte]string{'i': "CIntArr", 'u': "CUintArr", 'f': "CFloatArr"}[a.kind]
	first := cNi(a.mode)
	if a.kind == 'f' {
		first = cBool(a.mode == 16)
	}
	x.cf.Add(cApp(ctor, first, cNi(a.bits), cBytesList(elems), cOutBytes(rawOK, rawData)), doc+" -> "+rawAll)
	if a.mode != 0 || a.kind == 'f' {
		x.c.Sample(map[string]string{"kind": "array", "doc": doc, "events": rawAll})
	}
}

func (x *c24Run) oneString(body []rune, label string) {
	v, info := c24CheckString(body)
	x.c.Count("str|"+string(body), info.verbatims+info.escapes+info.codes+info.conts > 0)
	x.c.Dist(fmt.Sprintf("string/%s/verbatim=%d/escapes>0=%v/codepoints>0=%v", label, min(info.verbatims, 3), info.escapes+info.conts > 0, info.codes > 0))
	x.verdict("string", v, map[string]string{"body_hex": hex.EncodeToString([]byte(string(body)))})
	raw := c24DecodeWith("c0 \""+string(body), false)
	var data []byte
	ok := raw.ok && raw.ev.K == "a" && raw.ev.A == events.ArrayTypeString
	if ok {
		data = raw.ev.Data
	}
	x.cf.Add(cApp("CString", cRunes(body), cOutBytes(ok, data)), fmt.Sprintf("string body %q -> %s", string(body), raw.all))
	if info.verbatims > 0 {
		x.c.Sample(map[string]string{"kind": "string", "body": string(body), "events": raw.all})
	}
}

func (x *c24Run) arrTyp(kind byte, bits, mode int) string {
	t := fmt.Sprintf("%c%d%s", kind, bits, map[int]string{0: "", 2: "b", 8: "o", 16: "x"}[mode])
	if x.g.r.Intn(5) == 0 {
		t = strings.ToUpper(t)
	}
	return t
}

func runC24(c *Ctx) {
	c.Rep.Rule = "grammar-driven spellings (CTELexer.g4): integers (4 bases, prefix case, separators, leading zeros, sign, boundaries 2^k+-2, 10^k), " +
		"decimal and hex floats (fraction, exponent, long mantissas, coefficients around 2^63/2^64, exponents around +-2^31), typed-array elements (i/u 8..64 x implicit/b/o/x, " +
		"f16/32/64 x implicit/x; range boundaries), strings (plain, named escapes, \\[hex], continuations, verbatim with 1..3 char sentinels, empty contents, near-miss contents), " +
		"plus mutated (malformed) numbers and string bodies; non-trivial = uses at least one feature beyond plain decimal digits / plain characters; distinct = distinct (kind, text)"
	x := &c24Run{c: c, g: &c24Gen{r: c.Rng}}
	x.cf = c.Cases("ctelit", "CE.Model.CteLit", "ctelit_case", "ctelit_case_ok")
	g := x.g

	// ---- integers
	for _, t := range []string{"0", "-0", "7", "010", "08", "0_10", "007", "00", "-00", "-010", "0x1_f", "0b1__01", "0o17", "-0o17", "0Xff", "0B11", "0O7",
		"9223372036854775807", "9223372036854775808", "-9223372036854775808", "-9223372036854775809", "18446744073709551615", "18446744073709551616",
		"0xffffffffffffffff", "-0x8000000000000000", "1__0", "0x0", "-0x0", "-0b0", "0o0", "09", "0777", "0_8"} {
		l, ok := c24ParseInt(t, 0)
		if !ok {
			panic("c24: fixed int " + t)
		}
		x.oneInt(l)
	}
	for i := 0; i < c.Pick(260, 6000); i++ {
		x.oneInt(g.anyInt())
	}

	// ---- top-level floats
	for _, t := range []string{"1.5", "-0.0", "0.0", "-0e5", "01.5", "1_0.2_5e1_0", "1e5", "1E-5", "0.1", "-1.0e+0_3",
		"9223372036854775807.0", "9223372036854775808.0", "-9223372036854775808.0", "1844674407370955161.5", "1844674407370955161.6", "1844674407370955162.0", "18446744073709551620.0",
		"18446744073709551616e0", "27670116110564327424.0", "92233720368547758079.5", "123456789012345678901234567890.5e10",
		"1.55e-2147483647", "1.5e-2147483647", "10e2147483647", "100e2147483647", "1e2147483647", "1e2147483648", "1e-2147483648", "0.0e-2147483647", "1e99999", "1e-99999", "12345678901234567890123e99990",
		"0x1.8p3", "-0x0.0p0", "0x0p0", "0x1p-1074", "0x1p-1075", "0x1.fffffffffffffp1023", "0x1.fffffffffffff8p1023", "0x1p1024", "0x123456789abcdef01p0", "0x1.8", "0x00001p0",
		"0x1.0000000000000000000000000p0", "0x1_0.8_0p1_0", "0X1P5", "-0x1.8p-3", "0x1p99999999999", "0x1p-99999999999", "0x0.0000000000000000000001p0", "0x1.fffffffffffff0p-1023", "0x0.8p-1073", "0x1.8p-1074"} {
		l, ok := c24ParseFloat(t, false)
		if !ok {
			panic("c24: fixed float " + t)
		}
		x.oneFloat(l)
	}
	for i := 0; i < c.Pick(160, 4000); i++ {
		x.oneFloat(g.anyFloat(false, false, true))
	}
	for i := 0; i < c.Pick(110, 3000); i++ {
		x.oneFloat(g.anyFloat(true, true, true))
	}
	// coefficients around the int64 / uint64 limits of the compact decimal type
	for i := 0; i < c.Pick(60, 1500); i++ {
		k := []uint{63, 64, 64, 65, 66}[g.r.Intn(5)]
		m := new(big.Int).Lsh(big.NewInt(int64(1+g.r.Intn(4))), k-uint(g.r.Intn(2)))
		m.Add(m, big.NewInt(g.r.Int63n(1<<40)-(1<<39)))
		if g.r.Intn(2) == 0 {
			m.Add(m, new(big.Int).Rsh(g.randMag(64), 1))
		}
		fd := g.r.Intn(4)
		x.oneFloat(g.floatOf(false, false, m, fd, int64(g.r.Intn(40)-20), fd == 0 || g.r.Intn(2) == 0))
	}
	// long hex mantissas around the binary64 precision
	for i := 0; i < c.Pick(40, 1000); i++ {
		m := g.randMag(40 + g.r.Intn(120))
		if g.r.Intn(2) == 0 {
			m.Lsh(m, uint(g.r.Intn(70)))
		}
		x.oneFloat(g.floatOf(true, true, m, g.r.Intn(6), int64(g.r.Intn(2300)-1150), true))
	}

	// ---- integer arrays
	for _, fx := range [][2]string{{"i8", "010"}, {"i8", "08"}, {"i8", "1_0"}, {"i8", "1__0"}, {"i8", "-128 127"}, {"i8", "128"}, {"i8", "-129"}, {"i8", "0x7f -0x80 0b101 0o17"},
		{"i8x", "7f -80"}, {"i8x", "f_f"}, {"u8x", "f_f"}, {"u8", "0_1"}, {"u8", "256"}, {"u8", "255 0xff"}, {"u8b", "1111_1111"}, {"u8b", "11111111"}, {"u8o", "377"}, {"u16", "65535"}, {"u16", "65536"},
		{"u64", "18446744073709551615"}, {"u64", "18446744073709551616"}, {"i64", "-9223372036854775808"}, {"i16x", "-8000 7fff"}, {"i16x", "8000"}, {"I32O", "17777777777 -20000000000"}, {"u32b", "0 1 10"}, {"i8", "0200"}, {"u8", "0400"}, {"u32", "0008"}, {"i8", "-010"}, {"i8", "0_10"}, {"i8", "00_8"}, {"u8", "0_8"}, {"u8", "00 0_0"}, {"i8", "0__1"}, {"i16", "0___0_12"}, {"i8", "0_1__2"}, {"i8", "-0_0"}, {"i8", "0x0__1"}} {
		x.oneArray(fx[0], strings.Split(fx[1], " "))
	}
	for i := 0; i < c.Pick(240, 6000); i++ {
		a := c24ArrType{kind: "iu"[g.r.Intn(2)], bits: []int{8, 16, 32, 64}[g.r.Intn(4)], mode: []int{0, 0, 2, 8, 16}[g.r.Intn(5)]}
		clean := g.r.Intn(10) < 6
		n := 1 + g.r.Intn(4)
		elems := []string{}
		for j := 0; j < n; j++ {
			l := g.elemInt(a)
			if clean {
				// keep to the spellings every mode handles: no leading zero in decimal, separators only where the mode takes them
				if a.mode == 0 && l.leadingZeroDec() {
					l.d = g.withSeps(g.digitsOf(l.mag(), 10, 0), 0)
				}
				for k := range l.d.us {
					if a.mode != 0 {
						l.d.us[k] = 0
					} else if l.d.us[k] > 1 {
						l.d.us[k] = 1
					}
				}
			}
			elems = append(elems, l.render(a.mode == 0))
		}
		x.oneArray(x.arrTyp(a.kind, a.bits, a.mode), elems)
	}

	// ---- float arrays
	for _, fx := range [][2]string{{"f32", "1.5 010 0x1.8p1 -0.0 1e-5"}, {"f32", "1e39"}, {"f32", "1e-46"}, {"f32", "1e-45"}, {"f16", "1.5 1.01"}, {"f16", "1e-45"}, {"f16", "3.4e38"}, {"f16", "1e-40"}, {"f16", "1.015"}, {"f16", "1.01171875"}, {"f16", "1.00390625"},
		{"f64", "1e-324"}, {"f64", "1e-323"}, {"f64", "1e309"}, {"f64", "0.1 1_0.5e0_1"}, {"f32x", "1.8p1 a e 1e5 -1.8"}, {"f64x", "1.8p1 ff.f"}, {"f16x", "1.8p1 -1.01p0 0"}, {"f64", "2.4703282292062327e-324"}, {"f64", "2.4703282292062328e-324"},
		{"f64", "1.7976931348623158e308"}, {"f64", "1.7976931348623159e308"}, {"f32", "3.4028235677973366e38"}, {"f32", "3.4028235e38"}, {"f32", "16777217 16777219 0x1.000001p0 0x1.000003p0"}, {"f64", "9007199254740993 0x1.00000000000008p0"}, {"f32", "0e999999999 0"}, {"f64", "1e99999 "}, {"f64", "1E-1609298120"}, {"f32", "1e-700000000"}, {"f16", "-12.5e-700000000"}, {"f64", "1e-600000000"}, {"f64", "1e-2147483700"}, {"f64x", "1p-1609298120"}, {"f64", "0x1p-1609298120"}} {
		x.oneArray(fx[0], strings.Fields(fx[1]))
	}
	for bits := 16; bits <= 64; bits *= 2 {
		for which, name := range []string{"nan", "snan", "inf", "-inf"} {
			typ := fmt.Sprintf("f%d", bits)
			if which%2 == 1 {
				typ += "x"
			}
			a, _ := c24ParseArrType(typ)
			doc := c24ArrDoc(typ, []string{name})
			d, ok, all := c24DecodeArr(a, doc, false)
			c.Count("arr|"+doc, true)
			x.cf.Add(cApp("CSpecialArr", cNi(bits), cNi(which), cOutBytes(ok, d)), doc+" -> "+all)
			// oracle: the element is the named special value
			if ok && len(d) == bits/8 {
				v := uint64(0)
				for i := len(d) - 1; i >= 0; i-- {
					v = v<<8 | uint64(d[i])
				}
				f := c24Fmts[bits]
				mag := v &^ f.sign
				good := (which >= 2 && mag == f.inf && (v&f.sign != 0) == (which == 3)) || (which < 2 && mag > f.inf)
				if !good {
					x.verdict("elem", c24Verdict{false, "C24/array-float-special", name, hex.EncodeToString(d)}, map[string]string{"type": typ, "text": name})
				}
			} else {
				x.verdict("elem", c24Verdict{false, "C24/array-float-special", name, "rejected: " + all}, map[string]string{"type": typ, "text": name})
			}
		}
	}
	for i := 0; i < c.Pick(260, 6000); i++ {
		bits := []int{16, 32, 64}[g.r.Intn(3)]
		hexMode := g.r.Intn(3) == 0
		n := 1 + g.r.Intn(3)
		elems := []string{}
		for j := 0; j < n; j++ {
			var l c24Float
			switch g.r.Intn(6) {
			case 0: // near the top / bottom of the element range
				f := c24Fmts[bits]
				top := int64(1) << (uint(map[int]int{16: 8, 32: 8, 64: 11}[bits]) - 1)
				e2 := []int64{top - 1, top, -top - int64(f.p) + 2, -top - int64(f.p) + 1, -top - int64(f.p) - 1}[g.r.Intn(5)]
				m := g.randMag(int(f.p) + 3)
				m.SetBit(m, 0, 1)
				if hexMode || g.r.Intn(2) == 0 {
					l = g.floatOf(true, !hexMode, m, 0, e2-int64(m.BitLen())+1, true)
				} else {
					// decimal spelling of roughly that magnitude
					x10 := int64(float64(e2) * 0.30103)
					l = g.floatOf(false, false, g.randMag(40), 3, x10-int64(g.r.Intn(14)), true)
				}
			case 1: // ties and near-ties of the significand
				f := c24Fmts[bits]
				m := g.randMag(int(f.p))
				m.SetBit(m, int(f.p)-1, 1)
				m.Lsh(m, 1+uint(g.r.Intn(3)))
				m.Add(m, big.NewInt(int64(g.r.Intn(3))))
				l = g.floatOf(true, !hexMode, m, 0, int64(g.r.Intn(60)-30), true)
			default:
				if hexMode {
					l = g.anyFloat(true, false, false)
				} else if g.r.Intn(4) == 0 {
					l = g.anyFloat(true, true, false)
				} else {
					l = g.anyFloat(false, false, false)
				}
			}
			if hexMode {
				l.prefix = -1
				l.hex = true
			}
			t := l.render()
			if _, ok := c24ParseFloat(t, hexMode); !ok {
				panic("c24: generator produced a non-element: " + t)
			}
			elems = append(elems, t)
		}
		mode := 0
		if hexMode {
			mode = 16
		}
		x.oneArray(x.arrTyp('f', bits, mode), elems)
	}

	// ---- strconv's rounding alone against the model's rne
	for i := 0; i < c.Pick(150, 3000); i++ {
		w := []int{32, 64}[g.r.Intn(2)]
		hexm := g.r.Intn(2) == 0
		m := g.randMag(10 + g.r.Intn(120))
		var e int64
		var text string
		if hexm {
			e = int64(g.r.Intn(2600) - 1300)
			text = fmt.Sprintf("0x%sp%d", m.Text(16), e)
		} else {
			e = int64(g.r.Intn(700) - 380)
			text = fmt.Sprintf("%se%d", m.String(), e)
		}
		f, _ := strconv.ParseFloat(text, w)
		var bitsv uint64
		if w == 64 {
			bitsv = math.Float64bits(f)
		} else {
			bitsv = uint64(math.Float32bits(float32(f)))
		}
		c.Count("round|"+text+fmt.Sprint(w), true)
		c.Dist(fmt.Sprintf("round/w=%d/hex=%v", w, hexm))
		x.cf.Add(cApp("CRound", cNi(w), cBool(hexm), cBigN(m), cZ(e), cN(bitsv)), fmt.Sprintf("strconv.ParseFloat(%s, %d) = %x", text, w, bitsv))
	}

	// ---- strings
	for _, b := range []string{`abc"`, `a\nb\tc\rd"`, `\N\T\R"`, `\"\*\/\\"`, `\-\_"`, `\[41]"`, `\[1f600]"`, `\[d800]"`, `\[110000]"`, `\[ffffffff]"`, `\[100000000]"`, `\[0]"`,
		"a\\\n   b\"", "a\\\r\n \t b\"", `\.@ abc@"`, `\.@@ abc@def@@x"`, `\.ab xaab"`, `\.ab ab"`, `\.ab abab"`, `\.a a"`, `\.a aa"`, `x\.a qa\.a a"`, `x\.a qa\.a ra"`, `x\.a qa\.xy yxy"`,
		`\.ab aab"`, `\.abc ababc"`, `\.aba abababa"`, `\.aba xababa"`, "\\.\u00e9 abc\u00e9\"", "\\.\u65e5 x\u65e5\"", "\\.@ \u65e5\u672c@\"", "\\.@\tabc@\"", "\\.@\nabc@\"", "\\.@\r\nabc@\"", "\\.@\rabc@\"",
		`\.@ a\nb\[41]"c@"`, `\.## a###"`, `\x"`, `\[]"`, `\[g]"`, "a\x01b\"", "a\x7fb\"", `abc" `, `abc"x`, `abc`, `\.a ba\.bcd cdbcd"`} {
		x.oneString([]rune(b), "fixed")
	}
	for i := 0; i < c.Pick(300, 8000); i++ {
		style := []int{0, 0, 1, 1, 2, 2, 2, 3}[g.r.Intn(8)]
		x.oneString(c24Body(g.stringItems(style)), []string{"plain", "simple-verbatim", "any-verbatim", "codepoints"}[style])
	}

	// ---- malformed stream
	mutAlphabet := []rune("abcq \\\"[].@#\n\t\x01\x7f\u00e9\u65e5_-*/rnt0f")
	for i := 0; i < c.Pick(150, 5000); i++ {
		body := c24Body(g.stringItems(g.r.Intn(4)))
		for k := 1 + g.r.Intn(2); k > 0; k-- {
			pos := g.r.Intn(len(body))
			switch g.r.Intn(3) {
			case 0:
				body = append(body[:pos], body[pos+1:]...)
			case 1:
				body = append(body[:pos], append([]rune{mutAlphabet[g.r.Intn(len(mutAlphabet))]}, body[pos:]...)...)
			default:
				body[pos] = mutAlphabet[g.r.Intn(len(mutAlphabet))]
			}
			if len(body) == 0 {
				body = []rune{'"'}
			}
		}
		x.oneString(body, "mutated")
	}
	numAlphabet := []byte("0123456789abcdefxXoObBpPeE._+-")
	for i := 0; i < c.Pick(300, 8000); i++ {
		var text string
		if g.r.Intn(2) == 0 {
			text = g.anyInt().render(true)
		} else {
			text = g.anyFloat(g.r.Intn(2) == 0, true, true).render()
			if !strings.HasPrefix(strings.TrimPrefix(text, "-"), "0") && g.r.Intn(2) == 0 {
				text = strings.Replace(text, "0x", "", 1)
			}
		}
		b := []byte(text)
		for k := 1 + g.r.Intn(2); k > 0 && len(b) > 0; k-- {
			pos := g.r.Intn(len(b))
			switch g.r.Intn(3) {
			case 0:
				b = append(b[:pos], b[pos+1:]...)
			case 1:
				b = append(b[:pos], append([]byte{numAlphabet[g.r.Intn(len(numAlphabet))]}, b[pos:]...)...)
			default:
				b[pos] = numAlphabet[g.r.Intn(len(numAlphabet))]
			}
		}
		if len(b) == 0 {
			continue
		}
		v, cls := c24CheckNumberText(string(b))
		c.Count("num|"+string(b), true)
		c.Dist("mutated-number/" + cls)
		x.verdict("number-text", v, map[string]string{"text": string(b)})
	}
}

func replayC24(r *Replay) (bool, string) {
	var v c24Verdict
	switch r.Kind {
	case "int":
		v = c24CheckInt(r.Input["text"])
	case "float":
		v = c24CheckFloat(r.Input["text"])
	case "elem":
		if t := r.Input["text"]; t == "nan" || t == "snan" || t == "inf" || t == "-inf" {
			return false, "special float elements are re-checked by the full run only"
		}
		v = c24CheckElem(r.Input["type"], r.Input["text"])
	case "array":
		ok := true
		for _, e := range strings.Fields(r.Input["elems"]) {
			if w := c24CheckElem(r.Input["type"], e); !w.ok {
				ok, v = false, w
			}
		}
		if ok {
			return true, "every element of the array decodes to its value"
		}
	case "string":
		b, err := hex.DecodeString(r.Input["body_hex"])
		if err != nil {
			return false, "bad replay input"
		}
		v, _ = c24CheckString([]rune(string(b)))
	case "number-text":
		v, _ = c24CheckNumberText(r.Input["text"])
	default:
		return false, "unknown replay kind " + r.Kind
	}
	if v.ok {
		return true, "decoded value equals the reference value"
	}
	return false, fmt.Sprintf("[%s] required %s, implementation: %s", v.key, v.expect, v.got)
}

var _ = utf8.RuneError
