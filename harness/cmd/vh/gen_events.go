package main

import (
	"fmt"
	"math"
	"math/big"
	"math/rand"
	"strings"

	"github.com/cockroachdb/apd/v2"
	compact_float "github.com/kstenerud/go-compact-float"
	compact_time "github.com/kstenerud/go-compact-time"
	"github.com/kstenerud/go-concise-encoding/ce/events"
)

// EvGen builds random rules-valid documents as trees and flattens them to events.
type EvGen struct {
	R    *rand.Rand
	Opt  GenOpts
	ids  int
	defd []markInfo // markers already emitted (id, keyable)
	recs []recInfo
	// kinds used, for the input-distribution report
	Kinds map[string]int
}

type markInfo struct {
	id      string
	keyable bool
}
type recInfo struct {
	name  string
	arity int
}

type GenOpts struct {
	MaxDepth, MaxFan          int
	Comments, Padding         bool
	Markers, Records          bool
	Edges, Nodes              bool
	Media, Custom, CustomText bool
	BigNums, Times, Remote    bool
	ChunkArrays               bool // deliver arrays through begin/chunk/data
	NonFloat64BigFloats       bool // big floats that are not exactly a float64 (known CBE/CTE finding)
	NestedMarkers             bool // markers inside marked containers (known validator finding)
	NegIntForms               bool // allow ni / i / bi spellings of the same negative key in one map (known finding) -- never on by default
	Unicode                   bool
}

func DefaultGenOpts() GenOpts {
	return GenOpts{MaxDepth: 4, MaxFan: 5, Comments: true, Padding: true, Markers: true, Records: true, Edges: true, Nodes: true,
		Media: true, Custom: true, CustomText: true, BigNums: true, Times: true, Remote: true, ChunkArrays: true, Unicode: true}
}

func NewEvGen(r *rand.Rand, opt GenOpts) *EvGen {
	return &EvGen{R: r, Opt: opt, Kinds: map[string]int{}}
}

func (g *EvGen) kind(k string) { g.Kinds[k]++ }

var boundaryMagnitudes = []uint64{0, 1, 2, 99, 100, 101, 127, 128, 255, 256, 65535, 65536, 1<<24 - 1, 1 << 24, 1<<32 - 1, 1 << 32, 1<<40 - 1,
	1<<47 - 1, 1 << 47, 1<<48 - 1, 1 << 48, 1<<53 - 1, 1 << 53, 1<<56 - 1, 1<<63 - 1, 1 << 63, 1<<63 + 1, 1<<64 - 1}

func (g *EvGen) magnitude() uint64 {
	switch g.R.Intn(4) {
	case 0:
		return boundaryMagnitudes[g.R.Intn(len(boundaryMagnitudes))]
	case 1:
		return uint64(g.R.Intn(300))
	default:
		return g.R.Uint64() >> uint(g.R.Intn(64))
	}
}

// intEvent returns one of the event forms that can express sign*mag.
func (g *EvGen) intEvent(neg bool, mag uint64) Ev {
	forms := []string{}
	if !neg {
		forms = append(forms, "pi")
		if mag <= math.MaxInt64 {
			forms = append(forms, "i")
		}
	} else {
		forms = append(forms, "ni")
		if mag <= 1<<63 && mag > 0 {
			forms = append(forms, "i")
		}
	}
	if g.Opt.BigNums && (mag > 0 || !neg) {
		forms = append(forms, "bi")
	}
	switch forms[g.R.Intn(len(forms))] {
	case "pi":
		return Ev{K: "pi", N: mag}
	case "ni":
		return Ev{K: "ni", N: mag}
	case "i":
		if neg {
			return Ev{K: "i", I: int64(-mag)}
		}
		return Ev{K: "i", I: int64(mag)}
	default:
		b := new(big.Int).SetUint64(mag)
		if neg {
			b.Neg(b)
		}
		return Ev{K: "bi", Big: b}
	}
}

func (g *EvGen) bigInt() *big.Int {
	b := new(big.Int).SetUint64(g.R.Uint64() | 1<<63)
	b.Lsh(b, uint(1+g.R.Intn(130)))
	b.Add(b, new(big.Int).SetUint64(g.R.Uint64()))
	if g.R.Intn(2) == 0 {
		b.Neg(b)
	}
	return b
}

func (g *EvGen) floatBits() uint64 {
	r := g.R
	switch r.Intn(10) {
	case 0: // float32-exact
		return math.Float64bits(float64(math.Float32frombits(r.Uint32())))
	case 1: // bfloat16-exact
		return math.Float64bits(float64(math.Float32frombits(r.Uint32() & 0xffff0000)))
	case 2: // subnormal float64
		return r.Uint64() & (1<<52 - 1) & ^uint64(0) >> uint(r.Intn(52))
	case 3: // subnormal float32 range
		return math.Float64bits(float64(math.Float32frombits(r.Uint32() & 0x807fffff)))
	case 4:
		return []uint64{0, 1 << 63, 0x7ff0000000000000, 0xfff0000000000000, 0x3ff0000000000000, 0x7fefffffffffffff, 1, 0x0010000000000000}[r.Intn(8)]
	case 5: // NaNs with payloads
		return 0x7ff0000000000000 | (r.Uint64() & (1<<52 - 1)) | 1 | uint64(r.Intn(2))<<63
	case 6: // float32 boundary: one bit beyond
		return math.Float64bits(float64(math.Float32frombits(r.Uint32()))) | 1<<uint(r.Intn(30))
	default:
		return r.Uint64()
	}
}

func (g *EvGen) dfloat() compact_float.DFloat {
	r := g.R
	switch r.Intn(12) {
	case 0:
		return compact_float.Zero()
	case 1:
		return compact_float.NegativeZero()
	case 2:
		return compact_float.Infinity()
	case 3:
		return compact_float.NegativeInfinity()
	case 4:
		return compact_float.QuietNaN()
	case 5:
		return compact_float.SignalingNaN()
	}
	coef := int64(g.magnitude() >> 1)
	if coef == 0 {
		coef = 1
	}
	if r.Intn(2) == 0 {
		coef = -coef
	}
	exp := int32(r.Intn(40) - 20)
	if r.Intn(6) == 0 {
		exp = int32(r.Intn(20000) - 10000)
	}
	return compact_float.DFloatValue(exp, coef)
}

func (g *EvGen) apd() *apd.Decimal {
	r := g.R
	d := new(apd.Decimal)
	switch r.Intn(10) {
	case 0:
		d.Form = apd.Infinite
		d.Negative = r.Intn(2) == 0
		return d
	case 1:
		d.Form = apd.NaN
		return d
	case 2:
		d.Form = apd.NaNSignaling
		return d
	}
	d.Coeff.Set(new(big.Int).Abs(g.bigInt()))
	d.Negative = r.Intn(2) == 0
	d.Exponent = int32(r.Intn(200) - 100)
	return d
}

func (g *EvGen) bigFloat() *big.Float {
	if g.Opt.NonFloat64BigFloats && g.R.Intn(2) == 0 {
		f := new(big.Float).SetPrec(uint(64 + g.R.Intn(100))).SetInt(g.bigInt())
		f.SetMantExp(f, g.R.Intn(80)-40)
		return f
	}
	// exactly a finite non-zero float64, not an integer-special: the fragment every codec preserves
	for {
		v := math.Float64frombits(g.floatBits())
		if math.IsNaN(v) || math.IsInf(v, 0) || v == 0 {
			continue
		}
		return big.NewFloat(v)
	}
}

var areaLocs = []string{"America/Vancouver", "Europe/Berlin", "Asia/Tokyo", "E/Paris", "M/New_York", "Etc/UTC", "Zero", "Local", "Australia/Sydney"}

func (g *EvGen) tz() compact_time.Timezone {
	r := g.R
	switch r.Intn(5) {
	case 0:
		return compact_time.TZAtUTC()
	case 1:
		return compact_time.TZLocal()
	case 2:
		return compact_time.TZAtAreaLocation(areaLocs[r.Intn(len(areaLocs))])
	case 3:
		return compact_time.TZAtLatLong(r.Intn(18001)-9000, r.Intn(36001)-18000)
	default:
		return compact_time.TZWithMiutesOffsetFromUTC(r.Intn(2879) - 1439)
	}
}

func (g *EvGen) time() compact_time.Time {
	r := g.R
	year := r.Intn(4000) - 1000
	if year == 0 {
		year = 2000
	}
	if r.Intn(8) == 0 {
		year = r.Intn(200000) - 100000
		if year == 0 {
			year = 1
		}
	}
	mo, d := 1+r.Intn(12), 1+r.Intn(28)
	h, mi, s := r.Intn(24), r.Intn(60), r.Intn(60)
	ns := []int{0, 0, 1, 500000000, 999999999, r.Intn(1000) * 1000000, r.Intn(1000000) * 1000, r.Intn(1000000000)}[r.Intn(8)]
	switch r.Intn(3) {
	case 0:
		return compact_time.NewDate(year, mo, d)
	case 1:
		return compact_time.NewTime(h, mi, s, ns, g.tz())
	default:
		return compact_time.NewTimestamp(year, mo, d, h, mi, s, ns, g.tz())
	}
}

var unicodeBits = []string{"\u00e9", "\u00df", "\u20ac", "\u65e5\u672c", "\U0001D11E", "\u00a0", "\u200b", "\u2028", "\ufeff", "\u00fc", "\u03c0", "\U0001F600", "\u07ff", "\u0800", "\uffff", "\U00010000", "\U0010ffff"}
var asciiBits = []string{"a", "b", "Z", "0", " ", "_", "-", ".", "\"", "\\", "\n", "\t", "\r", "/", "*", "|", "{", "}", "[", "]", "<", ">", "&", "$", "@", "#", ":", ";", "=", "'", "\x00", "\x7f", "\x1b"}

func (g *EvGen) text(maxParts int) []byte {
	var sb strings.Builder
	n := g.R.Intn(maxParts + 1)
	for i := 0; i < n; i++ {
		if g.Opt.Unicode && g.R.Intn(3) == 0 {
			sb.WriteString(unicodeBits[g.R.Intn(len(unicodeBits))])
		} else {
			sb.WriteString(asciiBits[g.R.Intn(len(asciiBits))])
		}
	}
	if g.R.Intn(12) == 0 { // long: beyond the short-string forms
		sb.WriteString(strings.Repeat("x", 10+g.R.Intn(40)))
	}
	return []byte(sb.String())
}

func (g *EvGen) ident() []byte {
	const chars = "abcdefghijklmnopqrstuvwxyzABCDEFGHIJKLMNOPQRSTUVWXYZ0123456789_-."
	n := 1 + g.R.Intn(6)
	b := make([]byte, n)
	for i := range b {
		b[i] = chars[g.R.Intn(len(chars))]
	}
	if g.Opt.Unicode && g.R.Intn(6) == 0 {
		b = append(b, []byte("\u00e9\u65e5")...)
	}
	return b
}

var numericArrayTypes = []events.ArrayType{events.ArrayTypeUint8, events.ArrayTypeUint16, events.ArrayTypeUint32, events.ArrayTypeUint64,
	events.ArrayTypeInt8, events.ArrayTypeInt16, events.ArrayTypeInt32, events.ArrayTypeInt64, events.ArrayTypeFloat16,
	events.ArrayTypeFloat32, events.ArrayTypeFloat64, events.ArrayTypeUID, events.ArrayTypeBit}

func byteCountFor(t events.ArrayType, elems uint64) uint64 {
	bits := uint64(t.ElementSize())
	if bits == 1 {
		return (elems + 7) / 8
	}
	return elems * bits / 8
}

// chunked delivers an array through begin / chunk / data events with random chunking and data splits.
// `begin` is the begin event; elems is the element count, data the bytes.
func (g *EvGen) chunked(begin Ev, t events.ArrayType, elems uint64, data []byte) []Ev {
	out := []Ev{begin}
	stringlike := t == events.ArrayTypeString || t == events.ArrayTypeResourceID || t == events.ArrayTypeCustomText || t == events.ArrayTypeReferenceRemote
	remaining := elems
	pos := 0
	for {
		var n uint64
		if remaining > 0 && g.R.Intn(3) > 0 {
			n = 1 + uint64(g.R.Int63n(int64(remaining)))
			if t == events.ArrayTypeBit && n != remaining {
				n = n / 8 * 8 // non-final bit chunks must hold whole bytes
			}
			if stringlike && n != remaining {
				// chunk boundaries of string-like arrays must fall on character boundaries
				for n > 0 && int(n)+pos < len(data) && data[pos+int(n)]&0xc0 == 0x80 {
					n--
				}
			}
		} else if g.R.Intn(2) == 0 {
			n = remaining
		}
		more := n != remaining || g.R.Intn(4) == 0
		out = append(out, Ev{K: "ac", N: n, B: more})
		nb := int(byteCountFor(t, n))
		// split the chunk's bytes over data events at arbitrary positions (also inside elements / characters)
		end := pos + nb
		for pos < end {
			k := end - pos
			if g.R.Intn(2) == 0 {
				k = 1 + g.R.Intn(k)
			}
			if g.R.Intn(10) == 0 { // an empty data event is fine as long as the chunk is still open
				out = append(out, Ev{K: "ad", Data: []byte{}})
			}
			out = append(out, Ev{K: "ad", Data: data[pos : pos+k]})
			pos += k
		}
		remaining -= n
		if !more {
			break
		}
	}
	return out
}

func (g *EvGen) arrayData(t events.ArrayType) (uint64, []byte) {
	n := uint64(g.R.Intn(5))
	switch g.R.Intn(6) {
	case 0:
		n = 0
	case 1:
		n = uint64(14 + g.R.Intn(4))
	case 2:
		n = uint64(g.R.Intn(40))
	}
	data := make([]byte, byteCountFor(t, n))
	g.R.Read(data)
	if t == events.ArrayTypeBit && n%8 != 0 && len(data) > 0 {
		data[len(data)-1] &= byte(1<<(n%8) - 1)
	}
	return n, data
}

// stringValue emits a string-like array (String / ResourceID / RemoteReference) in one of its forms.
func (g *EvGen) stringValue(t events.ArrayType, txt []byte) []Ev {
	if g.Opt.ChunkArrays && g.R.Intn(3) == 0 {
		return g.chunked(Ev{K: "ab", A: t}, t, uint64(len(txt)), txt)
	}
	if g.R.Intn(2) == 0 {
		return []Ev{{K: "sa", A: t, Data: txt}}
	}
	return []Ev{{K: "a", A: t, N: uint64(len(txt)), Data: txt}}
}

// keyCanon: canonical denotation of a key, used to keep the keys of one map distinct.
type keyGen struct {
	evs   []Ev
	canon string
}

func (g *EvGen) key() keyGen {
	r := g.R
	switch r.Intn(9) {
	case 0:
		b := r.Intn(2) == 0
		g.kind("key:bool")
		forms := []Ev{{K: "b", B: b}}
		if b {
			forms = append(forms, Ev{K: "t"})
		} else {
			forms = append(forms, Ev{K: "f"})
		}
		return keyGen{[]Ev{forms[r.Intn(2)]}, fmt.Sprintf("bool:%v", b)}
	case 1, 2, 3:
		mag := g.magnitude()
		neg := r.Intn(3) == 0
		g.kind("key:int")
		e := g.intEvent(neg, mag)
		s := "+"
		if neg {
			s = "-"
		}
		return keyGen{[]Ev{e}, fmt.Sprintf("int:%s%d", s, mag)}
	case 4:
		if g.Opt.BigNums {
			b := g.bigInt()
			g.kind("key:bigint")
			return keyGen{[]Ev{{K: "bi", Big: b}}, "int:" + b.String()}
		}
		fallthrough
	case 5:
		txt := g.text(4)
		g.kind("key:string")
		return keyGen{g.stringValue(events.ArrayTypeString, txt), "str:" + string(txt)}
	case 6:
		txt := append([]byte("http://x/"), g.ident()...)
		g.kind("key:rid")
		return keyGen{g.stringValue(events.ArrayTypeResourceID, txt), "rid:" + string(txt)}
	case 7:
		u := make([]byte, 16)
		r.Read(u)
		g.kind("key:uid")
		return keyGen{[]Ev{{K: "uid", Data: u}}, "uid:" + string(u)}
	default:
		if g.Opt.Times {
			t := g.time()
			g.kind("key:time")
			return keyGen{[]Ev{{K: "tm", T: t}}, "str:" + t.String()} // the validator keys times by their text
		}
		return g.key()
	}
}

func (g *EvGen) trivia(out []Ev) []Ev {
	for g.R.Intn(6) == 0 {
		if g.Opt.Comments && g.R.Intn(2) == 0 {
			multi := g.R.Intn(2) == 0
			txt := string(g.text(3))
			// keep comments representable in CTE: no line feed in single-line, no "*/" or "/*" in multi-line
			txt = strings.NewReplacer("\n", " ", "\r", " ", "*/", "+", "/*", "+").Replace(txt)
			out = append(out, Ev{K: "cm", B: multi, Data: []byte(txt)})
			g.kind("comment")
		} else if g.Opt.Padding {
			out = append(out, Ev{K: "pad"})
			g.kind("padding")
		}
	}
	return out
}

// scalar-ish non-container value
func (g *EvGen) leaf(nonNull bool, noRemote bool) []Ev {
	r := g.R
	for {
		switch r.Intn(20) {
		case 0:
			if nonNull {
				continue
			}
			g.kind("null")
			return []Ev{{K: "null"}}
		case 1:
			g.kind("bool")
			return []Ev{[]Ev{{K: "b", B: r.Intn(2) == 0}, {K: "t"}, {K: "f"}}[r.Intn(3)]}
		case 2, 3, 4:
			g.kind("int")
			return []Ev{g.intEvent(r.Intn(3) == 0, g.magnitude())}
		case 5:
			if !g.Opt.BigNums {
				continue
			}
			g.kind("bigint")
			return []Ev{{K: "bi", Big: g.bigInt()}}
		case 6, 7:
			bits := g.floatBits()
			v := math.Float64frombits(bits)
			if math.IsNaN(v) {
				g.kind("float-nan")
			} else {
				g.kind("float")
			}
			return []Ev{{K: "fl", F: v}}
		case 8:
			g.kind("decimal")
			return []Ev{{K: "df", DF: g.dfloat()}}
		case 9:
			if !g.Opt.BigNums {
				continue
			}
			if r.Intn(2) == 0 {
				g.kind("bigfloat")
				return []Ev{{K: "bf", BF: g.bigFloat()}}
			}
			g.kind("bigdecimal")
			return []Ev{{K: "bdf", BDF: g.apd()}}
		case 10:
			g.kind("nan")
			return []Ev{{K: "nan", B: r.Intn(2) == 0}}
		case 11:
			u := make([]byte, 16)
			r.Read(u)
			g.kind("uid")
			return []Ev{{K: "uid", Data: u}}
		case 12:
			if !g.Opt.Times {
				continue
			}
			g.kind("time")
			return []Ev{{K: "tm", T: g.time()}}
		case 13, 14:
			g.kind("string")
			return g.stringValue(events.ArrayTypeString, g.text(6))
		case 15:
			g.kind("rid")
			return g.stringValue(events.ArrayTypeResourceID, append([]byte("https://e.x/"), g.text(3)...))
		case 16:
			t := numericArrayTypes[r.Intn(len(numericArrayTypes))]
			n, data := g.arrayData(t)
			g.kind("array:" + t.String())
			if g.Opt.ChunkArrays && r.Intn(2) == 0 {
				return g.chunked(Ev{K: "ab", A: t}, t, n, data)
			}
			return []Ev{{K: "a", A: t, N: n, Data: data}}
		case 17:
			if !g.Opt.Media {
				continue
			}
			data := make([]byte, r.Intn(20))
			r.Read(data)
			mt := []string{"a/b", "text/plain", "application/x-sh", "image/png"}[r.Intn(4)]
			g.kind("media")
			if g.Opt.ChunkArrays && r.Intn(2) == 0 {
				return g.chunked(Ev{K: "mb", S: mt}, events.ArrayTypeMedia, uint64(len(data)), data)
			}
			return []Ev{{K: "media", S: mt, Data: data}}
		case 18:
			if !g.Opt.Custom {
				continue
			}
			ct := g.magnitude() & 0xffffffff
			if g.Opt.CustomText && r.Intn(2) == 0 {
				txt := g.text(5)
				g.kind("customtext")
				if g.Opt.ChunkArrays && r.Intn(2) == 0 {
					return g.chunked(Ev{K: "cbeg", A: events.ArrayTypeCustomText, N: ct}, events.ArrayTypeCustomText, uint64(len(txt)), txt)
				}
				return []Ev{{K: "ct", N: ct, Data: txt}}
			}
			data := make([]byte, r.Intn(20))
			r.Read(data)
			g.kind("custombinary")
			if g.Opt.ChunkArrays && r.Intn(2) == 0 {
				return g.chunked(Ev{K: "cbeg", A: events.ArrayTypeCustomBinary, N: ct}, events.ArrayTypeCustomBinary, uint64(len(data)), data)
			}
			return []Ev{{K: "cb", N: ct, Data: data}}
		case 19:
			if !g.Opt.Remote || nonNull && false {
				continue
			}
			if noRemote {
				continue
			}
			g.kind("remote-ref")
			return g.stringValue(events.ArrayTypeReferenceRemote, append([]byte("https://r.x/"), g.ident()...))
		}
	}
}

// value emits one object. inMarked: we are inside a marked container (no further markers unless NestedMarkers).
func (g *EvGen) value(depth int, nonNull bool, allowRef bool, inMarked bool) []Ev {
	r := g.R
	out := []Ev{}
	// reference to an earlier marker
	if allowRef && g.Opt.Markers && len(g.defd) > 0 && r.Intn(10) == 0 {
		g.kind("reference")
		return []Ev{{K: "ref", Data: []byte(g.defd[r.Intn(len(g.defd))].id)}}
	}
	marked := ""
	if g.Opt.Markers && (!inMarked || g.Opt.NestedMarkers) && r.Intn(10) == 0 {
		g.ids++
		marked = fmt.Sprintf("m%d", g.ids)
		out = append(out, Ev{K: "mk", Data: []byte(marked)})
		if g.Opt.Padding && r.Intn(8) == 0 {
			out = append(out, Ev{K: "pad"})
		}
		g.kind("marker")
	}
	inM := inMarked || marked != ""
	container := depth < g.Opt.MaxDepth && r.Intn(3) == 0
	if !container {
		out = append(out, g.leaf(nonNull, marked != "")...) // markers cannot be placed on (remote) references
	} else {
		fan := r.Intn(g.Opt.MaxFan + 1)
		kinds := []string{"list", "map"}
		if g.Opt.Edges {
			kinds = append(kinds, "edge")
		}
		if g.Opt.Nodes {
			kinds = append(kinds, "node")
		}
		if g.Opt.Records && len(g.recs) > 0 {
			kinds = append(kinds, "record")
		}
		k := kinds[r.Intn(len(kinds))]
		g.kind(k)
		switch k {
		case "list":
			out = append(out, Ev{K: "l"})
			for i := 0; i < fan; i++ {
				out = g.trivia(out)
				out = append(out, g.value(depth+1, false, true, inM)...)
			}
			out = g.trivia(out)
			out = append(out, Ev{K: "e"})
		case "map":
			out = append(out, Ev{K: "m"})
			seen := map[string]bool{}
			for i := 0; i < fan; i++ {
				k := g.key()
				if seen[k.canon] {
					continue
				}
				seen[k.canon] = true
				out = g.trivia(out)
				out = append(out, k.evs...)
				out = g.trivia(out)
				out = append(out, g.value(depth+1, false, true, inM)...)
			}
			out = g.trivia(out)
			out = append(out, Ev{K: "e"})
		case "edge":
			out = append(out, Ev{K: "edge"})
			out = g.trivia(out)
			out = append(out, g.value(depth+1, true, true, inM)...)
			out = g.trivia(out)
			out = append(out, g.value(depth+1, false, true, inM)...)
			out = g.trivia(out)
			out = append(out, g.value(depth+1, true, true, inM)...)
			out = g.trivia(out)
			out = append(out, Ev{K: "e"})
		case "node":
			out = append(out, Ev{K: "node"})
			out = g.trivia(out)
			out = append(out, g.value(depth+1, false, true, inM)...)
			for i := 0; i < fan; i++ {
				out = g.trivia(out)
				out = append(out, g.value(depth+1, false, true, inM)...)
			}
			out = g.trivia(out)
			out = append(out, Ev{K: "e"})
		case "record":
			rec := g.recs[r.Intn(len(g.recs))]
			out = append(out, Ev{K: "rec", Data: []byte(rec.name)})
			for i := 0; i < rec.arity; i++ {
				out = g.trivia(out)
				out = append(out, g.value(depth+1, false, true, inM)...)
			}
			out = g.trivia(out)
			out = append(out, Ev{K: "e"})
		}
	}
	if marked != "" {
		// which marked values may later be referenced from key position? only those the validator deems keyable;
		// keep it simple: none (references in key position are generated by dedicated streams)
		g.defd = append(g.defd, markInfo{id: marked})
	}
	return out
}

// Document returns a complete rules-valid event stream.
func (g *EvGen) Document() []Ev {
	g.ids = 0
	g.defd = nil
	g.recs = nil
	out := []Ev{{K: "bd"}, {K: "v", N: 0}}
	if g.Opt.Records {
		n := g.R.Intn(3)
		names := map[string]bool{}
		for i := 0; i < n; i++ {
			name := string(g.ident())
			if names[name] {
				continue
			}
			names[name] = true
			out = g.trivia(out)
			out = append(out, Ev{K: "rt", Data: []byte(name)})
			arity := g.R.Intn(4)
			seen := map[string]bool{}
			cnt := 0
			for j := 0; j < arity; j++ {
				k := g.key()
				if seen[k.canon] {
					continue
				}
				seen[k.canon] = true
				out = append(out, k.evs...)
				cnt++
			}
			out = append(out, Ev{K: "e"})
			g.recs = append(g.recs, recInfo{name, cnt})
			g.kind("recordtype")
		}
	}
	out = g.trivia(out)
	out = append(out, g.value(0, false, false, false)...)
	out = append(out, Ev{K: "ed"}) // the validator allows neither comments nor padding after the top-level object
	return out
}

// Mutate returns a (usually invalid) variant of a stream: drop / duplicate / swap / replace events.
func (g *EvGen) Mutate(es []Ev) []Ev {
	out := append([]Ev{}, es...)
	n := 1 + g.R.Intn(2)
	for i := 0; i < n && len(out) > 0; i++ {
		p := g.R.Intn(len(out))
		switch g.R.Intn(5) {
		case 0:
			out = append(out[:p], out[p+1:]...)
		case 1:
			out = append(out[:p+1], out[p:]...)
		case 2:
			q := g.R.Intn(len(out))
			out[p], out[q] = out[q], out[p]
		case 3:
			repl := []Ev{{K: "e"}, {K: "l"}, {K: "m"}, {K: "null"}, {K: "edge"}, {K: "node"}, {K: "ref", Data: []byte("nope")},
				{K: "mk", Data: []byte("m1")}, {K: "fl", F: 1.5}, {K: "ed"}, {K: "ac", N: 1, B: false}, {K: "ad", Data: []byte{0xff}},
				{K: "rec", Data: []byte("zz")}, {K: "rt", Data: []byte("zz")}, {K: "pi", N: 1}, {K: "ni", N: 1}, {K: "cm", Data: []byte("c")}, {K: "pad"}}
			out[p] = repl[g.R.Intn(len(repl))]
			// media types and custom type codes on both sides of what rules accept
			switch es[p%len(es)].K {
			case "media", "mb":
				bad := []string{"", "a", "i8", "7", "a/", "/b", "a/b/c", "1/b", "a b/c", "é/x", "a/b;c", "A9!#$%&'*+.^_`|~{}-/z{}", "text/plain", "a/é"}
				out[p] = es[p%len(es)]
				out[p].S = bad[g.R.Intn(len(bad))]
			case "cb", "ct", "cbeg":
				out[p] = es[p%len(es)]
				out[p].N = []uint64{1 << 32, 1<<32 - 1, 1<<64 - 1, 0}[g.R.Intn(4)]
			}
		case 4:
			out = out[:p]
		}
	}
	return out
}
