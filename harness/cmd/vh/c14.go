package main

import (
	"bytes"
	"encoding/hex"
	"strings"
	"fmt"

	"github.com/kstenerud/go-concise-encoding/ce"
	"github.com/kstenerud/go-concise-encoding/ce/events"
)

func init() { register("C14", runC14, replayC14) }

// Usage of a document, measured by independent folds over its events.
type docUsage struct {
	depth, objects, arrayBytes, ident, markers uint64
}

func measureUsage(es []Ev) docUsage {
	var u docUsage
	var depth uint64
	var arr uint64
	inArr := false
	var arrT events.ArrayType
	max := func(a *uint64, b uint64) {
		if b > *a {
			*a = b
		}
	}
	for _, e := range es {
		switch e.K {
		case "bd", "ed", "v", "pad", "cm":
			continue
		case "ac":
			if inArr {
				n := byteCountFor(arrT, e.N)
				arr += n
				max(&u.arrayBytes, arr)
			}
			continue
		case "ad":
			continue
		case "e":
			depth--
			continue
		}
		u.objects++ // every other event announces one object (record types and markers included)
		inArr = false
		switch e.K {
		case "l", "m", "edge", "node":
			depth++
			max(&u.depth, depth)
		case "rec", "rt":
			depth++
			max(&u.depth, depth)
			max(&u.ident, uint64(len(e.Data)))
		case "mk":
			u.markers++
			max(&u.ident, uint64(len(e.Data)))
		case "ref":
			max(&u.ident, uint64(len(e.Data)))
		case "a", "sa", "media", "cb", "ct":
			max(&u.arrayBytes, uint64(len(e.Data)))
		case "ab":
			inArr, arrT, arr = true, e.A, 0
		case "mb":
			inArr, arrT, arr = true, events.ArrayTypeMedia, 0
		case "cbeg":
			inArr, arrT, arr = true, e.A, 0
		}
	}
	return u
}

type limitSpec struct {
	name string
	get  func(u docUsage) uint64
	set  func(rc *RulesCfg, v uint64)
}

var c14Limits = []limitSpec{
	{"depth", func(u docUsage) uint64 { return u.depth }, func(rc *RulesCfg, v uint64) { rc.MaxDepth = v }},
	{"objects", func(u docUsage) uint64 { return u.objects }, func(rc *RulesCfg, v uint64) { rc.MaxObjects = v }},
	{"array-bytes", func(u docUsage) uint64 { return u.arrayBytes }, func(rc *RulesCfg, v uint64) { rc.MaxArray = v }},
	{"identifier", func(u docUsage) uint64 { return u.ident }, func(rc *RulesCfg, v uint64) { rc.MaxIdent = v }},
	{"markers", func(u docUsage) uint64 { return u.markers }, func(rc *RulesCfg, v uint64) { rc.MaxRefs = v }},
}

// c14Verdict: the validator driven directly.
func c14Verdict(rc RulesCfg, es []Ev) bool {
	rej, _, _ := runRules(rc, es)
	return rej < 0
}

// c14DocSize: format is cbe | cte, optionally suffixed "-reader" for the streaming entry point.
func c14DocSize(format string, doc []byte, limit uint64) bool {
	cfg := defaultRulesCfg().config()
	cfg.Rules.MaxDocumentSizeBytes = limit
	rules := ce.NewRules(&Recorder{}, cfg)
	var d ce.Decoder
	if strings.HasPrefix(format, "cte") {
		d = ce.NewCTEDecoder(cfg)
	} else {
		d = ce.NewCBEDecoder(cfg)
	}
	var err error
	if strings.HasSuffix(format, "-reader") {
		err = d.Decode(bytes.NewReader(doc), rules)
	} else {
		err = d.DecodeDocument(doc, rules)
	}
	return err == nil
}

func runC14(c *Ctx) {
	c.Rep.Rule = "rules-valid documents from the tree generator; docUsage (container depth, object count, largest array bytes, longest identifier, marker count) measured by independent folds over the events; every limit set to docUsage-1 / docUsage / docUsage+1 with the others at their defaults, through the validator directly; total size through both decoders on the CBE / CTE encoding of the document at size-1 / size / size+1; non-trivial = docUsage > 0; distinct by (limit, value, document)"
	opt := DefaultGenOpts()
	opt.NonFloat64BigFloats = false
	g := NewEvGen(c.Rng, opt)
	n := c.Pick(150, 3000)
	for i := 0; i < n; i++ {
		es := g.Document()
		base := defaultRulesCfg()
		if !c14Verdict(base, es) {
			continue // only documents valid under the default limits are used
		}
		u := measureUsage(es)
		if i < 3 {
			c.Sample(map[string]interface{}{"events": evsString(es), "usage": fmt.Sprintf("%+v", u)})
		}
		for _, l := range c14Limits {
			use := l.get(u)
			for _, d := range []int{-1, 0, 1} {
				if use == 0 && d < 0 {
					continue
				}
				limit := uint64(int64(use) + int64(d))
				if l.name == "array-bytes" && limit == 0 {
					continue // 0 means "no limit" for arrays
				}
				rc := defaultRulesCfg()
				l.set(&rc, limit)
				acc := c14Verdict(rc, es)
				want := limit >= use
				c.Count(fmt.Sprintf("%s|%d|%s", l.name, limit, evsString(es)), use > 0)
				c.Dist(fmt.Sprintf("limit/%s/delta=%d/accepted=%v", l.name, d, acc))
				if d != 0 || i%4 == 0 {
					c.addRulesCase(rc, es)
				}
				if acc != want {
					c.Fail(Replay{Kind: "limit", Key: fmt.Sprintf("C14/%s/limit-docUsage=%d/accepted=%v", l.name, d, acc),
						Input:  map[string]string{"events": evsString(es), "limit": l.name, "value": fmt.Sprint(limit), "usage": fmt.Sprint(use)},
						Expect: fmt.Sprintf("accepted=%v", want), Got: fmt.Sprintf("accepted=%v", acc)})
				}
			}
		}
		// total document size, CBE and CTE
		if i%3 == 0 {
			for _, format := range []string{"cbe", "cte", "cbe-reader", "cte-reader", "cte-reader-ws"} {
				doc, ok := encodeEvents(format[:3], es)
				if strings.HasSuffix(format, "-ws") {
					doc = append(doc, '\n') // trailing white space: the document minus its last byte is still a complete document
					format = "cte-reader"
				}
				if !ok || !c14DocSize(format, doc, 5<<30) {
					continue
				}
				size := uint64(len(doc))
				for _, d := range []int{-1, 0, 1} {
					limit := uint64(int64(size) + int64(d))
					acc := c14DocSize(format, doc, limit)
					want := limit >= size
					c.Count(fmt.Sprintf("size|%s|%d|%x", format, limit, doc), true)
					c.Dist(fmt.Sprintf("size/%s/delta=%d/accepted=%v", format, d, acc))
					if acc != want {
						c.Fail(Replay{Kind: "size", Key: fmt.Sprintf("C14/document-size/%s/limit-size=%d/accepted=%v", format, d, acc),
							Input:  map[string]string{"format": format, "doc_hex": hex.EncodeToString(doc), "value": fmt.Sprint(limit)},
							Expect: fmt.Sprintf("accepted=%v", want), Got: fmt.Sprintf("accepted=%v", acc)})
					}
				}
			}
		}
	}
	// MaxMarkerCount: the configuration field that names the marker limit
	{
		es, _ := parseEvs("bd v:0 l mk:61 pi:1 mk:62 pi:2 mk:63 pi:3 e ed")
		cfg := defaultRulesCfg().config()
		cfg.Rules.MaxMarkerCount = 1
		rules := ce.NewRules(&Recorder{}, cfg)
		at, _ := playAll(rules, es)
		c.Count("max-marker-count", true)
		if at < 0 {
			c.Fail(Replay{Kind: "max-marker-count", Key: "C14/max-marker-count-not-consulted", Input: map[string]string{"events": evsString(es)},
				Expect: "rejected (3 markers, MaxMarkerCount=1)", Got: "accepted"})
		}
	}
}

// encodeEvents runs the real encoder of the given format over the events (no validator in between).
func encodeEvents(format string, es []Ev) (doc []byte, ok bool) {
	defer func() {
		if r := recover(); r != nil {
			ok = false
		}
	}()
	cfg := defaultRulesCfg().config()
	var buf bytesBuffer
	var enc ce.Encoder
	if format == "cte" {
		enc = ce.NewCTEEncoder(cfg)
	} else {
		enc = ce.NewCBEEncoder(cfg)
	}
	enc.PrepareToEncode(&buf)
	for _, e := range es {
		play(enc, e)
	}
	return buf.b, true
}

type bytesBuffer struct{ b []byte }

func (w *bytesBuffer) Write(p []byte) (int, error) { w.b = append(w.b, p...); return len(p), nil }

func replayC14(r *Replay) (bool, string) {
	switch r.Kind {
	case "limit":
		es, err := parseEvs(r.Input["events"])
		if err != nil {
			return false, err.Error()
		}
		var limit, use uint64
		fmt.Sscan(r.Input["value"], &limit)
		fmt.Sscan(r.Input["usage"], &use)
		rc := defaultRulesCfg()
		for _, l := range c14Limits {
			if l.name == r.Input["limit"] {
				l.set(&rc, limit)
			}
		}
		acc := c14Verdict(rc, es)
		return acc == (limit >= use), fmt.Sprintf("limit %s=%d docUsage=%d accepted=%v", r.Input["limit"], limit, use, acc)
	case "size":
		doc, _ := hex.DecodeString(r.Input["doc_hex"])
		var limit uint64
		fmt.Sscan(r.Input["value"], &limit)
		acc := c14DocSize(r.Input["format"], doc, limit)
		return acc == (limit >= uint64(len(doc))), fmt.Sprintf("size=%d limit=%d accepted=%v", len(doc), limit, acc)
	case "max-marker-count":
		es, _ := parseEvs(r.Input["events"])
		cfg := defaultRulesCfg().config()
		cfg.Rules.MaxMarkerCount = 1
		at, _ := playAll(ce.NewRules(&Recorder{}, cfg), es)
		return at >= 0, fmt.Sprintf("rejected-at=%d", at)
	}
	return false, "unknown kind"
}
