package main

// C05 — Marshaling emits a valid event stream that describes exactly the value.
//
// Implementation side: iterator.NewSession(nil,cfg).NewIterator(recorder).Iterate(v) on random
// values of random types (reflect.StructOf, nested containers) and on a zoo of hand-written
// values, with and without record types and recursion support.  Two families are swept systematically because
// ordinary values do not reach them: structs embedded 0-6 levels deep (extractFields builds one index path per level;
// a path shared between siblings shows only from the third level on) and objects of different types at one address
// (a struct and its first field, an array or slice and its first element: the reference table of the recursion
// support is about (type, address)).
// Search oracle: (1) rules.NewRules accepts the recorded stream, (2) a type-directed reader walks
// value and events side by side: every element / entry / kept field once with the same contents,
// typed arrays element-exact, bool arrays bit-exact, (3) the CBE and CTE documents of the
// marshalers decode without error.
// Correspondence: the value, printed as a term of CE.Model.Iterate.gval, with the observed events.

import (
	"encoding/hex"
	"fmt"
	"math"
	"math/big"
	"math/rand"
	"net/url"
	"reflect"
	"sort"
	"strconv"
	"strings"
	"time"
	"unicode"
	"unicode/utf8"
	"unsafe"

	"github.com/cockroachdb/apd/v2"
	compact_float "github.com/kstenerud/go-compact-float"
	compact_time "github.com/kstenerud/go-compact-time"
	"github.com/kstenerud/go-concise-encoding/ce"
	"github.com/kstenerud/go-concise-encoding/ce/events"
	"github.com/kstenerud/go-concise-encoding/configuration"
	"github.com/kstenerud/go-concise-encoding/iterator"
	"github.com/kstenerud/go-concise-encoding/types"
	duplicates "github.com/kstenerud/go-duplicates"
)

func init() { register("C05", runC05, replayC05) }

var (
	c05TTime    = reflect.TypeOf(time.Time{})
	c05TCTime   = reflect.TypeOf(compact_time.Time{})
	c05TDFloat  = reflect.TypeOf(compact_float.DFloat{})
	c05TURL     = reflect.TypeOf(url.URL{})
	c05TBigInt  = reflect.TypeOf(big.Int{})
	c05TBigFlt  = reflect.TypeOf(big.Float{})
	c05TBigDec  = reflect.TypeOf(apd.Decimal{})
	c05TMedia   = reflect.TypeOf(types.Media{})
	c05TNode    = reflect.TypeOf(types.Node{})
	c05TEdge    = reflect.TypeOf(types.Edge{})
	c05TUID     = reflect.TypeOf(types.UID{})
	c05TIface   = reflect.TypeOf([]interface{}{}).Elem()
	c05TIfaceSl = reflect.TypeOf([]interface{}{})
)

// ---------------------------------------------------------------------------
// configuration of one run of the iterator

type c05Cfg struct {
	Snake     bool
	Recursion bool
	Omit      configuration.FieldOmitBehavior
	RecTypes  []reflect.Type
	RecNames  []string
}

func (k *c05Cfg) config() *configuration.Configuration {
	cfg := configuration.New()
	if k.Snake {
		cfg.Iterator.FieldNameStyle = configuration.FieldNameSnakeCase
	} else {
		cfg.Iterator.FieldNameStyle = configuration.FieldNameCamelCase
	}
	cfg.Iterator.RecursionSupport = k.Recursion
	cfg.Iterator.DefaultFieldOmitBehavior = k.Omit
	for i, t := range k.RecTypes {
		cfg.Iterator.RecordTypes[t] = k.RecNames[i]
	}
	return cfg
}

func (k *c05Cfg) String() string {
	return fmt.Sprintf("snake=%v rec=%v omit=%d records=%v", k.Snake, k.Recursion, k.Omit, k.RecNames)
}

// name order of the record types, as sessionContext sorts them
func (k *c05Cfg) order() []int {
	idx := make([]int, len(k.RecTypes))
	for i := range idx {
		idx[i] = i
	}
	sort.SliceStable(idx, func(a, b int) bool { return k.RecNames[idx[a]] < k.RecNames[idx[b]] })
	return idx
}

// Session.Init builds the field iterators of each record type, in name order, before it registers
// that type; a record type reached statically (not through an interface) from the fields of a record
// type that is registered at the same time or earlier is therefore iterated as a plain map there.
// recordOrderOK: this does not happen (the model's domain).
func (k *c05Cfg) recordOrderOK() bool {
	idx := k.order()
	rank := map[reflect.Type]int{}
	for r, i := range idx {
		rank[k.RecTypes[i]] = r
	}
	for r, i := range idx {
		bad := false
		seen := map[reflect.Type]bool{}
		var visit func(t reflect.Type, top bool)
		visit = func(t reflect.Type, top bool) {
			if rr, isRec := rank[t]; isRec && !top {
				if rr >= r {
					bad = true
				}
				return
			}
			if seen[t] || bad {
				return
			}
			seen[t] = true
			if c05Special(t) {
				return
			}
			switch t.Kind() {
			case reflect.Struct:
				for j := 0; j < t.NumField(); j++ {
					visit(t.Field(j).Type, false)
				}
			case reflect.Ptr, reflect.Slice, reflect.Array:
				visit(t.Elem(), false)
			case reflect.Map:
				visit(t.Key(), false)
				visit(t.Elem(), false)
			}
		}
		visit(k.RecTypes[i], true)
		if bad {
			return false
		}
	}
	return true
}

func c05Special(t reflect.Type) bool {
	switch t {
	case c05TTime, c05TCTime, c05TURL, c05TBigInt, c05TBigFlt, c05TBigDec, c05TDFloat, c05TMedia, c05TNode, c05TEdge, c05TUID:
		return true
	}
	return false
}

func (k *c05Cfg) recordName(t reflect.Type) (string, bool) {
	for i, rt := range k.RecTypes {
		if rt == t {
			return k.RecNames[i], true
		}
	}
	return "", false
}

func c05Omit(o configuration.FieldOmitBehavior) string {
	switch o {
	case configuration.OmitFieldNever:
		return "ONever"
	case configuration.OmitFieldAlways:
		return "OAlways"
	case configuration.OmitFieldEmpty:
		return "OEmpty"
	case configuration.OmitFieldZero:
		return "OZero"
	}
	return "ODefault"
}

// ---------------------------------------------------------------------------
// struct fields: an independent reading of the `ce` tag and of the omit rules

type c05Field struct {
	GoName   string
	Name     string // tag name or Go name
	Exported bool
	Anon     bool
	Omit     configuration.FieldOmitBehavior
	Order    int64
	Path     []int
	Type     reflect.Type
}

func c05ParseField(f reflect.StructField, path []int) c05Field {
	r, _ := utf8.DecodeRuneInString(f.Name)
	fd := c05Field{GoName: f.Name, Name: f.Name, Exported: unicode.IsUpper(r), Anon: f.Anonymous,
		Order: math.MaxInt64, Path: path, Type: f.Type}
	tag := strings.TrimSpace(f.Tag.Get("ce"))
	if tag == "" {
		return fd
	}
	for _, entry := range strings.Split(tag, ",") {
		kv := strings.SplitN(entry, "=", 2)
		switch strings.TrimSpace(kv[0]) {
		case "omit":
			fd.Omit = configuration.OmitFieldAlways
		case "omit_empty":
			fd.Omit = configuration.OmitFieldEmpty
		case "omit_zero":
			fd.Omit = configuration.OmitFieldZero
		case "omit_never":
			fd.Omit = configuration.OmitFieldNever
		case "name":
			fd.Name = strings.TrimSpace(kv[1])
		case "order":
			n, err := strconv.ParseInt(strings.TrimSpace(kv[1]), 10, 64)
			if err != nil {
				panic(err)
			}
			fd.Order = n
		default:
			panic("c05: unknown tag " + entry)
		}
	}
	return fd
}

func (f c05Field) coq() string {
	return cApp("mkF", cBytes([]byte(f.Name)), cBool(f.Exported), cBool(f.Anon), c05Omit(f.Omit), cZ(f.Order))
}

func (f c05Field) extractable() bool {
	return f.Exported && f.Omit != configuration.OmitFieldAlways
}

// the fields a struct type contributes: exported, not `omit`, embedded structs flattened, stable by order.
// promote = false: as the implementation reads "exported" for an embedded struct, by the name of the embedded TYPE;
// promote = true: as Go does, the exported fields of an embedded struct are fields of the outer struct whatever the
// embedded type is called (struct{ inner; Z int } with type inner struct{ P int } has the fields P and Z).
func c05Extract(t reflect.Type, path []int, promote bool) []c05Field {
	var out []c05Field
	for i := 0; i < t.NumField(); i++ {
		p := append(append([]int{}, path...), i)
		fd := c05ParseField(t.Field(i), p)
		if !fd.extractable() {
			if promote && !fd.Exported && fd.Anon && fd.Type.Kind() == reflect.Struct && fd.Omit != configuration.OmitFieldAlways {
				out = append(out, c05Extract(fd.Type, p, promote)...)
			}
			continue
		}
		if fd.Anon && fd.Type.Kind() == reflect.Struct {
			out = append(out, c05Extract(fd.Type, p, promote)...)
		} else {
			// also an embedded field of any other type (type MyInt int, *Inner): an ordinary field named after its type
			out = append(out, fd)
		}
	}
	if len(path) == 0 {
		sort.SliceStable(out, func(i, j int) bool { return out[i].Order < out[j].Order })
	}
	return out
}

func c05IsUpper(b byte) bool { return b >= 'A' && b <= 'Z' }
func c05IsLower(b byte) bool { return b >= 'a' && b <= 'z' }
func c05IsDigit(b byte) bool { return b >= '0' && b <= '9' }

// snake case of an ASCII name, written by hand (not with the library's regular expressions)
func c05Snake(s string) string {
	var a []byte
	for i := 0; i < len(s); i++ {
		a = append(a, s[i])
		if i+2 < len(s) && c05IsUpper(s[i]) && c05IsUpper(s[i+1]) && c05IsLower(s[i+2]) {
			a = append(a, '_')
		}
	}
	var b []byte
	for i := 0; i < len(a); i++ {
		b = append(b, a[i])
		if i+1 < len(a) && (c05IsLower(a[i]) || c05IsDigit(a[i])) && c05IsUpper(a[i+1]) {
			b = append(b, '_')
		}
	}
	return strings.ToLower(string(b))
}

func (k *c05Cfg) emittedName(f c05Field) string {
	if k.Snake {
		return c05Snake(f.Name)
	}
	return f.Name
}

func c05IsEmpty(v reflect.Value) bool {
	switch v.Kind() {
	case reflect.Interface, reflect.Ptr:
		return v.IsNil()
	case reflect.Map, reflect.Slice:
		return v.IsNil() || v.Len() == 0
	case reflect.Array, reflect.String:
		return v.Len() == 0
	}
	return false
}

func (k *c05Cfg) keeps(f c05Field, v reflect.Value) bool {
	o := f.Omit
	if o == configuration.OmitFieldChooseDefault {
		o = k.Omit
	}
	switch o {
	case configuration.OmitFieldAlways:
		return false
	case configuration.OmitFieldNever:
		return true
	case configuration.OmitFieldEmpty:
		return !c05IsEmpty(v)
	case configuration.OmitFieldZero:
		return !(v.IsZero() || c05IsEmpty(v))
	}
	return true
}

func c05FieldByPath(v reflect.Value, path []int) reflect.Value {
	for _, i := range path {
		v = v.Field(i)
	}
	return v
}

func c05PathKey(path []int) string { return fmt.Sprint(path) }

// ---------------------------------------------------------------------------
// raw bits of floats (reflect's Float() goes through float64 and quiets NaNs)

func c05Addressable(v reflect.Value) reflect.Value {
	if v.CanAddr() {
		return v
	}
	nv := reflect.New(v.Type()).Elem()
	nv.Set(v)
	return nv
}

func c05Bits32(v reflect.Value) uint32 {
	a := c05Addressable(v)
	return *(*uint32)(unsafe.Pointer(a.UnsafeAddr()))
}

func c05Bits64(v reflect.Value) uint64 {
	a := c05Addressable(v)
	return *(*uint64)(unsafe.Pointer(a.UnsafeAddr()))
}

// exact float32 -> float64 on bit patterns; a NaN keeps its payload AND its signalling state
func c05Widen(w uint32) uint64 {
	s := uint64(w>>31) << 63
	e := uint64(w>>23) & 0xff
	m := uint64(w) & 0x7fffff
	switch {
	case e == 255:
		return s | 0x7ff<<52 | m<<29
	case e == 0 && m == 0:
		return s
	case e == 0:
		return math.Float64bits(float64(math.Float32frombits(w)))
	}
	return s | (e+896)<<52 | m<<29
}

func c05IsNan32(w uint32) bool { return w>>23&0xff == 255 && w&0x7fffff != 0 }

func c05Iface(v reflect.Value) interface{} {
	if v.CanInterface() {
		return v.Interface()
	}
	a := c05Addressable(v)
	return reflect.NewAt(a.Type(), unsafe.Pointer(a.UnsafeAddr())).Elem().Interface()
}

// ---------------------------------------------------------------------------
// the reader: walks a value and the events it produced side by side

type c05TP struct {
	T reflect.Type
	P uintptr
}

type c05Problem struct{ Class, Detail string }

type c05Walker struct {
	evs      []Ev
	pos      int
	kc       *c05Cfg
	edgeEnd  bool // the implementation closes an edge with an end-container event
	marked   map[string]reflect.Value
	addrs    map[c05TP]int
	sids     map[reflect.Type]int
	anc      map[c05TP]int
	problems []c05Problem
	desync   bool
	feats    map[string]int
	strict   bool         // integer events must have the kind the iterator uses today (only to tell map keys apart)
	markOpen int          // markers whose object is still being walked
	markNow  bool         // refOrMarker has just consumed a marker
	dupAt    map[int]bool // positions of field-name events that repeat a name already used in the same map / record type
}

func newC05Walker(evs []Ev, kc *c05Cfg) *c05Walker {
	return &c05Walker{evs: evs, kc: kc, edgeEnd: c05EdgeEmitsEnd(), marked: map[string]reflect.Value{},
		addrs: map[c05TP]int{}, sids: map[reflect.Type]int{}, anc: map[c05TP]int{}, feats: map[string]int{}, dupAt: map[int]bool{}}
}

func (w *c05Walker) problem(class, detail string) {
	w.problems = append(w.problems, c05Problem{class, detail})
}

func (w *c05Walker) lost(detail string) {
	if !w.desync {
		w.desync = true
		w.problem("structure", detail)
	}
}

func (w *c05Walker) addr(v reflect.Value) int {
	tp := c05TP{v.Type(), v.Pointer()}
	if a, ok := w.addrs[tp]; ok {
		return a
	}
	a := len(w.addrs) + 1
	w.addrs[tp] = a
	return a
}

func (w *c05Walker) sid(t reflect.Type) int {
	if s, ok := w.sids[t]; ok {
		return s
	}
	s := len(w.sids) + 1
	w.sids[t] = s
	return s
}

// peek returns the next event while reading
func (w *c05Walker) peek(consume bool) (Ev, bool) {
	if !consume || w.desync {
		return Ev{}, false
	}
	if w.pos >= len(w.evs) {
		w.lost("events end early")
		return Ev{}, false
	}
	return w.evs[w.pos], true
}

// leaf: the next event must be of kind and satisfy same
func (w *c05Walker) leaf(consume bool, kind string, same func(e Ev) bool, class, what string) {
	e, ok := w.peek(consume)
	if !ok {
		return
	}
	if e.K != kind {
		w.lost(fmt.Sprintf("at %d: expected %s for %s, got %s", w.pos, kind, what, e.String()))
		return
	}
	if !same(e) {
		w.problem(class, fmt.Sprintf("at %d: %s described as %s", w.pos, what, e.String()))
	}
	w.pos++
}

func (w *c05Walker) expectKind(consume bool, kind, what string) bool {
	e, ok := w.peek(consume)
	if !ok {
		return false
	}
	if e.K != kind {
		w.lost(fmt.Sprintf("at %d: expected %s (%s), got %s", w.pos, kind, what, e.String()))
		return false
	}
	w.pos++
	return true
}

func c05EvInt(e Ev) (*big.Int, bool) {
	switch e.K {
	case "i":
		return big.NewInt(e.I), true
	case "pi":
		return new(big.Int).SetUint64(e.N), true
	case "ni":
		return new(big.Int).Neg(new(big.Int).SetUint64(e.N)), true
	case "bi":
		if e.Big != nil {
			return e.Big, true
		}
	}
	return nil, false
}

func (w *c05Walker) intLeaf(consume bool, want *big.Int, kind string) {
	e, ok := w.peek(consume)
	if !ok {
		return
	}
	got, isInt := c05EvInt(e)
	if w.strict && ((want.Sign() < 0 || kind == "i") != (e.K == "i" || e.K == "ni")) {
		isInt = false
	}
	if !isInt {
		w.lost(fmt.Sprintf("at %d: expected an integer event, got %s", w.pos, e.String()))
		return
	}
	if got.Cmp(want) != 0 {
		w.problem("scalar", fmt.Sprintf("at %d: integer %s described as %s", w.pos, want, e.String()))
	}
	w.pos++
}

func c05AKind(k reflect.Kind) (name string, at events.ArrayType, width int) {
	switch k {
	case reflect.Uint8:
		return "AU8", events.ArrayTypeUint8, 1
	case reflect.Uint16:
		return "AU16", events.ArrayTypeUint16, 2
	case reflect.Uint32:
		return "AU32", events.ArrayTypeUint32, 4
	case reflect.Uint64, reflect.Uint:
		return "AU64", events.ArrayTypeUint64, 8
	case reflect.Int8:
		return "AI8", events.ArrayTypeInt8, 1
	case reflect.Int16:
		return "AI16", events.ArrayTypeInt16, 2
	case reflect.Int32:
		return "AI32", events.ArrayTypeInt32, 4
	case reflect.Int64, reflect.Int:
		return "AI64", events.ArrayTypeInt64, 8
	case reflect.Float32:
		return "AF32", events.ArrayTypeFloat32, 4
	case reflect.Float64:
		return "AF64", events.ArrayTypeFloat64, 8
	}
	return "", 0, 0
}

func c05SeqKind(v reflect.Value) string {
	if v.Kind() == reflect.Array {
		return "SArr"
	}
	if v.IsNil() {
		return "SNil"
	}
	return "SSlice"
}

// numeric slice / array: one whole-array event, element-exact, little endian
func (w *c05Walker) numArray(v reflect.Value, consume bool) string {
	ek := v.Type().Elem().Kind()
	name, at, width := c05AKind(ek)
	n := v.Len()
	raw := make([]uint64, n)
	items := make([]string, n)
	for i := 0; i < n; i++ {
		el := v.Index(i)
		switch ek {
		case reflect.Float32:
			raw[i] = uint64(c05Bits32(el))
			items[i] = fmt.Sprint(raw[i])
		case reflect.Float64:
			raw[i] = c05Bits64(el)
			items[i] = fmt.Sprint(raw[i])
		case reflect.Int, reflect.Int8, reflect.Int16, reflect.Int32, reflect.Int64:
			raw[i] = uint64(el.Int())
			items[i] = fmt.Sprint(el.Int())
		default:
			raw[i] = el.Uint()
			items[i] = fmt.Sprint(el.Uint())
		}
	}
	w.leaf(consume, "a", func(e Ev) bool {
		if e.A != at || e.N != uint64(n) || len(e.Data) != n*width {
			return false
		}
		good := true
		for i := 0; i < n; i++ {
			var got uint64
			for j := width - 1; j >= 0; j-- {
				got = got<<8 | uint64(e.Data[i*width+j])
			}
			want := raw[i]
			if width < 8 {
				want &= 1<<(8*uint(width)) - 1
			}
			if got != want {
				if ek == reflect.Float32 && c05IsNan32(uint32(want)) && got == want|0x400000 {
					w.problem("float32-snan-quieted/array", fmt.Sprintf("element %d: %08x emitted as %08x", i, want, got))
					continue
				}
				good = false
			}
		}
		return good
	}, "typed-array", fmt.Sprintf("%v %v", v.Type(), items))
	return cApp("VNum", c05SeqKind(v), name, "["+strings.Join(items, "; ")+"]%Z")
}

func (w *c05Walker) boolArray(v reflect.Value, consume bool) string {
	n := v.Len()
	items := make([]string, n)
	bits := make([]bool, n)
	for i := 0; i < n; i++ {
		bits[i] = v.Index(i).Bool()
		items[i] = cBool(bits[i])
	}
	if n > 8 {
		w.feats["bools>8"]++
	}
	w.leaf(consume, "a", func(e Ev) bool {
		if e.A != events.ArrayTypeBit || e.N != uint64(n) || len(e.Data) != (n+7)/8 {
			return false
		}
		for i := 0; i < n; i++ {
			if (e.Data[i/8]>>(uint(i)%8)&1 == 1) != bits[i] {
				return false
			}
		}
		return true
	}, "bool-array-bits", fmt.Sprintf("%v %v", v.Type(), bits))
	return cApp("VBools", c05SeqKind(v), cList(items))
}

// reference handling of pointers, list slices and maps under recursion support.
// Returns stop=true when the occurrence was emitted as a reference.
func (w *c05Walker) refOrMarker(v reflect.Value, consume bool) (stop bool) {
	if !consume || w.desync || !w.kc.Recursion {
		return false
	}
	e, ok := w.peek(consume)
	if !ok {
		return false
	}
	switch e.K {
	case "mk":
		id := string(e.Data)
		if _, dup := w.marked[id]; dup {
			w.problem("marker", "marker id "+id+" used twice")
		}
		w.marked[id] = v
		w.pos++
		if w.markOpen > 0 {
			w.feats["nested-marker"]++
		}
		w.markNow = true
		if n, ok2 := w.peek(consume); ok2 && (n.K == "mk" || n.K == "ref") {
			w.feats["marker-then-"+map[string]string{"mk": "marker", "ref": "reference"}[n.K]]++
		}
	case "ref":
		id := string(e.Data)
		m, known := w.marked[id]
		// a marker seen at a pointer may belong to the pointer or (when only the pointee is shared) to what it
		// points to: follow the marked value down its pointers and interfaces
		var hit reflect.Value
		for steps := 0; known && steps < 8; steps++ {
			if m.Type() == v.Type() && (m.Kind() == reflect.Ptr || m.Kind() == reflect.Map || m.Kind() == reflect.Slice) && m.Pointer() == v.Pointer() {
				hit = m
				break
			}
			if (m.Kind() == reflect.Ptr || m.Kind() == reflect.Interface) && !m.IsNil() {
				m = m.Elem()
				continue
			}
			break
		}
		switch {
		case !known:
			w.problem("reference", "reference to unknown marker "+id)
		case !hit.IsValid():
			if v.Kind() == reflect.Ptr && c05LeadsTo(v, w.marked[id]) {
				return false // the reference stands for something this pointer leads to
			}
			w.problem("reference", fmt.Sprintf("reference %s stands for a different object: it is emitted for a %v, the marker is on a %v (same address: %v)",
				id, v.Type(), w.marked[id].Type(), c05SameAddress(v, w.marked[id])))
		case v.Kind() == reflect.Slice && hit.Len() != v.Len():
			w.problem("slice-same-base-different-length", fmt.Sprintf("slice of length %d emitted as a reference to the slice of length %d starting at the same address", v.Len(), hit.Len()))
		}
		w.pos++
		return true
	}
	return false
}

// the objects the iterator asks the reference table about before it emits anything else, starting at v:
// v itself when it is a non-nil pointer, list slice or map, and what a pointer / interface leads to
func c05RefChain(v reflect.Value) []reflect.Value {
	var out []reflect.Value
	for steps := 0; steps < 16 && v.IsValid(); steps++ {
		switch v.Kind() {
		case reflect.Ptr:
			if v.IsNil() {
				return out
			}
			out = append(out, v)
			v = v.Elem()
		case reflect.Interface:
			if v.IsNil() {
				return out
			}
			v = v.Elem()
		case reflect.Map, reflect.Slice:
			if !v.IsNil() {
				out = append(out, v)
			}
			return out
		default:
			return out
		}
	}
	return out
}

// does the pointer v lead (through pointers and interfaces only) to the object a marker seen at m belongs to?
func c05LeadsTo(v, m reflect.Value) bool {
	for _, x := range c05RefChain(v.Elem()) {
		for _, y := range c05RefChain(m) {
			if x.Type() == y.Type() && x.Pointer() == y.Pointer() {
				return true
			}
		}
	}
	return false
}

func c05SameAddress(a, b reflect.Value) bool {
	ok := func(v reflect.Value) bool {
		return v.Kind() == reflect.Ptr || v.Kind() == reflect.Map || v.Kind() == reflect.Slice
	}
	return ok(a) && ok(b) && a.Pointer() == b.Pointer()
}

// ---------------------------------------------------------------------------
// which typed pointers the model's duplicate finder (Model/Iterate.v, scan) flags for a value: the value read
// the way the walker presents it to the model, where only pointers, list slices and maps have an identity.
// go-duplicates also registers the address of every field of an addressable struct; a value in which that
// changes the answer for a pointer the iterator asks about is outside the model (head of Model/Iterate.v).
func c05ModelDups(root reflect.Value) map[c05TP]bool {
	reg := map[c05TP]bool{}
	register := func(v reflect.Value) (again bool) {
		tp := c05TP{v.Type(), v.Pointer()}
		if _, ok := reg[tp]; ok {
			reg[tp] = true
			return true
		}
		reg[tp] = false
		return false
	}
	var scan func(v reflect.Value)
	scan = func(v reflect.Value) {
		t := v.Type()
		switch t.Kind() {
		case reflect.Interface:
			if !v.IsNil() {
				scan(v.Elem())
			}
		case reflect.Ptr:
			if v.IsNil() {
				return
			}
			switch t.Elem() {
			case c05TURL, c05TBigInt, c05TBigFlt, c05TBigDec, c05TTime, c05TCTime:
				return
			}
			if !register(v) {
				scan(v.Elem())
			}
		case reflect.Map:
			if v.IsNil() || v.Len() == 0 {
				return
			}
			if !register(v) {
				for _, k := range v.MapKeys() {
					scan(v.MapIndex(k))
				}
			}
		case reflect.Slice, reflect.Array:
			if t == c05TUID {
				return
			}
			ek := t.Elem().Kind()
			if name, _, _ := c05AKind(ek); name != "" || ek == reflect.Bool {
				return
			}
			if t.Kind() == reflect.Slice && (v.IsNil() || v.Len() == 0 || register(v)) {
				return
			}
			for i := 0; i < v.Len(); i++ {
				scan(v.Index(i))
			}
		case reflect.Struct:
			if c05Special(t) && t != c05TNode && t != c05TEdge {
				return
			}
			for i := 0; i < t.NumField(); i++ {
				scan(v.Field(i))
			}
		}
	}
	if root.IsValid() {
		scan(root)
	}
	return reg
}

// true when go-duplicates and the model's duplicate finder disagree about an object the iterator asks about
func c05DupsDiffer(root interface{}, asked map[c05TP]int) (differ bool) {
	defer func() {
		if recover() != nil {
			differ = false
		}
	}()
	impl := duplicates.FindDuplicatePointers(root)
	model := c05ModelDups(reflect.ValueOf(root))
	for tp := range asked {
		if impl[duplicates.TypedPointer{Type: tp.T, Pointer: tp.P}] != model[tp] {
			return true
		}
	}
	return false
}

func (w *c05Walker) value(v reflect.Value, consume bool) string {
	t := v.Type()
	if name, ok := w.kc.recordName(t); ok && t.Kind() == reflect.Struct {
		return w.structVal(v, consume, name, true)
	}
	switch t.Kind() {
	case reflect.Bool:
		b := v.Bool()
		w.leaf(consume, "b", func(e Ev) bool { return e.B == b }, "scalar", fmt.Sprint(b))
		return cApp("VBool", cBool(b))
	case reflect.Int, reflect.Int8, reflect.Int16, reflect.Int32, reflect.Int64:
		w.intLeaf(consume, big.NewInt(v.Int()), "i")
		return cApp("VInt", cZ(v.Int()))
	case reflect.Uint, reflect.Uint8, reflect.Uint16, reflect.Uint32, reflect.Uint64:
		w.intLeaf(consume, new(big.Int).SetUint64(v.Uint()), "pi")
		return cApp("VUint", cN(v.Uint()))
	case reflect.Float32:
		bits := c05Bits32(v)
		want := c05Widen(bits)
		w.leaf(consume, "fl", func(e Ev) bool {
			got := math.Float64bits(e.F)
			if got != want && c05IsNan32(bits) && got == want|1<<51 {
				w.problem("float32-snan-quieted/scalar", fmt.Sprintf("%08x emitted as %016x", bits, got))
				return true
			}
			return got == want
		}, "scalar", fmt.Sprintf("float32 %08x", bits))
		return cApp("VF32", cN(uint64(bits)))
	case reflect.Float64:
		bits := c05Bits64(v)
		w.leaf(consume, "fl", func(e Ev) bool { return math.Float64bits(e.F) == bits }, "scalar", fmt.Sprintf("float64 %016x", bits))
		return cApp("VF64", cN(bits))
	case reflect.String:
		s := v.String()
		if !utf8.ValidString(s) {
			w.feats["invalid-utf8"]++
		}
		w.leaf(consume, "sa", func(e Ev) bool { return e.A == events.ArrayTypeString && string(e.Data) == s }, "scalar", strconv.Quote(s))
		return cApp("VString", cBytes([]byte(s)))
	case reflect.Interface:
		if v.IsNil() {
			w.leaf(consume, "null", func(Ev) bool { return true }, "scalar", "nil interface")
			return "VNilIface"
		}
		return cApp("VIface", w.value(v.Elem(), consume))
	case reflect.Array, reflect.Slice:
		if t == c05TUID {
			b := make([]byte, 16)
			for i := range b {
				b[i] = byte(v.Index(i).Uint())
			}
			w.leaf(consume, "uid", func(e Ev) bool { return string(e.Data) == string(b) }, "scalar", "uid")
			return cApp("VUid", cBytes(b))
		}
		ek := t.Elem().Kind()
		if name, _, _ := c05AKind(ek); name != "" {
			return w.numArray(v, consume)
		}
		if ek == reflect.Bool {
			return w.boolArray(v, consume)
		}
		return w.list(v, consume)
	case reflect.Map:
		return w.mapVal(v, consume)
	case reflect.Struct:
		return w.structKind(v, consume)
	case reflect.Ptr:
		if v.IsNil() {
			w.leaf(consume, "null", func(Ev) bool { return true }, "scalar", "nil pointer")
			return "VNilPtr"
		}
		switch t.Elem() {
		case c05TURL, c05TBigInt, c05TBigFlt, c05TBigDec, c05TTime, c05TCTime:
			return cApp("VOPtr", w.value(v.Elem(), consume))
		}
		a := w.addr(v)
		tp := c05TP{t, v.Pointer()}
		if w.anc[tp] > 0 {
			if consume && !w.desync && !w.refOrMarker(v, consume) {
				w.lost("a cycle is walked again")
			}
			return cApp("VPtr", cNi(a), "VNilPtr")
		}
		if w.refOrMarker(v, consume) {
			consume = false
		}
		if w.markNow {
			w.markNow = false
			w.markOpen++
			defer func() { w.markOpen-- }()
		}
		w.anc[tp]++
		inner := w.value(v.Elem(), consume)
		w.anc[tp]--
		return cApp("VPtr", cNi(a), inner)
	}
	panic(fmt.Sprintf("c05: unsupported kind %v", t))
}

func (w *c05Walker) list(v reflect.Value, consume bool) string {
	isSlice := v.Kind() == reflect.Slice
	a := 0
	var tp c05TP
	if isSlice {
		if v.IsNil() {
			w.leaf(consume, "null", func(Ev) bool { return true }, "scalar", "nil slice")
			return "VNilSlice"
		}
		a = w.addr(v)
		tp = c05TP{v.Type(), v.Pointer()}
		if w.anc[tp] > 0 && v.Len() > 0 {
			if consume && !w.desync && !w.refOrMarker(v, consume) {
				w.lost("a cycle is walked again")
			}
			return cApp("VSlice", cNi(a), "[VNilIface]")
		}
		if w.refOrMarker(v, consume) {
			consume = false
		}
		if w.markNow {
			w.markNow = false
			w.markOpen++
			defer func() { w.markOpen-- }()
		}
		w.anc[tp]++
		defer func() { w.anc[tp]-- }()
	}
	w.expectKind(consume, "l", "list")
	items := make([]string, v.Len())
	for i := range items {
		items[i] = w.value(v.Index(i), consume)
	}
	w.expectKind(consume, "e", "end of list")
	if isSlice {
		return cApp("VSlice", cNi(a), cList(items))
	}
	return cApp("VArray", cList(items))
}

type c05Snapshot struct {
	pos, nprob int
	desync     bool
	marked     map[string]reflect.Value
	feats      map[string]int
	dupAt      map[int]bool
}

func (w *c05Walker) snapshot() c05Snapshot {
	m := map[string]reflect.Value{}
	for k, v := range w.marked {
		m[k] = v
	}
	f := map[string]int{}
	for k, v := range w.feats {
		f[k] = v
	}
	d := map[int]bool{}
	for k, v := range w.dupAt {
		d[k] = v
	}
	return c05Snapshot{w.pos, len(w.problems), w.desync, m, f, d}
}

func (w *c05Walker) restore(s c05Snapshot) {
	w.pos, w.problems, w.desync, w.marked, w.feats, w.dupAt = s.pos, w.problems[:s.nprob], s.desync, s.marked, s.feats, s.dupAt
}

// a field name about to be read at the current position: note it when the same map / record type has it already
func (w *c05Walker) fieldName(seen map[string]bool, name string, consume bool) {
	if seen[name] {
		w.feats["duplicate-flattened-field-name"]++
		if consume && !w.desync {
			w.dupAt[w.pos] = true
		}
	}
	seen[name] = true
}

// the fields Go promotes through embedded structs with a lower-case type name, which the implementation does not see
func c05Promoted(t reflect.Type) (impl, full, hidden []c05Field) {
	impl, full = c05Extract(t, nil, false), c05Extract(t, nil, true)
	have := map[string]bool{}
	for _, f := range impl {
		have[c05PathKey(f.Path)] = true
	}
	for _, f := range full {
		if !have[c05PathKey(f.Path)] {
			hidden = append(hidden, f)
		}
	}
	return
}

func c05FieldNames(fs []c05Field) string {
	var n []string
	for _, f := range fs {
		n = append(n, f.GoName)
	}
	return strings.Join(n, ", ")
}

const c05ClassPromoted = "promoted-field-of-unexported-embedded-dropped"

func (w *c05Walker) mapVal(v reflect.Value, consume bool) string {
	if v.IsNil() {
		w.leaf(consume, "null", func(Ev) bool { return true }, "scalar", "nil map")
		return "VNilMap"
	}
	a := w.addr(v)
	tp := c05TP{v.Type(), v.Pointer()}
	if v.Len() > 1 {
		w.feats["go-map>1"]++
	}
	if w.anc[tp] > 0 && v.Len() > 0 {
		if consume && !w.desync && !w.refOrMarker(v, consume) {
			w.lost("a cycle is walked again")
		}
		return cApp("VMap", cNi(a), "[(VNilIface, VNilIface)]")
	}
	if w.refOrMarker(v, consume) {
		consume = false
	}
	if w.markNow {
		w.markNow = false
		w.markOpen++
		defer func() { w.markOpen-- }()
	}
	w.anc[tp]++
	defer func() { w.anc[tp]-- }()
	w.expectKind(consume, "m", "map")
	keys := v.MapKeys()
	entries := []string{}
	remaining := append([]reflect.Value{}, keys...)
	for len(remaining) > 0 {
		pick := 0
		if consume && !w.desync {
			if e, ok := w.peek(consume); ok && e.K == "e" {
				w.problem("map-entry-missing", fmt.Sprintf("%d of %d entries are not described", len(remaining), len(keys)))
				w.desync = true
			} else {
				pick = -1
				// mode 0: key (integer kinds as emitted today) and value both fit; 1: that key fits; 2: any integer form of the key fits
				for mode := 0; mode < 3 && pick < 0; mode++ {
					for i, k := range remaining {
						s := w.snapshot()
						np := len(w.problems)
						w.strict = mode < 2
						w.value(k, true)
						w.strict = false
						if mode == 0 && !w.desync && len(w.problems) == np {
							w.value(v.MapIndex(k), true)
						}
						okk := !w.desync && len(w.problems) == np
						w.restore(s)
						if okk {
							pick = i
							break
						}
					}
				}
				if pick < 0 {
					w.lost(fmt.Sprintf("at %d: no remaining map key is described here", w.pos))
					pick = 0
				}
			}
		}
		k := remaining[pick]
		remaining = append(remaining[:pick], remaining[pick+1:]...)
		kt := w.value(k, consume)
		vt := w.value(v.MapIndex(k), consume)
		entries = append(entries, cPair(kt, vt))
	}
	w.expectKind(consume, "e", "end of map")
	return cApp("VMap", cNi(a), cList(entries))
}

// a time the validator takes (rules OnTime, /repo bdbfb19): the zero value, or one compact_time's Validate accepts
func c05TimeValid(ct compact_time.Time) bool {
	return ct.IsZeroValue() || ct.Validate() == nil
}

// the printed form of a time as the model carries it: a value Validate rejects is tagged with a leading NUL byte,
// as evcoq.go does for the event (Model/Rules.v time_token_valid)
func c05TimeToken(ct compact_time.Time) []byte {
	tok := []byte(ct.String())
	if !c05TimeValid(ct) {
		tok = append([]byte{0}, tok...)
	}
	return tok
}

// struct kinds with their own iterator, else a plain struct
func (w *c05Walker) structKind(v reflect.Value, consume bool) string {
	t := v.Type()
	zero := cBool(v.IsZero())
	switch t {
	case c05TTime, c05TCTime:
		var ct compact_time.Time
		if t == c05TTime {
			ct = compact_time.AsCompactTime(c05Iface(v).(time.Time))
		} else {
			ct = c05Iface(v).(compact_time.Time)
		}
		w.leaf(consume, "tm", func(e Ev) bool { return e.T == ct }, "scalar", "time "+ct.String())
		if !c05TimeValid(ct) {
			w.feats["invalid-time"]++
		}
		return cApp("VTime", zero, cBytes(c05TimeToken(ct)))
	case c05TURL:
		u := c05Iface(v).(url.URL)
		s := (&u).String()
		w.leaf(consume, "sa", func(e Ev) bool { return e.A == events.ArrayTypeResourceID && string(e.Data) == s }, "scalar", "url "+s)
		return cApp("VUrl", zero, cBytes([]byte(s)))
	case c05TBigInt:
		b := c05Iface(v).(big.Int)
		w.intLeaf(consume, &b, "bi")
		return cApp("VBigInt", zero, cBigZ(&b))
	case c05TBigFlt:
		f := c05Iface(v).(big.Float)
		w.leaf(consume, "bf", func(e Ev) bool {
			return e.BF != nil && e.BF.Cmp(&f) == 0 && e.BF.Prec() == f.Prec() && e.BF.Signbit() == f.Signbit()
		}, "scalar", "big.Float "+f.Text('g', 20))
		return cApp("VBigFloat", zero, cBigFloat(&f))
	case c05TBigDec:
		d := c05Iface(v).(apd.Decimal)
		w.leaf(consume, "bdf", func(e Ev) bool { return e.BDF != nil && cAPD(e.BDF) == cAPD(&d) }, "scalar", "apd.Decimal "+d.String())
		return cApp("VBigDec", zero, cAPD(&d))
	case c05TDFloat:
		d := c05Iface(v).(compact_float.DFloat)
		w.leaf(consume, "df", func(e Ev) bool { return e.DF == d }, "scalar", "dfloat "+d.String())
		return cApp("VDFloat", zero, cDFloat(d))
	case c05TMedia:
		m := c05Iface(v).(types.Media)
		w.leaf(consume, "media", func(e Ev) bool { return e.S == m.MediaType && string(e.Data) == string(m.Data) }, "scalar", "media "+m.MediaType)
		return cApp("VMedia", zero, cBytes([]byte(m.MediaType)), cBytes(m.Data))
	case c05TNode:
		w.expectKind(consume, "node", "node")
		val := w.value(v.Field(types.NodeFieldIndexValue), consume)
		ch := v.Field(types.NodeFieldIndexChildren)
		chTerm := "VNilSlice"
		if !ch.IsNil() {
			items := make([]string, ch.Len())
			for i := range items {
				items[i] = w.value(ch.Index(i), consume)
			}
			chTerm = cApp("VSlice", cNi(w.addr(ch)), cList(items))
		}
		w.expectKind(consume, "e", "end of node")
		return cApp("VNode", val, chTerm)
	case c05TEdge:
		w.feats["edge"]++
		w.expectKind(consume, "edge", "edge")
		s := w.value(v.Field(types.EdgeFieldIndexSource), consume)
		d := w.value(v.Field(types.EdgeFieldIndexDescription), consume)
		dst := w.value(v.Field(types.EdgeFieldIndexDestination), consume)
		if w.edgeEnd {
			w.expectKind(consume, "e", "end of edge")
		} else if consume && !w.desync {
			w.problem("edge-no-end", "the edge is not closed by an end-container event")
		}
		return cApp("VEdge", s, d, dst)
	}
	return w.structVal(v, consume, "", false)
}

func (w *c05Walker) structVal(v reflect.Value, consume bool, recName string, isRecord bool) string {
	impl, full, hidden := c05Promoted(v.Type())
	if len(hidden) == 0 {
		return w.structValWith(v, consume, recName, isRecord, impl)
	}
	w.feats["unexported-embedded"]++
	// the promoted fields this value (as a record: its type) has to show
	var due []c05Field
	for _, f := range hidden {
		if w.kc.keeps(f, c05FieldByPath(v, f.Path)) || (isRecord && w.kc.keeps(f, reflect.ValueOf(1))) {
			due = append(due, f)
		}
	}
	if len(due) == 0 || !consume || w.desync {
		return w.structValWith(v, consume, recName, isRecord, impl)
	}
	// every field once: first read the events that way; if they do not fit, say so and read them the implementation's way,
	// so that anything else that is wrong is still found (under its own class)
	s, np := w.snapshot(), len(w.problems)
	term := w.structValWith(v, consume, recName, isRecord, full)
	if !w.desync && len(w.problems) == np {
		return term
	}
	w.restore(s)
	w.problem(c05ClassPromoted, fmt.Sprintf("at %d: %v does not show %s, exported field(s) of an embedded struct whose type name is lower-case", w.pos, v.Type(), c05FieldNames(due)))
	return w.structValWith(v, consume, recName, isRecord, impl)
}

func (w *c05Walker) structValWith(v reflect.Value, consume bool, recName string, isRecord bool, fields []c05Field) string {
	t := v.Type()
	for _, f := range fields {
		if f.Anon {
			w.feats["embedded-non-struct"]++ // kept in the list only when its type is not a struct
			break
		}
	}
	terms := map[string]string{}
	names := map[string]bool{}
	if isRecord {
		if e, ok := w.peek(consume); ok && e.K == "m" && !w.kc.recordOrderOK() {
			// the iterator of this occurrence was built before the type was registered (session.go Init): a plain map
			w.feats["record-as-map"]++
			isRecord = false
		}
	}
	if isRecord {
		w.feats["record"]++
		w.leaf(consume, "rec", func(e Ev) bool { return string(e.Data) == recName }, "record-name", "record "+recName)
	} else {
		w.expectKind(consume, "m", "struct")
	}
	kept := 0
	for _, f := range fields {
		fv := c05FieldByPath(v, f.Path)
		if isRecord && c05RecordKeepsAll() {
			// the implementation carries every declared field in a record, whatever the omit rules say of this value
			if !w.kc.keeps(f, reflect.ValueOf(1)) {
				continue
			}
		} else if !w.kc.keeps(f, fv) {
			continue
		}
		kept++
		if !isRecord {
			name := w.kc.emittedName(f)
			w.fieldName(names, name, consume)
			w.leaf(consume, "sa", func(e Ev) bool { return e.A == events.ArrayTypeString && string(e.Data) == name }, "field-name", "field "+f.GoName+" as "+strconv.Quote(name))
		}
		terms[c05PathKey(f.Path)] = w.value(fv, consume)
	}
	declared := 0
	for _, f := range fields {
		if w.kc.keeps(f, reflect.ValueOf(1)) {
			declared++
		}
	}
	if isRecord && kept != declared {
		w.feats["record-omitted-field"]++
		if consume && !w.desync {
			w.problem("record-omitted-field", fmt.Sprintf("record %s carries %d values, its type declares %d keys", recName, kept, declared))
		}
	}
	w.expectKind(consume, "e", "end of struct")
	return cApp("VStruct", cNi(w.sid(t)), w.assemble(v, nil, terms))
}

// every field in declaration order; the ones walked above come from terms
func (w *c05Walker) assemble(v reflect.Value, path []int, terms map[string]string) string {
	t := v.Type()
	items := make([]string, t.NumField())
	for i := range items {
		p := append(append([]int{}, path...), i)
		fd := c05ParseField(t.Field(i), p)
		var vt string
		switch {
		case fd.extractable() && fd.Anon && fd.Type.Kind() == reflect.Struct:
			vt = cApp("VStruct", cNi(w.sid(fd.Type)), w.assemble(v.Field(i), p, terms))
		default:
			if s, ok := terms[c05PathKey(p)]; ok {
				vt = s
			} else {
				vt = w.value(v.Field(i), false)
			}
		}
		items[i] = cPair(fd.coq(), vt)
	}
	return cList(items)
}

func (w *c05Walker) protoTerm(t reflect.Type) string {
	return w.assemble(reflect.Zero(t), nil, map[string]string{})
}

func (w *c05Walker) cfgTerm() string {
	recs := make([]string, len(w.kc.RecTypes))
	for i, t := range w.kc.RecTypes {
		recs[i] = cApp("mkRT", cBytes([]byte(w.kc.RecNames[i])), cNi(w.sid(t)), w.protoTerm(t))
	}
	return cApp("mkCfg", cBool(w.kc.Snake), cBool(w.kc.Recursion), c05Omit(w.kc.Omit), cList(recs))
}

var c05RecordProbe = 0

// does a record carry a value for every key its record type declares, even for an empty field?
func c05RecordKeepsAll() bool {
	if c05RecordProbe == 0 {
		rec := &Recorder{}
		cfg := configuration.New()
		cfg.Iterator.RecordTypes[reflect.TypeOf(c05RecA{})] = "r"
		func() {
			defer func() { recover() }()
			iterator.NewSession(nil, cfg).NewIterator(rec).Iterate(c05RecA{A: 1})
		}()
		c05RecordProbe = 1
		// bd v rt a b c e rec 1 [""] [null|empty array] e ed
		if len(rec.Evs) == 13 {
			c05RecordProbe = 2
		}
	}
	return c05RecordProbe == 2
}

var c05EdgeProbe = 0

// does the implementation close an edge with an end-container event?
func c05EdgeEmitsEnd() bool {
	if c05EdgeProbe == 0 {
		rec := &Recorder{}
		func() {
			defer func() { recover() }()
			iterator.NewSession(nil, configuration.New()).NewIterator(rec).Iterate([]interface{}{types.Edge{Source: 1, Description: 2, Destination: 3}})
		}()
		c05EdgeProbe = 1
		// bd v l edge 1 2 3 [e] e ed
		if len(rec.Evs) == 10 {
			c05EdgeProbe = 2
		}
	}
	return c05EdgeProbe == 2
}

// ---------------------------------------------------------------------------
// random types and values

type c05Gen struct {
	rng    *rand.Rand
	cycles bool // recursion support is on: sharing may form cycles
	pool   map[reflect.Type][]reflect.Value
	defect bool // allow shapes that hit recorded defect classes (edges, long bool slices, omitted record fields)
	// pointers into the middle of finished objects (address of a struct field, of the first element of an array or
	// slice): same address as the enclosing object when the field is the first one, another type
	interiorOn bool
	interior   []reflect.Value
	made       []reflect.Value // finished pointers, list slices and maps, to be used again elsewhere
}

var c05LeafTypes = []reflect.Type{
	reflect.TypeOf(false), reflect.TypeOf(int(0)), reflect.TypeOf(int8(0)), reflect.TypeOf(int16(0)), reflect.TypeOf(int32(0)), reflect.TypeOf(int64(0)),
	reflect.TypeOf(uint(0)), reflect.TypeOf(uint8(0)), reflect.TypeOf(uint16(0)), reflect.TypeOf(uint32(0)), reflect.TypeOf(uint64(0)),
	reflect.TypeOf(float32(0)), reflect.TypeOf(float64(0)), reflect.TypeOf(""),
	reflect.TypeOf([]byte{}), reflect.TypeOf([3]byte{}), reflect.TypeOf([]uint16{}), reflect.TypeOf([]uint32{}), reflect.TypeOf([]uint64{}), reflect.TypeOf([]uint{}),
	reflect.TypeOf([]int8{}), reflect.TypeOf([]int16{}), reflect.TypeOf([]int32{}), reflect.TypeOf([]int64{}), reflect.TypeOf([]int{}),
	reflect.TypeOf([]float32{}), reflect.TypeOf([]float64{}), reflect.TypeOf([2]int16{}), reflect.TypeOf([2]float32{}), reflect.TypeOf([0]int{}), reflect.TypeOf([2]uint64{}),
	reflect.TypeOf([]bool{}), reflect.TypeOf([3]bool{}), reflect.TypeOf([0]bool{}),
	c05TTime, reflect.PtrTo(c05TTime), c05TCTime, c05TURL, reflect.PtrTo(c05TURL), c05TBigInt, reflect.PtrTo(c05TBigInt),
	c05TBigFlt, reflect.PtrTo(c05TBigFlt), c05TBigDec, reflect.PtrTo(c05TBigDec), c05TDFloat, c05TUID, c05TMedia,
}

var c05KeyTypes = []reflect.Type{
	reflect.TypeOf(false), reflect.TypeOf(int(0)), reflect.TypeOf(int8(0)), reflect.TypeOf(int64(0)), reflect.TypeOf(uint16(0)), reflect.TypeOf(uint64(0)),
	reflect.TypeOf(""), reflect.TypeOf(""), c05TIface, c05TUID,
}

var c05GoNames = []string{"A", "AB", "ABc", "HTTPServer", "UserID", "X9Y", "Name2Go", "URLValue", "ID", "Z", "FooBar", "B2B", "Q_r"}
var c05TagNames = []string{"x", "Key", "my_name", "CamelName", "k9", "", "UPPER", "aB", " spaced "}

func (g *c05Gen) typ(depth int) reflect.Type {
	r := g.rng.Intn(100)
	if depth <= 0 || r < 45 {
		return c05LeafTypes[g.rng.Intn(len(c05LeafTypes))]
	}
	switch {
	case r < 55:
		return reflect.SliceOf(g.typ(depth - 1))
	case r < 59:
		return reflect.ArrayOf(g.rng.Intn(3), g.typ(depth-1))
	case r < 68:
		return reflect.MapOf(c05KeyTypes[g.rng.Intn(len(c05KeyTypes))], g.typ(depth-1))
	case r < 76:
		return reflect.PtrTo(g.typ(depth - 1))
	case r < 84:
		return c05TIface
	case r < 96:
		return g.structType(depth)
	case r < 98:
		return c05TNode
	default:
		if g.defect {
			return c05TEdge
		}
		return c05TNode
	}
}

// the name a field is known by in the document, reduced so that names that could collide in either style do
func c05NameKey(name string) string {
	return strings.ReplaceAll(c05Snake(strings.TrimSpace(name)), "_", "")
}

var c05EmbeddableTypes = []reflect.Type{reflect.TypeOf(C05MyInt(0)), reflect.TypeOf(C05MyText("")), reflect.TypeOf(C05MyBytes{}), reflect.TypeOf(C05MyFloat(0)),
	reflect.TypeOf(C05MyFlag(false)), reflect.TypeOf(C05MyList{}), reflect.TypeOf(C05MyNums{}), reflect.TypeOf((*C05MyAny)(nil)).Elem(),
	reflect.TypeOf(C05MyArr{}), reflect.TypeOf(&C05MyInner{}), reflect.TypeOf(new(C05MyInt))}

func (g *c05Gen) structType(depth int) reflect.Type {
	levels := 0 // levels of embedded structs below this one
	if g.rng.Intn(5) < 2 {
		levels = 1 + g.rng.Intn(6)
	}
	return g.structTree(depth, levels, map[string]bool{})
}

// used: the names taken in the struct this one is embedded in (embedded fields are flattened into one map)
func (g *c05Gen) structTree(depth, levels int, used map[string]bool) reflect.Type {
	n := g.rng.Intn(5)
	names := g.rng.Perm(len(c05GoNames))
	tags := g.rng.Perm(len(c05TagNames))
	fresh := func(i int) string {
		name := c05GoNames[names[i%len(names)]]
		for k := 0; used[c05NameKey(name)]; k++ {
			name = fmt.Sprintf("%sV%d", c05GoNames[names[i%len(names)]], len(used)+k)
		}
		used[c05NameKey(name)] = true
		return name
	}
	var embedded []reflect.StructField
	if levels > 0 {
		if n == 0 {
			n = 1 + g.rng.Intn(3)
		}
		k := 1
		if g.rng.Intn(4) == 0 {
			k = 2
		}
		for e := 0; e < k; e++ {
			f := reflect.StructField{Name: fmt.Sprintf("Emb%d%c", levels, 'A'+e), Anonymous: true}
			if g.rng.Intn(12) == 0 {
				f.Tag = `ce:"omit"`
				f.Type = g.structTree(depth, levels-1, map[string]bool{})
			} else {
				if g.rng.Intn(6) == 0 {
					f.Tag = reflect.StructTag(`ce:"` + []string{"omit_empty", "omit_zero", "omit_never", "order=-7", "name=ignored"}[g.rng.Intn(5)] + `"`)
				}
				below := used
				if g.defect && g.rng.Intn(8) == 0 {
					below = map[string]bool{} // names are chosen afresh below: some may repeat the ones taken above
				}
				f.Type = g.structTree(depth, levels-1, below)
			}
			embedded = append(embedded, f)
		}
	}
	fields := make([]reflect.StructField, n)
	for i := range fields {
		var parts []string
		if tag := c05TagNames[tags[i%len(tags)]]; g.rng.Intn(4) == 0 && !used[c05NameKey(tag)] {
			used[c05NameKey(tag)] = true
			parts = append(parts, "name="+tag)
		}
		switch g.rng.Intn(8) {
		case 0:
			parts = append(parts, "omit")
		case 1:
			parts = append(parts, "omit_empty")
		case 2:
			parts = append(parts, "omit_zero")
		case 3:
			parts = append(parts, "omit_never")
		}
		if g.rng.Intn(3) == 0 {
			parts = append(parts, fmt.Sprintf("order=%d", []int{-5, 0, 1, 1, 2, 7, 1000}[g.rng.Intn(7)]))
		}
		g.rng.Shuffle(len(parts), func(a, b int) { parts[a], parts[b] = parts[b], parts[a] })
		f := reflect.StructField{Name: fresh(i), Type: g.typ(depth - 1)}
		if len(parts) > 0 {
			f.Tag = reflect.StructTag(`ce:"` + strings.Join(parts, ",") + `"`)
		}
		fields[i] = f
	}
	// embedded fields that are not structs: ordinary fields named after their type
	for k := g.rng.Intn(8); k < 2; k++ {
		nt := c05EmbeddableTypes[g.rng.Intn(len(c05EmbeddableTypes))]
		name := nt.Name()
		if nt.Kind() == reflect.Ptr {
			name = nt.Elem().Name()
		}
		if used[c05NameKey(name)] {
			continue
		}
		used[c05NameKey(name)] = true
		f := reflect.StructField{Name: name, Type: nt, Anonymous: true}
		if g.rng.Intn(3) == 0 {
			f.Tag = reflect.StructTag(`ce:"` + []string{"omit_empty", "omit_zero", "omit_never", "order=-7", "omit"}[g.rng.Intn(5)] + `"`)
		}
		embedded = append(embedded, f)
	}
	for _, e := range embedded {
		at := g.rng.Intn(len(fields) + 1)
		fields = append(fields[:at], append([]reflect.StructField{e}, fields[at:]...)...)
	}
	return reflect.StructOf(fields)
}

var c05Ints = []int64{0, 1, -1, 2, 127, -128, 128, 255, 256, 32767, -32768, 65535, 1 << 31, -(1 << 31), 1<<31 - 1, 1<<32 - 1, 1 << 32, math.MaxInt64, math.MinInt64, 42, -1000}
var c05F64 = []uint64{0, 1 << 63, 0x3ff0000000000000, 0xbff8000000000000, 0x7ff0000000000000, 0xfff0000000000000, 0x7ff8000000000000, 0x7ff4000000000001, 0x7ff8000000000001,
	0x0000000000000001, 0x000fffffffffffff, 0x0010000000000000, 0x7fefffffffffffff, 0x400921fb54442d18, 0x3fb999999999999a}
var c05F32 = []uint32{0, 1 << 31, 0x3f800000, 0xbfc00000, 0x7f800000, 0xff800000, 0x7fc00000, 0x7fc00001, 0x00000001, 0x007fffff, 0x00800000, 0x7f7fffff, 0x40490fdb}
var c05Strings = []string{"", "a", "hello", "Straße", "日本語", "a b\n", "🙂", "x_y", "0", "null", "CamelCase"}
var c05BoolLens = []int{0, 1, 2, 7, 8}
var c05BoolLensLong = []int{9, 15, 16, 17, 24, 33, 64, 65}

func (g *c05Gen) int64() int64 {
	if g.rng.Intn(3) == 0 {
		return int64(g.rng.Uint64())
	}
	return c05Ints[g.rng.Intn(len(c05Ints))]
}

func (g *c05Gen) f32() uint32 {
	if g.rng.Intn(3) == 0 {
		w := g.rng.Uint32()
		if c05IsNan32(w) {
			w |= 0x400000 // random NaNs are quiet; signalling ones come from the zoo and the defect budget
		}
		return w
	}
	if g.defect && g.rng.Intn(12) == 0 {
		return 0x7fa00001
	}
	return c05F32[g.rng.Intn(len(c05F32))]
}

func (g *c05Gen) f64() uint64 {
	if g.rng.Intn(3) == 0 {
		return g.rng.Uint64()
	}
	return c05F64[g.rng.Intn(len(c05F64))]
}

func (g *c05Gen) str() string { return c05Strings[g.rng.Intn(len(c05Strings))] }

func (g *c05Gen) time() time.Time {
	locs := []*time.Location{time.UTC, time.FixedZone("", 3600), time.UTC}
	if l, err := time.LoadLocation("Europe/Berlin"); err == nil {
		locs = append(locs, l)
	}
	return time.Date(1990+g.rng.Intn(60), time.Month(1+g.rng.Intn(12)), 1+g.rng.Intn(28), g.rng.Intn(24), g.rng.Intn(60), g.rng.Intn(60),
		[]int{0, 0, 500000000, 123456789, 1000}[g.rng.Intn(5)], locs[g.rng.Intn(len(locs))])
}

func (g *c05Gen) setScalar(v reflect.Value) bool {
	switch v.Kind() {
	case reflect.Bool:
		v.SetBool(g.rng.Intn(2) == 0)
	case reflect.Int, reflect.Int8, reflect.Int16, reflect.Int32, reflect.Int64:
		x := g.int64()
		bits := uint(v.Type().Bits())
		x = x << (64 - bits) >> (64 - bits)
		v.SetInt(x)
	case reflect.Uint, reflect.Uint8, reflect.Uint16, reflect.Uint32, reflect.Uint64:
		x := uint64(g.int64())
		bits := uint(v.Type().Bits())
		x = x << (64 - bits) >> (64 - bits)
		v.SetUint(x)
	case reflect.Float32:
		*(*uint32)(unsafe.Pointer(v.UnsafeAddr())) = g.f32()
	case reflect.Float64:
		*(*uint64)(unsafe.Pointer(v.UnsafeAddr())) = g.f64()
	case reflect.String:
		v.SetString(g.str())
	default:
		return false
	}
	return true
}

// fill sets the addressable v to a random value of its type
func (g *c05Gen) fill(v reflect.Value, depth int) {
	t := v.Type()
	if g.setScalar(v) {
		return
	}
	switch t {
	case c05TTime:
		if g.rng.Intn(6) != 0 {
			v.Set(reflect.ValueOf(g.time()))
		}
		return
	case c05TCTime:
		v.Set(reflect.ValueOf(compact_time.AsCompactTime(g.time())))
		return
	case c05TURL:
		u, _ := url.Parse([]string{"http://example.com/a?b=c", "mailto:x@y.z", "https://x.org:8080/p%20q#frag", "urn:isbn:0451450523"}[g.rng.Intn(4)])
		v.Set(reflect.ValueOf(*u))
		return
	case c05TBigInt:
		b := new(big.Int).SetInt64(g.int64())
		if g.rng.Intn(2) == 0 {
			b.Mul(b, new(big.Int).Lsh(big.NewInt(1), uint(g.rng.Intn(100))))
		}
		v.Set(reflect.ValueOf(*b))
		return
	case c05TBigFlt:
		f := new(big.Float).SetPrec(uint([]int{24, 53, 64, 100}[g.rng.Intn(4)]))
		f.SetFloat64([]float64{0, 1.5, -2.25, 1e100, 1e-100, 3.141592653589793, math.Inf(1), math.Inf(-1)}[g.rng.Intn(8)])
		v.Set(reflect.ValueOf(*f))
		return
	case c05TBigDec:
		d := apd.New(g.int64()%1000000, int32(g.rng.Intn(40)-20))
		if g.rng.Intn(8) == 0 {
			d.Form = []apd.Form{apd.Infinite, apd.NaN, apd.NaNSignaling}[g.rng.Intn(3)]
		}
		v.Set(reflect.ValueOf(*d))
		return
	case c05TDFloat:
		ds := []compact_float.DFloat{compact_float.DFloatValue(0, 0), compact_float.DFloatValue(-3, 15), compact_float.DFloatValue(20, -123456789), compact_float.Infinity(), compact_float.NegativeInfinity(), compact_float.QuietNaN(), compact_float.SignalingNaN(), compact_float.NegativeZero(), compact_float.DFloatValue(5, 1)}
		v.Set(reflect.ValueOf(ds[g.rng.Intn(len(ds))]))
		return
	case c05TUID:
		var u types.UID
		if g.rng.Intn(4) != 0 {
			g.rng.Read(u[:])
		}
		v.Set(reflect.ValueOf(u))
		return
	case c05TMedia:
		m := types.Media{MediaType: []string{"a/b", "text/plain", "application/x-sh"}[g.rng.Intn(3)]}
		if g.rng.Intn(3) != 0 {
			m.Data = make([]byte, g.rng.Intn(5))
			g.rng.Read(m.Data)
		}
		v.Set(reflect.ValueOf(m))
		return
	case c05TNode:
		n := types.Node{Value: g.ifaceValue(depth - 1)}
		if g.rng.Intn(4) != 0 {
			n.Children = make([]interface{}, g.rng.Intn(3))
			for i := range n.Children {
				n.Children[i] = g.ifaceValue(depth - 1)
			}
		}
		v.Set(reflect.ValueOf(n))
		return
	case c05TEdge:
		e := types.Edge{Source: g.nonNilIface(depth - 1), Description: g.ifaceValue(depth - 1), Destination: g.nonNilIface(depth - 1)}
		v.Set(reflect.ValueOf(e))
		return
	}
	switch t.Kind() {
	case reflect.Interface:
		if x := g.ifaceValue(depth - 1); x != nil {
			v.Set(reflect.ValueOf(x))
		}
	case reflect.Ptr:
		if g.rng.Intn(5) == 0 {
			return
		}
		if p := g.pool[t]; len(p) > 0 && (g.rng.Intn(3) == 0 || (g.cycles && g.rng.Intn(2) == 0)) {
			v.Set(p[g.rng.Intn(len(p))])
			return
		}
		n := reflect.New(t.Elem())
		if g.cycles && g.rng.Intn(3) == 0 {
			g.pool[t] = append(g.pool[t], n) // visible while being filled: cycles
			g.fill(n.Elem(), depth-1)
		} else {
			g.fill(n.Elem(), depth-1)
			g.pool[t] = append(g.pool[t], n)
		}
		g.finished(n)
		v.Set(n)
	case reflect.Slice:
		if g.rng.Intn(6) == 0 {
			return
		}
		ek := t.Elem().Kind()
		if name, _, _ := c05AKind(ek); name != "" || ek == reflect.Bool {
			n := g.rng.Intn(5)
			if ek == reflect.Bool {
				n = c05BoolLens[g.rng.Intn(len(c05BoolLens))]
				if g.rng.Intn(3) == 0 {
					n = c05BoolLensLong[g.rng.Intn(len(c05BoolLensLong))]
				}
			}
			s := reflect.MakeSlice(t, n, n)
			for i := 0; i < n; i++ {
				g.setScalar(s.Index(i))
			}
			v.Set(s)
			return
		}
		if p := g.pool[t]; len(p) > 0 && g.rng.Intn(3) == 0 {
			v.Set(p[g.rng.Intn(len(p))])
			return
		}
		n := g.rng.Intn(4)
		s := reflect.MakeSlice(t, n, n)
		if g.cycles && n > 0 && g.rng.Intn(3) == 0 {
			g.pool[t] = append(g.pool[t], s)
		}
		for i := 0; i < n; i++ {
			g.fill(s.Index(i), depth-1)
		}
		if n > 0 {
			g.pool[t] = append(g.pool[t], s)
			g.finished(s)
		}
		v.Set(s)
	case reflect.Array:
		for i := 0; i < t.Len(); i++ {
			if !g.setScalar(v.Index(i)) {
				g.fill(v.Index(i), depth-1)
			}
		}
	case reflect.Map:
		if g.rng.Intn(6) == 0 {
			return
		}
		if p := g.pool[t]; len(p) > 0 && g.rng.Intn(3) == 0 {
			v.Set(p[g.rng.Intn(len(p))])
			return
		}
		m := reflect.MakeMap(t)
		n := g.rng.Intn(4)
		if g.cycles && g.rng.Intn(3) == 0 {
			g.pool[t] = append(g.pool[t], m)
		}
		seen := map[string]bool{}
		for i := 0; i < n; i++ {
			k := reflect.New(t.Key()).Elem()
			g.fillKey(k)
			// keys that would be the same key in the document are a different (recorded) matter: keep them apart
			id := c05KeyIdentity(k)
			if seen[id] {
				continue
			}
			seen[id] = true
			e := reflect.New(t.Elem()).Elem()
			g.fill(e, depth-1)
			m.SetMapIndex(k, e)
		}
		g.pool[t] = append(g.pool[t], m)
		if m.Len() > 0 {
			g.made = append(g.made, m)
		}
		v.Set(m)
	case reflect.Struct:
		for i := 0; i < t.NumField(); i++ {
			if t.Field(i).PkgPath != "" {
				continue
			}
			if g.rng.Intn(4) == 0 && !c05NeedsFill(t.Field(i).Type, 0) {
				continue // leave the zero value: omit_empty / omit_zero get exercised
			}
			g.fill(v.Field(i), depth-1)
		}
	default:
		panic(fmt.Sprintf("c05 gen: kind %v", t))
	}
}

// p is a finished non-nil pointer or non-empty list slice: remember it, and the addresses inside what it holds
func (g *c05Gen) finished(p reflect.Value) {
	if !g.interiorOn {
		return
	}
	g.made = append(g.made, p)
	if p.Kind() == reflect.Ptr {
		g.inside(p.Elem(), 0)
	} else {
		g.addInterior(p.Index(0))
		g.inside(p.Index(0), 0)
	}
}

func (g *c05Gen) addInterior(v reflect.Value) {
	if !v.CanAddr() || !v.CanInterface() || len(g.interior) > 64 {
		return
	}
	switch v.Type() {
	case c05TURL, c05TBigInt, c05TBigFlt, c05TBigDec, c05TTime, c05TCTime:
		return // pointers to these are leaves of their own
	}
	a := v.Addr()
	g.interior = append(g.interior, a)
	g.pool[a.Type()] = append(g.pool[a.Type()], a)
}

// the fields of an addressable struct and the first element of an addressable array, the first ones first
func (g *c05Gen) inside(v reflect.Value, level int) {
	if level > 3 || c05Special(v.Type()) {
		return
	}
	switch v.Kind() {
	case reflect.Struct:
		for i := 0; i < v.NumField(); i++ {
			if v.Type().Field(i).PkgPath != "" || (i > 0 && g.rng.Intn(2) == 0) {
				continue
			}
			g.addInterior(v.Field(i))
			g.inside(v.Field(i), level+1)
		}
	case reflect.Array:
		if v.Len() > 0 {
			g.addInterior(v.Index(0))
			g.inside(v.Index(0), level+1)
		}
	}
}

func (g *c05Gen) fillKey(k reflect.Value) {
	if k.Kind() == reflect.Interface {
		switch g.rng.Intn(4) {
		case 0:
			k.Set(reflect.ValueOf(g.str()))
		case 1:
			k.Set(reflect.ValueOf(int(g.int64() % 1000)))
		case 2:
			k.Set(reflect.ValueOf(g.rng.Intn(2) == 0))
		default:
			k.Set(reflect.ValueOf(uint8(g.rng.Intn(256))))
		}
		return
	}
	g.fill(k, 0)
}

// the key as the document sees it (integers by value whatever their Go type)
func c05KeyIdentity(k reflect.Value) string {
	for k.Kind() == reflect.Interface && !k.IsNil() {
		k = k.Elem()
	}
	switch k.Kind() {
	case reflect.Int, reflect.Int8, reflect.Int16, reflect.Int32, reflect.Int64:
		return fmt.Sprintf("int:%d", k.Int())
	case reflect.Uint, reflect.Uint8, reflect.Uint16, reflect.Uint32, reflect.Uint64:
		return fmt.Sprintf("int:%d", k.Uint())
	}
	return fmt.Sprintf("%v:%v", k.Kind(), k)
}

func (g *c05Gen) ifaceValue(depth int) interface{} {
	if g.rng.Intn(6) == 0 {
		return nil
	}
	return g.nonNilIface(depth)
}

func (g *c05Gen) nonNilIface(depth int) interface{} {
	if g.interiorOn {
		// an object that is already part of the value, or a pointer into one
		if len(g.interior) > 0 && g.rng.Intn(4) == 0 {
			return g.interior[g.rng.Intn(len(g.interior))].Interface()
		}
		if len(g.made) > 0 && g.rng.Intn(5) == 0 {
			return g.made[g.rng.Intn(len(g.made))].Interface()
		}
	}
	t := g.typ(depth)
	for t.Kind() == reflect.Interface {
		t = g.typ(0)
	}
	v := reflect.New(t).Elem()
	g.fill(v, depth)
	return v.Interface()
}

// the zero value of the type is outside the property (a media without media type, an edge without ends)
func c05NeedsFill(t reflect.Type, depth int) bool {
	if t == c05TMedia || t == c05TEdge || t == c05TCTime {
		return true
	}
	if c05Special(t) || depth > 40 { // embedded structs nest deep
		return false
	}
	switch t.Kind() {
	case reflect.Array:
		return t.Len() > 0 && c05NeedsFill(t.Elem(), depth+1)
	case reflect.Struct:
		for i := 0; i < t.NumField(); i++ {
			if c05NeedsFill(t.Field(i).Type, depth+1) {
				return true
			}
		}
	}
	return false
}

// struct types reachable in a type (candidates for record registration)
func c05StructTypes(t reflect.Type, seen map[reflect.Type]bool, out *[]reflect.Type) {
	if seen[t] {
		return
	}
	seen[t] = true
	switch t {
	case c05TTime, c05TCTime, c05TURL, c05TBigInt, c05TBigFlt, c05TBigDec, c05TDFloat, c05TMedia, c05TNode, c05TEdge, c05TUID:
		return
	}
	switch t.Kind() {
	case reflect.Struct:
		*out = append(*out, t)
		for i := 0; i < t.NumField(); i++ {
			c05StructTypes(t.Field(i).Type, seen, out)
		}
	case reflect.Ptr, reflect.Slice, reflect.Array:
		c05StructTypes(t.Elem(), seen, out)
	case reflect.Map:
		c05StructTypes(t.Key(), seen, out)
		c05StructTypes(t.Elem(), seen, out)
	}
}

// struct types of the dynamic values too
func c05StructTypesOfValue(v reflect.Value, depth int, seen map[reflect.Type]bool, out *[]reflect.Type) {
	if depth > 6 || !v.IsValid() || c05Special(v.Type()) {
		return
	}
	c05StructTypes(v.Type(), seen, out)
	switch v.Kind() {
	case reflect.Interface, reflect.Ptr:
		if !v.IsNil() {
			c05StructTypesOfValue(v.Elem(), depth+1, seen, out)
		}
	case reflect.Slice, reflect.Array:
		for i := 0; i < v.Len(); i++ {
			c05StructTypesOfValue(v.Index(i), depth+1, seen, out)
		}
	case reflect.Map:
		for _, k := range v.MapKeys() {
			c05StructTypesOfValue(v.MapIndex(k), depth+1, seen, out)
		}
	case reflect.Struct:
		for i := 0; i < v.NumField(); i++ {
			c05StructTypesOfValue(v.Field(i), depth+1, seen, out)
		}
	}
}

var c05RecNames = []string{"r", "Rec_1", "a-b", "T9", "zz", "rec.type", "Ünï"}

func (g *c05Gen) cfg(root interface{}, recursion bool) *c05Cfg {
	k := &c05Cfg{Snake: g.rng.Intn(3) != 0, Recursion: recursion}
	k.Omit = []configuration.FieldOmitBehavior{configuration.OmitFieldEmpty, configuration.OmitFieldEmpty, configuration.OmitFieldNever, configuration.OmitFieldZero,
		configuration.OmitFieldChooseDefault, configuration.OmitFieldAlways}[g.rng.Intn(6)]
	if root != nil && g.rng.Intn(2) == 0 {
		var sts []reflect.Type
		c05StructTypesOfValue(reflect.ValueOf(root), 0, map[reflect.Type]bool{}, &sts)
		names := g.rng.Perm(len(c05RecNames))
		for i, t := range sts {
			if i < len(names) && g.rng.Intn(2) == 0 {
				k.RecTypes = append(k.RecTypes, t)
				k.RecNames = append(k.RecNames, c05RecNames[names[i]])
			}
		}
		if !k.recordOrderOK() && g.rng.Intn(4) != 0 {
			k.RecTypes, k.RecNames = nil, nil
		}
	}
	return k
}

// ---------------------------------------------------------------------------
// running the implementation

type c05Run struct {
	Evs        []Ev
	Panic      string
	Rej        int // index of the first event the validator rejects, -1 none
	RejMsg     string
	Problems   []c05Problem
	Feats      map[string]int
	Term       string
	CfgTerm    string
	Decode     map[string]string // format -> "" | error text
	Docs       map[string][]byte
	Reuse      []c05Verdict    // verdicts that only exist for a document of a sequence
	ReusedOnly map[string]bool // format -> the reused marshaler's document does not decode, a fresh marshaler's does
	DupAt      map[int]bool    // positions of repeated field names
	DupDiff    bool            // recursion support: go-duplicates flags other objects than the model's finder does (interior pointers)
}

func c05Iterate(root interface{}, kc *c05Cfg) (evs []Ev, panicked string) {
	rec := &Recorder{}
	defer func() {
		evs = rec.Evs
		if r := recover(); r != nil {
			panicked = fmt.Sprint(r)
		}
	}()
	iterator.NewSession(nil, kc.config()).NewIterator(rec).Iterate(root)
	return
}

func c05Decode(format string, doc []byte, kc *c05Cfg) (res string) {
	defer func() {
		if r := recover(); r != nil {
			res = "panic: " + fmt.Sprint(r)
		}
	}()
	cfg := kc.config()
	rec := &Recorder{}
	rules := ce.NewRules(rec, cfg)
	var err error
	if format == "cbe" {
		err = ce.NewCBEDecoder(cfg).DecodeDocument(doc, rules)
	} else {
		err = ce.NewCTEDecoder(cfg).DecodeDocument(doc, rules)
	}
	if err != nil {
		return err.Error()
	}
	return ""
}

func c05Marshal(format string, root interface{}, kc *c05Cfg) (doc []byte, res string) {
	defer func() {
		if r := recover(); r != nil {
			res = "panic: " + fmt.Sprint(r)
		}
	}()
	var err error
	if format == "cbe" {
		doc, err = ce.MarshalToCBEDocument(root, kc.config())
	} else {
		doc, err = ce.MarshalToCTEDocument(root, kc.config())
	}
	if err != nil {
		return doc, err.Error()
	}
	return doc, ""
}

func c05Exec(root interface{}, kc *c05Cfg) *c05Run {
	evs, panicked := c05Iterate(root, kc)
	return c05Judge(root, kc, evs, panicked, nil, nil)
}

// a document some marshaler produced for the value (in a sequence: a marshaler that is used again and again)
type c05Doc struct {
	Bytes []byte
	Err   string
}

// the property on one document: evs are the events the iterator delivered for root; docs (nil: marshal now, with a
// fresh marshaler) the documents of the CBE and CTE marshalers; sids (nil: fresh) the numbering of struct types, shared
// between the documents of one sequence
func c05Judge(root interface{}, kc *c05Cfg, evs []Ev, panicked string, docs map[string]c05Doc, sids map[reflect.Type]int) *c05Run {
	r := &c05Run{Decode: map[string]string{}, Docs: map[string][]byte{}, ReusedOnly: map[string]bool{}}
	r.Evs, r.Panic = evs, panicked
	r.Rej, _, r.RejMsg = runRules(defaultRulesCfg(), r.Evs)
	w := newC05Walker(r.Evs, kc)
	if sids != nil {
		w.sids = sids
	}
	r.CfgTerm = w.cfgTerm()
	if root == nil {
		r.Term = "None"
		ok := len(r.Evs) == 4 && r.Evs[0].K == "bd" && r.Evs[1].K == "v" && r.Evs[2].K == "null" && r.Evs[3].K == "ed"
		if !ok {
			w.problem("structure", "nil root is not begin, version, null, end")
		}
	} else {
		w.expectKind(true, "bd", "begin document")
		w.leaf(true, "v", func(e Ev) bool { return e.N == 0 }, "version", "version")
		// record types in name order
		idx := make([]int, len(kc.RecTypes))
		for i := range idx {
			idx[i] = i
		}
		sort.SliceStable(idx, func(a, b int) bool { return kc.RecNames[idx[a]] < kc.RecNames[idx[b]] })
		for _, i := range idx {
			w.recordType(kc.RecNames[i], kc.RecTypes[i])
		}
		r.Term = cSome(w.value(reflect.ValueOf(root), true))
		w.expectKind(true, "ed", "end document")
		if !w.desync && w.pos != len(r.Evs) {
			w.problem("structure", "events after the end of the document")
		}
	}
	// the iterators of a type are built before any value is seen: the shape counts also where no value of it occurs
	seenT := map[reflect.Type]bool{}
	hasENS := root != nil && c05HasEmbeddedNonStruct(reflect.TypeOf(root), seenT)
	for _, t := range kc.RecTypes {
		hasENS = hasENS || c05HasEmbeddedNonStruct(t, seenT)
	}
	if hasENS {
		w.feats["embedded-non-struct"]++
	}
	r.Problems, r.Feats, r.DupAt = w.problems, w.feats, w.dupAt
	if root != nil && kc.Recursion {
		r.DupDiff = c05DupsDiffer(root, w.addrs)
	}
	for _, f := range []string{"cbe", "cte"} {
		doc, res := c05Marshal(f, root, kc)
		if docs != nil {
			// the document of the reused marshaler is the one that is judged; without a Go map with several entries
			// (whose order is random) it is also, byte for byte, the document a fresh marshaler writes
			fresh, freshRes := doc, res
			doc, res = docs[f].Bytes, docs[f].Err
			if res == "" && freshRes == "" && w.feats["go-map>1"] == 0 && string(fresh) != string(doc) {
				r.Reuse = append(r.Reuse, c05Verdict{"C05/reuse/" + f + "-document-differs", "reuse", "a marshaler that has written other documents before writes the same document as a fresh one",
					fmt.Sprintf("fresh %s, reused %s", c05DocString(f, fresh), c05DocString(f, doc))})
			}
		}
		r.Docs[f] = doc
		if res != "" {
			r.Decode[f] = "marshal: " + res
			continue
		}
		r.Decode[f] = c05Decode(f, doc, kc)
		if docs != nil && r.Decode[f] != "" {
			if fresh, freshRes := c05Marshal(f, root, kc); freshRes == "" && c05Decode(f, fresh, kc) == "" {
				r.ReusedOnly[f] = true // a fresh marshaler's document for the same value does decode
			}
		}
	}
	return r
}

func c05DocString(format string, doc []byte) string {
	if format == "cte" {
		return strconv.Quote(c05Short(string(doc), 200))
	}
	return c05Short(hex.EncodeToString(doc), 200)
}

// the recorded defect class that explains a rejected stream, by what the value contains
// the refused event is a local reference whose marker this document does not have (so far)
// (so far), or the end of a document in which some local reference has no marker at all
func (r *c05Run) refWithoutMarker() bool {
	if r.Rej < 0 {
		return false
	}
	marked := func(id string, upto int) bool {
		for _, e := range r.Evs[:upto] {
			if e.K == "mk" && string(e.Data) == id {
				return true
			}
		}
		return false
	}
	switch r.Evs[r.Rej].K {
	case "ref":
		return !marked(string(r.Evs[r.Rej].Data), r.Rej)
	case "ed":
		for _, e := range r.Evs[:r.Rej] {
			if e.K == "ref" && !marked(string(e.Data), r.Rej) {
				return true
			}
		}
	}
	return false
}

func (r *c05Run) cause() string {
	switch {
	case r.refWithoutMarker():
		return "reference-without-marker"
	case r.Rej >= 0 && r.DupAt[r.Rej]:
		// the refused event is a field name that the same map / record type has already: two fields of the flattened
		// struct go by one name (an embedded struct's field shadowed by, or colliding with, another field)
		return "duplicate-flattened-field-name"
	case r.Rej >= 0 && r.Evs[r.Rej].K == "tm" && !c05TimeValid(r.Evs[r.Rej].T):
		return "invalid-time" // outside the property: only reached through values marked unsupported
	case r.Feats["edge"] > 0 && !c05EdgeEmitsEnd():
		return "edge-no-end"
	case r.Feats["record-omitted-field"] > 0:
		return "record-omitted-field"
	case r.Feats["marker-then-marker"] > 0:
		return "marker-then-marker"
	case r.Feats["marker-then-reference"] > 0:
		return "marker-then-reference"
	case r.Feats["nested-marker"] > 0:
		return "nested-marker"
	case r.Feats["key-collision"] > 0:
		return "map-key-collision"
	}
	return "other"
}

// does the type (statically) hold a struct with an embedded field that is not a struct?
func c05HasEmbeddedNonStruct(t reflect.Type, seen map[reflect.Type]bool) bool {
	if seen[t] || c05Special(t) {
		return false
	}
	seen[t] = true
	switch t.Kind() {
	case reflect.Ptr, reflect.Slice, reflect.Array:
		return c05HasEmbeddedNonStruct(t.Elem(), seen)
	case reflect.Map:
		return c05HasEmbeddedNonStruct(t.Key(), seen) || c05HasEmbeddedNonStruct(t.Elem(), seen)
	case reflect.Struct:
		for i := 0; i < t.NumField(); i++ {
			fd := c05ParseField(t.Field(i), nil)
			if !fd.extractable() {
				continue
			}
			if (fd.Anon && fd.Type.Kind() != reflect.Struct) || c05HasEmbeddedNonStruct(fd.Type, seen) {
				return true
			}
		}
	}
	return false
}

// the declaration of one record type at the head of the document
func (w *c05Walker) recordType(name string, t reflect.Type) {
	declared := func(fs []c05Field) (out []c05Field) {
		for _, f := range fs {
			if w.kc.keeps(f, reflect.ValueOf(1)) {
				out = append(out, f)
			}
		}
		return
	}
	read := func(fs []c05Field) {
		w.leaf(true, "rt", func(e Ev) bool { return string(e.Data) == name }, "record-type", "record type "+name)
		names := map[string]bool{}
		for _, f := range fs {
			fn := w.kc.emittedName(f)
			w.fieldName(names, fn, true)
			w.leaf(true, "sa", func(e Ev) bool { return e.A == events.ArrayTypeString && string(e.Data) == fn }, "record-type", "record type key "+fn)
		}
		w.expectKind(true, "e", "end of record type")
	}
	impl, full, hidden := c05Promoted(t)
	if due := declared(hidden); len(due) > 0 && !w.desync {
		w.feats["unexported-embedded"]++
		s, np := w.snapshot(), len(w.problems)
		read(declared(full))
		if !w.desync && len(w.problems) == np {
			return
		}
		w.restore(s)
		w.problem(c05ClassPromoted, fmt.Sprintf("at %d: record type %s (%v) does not declare %s, exported field(s) of an embedded struct whose type name is lower-case", w.pos, name, t, c05FieldNames(due)))
	}
	read(declared(impl))
}

type c05Verdict struct {
	Key, Kind, Expect, Got string
}

// the property on one run. unsupported: the value is outside the property's quantifier
func (r *c05Run) verdicts(unsupported bool) []c05Verdict {
	var out []c05Verdict
	if unsupported {
		return out
	}
	if r.Panic != "" {
		key := "C05/panic/other"
		if strings.Contains(r.Panic, "reflect.Value.Pointer on array") {
			key = "C05/panic/array-with-recursion-support"
		} else if r.Feats["embedded-non-struct"] > 0 && strings.Contains(r.Panic, "non-struct") {
			// repaired (extractFields flattens only embedded structs): a struct with an embedded named non-struct type or
			// an embedded pointer used to panic in reflect's NumField (the class of C21/embedded-non-struct, -pointer-to-struct)
			key = "C05/panic/embedded-non-struct"
		}
		out = append(out, c05Verdict{key, "iterate", "events", "panic: " + r.Panic})
		return out
	}
	if r.Rej >= 0 {
		out = append(out, c05Verdict{"C05/rules-reject/" + r.cause(), "valid", "the validator accepts the marshaler's events",
			fmt.Sprintf("event %d (%s) rejected: %s", r.Rej, r.Evs[r.Rej].String(), r.RejMsg)})
	}
	seen := map[string]bool{}
	for _, p := range r.Problems {
		if seen[p.Class] {
			continue
		}
		seen[p.Class] = true
		if p.Class == "edge-no-end" || p.Class == "record-omitted-field" {
			continue // reported through the validator's verdict above
		}
		out = append(out, c05Verdict{"C05/describe/" + p.Class, "describe", "the events describe exactly the value", p.Detail})
	}
	out = append(out, r.Reuse...)
	for _, f := range []string{"cbe", "cte"} {
		if r.Decode[f] == "" {
			continue
		}
		cause := r.cause()
		if r.Rej < 0 {
			cause = "other"
			if f == "cte" && strings.Contains(r.Decode[f], "Typed array support for Boolean") {
				cause = "bool-array"
			}
			if r.ReusedOnly[f] {
				cause = "reused-marshaler"
			}
		}
		out = append(out, c05Verdict{"C05/decode/" + f + "/" + cause, "decode", "the marshaled document decodes without error", r.Decode[f]})
	}
	return out
}

// ---------------------------------------------------------------------------
// the zoo: hand-written values aimed at the anchored mechanisms

type c05Inner struct {
	X int    `ce:"order=2"`
	Y string `ce:"order=-1"`
}

type c05inner2 struct{ Hidden int }

type c05Emb struct {
	First int
	c05Inner
	Last      string `ce:"order=0"`
	c05inner2        // embedded, unexported: skipped
	private   int
	Skipped   int `ce:"omit"`
}

type c05Omits struct {
	S   string         `ce:"omit_empty"`
	Sz  string         `ce:"omit_zero"`
	Sn  string         `ce:"omit_never"`
	I   int            `ce:"omit_empty"`
	Iz  int            `ce:"omit_zero"`
	F   float64        `ce:"omit_zero"`
	P   *int           `ce:"omit_empty"`
	Pn  *int           `ce:"omit_never"`
	L   []int          `ce:"omit_empty"`
	Lz  []int          `ce:"omit_zero"`
	M   map[string]int `ce:"omit_empty"`
	A0  [0]int         `ce:"omit_empty"`
	Az  [2]float32     `ce:"omit_zero"`
	E   interface{}    `ce:"omit_empty"`
	Ez  interface{}    `ce:"omit_zero"`
	St  c05Inner       `ce:"omit_zero"`
	Ste c05Inner       `ce:"omit_empty"`
	T   time.Time      `ce:"omit_zero"`
	B   []bool         `ce:"omit_empty"`
	D   int
	Ds  string
	Dl  []string
}

type c05RecA struct {
	A int
	B string
	C []int
}

type c05RecB struct {
	Name  string  `ce:"name=n"`
	Inner c05RecA `ce:"omit_never"`
	Ptr   *c05RecA
}

type c05Cyc struct {
	V    int
	Next *c05Cyc
	Kids []*c05Cyc
	M    map[string]*c05Cyc
	I    interface{}
}

type c05Names struct {
	HTTPServer int `ce:"omit_never"`
	UserID     int `ce:"omit_never"`
	ABc        int `ce:"omit_never"`
	X9Y        int `ce:"omit_never"`
	Tagged     int `ce:"name=MyTagName, omit_never"`
	Lower      int `ce:"name=already_snake,omit_never"`
	Ordered3   int `ce:"order=3,omit_never"`
	Ordered1   int `ce:"order=1,omit_never"`
	Ordered1b  int `ce:"omit_never,order=1"`
}

type c05ZooEntry struct {
	Name        string
	Build       func() interface{}
	Records     map[string]interface{} // record name -> value of the struct type
	NeedsRec    bool                   // only meaningful (or only finite) with recursion support
	Few         bool                   // three configurations are enough (large families)
	Reject      bool                   // an unsupported value whose events the validator has to refuse
	Interior    bool                   // holds pointers into the middle of other objects
	Unsupported bool                   // outside the property's quantifier; recorded for the correspondence only
	Feat        string
}

func c05Bools(n int, f func(i int) bool) []bool {
	b := make([]bool, n)
	for i := range b {
		b[i] = f(i)
	}
	return b
}

func c05Zoo() []c05ZooEntry {
	var z []c05ZooEntry
	add := func(name string, b func() interface{}) *c05ZooEntry {
		z = append(z, c05ZooEntry{Name: name, Build: b})
		return &z[len(z)-1]
	}
	add("nil", func() interface{} { return nil })
	add("nil-ptr", func() interface{} { return (*int)(nil) })
	add("nil-slice", func() interface{} { return []string(nil) })
	add("nil-map", func() interface{} { return map[string]int(nil) })
	add("nil-bytes", func() interface{} { return []byte(nil) })
	add("nil-bools", func() interface{} { return []bool(nil) })
	for _, n := range []int{0, 1, 7, 8, 9, 10, 15, 16, 17, 24, 25, 64, 65} {
		n := n
		add(fmt.Sprintf("bools-%d-last", n), func() interface{} { return c05Bools(n, func(i int) bool { return i == n-1 }) })
		add(fmt.Sprintf("bools-%d-alt", n), func() interface{} { return c05Bools(n, func(i int) bool { return i%3 == 0 }) })
	}
	add("bool-array-9", func() interface{} { return [9]bool{8: true} })
	add("bool-array-3", func() interface{} { return [3]bool{true, false, true} })
	add("bools-in-struct", func() interface{} {
		return struct {
			Flags []bool
			N     int
		}{c05Bools(12, func(i int) bool { return i >= 8 }), 3}
	})
	add("edge-root", func() interface{} { return types.Edge{Source: 1, Description: "d", Destination: 3} })
	add("edge-in-list", func() interface{} {
		return []interface{}{types.Edge{Source: 1, Description: nil, Destination: 3}, 5}
	})
	add("edge-last", func() interface{} { return []interface{}{5, types.Edge{Source: "a", Description: 2, Destination: "b"}} })
	add("edge-nested", func() interface{} {
		return types.Edge{Source: types.Edge{Source: 1, Description: 2, Destination: 3}, Description: []int{1}, Destination: map[string]int{"a": 1}}
	})
	add("edge-ptr", func() interface{} { return &types.Edge{Source: 1, Description: 2, Destination: 3} })
	add("node", func() interface{} {
		return types.Node{Value: 1, Children: []interface{}{2, "x", types.Node{Value: nil}, types.Node{Value: "y", Children: []interface{}{}}}}
	})
	add("node-nil-children", func() interface{} { return types.Node{Value: []int{1}} })
	ra := c05RecA{1, "x", []int{1}}
	e := add("record-full", func() interface{} { return ra })
	e.Records = map[string]interface{}{"r": c05RecA{}}
	e = add("record-omitted", func() interface{} { return c05RecA{1, "", nil} })
	e.Records = map[string]interface{}{"r": c05RecA{}}
	e = add("record-nested", func() interface{} {
		return []interface{}{c05RecB{"n", ra, &ra}, c05RecB{"", ra, &ra}, ra, &ra}
	})
	e.Records = map[string]interface{}{"zb": c05RecB{}, "a": c05RecA{}}
	e = add("record-unused-type", func() interface{} { return []int{1} })
	e.Records = map[string]interface{}{"b": c05RecB{}, "a": c05RecA{}, "e": c05Emb{}}
	e = add("record-embedded", func() interface{} {
		return c05Emb{First: 1, c05Inner: c05Inner{2, "y"}, Last: "l", private: 4, Skipped: 5}
	})
	e.Records = map[string]interface{}{"e": c05Emb{}}
	add("embedded", func() interface{} {
		return c05Emb{First: 1, c05Inner: c05Inner{2, "y"}, Last: "l", private: 4, Skipped: 5}
	})
	add("embedded-zero", func() interface{} { return c05Emb{} })
	add("names", func() interface{} { return c05Names{1, 2, 3, 4, 5, 6, 7, 8, 9} })
	add("omits-zero", func() interface{} { return c05Omits{} })
	add("omits-empty-nonnil", func() interface{} {
		return c05Omits{L: []int{}, Lz: []int{}, M: map[string]int{}, E: "", Ez: 0, B: []bool{}, Dl: []string{}, F: math.Copysign(0, -1), Az: [2]float32{0, float32(math.Copysign(0, -1))}}
	})
	add("omits-full", func() interface{} {
		one := 1
		return c05Omits{"s", "s", "s", 1, 1, 1.5, &one, &one, []int{1}, []int{1}, map[string]int{"a": 1}, [0]int{}, [2]float32{0, 1}, 1, "x", c05Inner{1, ""}, c05Inner{}, time.Date(2020, 1, 2, 3, 4, 5, 0, time.UTC), []bool{true}, 1, "d", []string{"x"}}
	})
	add("f32-snan-scalar", func() interface{} { return math.Float32frombits(0x7fa00001) }).Feat = "snan"
	add("f32-snan-array", func() interface{} {
		return []float32{1, math.Float32frombits(0x7fa00001), math.Float32frombits(0xffa12345), math.Float32frombits(0x7fc00001)}
	}).Feat = "snan"
	add("f32-qnan", func() interface{} {
		return []interface{}{math.Float32frombits(0x7fc00001), []float32{math.Float32frombits(0xffc00002)}, math.Float64frombits(0x7ff4000000000001), []float64{math.Float64frombits(0x7ff4000000000001)}}
	})
	add("ints", func() interface{} {
		return []interface{}{int8(-128), int16(-32768), int32(math.MinInt32), int64(math.MinInt64), int64(math.MaxInt64), uint8(255), uint16(65535), uint32(math.MaxUint32), uint64(math.MaxUint64), uint(0), int(-1)}
	})
	add("typed-arrays", func() interface{} {
		return []interface{}{[]int8{-128, 127, -1}, []int16{-32768, 32767, -2}, []int32{math.MinInt32, math.MaxInt32}, []int64{math.MinInt64, math.MaxInt64, -1}, []int{-1, 1},
			[]uint16{0, 65535}, []uint32{0, math.MaxUint32}, []uint64{0, math.MaxUint64}, []uint{7}, []byte{0, 255}, [2]byte{1, 2}, [3]int16{-1, 0, 1}, [2]uint32{1, 2},
			[]float64{1.5, math.Inf(-1)}, []float32{1.5, -0.0}, [1]float64{2.5}, []int32{}, [0]uint16{}}
	})
	add("library-types", func() interface{} {
		u, _ := url.Parse("https://example.com/x?y=1")
		bi, _ := new(big.Int).SetString("-123456789012345678901234567890", 10)
		bf := new(big.Float).SetPrec(100).SetFloat64(1.25)
		bd := apd.New(-12345, -3)
		t := time.Date(2021, 3, 4, 5, 6, 7, 800, time.UTC)
		ct := compact_time.AsCompactTime(t)
		return []interface{}{*u, u, *bi, bi, *bf, bf, *bd, bd, t, &t, ct, &ct, compact_float.DFloatValue(-2, 31415), types.UID{1, 2, 3}, types.Media{MediaType: "a/b", Data: []byte{1, 2}},
			(*url.URL)(nil), (*big.Int)(nil), (*big.Float)(nil), (*apd.Decimal)(nil), (*time.Time)(nil), (*compact_time.Time)(nil)}
	})
	add("shared-library-pointers", func() interface{} {
		bi := big.NewInt(77)
		return []interface{}{bi, bi, &bi, &bi}
	})
	add("maps", func() interface{} {
		return map[string]interface{}{"a": map[int]string{1: "x", -2: "y"}, "b": map[interface{}]interface{}{true: 1, "k": 2, 7: 3, uint8(9): 4}, "c": map[types.UID]int{{1}: 1}, "d": map[uint16][]bool{3: {true}}}
	})
	e = add("map-key-collision", func() interface{} { return map[interface{}]int{int8(1): 1, uint(1): 2} })
	e.Feat = "key-collision"
	e = add("map-key-collision-sized", func() interface{} { return map[interface{}]string{int16(5): "a", int64(5): "b"} })
	e.Feat = "key-collision"
	add("ptr-keys", func() interface{} {
		a, b := 1, 2
		return map[*int]string{&a: "a", &b: "b"}
	})
	add("invalid-utf8", func() interface{} { return []string{"ok", "bad\xff"} }).Unsupported = true
	add("shared-dag", func() interface{} {
		x := 5
		s := []string{"a"}
		m := map[string]int{"k": 1}
		return []interface{}{&x, &x, s, s, m, m, []interface{}{&x, s, m}}
	})
	e = add("ptr-to-shared-ptr", func() interface{} {
		p := new(int)
		pp := &p
		return []interface{}{pp, pp, p}
	})
	e.NeedsRec = true
	e = add("ptr-to-ptr-inner-first", func() interface{} {
		p := new(int)
		pp := &p
		return []interface{}{p, pp, pp}
	})
	e.NeedsRec = true
	e = add("shared-ptr-to-nil", func() interface{} {
		var np *int
		pnp := &np
		return []interface{}{pnp, pnp}
	})
	e.NeedsRec = true
	e = add("shared-ptr-to-nil-iface", func() interface{} {
		var i interface{}
		return []interface{}{&i, &i}
	})
	e.NeedsRec = true
	e = add("slices-same-base", func() interface{} {
		s := []interface{}{1, 2, 3}
		return []interface{}{s[:1], s[:3], s[:0]}
	})
	e.NeedsRec = true
	e = add("slices-same-base-longer-first", func() interface{} {
		s := []string{"a", "b", "c"}
		return [][]string{s, s[:2], s}
	})
	e.NeedsRec = true
	e = add("cycle-self-ptr", func() interface{} {
		c := &c05Cyc{V: 1}
		c.Next = c
		return c
	})
	e.NeedsRec = true
	e = add("cycle-all", func() interface{} {
		a := &c05Cyc{V: 1}
		b := &c05Cyc{V: 2, Next: a}
		a.Next = b
		a.Kids = []*c05Cyc{a, b, nil}
		a.M = map[string]*c05Cyc{"self": a}
		a.I = a.Kids
		b.I = a.M
		return a
	})
	e.NeedsRec = true
	// repaired by /repo 192c5da (validator): a marked container that holds another marked object
	e = add("nested-shared-containers", func() interface{} {
		a := &c05Cyc{V: 1}
		b := &c05Cyc{V: 2, Next: a}
		return []interface{}{b, b, a}
	})
	e.NeedsRec = true
	e = add("cycle-map", func() interface{} {
		m := map[interface{}]interface{}{}
		m[1] = m
		return m
	})
	e.NeedsRec = true
	e = add("cycle-slice", func() interface{} {
		s := make([]interface{}, 2)
		s[0] = s
		s[1] = 1
		return s
	})
	e.NeedsRec = true
	e = add("cycle-record", func() interface{} {
		a := &c05Cyc{V: 1}
		a.Next = a
		a.I = a
		return []interface{}{a, a}
	})
	e.NeedsRec = true
	e.Records = map[string]interface{}{"cyc": c05Cyc{}}
	e = add("node-children-shared", func() interface{} {
		s := []interface{}{1, 2}
		return []interface{}{types.Node{Value: 0, Children: s}, s, s}
	})
	e.NeedsRec = true
	// repaired by /repo 7f07b92: arrays iterated as lists under recursion support
	e = add("array-list-recursion", func() interface{} {
		x := 5
		return []interface{}{[2]string{"a", "b"}, [2][]int16{{1}, nil}, struct{ Arr [2]*int }{[2]*int{&x, &x}}, [0]interface{}{}, [1][1]interface{}{{&x}}}
	})
	e.NeedsRec = true
	e = add("array-root-recursion", func() interface{} { return [3]interface{}{1, "x", nil} })
	e.NeedsRec = true
	e = add("shared-edge-node-ptr", func() interface{} {
		n := &types.Node{Value: 1, Children: []interface{}{2}}
		return []interface{}{n, n}
	})
	e.NeedsRec = true
	c05ZooEmbedding(add)
	c05ZooEmbeddedNonStruct(add)
	c05ZooClashes(add)
	c05ZooAliases(add)
	// media types: the validator checks the form type/subtype (/repo afaa1e5); a types.Media with a malformed
	// media type is outside the property, and its events must be refused
	add("media-valid-charset", func() interface{} {
		return []interface{}{types.Media{MediaType: "a/b"}, types.Media{MediaType: "A/B", Data: []byte{0}},
			types.Media{MediaType: "application/vnd.x-y+z", Data: []byte{1, 2, 3}}, &types.Media{MediaType: "a9!#$%&'*+.^_`|~{}-/x.9-Z", Data: []byte{255}}}
	})
	// times: the validator takes the zero value and what compact_time's Validate accepts (/repo bdbfb19); the iterator
	// emits any time.  Valid ones of every type and time zone form, then values Validate rejects (outside the property:
	// their events must be refused)
	add("times-valid", func() interface{} {
		utc := compact_time.TZAtUTC()
		return []interface{}{compact_time.NewDate(2020, 2, 29), compact_time.NewDate(-500, 12, 31), compact_time.NewTime(23, 59, 60, 999999999, utc),
			compact_time.NewTime(0, 0, 0, 0, compact_time.TZAtAreaLocation("Europe/Berlin")), compact_time.NewTimestamp(1, 1, 1, 0, 0, 0, 0, utc),
			compact_time.NewTimestamp(2021, 12, 31, 12, 30, 15, 5, compact_time.TZAtLatLong(5050, -1234)),
			compact_time.NewTimestamp(1999, 6, 30, 1, 2, 3, 0, compact_time.TZWithMiutesOffsetFromUTC(-90)), compact_time.NewTimestamp(2000, 1, 1, 1, 1, 1, 1, compact_time.TZLocal()),
			map[compact_time.Time]int{compact_time.NewDate(2001, 1, 1): 1}, time.Date(2020, 1, 2, 3, 4, 5, 6, time.UTC)}
	})
	utc := compact_time.TZAtUTC()
	for i, ct := range []compact_time.Time{
		compact_time.NewDate(2020, 13, 1), compact_time.NewDate(2020, 0, 1), compact_time.NewDate(2020, 2, 30), compact_time.NewDate(2020, 4, 0), compact_time.NewDate(0, 1, 1),
		compact_time.NewTime(24, 0, 0, 0, utc), compact_time.NewTime(1, 60, 0, 0, utc), compact_time.NewTime(1, 0, 61, 0, utc), compact_time.NewTime(1, 0, 0, 1000000000, utc),
		compact_time.NewTimestamp(2020, 13, 1, 0, 0, 0, 0, utc), compact_time.NewTimestamp(2020, 1, 1, 24, 0, 0, 0, utc), compact_time.NewTimestamp(0, 1, 1, 0, 0, 0, 0, utc),
		compact_time.NewTimestamp(2020, 1, 1, 0, 0, 0, 0, compact_time.TZAtLatLong(9001, 0)), compact_time.NewTimestamp(2020, 1, 1, 0, 0, 0, 0, compact_time.TZAtLatLong(0, 18001)),
		compact_time.NewTime(1, 1, 1, 0, compact_time.TZWithMiutesOffsetFromUTC(1440)), compact_time.NewTime(1, 1, 1, 0, compact_time.Timezone{Type: compact_time.TimezoneTypeAreaLocation}),
	} {
		ct := ct
		e = add(fmt.Sprintf("time-invalid-%d", i), func() interface{} { return []interface{}{1, ct} })
		e.Unsupported, e.Reject = true, true
	}
	e = add("time-invalid-as-key", func() interface{} { return map[compact_time.Time]int{compact_time.NewDate(2020, 13, 1): 1} })
	e.Unsupported, e.Reject = true, true
	e = add("time-invalid-in-struct", func() interface{} {
		return struct {
			A int
			T compact_time.Time
		}{1, compact_time.NewTimestamp(2020, 1, 1, 24, 0, 0, 0, utc)}
	})
	e.Unsupported, e.Reject = true, true
	for i, mt := range []string{"a", "a/", "/b", "1a/b", "a/b/c", "a b/c", "a/b c", "ä/b", "a/ü", "a\\b", "a/b\x00"} {
		mt := mt
		e = add(fmt.Sprintf("media-invalid-type-%d", i), func() interface{} {
			return []interface{}{1, types.Media{MediaType: mt, Data: []byte{1}}}
		})
		e.Unsupported, e.Reject = true, true
	}
	return z
}

// ---------------------------------------------------------------------------
// zoo family: embedded structs, every depth of embedding (extractFields builds one index path per level)

// the everyday form: each level embeds the previous one by its (exported) type name
type C05Core struct{ A, B, C int }
type C05Base struct {
	C05Core
	D int
}
type C05Middle struct {
	C05Base
	E int
}
type C05Outer struct {
	C05Middle
	F int
}
type C05Outer4 struct {
	G string
	C05Outer
}
type C05Outer5 struct {
	C05Outer4
	H []int16 `ce:"order=-1"`
}
type C05Outer6 struct {
	I bool
	C05Outer5
	J string `ce:"name=jay"`
}

// two embedded structs side by side, and an embedded struct tagged `omit`
type C05Left struct {
	C05Core
	L string
}
type C05Other struct{ P, Q int }
type C05Wrap struct {
	C05Other
	W string
}
type C05Right struct {
	R1 int
	C05Wrap
	R2 int
}
type C05Both struct {
	C05Left
	M        int
	C05Right `ce:"omit_never"`
	C05Gone  `ce:"omit"`
}
type C05Gone struct{ Never int }

// every settable scalar below v gets its own non-zero value, so that no two fields look alike
func c05FillDistinct(v reflect.Value, ctr *int64) {
	switch v.Kind() {
	case reflect.Bool:
		v.SetBool(true)
	case reflect.Int, reflect.Int8, reflect.Int16, reflect.Int32, reflect.Int64:
		*ctr++
		v.SetInt(*ctr%100 + 1)
		if v.Type().Bits() > 8 {
			v.SetInt(*ctr)
		}
	case reflect.Uint, reflect.Uint8, reflect.Uint16, reflect.Uint32, reflect.Uint64:
		*ctr++
		v.SetUint(uint64(*ctr%200 + 1))
	case reflect.Float32, reflect.Float64:
		*ctr++
		v.SetFloat(float64(*ctr) + 0.5)
	case reflect.String:
		*ctr++
		v.SetString(fmt.Sprintf("s%d", *ctr))
	case reflect.Slice:
		if c05Special(v.Type()) {
			return
		}
		s := reflect.MakeSlice(v.Type(), 2, 2)
		c05FillDistinct(s.Index(0), ctr)
		c05FillDistinct(s.Index(1), ctr)
		v.Set(s)
	case reflect.Array:
		if c05Special(v.Type()) {
			return
		}
		for i := 0; i < v.Len(); i++ {
			c05FillDistinct(v.Index(i), ctr)
		}
	case reflect.Struct:
		if c05Special(v.Type()) {
			return
		}
		for i := 0; i < v.NumField(); i++ {
			if v.Field(i).CanSet() {
				c05FillDistinct(v.Field(i), ctr)
			}
		}
	}
}

func c05Distinct(t reflect.Type) reflect.Value {
	v := reflect.New(t).Elem()
	var ctr int64 = 10
	c05FillDistinct(v, &ctr)
	return v
}

var c05EmbKinds = []reflect.Type{reflect.TypeOf(int(0)), reflect.TypeOf(""), reflect.TypeOf([]int16{}), reflect.TypeOf(uint8(0)), reflect.TypeOf(float64(0)), reflect.TypeOf(false)}

// a chain of depth embeddings: level k is struct{LvlkA; LvlkB; <level k-1, embedded>} with the embedded struct
// first (pos 0), in the middle (1) or last (2); the innermost struct has inner fields.
// mixed: the fields have different types and the last innermost field is ordered to the front.
func c05EmbChain(depth, pos, inner int, mixed bool) reflect.Type {
	kind := func(i int) reflect.Type {
		if mixed {
			return c05EmbKinds[i%len(c05EmbKinds)]
		}
		return c05EmbKinds[0]
	}
	var fs []reflect.StructField
	for i := 0; i < inner; i++ {
		f := reflect.StructField{Name: "Core" + string(rune('A'+i)), Type: kind(i)}
		if mixed && inner > 1 && i == inner-1 {
			f.Tag = `ce:"order=-1"`
		}
		fs = append(fs, f)
	}
	t := reflect.StructOf(fs)
	for lvl := 1; lvl <= depth; lvl++ {
		a := reflect.StructField{Name: fmt.Sprintf("Lvl%dA", lvl), Type: kind(lvl)}
		b := reflect.StructField{Name: fmt.Sprintf("Lvl%dB", lvl), Type: kind(lvl + 1)}
		e := reflect.StructField{Name: fmt.Sprintf("Emb%d", lvl), Type: t, Anonymous: true}
		switch pos {
		case 0:
			fs = []reflect.StructField{e, a, b}
		case 1:
			fs = []reflect.StructField{a, e, b}
		default:
			fs = []reflect.StructField{a, b, e}
		}
		t = reflect.StructOf(fs)
	}
	return t
}

// a binary tree of embeddings: every struct embeds two structs of the level below
func c05EmbTree(depth int, prefix string) reflect.Type {
	fs := []reflect.StructField{{Name: prefix + "X", Type: reflect.TypeOf(int(0))}}
	if depth > 0 {
		fs = append(fs,
			reflect.StructField{Name: "EmbL", Type: c05EmbTree(depth-1, prefix+"L"), Anonymous: true},
			reflect.StructField{Name: prefix + "Y", Type: reflect.TypeOf("")},
			reflect.StructField{Name: "EmbR", Type: c05EmbTree(depth-1, prefix+"R"), Anonymous: true})
	} else {
		fs = append(fs, reflect.StructField{Name: prefix + "Z", Type: reflect.TypeOf(int(0))})
	}
	return reflect.StructOf(fs)
}

func c05ZooEmbedding(add func(name string, b func() interface{}) *c05ZooEntry) {
	typed := func(name string, t reflect.Type, few bool) {
		e := add(name, func() interface{} { return c05Distinct(t).Interface() })
		e.Records = map[string]interface{}{"o": reflect.Zero(t).Interface()}
		e.Few = few
	}
	for i, v := range []interface{}{C05Core{}, C05Base{}, C05Middle{}, C05Outer{}, C05Outer4{}, C05Outer5{}, C05Outer6{}, C05Both{}} {
		typed(fmt.Sprintf("embed-named-%d", i), reflect.TypeOf(v), false)
	}
	for depth := 0; depth <= 6; depth++ {
		for pos := 0; pos < 3; pos++ {
			if depth == 0 && pos > 0 {
				continue
			}
			for _, shape := range []struct {
				inner int
				mixed bool
			}{{1, false}, {2, false}, {3, true}} {
				if shape.inner == 1 && pos > 0 {
					continue
				}
				name := fmt.Sprintf("embed-chain-d%d-p%d-n%d", depth, pos, shape.inner)
				if shape.mixed {
					name += "-mixed"
				}
				typed(name, c05EmbChain(depth, pos, shape.inner, shape.mixed), true)
			}
		}
	}
	for depth := 1; depth <= 4; depth++ {
		typed(fmt.Sprintf("embed-tree-d%d", depth), c05EmbTree(depth, "T"), true)
	}
	// embedded structs inside other containers: the field iterators are built once per type and used for every value
	for _, depth := range []int{3, 4, 5} {
		t := c05EmbChain(depth, depth%3, 2, true)
		e := add(fmt.Sprintf("embed-chain-d%d-in-containers", depth), func() interface{} {
			a, b := c05Distinct(t), c05Distinct(t)
			b.Field(0).Set(reflect.Zero(b.Field(0).Type())) // a zero first field: omit rules differ between the two
			l := reflect.MakeSlice(reflect.SliceOf(t), 0, 2)
			l = reflect.Append(l, a, b)
			p := reflect.New(t)
			p.Elem().Set(a)
			m := reflect.MakeMap(reflect.MapOf(reflect.TypeOf(""), t))
			m.SetMapIndex(reflect.ValueOf("k"), b)
			return []interface{}{l.Interface(), p.Interface(), m.Interface(), a.Interface()}
		})
		e.Records = map[string]interface{}{"o": reflect.Zero(t).Interface()}
		e.Few = true
	}
}

// ---------------------------------------------------------------------------
// zoo family: embedded fields that are not structs (a named non-struct type, a pointer to a struct): only an embedded
// STRUCT is flattened; these are ordinary fields named after their type, with tags, name style and omit rules as usual

type C05MyInt int
type C05MyText string
type C05MyBytes []byte
type C05MyFloat float64
type C05MyFlag bool
type C05MyMap map[string]int
type C05MyList []string
type C05MyNums []int16
type C05MyAny interface{}
type C05MyArr [2]uint8
type C05MyInner struct{ A int }
type c05mylow int

type C05E1 struct { // the witness of C21/embedded-non-struct
	C05MyInt
	B int
}
type C05E2 struct { // the witness of C21/embedded-pointer-to-struct
	*C05MyInner
	B int
}
type C05E3 struct {
	A0         int
	C05MyText  `ce:"name=txt"`
	C05MyBytes `ce:"omit_empty"`
	C05MyFloat `ce:"order=-1"`
	C05MyFlag  `ce:"omit_zero"`
	C05MyMap   `ce:"omit_never"`
	C05MyList
	C05MyNums
	C05MyAny
	C05MyArr
	*C05MyInt
	C05Gone `ce:"omit"`
	c05mylow
	Z0 string
}
type C05E4 struct { // at depth: embedded structs (flattened) that hold embedded non-structs
	C05E1
	Mid int
	*C05E2
}
type C05E5 struct {
	Top string
	C05E4
	*C05MyText `ce:"omit_never"`
}

// a chain of depth embedded structs whose innermost struct embeds named non-struct types and a pointer to a struct;
// byPointer: every second level embeds the level below through a pointer (not flattened: a nested map) instead of by value
func c05EmbNonStructChain(depth int, byPointer bool) reflect.Type {
	intT := reflect.TypeOf(int(0))
	t := reflect.StructOf([]reflect.StructField{
		{Name: "C05MyInt", Type: reflect.TypeOf(C05MyInt(0)), Anonymous: true},
		{Name: "CoreB", Type: intT},
		{Name: "C05MyInner", Type: reflect.TypeOf(&C05MyInner{}), Anonymous: true, Tag: `ce:"omit_never"`},
		{Name: "C05MyText", Type: reflect.TypeOf(C05MyText("")), Anonymous: true, Tag: `ce:"order=-1,name=first"`},
		{Name: "C05MyNums", Type: reflect.TypeOf(C05MyNums{}), Anonymous: true},
	})
	for lvl := 1; lvl <= depth; lvl++ {
		e := reflect.StructField{Name: fmt.Sprintf("Emb%d", lvl), Type: t, Anonymous: true}
		if byPointer && lvl%2 == 0 {
			e.Type = reflect.PtrTo(t)
		}
		fs := []reflect.StructField{{Name: fmt.Sprintf("Lvl%dA", lvl), Type: intT}, e}
		if lvl%2 == 1 {
			fs[0], fs[1] = fs[1], fs[0]
		}
		t = reflect.StructOf(fs)
	}
	return t
}

// every settable thing below v gets a value: pointers and maps are made, interfaces get a string
func c05FillAll(v reflect.Value, ctr *int64) {
	switch v.Kind() {
	case reflect.Ptr:
		if v.CanSet() {
			n := reflect.New(v.Type().Elem())
			c05FillAll(n.Elem(), ctr)
			v.Set(n)
		}
	case reflect.Map:
		if v.CanSet() && v.Type().Key().Kind() == reflect.String {
			m := reflect.MakeMap(v.Type())
			e := reflect.New(v.Type().Elem()).Elem()
			c05FillAll(e, ctr)
			m.SetMapIndex(reflect.ValueOf("k").Convert(v.Type().Key()), e)
			v.Set(m)
		}
	case reflect.Interface:
		if v.CanSet() && v.NumMethod() == 0 {
			*ctr++
			v.Set(reflect.ValueOf(fmt.Sprintf("any%d", *ctr)))
		}
	case reflect.Struct:
		if c05Special(v.Type()) {
			return
		}
		for i := 0; i < v.NumField(); i++ {
			if v.Field(i).CanSet() {
				c05FillAll(v.Field(i), ctr)
			}
		}
	default:
		c05FillDistinct(v, ctr)
	}
}

func c05ZooEmbeddedNonStruct(add func(name string, b func() interface{}) *c05ZooEntry) {
	typed := func(name string, t reflect.Type, full bool, few bool) {
		e := add(name, func() interface{} {
			v := reflect.New(t).Elem()
			var ctr int64 = 20
			if full {
				c05FillAll(v, &ctr)
			} else {
				c05FillDistinct(v, &ctr) // pointers stay nil, maps and interfaces too
			}
			return v.Interface()
		})
		e.Records = map[string]interface{}{"o": reflect.Zero(t).Interface()}
		e.Few = few
	}
	for i, v := range []interface{}{C05E1{}, C05E2{}, C05E3{}, C05E4{}, C05E5{}} {
		typed(fmt.Sprintf("embedded-non-struct-named-%d", i+1), reflect.TypeOf(v), true, false)
		typed(fmt.Sprintf("embedded-non-struct-named-%d-nil", i+1), reflect.TypeOf(v), false, false)
	}
	add("embedded-non-struct-zero", func() interface{} { return []interface{}{C05E1{}, C05E2{}, C05E3{}, &C05E5{}} })
	for depth := 0; depth <= 4; depth++ {
		for _, byPointer := range []bool{false, true} {
			if byPointer && depth < 2 {
				continue
			}
			name := fmt.Sprintf("embedded-non-struct-chain-d%d", depth)
			if byPointer {
				name += "-by-pointer"
			}
			typed(name, c05EmbNonStructChain(depth, byPointer), true, true)
			typed(name+"-nil", c05EmbNonStructChain(depth, byPointer), false, true)
		}
	}
	e := add("embedded-non-struct-shared-pointer", func() interface{} { // the embedded pointer is a pointer like any other
		in := &C05MyInner{A: 4}
		return []interface{}{C05E2{in, 1}, &C05E2{in, 2}, in}
	})
	e.Records = map[string]interface{}{"e": C05E2{}, "i": C05MyInner{}}
}

// ---------------------------------------------------------------------------
// zoo family: flattening an embedded struct into the map of the outer one, where it goes wrong today
// (a) two fields of the flattened struct go by the same name: the map has a key twice, the validator refuses it;
// (b) the embedded struct's type name is lower-case: its exported fields, which Go promotes, do not appear at all.

type C05ShadowInner struct{ A, B int }
type C05Shadow struct {
	A int
	C05ShadowInner
}
type C05ShadowDeep struct {
	C05Shadow
	B string
}

type c05low struct {
	P int
	Q string
}
type c05lowDeep struct {
	C05Core
	R int
}
type C05HidesFirst struct {
	c05low
	Z int
}
type C05HidesMiddle struct {
	Y int
	c05low
	Z int
}
type C05HidesLast struct {
	Y int
	c05low
}
type C05HidesDeep struct { // an exported embedding that embeds a lower-case one
	C05HidesLast
	W string
}
type C05HidesDeeper struct {
	V int
	C05HidesDeep
}
type C05HidesTree struct { // below a lower-case embedding everything is lost, exported embedded structs too
	c05lowDeep
	U int
}
type C05HidesTagged struct {
	c05low `ce:"omit_never"`
	T      int
}
type C05HidesOmitted struct { // control: left out on purpose, nothing is missing
	c05low `ce:"omit"`
	T      int
}

// a chain of depth embeddings (level k = struct{LvlkA int; <level k-1, embedded>}) in which two fields collide:
// shadow: the outermost struct has a field with the Go name of an innermost one (legal Go: the outer one shadows);
// mid: the outermost level and level 1 use the same name; tag: a `name=` tag repeats an innermost field's name;
// snake: the names differ but their snake-case forms do not (a collision in that style only);
// siblings: two structs embedded side by side in the innermost struct both have a field X.
func c05ClashType(depth int, kind string) reflect.Type {
	intT := reflect.TypeOf(int(0))
	core := []reflect.StructField{{Name: "CoreA", Type: intT}, {Name: "CoreB", Type: intT}}
	if kind == "siblings" {
		l := reflect.StructOf([]reflect.StructField{{Name: "X", Type: intT}, {Name: "L", Type: intT}})
		r := reflect.StructOf([]reflect.StructField{{Name: "R", Type: intT}, {Name: "X", Type: reflect.TypeOf("")}})
		core = []reflect.StructField{{Name: "EmbL", Type: l, Anonymous: true}, {Name: "CoreB", Type: intT}, {Name: "EmbR", Type: r, Anonymous: true}}
	}
	t := reflect.StructOf(core)
	for lvl := 1; lvl <= depth; lvl++ {
		a := reflect.StructField{Name: fmt.Sprintf("Lvl%dA", lvl), Type: intT}
		if kind == "mid" && lvl == depth && depth >= 2 {
			a.Name = "Lvl1A"
		}
		fs := []reflect.StructField{a, {Name: fmt.Sprintf("Emb%d", lvl), Type: t, Anonymous: true}}
		if lvl == depth {
			switch kind {
			case "shadow":
				fs = append(fs, reflect.StructField{Name: "CoreA", Type: reflect.TypeOf("")})
			case "tag":
				fs = append(fs, reflect.StructField{Name: "Other", Type: intT, Tag: `ce:"name=CoreA"`})
			case "snake":
				fs = append(fs, reflect.StructField{Name: "Other", Type: intT, Tag: `ce:"name=core_a"`})
			}
		}
		if lvl%2 == 0 {
			fs[0], fs[1] = fs[1], fs[0]
		}
		t = reflect.StructOf(fs)
	}
	return t
}

func c05ZooClashes(add func(name string, b func() interface{}) *c05ZooEntry) {
	typed := func(name string, t reflect.Type) {
		e := add(name, func() interface{} { return c05Distinct(t).Interface() })
		e.Records = map[string]interface{}{"o": reflect.Zero(t).Interface()}
	}
	typed("clash-named-shadow", reflect.TypeOf(C05Shadow{}))
	typed("clash-named-shadow-deep", reflect.TypeOf(C05ShadowDeep{}))
	for _, kind := range []string{"shadow", "tag", "snake", "mid", "siblings"} {
		for depth := 0; depth <= 5; depth++ {
			if (depth == 0 && kind != "siblings") || (depth == 1 && kind == "mid") || (depth == 5 && kind == "siblings") {
				continue
			}
			typed(fmt.Sprintf("clash-%s-d%d", kind, depth), c05ClashType(depth, kind))
		}
	}
	add("clash-in-containers", func() interface{} {
		t := c05ClashType(3, "shadow")
		l := reflect.MakeSlice(reflect.SliceOf(t), 0, 2)
		l = reflect.Append(l, c05Distinct(t), c05Distinct(t))
		return []interface{}{1, l.Interface(), C05Shadow{1, C05ShadowInner{2, 3}}}
	})
	for i, v := range []interface{}{C05HidesFirst{}, C05HidesMiddle{}, C05HidesLast{}, C05HidesDeep{}, C05HidesDeeper{}, C05HidesTree{}, C05HidesTagged{}, C05HidesOmitted{}} {
		t := reflect.TypeOf(v)
		build := func() interface{} {
			// the fields below a lower-case embedding cannot be set through reflect: fill a copy by hand
			switch t {
			case reflect.TypeOf(C05HidesFirst{}):
				return C05HidesFirst{c05low{1, "q"}, 3}
			case reflect.TypeOf(C05HidesMiddle{}):
				return C05HidesMiddle{4, c05low{1, "q"}, 3}
			case reflect.TypeOf(C05HidesLast{}):
				return C05HidesLast{4, c05low{1, "q"}}
			case reflect.TypeOf(C05HidesDeep{}):
				return C05HidesDeep{C05HidesLast{4, c05low{1, "q"}}, "w"}
			case reflect.TypeOf(C05HidesDeeper{}):
				return C05HidesDeeper{5, C05HidesDeep{C05HidesLast{4, c05low{1, "q"}}, "w"}}
			case reflect.TypeOf(C05HidesTree{}):
				return C05HidesTree{c05lowDeep{C05Core{1, 2, 3}, 4}, 5}
			case reflect.TypeOf(C05HidesTagged{}):
				return C05HidesTagged{c05low{0, ""}, 6}
			}
			return C05HidesOmitted{c05low{1, "q"}, 6}
		}
		e := add(fmt.Sprintf("hidden-promoted-%d", i), build)
		e.Records = map[string]interface{}{"o": reflect.Zero(t).Interface()}
	}
	add("hidden-promoted-in-containers", func() interface{} {
		return []interface{}{[]C05HidesLast{{4, c05low{1, "q"}}, {0, c05low{}}}, &C05HidesDeep{C05HidesLast{4, c05low{1, "q"}}, "w"}, map[string]C05HidesFirst{"k": {c05low{7, "r"}, 8}}}
	})
}

// ---------------------------------------------------------------------------
// zoo family: different objects at one address (a struct and its first field, an array and its first element,
// a slice and its first element, objects of size zero).  The recursion support must keep them apart: a reference
// table is about (type, address), not about addresses.

type c05Pos struct {
	X int
	Y string
}
type c05Sprite struct {
	Pos  c05Pos
	Name string
}
type c05Scene struct {
	Hero  c05Sprite
	N     int
	Other c05Sprite
}
type c05Grid struct {
	Cells [2]c05Pos
	Tag   string
}
type c05Empty struct{}
type c05Self struct {
	Pos   c05Pos
	Me    *c05Pos
	Again *c05Pos
	Whole *c05Self
}
type c05Holder struct {
	S  *c05Scene
	H  *c05Sprite
	P  *c05Pos
	X  *int
	S2 *c05Scene
	P2 *c05Pos
	H2 *c05Sprite
	X2 *int
}

var c05AliasKinds = []string{"struct", "array", "slice", "zero-size"}

// objects of different types that start at the same address, outermost first
func c05AliasChain(kind string) []interface{} {
	switch kind {
	case "struct":
		s := &c05Scene{Hero: c05Sprite{c05Pos{5, "p"}, "hero"}, N: 7, Other: c05Sprite{c05Pos{6, "q"}, "other"}}
		return []interface{}{s, &s.Hero, &s.Hero.Pos, &s.Hero.Pos.X}
	case "array":
		g := &c05Grid{Cells: [2]c05Pos{{1, "a"}, {2, "b"}}, Tag: "g"}
		return []interface{}{g, &g.Cells, g.Cells[:], &g.Cells[0], &g.Cells[0].X}
	case "slice":
		l := []c05Sprite{{c05Pos{1, "a"}, "n1"}, {c05Pos{2, "b"}, "n2"}}
		return []interface{}{l, &l[0], &l[0].Pos, &l[0].Pos.X}
	}
	return []interface{}{&c05Empty{}, &struct{}{}, &[0]int{}, &[0]c05Pos{}}
}

func c05ZooAliases(add func(name string, b func() interface{}) *c05ZooEntry) {
	recs := map[string]interface{}{"pos": c05Pos{}, "spr": c05Sprite{}}
	for _, kind := range c05AliasKinds {
		kind := kind
		n := len(c05AliasChain(kind))
		interior := kind != "zero-size"
		for i := 0; i < n; i++ {
			for j := i + 1; j < n; j++ {
				for _, pattern := range []string{"iijj", "jjii", "ijij"} {
					i, j, pattern := i, j, pattern
					e := add(fmt.Sprintf("alias-%s-%d-%d-%s", kind, i, j, pattern), func() interface{} {
						ch := c05AliasChain(kind)
						var l []interface{}
						for _, c := range pattern {
							if c == 'i' {
								l = append(l, ch[i])
							} else {
								l = append(l, ch[j])
							}
						}
						return l
					})
					e.NeedsRec, e.Interior = true, interior
					if (i+j)%2 == 0 {
						e.Records = recs
					}
				}
			}
		}
		for _, form := range []string{"twice", "twice-reversed", "once", "once-reversed", "interleaved"} {
			form := form
			e := add(fmt.Sprintf("alias-%s-all-%s", kind, form), func() interface{} {
				ch := c05AliasChain(kind)
				var l []interface{}
				for k := range ch {
					x := ch[k]
					if strings.HasSuffix(form, "reversed") {
						x = ch[len(ch)-1-k]
					}
					l = append(l, x)
					if strings.HasPrefix(form, "twice") {
						l = append(l, x)
					}
				}
				if form == "interleaved" {
					l = append(l, ch...)
				}
				return l
			})
			e.Interior = interior
			e.NeedsRec = strings.HasPrefix(form, "twice")
			if form == "interleaved" {
				e.Records = recs
			}
		}
	}
	scene := func() *c05Scene {
		return &c05Scene{Hero: c05Sprite{c05Pos{5, "p"}, "hero"}, N: 7, Other: c05Sprite{c05Pos{6, "q"}, "other"}}
	}
	e := add("alias-typed-fields", func() interface{} {
		s := scene()
		return c05Holder{S: s, H: &s.Hero, P: &s.Hero.Pos, X: &s.Hero.Pos.X, S2: s, P2: &s.Hero.Pos, H2: &s.Hero, X2: &s.Hero.Pos.X}
	})
	e.Interior = true
	e = add("alias-typed-fields-inner-first", func() interface{} {
		s := scene()
		return &c05Holder{X: &s.Hero.Pos.X, P: &s.Hero.Pos, H: &s.Hero, S: s, S2: s, P2: &s.Hero.Pos, H2: &s.Hero, X2: &s.Hero.Pos.X}
	})
	e.Interior = true
	e = add("alias-not-first-field", func() interface{} { // control: same object, other addresses
		s := scene()
		return []interface{}{s, s, &s.Other, &s.Other, &s.N, &s.N, &s.Other.Pos, &s.Other.Pos, &s.Hero.Name, &s.Hero.Name}
	})
	e.Interior, e.NeedsRec = true, true
	e = add("alias-in-map", func() interface{} {
		s := scene()
		return map[string]interface{}{"a": s, "b": &s.Hero, "c": s, "d": &s.Hero, "e": &s.Hero.Pos, "f": &s.Hero.Pos}
	})
	e.Interior, e.NeedsRec = true, true
	e.Records = recs
	e = add("alias-self", func() interface{} { // a struct that points at its own first field, and at itself
		s := &c05Self{Pos: c05Pos{3, "self"}}
		s.Me, s.Again, s.Whole = &s.Pos, &s.Pos, s
		return s
	})
	e.Interior, e.NeedsRec = true, true
	e = add("alias-self-in-list", func() interface{} {
		s := &c05Self{Pos: c05Pos{3, "self"}}
		s.Me, s.Again = &s.Pos, &s.Pos
		return []interface{}{s.Me, s, s, s.Again}
	})
	e.Interior, e.NeedsRec = true, true
	e = add("alias-embedded-first", func() interface{} { // the first field is an embedded struct
		o := &C05Outer{}
		o.A, o.B, o.C, o.D, o.E, o.F = 1, 2, 3, 4, 5, 6
		return []interface{}{o, o, &o.C05Middle, &o.C05Middle, &o.C05Base, &o.C05Base, &o.C05Core, &o.C05Core, &o.A, &o.A}
	})
	e.Interior, e.NeedsRec = true, true
}

func (e *c05ZooEntry) cfgs() []*c05Cfg {
	var out []*c05Cfg
	mk := func(snake, rec bool, omit configuration.FieldOmitBehavior, records bool) {
		k := &c05Cfg{Snake: snake, Recursion: rec, Omit: omit}
		if records {
			names := []string{}
			for n := range e.Records {
				names = append(names, n)
			}
			sort.Sort(sort.Reverse(sort.StringSlice(names)))
			for _, n := range names {
				k.RecNames = append(k.RecNames, n)
				k.RecTypes = append(k.RecTypes, reflect.TypeOf(e.Records[n]))
			}
		}
		out = append(out, k)
	}
	hasRec := len(e.Records) > 0
	if e.Few {
		mk(true, false, configuration.OmitFieldEmpty, hasRec)
		mk(false, false, configuration.OmitFieldZero, false)
		mk(false, true, configuration.OmitFieldChooseDefault, hasRec)
		return out
	}
	if !e.NeedsRec {
		mk(true, false, configuration.OmitFieldEmpty, hasRec)
		mk(false, false, configuration.OmitFieldNever, hasRec)
		mk(true, false, configuration.OmitFieldZero, false)
	}
	mk(true, true, configuration.OmitFieldEmpty, hasRec)
	mk(false, true, configuration.OmitFieldChooseDefault, false)
	return out
}

// ---------------------------------------------------------------------------
// the check

// interior: the value was built with pointers into the middle of other objects (address of a struct field, of an
// array or slice element); only such a value may leave the model's domain through the duplicate finder
func c05Record(c *Ctx, cf *caseFile, label string, root interface{}, kc *c05Cfg, unsupported bool, feat string, interior bool, input map[string]string) *c05Run {
	r := c05Exec(root, kc)
	if input["must_reject"] == "true" && r.Rej < 0 && r.Panic == "" {
		c.Fail(Replay{Kind: "reject", Key: c05MustRejectKey(input["zoo"]), Input: input, Expect: "the validator refuses the events of this value (malformed media type / time that compact_time does not validate)",
			Got: "accepted", Note: fmt.Sprintf("%s :: %T :: events %s", label, root, c05Short(evsString(r.Evs), 400))})
	}
	if feat != "" {
		r.Feats[feat]++
	}
	input["cfg"] = kc.String()
	for _, v := range r.verdicts(unsupported) {
		c.Fail(Replay{Kind: v.Kind, Key: v.Key, Input: input, Expect: v.Expect, Got: v.Got,
			Note: fmt.Sprintf("%s :: %T :: events %s", label, root, c05Short(evsString(r.Evs), 400))})
	}
	rej := "None"
	if r.Rej >= 0 {
		rej = cSome(cNi(r.Rej))
	}
	if interior {
		c.Dist("feature/interior-pointers")
	}
	if interior && r.DupDiff {
		c.Dist("outside-model/interior-pointer-registered-by-the-duplicate-finder")
	} else if kc.recordOrderOK() {
		cf.Add(cTuple(r.CfgTerm, r.Term, cEvs(r.Evs), cBool(r.Panic == ""), rej), fmt.Sprintf("%s | %s | %T | rej=%d panic=%q | %s", label, kc.String(), root, r.Rej, r.Panic, c05Short(evsString(r.Evs), 300)))
	} else {
		c.Dist("outside-model/record-type-order")
	}
	// evidence
	shape := "scalar"
	if root != nil {
		shape = reflect.TypeOf(root).Kind().String()
	}
	// trivial: a document that is only nil, a bool or an integer
	nontrivial := len(r.Evs) > 4
	if len(r.Evs) == 4 {
		switch r.Evs[2].K {
		case "null", "b", "i", "pi":
		default:
			nontrivial = true
		}
	}
	c.Count(label+"|"+kc.String()+"|"+evsString(r.Evs), nontrivial)
	c.Dist("root/" + shape)
	c.Dist(fmt.Sprintf("cfg/recursion=%v/records=%v", kc.Recursion, len(kc.RecTypes) > 0))
	c.Dist(fmt.Sprintf("events/%s", c05Bucket(len(r.Evs))))
	for f := range r.Feats {
		c.Dist("feature/" + f)
	}
	for _, e := range r.Evs {
		switch e.K {
		case "mk", "ref", "rec", "rt", "edge", "node", "m", "l":
			c.Dist("event/" + e.K)
		case "a":
			c.Dist(fmt.Sprintf("event/array-type-%d", e.A))
		}
	}
	if r.Rej >= 0 {
		c.Dist("validator/rejected")
	} else {
		c.Dist("validator/accepted")
	}
	if nontrivial {
		c.Sample(map[string]string{"label": label, "cfg": kc.String(), "type": fmt.Sprintf("%T", root), "events": c05Short(evsString(r.Evs), 300)})
	}
	return r
}

func c05MustRejectKey(zoo string) string {
	if strings.HasPrefix(zoo, "time-") {
		return "C05/rules-accept/invalid-time"
	}
	return "C05/rules-accept/malformed-media-type"
}

// ---------------------------------------------------------------------------
// sequences: several values, one after the other, through ONE RootObjectIterator and ONE CBE / CTE marshaler.
// Every document has to stand on its own: it is judged exactly like the document of a single value.

type c05SeqEntry struct {
	Name     string
	Build    func() []interface{}
	Records  map[string]interface{}
	NeedsRec bool // finite only with recursion support (cycles)
	Interior bool
}

type c05Ring struct {
	I    int
	Next *c05Ring
}

func c05SeqZoo() []c05SeqEntry {
	ring := func() *c05Ring {
		r := &c05Ring{I: 1}
		r.Next = &c05Ring{I: 2, Next: r}
		return r
	}
	var z []c05SeqEntry
	add := func(name string, needsRec bool, b func() []interface{}) *c05SeqEntry {
		z = append(z, c05SeqEntry{Name: name, Build: b, NeedsRec: needsRec})
		return &z[len(z)-1]
	}
	add("ring-twice", true, func() []interface{} { r := ring(); return []interface{}{r, r} })
	add("ring-three-times", true, func() []interface{} { r := ring(); return []interface{}{r, r, r} })
	add("ring-then-its-second-node", true, func() []interface{} { r := ring(); return []interface{}{r, r.Next, r} })
	add("rings-unrelated", true, func() []interface{} { return []interface{}{ring(), ring(), ring()} })
	e := add("ring-as-record", true, func() []interface{} { r := ring(); return []interface{}{r, []interface{}{r, r.Next}} })
	e.Records = map[string]interface{}{"ring": c05Ring{}}
	// shared, not cyclic: also without recursion support
	add("shared-pointer-twice", false, func() []interface{} {
		x := 5
		v := []interface{}{&x, &x}
		return []interface{}{v, v}
	})
	add("shared-in-first-single-in-second", false, func() []interface{} {
		x := 5
		return []interface{}{[]interface{}{&x, &x}, []interface{}{&x}, &x}
	})
	add("single-in-first-shared-in-second", false, func() []interface{} {
		x := 5
		return []interface{}{[]interface{}{&x}, []interface{}{&x, &x, &x}}
	})
	add("shared-in-every-document", false, func() []interface{} {
		x, y := "x", "y"
		return []interface{}{[]interface{}{&x, &x}, []interface{}{&y, &x, &y, &x}, map[string]interface{}{"k": []*string{&x, &x}}}
	})
	add("shared-slice-and-map", false, func() []interface{} {
		l := []interface{}{1, "a"}
		m := map[string]int{"k": 1}
		return []interface{}{[]interface{}{l, m, l, m}, []interface{}{m, m}, []interface{}{l, l, m}}
	})
	add("more-markers-each-time", false, func() []interface{} {
		a, b, c := 1, 2, 3
		return []interface{}{[]*int{&a, &a}, []*int{&a, &a, &b, &b}, []*int{&c, &b, &a, &c, &b, &a}}
	})
	add("unrelated-values", false, func() []interface{} {
		return []interface{}{[]int{1, 2}, c05RecA{1, "x", []int{1}}, "text"}
	})
	add("nil-between", false, func() []interface{} {
		x := 1.5
		v := []*float64{&x, &x}
		return []interface{}{v, nil, v}
	})
	e = add("records-shared-struct-pointer", false, func() []interface{} {
		ra := &c05RecA{1, "x", []int{1}}
		return []interface{}{[]interface{}{ra, ra}, c05RecB{"n", *ra, ra}, []*c05RecA{ra, ra}}
	})
	e.Records = map[string]interface{}{"zb": c05RecB{}, "a": c05RecA{}}
	e = add("same-address-objects", false, func() []interface{} { // a struct and its first field, document after document
		s := &c05Scene{Hero: c05Sprite{c05Pos{5, "p"}, "hero"}, N: 7, Other: c05Sprite{c05Pos{6, "q"}, "other"}}
		return []interface{}{[]interface{}{s, s}, []interface{}{&s.Hero, &s.Hero, s, s}, []interface{}{&s.Hero.Pos, &s.Hero.Pos}}
	})
	e.Interior = true
	add("cyclic-map-and-slice", true, func() []interface{} {
		m := map[interface{}]interface{}{}
		m[1] = m
		l := make([]interface{}, 1)
		l[0] = l
		return []interface{}{m, l, []interface{}{m, l}}
	})
	add("cycle-all-twice", true, func() []interface{} {
		a := &c05Cyc{V: 1}
		b := &c05Cyc{V: 2, Next: a}
		a.Next = b
		a.Kids = []*c05Cyc{a, b, nil}
		a.M = map[string]*c05Cyc{"self": a}
		return []interface{}{a, b, a}
	})
	return z
}

func (e *c05SeqEntry) cfgs() []*c05Cfg {
	var out []*c05Cfg
	mk := func(snake, rec bool, omit configuration.FieldOmitBehavior) {
		k := &c05Cfg{Snake: snake, Recursion: rec, Omit: omit}
		names := []string{}
		for n := range e.Records {
			names = append(names, n)
		}
		sort.Strings(names)
		for _, n := range names {
			k.RecNames = append(k.RecNames, n)
			k.RecTypes = append(k.RecTypes, reflect.TypeOf(e.Records[n]))
		}
		out = append(out, k)
	}
	mk(true, true, configuration.OmitFieldEmpty)
	mk(false, true, configuration.OmitFieldNever)
	if !e.NeedsRec {
		mk(true, false, configuration.OmitFieldEmpty)
	}
	return out
}

// runs the values through one iterator and one marshaler of each format; one judged run per document (the
// sequence ends early when the iterator panics: its state is then undefined)
func c05RunSeq(vals []interface{}, kc *c05Cfg) []*c05Run {
	cfg := kc.config()
	rec := &Recorder{}
	it := iterator.NewSession(nil, cfg).NewIterator(rec)
	ms := map[string]ce.Marshaler{"cbe": ce.NewCBEMarshaler(cfg), "cte": ce.NewCTEMarshaler(cfg)}
	sids := map[reflect.Type]int{}
	var runs []*c05Run
	for _, v := range vals {
		start := len(rec.Evs)
		panicked := ""
		func() {
			defer func() {
				if r := recover(); r != nil {
					panicked = fmt.Sprint(r)
				}
			}()
			it.Iterate(v)
		}()
		evs := append([]Ev{}, rec.Evs[start:]...)
		docs := map[string]c05Doc{}
		for f, m := range ms {
			f, m := f, m
			func() {
				defer func() {
					if r := recover(); r != nil {
						docs[f] = c05Doc{Err: "panic: " + fmt.Sprint(r)}
					}
				}()
				doc, err := m.MarshalToDocument(v)
				if err != nil {
					docs[f] = c05Doc{Bytes: doc, Err: err.Error()}
				} else {
					docs[f] = c05Doc{Bytes: doc}
				}
			}()
		}
		runs = append(runs, c05Judge(v, kc, evs, panicked, docs, sids))
		if panicked != "" {
			break
		}
	}
	return runs
}

// a random sequence from a sub-seed: a random value, then the same value twice in a list, then the value again
func c05RandomSeq(sub int64) (vals []interface{}, kc *c05Cfg, interior bool) {
	root, kc, interior := c05Random(sub, false)
	switch sub % 3 {
	case 0:
		vals = []interface{}{root, root}
	case 1:
		vals = []interface{}{root, []interface{}{root, root}, root}
	default:
		vals = []interface{}{[]interface{}{root, root}, root}
	}
	return vals, kc, interior
}

func c05RecordSeq(c *Ctx, cf *caseFile, label string, vals []interface{}, kc *c05Cfg, interior bool, input map[string]string) {
	runs := c05RunSeq(vals, kc)
	inModel := kc.recordOrderOK()
	var docs []string
	for i, r := range runs {
		in := map[string]string{"doc": strconv.Itoa(i), "cfg": kc.String()}
		for k, v := range input {
			in[k] = v
		}
		for _, v := range r.verdicts(false) {
			c.Fail(Replay{Kind: v.Kind, Key: v.Key, Input: in, Expect: v.Expect, Got: v.Got,
				Note: fmt.Sprintf("%s :: document %d of %d through one iterator / marshaler :: %T :: events %s", label, i+1, len(vals), vals[i], c05Short(evsString(r.Evs), 400))})
		}
		if interior && r.DupDiff {
			inModel = false
		}
		rej := "None"
		if r.Rej >= 0 {
			rej = cSome(cNi(r.Rej))
		}
		docs = append(docs, cTuple(r.Term, cEvs(r.Evs), cBool(r.Panic == ""), rej))
		c.Count(label+"|"+kc.String()+"|"+strconv.Itoa(i)+"|"+evsString(r.Evs), len(r.Evs) > 4)
		c.Dist(fmt.Sprintf("sequence/document-%d/recursion=%v", i+1, kc.Recursion))
		for _, e := range r.Evs {
			if e.K == "mk" || e.K == "ref" {
				c.Dist("sequence/event/" + e.K)
			}
		}
	}
	if len(runs) == 0 {
		return
	}
	if inModel {
		cf.Add(cTuple(runs[0].CfgTerm, cList(docs)), fmt.Sprintf("%s | %s | %d documents | %s", label, kc.String(), len(runs), c05Short(evsString(runs[len(runs)-1].Evs), 200)))
	} else {
		c.Dist("outside-model/sequence")
	}
}

func c05Short(s string, n int) string {
	if len(s) > n {
		return s[:n] + "…"
	}
	return s
}

func c05Bucket(n int) string {
	switch {
	case n <= 4:
		return "<=4"
	case n <= 10:
		return "5-10"
	case n <= 30:
		return "11-30"
	case n <= 100:
		return "31-100"
	}
	return ">100"
}

func c05LeafLike(t reflect.Type) bool {
	if c05Special(t) && t != c05TNode && t != c05TEdge {
		return true
	}
	switch t.Kind() {
	case reflect.Struct, reflect.Map, reflect.Interface:
		return false
	case reflect.Ptr:
		return c05LeafLike(t.Elem())
	case reflect.Slice, reflect.Array:
		ek := t.Elem().Kind()
		name, _, _ := c05AKind(ek)
		return name != "" || ek == reflect.Bool
	}
	return true
}

// one random case from a sub-seed (also the replay procedure)
func c05Random(sub int64, defect bool) (root interface{}, kc *c05Cfg, interior bool) {
	rng := rand.New(rand.NewSource(sub))
	recursion := rng.Intn(3) == 0
	g := &c05Gen{rng: rng, cycles: recursion, pool: map[reflect.Type][]reflect.Value{}, defect: defect}
	// one case in four (two in three with recursion support) may point into the middle of its own objects
	g.interiorOn = rng.Intn(12) < map[bool]int{false: 3, true: 8}[recursion]
	if rng.Intn(40) == 0 {
		return nil, g.cfg(nil, recursion), false
	}
	t := g.typ(3)
	for tries := 0; tries < 4 && c05LeafLike(t) && rng.Intn(8) != 0; tries++ {
		t = g.typ(3)
	}
	if g.interiorOn && rng.Intn(2) == 0 {
		t = c05TIfaceSl // a list of anything: room for the same objects to come back
	}
	v := reflect.New(t).Elem()
	g.fill(v, 3)
	if g.interiorOn && t == c05TIfaceSl {
		l := v
		if l.IsNil() {
			l = reflect.MakeSlice(t, 0, 4)
		}
		for k := 2 + rng.Intn(4); k > 0; k-- {
			l = reflect.Append(l, reflect.ValueOf(g.nonNilIface(2)))
		}
		v.Set(l)
	}
	root = v.Interface()
	return root, g.cfg(root, recursion), g.interiorOn
}

func runC05(c *Ctx) {
	c.Rep.Rule = "random values of random types (reflect.StructOf structs with ce tags, slices, arrays, maps, pointers with sharing, interfaces, typed arrays, bool slices, library types, Node, Edge), depth <= 3, each with a random iterator configuration (field-name style, default omit behaviour, record types chosen among the struct types of the value, recursion support 1/3 with cycles); one third of the random cases may contain shapes of the open defect classes (edges, signalling float32 NaNs, embedded structs whose field names are chosen without regard to the names above them); one random struct type in four embeds one or two fields that are not structs (named int / string / []byte / float / bool / slice / interface / array types (not a map: reflect.StructOf cannot build that), pointer to a struct, pointer to a named int: ordinary fields named after their type, with tags); two random struct types in five embed structs 1-6 levels deep (one or two embedded structs per level, at any position, flattened field names kept distinct); with recursion support two cases in three (one in four without) reuse finished pointers / slices / maps and point into the middle of finished objects (address of a struct field, of the first element of an array or slice: same address as the enclosing object, another type); sequences of 2-3 values through ONE RootObjectIterator and ONE CBE / CTE marshaler (a cyclic ring two and three times, its second node in between, unrelated rings, shared pointers / slices / maps that are shared in the first document and single in the second and the other way round, more markers in every document, a nil document in between, records, a struct and its first field, cyclic maps and slices; with recursion support on and, where finite, off; and 120 random sequences: a random value, the value twice in a list, the value again), every document judged like the document of a single value and, without a Go map of several entries, compared byte for byte with a fresh marshaler's document; the model threads the marker counter through the documents; plus a zoo of hand-written values (bool slices of every length around byte boundaries, edges, records, omit tags on every kind, shared pointers, cycles, slices sharing a base; embedded structs: chains of every depth 0-6 with the embedded struct first / in the middle / last and 1-3 innermost fields of equal or mixed types, binary trees of embeddings of depth 1-4, named chains, all as maps and as records; embedded fields that are not structs (the former panics of extractFields: a named int, a pointer to a struct nil and non-nil, named string / bytes / float / bool / map / list / typed slice / interface / array, pointer to a named int, an unexported one, with name / omit / order tags, below 0-4 levels of embedded structs, the level below embedded through a pointer); flattened fields that go by one name (an outer field shadowing an embedded struct's field at embedding depth 1-5, a `name=` tag repeating one, names that fall together in snake case only, two levels using one name, two embedded siblings with a field X) and exported fields promoted through an embedded struct whose type name is lower-case (first / middle / last, below an exported embedding, with an exported embedding below it, tagged, omitted as a control) - both open findings; objects of different types at one address under recursion support: every pair out of struct / first field / first field of that / its first int, pointer to array / slice of it / first element, slice / first element, zero-size objects, in three orders of occurrence, in lists, typed fields and maps; media types of every allowed character class, and malformed ones whose events the validator has to refuse; times of every type and time-zone form, and compact times that Validate rejects - month 13 / 0, day 30 of February / 0, year 0, hour 24, minute 60, second 61, nanosecond 10^9, latitude / longitude / offset out of range, empty area - whose events the validator has to refuse) under 2-5 configurations each; a case is trivial when the document is only nil, a bool or an integer; distinct = distinct (label, configuration, event stream)"
	cf := c.Cases("iterate", "CE.Model.Iterate", "iterate_case", "iterate_case_ok")
	cf.perFile = 100

	for _, e := range c05Zoo() {
		for i, kc := range e.cfgs() {
			root := e.Build()
			input := map[string]string{"zoo": e.Name, "cfg_index": strconv.Itoa(i)}
			if e.Reject {
				input["must_reject"] = "true"
			}
			c05Record(c, cf, "zoo/"+e.Name, root, kc, e.Unsupported, e.Feat, e.Interior, input)
		}
	}
	sf := c.Cases("iterate_seq", "CE.Model.Iterate", "iterate_seq_case", "iterate_seq_case_ok")
	sf.perFile = 60
	for _, e := range c05SeqZoo() {
		for i, kc := range e.cfgs() {
			c05RecordSeq(c, sf, "seq/"+e.Name, e.Build(), kc, e.Interior, map[string]string{"seq": e.Name, "cfg_index": strconv.Itoa(i)})
		}
	}
	srng := rand.New(rand.NewSource(c.Seed ^ 0x5e9))
	for i, ns := 0, c.Pick(120, 3000); i < ns; i++ {
		sub := srng.Int63()
		vals, kc, interior := c05RandomSeq(sub)
		c05RecordSeq(c, sf, fmt.Sprintf("seq/random/%d", i), vals, kc, interior, map[string]string{"seq_subseed": strconv.FormatInt(sub, 10)})
	}
	n := c.Pick(900, 20000)
	for i := 0; i < n; i++ {
		sub := c.Rng.Int63()
		defect := i%3 == 0
		root, kc, interior := c05Random(sub, defect)
		c05Record(c, cf, fmt.Sprintf("random/%d", i), root, kc, false, "", interior, map[string]string{"subseed": strconv.FormatInt(sub, 10), "defect": strconv.FormatBool(defect)})
	}
}

func replayC05Seq(r *Replay) (bool, string) {
	var vals []interface{}
	var kc *c05Cfg
	if name, ok := r.Input["seq"]; ok {
		for _, e := range c05SeqZoo() {
			if e.Name == name {
				idx, _ := strconv.Atoi(r.Input["cfg_index"])
				if cfgs := e.cfgs(); idx >= 0 && idx < len(cfgs) {
					vals, kc = e.Build(), cfgs[idx]
				}
			}
		}
		if kc == nil {
			return false, "unknown sequence " + name
		}
	} else {
		sub, err := strconv.ParseInt(r.Input["seq_subseed"], 10, 64)
		if err != nil {
			return false, "bad replay input"
		}
		vals, kc, _ = c05RandomSeq(sub)
	}
	doc, _ := strconv.Atoi(r.Input["doc"])
	runs := c05RunSeq(vals, kc)
	if doc < 0 || doc >= len(runs) {
		return false, "the sequence has no such document"
	}
	run := runs[doc]
	vs := run.verdicts(false)
	detail := fmt.Sprintf("document %d of %d through one iterator / marshaler, %T under %s: events %s [cte %q]", doc+1, len(vals), vals[doc], kc.String(), c05Short(evsString(run.Evs), 500), c05Short(string(run.Docs["cte"]), 200))
	for _, v := range vs {
		if v.Key == r.Key || r.Key == "" {
			return false, fmt.Sprintf("%s: %s; %s", v.Key, v.Got, detail)
		}
	}
	if len(vs) > 0 {
		return false, fmt.Sprintf("%s: %s; %s", vs[0].Key, vs[0].Got, detail)
	}
	return true, detail
}

func replayC05(r *Replay) (bool, string) {
	if _, ok := r.Input["seq"]; ok {
		return replayC05Seq(r)
	}
	if _, ok := r.Input["seq_subseed"]; ok {
		return replayC05Seq(r)
	}
	var root interface{}
	var kc *c05Cfg
	unsupported := false
	feat := ""
	if name, ok := r.Input["zoo"]; ok {
		found := false
		for _, e := range c05Zoo() {
			if e.Name == name {
				idx, _ := strconv.Atoi(r.Input["cfg_index"])
				cfgs := e.cfgs()
				if idx < 0 || idx >= len(cfgs) {
					return false, "bad cfg_index"
				}
				root, kc, unsupported, feat, found = e.Build(), cfgs[idx], e.Unsupported, e.Feat, true
			}
		}
		if !found {
			return false, "unknown zoo entry " + name
		}
	} else {
		sub, err := strconv.ParseInt(r.Input["subseed"], 10, 64)
		if err != nil {
			return false, "bad replay input"
		}
		root, kc, _ = c05Random(sub, r.Input["defect"] == "true")
	}
	run := c05Exec(root, kc)
	if feat != "" {
		run.Feats[feat]++
	}
	vs := run.verdicts(unsupported)
	detail := fmt.Sprintf("%T under %s: events %s", root, kc.String(), c05Short(evsString(run.Evs), 500))
	if r.Input["must_reject"] == "true" {
		if run.Rej < 0 && run.Panic == "" {
			return false, c05MustRejectKey(r.Input["zoo"]) + ": accepted; " + detail
		}
		return true, detail
	}
	for _, v := range vs {
		if v.Key == r.Key || r.Key == "" {
			return false, fmt.Sprintf("%s: %s; %s [cbe %s]", v.Key, v.Got, detail, hex.EncodeToString(run.Docs["cbe"]))
		}
	}
	if len(vs) > 0 {
		return false, fmt.Sprintf("%s: %s; %s", vs[0].Key, vs[0].Got, detail)
	}
	return true, detail
}
