package main

import (
	"fmt"

	"github.com/kstenerud/go-concise-encoding/configuration"
	"github.com/kstenerud/go-concise-encoding/rules"
)

// RulesCfg: the limits the validator reads.
type RulesCfg struct {
	MaxObjects, MaxDepth, MaxArray, MaxIdent, MaxRefs uint64
	MaxMarkers                                        uint64 // 0 = leave the default
}

func defaultRulesCfg() RulesCfg {
	c := configuration.New().Rules
	return RulesCfg{MaxObjects: c.MaxObjectCount, MaxDepth: c.MaxContainerDepth, MaxArray: c.MaxArraySizeBytes, MaxIdent: c.MaxIdentifierLength, MaxRefs: c.MaxLocalReferenceCount}
}

func (rc RulesCfg) config() *configuration.Configuration {
	cfg := configuration.New()
	cfg.Rules.MaxObjectCount = rc.MaxObjects
	cfg.Rules.MaxContainerDepth = rc.MaxDepth
	cfg.Rules.MaxArraySizeBytes = rc.MaxArray
	cfg.Rules.MaxIdentifierLength = rc.MaxIdent
	cfg.Rules.MaxLocalReferenceCount = rc.MaxRefs
	if rc.MaxMarkers != 0 {
		cfg.Rules.MaxMarkerCount = rc.MaxMarkers
	}
	return cfg
}

func (rc RulesCfg) coq() string {
	// the model's single marker limit is the smaller of the two the code checks against one counter
	refs := rc.MaxRefs
	mm := rc.MaxMarkers
	if mm == 0 {
		mm = configuration.New().Rules.MaxMarkerCount
	}
	if mm < refs {
		refs = mm
	}
	rc.MaxRefs = refs
	return fmt.Sprintf("{| max_object_count := %d; max_container_depth := %d; max_array_size_bytes := %d; max_identifier_length := %d; max_local_reference_count := %d; expected_version := 0 |}",
		rc.MaxObjects, rc.MaxDepth, rc.MaxArray, rc.MaxIdent, rc.MaxRefs)
}

// runRules drives a fresh validator with a recording receiver behind it.
// Returns the index of the first rejected event (-1: none) and what the next receiver saw.
func runRules(rc RulesCfg, es []Ev) (int, []Ev, string) {
	rec := &Recorder{}
	r := rules.NewRules(rec, rc.config())
	at, msg := playAll(r, es)
	return at, rec.Evs, msg
}

func cOptN(i int) string {
	if i < 0 {
		return "None"
	}
	return cSome(cNi(i))
}

func cRulesCase(rc RulesCfg, es []Ev, rej int, out []Ev) string {
	return cTuple(rc.coq(), cEvs(es), cOptN(rej), cEvs(out))
}

const rulesImports = "CE.Model.Rules"

func (c *Ctx) rulesCases() *caseFile {
	cf := c.Cases("rules", rulesImports, "rules_case", "rules_case_ok")
	cf.perFile = 150
	return cf
}

// addRulesCase runs the implementation on es and records the observation for the model.
func (c *Ctx) addRulesCase(rc RulesCfg, es []Ev) (rej int, out []Ev) {
	rej, out, _ = runRules(rc, es)
	c.rulesCases().Add(cRulesCase(rc, es, rej, out), fmt.Sprintf("rej=%d :: %s", rej, evsString(es)))
	return
}
