// vh — verification harness for go-concise-encoding (see /verif/DESIGN.md).
//
//	vh gen <outdir>                         regenerate coq/theories/Gen/*.v from the current tree
//	vh run <Cxx> <quick|thorough> <seed> <outdir>   run the implementation side of a check
//	vh replay <file>                        re-run one recorded input against the implementation
package main

import (
	"fmt"
	"os"
	"sort"
	"strconv"
)

type propRunner struct {
	run    func(c *Ctx)
	replay func(r *Replay) (ok bool, detail string)
}

var props = map[string]*propRunner{}

func register(id string, run func(c *Ctx), replay func(r *Replay) (bool, string)) {
	props[id] = &propRunner{run: run, replay: replay}
}

func usage() {
	ids := []string{}
	for k := range props {
		ids = append(ids, k)
	}
	sort.Strings(ids)
	fmt.Fprintf(os.Stderr, "usage: vh gen <dir> | vh run <id> <tier> <seed> <outdir> | vh replay <file>\nproperties: %v\n", ids)
	os.Exit(2)
}

func main() {
	if len(os.Args) < 2 {
		usage()
	}
	switch os.Args[1] {
	case "gen":
		if len(os.Args) != 3 {
			usage()
		}
		genAll(os.Args[2])
	case "run":
		if len(os.Args) != 6 {
			usage()
		}
		p, ok := props[os.Args[2]]
		if !ok {
			usage()
		}
		seed, err := strconv.ParseInt(os.Args[4], 10, 64)
		if err != nil {
			usage()
		}
		c := newCtx(os.Args[2], os.Args[3], seed, os.Args[5])
		p.run(c)
		c.finish()
	case "replay":
		if len(os.Args) != 3 {
			usage()
		}
		os.Exit(doReplay(os.Args[2]))
	default:
		usage()
	}
}
