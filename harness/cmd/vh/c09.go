package main

// C09 — Truncated documents are rejected and partial results are prefixes.
//
// Search oracle: every cut point doc[:k], 0 < k < len(doc), of generated valid
// CBE documents and of CTE documents whose top-level value is a container,
// through ce.UnmarshalFromCBEDocument / ce.UnmarshalFromCTEDocument with the
// untyped (nil) template and typed templates:
//   (1) the call returns (hang = failure), (2) with a non-nil error,
//   (3) the partial value is a prefix of the value of the whole document.
// Every unmarshal runs in a worker process (hidden sub-command "c09-worker")
// with an address-space cap; a worker that does not answer in time is killed
// and the cut point is reported as a hang.
//
// Correspondence: for the untyped template on CBE documents inside the Coq
// models' fragment, what the implementation did at every cut point (error or
// not, hang, partial value) is recorded as a CE.Model.Trunc.trunc_case.

import (
	"bufio"
	"bytes"
	"encoding/hex"
	"encoding/json"
	"fmt"
	"math"
	"math/big"
	"net/url"
	"os"
	"os/exec"
	"reflect"
	"sort"
	"strconv"
	"strings"
	"syscall"
	"time"

	"github.com/cockroachdb/apd/v2"
	compact_float "github.com/kstenerud/go-compact-float"
	compact_time "github.com/kstenerud/go-compact-time"
	"github.com/kstenerud/go-concise-encoding/ce"
	"github.com/kstenerud/go-concise-encoding/configuration"
	"github.com/kstenerud/go-concise-encoding/types"
)

func init() {
	register("C09", runC09, replayC09)
	if len(os.Args) >= 2 && os.Args[1] == "c09-worker" {
		c09Worker()
		os.Exit(0)
	}
}

// ---------------------------------------------------------------------------
// Templates

// (slices of Go integers are marshaled as typed arrays, which the []int builders do not
// accept back: lists of numbers are therefore given as []interface{} values below)
type c09Inner struct {
	X uint8
	Y []string
	Z [2]string
}

type c09Outer struct {
	A int
	B string
	C []string
	D map[string]int
	E *c09Inner
	F float64
	G bool
	H []c09Inner
	I interface{}
}

// a destination that knows only some of c09Outer's fields: the others are skipped by the ignore builders
type c09Small struct {
	A int
	C []string
	G bool
}

var c09Templates = map[string]func() interface{}{
	"nil":                         func() interface{} { return nil },
	"[]interface{}":               func() interface{} { return []interface{}{} },
	"map[interface{}]interface{}": func() interface{} { return map[interface{}]interface{}{} },
	"[]int":                       func() interface{} { return []int{} },
	"[]string":                    func() interface{} { return []string{} },
	"[]float64":                   func() interface{} { return []float64{} },
	"[][]int":                     func() interface{} { return [][]int{} },
	"[4]int":                      func() interface{} { return [4]int{} },
	"map[string]int":              func() interface{} { return map[string]int{} },
	"map[int]string":              func() interface{} { return map[int]string{} },
	"map[string][]int":            func() interface{} { return map[string][]int{} },
	"outer":                       func() interface{} { return c09Outer{} },
	"*outer":                      func() interface{} { return (*c09Outer)(nil) },
	"small":                       func() interface{} { return c09Small{} },
	"[]inner":                     func() interface{} { return []c09Inner{} },
	"map[string]outer":            func() interface{} { return map[string]c09Outer{} },
	"[]uint8":                     func() interface{} { return []uint8{} },
}

func c09TmplClass(name string) string {
	if name == "nil" {
		return "untyped"
	}
	return "typed"
}

// ---------------------------------------------------------------------------
// Value trees: the observable part of a built Go value

type c09V struct {
	K     string   `json:"k"`           // nil leaf list array map struct
	S     string   `json:"s,omitempty"` // leaf: "<type>:<canonical text>"
	Zero  bool     `json:"z,omitempty"` // the Go value is the zero value of its static type
	Kids  []*c09V  `json:"c,omitempty"` // list/array: elements; map: k0 v0 k1 v1 ...; struct: fields
	Names []string `json:"n,omitempty"` // struct: field names
}

var (
	c09TypBigInt   = reflect.TypeOf(big.Int{})
	c09TypBigFloat = reflect.TypeOf(big.Float{})
	c09TypAPD      = reflect.TypeOf(apd.Decimal{})
	c09TypURL      = reflect.TypeOf(url.URL{})
	c09TypTime     = reflect.TypeOf(time.Time{})
	c09TypCTime    = reflect.TypeOf(compact_time.Time{})
	c09TypDFloat   = reflect.TypeOf(compact_float.DFloat{})
	c09TypUID      = reflect.TypeOf(types.UID{})
	c09TypMedia    = reflect.TypeOf(types.Media{})
)

func c09SafeZero(v reflect.Value) (z bool) {
	defer func() {
		if recover() != nil {
			z = false
		}
	}()
	return v.IsZero()
}

// c09Tree converts a built value. viaIface: the value was reached through an
// interface{} (its dynamic type was chosen by the builder), in which case a
// numeric slice is one array object and not a list of separately decoded elements.
func c09Tree(v reflect.Value, viaIface bool, depth int) *c09V {
	if !v.IsValid() {
		return &c09V{K: "nil", Zero: true}
	}
	if depth > 40 {
		return &c09V{K: "leaf", S: "deep"}
	}
	zero := c09SafeZero(v)
	leaf := func(s string) *c09V { return &c09V{K: "leaf", S: v.Type().String() + ":" + s, Zero: zero} }
	switch v.Type() {
	case c09TypBigInt:
		x := v.Interface().(big.Int)
		return leaf(x.String())
	case c09TypBigFloat:
		x := v.Interface().(big.Float)
		return leaf(x.Text('p', 0) + "/" + strconv.Itoa(int(x.Prec())))
	case c09TypAPD:
		x := v.Interface().(apd.Decimal)
		return leaf(fmt.Sprintf("%d/%v/%s/%d", x.Form, x.Negative, x.Coeff.String(), x.Exponent))
	case c09TypURL:
		x := v.Interface().(url.URL)
		return leaf(x.String())
	case c09TypTime:
		x := v.Interface().(time.Time)
		return leaf(x.Format(time.RFC3339Nano) + "/" + x.Location().String())
	case c09TypCTime:
		x := v.Interface().(compact_time.Time)
		return leaf(x.String())
	case c09TypDFloat:
		x := v.Interface().(compact_float.DFloat)
		return leaf(fmt.Sprintf("%d/%d", x.Coefficient, x.Exponent))
	case c09TypUID:
		x := v.Interface().(types.UID)
		return leaf(hex.EncodeToString(x[:]))
	case c09TypMedia:
		x := v.Interface().(types.Media)
		return leaf(hex.EncodeToString([]byte(x.MediaType)) + "/" + hex.EncodeToString(x.Data))
	}
	switch v.Kind() {
	case reflect.Interface:
		if v.IsNil() {
			return &c09V{K: "nil", Zero: true}
		}
		return c09Tree(v.Elem(), true, depth+1)
	case reflect.Ptr:
		if v.IsNil() {
			return &c09V{K: "nil", Zero: true}
		}
		t := c09Tree(v.Elem(), viaIface, depth+1)
		t.Zero = false
		return t
	case reflect.Bool:
		return leaf(strconv.FormatBool(v.Bool()))
	case reflect.Int, reflect.Int8, reflect.Int16, reflect.Int32, reflect.Int64:
		return leaf(strconv.FormatInt(v.Int(), 10))
	case reflect.Uint, reflect.Uint8, reflect.Uint16, reflect.Uint32, reflect.Uint64, reflect.Uintptr:
		return leaf(strconv.FormatUint(v.Uint(), 10))
	case reflect.Float32:
		return leaf(fmt.Sprintf("%08x", math.Float32bits(float32(v.Float()))))
	case reflect.Float64:
		return leaf(fmt.Sprintf("%016x", math.Float64bits(v.Float())))
	case reflect.String:
		return leaf(hex.EncodeToString([]byte(v.String())))
	case reflect.Slice, reflect.Array:
		if v.Kind() == reflect.Slice && v.IsNil() {
			return &c09V{K: "nil", Zero: true}
		}
		ek := v.Type().Elem().Kind()
		numeric := ek >= reflect.Int && ek <= reflect.Float64
		if viaIface && numeric && v.Kind() == reflect.Slice {
			var sb strings.Builder
			for i := 0; i < v.Len(); i++ {
				sb.WriteString(c09Tree(v.Index(i), false, depth+1).S)
				sb.WriteByte(',')
			}
			return leaf(sb.String())
		}
		t := &c09V{K: "list", Zero: zero}
		if v.Kind() == reflect.Array {
			t.K = "array"
		}
		for i := 0; i < v.Len(); i++ {
			t.Kids = append(t.Kids, c09Tree(v.Index(i), false, depth+1))
		}
		return t
	case reflect.Map:
		if v.IsNil() {
			return &c09V{K: "nil", Zero: true}
		}
		t := &c09V{K: "map", Zero: false}
		type kv struct {
			ks   string
			k, x *c09V
		}
		kvs := []kv{}
		it := v.MapRange()
		for it.Next() {
			k := c09Tree(it.Key(), false, depth+1)
			kvs = append(kvs, kv{k.canon(), k, c09Tree(it.Value(), false, depth+1)})
		}
		sort.Slice(kvs, func(i, j int) bool { return kvs[i].ks < kvs[j].ks })
		for _, e := range kvs {
			t.Kids = append(t.Kids, e.k, e.x)
		}
		return t
	case reflect.Struct:
		t := &c09V{K: "struct", Zero: zero}
		for i := 0; i < v.NumField(); i++ {
			if v.Type().Field(i).PkgPath != "" {
				continue // unexported
			}
			t.Names = append(t.Names, v.Type().Field(i).Name)
			t.Kids = append(t.Kids, c09Tree(v.Field(i), false, depth+1))
		}
		return t
	}
	return leaf("?" + v.Kind().String())
}

func (t *c09V) canon() string {
	if t == nil {
		return "<none>"
	}
	switch t.K {
	case "nil":
		return "nil"
	case "leaf":
		return t.S
	}
	var sb strings.Builder
	sb.WriteString(t.K)
	sb.WriteByte('(')
	for i, k := range t.Kids {
		if i > 0 {
			sb.WriteByte(' ')
		}
		if t.K == "struct" {
			sb.WriteString(t.Names[i] + "=")
		}
		sb.WriteString(k.canon())
	}
	sb.WriteByte(')')
	return sb.String()
}

func c09Clip(s string) string {
	if len(s) > 300 {
		return s[:300] + "…"
	}
	return s
}

// c09Prefix decides "p is a prefix of f". zeroOK: an absent value is acceptable
// at this position (top level, struct field, slot of a fixed-size array).
// Returns "" or the class of the first difference.
func c09Prefix(p, f *c09V, zeroOK bool) string {
	if p.K == "nil" {
		if f.K == "nil" || zeroOK {
			return ""
		}
		return "missing-value"
	}
	if zeroOK && p.Zero {
		return ""
	}
	if p.K != f.K {
		return "kind"
	}
	switch p.K {
	case "leaf":
		if p.S != f.S {
			return "leaf"
		}
		return ""
	case "list":
		if len(p.Kids) > len(f.Kids) {
			return "list-longer"
		}
		for i, x := range p.Kids {
			if i == len(p.Kids)-1 {
				if w := c09Prefix(x, f.Kids[i], false); w != "" {
					return "list-last/" + w
				}
			} else if x.canon() != f.Kids[i].canon() {
				return "list-completed-element"
			}
		}
		return ""
	case "array":
		if len(p.Kids) != len(f.Kids) {
			return "array-length"
		}
		for i, x := range p.Kids {
			if w := c09Prefix(x, f.Kids[i], true); w != "" {
				return "array-slot/" + w
			}
		}
		return ""
	case "struct":
		if len(p.Kids) != len(f.Kids) {
			return "struct-shape"
		}
		for i, x := range p.Kids {
			if w := c09Prefix(x, f.Kids[i], true); w != "" {
				return "field/" + w
			}
		}
		return ""
	case "map":
		full := map[string]*c09V{}
		for i := 0; i+1 < len(f.Kids); i += 2 {
			full[f.Kids[i].canon()] = f.Kids[i+1]
		}
		partial := 0
		for i := 0; i+1 < len(p.Kids); i += 2 {
			fx, ok := full[p.Kids[i].canon()]
			if !ok {
				return "map-invented-key"
			}
			if p.Kids[i+1].canon() == fx.canon() {
				continue
			}
			partial++
			if w := c09Prefix(p.Kids[i+1], fx, false); w != "" {
				return "map-value/" + w
			}
		}
		if partial > 1 {
			return "map-two-partial-values"
		}
		return ""
	}
	return "unknown-kind"
}

// ---------------------------------------------------------------------------
// Worker process

type c09Req struct {
	Fmt  string `json:"f"`
	Tmpl string `json:"t"`
	Doc  string `json:"d"` // hex
	Ks   []int  `json:"k"`
	Coq  bool   `json:"q"`
}

type c09Obs struct {
	K     int    `json:"k"`
	Err   bool   `json:"e"`
	Panic string `json:"p,omitempty"` // a panic escaped from the entry point
	V     *c09V  `json:"v,omitempty"`
	Coq   string `json:"q,omitempty"` // untyped results as a CE.Model.Build.uval term ("" = not representable)
	Hang  bool   `json:"h,omitempty"` // set by the parent: no answer in time
	Died  string `json:"x,omitempty"` // set by the parent: the worker died
}

func c09Unmarshal(format, tmpl string, doc []byte) (v interface{}, err error, panicked string) {
	defer func() {
		if r := recover(); r != nil {
			panicked = fmt.Sprint(r)
		}
	}()
	mk, ok := c09Templates[tmpl]
	if !ok {
		panic("unknown template " + tmpl)
	}
	if format == "cte" {
		v, err = ce.UnmarshalFromCTEDocument(doc, mk(), configuration.New())
	} else {
		v, err = ce.UnmarshalFromCBEDocument(doc, mk(), configuration.New())
	}
	return
}

func c09CoqValSafe(v interface{}) (s string) {
	defer func() {
		if recover() != nil {
			s = ""
		}
	}()
	if c06Cyclic(v) {
		return ""
	}
	return c06CoqVal(v)
}

func c09Observe(format, tmpl string, doc []byte, k int, coq bool) c09Obs {
	v, err, p := c09Unmarshal(format, tmpl, doc[:k])
	o := c09Obs{K: k, Err: err != nil, Panic: p}
	if p == "" {
		func() {
			defer func() {
				if r := recover(); r != nil {
					o.V = &c09V{K: "leaf", S: "unrenderable"}
				}
			}()
			o.V = c09Tree(reflect.ValueOf(v), tmpl == "nil", 0)
		}()
		if coq {
			o.Coq = c09CoqValSafe(v)
		}
	}
	return o
}

func c09Worker() {
	memCap := uint64(6 << 30)
	syscall.Setrlimit(syscall.RLIMIT_AS, &syscall.Rlimit{Cur: memCap, Max: memCap})
	in := bufio.NewReaderSize(os.Stdin, 1<<22)
	out := bufio.NewWriterSize(os.Stdout, 1<<20)
	for {
		line, err := in.ReadBytes('\n')
		if len(bytes.TrimSpace(line)) > 0 {
			var rq c09Req
			if json.Unmarshal(line, &rq) != nil {
				fmt.Fprintln(out, "bad")
				out.Flush()
				continue
			}
			doc, _ := hex.DecodeString(rq.Doc)
			for _, k := range rq.Ks {
				o := c09Observe(rq.Fmt, rq.Tmpl, doc, k, rq.Coq)
				b, _ := json.Marshal(&o)
				out.Write(b)
				out.WriteByte('\n')
				out.Flush()
			}
		}
		if err != nil {
			return
		}
	}
}

type c09Proc struct {
	cmd   *exec.Cmd
	w     *bufio.Writer
	lines chan []byte
}

var c09TheProc *c09Proc

const c09HangTimeout = 1500 * time.Millisecond
const c09ConfirmTimeout = 6 * time.Second

func c09Start() *c09Proc {
	cmd := exec.Command(os.Args[0], "c09-worker")
	stdin, _ := cmd.StdinPipe()
	stdout, _ := cmd.StdoutPipe()
	cmd.Stderr = nil
	if err := cmd.Start(); err != nil {
		panic(err)
	}
	p := &c09Proc{cmd: cmd, w: bufio.NewWriterSize(stdin, 1<<20), lines: make(chan []byte, 256)}
	go func() {
		rd := bufio.NewReaderSize(stdout, 1<<22)
		for {
			line, err := rd.ReadBytes('\n')
			if err != nil {
				close(p.lines)
				return
			}
			p.lines <- line
		}
	}()
	return p
}

func (p *c09Proc) kill() {
	p.cmd.Process.Kill()
	go func() {
		for range p.lines {
		}
	}()
	p.cmd.Wait()
}

func c09Shutdown() {
	if c09TheProc != nil {
		c09TheProc.kill()
		c09TheProc = nil
	}
}

// c09Single runs one cut point in a worker of its own and waits up to c09ConfirmTimeout.
func c09Single(format, tmpl string, doc []byte, k int, coq bool) (o c09Obs, answered bool) {
	p := c09Start()
	defer p.kill()
	rq, _ := json.Marshal(&c09Req{Fmt: format, Tmpl: tmpl, Doc: hex.EncodeToString(doc), Ks: []int{k}, Coq: coq})
	p.w.Write(rq)
	p.w.WriteByte('\n')
	p.w.Flush()
	select {
	case line, ok := <-p.lines:
		if !ok || json.Unmarshal(line, &o) != nil {
			return c09Obs{K: k, Died: "worker died"}, true
		}
		return o, true
	case <-time.After(c09ConfirmTimeout):
		return c09Obs{K: k}, false
	}
}

// c09Sweep observes the cut points ks of one document. skip(k) is consulted
// again after every hang (the caller learns hang classes as they appear);
// skipped cut points are absent from the result.
func c09Sweep(format, tmpl string, doc []byte, ks []int, coq bool, skip func(k int) bool, onHang func(k int)) map[int]c09Obs {
	res := map[int]c09Obs{}
	todo := append([]int{}, ks...)
	for len(todo) > 0 {
		run := []int{}
		for _, k := range todo {
			if skip == nil || !skip(k) {
				run = append(run, k)
			}
		}
		todo = nil
		if len(run) == 0 {
			break
		}
		if c09TheProc == nil {
			c09TheProc = c09Start()
		}
		p := c09TheProc
		rq, _ := json.Marshal(&c09Req{Fmt: format, Tmpl: tmpl, Doc: hex.EncodeToString(doc), Ks: run, Coq: coq})
		p.w.Write(rq)
		p.w.WriteByte('\n')
		p.w.Flush()
		for i := 0; i < len(run); i++ {
			var line []byte
			ok, timedOut := true, false
			select {
			case line, ok = <-p.lines:
			case <-time.After(c09HangTimeout):
				timedOut = true
			}
			if timedOut || !ok {
				o := c09Obs{K: run[i]}
				p.kill()
				c09TheProc = nil
				if timedOut {
					// confirm in a fresh worker with a generous limit before calling it a hang
					if again, answered := c09Single(format, tmpl, doc, run[i], coq); answered {
						o = again
					} else {
						o.Hang = true
					}
				} else {
					o.Died = "worker died"
				}
				res[run[i]] = o
				if o.Hang && onHang != nil {
					onHang(run[i])
				}
				todo = run[i+1:]
				break
			}
			var o c09Obs
			if err := json.Unmarshal(line, &o); err != nil {
				panic("c09 worker: bad answer " + string(line))
			}
			res[o.K] = o
		}
	}
	return res
}

// ---------------------------------------------------------------------------
// Documents

type c09Doc struct {
	Label string // family
	Fmt   string
	Doc   []byte
	Tmpls []string
	Evs   []Ev // events of the whole document as the builder receives them (behind the validator); nil if unknown
	Corr  bool // also record Coq correspondence cases (CBE, untyped)
}

// in-process decode (validator behind the decoder); only used on documents and prefixes of documents produced by the encoders
func c09Decode(format string, doc []byte) (evs []Ev, ok bool) {
	defer func() {
		if recover() != nil {
			ok = false
		}
	}()
	cfg := configuration.New()
	rec := &Recorder{}
	r := ce.NewRules(rec, cfg)
	var err error
	if format == "cte" {
		err = ce.NewCTEDecoder(cfg).DecodeDocument(doc, r)
	} else {
		err = ce.NewCBEDecoder(cfg).DecodeDocument(doc, r)
	}
	return rec.Evs, err == nil
}

func c09Encode(format string, es []Ev) (doc []byte, ok bool) {
	defer func() {
		if recover() != nil {
			ok = false
		}
	}()
	return c06Encode(format, es)
}

// innermost open container at the end of an event prefix (top list map edge node record rectype),
// "+marker" when a marker still waits for its object, "+array" inside a chunked array.
// exposed: the artificial termination will find a marker builder on top of the stack whose object is
// not finished - the marker still waits for its object, or its object is a node without value / an
// unfinished edge, builders that do not end themselves and are dropped.
func c09OpenTop(es []Ev) (class string, exposed bool) {
	type ent struct {
		kind   string
		marked bool
		count  int // completed children
	}
	st := []ent{{kind: "top"}}
	marker, array, lastChunk := false, false, false
	done := func() { // an object has been completed in the current container
		st[len(st)-1].count++
		for len(st) > 1 && st[len(st)-1].kind == "edge" && st[len(st)-1].count >= 3 {
			st = st[:len(st)-1] // the edge builder finishes itself with its third component
			st[len(st)-1].count++
		}
	}
	for _, e := range es {
		switch e.K {
		case "bd", "v", "pad", "cm", "ed":
			continue
		case "mk":
			marker = true
			continue
		case "ab", "mb", "cbeg":
			array = true
			continue
		case "ac":
			lastChunk = !e.B
			if !e.B && e.N == 0 {
				array, marker = false, false
				done()
			}
			continue
		case "ad":
			if lastChunk { // the decoders deliver the data of a chunk in one piece
				array, marker = false, false
				done()
			}
			continue
		}
		switch e.K {
		case "l", "m", "edge", "node", "rec", "rt":
			kind := map[string]string{"l": "list", "m": "map", "edge": "edge", "node": "node", "rec": "record", "rt": "rectype"}[e.K]
			st = append(st, ent{kind: kind, marked: marker})
		case "e":
			if len(st) > 1 {
				if st[len(st)-1].kind == "rectype" {
					st = st[:len(st)-1]
				} else {
					st = st[:len(st)-1]
					done()
				}
			}
		default:
			done()
		}
		marker, array = false, false
	}
	class = st[len(st)-1].kind
	if marker {
		class += "+marker"
	}
	if array {
		class += "+array"
	}
	// what the artificial termination does with this stack
	exposed = marker
	delivered := false
	for i := len(st) - 1; i >= 1; i-- {
		t := st[i]
		if delivered {
			t.count++
		}
		if (t.kind == "node" && t.count == 0) || (t.kind == "edge" && t.count < 3) {
			if t.marked {
				exposed = true
			}
			delivered = false
		} else {
			delivered = t.kind != "rectype"
		}
	}
	return class, exposed
}

// which special features the document uses (for the failure classes)
func c09Features(es []Ev) string {
	f := []string{}
	if c09HasKind(es, "mk", "ref") {
		f = append(f, "marker")
	}
	if c09HasKind(es, "rt", "rec") {
		f = append(f, "record")
	}
	if c09HasKind(es, "edge", "node") {
		f = append(f, "graph")
	}
	if len(f) == 0 {
		return "plain"
	}
	return strings.Join(f, "+")
}

// where a cut falls in a CTE text: inside a quoted string, inside a word (number, name ...), or between tokens
func c09CTECutContext(doc []byte, k int) string {
	inStr, esc := false, false
	for i := 0; i < k; i++ {
		ch := doc[i]
		switch {
		case esc:
			esc = false
		case inStr && ch == '\\':
			esc = true
		case ch == '"':
			inStr = !inStr
		}
	}
	if inStr {
		return "in-string"
	}
	sep := func(ch byte) bool { return strings.IndexByte(" \t\r\n[]{}()<>=", ch) >= 0 }
	if k > 0 && k < len(doc) && !sep(doc[k-1]) && !sep(doc[k]) {
		return "in-word"
	}
	return "between-tokens"
}

func c09TopIsContainer(es []Ev) bool {
	// ... value e ed
	return len(es) >= 2 && es[len(es)-1].K == "ed" && es[len(es)-2].K == "e"
}

func c09TrimCTE(doc []byte) []byte {
	return bytes.TrimRight(doc, " \t\r\n")
}

func c09HasKind(es []Ev, kinds ...string) bool {
	for _, e := range es {
		for _, k := range kinds {
			if e.K == k {
				return true
			}
		}
	}
	return false
}

func c09TopKind(es []Ev) string {
	// the event that starts the top-level value (record type definitions, markers and trivia skipped)
	inRT := false
	for _, e := range es {
		switch {
		case e.K == "bd" || e.K == "v" || e.K == "pad" || e.K == "cm" || e.K == "mk":
		case e.K == "rt":
			inRT = true
		case inRT:
			if e.K == "e" {
				inRT = false
			}
		default:
			return e.K
		}
	}
	return ""
}

func c09GenOpts(thin bool) GenOpts {
	o := DefaultGenOpts()
	o.NonFloat64BigFloats = false
	o.NestedMarkers = false
	o.NegIntForms = false
	if thin {
		o.MaxDepth, o.MaxFan = 3, 4
	}
	return o
}

// the fragment of the Coq models: CE.Model.Cbe has no times
func c09CorrOpts() GenOpts {
	o := c09GenOpts(true)
	o.Times = false
	o.Custom, o.CustomText = false, false
	return o
}

// plain data: lists, maps, scalars, strings (what the typed templates []interface{} ... can hold)
func c09PlainOpts() GenOpts {
	o := c09CorrOpts()
	o.Markers, o.Records, o.Edges, o.Nodes, o.Media, o.Remote = false, false, false, false, false, false
	return o
}

func c09Evs(s string) []Ev { return c06Evs(s) }

func c09Directed() [][]Ev {
	ss := []string{
		"bd v:0 l i:1 i:2 i:3 e ed",
		"bd v:0 l l i:1 e l e m e e ed",
		"bd v:0 m sa:1:61 i:1 sa:1:62 l i:1 i:2 e sa:1:63 m sa:1:64 null e e ed",
		"bd v:0 l sa:1:616263 sa:1:6162636465666768696a6b6c6d6e6f707172 e ed",
		"bd v:0 l ab:1 ac:2:true ad:6162 ac:3:false ad:636465 i:7 e ed",
		"bd v:0 l pi:300 ni:70000 pi:5000000000 ni:0 fl:3ff8000000000000 fl:400921fb54442d18 e ed",
		"bd v:0 l t f null b:true e ed",
		"bd v:0 l a:7:3:010203 a:8:2:01000200 uid:000102030405060708090a0b0c0d0e0f e ed",
		"bd v:0 l node i:1 i:2 i:3 e i:4 e ed",
		"bd v:0 node i:1 l i:2 e node i:3 e e ed",
		"bd v:0 l edge i:1 i:2 i:3 e i:4 e ed",
		"bd v:0 m sa:1:61 edge i:1 i:2 l i:3 e e e ed",
		"bd v:0 l mk:61 l i:1 e ref:61 e ed",
		"bd v:0 l mk:61 i:5 ref:61 e ed",
		"bd v:0 m sa:1:6b mk:61 m sa:1:78 i:1 e sa:1:6c ref:61 e ed",
		"bd v:0 rt:72 sa:1:61 sa:1:62 e l rec:72 i:1 i:2 e rec:72 l i:3 e null e e ed",
		"bd v:0 rt:72 sa:1:61 e rec:72 l i:1 i:2 e e ed",
		"bd v:0 l pad i:1 pad pad i:2 e ed",
		"bd v:0 l media:612f62:0102 mb:612f62 ac:2:false ad:0304 e ed",
		"bd v:0 l sa:2:68747470733a2f2f782e792f61 e ed",
		"bd v:0 m i:1 i:2 pi:3 i:4 ni:5 i:6 t i:7 e ed",
		"bd v:0 l l l l i:1 e e e e ed",
		"bd v:0 l bi:123456789012345678901234567890 bi:-123456789012345678901234567890 e ed",
		"bd v:0 l df:15:-1 df:-123456:10 e ed",
		"bd v:0 l i:1 ed", // not a document (for the malformed stream: rejected as a whole)
	}
	out := [][]Ev{}
	for _, s := range ss {
		out = append(out, c09Evs(s))
	}
	return out
}

// ---------------------------------------------------------------------------
// Typed values

type c09Typed struct {
	Label string
	Val   interface{}
	Tmpls []string
}

func c09RandInner(c *Ctx) c09Inner {
	in := c09Inner{X: uint8(c.Rng.Intn(256))}
	for i := c.Rng.Intn(3); i > 0; i-- {
		in.Y = append(in.Y, strings.Repeat("y", c.Rng.Intn(20)))
	}
	for i := range in.Z {
		in.Z[i] = strings.Repeat("z", c.Rng.Intn(5))
	}
	return in
}

func c09RandOuter(c *Ctx) c09Outer {
	o := c09Outer{A: c.Rng.Intn(100000) - 50000, B: strings.Repeat("b", c.Rng.Intn(20)), F: float64(c.Rng.Intn(1000)) / 8, G: c.Rng.Intn(2) == 0}
	for i := c.Rng.Intn(4); i > 0; i-- {
		o.C = append(o.C, strings.Repeat("c", c.Rng.Intn(18)))
	}
	if c.Rng.Intn(3) > 0 {
		o.D = map[string]int{}
		for i := c.Rng.Intn(3); i > 0; i-- {
			o.D[fmt.Sprintf("k%d", c.Rng.Intn(50))] = c.Rng.Intn(1000)
		}
	}
	if c.Rng.Intn(2) == 0 {
		in := c09RandInner(c)
		o.E = &in
	}
	for i := c.Rng.Intn(3); i > 0; i-- {
		o.H = append(o.H, c09RandInner(c))
	}
	switch c.Rng.Intn(4) {
	case 0:
		o.I = []interface{}{int64(1), "two", []interface{}{uint64(3)}}
	case 1:
		o.I = "str"
	case 2:
		o.I = map[interface{}]interface{}{"a": int64(1)}
	}
	return o
}

func c09TypedValues(c *Ctx) []c09Typed {
	il := func(xs ...int64) []interface{} {
		l := []interface{}{}
		for _, x := range xs {
			l = append(l, x)
		}
		return l
	}
	out := []c09Typed{
		{"ints", il(1, -2, 300, -70000, 5000000000, 0), []string{"[]int", "nil", "[]interface{}", "[]float64"}},
		{"ints4", il(9, 8, 7, 6), []string{"[4]int", "[]int"}},
		{"strings", []string{"", "a", "hello world, this is more than fifteen bytes", "z"}, []string{"[]string", "nil"}},
		{"floats", []interface{}{1.5, -0.25, 3.141592653589793, 1e300}, []string{"[]float64", "nil"}},
		{"nested-ints", []interface{}{il(1, 2), il(), il(3, 4, 5)}, []string{"[][]int", "nil"}},
		{"map-string-int", map[string]int{"one": 1, "two": 2, "three": 3}, []string{"map[string]int", "nil", "map[interface{}]interface{}"}},
		{"map-int-string", map[int]string{1: "a", -2: "b", 300: "a long string of more than 15 bytes"}, []string{"map[int]string", "nil"}},
		{"map-string-ints", map[string]interface{}{"a": il(1, 2, 3), "b": il(), "c": il(4)}, []string{"map[string][]int", "nil"}},
		{"bytes", []uint8{1, 2, 3, 4, 5, 6, 7, 8, 9, 10, 11, 12, 13, 14, 15, 16, 17, 18, 19, 20}, []string{"[]uint8", "nil"}},
		{"mixed-list", []interface{}{int64(1), "two", 3.5, nil, true, []interface{}{uint64(7), "x"}, map[interface{}]interface{}{"k": int64(1)}},
			[]string{"[]interface{}", "nil"}},
		{"mixed-map", map[interface{}]interface{}{"a": int64(1), int64(2): "b", "l": []interface{}{int64(1), int64(2)}, "m": map[interface{}]interface{}{"x": nil}},
			[]string{"map[interface{}]interface{}", "nil"}},
		{"outer-fixed", c09Outer{A: 7, B: "bee", C: []string{"c1", "c2", "c3"}, D: map[string]int{"x": 1, "y": 2}, E: &c09Inner{X: 9, Y: []string{"p", "q"}, Z: [2]string{"z1", "z2"}},
			F: 2.5, G: true, H: []c09Inner{{X: 1}, {X: 2, Y: []string{"r"}}}, I: []interface{}{int64(1), "s"}}, []string{"outer", "*outer", "small", "nil"}},
	}
	for i := 0; i < c.Pick(6, 60); i++ {
		o := c09RandOuter(c)
		tm := []string{"outer", "small"}
		if i%3 == 0 {
			tm = append(tm, "*outer", "nil")
		}
		out = append(out, c09Typed{"outer-random", o, tm})
	}
	for i := 0; i < c.Pick(3, 30); i++ {
		l := []c09Inner{}
		for j := c.Rng.Intn(4); j >= 0; j-- {
			l = append(l, c09RandInner(c))
		}
		out = append(out, c09Typed{"inners", l, []string{"[]inner"}})
	}
	for i := 0; i < c.Pick(2, 20); i++ {
		m := map[string]c09Outer{}
		for j := c.Rng.Intn(3); j >= 0; j-- {
			m[fmt.Sprintf("key%d", j)] = c09RandOuter(c)
		}
		out = append(out, c09Typed{"map-of-outer", m, []string{"map[string]outer"}})
	}
	for i := 0; i < c.Pick(4, 40); i++ {
		l := []interface{}{}
		for j := c.Rng.Intn(12); j > 0; j-- {
			l = append(l, int64(c.Rng.Uint64())>>uint(c.Rng.Intn(64)))
		}
		out = append(out, c09Typed{"ints-random", l, []string{"[]int", "nil"}})
	}
	return out
}

// ---------------------------------------------------------------------------
// The oracle on one (document, template)

type c09Stats struct {
	hangKeys map[string]bool
}

func c09FailKey(kind, format, tmpl, detail string) string {
	k := "C09/" + kind + "/" + format + "/" + c09TmplClass(tmpl)
	if detail != "" {
		k += "/" + detail
	}
	return k
}

func c09Input(d *c09Doc, tmpl string, k int) map[string]string {
	return map[string]string{"format": d.Fmt, "template": tmpl, "doc_hex": hex.EncodeToString(d.Doc), "k": strconv.Itoa(k), "family": d.Label}
}

// c09Judge evaluates the property for one cut point. Returns "" when it holds, otherwise (kind, detail, expect, got).
func c09Judge(full *c09V, o c09Obs) (kind, detail, expect, got string) {
	switch {
	case o.Hang:
		return "hang", "", "an error is returned", "no answer within " + c09ConfirmTimeout.String()
	case o.Died != "":
		return "died", "", "an error is returned", o.Died
	case o.Panic != "":
		return "panic", "", "an error is returned", "panic: " + c09Clip(o.Panic)
	case !o.Err:
		return "no-error", "", "error != nil", "error == nil, value " + c09Clip(o.V.canon())
	}
	if w := c09Prefix(o.V, full, true); w != "" {
		// class: the innermost reason
		parts := strings.Split(w, "/")
		return "not-prefix", parts[len(parts)-1], "a prefix of " + c09Clip(full.canon()), c09Clip(o.V.canon()) + " (" + w + ")"
	}
	return "", "", "", ""
}

func (st *c09Stats) oracle(c *Ctx, d *c09Doc, tmpl string, cf *caseFile) {
	n := len(d.Doc)
	// whole document first
	fullObs := c09Sweep(d.Fmt, tmpl, d.Doc, []int{n}, false, nil, nil)[n]
	if fullObs.Hang || fullObs.Died != "" || fullObs.Panic != "" || fullObs.Err {
		c.Dist("whole-document-not-accepted/" + d.Fmt + "/" + c09TmplClass(tmpl) + "/" + d.Label)
		return
	}
	c.Dist("documents/" + d.Fmt + "/" + c09TmplClass(tmpl) + "/" + d.Label)
	// class of every cut point: innermost open container in the prefix's events
	ks := make([]int, 0, n)
	class := map[int]string{}
	exposed := map[int]bool{}
	for k := 1; k < n; k++ {
		ks = append(ks, k)
		evs, _ := c09Decode(d.Fmt, d.Doc[:k])
		class[k], exposed[k] = c09OpenTop(evs)
	}
	feat := c09Features(d.Evs)
	hangKey := func(k int) string { return c09FailKey("hang", d.Fmt, tmpl, "open="+class[k]) }
	skip := func(k int) bool { return st.hangKeys[hangKey(k)] }
	wantCoq := cf != nil && tmpl == "nil" && d.Fmt == "cbe"
	obs := c09Sweep(d.Fmt, tmpl, d.Doc, ks, wantCoq, skip, func(k int) { st.hangKeys[hangKey(k)] = true })
	obsTerms := []string{}
	for _, k := range ks {
		o, ok := obs[k]
		if !ok {
			c.Dist("skipped-known-hang-class/" + hangKey(k))
			continue
		}
		c.Count(fmt.Sprintf("%s|%s|%x|%d", d.Fmt, tmpl, d.Doc, k), k > 2)
		c.Dist("cut/" + d.Fmt + "/" + c09TmplClass(tmpl) + "/open=" + class[k])
		kind, detail, expect, got := c09Judge(fullObs.V, o)
		if kind != "" {
			if kind == "hang" {
				detail = "open=" + class[k]
			} else if kind == "not-prefix" {
				if exposed[k] {
					// the artificial termination meets a marker builder whose object is unfinished: one
					// root cause (the marker builder's artificial end), many shapes of the damage
					detail = "marker-exposed"
				}
				detail += "/" + feat
				if d.Fmt == "cte" {
					detail += "@" + c09CTECutContext(d.Doc, k)
				}
			}
			c.Fail(Replay{Kind: "cut", Key: c09FailKey(kind, d.Fmt, tmpl, detail), Input: c09Input(d, tmpl, k), Expect: expect, Got: got})
		} else if len(c.Rep.Samples) < 8 && k == n/2 {
			c.Sample(map[string]string{"format": d.Fmt, "template": tmpl, "doc_hex": hex.EncodeToString(d.Doc), "k": strconv.Itoa(k),
				"whole": c09Clip(fullObs.V.canon()), "partial": c09Clip(o.V.canon())})
		}
		if wantCoq {
			switch {
			case o.Hang:
				obsTerms = append(obsTerms, cPair(cNi(k), "OHang"))
			case o.Died != "" || o.Panic != "":
			case o.Coq == "":
				obsTerms = append(obsTerms, cPair(cNi(k), cApp("OFlag", cBool(o.Err))))
			case o.Err:
				obsTerms = append(obsTerms, cPair(cNi(k), cApp("OErr", o.Coq)))
			default:
				obsTerms = append(obsTerms, cPair(cNi(k), cApp("OOk", o.Coq)))
			}
		}
	}
	if wantCoq && d.Evs != nil {
		urls, times := c06LibTables(d.Evs)
		whole := "None"
		if s := c09CoqWhole(d); s != "" {
			whole = cSome(s)
		}
		if c09HasKind(d.Evs, "mk", "ref", "rt", "rec", "node", "edge", "cbeg", "cb", "ct", "tm") {
			c.Dist("correspondence/general-model-only")
		} else {
			c.Dist("correspondence/general-and-plain-model")
		}
		cf.Add(cApp("TruncCase", cBytes(d.Doc), urls, times, whole, cList(obsTerms)),
			fmt.Sprintf("%s cuts=%d :: %s :: %s", d.Label, len(obsTerms), hex.EncodeToString(d.Doc), evsString(d.Evs)))
	}
}

func c09CoqWhole(d *c09Doc) string {
	o := c09Sweep(d.Fmt, "nil", d.Doc, []int{len(d.Doc)}, true, nil, nil)[len(d.Doc)]
	if o.Err || o.Hang || o.Died != "" || o.Panic != "" {
		return ""
	}
	return o.Coq
}

// ---------------------------------------------------------------------------

func runC09(c *Ctx) {
	defer c09Shutdown()
	c.Rep.Rule = "one evaluation = one cut point doc[:k] (0<k<len) of one valid document through one unmarshal entry point (CBE or CTE) with one template; " +
		"documents: rules-valid random event streams (all kinds of values) and marshaled Go values (typed), encoded by the library's encoders, CTE only when the top-level value is a container; " +
		"non-trivial = cut behind the 2-byte header; distinct = distinct (format, template, document, k)"
	st := &c09Stats{hangKeys: map[string]bool{}}
	cf := c.Cases("trunc", "CE.Model.Trunc", "trunc_case", "trunc_case_ok")
	cf.perFile = 12

	docs := []*c09Doc{}
	addEvs := func(label string, es []Ev, corr bool, typedToo bool) {
		for _, format := range []string{"cbe", "cte"} {
			doc, ok := c09Encode(format, es)
			if !ok {
				c.Dist("encoder-refused/" + format + "/" + label)
				continue
			}
			if format == "cte" {
				if !c09TopIsContainer(es) {
					c.Dist("cte-top-level-not-a-container")
					continue
				}
				doc = c09TrimCTE(doc)
			}
			if len(doc) > c.Pick(160, 400) {
				c.Dist("document-too-long/" + format)
				continue
			}
			fwd, ok := c09Decode(format, doc)
			if !ok {
				c.Dist("whole-document-rejected-by-decoder/" + format + "/" + label)
				continue
			}
			tm := []string{"nil"}
			if typedToo {
				switch c09TopKind(es) {
				case "l":
					tm = append(tm, "[]interface{}")
				case "m":
					tm = append(tm, "map[interface{}]interface{}")
				}
			}
			docs = append(docs, &c09Doc{Label: label, Fmt: format, Doc: doc, Tmpls: tm, Evs: fwd, Corr: corr && format == "cbe"})
		}
	}
	for _, es := range c09Directed() {
		addEvs("directed", es, true, true)
	}
	g1 := NewEvGen(c.Rng, c09CorrOpts())
	for i := 0; i < c.Pick(60, 500); i++ {
		addEvs("events-model-fragment", g1.Document(), true, false)
	}
	g2 := NewEvGen(c.Rng, c09PlainOpts())
	for i := 0; i < c.Pick(45, 400); i++ {
		addEvs("events-plain", g2.Document(), true, true)
	}
	g3 := NewEvGen(c.Rng, c09GenOpts(false))
	for i := 0; i < c.Pick(25, 400); i++ {
		addEvs("events-all-kinds", g3.Document(), false, false)
	}
	for k, n := range g1.Kinds {
		c.Rep.Distribution["gen-kind/"+k] += n
	}
	for k, n := range g3.Kinds {
		c.Rep.Distribution["gen-kind/"+k] += n
	}
	for _, tv := range c09TypedValues(c) {
		for _, format := range []string{"cbe", "cte"} {
			var doc []byte
			var err error
			if format == "cte" {
				doc, err = ce.MarshalToCTEDocument(tv.Val, configuration.New())
				doc = c09TrimCTE(doc)
			} else {
				doc, err = ce.MarshalToCBEDocument(tv.Val, configuration.New())
			}
			if err != nil {
				c.Dist("marshal-error/" + format + "/" + tv.Label)
				continue
			}
			if len(doc) > c.Pick(260, 600) {
				c.Dist("document-too-long/" + format)
				continue
			}
			fwd, _ := c09Decode(format, doc)
			docs = append(docs, &c09Doc{Label: "marshaled/" + tv.Label, Fmt: format, Doc: doc, Tmpls: tv.Tmpls, Evs: fwd})
		}
	}

	for _, d := range docs {
		for _, tmpl := range d.Tmpls {
			var k *caseFile
			if d.Corr && tmpl == "nil" {
				k = cf
			}
			st.oracle(c, d, tmpl, k)
		}
	}

	// malformed streams: a cut document continued with bytes that do not belong there (container ends,
	// a stray value, or for CTE a random printable byte) must still make the entry point return;
	// whether an error is due is another property (the continuation may well be a valid document)
	nMal := 0
	for _, d := range docs {
		if nMal >= c.Pick(150, 2000) || len(d.Doc) < 4 {
			continue
		}
		k := 2 + c.Rng.Intn(len(d.Doc)-2)
		mal := append([]byte{}, d.Doc[:k]...)
		if d.Fmt == "cbe" {
			tails := [][]byte{{0x9b}, {0x9b, 0x9b, 0x9b}, {0x01, 0x9b}, {0x7d}, {0x9a}, {0x99, 0x9b}}
			mal = append(mal, tails[c.Rng.Intn(len(tails))]...)
		} else {
			tails := []string{"]", "}", ")", " 1 ]", "\"", " null", ">", "]]]"}
			mal = append(mal, tails[c.Rng.Intn(len(tails))]...)
		}
		nMal++
		o := c09Sweep(d.Fmt, "nil", mal, []int{len(mal)}, false, nil, nil)[len(mal)]
		c.Count(fmt.Sprintf("mal|%s|%x", d.Fmt, mal), true)
		switch {
		case o.Hang:
			c.Dist("malformed/" + d.Fmt + "/hang")
			md := &c09Doc{Label: "malformed", Fmt: d.Fmt, Doc: mal}
			c.Fail(Replay{Kind: "returns", Key: c09FailKey("hang", d.Fmt, "nil", "malformed"), Input: c09Input(md, "nil", len(mal)),
				Expect: "the call returns", Got: "no answer within " + c09ConfirmTimeout.String()})
		case o.Died != "" || o.Panic != "":
			c.Dist("malformed/" + d.Fmt + "/panic-or-died")
			md := &c09Doc{Label: "malformed", Fmt: d.Fmt, Doc: mal}
			c.Fail(Replay{Kind: "returns", Key: c09FailKey("panic", d.Fmt, "nil", "malformed"), Input: c09Input(md, "nil", len(mal)),
				Expect: "the call returns", Got: o.Died + o.Panic})
		case o.Err:
			c.Dist("malformed/" + d.Fmt + "/error")
		default:
			c.Dist("malformed/" + d.Fmt + "/accepted")
		}
	}
	c.Rep.Extra["hang_classes"] = len(st.hangKeys)
}

func replayC09(r *Replay) (bool, string) {
	defer c09Shutdown()
	if r.Kind == "returns" {
		doc, err := hex.DecodeString(r.Input["doc_hex"])
		if err != nil || c09Templates[r.Input["template"]] == nil {
			return false, "bad replay input"
		}
		o := c09Sweep(r.Input["format"], r.Input["template"], doc, []int{len(doc)}, false, nil, nil)[len(doc)]
		if o.Hang || o.Died != "" || o.Panic != "" {
			return false, fmt.Sprintf("%s document %x with template %s: the call does not return normally (hang=%v %s%s)", r.Input["format"], doc, r.Input["template"], o.Hang, o.Died, o.Panic)
		}
		return true, fmt.Sprintf("%s document %x with template %s: the call returns (error=%v)", r.Input["format"], doc, r.Input["template"], o.Err)
	}
	if r.Kind != "cut" {
		return false, "unknown replay kind " + r.Kind
	}
	doc, err := hex.DecodeString(r.Input["doc_hex"])
	k, err2 := strconv.Atoi(r.Input["k"])
	format, tmpl := r.Input["format"], r.Input["template"]
	if err != nil || err2 != nil || k <= 0 || k >= len(doc) || c09Templates[tmpl] == nil {
		return false, "bad replay input"
	}
	n := len(doc)
	full := c09Sweep(format, tmpl, doc, []int{n}, false, nil, nil)[n]
	if full.Hang || full.Died != "" || full.Panic != "" || full.Err {
		return true, "the whole document is not accepted any more; nothing to compare"
	}
	o := c09Sweep(format, tmpl, doc, []int{k}, false, nil, nil)[k]
	kind, detail, expect, got := c09Judge(full.V, o)
	if kind == "" {
		return true, fmt.Sprintf("%s doc[:%d] with template %s: error returned, partial value %s is a prefix of %s", format, k, tmpl, c09Clip(o.V.canon()), c09Clip(full.V.canon()))
	}
	return false, fmt.Sprintf("%s doc[:%d] of %x with template %s: %s %s: required %s, got %s", format, k, doc, tmpl, kind, detail, expect, got)
}
