package main

// C25 — every CTE array-format setting produces readable CTE.
//
// For each of the eleven numeric array kinds and each of the eight settings of
// configuration.Encoder.CTE.DefaultNumericFormats.Array.<Kind> (decimal,
// binary, octal, hexadecimal, each optionally or-ed with the zero-filled flag)
// an array is encoded with ce.NewCTEEncoder (one-shot OnArray and the chunked
// OnArrayBegin/OnArrayChunk/OnArrayData form) and decoded again with
// ce.NewCTEDecoder behind ce.NewRules into a Recorder; the elements must come
// back bit-exactly. NaN elements are compared by kind only (quiet/signalling):
// CTE text has exactly the two spellings "nan" and "snan", so no setting can
// carry a payload or a sign. Besides boundary, special and random elements every
// float kind gets an exponent sweep (all binary exponents x mantissa shapes, see
// c25ExponentSweep). The Coq model (CE.Model.CteArrFmt) is evaluated on
// the same inputs: encoder text, decoder result, and the strconv facts the
// decimal-float theorem assumes.

import (
	"bytes"
	"encoding/binary"
	"encoding/hex"
	"fmt"
	"go/ast"
	"go/parser"
	"go/token"
	"math"
	"sort"
	"strconv"
	"strings"

	"github.com/kstenerud/go-concise-encoding/ce"
	"github.com/kstenerud/go-concise-encoding/ce/events"
	"github.com/kstenerud/go-concise-encoding/configuration"
	cteparser "github.com/kstenerud/go-concise-encoding/cte/parser"
)

func init() {
	register("C25", runC25, replayC25)
	generators = append(generators, genCteTables)
}

// ---------------------------------------------------------------------------
// Gen/CteTables.v: the numeric-format constants of package configuration, the
// fmt-verb and header tables of cte/encoder_array.go (arrayFormats*,
// arrayHeaders*) and the ARRAY_TYPE_* token names of the generated CTE lexer.
//
// The constants and the token names are obtained by executing the code. The
// tables are unexported variables of package cte; they are read from the source
// of the current tree (composite literals keyed by configuration constants),
// the keys being evaluated with the constants of the compiled configuration
// package. /verif/hooks_pending/cte/verif_hooks.go exports the same tables by
// execution; once it is applied cteTablesFromSource can be replaced by it.

const cteEncoderArraySrc = "/repo/cte/encoder_array.go"

var c25FmtConsts = map[string]configuration.CTENumericFormat{
	"CTEEncodingFormatDecimal":               configuration.CTEEncodingFormatDecimal,
	"CTEEncodingFormatFlagZeroFilled":        configuration.CTEEncodingFormatFlagZeroFilled,
	"CTEEncodingFormatBinary":                configuration.CTEEncodingFormatBinary,
	"CTEEncodingFormatBinaryZeroFilled":      configuration.CTEEncodingFormatBinaryZeroFilled,
	"CTEEncodingFormatOctal":                 configuration.CTEEncodingFormatOctal,
	"CTEEncodingFormatOctalZeroFilled":       configuration.CTEEncodingFormatOctalZeroFilled,
	"CTEEncodingFormatHexadecimal":           configuration.CTEEncodingFormatHexadecimal,
	"CTEEncodingFormatHexadecimalZeroFilled": configuration.CTEEncodingFormatHexadecimalZeroFilled,
}

var c25TableNames = []string{
	"arrayFormatsGeneral", "arrayFormats8", "arrayFormats16", "arrayFormats32", "arrayFormats64",
	"arrayHeadersUint8", "arrayHeadersUint16", "arrayHeadersUint32", "arrayHeadersUint64",
	"arrayHeadersInt8", "arrayHeadersInt16", "arrayHeadersInt32", "arrayHeadersInt64",
	"arrayHeadersFloat16", "arrayHeadersFloat32", "arrayHeadersFloat64",
}

// cteTablesFromSource returns, for every table name, the []string the
// composite literal denotes (gaps between keyed indices are empty strings,
// exactly as Go fills them).
func cteTablesFromSource() map[string][]string {
	fset := token.NewFileSet()
	f, err := parser.ParseFile(fset, cteEncoderArraySrc, nil, 0)
	if err != nil {
		panic(fmt.Errorf("genCteTables: %v", err))
	}
	out := map[string][]string{}
	for _, d := range f.Decls {
		gd, ok := d.(*ast.GenDecl)
		if !ok || gd.Tok != token.VAR {
			continue
		}
		for _, sp := range gd.Specs {
			vs := sp.(*ast.ValueSpec)
			if len(vs.Names) != 1 || len(vs.Values) != 1 {
				continue
			}
			name := vs.Names[0].Name
			if !strings.HasPrefix(name, "arrayFormats") && !strings.HasPrefix(name, "arrayHeaders") {
				continue
			}
			cl, ok := vs.Values[0].(*ast.CompositeLit)
			if !ok {
				panic("genCteTables: " + name + " is not a composite literal")
			}
			at, ok := cl.Type.(*ast.ArrayType)
			if !ok || at.Len != nil || fmt.Sprint(at.Elt) != "string" {
				panic("genCteTables: " + name + " is not a []string literal")
			}
			tbl := []string{}
			next := 0
			for _, el := range cl.Elts {
				val := el
				if kv, ok := el.(*ast.KeyValueExpr); ok {
					sel, ok := kv.Key.(*ast.SelectorExpr)
					if !ok || fmt.Sprint(sel.X) != "configuration" {
						panic("genCteTables: unexpected key in " + name)
					}
					c, ok := c25FmtConsts[sel.Sel.Name]
					if !ok {
						panic("genCteTables: unknown configuration constant " + sel.Sel.Name)
					}
					next = int(c)
					val = kv.Value
				}
				lit, ok := val.(*ast.BasicLit)
				if !ok || lit.Kind != token.STRING {
					panic("genCteTables: non-literal value in " + name)
				}
				s, err := strconv.Unquote(lit.Value)
				if err != nil {
					panic(err)
				}
				for len(tbl) <= next {
					tbl = append(tbl, "")
				}
				tbl[next] = s
				next++
			}
			out[name] = tbl
		}
	}
	for _, n := range c25TableNames {
		if _, ok := out[n]; !ok {
			panic("genCteTables: table " + n + " not found in " + cteEncoderArraySrc)
		}
	}
	if len(out) != len(c25TableNames) {
		panic("genCteTables: unexpected additional arrayFormats*/arrayHeaders* table")
	}
	return out
}

// lexer token names ARRAY_TYPE_<I|U|F><bits>[B|O|X] of the generated lexer
func cteLexerArrayTokens() []string {
	lx := cteparser.NewCTELexer(nil)
	res := []string{}
	for _, n := range lx.SymbolicNames {
		if strings.HasPrefix(n, "ARRAY_TYPE_") {
			res = append(res, strings.TrimPrefix(n, "ARRAY_TYPE_"))
		}
	}
	sort.Strings(res)
	return res
}

// a byte string as a Coq term: a string literal when printable ASCII (fast to
// parse), a list of numbers otherwise
func c25Str(s string) string {
	for i := 0; i < len(s); i++ {
		if s[i] < 32 || s[i] > 126 {
			return cBytes([]byte(s))
		}
	}
	return "(s2b \"" + strings.ReplaceAll(s, "\"", "\"\"") + "\")"
}

// array data as a Coq term: length and little-endian value (long data in
// pieces of 16 bytes: le_encode divides the whole number once per byte)
func c25DataTerm(b []byte) string {
	if len(b) == 0 {
		return "[]"
	}
	if len(b) > 16 {
		parts := []string{}
		for i := 0; i < len(b); i += 16 {
			j := i + 16
			if j > len(b) {
				j = len(b)
			}
			parts = append(parts, c25DataTerm(b[i:j]))
		}
		return "(" + strings.Join(parts, " ++ ") + ")"
	}
	r := make([]byte, len(b))
	for i := range b {
		r[len(b)-1-i] = b[i]
	}
	return fmt.Sprintf("(le_encode %d%%nat 0x%s)", len(b), hex.EncodeToString(r))
}

func genCteTables(dir string) {
	g := newGen("CteTables.v")
	names := []string{}
	for k := range c25FmtConsts {
		names = append(names, k)
	}
	sort.Strings(names)
	for _, k := range names {
		g.def("cfg_"+k, "N", cN(uint64(c25FmtConsts[k])))
	}
	tables := cteTablesFromSource()
	for _, n := range c25TableNames {
		items := []string{}
		for i, s := range tables[n] {
			items = append(items, fmt.Sprintf("(* %d %q *) %s", i, s, cBytes([]byte(s))))
		}
		g.def(n, "list (list N)", "["+strings.Join(items, ";\n   ")+"]")
	}
	toks := []string{}
	for _, t := range cteLexerArrayTokens() {
		toks = append(toks, fmt.Sprintf("(* %s *) %s", t, cBytes([]byte(t))))
	}
	g.def("lexer_array_type_tokens", "list (list N)", "["+strings.Join(toks, ";\n   ")+"]")
	g.write(dir)
}

// ---------------------------------------------------------------------------
// kinds and settings

type c25Kind struct {
	name  string // Coq constructor
	label string
	at    events.ArrayType
	w     int    // bytes per element
	class string // uint int float
	set   func(a *configuration.CTEEncoderDefaultArrayFormats, f configuration.CTENumericFormat)
}

var c25Kinds = []*c25Kind{
	{"KU8", "uint8", events.ArrayTypeUint8, 1, "uint", func(a *configuration.CTEEncoderDefaultArrayFormats, f configuration.CTENumericFormat) { a.Uint8 = f }},
	{"KU16", "uint16", events.ArrayTypeUint16, 2, "uint", func(a *configuration.CTEEncoderDefaultArrayFormats, f configuration.CTENumericFormat) { a.Uint16 = f }},
	{"KU32", "uint32", events.ArrayTypeUint32, 4, "uint", func(a *configuration.CTEEncoderDefaultArrayFormats, f configuration.CTENumericFormat) { a.Uint32 = f }},
	{"KU64", "uint64", events.ArrayTypeUint64, 8, "uint", func(a *configuration.CTEEncoderDefaultArrayFormats, f configuration.CTENumericFormat) { a.Uint64 = f }},
	{"KI8", "int8", events.ArrayTypeInt8, 1, "int", func(a *configuration.CTEEncoderDefaultArrayFormats, f configuration.CTENumericFormat) { a.Int8 = f }},
	{"KI16", "int16", events.ArrayTypeInt16, 2, "int", func(a *configuration.CTEEncoderDefaultArrayFormats, f configuration.CTENumericFormat) { a.Int16 = f }},
	{"KI32", "int32", events.ArrayTypeInt32, 4, "int", func(a *configuration.CTEEncoderDefaultArrayFormats, f configuration.CTENumericFormat) { a.Int32 = f }},
	{"KI64", "int64", events.ArrayTypeInt64, 8, "int", func(a *configuration.CTEEncoderDefaultArrayFormats, f configuration.CTENumericFormat) { a.Int64 = f }},
	{"KF16", "float16", events.ArrayTypeFloat16, 2, "float", func(a *configuration.CTEEncoderDefaultArrayFormats, f configuration.CTENumericFormat) { a.Float16 = f }},
	{"KF32", "float32", events.ArrayTypeFloat32, 4, "float", func(a *configuration.CTEEncoderDefaultArrayFormats, f configuration.CTENumericFormat) { a.Float32 = f }},
	{"KF64", "float64", events.ArrayTypeFloat64, 8, "float", func(a *configuration.CTEEncoderDefaultArrayFormats, f configuration.CTENumericFormat) { a.Float64 = f }},
}

func c25KindByLabel(l string) *c25Kind {
	for _, k := range c25Kinds {
		if k.label == l {
			return k
		}
	}
	return nil
}

func c25KindByType(t events.ArrayType) *c25Kind {
	for _, k := range c25Kinds {
		if k.at == t {
			return k
		}
	}
	return nil
}

type c25Format struct {
	f    configuration.CTENumericFormat
	name string
}

// the eight settings of the property: four bases, each optionally zero-filled
var c25Formats = []c25Format{
	{configuration.CTEEncodingFormatDecimal, "decimal"},
	{configuration.CTEEncodingFormatDecimal | configuration.CTEEncodingFormatFlagZeroFilled, "decimal-zero-filled"},
	{configuration.CTEEncodingFormatBinary, "binary"},
	{configuration.CTEEncodingFormatBinary | configuration.CTEEncodingFormatFlagZeroFilled, "binary-zero-filled"},
	{configuration.CTEEncodingFormatOctal, "octal"},
	{configuration.CTEEncodingFormatOctal | configuration.CTEEncodingFormatFlagZeroFilled, "octal-zero-filled"},
	{configuration.CTEEncodingFormatHexadecimal, "hexadecimal"},
	{configuration.CTEEncodingFormatHexadecimal | configuration.CTEEncodingFormatFlagZeroFilled, "hexadecimal-zero-filled"},
}

func c25FormatName(f configuration.CTENumericFormat) string {
	for _, x := range c25Formats {
		if x.f == f {
			return x.name
		}
	}
	return fmt.Sprintf("format-%d", f)
}

// failure class of a (kind, setting) pair: one key per root cause
func c25Key(k *c25Kind, f configuration.CTENumericFormat) string {
	name := c25FormatName(f)
	switch {
	case name == "decimal-zero-filled":
		return "C25/decimal-zero-filled" // the table slot of Decimal|ZeroFilled is empty for every kind
	case k.class == "float" && strings.HasPrefix(name, "binary"):
		return "C25/float-binary"
	case k.class == "float" && strings.HasPrefix(name, "octal"):
		return "C25/float-octal"
	case k.class == "float" && name == "hexadecimal-zero-filled":
		return "C25/float-hex-zero-filled"
	}
	return "C25/roundtrip/" + k.class + "/" + name
}

// ---------------------------------------------------------------------------
// element patterns

func c25Pats(k *c25Kind, data []byte) []uint64 {
	p := make([]uint64, 0, len(data)/k.w)
	for i := 0; i+k.w <= len(data); i += k.w {
		var b [8]byte
		copy(b[:], data[i:i+k.w])
		p = append(p, binary.LittleEndian.Uint64(b[:]))
	}
	return p
}

func c25Data(k *c25Kind, pats []uint64) []byte {
	d := make([]byte, 0, len(pats)*k.w)
	for _, p := range pats {
		var b [8]byte
		binary.LittleEndian.PutUint64(b[:], p)
		d = append(d, b[:k.w]...)
	}
	return d
}

// float64 bit pattern of a float element (exact widening), and whether it is a NaN / quiet
func c25Widen(k *c25Kind, p uint64) (bits uint64, isNan, quiet, finite bool) {
	switch k.w {
	case 2:
		p <<= 16
		fallthrough
	case 4:
		w := uint32(p)
		if w&0x7f800000 == 0x7f800000 && w&0x007fffff != 0 {
			return 0, true, w&0x00400000 != 0, false
		}
		v := float64(math.Float32frombits(w))
		return math.Float64bits(v), false, false, !math.IsInf(v, 0)
	}
	if p&0x7ff0000000000000 == 0x7ff0000000000000 && p&0x000fffffffffffff != 0 {
		return p, true, p&0x0008000000000000 != 0, false
	}
	return p, false, false, !math.IsInf(math.Float64frombits(p), 0)
}

// "the same elements": bit-exact, NaNs by kind (quiet/signalling) only
func c25SameElems(k *c25Kind, want, got []byte) bool {
	if len(want) != len(got) {
		return false
	}
	if k.class != "float" {
		return bytes.Equal(want, got)
	}
	a, b := c25Pats(k, want), c25Pats(k, got)
	for i := range a {
		_, n1, q1, _ := c25Widen(k, a[i])
		_, n2, q2, _ := c25Widen(k, b[i])
		if n1 || n2 {
			if n1 != n2 || q1 != q2 {
				return false
			}
			continue
		}
		if a[i] != b[i] {
			return false
		}
	}
	return true
}

func c25Boundary(k *c25Kind) []uint64 {
	bits := uint(k.w * 8)
	mask := ^uint64(0) >> (64 - bits)
	if k.class != "float" {
		top := uint64(1) << (bits - 1)
		return []uint64{0, 1, 2, 7, 8, 9, 10, 15, 16, 17, 99, 100, 127, 128, 255 & mask, top - 1, top, top + 1, mask - 1, mask, 0x5555555555555555 & mask, 0xaaaaaaaaaaaaaaaa & mask}
	}
	switch k.w {
	case 2: // bfloat16
		return []uint64{0, 0x8000, 0x3f80, 0xbf80, 0x3fc0, 0xc000, 0x0001, 0x8001, 0x007f, 0x0080, 0x7f7f, 0xff7f, 0x4049, 0x5000, 0x4b00, 0x5f00, 0xdf00, 0x5f80, 0x3dcc, 0x3380, 0x0040}
	case 4:
		f := func(v float32) uint64 { return uint64(math.Float32bits(v)) }
		return []uint64{0, 0x80000000, f(1), f(-1), f(1.5), f(-2), f(0.1), 1, 0x80000001, 0x007fffff, 0x00800000, f(math.MaxFloat32), f(-math.MaxFloat32),
			f(1e10), f(16777216), f(16777215), f(-3), f(255), f(-255.5), f(1e-7), f(9223372036854775808), f(-9223372036854775808), f(4611686018427387904), f(1e20), f(0.5), f(1.0 / 3)}
	}
	f := func(v float64) uint64 { return math.Float64bits(v) }
	return []uint64{0, 0x8000000000000000, f(1), f(-1), f(1.5), f(-2), f(0.1), 1, 0x8000000000000001, 0x000fffffffffffff, 0x0010000000000000, f(math.MaxFloat64), f(-math.MaxFloat64),
		f(1e10), f(9007199254740992), f(9007199254740993), f(-3), f(255), f(-255.5), f(1e-7), f(1e21), f(123456789), f(9223372036854775808), f(-9223372036854775808),
		f(9223372036854774784), f(-9223372036854774784), f(18446744073709551616), f(4611686018427387904), f(1e300), f(1e-300), f(0.5), f(1.0 / 3), f(100000), f(1000000), f(0.0001), f(0.00001)}
}

func c25Specials(k *c25Kind) []uint64 {
	switch k.w {
	case 2:
		return []uint64{0x7f80, 0xff80, 0x7fe0, 0x7fa0, 0x7fc0, 0x7fc1, 0x7f81, 0xffc0, 0xff81, 0x7fff, 0x7fbf}
	case 4:
		return []uint64{0x7f800000, 0xff800000, 0x7fe00000, 0x7fa00000, 0x7fc00000, 0x7fc00001, 0x7f800001, 0xffc00000, 0xff800001, 0x7fffffff, 0x7fbfffff}
	}
	return []uint64{0x7ff0000000000000, 0xfff0000000000000, 0x7ffc000000000000, 0x7ff4000000000000, 0x7ff8000000000000, 0x7ff8000000000001, 0x7ff0000000000001,
		0xfff8000000000000, 0xfff0000000000001, 0x7fffffffffffffff, 0x7ff7ffffffffffff}
}

func (c *Ctx) c25RandPat(k *c25Kind) uint64 {
	bits := uint(k.w * 8)
	mask := ^uint64(0) >> (64 - bits)
	r := c.Rng.Uint64()
	if k.class != "float" {
		switch c.Rng.Intn(4) {
		case 0: // small magnitude, either sign
			v := r >> (64 - uint(c.Rng.Intn(int(bits))+1))
			if c.Rng.Intn(2) == 0 {
				v = -v
			}
			return v & mask
		case 1: // near a power of two
			return ((uint64(1) << uint(c.Rng.Intn(int(bits)))) + uint64(c.Rng.Intn(3)) - 1) & mask
		}
		return r & mask
	}
	switch c.Rng.Intn(6) {
	case 0: // integer-valued
		v := float64(int64(r >> uint(c.Rng.Intn(64))))
		if c.Rng.Intn(2) == 0 {
			v = -v
		}
		return c25FromFloat(k, v)
	case 1: // subnormal
		sign := (r >> 63) << (bits - 1)
		mant := map[int]uint{2: 7, 4: 23, 8: 52}[k.w]
		return sign | (r>>1)&(uint64(1)<<mant-1)
	case 2: // short fraction
		return c25FromFloat(k, float64(int64(r>>40)-(1<<23))/float64(int64(1)<<uint(c.Rng.Intn(30))))
	}
	return r & mask // any pattern (NaNs and infinities included)
}

// nearest element of the kind below-or-equal in magnitude (truncation keeps the value representable)
func c25FromFloat(k *c25Kind, v float64) uint64 {
	switch k.w {
	case 2:
		return uint64(math.Float32bits(float32(v)) >> 16)
	case 4:
		return uint64(math.Float32bits(float32(v)))
	}
	return math.Float64bits(v)
}

type c25Set struct {
	name  string
	pats  []uint64
	sweep bool // member of the exponent sweep (see c25ExponentSweep)
}

// ---------------------------------------------------------------------------
// exponent sweep: every binary exponent a float kind has, crossed with mantissa
// shapes.
//
// The hexadecimal element writer (Writer.WriteFloatHexNoPrefix) edits the text
// strconv produces ("0x1.8p+100": prefix cut, sign moved, a zero exponent
// "p+00" dropped, integer values below 2^63 written as integers), and the other
// settings go through fmt verbs whose output changes shape with the magnitude
// (exponent sign, one to four exponent digits, e-notation thresholds). Which
// branch an element takes is decided by its exponent and by whether it has
// fraction bits, so the sweep enumerates ALL exponents of the kind (normal:
// every biased exponent 1..max-1; subnormal: every position of the leading
// mantissa bit) and for each of them one element per mantissa shape:
//   pow2   1.0 x 2^e              (integer path for 0 <= e <= 62, "1p+NN" otherwise)
//   short  1.1/1.01/1.11/1.001... (one hex digit of fraction)
//   ulp    1 + one unit in the last place (longest fraction)
//   ones   all fraction bits set
//   random random fraction bits
// with a random sign (thorough: both signs). Elements are grouped in exponent
// order into arrays of c25SweepArrayLen elements.

const c25SweepArrayLen = 48

var c25SweepShapes = []string{"pow2", "short", "ulp", "ones", "random"}

// mantissa (fraction) bits and largest biased exponent of a finite element
func c25FloatLayout(k *c25Kind) (mant uint, maxBiased uint64) {
	switch k.w {
	case 2:
		return 7, 254
	case 4:
		return 23, 254
	}
	return 52, 2046
}

// fraction of n bits (the bits below the leading one) for a shape
func (c *Ctx) c25ShapeFrac(shape string, n uint) uint64 {
	if n == 0 {
		return 0
	}
	all := uint64(1)<<n - 1
	switch shape {
	case "short":
		top := uint(3)
		if n < top {
			top = n
		}
		return (1 + uint64(c.Rng.Intn(1<<top-1))) << (n - top)
	case "ulp":
		return 1
	case "ones":
		return all
	case "random":
		return c.Rng.Uint64() & all
	}
	return 0 // pow2
}

// all elements of one shape in ascending order of magnitude: subnormals by
// position of the leading bit, then every normal exponent
func (c *Ctx) c25SweepPats(k *c25Kind, shape string) []uint64 {
	mant, maxBiased := c25FloatLayout(k)
	pats := []uint64{}
	for j := uint(0); j < mant; j++ {
		pats = append(pats, uint64(1)<<j|c.c25ShapeFrac(shape, j))
	}
	for be := uint64(1); be <= maxBiased; be++ {
		pats = append(pats, be<<mant|c.c25ShapeFrac(shape, mant))
	}
	return pats
}

func (c *Ctx) c25ExponentSweep(k *c25Kind) []c25Set {
	if k.class != "float" {
		return nil
	}
	signBit := uint64(1) << uint(k.w*8-1)
	sets := []c25Set{}
	for _, shape := range c25SweepShapes {
		pats := c.c25SweepPats(k, shape)
		variants := [][]uint64{make([]uint64, len(pats))}
		for i, p := range pats {
			if c.Rng.Intn(2) == 0 {
				p |= signBit
			}
			variants[0][i] = p
		}
		if c.Thorough() {
			other := make([]uint64, len(pats))
			for i, p := range variants[0] {
				other[i] = p ^ signBit
			}
			variants = append(variants, other)
		}
		for _, v := range variants {
			for i := 0; i < len(v); i += c25SweepArrayLen {
				j := i + c25SweepArrayLen
				if j > len(v) {
					j = len(v)
				}
				sets = append(sets, c25Set{name: "exponent-sweep/" + shape, pats: v[i:j], sweep: true})
			}
		}
	}
	return sets
}

func (c *Ctx) c25Sets(k *c25Kind) []c25Set {
	sets := []c25Set{{name: "boundary", pats: c25Boundary(k)}, {name: "empty"}}
	if k.class == "float" {
		sets = append(sets, c25Set{name: "special", pats: c25Specials(k)})
		neg := []uint64{}
		for _, p := range c25Boundary(k) {
			neg = append(neg, p^(uint64(1)<<uint(k.w*8-1)))
		}
		sets = append(sets, c25Set{name: "negated", pats: neg})
	} else {
		sets = append(sets, c25Set{name: "single", pats: []uint64{c.c25RandPat(k)}})
	}
	for i := 0; i < c.Pick(3, 40); i++ {
		n := 1 + c.Rng.Intn(c.Pick(6, 24))
		p := make([]uint64, n)
		for j := range p {
			p[j] = c.c25RandPat(k)
		}
		sets = append(sets, c25Set{name: "random", pats: p})
	}
	return append(sets, c.c25ExponentSweep(k)...)
}

// ---------------------------------------------------------------------------
// implementation runs

func c25Config(k *c25Kind, f configuration.CTENumericFormat) *configuration.Configuration {
	cfg := configuration.New()
	k.set(&cfg.Encoder.CTE.DefaultNumericFormats.Array, f)
	return cfg
}

// chunk plan: per chunk the sizes of the data pieces handed to OnArrayData
type c25Plan [][]int

func (p c25Plan) String() string {
	cs := []string{}
	for _, ch := range p {
		ps := []string{}
		for _, n := range ch {
			ps = append(ps, strconv.Itoa(n))
		}
		cs = append(cs, strings.Join(ps, "."))
	}
	return strings.Join(cs, ";")
}

func c25ParsePlan(s string) (c25Plan, bool) {
	if s == "" {
		return nil, true
	}
	p := c25Plan{}
	for _, cs := range strings.Split(s, ";") {
		ch := []int{}
		if cs != "" {
			for _, ps := range strings.Split(cs, ".") {
				n, err := strconv.Atoi(ps)
				if err != nil || n < 0 {
					return nil, false
				}
				ch = append(ch, n)
			}
		}
		p = append(p, ch)
	}
	return p, true
}

func (c *Ctx) c25RandPlan(k *c25Kind, nElems int) c25Plan {
	plan := c25Plan{}
	left := nElems
	for left > 0 {
		n := 1 + c.Rng.Intn(left)
		if c.Rng.Intn(3) == 0 {
			n = left
		}
		left -= n
		bytesLeft := n * k.w
		ch := []int{}
		for bytesLeft > 0 {
			m := 1 + c.Rng.Intn(bytesLeft)
			if c.Rng.Intn(3) == 0 {
				m = bytesLeft
			}
			ch = append(ch, m)
			bytesLeft -= m
		}
		plan = append(plan, ch)
	}
	if len(plan) == 0 {
		plan = c25Plan{{}} // the empty array: one final chunk of length 0
	}
	return plan
}

// c25Encode returns the text written after the document header, or panicked.
// plan == nil: one OnArray event; otherwise the chunked form.
func c25Encode(k *c25Kind, f configuration.CTENumericFormat, data []byte, plan c25Plan) (text string, panicked bool, detail string) {
	defer func() {
		if r := recover(); r != nil {
			panicked = true
			detail = fmt.Sprint(r)
		}
	}()
	cfg := c25Config(k, f)
	e := ce.NewCTEEncoder(cfg)
	var buf bytes.Buffer
	e.PrepareToEncode(&buf)
	e.OnBeginDocument()
	e.OnVersion(0)
	if plan == nil {
		e.OnArray(k.at, uint64(len(data)/k.w), cp(data))
	} else {
		e.OnArrayBegin(k.at)
		off := 0
		for i, ch := range plan {
			total := 0
			for _, n := range ch {
				total += n
			}
			e.OnArrayChunk(uint64(total/k.w), i < len(plan)-1)
			for _, n := range ch {
				e.OnArrayData(cp(data[off : off+n]))
				off += n
			}
		}
	}
	e.OnEndDocument()
	out := buf.String()
	if !strings.HasPrefix(out, "c0\n") {
		return out, false, "no document header"
	}
	return out[3:], false, ""
}

// c25Decode decodes "c0\n"+text; ok when exactly one typed numeric array came out.
func c25Decode(text string) (k *c25Kind, data []byte, ok bool, detail string) {
	cfg := configuration.New()
	rec := &Recorder{}
	rules := ce.NewRules(rec, cfg)
	var err error
	func() {
		defer func() {
			if r := recover(); r != nil {
				err = fmt.Errorf("panic: %v", r)
			}
		}()
		err = ce.NewCTEDecoder(cfg).DecodeDocument([]byte("c0\n"+text), rules)
	}()
	if err != nil {
		return nil, nil, false, "decode error"
	}
	evs := rec.Evs
	if len(evs) != 4 || evs[0].K != "bd" || evs[1].K != "v" || evs[2].K != "a" || evs[3].K != "ed" {
		return nil, nil, false, "decoded, but not as one array: " + evsString(evs)
	}
	k = c25KindByType(evs[2].A)
	if k == nil || uint64(len(evs[2].Data)) != evs[2].N*uint64(k.w) {
		return nil, nil, false, "decoded, but not as one numeric array: " + evsString(evs)
	}
	return k, evs[2].Data, true, ""
}

// the property on one input; got describes what happened instead
func c25Oracle(k *c25Kind, f configuration.CTENumericFormat, data []byte, plan c25Plan) (ok bool, text string, got string) {
	text, panicked, detail := c25Encode(k, f, data, plan)
	if panicked {
		return false, "", "encoder panicked"
	}
	if detail != "" {
		return false, text, detail
	}
	k2, d2, dok, ddetail := c25Decode(text)
	if !dok {
		if strings.HasPrefix(ddetail, "decode error") {
			return false, text, "decode error on " + strconv.Quote(c25Clip(text))
		}
		return false, text, ddetail
	}
	if k2 != k {
		return false, text, "decoded as " + k2.label
	}
	if !c25SameElems(k, data, d2) {
		return false, text, "elements " + hex.EncodeToString(d2) + " from " + strconv.Quote(c25Clip(text))
	}
	return true, text, "same elements"
}

func c25Clip(s string) string {
	if len(s) > 160 {
		return s[:160] + "…"
	}
	return s
}

// ---------------------------------------------------------------------------
// Coq terms

func c25Outcome(panicked bool, ok bool, term string) string {
	switch {
	case panicked:
		return "Panic"
	case !ok:
		return "Err"
	}
	return "(Ok " + term + ")"
}

// strconv 'g' table for the finite float elements of an array
func c25GTab(k *c25Kind, data []byte) string {
	if k.class != "float" {
		return "[]"
	}
	seen := map[uint64]bool{}
	items := []string{}
	for _, p := range c25Pats(k, data) {
		b, isNan, _, finite := c25Widen(k, p)
		if isNan || !finite || seen[b] {
			continue
		}
		seen[b] = true
		items = append(items, cPair(cN(b), c25Str(strconv.FormatFloat(math.Float64frombits(b), 'g', -1, 64))))
	}
	return cList(items)
}

// runs of an array text (after the first '['), as the lexer separates them
func c25Runs(text string) []string {
	i := strings.IndexByte(text, '[')
	if i < 0 {
		return nil
	}
	body := text[i+1:]
	if j := strings.IndexByte(body, ']'); j >= 0 {
		body = body[:j]
	}
	return strings.FieldsFunc(body, func(r rune) bool { return r == ' ' || r == '\t' || r == '\n' || r == '\r' })
}

// strconv.ParseFloat table for the element texts of an array text
func c25PTab(text string) string {
	if lt := strings.ToLower(text); strings.HasPrefix(lt, "@f16x[") || strings.HasPrefix(lt, "@f32x[") || strings.HasPrefix(lt, "@f64x[") {
		// hexadecimal float array: parsed by the decoder's own hex float reader,
		// which the model has concretely (strconv.ParseFloat is not involved)
		return "[]"
	}
	seen := map[string]bool{}
	items := []string{}
	for _, run := range c25Runs(text) {
		s := strings.ReplaceAll(strings.TrimPrefix(run, "-"), "_", "")
		for _, bits := range []int{32, 64} {
			key := fmt.Sprint(bits, s)
			if seen[key] || len(items) > 400 {
				continue
			}
			seen[key] = true
			v, err := strconv.ParseFloat(s, bits)
			res := "None"
			if err == nil {
				if bits == 32 {
					res = cSome(cN(uint64(math.Float32bits(float32(v)))))
				} else {
					res = cSome(cN(math.Float64bits(v)))
				}
			}
			items = append(items, cTuple(cNi(bits), c25Str(s), res))
		}
	}
	return cList(items)
}

func (c *Ctx) c25AddEnc(cf *caseFile, k *c25Kind, f configuration.CTENumericFormat, data []byte, text string, panicked bool, how string) {
	gtab := c25GTab(k, data)
	if f == configuration.CTEEncodingFormatHexadecimal {
		// float elements go through WriteFloatHexNoPrefix, which the model has
		// concretely (no strconv 'g' text involved)
		gtab = "[]"
	}
	cf.Add(cApp("EncCase", k.name, cNi(int(f)), c25DataTerm(data), gtab, c25Outcome(panicked, true, c25Str(text))),
		fmt.Sprintf("encode %s %s %s data=%s -> %q panic=%v", how, k.label, c25FormatName(f), hex.EncodeToString(data), c25Clip(text), panicked))
}

func (c *Ctx) c25AddDec(cf *caseFile, text string) (k *c25Kind, data []byte, ok bool) {
	k, data, ok, detail := c25Decode(text)
	term := "Err"
	if ok {
		term = "(Ok " + cPair(k.name, c25DataTerm(data)) + ")"
	}
	cf.Add(cApp("DecCase", c25Str(text), c25PTab(text), term), fmt.Sprintf("decode %q -> ok=%v %s %s", c25Clip(text), ok, hex.EncodeToString(data), detail))
	if !ok && !strings.HasPrefix(detail, "decode error") {
		c.Dist("decode/accepted-as-something-else")
	}
	return
}

// ---------------------------------------------------------------------------

func runC25(c *Ctx) {
	c.Rep.Rule = "11 numeric array kinds x 8 format settings (decimal, binary, octal, hexadecimal, each optionally zero-filled) x element sets " +
		"(empty; boundary values; for floats: infinities and quiet/signalling/negative/payload NaNs, and every boundary value negated; random sets mixing small, " +
		"near-power-of-two, integer-valued, subnormal, short-fraction and arbitrary bit patterns; for floats an exponent sweep: every binary exponent of the kind, normal and subnormal, " +
		"x mantissa shapes power-of-two / one-hex-digit fraction / one ulp / all ones / random, random sign, in arrays of 48), each encoded one-shot and in the chunked form with random chunk/data splits; " +
		"an evaluation is non-trivial when the array is non-empty; distinct = distinct (kind, setting, data, chunk plan); " +
		"plus decoder-only array texts (mutated spellings, prefixes, underscores, white space, range and rounding boundaries) for the model correspondence"
	cf := c.Cases("ctearrfmt", "CE.Model.CteArrFmt", "ctearrfmt_case", "ctearrfmt_case_ok")
	cf.preamble = "Import String.StringSyntax. Open Scope string_scope. Open Scope N_scope."

	// the exponent sweep has its own case files: its arrays are long, so fewer per file
	cfSweep := c.Cases("ctearrfmtsweep", "CE.Model.CteArrFmt", "ctearrfmt_case", "ctearrfmt_case_ok")
	cfSweep.preamble = cf.preamble
	cfSweep.perFile = 60

	for _, k := range c25Kinds {
		sets := c.c25Sets(k)
		for _, fm := range c25Formats {
			for si, set := range sets {
				data := c25Data(k, set.pats)
				for _, chunked := range []bool{false, true} {
					var plan c25Plan
					how := "one-shot"
					if chunked {
						plan = c.c25RandPlan(k, len(set.pats))
						how = "chunked[" + plan.String() + "]"
					}
					ok, text, got := c25Oracle(k, fm.f, data, plan)
					c.Count(fmt.Sprintf("%s|%d|%x|%s", k.label, fm.f, data, plan.String()), len(data) > 0)
					c.Dist(fmt.Sprintf("%s/%s/%s", k.class, fm.name, map[bool]string{true: "ok", false: "FAIL"}[ok]))
					c.Dist("set/" + set.name)
					if si == 0 && !chunked && (fm.name == "hexadecimal" || fm.name == "binary-zero-filled") && (k.label == "int16" || k.label == "float32") {
						c.Sample(map[string]string{"kind": k.label, "format": fm.name, "data_hex": hex.EncodeToString(data), "text": c25Clip(text), "result": got})
					}
					if !ok {
						c.Fail(Replay{Kind: "roundtrip", Key: c25Key(k, fm.f),
							Input:  map[string]string{"kind": k.label, "format": strconv.Itoa(int(fm.f)), "data_hex": hex.EncodeToString(data), "plan": plan.String(), "chunked": strconv.FormatBool(chunked)},
							Expect: "decodes to the same " + k.label + " elements " + hex.EncodeToString(data), Got: got})
					}
					if set.sweep {
						// The oracle above ran on every array of the sweep under every setting. The
						// model correspondence (one-shot text and its decoding) is taken on a random
						// sample of the arrays in the quick tier (parsing the long texts dominates the
						// cost of a case file) and on all of them in the thorough tier: under the
						// hexadecimal setting (element writer and reader are concrete in the model)
						// and, less often, under the decimal setting (strconv tables).
						c.Dist(fmt.Sprintf("exponent-sweep/%s/%s/%s", k.label, fm.name, map[bool]string{true: "ok", false: "FAIL"}[ok]))
						oneIn := 0
						switch fm.f {
						case configuration.CTEEncodingFormatHexadecimal:
							oneIn = c.Pick(map[int]int{2: 2, 4: 2, 8: 6}[k.w], 1)
						case configuration.CTEEncodingFormatDecimal:
							oneIn = c.Pick(map[int]int{2: 6, 4: 6, 8: 18}[k.w], 2)
						}
						if !chunked && oneIn > 0 && c.Rng.Intn(oneIn) == 0 {
							c.Dist("exponent-sweep/compared-with-model/" + fm.name)
							txt, panicked, _ := c25Encode(k, fm.f, data, nil)
							c.c25AddEnc(cfSweep, k, fm.f, data, txt, panicked, how)
							if !panicked {
								c.c25AddDec(cfSweep, txt)
							}
						}
						continue
					}
					// correspondence: encoder text (both forms), decoder result on that text (once)
					txt, panicked, _ := c25Encode(k, fm.f, data, plan)
					if !chunked || si%2 == 0 {
						c.c25AddEnc(cf, k, fm.f, data, txt, panicked, how)
					}
					if !chunked && !panicked {
						c.c25AddDec(cf, txt)
					}
				}
			}
		}
		// the strconv facts assumed for decimal float arrays, on the finite elements used
		if k.class == "float" {
			seen := map[uint64]bool{}
			n := 0
			for _, set := range sets {
				for _, p := range set.pats {
					b, isNan, _, finite := c25Widen(k, p)
					if isNan || !finite || seen[p] || n >= c.Pick(60, 400) {
						continue
					}
					seen[p] = true
					n++
					g := strconv.FormatFloat(math.Float64frombits(b), 'g', -1, 64)
					bits := 64
					if k.w < 8 {
						bits = 32
					}
					v, err := strconv.ParseFloat(strings.TrimPrefix(g, "-"), bits)
					res := "None"
					if err == nil {
						if bits == 32 {
							res = cSome(cN(uint64(math.Float32bits(float32(v)))))
						} else {
							res = cSome(cN(math.Float64bits(v)))
						}
					}
					cf.Add(cApp("StrconvCase", k.name, cN(p), c25Str(g), res), fmt.Sprintf("strconv %s %#x -> %s", k.label, p, g))
					c.Dist("strconv-sample/" + k.label)
				}
			}
		}
	}

	// decoder-only texts
	for _, t := range c.c25DecoderTexts() {
		_, _, ok := c.c25AddDec(cf, t)
		c.Dist(fmt.Sprintf("decoder-text/ok=%v", ok))
	}
}

// array texts that no encoder setting produces: other spellings the lexer
// allows, and texts it must reject
func (c *Ctx) c25DecoderTexts() []string {
	ts := []string{
		"@u8[]", "@u8[ ]", "@U8X[FF 0a]", "@u8[0 017 0x1f 0b11 0o17 1_0 1__0 0x_f 08]", "@u8[256]", "@u8[255 ]", "@i8[010 -0017 08 09 00 -00 0x10 0_10]", "@u32[0008 00_1 0_0 000 0010]", "@i8[0_10 00_8 0__1 -0_0_7 0_ 0_x1]", "@i8[0_10 00_8 0__1 -0_0_7]", "@u8[0_8 0_1_0 00__255]", "@u8[0_256]", "@u8[0_8 0_1_0 00__255 0_256]", "@u8[0_]", "@u8[0_x1]", "@i16[-0_0]", "@u8[0377 0255]", "@u8[0256]", "@i16[-032768 +05]", "@u8[00x1]", "@i8[0b010 0o010 -0x010]", "@u8[ 1  2\t3\n4\r\n5 ]", "@u8[1", "@u8[1]]",
		"@u8[-1]", "@u8[+1]", "@u8x[0x1]", "@u8x[1_0]", "@u8x[fg]", "@u8x[100]", "@u8b[2]", "@u8b[11111111 100000000]", "@u8o[377 400 8]", "@u8[1_]", "@u8[_1]", "@u8[0x]", "@u8[0b]", "@u8[00 000 0_0]",
		"@u16[65535 65536 0xffff 0x1_0000]", "@u32x[ffffffff 100000000]", "@u64[18446744073709551615]", "@u64[18446744073709551616]", "@u64x[ffffffffffffffff 10000000000000000]",
		"@i8[-128 127 -0 0x7f -0x80 -0b1 -0o7 017 -017]", "@i8[128]", "@i8[-129]", "@i8x[-80 7F -0]", "@i8x[80]", "@i8b[-10000000]", "@i8b[10000000]", "@i8[--1]", "@i8[-]", "@i8[1-2]",
		"@i16o[-100000 77777]", "@i16o[100000]", "@i64[-9223372036854775808 9223372036854775807]", "@i64[9223372036854775808]", "@i64x[-8000000000000000 7fffffffffffffff]", "@i64x[-8000000000000001]",
		"@i9[1]", "@u8d[1]", "@f16b[]", "@f32o[1]", "@f64b[1p-1074]", "@f8[1]", "@f64X[1P1 -1.8P-1 A.8 NAN SNAN INF -INF Nan]", "@F32[1 1.5 1e3 1.5E-3 -0 0.0 0x1.8p1 0X1P-1 0x10]",
		"@f64x[1.8 1.8p0 1.8p+00 1.8p-00 0 -0 0.0 -0.0p5 00.1 1_0 1.0_8p1_0]", "@f64x[0x1]", "@f64x[1.]", "@f64x[.8]", "@f64x[1p]", "@f64x[1p+]", "@f64x[1e5]", "@f64x[-nan]", "@f64x[+1]",
		"@f64x[1p1023 1.fffffffffffffp1023]", "@f64x[1p1024]", "@f64x[1.fffffffffffff8p1023]", "@f64x[1.fffffffffffff7p1023]", "@f64x[1p-1074]", "@f64x[1p-1075]", "@f64x[1.8p-1074 1.0000000000001p-1075 0.8p-1073]",
		"@f64x[1.00000000000008 1.00000000000018 1.000000000000080000000000001 1.00000000000007ffffffffffff]", "@f64x[123456789abcdef01 1234567890abcdef12345]", "@f64x[1p99999]", "@f64x[1p-99999]", "@f64x[0p99999 0p-99999]",
		"@f32x[1.fffffep127]", "@f32x[1.ffffffp127]", "@f32x[1.fffffefp127 1.000001 1.000003 1.0000010000001]", "@f32x[1p-149 1.8p-149 1p-127 0.fffffep-126]", "@f32x[1p-150]", "@f32x[1.0000001p-150]", "@f32x[1p128]",
		"@f16x[1.fe 1.ff 1.018 1.01 1p-133 1p-134]", "@f16x[1.fep127 1.ffp127]", "@f16x[1p-150]", "@f16[1.5 0.1 1e38 3.3895313892515355e+38 -0 1e-40]", "@f16[1e39]", "@f16[1e-46]",
		"@f32[0.1 1e-45 1e-46 3.4028234663852886e+38 1_0.5 0_1 01.5 1e+1_0]", "@f32[3.5e38]", "@f32[1e-46]", "@f32[1.e5]", "@f32[.5]", "@f32[1e]", "@f32[0x1.8]", "@f32[0x.8p1]",
		"@f64[5e-324 2e-324 1.7976931348623157e+308 0.1 123456789 1e+21 1E5 1e05 00 0e0 0.000e-10]", "@f64[1e309]", "@f64[1e-400]", "@f64[2e308]", "@f64[nan snan inf -inf]", "@f64[infinity]", "@f64[-snan]",
	}
	// every encoder header with an empty body, in both letter cases
	for _, k := range c25Kinds {
		for _, fm := range c25Formats {
			txt, panicked, _ := c25Encode(k, fm.f, nil, nil)
			if !panicked {
				ts = append(ts, txt, strings.ToUpper(txt))
			}
		}
	}
	// random digit soup per integer mode
	alphabet := "0123456789abcdefABCDEF_xob-"
	for i := 0; i < c.Pick(60, 600); i++ {
		k := c25Kinds[c.Rng.Intn(8)]
		hdr := "@" + map[string]string{"uint": "u", "int": "i"}[k.class] + strconv.Itoa(k.w*8) + []string{"", "b", "o", "x"}[c.Rng.Intn(4)] + "["
		n := 1 + c.Rng.Intn(3)
		els := []string{}
		for j := 0; j < n; j++ {
			l := 1 + c.Rng.Intn(6)
			b := make([]byte, l)
			for x := range b {
				b[x] = alphabet[c.Rng.Intn(len(alphabet))]
				if c.Rng.Intn(3) > 0 {
					b[x] = "0123456789"[c.Rng.Intn(10)]
				}
			}
			els = append(els, string(b))
		}
		ts = append(ts, hdr+strings.Join(els, " ")+"]")
	}
	// random hexadecimal float spellings (rounding, range)
	for i := 0; i < c.Pick(60, 600); i++ {
		k := c25Kinds[8+c.Rng.Intn(3)]
		hdr := "@f" + strconv.Itoa(k.w*8) + "x["
		nd := 1 + c.Rng.Intn(18)
		m := make([]byte, nd)
		for x := range m {
			m[x] = "0123456789abcdef"[c.Rng.Intn(16)]
		}
		s := string(m)
		if c.Rng.Intn(2) == 0 {
			dot := c.Rng.Intn(nd)
			if dot > 0 {
				s = s[:dot] + "." + s[dot:]
			}
		}
		if c.Rng.Intn(4) > 0 {
			center := map[int]int{2: 127, 4: 127, 8: 1023}[k.w]
			e := 0
			switch c.Rng.Intn(4) {
			case 0:
				e = c.Rng.Intn(40) - 20
			case 1:
				e = center - c.Rng.Intn(80)
			case 2:
				e = -center - c.Rng.Intn(120) + 30
			default:
				e = c.Rng.Intn(2*center+200) - center - 100
			}
			s += "p" + strconv.Itoa(e)
		}
		if c.Rng.Intn(2) == 0 {
			s = "-" + s
		}
		ts = append(ts, hdr+s+"]")
	}
	return ts
}

func replayC25(r *Replay) (bool, string) {
	if r.Kind != "roundtrip" {
		return false, "unknown replay kind " + r.Kind
	}
	k := c25KindByLabel(r.Input["kind"])
	f, err1 := strconv.Atoi(r.Input["format"])
	data, err2 := hex.DecodeString(r.Input["data_hex"])
	plan, okp := c25ParsePlan(r.Input["plan"])
	if k == nil || err1 != nil || err2 != nil || !okp || f < 0 || f > 255 || len(data)%k.w != 0 {
		return false, "bad replay input"
	}
	if r.Input["chunked"] != "true" {
		plan = nil
	} else {
		if plan == nil {
			plan = c25Plan{{}}
		}
		total := 0
		for _, ch := range plan {
			n := 0
			for _, x := range ch {
				n += x
			}
			if n%k.w != 0 {
				return false, "bad replay input (chunk plan)"
			}
			total += n
		}
		if total != len(data) {
			return false, "bad replay input (chunk plan)"
		}
	}
	ok, text, got := c25Oracle(k, configuration.CTENumericFormat(f), data, plan)
	return ok, fmt.Sprintf("%s array, setting %s, elements %s, written as %q: %s", k.label, c25FormatName(configuration.CTENumericFormat(f)), hex.EncodeToString(data), c25Clip(text), got)
}
