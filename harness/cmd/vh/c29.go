package main

// C29 — I/O failures are always reported.
//
// Search oracle: every public marshal/encode entry point of package ce is run
// against a destination that fails at a chosen call / byte offset, and every
// unmarshal/decode entry point against a source that fails with a non-EOF
// error at a chosen call; the call must come back with a non-nil error (the
// encoder event API, which has no error results, must let the panic out of the
// event that issued the failed write) and never report success.
//
// Correspondence: what the implementation did (outcome, number of calls that
// reached the destination / source, and for the calls without failure their
// kinds, their sizes and the library function that issued them, read off the
// call stack) is written as CE.Model.IoFail cases and recomputed by the model.
// A call on the destination that is not issued by one of the write sites of
// the shape is reported (C29/harness/unknown-write-site) and never agrees
// with the model.
// The error handling at every I/O call site ("shape") is extracted from the
// sources with go/ast and compared with the shape the theorems are about.

import (
	"bufio"
	"encoding/hex"
	"errors"
	"fmt"
	"go/ast"
	"go/parser"
	"go/token"
	"io"
	"math"
	"math/big"
	"math/rand"
	"net/url"
	"path/filepath"
	"reflect"
	"runtime"
	"sort"
	"strconv"
	"strings"
	"time"

	compact_time "github.com/kstenerud/go-compact-time"
	"github.com/kstenerud/go-concise-encoding/ce"
	"github.com/kstenerud/go-concise-encoding/ce/events"
	"github.com/kstenerud/go-concise-encoding/configuration"
	"github.com/kstenerud/go-uleb128"
)

func init() { register("C29", runC29, replayC29) }

// ---------------------------------------------------------------------------
// injected errors: all non-nil, none of them == io.EOF

type c29PtrErr struct{ msg string }

func (e *c29PtrErr) Error() string { return e.msg }

var c29Errs = []error{
	errors.New("c29: injected I/O failure"),
	io.ErrUnexpectedEOF,
	fmt.Errorf("c29: wrapped: %w", io.EOF),
	&c29PtrErr{"c29: pointer error"},
	io.ErrClosedPipe,
}

// ---------------------------------------------------------------------------
// call stack -> site

func c29Frames() []runtime.Frame {
	pcs := make([]uintptr, 24)
	n := runtime.Callers(2, pcs)
	it := runtime.CallersFrames(pcs[:n])
	out := []runtime.Frame{}
	lead := true
	for {
		f, more := it.Next()
		if lead && strings.HasPrefix(f.Function, "main.") {
			if !more {
				break
			}
			continue
		}
		lead = false
		out = append(out, f)
		if !more || len(out) >= 10 {
			break
		}
	}
	return out
}

const c29Mod = "github.com/kstenerud/go-concise-encoding/"

// line numbers of the two Read calls in uleb128.DecodeWithByteBuffer and in bufio.(*Reader).Read, found by probing
var c29UlebFirstLine, c29UlebContLine, c29BufioDirectLine, c29BufioReadLine int

type c29Probe struct {
	data  []byte
	lines []int
	fn    string
}

func (p *c29Probe) Read(b []byte) (int, error) {
	for _, f := range c29Frames() {
		if strings.HasSuffix(f.Function, p.fn) {
			p.lines = append(p.lines, f.Line)
			break
		}
	}
	if len(p.data) == 0 {
		return 0, io.EOF
	}
	n := copy(b, p.data)
	p.data = p.data[n:]
	return n, nil
}

func c29Calibrate() {
	if c29UlebFirstLine != 0 {
		return
	}
	p := &c29Probe{data: []byte{0x80, 0x80, 0x00}, fn: "go-uleb128.DecodeWithByteBuffer"}
	uleb128.DecodeWithByteBuffer(p, make([]byte, 1))
	if len(p.lines) == 3 && p.lines[1] == p.lines[2] && p.lines[0] != p.lines[1] {
		c29UlebFirstLine, c29UlebContLine = p.lines[0], p.lines[1]
	} else {
		c29UlebFirstLine = -1
	}
	q := &c29Probe{data: []byte{1, 2, 3}, fn: "bufio.(*Reader).Read"}
	br := bufio.NewReaderSize(q, 16)
	br.Read(make([]byte, 64)) // large read, empty buffer
	q.data = []byte{1, 2, 3}
	br2 := bufio.NewReaderSize(q, 16)
	br2.Read(make([]byte, 1))
	if len(q.lines) == 2 {
		c29BufioDirectLine, c29BufioReadLine = q.lines[0], q.lines[1]
	}
}

// read site (Coq constructor of CE.Model.IoFail.site) of the innermost library frame
func c29ReadSite(fs []runtime.Frame) string {
	if len(fs) == 0 {
		return "SUnknown"
	}
	if fs[0].Function == c29Mod+"cbe.(*Reader).Read" && len(fs) > 1 {
		fs = fs[1:] // Reader.Read, the normalising layer every CBE read goes through: the site is its caller
	}
	f := fs[0]
	fn := f.Function
	switch {
	case fn == c29Mod+"cbe.(*Reader).ReadUint8":
		return "RCbeUint8"
	case fn == c29Mod+"cbe.(*Reader).ReadTypeOrEOF":
		return "RCbeTypeOrEOF"
	case fn == c29Mod+"cbe.(*Reader).readIntoBuffer":
		return "RCbeIntoBuffer"
	case strings.HasSuffix(fn, "go-uleb128.DecodeWithByteBuffer"):
		if f.Line == c29UlebFirstLine {
			return "RUlebFirst"
		}
		if f.Line == c29UlebContLine {
			return "RUlebCont"
		}
	case strings.HasSuffix(fn, "go-compact-time.fillSlice"):
		return "RCtFill"
	case strings.HasSuffix(fn, "go-compact-time.DecodeTimeWithBuffer"), strings.HasSuffix(fn, "go-compact-time.DecodeTimestampWithBuffer"),
		strings.HasSuffix(fn, "go-compact-time.decodeTimezone"):
		return "RCtByte"
	case fn == "io.copyBuffer":
		return "RIoCopy"
	case fn == "bufio.(*Reader).fill":
		return "RBufioFill"
	case fn == "bufio.(*Reader).Read":
		if f.Line == c29BufioDirectLine {
			return "RBufioDirect"
		}
		if f.Line == c29BufioReadLine {
			return "RBufioRead"
		}
	}
	return "SUnknown"
}

// logical write site ("lb", "ls", "ll" = writeBytes, WriteString/WriteStringNotLF, WriteStringPossibleLF of the
// cbe / cte Writer) of a call that reached the destination
func c29WriteSite(fs []runtime.Frame) string {
	name := func(i int) string {
		if i >= len(fs) {
			return ""
		}
		fn := fs[i].Function
		for _, pkg := range []string{"cbe", "cte"} {
			if strings.HasPrefix(fn, c29Mod+pkg+".(*Writer).") {
				return fn[strings.LastIndex(fn, ".")+1:]
			}
		}
		return ""
	}
	str := func(m string) string {
		switch m {
		case "WriteString", "WriteStringNotLF":
			return "ls"
		case "WriteStringPossibleLF":
			return "ll"
		}
		return "?"
	}
	// a string on its way through the StringWriterAdapter (the destination is no io.StringWriter)
	for i := 0; i < len(fs) && i < 5; i++ {
		if strings.HasSuffix(fs[i].Function, ".(*StringWriterAdapter).WriteString") {
			return str(name(i + 1))
		}
	}
	switch name(0) {
	case "writeBytes":
		return "lb"
	case "WriteString", "WriteStringNotLF", "WriteStringPossibleLF":
		return str(name(0))
	}
	return "?"
}

// physical write site (Coq constructor of CE.Model.IoFail.site): the library function that made the call on the
// destination. Only the five sites whose error handling the shape extraction classifies are known; a call on the
// destination from anywhere else is SUnknown.
func c29WritePhysSite(fs []runtime.Frame) string {
	if len(fs) == 0 {
		return "SUnknown"
	}
	switch fs[0].Function {
	case c29Mod + "cbe.(*Writer).writeBytes":
		return "WCbeBytes"
	case c29Mod + "cbe.(*Writer).WriteString":
		return "WCbeString"
	case c29Mod + "cte.(*Writer).writeBytes":
		return "WCteBytes"
	case c29Mod + "cte.(*Writer).WriteStringNotLF":
		return "WCteStringNotLF"
	case c29Mod + "cte.(*Writer).WriteStringPossibleLF":
		return "WCteStringLF"
	}
	return "SUnknown"
}

// ---------------------------------------------------------------------------
// fault-injecting destination

type c29WSched struct {
	calls  map[int]bool
	limit  int // -1 = none
	sticky bool
}

func (s c29WSched) coq() string {
	ks := []int{}
	for k := range s.calls {
		ks = append(ks, k)
	}
	sort.Ints(ks)
	items := []string{}
	for _, k := range ks {
		items = append(items, cNi(k))
	}
	lim := "None"
	if s.limit >= 0 {
		lim = cSome(cNi(s.limit))
	}
	return cApp("ws", cList(items), lim, cBool(s.sticky))
}

func (s c29WSched) String() string {
	ks := []int{}
	for k := range s.calls {
		ks = append(ks, k)
	}
	sort.Ints(ks)
	return fmt.Sprintf("calls=%v limit=%d sticky=%v", ks, s.limit, s.sticky)
}

type c29WCall struct {
	kind  byte // 'W' Write, 'S' WriteString
	n     int
	lsite string
	psite string
	event int
}

type c29Writer struct {
	sched  c29WSched
	err    error
	trace  bool
	event  int
	calls  []c29WCall
	bytes  int
	failed bool // some call returned an error
	failEv int  // event during which the first failing call happened
}

func (w *c29Writer) do(kind byte, n int) (int, error) {
	k := len(w.calls)
	c := c29WCall{kind: kind, n: n, event: w.event}
	if w.trace {
		fs := c29Frames()
		c.lsite, c.psite = c29WriteSite(fs), c29WritePhysSite(fs)
	}
	w.calls = append(w.calls, c)
	fail := (w.sched.sticky && w.failed) || w.sched.calls[k]
	part := 0
	if !fail && w.sched.limit >= 0 && w.bytes+n > w.sched.limit {
		fail = true
		part = w.sched.limit - w.bytes
	}
	if fail {
		if !w.failed {
			w.failEv = w.event
		}
		w.failed = true
		return part, w.err
	}
	w.bytes += n
	return n, nil
}

func (w *c29Writer) Write(p []byte) (int, error) { return w.do('W', len(p)) }

// a destination that also implements io.StringWriter
type c29StringWriter struct{ *c29Writer }

func (w c29StringWriter) WriteString(s string) (int, error) { return w.do('S', len(s)) }

func (w *c29Writer) dest(sw bool) io.Writer {
	if sw {
		return c29StringWriter{w}
	}
	return w
}

// ---------------------------------------------------------------------------
// fault-injecting source

type c29RSched struct {
	chunk  int          // max bytes per call, 0 = no limit
	faults map[int]bool // call index -> dirty (data delivered together with the error)
	sticky bool
}

func (s c29RSched) faultsCoq() string {
	ks := []int{}
	for k := range s.faults {
		ks = append(ks, k)
	}
	sort.Ints(ks)
	items := []string{}
	for _, k := range ks {
		if s.faults[k] {
			items = append(items, cApp("fd", cNi(k)))
		} else {
			items = append(items, cApp("fc", cNi(k)))
		}
	}
	return cList(items)
}

func (s c29RSched) faultsString() string {
	ks := []int{}
	for k := range s.faults {
		ks = append(ks, k)
	}
	sort.Ints(ks)
	items := []string{}
	for _, k := range ks {
		if s.faults[k] {
			items = append(items, fmt.Sprintf("%d:d", k))
		} else {
			items = append(items, fmt.Sprintf("%d:c", k))
		}
	}
	return strings.Join(items, ",")
}

type c29RCall struct {
	site string
	req  int
	n    int
	fail bool
}

type c29Reader struct {
	data      []byte
	sched     c29RSched
	err       error
	trace     bool
	pos       int
	ncalls    int
	lens      []int
	tr        []c29RCall
	failed    bool
	dirtyHit  bool
	firstFail int
}

func (r *c29Reader) Read(p []byte) (int, error) {
	k := r.ncalls
	r.ncalls++
	r.lens = append(r.lens, len(p))
	site := ""
	if r.trace {
		site = c29ReadSite(c29Frames())
	}
	rec := func(n int, fail bool) {
		if r.trace {
			r.tr = append(r.tr, c29RCall{site, len(p), n, fail})
		}
	}
	deliver := func() int {
		m := len(p)
		if r.sched.chunk > 0 && m > r.sched.chunk {
			m = r.sched.chunk
		}
		n := copy(p[:m], r.data[r.pos:])
		r.pos += n
		return n
	}
	if r.sched.sticky && r.failed {
		rec(0, true)
		return 0, r.err
	}
	if dirty, ok := r.sched.faults[k]; ok {
		if !r.failed {
			r.firstFail = k
		}
		r.failed = true
		n := 0
		if dirty {
			n = deliver()
			if n > 0 {
				r.dirtyHit = true
			}
		}
		rec(n, true)
		return n, r.err
	}
	if r.pos >= len(r.data) {
		rec(0, false)
		return 0, io.EOF
	}
	n := deliver()
	rec(n, false)
	return n, nil
}

// ---------------------------------------------------------------------------
// shape extraction (go/ast)

type c29Src struct {
	fset  *token.FileSet
	files map[string]*ast.File
}

func (s *c29Src) file(path string) *ast.File {
	if f, ok := s.files[path]; ok {
		return f
	}
	f, err := parser.ParseFile(s.fset, path, nil, 0)
	if err != nil {
		f = nil
	}
	s.files[path] = f
	return f
}

func c29RecvName(fd *ast.FuncDecl) string {
	if fd.Recv == nil || len(fd.Recv.List) == 0 {
		return ""
	}
	t := fd.Recv.List[0].Type
	if st, ok := t.(*ast.StarExpr); ok {
		t = st.X
	}
	if id, ok := t.(*ast.Ident); ok {
		return id.Name
	}
	return ""
}

func (s *c29Src) fn(path, recv, name string) *ast.FuncDecl {
	f := s.file(path)
	if f == nil {
		return nil
	}
	for _, d := range f.Decls {
		if fd, ok := d.(*ast.FuncDecl); ok && fd.Name.Name == name && c29RecvName(fd) == recv && fd.Body != nil {
			return fd
		}
	}
	return nil
}

func c29SelName(c *ast.CallExpr) (x string, sel string) {
	se, ok := c.Fun.(*ast.SelectorExpr)
	if !ok {
		if id, ok := c.Fun.(*ast.Ident); ok {
			return "", id.Name
		}
		return "", ""
	}
	switch xx := se.X.(type) {
	case *ast.Ident:
		x = xx.Name
	case *ast.SelectorExpr:
		x = xx.Sel.Name
	}
	return x, se.Sel.Name
}

// does this statement end the operation: panic(...), return, or a call of a
// same-file function whose body ends that way (unexpectedError, errorf)?
func (s *c29Src) aborts(path string, st ast.Stmt, depth int) bool {
	switch v := st.(type) {
	case *ast.ReturnStmt:
		return true
	case *ast.ExprStmt:
		c, ok := v.X.(*ast.CallExpr)
		if !ok {
			return false
		}
		_, name := c29SelName(c)
		if name == "panic" {
			return true
		}
		if depth > 2 {
			return false
		}
		if f := s.file(path); f != nil {
			for _, d := range f.Decls {
				if fd, ok := d.(*ast.FuncDecl); ok && fd.Name.Name == name && fd.Body != nil && len(fd.Body.List) > 0 {
					if s.aborts(path, fd.Body.List[len(fd.Body.List)-1], depth+1) {
						return true
					}
				}
			}
		}
	}
	return false
}

func c29IsErrNotNil(e ast.Expr) bool {
	b, ok := e.(*ast.BinaryExpr)
	if !ok || b.Op != token.NEQ {
		return false
	}
	x, ok1 := b.X.(*ast.Ident)
	y, ok2 := b.Y.(*ast.Ident)
	return ok1 && ok2 && x.Name == "err" && y.Name == "nil"
}

func c29AssignsErrFrom(a *ast.AssignStmt, call *ast.CallExpr) bool {
	if len(a.Rhs) != 1 || a.Rhs[0] != ast.Expr(call) || len(a.Lhs) == 0 {
		return false
	}
	id, ok := a.Lhs[len(a.Lhs)-1].(*ast.Ident)
	return ok && id.Name == "err"
}

// classify one call by the statement that holds it
func (s *c29Src) classify(path string, body *ast.BlockStmt, call *ast.CallExpr) string {
	res := "Unchecked"
	var walkBlock func(list []ast.Stmt)
	inLoop := false
	check := func(list []ast.Stmt, i int) {
		switch st := list[i].(type) {
		case *ast.IfStmt:
			if a, ok := st.Init.(*ast.AssignStmt); ok && c29AssignsErrFrom(a, call) {
				if c29IsErrNotNil(st.Cond) && len(st.Body.List) > 0 && s.aborts(path, st.Body.List[len(st.Body.List)-1], 0) {
					res = "Checked"
				}
			}
		case *ast.AssignStmt:
			if c29AssignsErrFrom(st, call) {
				res = "Weak" // err is kept in a variable; nothing aborts here
				if !inLoop && c29ForwardsErr(body, call) {
					res = "Checked" // assigned once to the err result and handed to the caller
				}
				if i+1 < len(list) {
					if nx, ok := list[i+1].(*ast.IfStmt); ok && nx.Init == nil && c29IsErrNotNil(nx.Cond) &&
						len(nx.Body.List) > 0 && s.aborts(path, nx.Body.List[len(nx.Body.List)-1], 0) {
						res = "Checked"
					}
				}
			}
		}
	}
	walkBlock = func(list []ast.Stmt) {
		for i, st := range list {
			check(list, i)
			switch v := st.(type) {
			case *ast.BlockStmt:
				walkBlock(v.List)
			case *ast.IfStmt:
				walkBlock(v.Body.List)
				if eb, ok := v.Else.(*ast.BlockStmt); ok {
					walkBlock(eb.List)
				} else if ei, ok := v.Else.(*ast.IfStmt); ok {
					walkBlock([]ast.Stmt{ei})
				}
			case *ast.ForStmt:
				saved := inLoop
				inLoop = true
				walkBlock(v.Body.List)
				inLoop = saved
			case *ast.RangeStmt:
				saved := inLoop
				inLoop = true
				walkBlock(v.Body.List)
				inLoop = saved
			case *ast.SwitchStmt:
				for _, cc := range v.Body.List {
					walkBlock(cc.(*ast.CaseClause).Body)
				}
			case *ast.LabeledStmt:
				walkBlock([]ast.Stmt{v.Stmt})
			}
		}
	}
	walkBlock(body.List)
	return res
}

// after the call nothing assigns err again and every return hands err back (bare return of a named result, or `return ..., err`)
func c29ForwardsErr(body *ast.BlockStmt, call *ast.CallExpr) bool {
	ok := true
	returns := 0
	ast.Inspect(body, func(n ast.Node) bool {
		switch v := n.(type) {
		case *ast.FuncLit:
			return false
		case *ast.AssignStmt:
			if v.Pos() > call.End() {
				for _, l := range v.Lhs {
					if id, isId := l.(*ast.Ident); isId && id.Name == "err" {
						ok = false
					}
				}
			}
		case *ast.ReturnStmt:
			if v.Pos() > call.End() {
				returns++
				if len(v.Results) > 0 {
					id, isId := v.Results[len(v.Results)-1].(*ast.Ident)
					if !isId || id.Name != "err" {
						ok = false
					}
				}
			}
		}
		return true
	})
	return ok && returns > 0
}

// the shape of cbe Reader.Read: `if pendingErr != nil { return 0, pendingErr }`, and inside the loop the error of
// reader.Read is stored in pendingErr both when data came with it (`if n > 0 { pendingErr = err; return n, nil }`)
// and when it did not (`if err != nil { pendingErr = err; return 0, err }`)
func c29Normalizes(fd *ast.FuncDecl) bool {
	isPend := func(e ast.Expr) bool {
		se, ok := e.(*ast.SelectorExpr)
		return ok && se.Sel.Name == "pendingErr"
	}
	storesErr := func(b *ast.BlockStmt) bool {
		for _, st := range b.List {
			if a, ok := st.(*ast.AssignStmt); ok && len(a.Lhs) == 1 && len(a.Rhs) == 1 && isPend(a.Lhs[0]) {
				if id, ok := a.Rhs[0].(*ast.Ident); ok && id.Name == "err" {
					return true
				}
			}
		}
		return false
	}
	lastReturn := func(b *ast.BlockStmt) *ast.ReturnStmt {
		if len(b.List) == 0 {
			return nil
		}
		r, _ := b.List[len(b.List)-1].(*ast.ReturnStmt)
		return r
	}
	guardOK, dataOK, errOK := false, false, false
	ast.Inspect(fd.Body, func(n ast.Node) bool {
		is, ok := n.(*ast.IfStmt)
		if !ok {
			return true
		}
		be, ok := is.Cond.(*ast.BinaryExpr)
		if !ok {
			return true
		}
		r := lastReturn(is.Body)
		switch {
		case be.Op == token.NEQ && isPend(be.X):
			if r != nil && len(r.Results) == 2 && isPend(r.Results[1]) {
				guardOK = true
			}
		case be.Op == token.GTR:
			if x, ok := be.X.(*ast.Ident); ok && x.Name == "n" && storesErr(is.Body) && r != nil {
				dataOK = true
			}
		case c29IsErrNotNil(is.Cond):
			if storesErr(is.Body) && r != nil && len(r.Results) == 2 {
				if id, ok := r.Results[1].(*ast.Ident); ok && id.Name == "err" {
					errOK = true
				}
			}
		}
		return true
	})
	return guardOK && dataOK && errOK
}

func c29Meet(a, b string) string {
	rank := map[string]int{"Checked": 0, "Weak": 1, "Unchecked": 2}
	if rank[b] > rank[a] {
		return b
	}
	return a
}

// all calls in fd matching pred, in source order
func c29Calls(fd *ast.FuncDecl, pred func(x, sel string) bool) []*ast.CallExpr {
	out := []*ast.CallExpr{}
	ast.Inspect(fd.Body, func(n ast.Node) bool {
		if c, ok := n.(*ast.CallExpr); ok {
			if x, sel := c29SelName(c); pred(x, sel) {
				out = append(out, c)
			}
		}
		return true
	})
	return out
}

// does fd hold a deferred recover() that assigns the function's err result?
func c29Recovers(fd *ast.FuncDecl) bool {
	found := false
	ast.Inspect(fd.Body, func(n ast.Node) bool {
		d, ok := n.(*ast.DeferStmt)
		if !ok {
			return true
		}
		fl, ok := d.Call.Fun.(*ast.FuncLit)
		if !ok {
			return true
		}
		rec, asg := false, false
		ast.Inspect(fl.Body, func(m ast.Node) bool {
			switch v := m.(type) {
			case *ast.CallExpr:
				if _, sel := c29SelName(v); sel == "recover" {
					rec = true
				}
			case *ast.AssignStmt:
				for _, l := range v.Lhs {
					if id, ok := l.(*ast.Ident); ok && id.Name == "err" {
						asg = true
					}
				}
			}
			return true
		})
		if rec && asg {
			found = true
		}
		return true
	})
	return found
}

func c29FuncFile(fn interface{}) string {
	f := runtime.FuncForPC(reflect.ValueOf(fn).Pointer())
	if f == nil {
		return ""
	}
	file, _ := f.FileLine(f.Entry())
	return file
}

var c29ShapeOrder = []string{"WCbeBytes", "WCbeString", "WCteBytes", "WCteStringNotLF", "WCteStringLF",
	"RCbeUint8", "RCbeTypeOrEOF", "RCbeIntoBuffer", "RCbeRead", "RCbePropagate", "RUlebFirst", "RUlebCont", "RCtByte", "RCtFill",
	"RCteCopy", "RCePeekUnmarshal", "RCePeekDecode",
	"GCbeMarshal", "GCteMarshal", "GCbeUnmarshal", "GCteUnmarshal", "GCbeDecode", "GCteDecode"}

// c29Shape returns site -> class for the current sources and a list of notes
// (I/O calls found by the completeness scan that no site accounts for).
func c29Shape() (map[string]string, []string) {
	src := &c29Src{fset: token.NewFileSet(), files: map[string]*ast.File{}}
	root := filepath.Dir(filepath.Dir(c29FuncFile(ce.MarshalCBE)))
	ulebFile := c29FuncFile(uleb128.DecodeWithByteBuffer)
	ctFile := c29FuncFile(compact_time.DecodeDateWithBuffer)
	shape := map[string]string{}
	accounted := map[string]bool{} // file|func|selector
	one := func(site, path, recv, name string, pred func(x, sel string) bool, want int, pick int) {
		fd := src.fn(path, recv, name)
		if fd == nil {
			shape[site] = c29Meet(shape[site], "Unchecked")
			return
		}
		calls := c29Calls(fd, pred)
		if want >= 0 && len(calls) != want {
			shape[site] = "Unchecked"
			return
		}
		cls := "Checked"
		if len(calls) == 0 {
			cls = "Unchecked"
		}
		for i, c := range calls {
			_, sel := c29SelName(c)
			accounted[path+"|"+name+"|"+sel] = true
			if pick >= 0 && i != pick {
				continue
			}
			cls = c29Meet(cls, src.classify(path, fd.Body, c))
		}
		if prev, ok := shape[site]; ok {
			cls = c29Meet(prev, cls)
		}
		shape[site] = cls
	}
	sel := func(names ...string) func(x, s string) bool {
		return func(x, s string) bool {
			for _, n := range names {
				if s == n {
					return true
				}
			}
			return false
		}
	}
	cw, tw := filepath.Join(root, "cbe", "encoder_writer.go"), filepath.Join(root, "cte", "encoder_writer.go")
	cr := filepath.Join(root, "cbe", "decoder_reader.go")
	one("WCbeBytes", cw, "Writer", "writeBytes", sel("Write"), 1, -1)
	one("WCbeString", cw, "Writer", "WriteString", sel("WriteString"), 1, -1)
	one("WCteBytes", tw, "Writer", "writeBytes", sel("Write"), 1, -1)
	one("WCteStringNotLF", tw, "Writer", "WriteStringNotLF", sel("WriteString"), 1, -1)
	one("WCteStringLF", tw, "Writer", "WriteStringPossibleLF", sel("WriteString"), 1, -1)
	one("RCbeUint8", cr, "Reader", "ReadUint8", sel("Read"), 1, -1)
	one("RCbeTypeOrEOF", cr, "Reader", "ReadTypeOrEOF", sel("Read"), 1, -1)
	one("RCbeIntoBuffer", cr, "Reader", "readIntoBuffer", sel("Read"), 1, -1)
	// Reader.Read, the normalising layer: its one Read on the source keeps the error in pendingErr
	if fd := src.fn(cr, "Reader", "Read"); fd != nil && len(c29Calls(fd, sel("Read"))) == 1 && c29Normalizes(fd) {
		shape["RCbeRead"] = "Checked"
		accounted[cr+"|Read|Read"] = true
	} else {
		one("RCbeRead", cr, "Reader", "Read", sel("Read"), 1, -1)
	}
	lib := func(x, s string) bool {
		return (x == "uleb128" || x == "compact_float" || x == "compact_time") && strings.HasPrefix(s, "Decode")
	}
	for _, fn := range []string{"readSmallULEB128", "ReadDecimalFloat", "ReadDate", "ReadTime", "ReadTimestamp"} {
		one("RCbePropagate", cr, "Reader", fn, lib, 1, -1)
	}
	one("RUlebFirst", ulebFile, "", "DecodeWithByteBuffer", sel("Read"), 2, 0)
	one("RUlebCont", ulebFile, "", "DecodeWithByteBuffer", sel("Read"), 2, 1)
	for _, fn := range []string{"DecodeTimeWithBuffer", "DecodeTimestampWithBuffer", "decodeTimezone"} {
		one("RCtByte", ctFile, "", fn, sel("Read"), 1, -1)
	}
	one("RCtFill", ctFile, "", "fillSlice", sel("Read"), 1, -1)
	one("RCteCopy", filepath.Join(root, "cte", "decoder.go"), "Decoder", "Decode", func(x, s string) bool { return x == "io" && s == "Copy" }, 1, -1)
	one("RCePeekUnmarshal", filepath.Join(root, "ce", "api.go"), "", "UnmarshalCE", sel("Peek"), 1, -1)
	one("RCePeekDecode", filepath.Join(root, "ce", "decoder.go"), "UniversalDecoder", "Decode", sel("Peek"), 1, -1)
	scope := func(site, path, recv, name string) {
		fd := src.fn(path, recv, name)
		if fd != nil && c29Recovers(fd) {
			shape[site] = "Checked"
		} else {
			shape[site] = "Unchecked"
		}
	}
	scope("GCbeMarshal", filepath.Join(root, "cbe", "marshal.go"), "Marshaler", "Marshal")
	scope("GCteMarshal", filepath.Join(root, "cte", "marshal.go"), "Marshaler", "Marshal")
	scope("GCbeUnmarshal", filepath.Join(root, "cbe", "marshal.go"), "Unmarshaler", "Unmarshal")
	scope("GCteUnmarshal", filepath.Join(root, "cte", "marshal.go"), "Unmarshaler", "Unmarshal")
	scope("GCbeDecode", filepath.Join(root, "cbe", "decoder.go"), "Decoder", "Decode")
	scope("GCteDecode", filepath.Join(root, "cte", "decoder.go"), "Decoder", "Decode")

	// completeness: every call on an io.Reader / io.Writer / io.StringWriter / bufio value or of an io.* function in
	// cbe, cte (hand-written part) and ce must be one of the sites above
	notes := []string{}
	ioMethods := map[string]bool{"Read": true, "Write": true, "WriteString": true, "Peek": true, "ReadByte": true, "ReadRune": true, "WriteByte": true,
		"WriteRune": true, "ReadFrom": true, "WriteTo": true, "ReadString": true, "ReadBytes": true, "Discard": true, "Flush": true}
	for _, dir := range []string{"cbe", "cte", "ce"} {
		paths, _ := filepath.Glob(filepath.Join(root, dir, "*.go"))
		sort.Strings(paths)
		// names of the struct fields of the package that hold an io / bufio value: a call of an I/O method on such a
		// field is an I/O call also when it is reached through another struct (x.writer.writer.Write)
		dirIOFields := map[string]bool{}
		for _, p := range paths {
			if strings.HasSuffix(p, "_test.go") {
				continue
			}
			f := src.file(p)
			if f == nil {
				continue
			}
			ast.Inspect(f, func(n ast.Node) bool {
				stt, ok := n.(*ast.StructType)
				if !ok {
					return true
				}
				for _, fl := range stt.Fields.List {
					if se, ok := fl.Type.(*ast.SelectorExpr); ok {
						if x, ok := se.X.(*ast.Ident); ok && (x.Name == "io" || x.Name == "bufio") {
							for _, n := range fl.Names {
								dirIOFields[n.Name] = true
							}
						}
					}
				}
				return true
			})
		}
		for _, p := range paths {
			if strings.HasSuffix(p, "_test.go") {
				continue
			}
			f := src.file(p)
			if f == nil {
				notes = append(notes, "unparsable "+p)
				continue
			}
			ioFields := map[string]map[string]bool{} // struct -> field -> is an io interface
			for _, d := range f.Decls {
				gd, ok := d.(*ast.GenDecl)
				if !ok {
					continue
				}
				for _, sp := range gd.Specs {
					ts, ok := sp.(*ast.TypeSpec)
					if !ok {
						continue
					}
					stt, ok := ts.Type.(*ast.StructType)
					if !ok {
						continue
					}
					for _, fl := range stt.Fields.List {
						if se, ok := fl.Type.(*ast.SelectorExpr); ok {
							if x, ok := se.X.(*ast.Ident); ok && (x.Name == "io" || x.Name == "bufio") {
								for _, n := range fl.Names {
									if ioFields[ts.Name.Name] == nil {
										ioFields[ts.Name.Name] = map[string]bool{}
									}
									ioFields[ts.Name.Name][n.Name] = true
								}
							}
						}
					}
				}
			}
			for _, d := range f.Decls {
				fd, ok := d.(*ast.FuncDecl)
				if !ok || fd.Body == nil {
					continue
				}
				recv := c29RecvName(fd)
				ast.Inspect(fd.Body, func(n ast.Node) bool {
					c, ok := n.(*ast.CallExpr)
					if !ok {
						return true
					}
					se, ok := c.Fun.(*ast.SelectorExpr)
					if !ok {
						return true
					}
					isIO := false
					switch x := se.X.(type) {
					case *ast.Ident:
						if x.Name == "io" || x.Name == "ioutil" {
							isIO = true
						} else if x.Obj != nil && (strings.Contains(strings.ToLower(x.Name), "reader") || strings.Contains(strings.ToLower(x.Name), "writer")) {
							switch se.Sel.Name {
							case "Read", "Write", "WriteString", "Peek", "ReadByte", "ReadRune", "WriteByte", "WriteRune", "ReadFrom", "WriteTo", "ReadString", "ReadBytes", "Discard":
								isIO = true
							}
						}
					case *ast.SelectorExpr:
						if ioFields[recv][x.Sel.Name] {
							isIO = true
						} else if _, deeper := x.X.(*ast.SelectorExpr); deeper && dirIOFields[x.Sel.Name] && ioMethods[se.Sel.Name] {
							isIO = true
						}
					}
					if isIO && !accounted[p+"|"+fd.Name.Name+"|"+se.Sel.Name] {
						notes = append(notes, fmt.Sprintf("%s: %s.%s calls %s, which no site accounts for", p, recv, fd.Name.Name, se.Sel.Name))
					}
					return true
				})
			}
		}
	}
	return shape, notes
}

// ---------------------------------------------------------------------------
// inputs

type c29Struct struct {
	Name   string
	Count  int
	Ratio  float64
	Tags   []string
	Inner  *c29Struct
	Blob   []byte
	When   time.Time
	Lookup map[string]int
}

func c29FixedValues() []interface{} {
	u, _ := url.Parse("https://example.com/a?b=c")
	big1, _ := new(big.Int).SetString("123456789012345678901234567890", 10)
	return []interface{}{
		nil, true, 0, -1, 100, -129, 65536, uint64(1) << 63, int64(math.MinInt64), 1.5, float32(0.25), math.Inf(1), math.NaN(),
		"", "a", "hello world", "line\nbreak \"quoted\" \\ tab\t", "ünïcödé ☃", strings.Repeat("x", 40),
		[]byte{}, []byte{1, 2, 3, 4, 5}, []interface{}{}, []interface{}{1, "two", 3.5, nil, true},
		[]int{1, 2, 3}, []uint16{1, 2, 3}, []float32{1, 2}, []string{"a", "b"},
		map[string]interface{}{}, map[string]interface{}{"k": []interface{}{1, map[string]int{"z": 2}}},
		big1, new(big.Int).Neg(big1), big.NewFloat(1.25), u, *u,
		time.Date(2020, 1, 15, 13, 41, 0, 599000, time.UTC),
		c29Struct{Name: "n", Count: 3, Ratio: 0.5, Tags: []string{"t1", "t2"}, Inner: &c29Struct{Name: "in"}, Blob: []byte{9}, Lookup: map[string]int{"one": 1}},
		&c29Struct{Name: "p"},
		[][]interface{}{{1}, {}, {"x", []byte{7}}},
	}
}

// random value with deterministic encoding (maps have at most one key)
func c29GenValue(r *rand.Rand, depth int) interface{} {
	n := 12
	if depth <= 0 {
		n = 9
	}
	switch r.Intn(n) {
	case 0:
		return nil
	case 1:
		return r.Intn(2) == 0
	case 2:
		m := boundaryMagnitudes[r.Intn(len(boundaryMagnitudes))]
		if r.Intn(2) == 0 && m <= 1<<63 {
			return -int64(m)
		}
		return m
	case 3:
		return int64(r.Uint64() >> uint(r.Intn(64)))
	case 4:
		fs := []float64{0, -0.0, 1, -1.5, 1e100, 5e-324, math.Inf(-1), 0.1, float64(float32(0.1))}
		return fs[r.Intn(len(fs))]
	case 5:
		parts := []string{"a", "bc", " ", "\n", "\"", "\\", "é", "☃", "\t", "xyz", "0", ""}
		s := ""
		for i := r.Intn(6); i > 0; i-- {
			s += parts[r.Intn(len(parts))]
		}
		return s
	case 6:
		b := make([]byte, r.Intn(6))
		r.Read(b)
		return b
	case 7:
		b := new(big.Int).SetUint64(r.Uint64())
		b.Lsh(b, uint(r.Intn(80)))
		if r.Intn(2) == 0 {
			b.Neg(b)
		}
		return b
	case 8:
		return time.Date(1990+r.Intn(60), time.Month(1+r.Intn(12)), 1+r.Intn(28), r.Intn(24), r.Intn(60), r.Intn(60), r.Intn(3)*1000, time.UTC)
	case 9, 10:
		l := make([]interface{}, r.Intn(4))
		for i := range l {
			l[i] = c29GenValue(r, depth-1)
		}
		return l
	default:
		if r.Intn(3) == 0 {
			return map[string]interface{}{}
		}
		return map[interface{}]interface{}{fmt.Sprintf("k%d", r.Intn(100)): c29GenValue(r, depth-1)}
	}
}

// ---------------------------------------------------------------------------
// directed inputs: payloads around and far beyond the writers' scratch buffers.
//
// Both Writers copy what they are given through a scratch buffer (32 bytes when new, grown on demand and kept by a
// reused Marshaler / Encoder) or hand it to the destination in one call. Whether one logical write reaches the
// destination as one call or as several, and what happens to the error of each of them, can only be seen with
// payloads that do not fit: every string-like / array / big-number kind is therefore produced at lengths just below,
// at and just above every power of two from 16 to 65536 and at a few lengths in between.

var c29LongKinds = []string{"string", "string-in-list", "map-key", "map-value", "url", "bytes", "uint16s", "runes2", "runes3", "lines", "escapes", "bigint", "struct-field"}

// the ladder of payload lengths (bytes)
func c29LongLadder() []int {
	out := []int{}
	for b := 16; b <= 65536; b *= 2 {
		out = append(out, b-1, b, b+1)
	}
	out = append(out, 40, 50, 100, 200, 1000, 3000, 5000, 10000, 70001, 100000)
	sort.Ints(out)
	return out
}

func c29Pattern(n int, alphabet string) string {
	var b strings.Builder
	for b.Len() < n {
		b.WriteString(alphabet)
	}
	return b.String()[:n]
}

func c29LongValue(kind string, n int) (interface{}, bool) {
	plain := c29Pattern(n, "abcdefghijklmnopqrstuvwxyz0123456789")
	switch kind {
	case "string":
		return plain, true
	case "string-in-list":
		return []interface{}{plain, 1, plain[:n/2], true}, true
	case "map-key":
		return map[string]interface{}{plain: 1}, true
	case "map-value":
		return map[string]interface{}{"k": plain}, true
	case "url":
		u, err := url.Parse("https://example.com/" + plain)
		if err != nil {
			return nil, false
		}
		return u, true
	case "bytes":
		b := make([]byte, n)
		for i := range b {
			b[i] = byte(i*7 + 1)
		}
		return b, true
	case "uint16s":
		a := make([]uint16, n/2+1)
		for i := range a {
			a[i] = uint16(i*257 + 3)
		}
		return a, true
	case "runes2": // two-byte characters: a piece boundary at an odd offset falls inside a character
		return "x" + strings.Repeat("\u00e9", n/2), true
	case "runes3":
		return "xy" + strings.Repeat("\u2603", n/3), true
	case "lines": // line feeds: the CTE Writer's WriteStringPossibleLF / column bookkeeping
		return c29Pattern(n, "line one\nline 2\n"), true
	case "escapes": // characters the CTE encoder escapes
		return c29Pattern(n, "a\"b\\c\td"), true
	case "bigint":
		b := new(big.Int).Lsh(big.NewInt(1), uint(8*n))
		return b.Sub(b, big.NewInt(12345)), true
	case "struct-field":
		return c29Struct{Name: plain, Tags: []string{plain[:n/2], "t"}, Blob: []byte(plain[:n/3])}, true
	}
	return nil, false
}

var c29LongEvKinds = []string{"string", "rid", "remote", "custom-text", "custom-binary", "media-type", "media-data", "u8-array", "u32-array", "chunked-string", "chunked-bytes", "comment", "string-then-more"}

func c29LongEvents(kind string, n int) ([]Ev, bool) {
	plain := []byte(c29Pattern(n, "abcdefghijklmnopqrstuvwxyz0123456789"))
	doc := func(es ...Ev) []Ev { return append(append([]Ev{{K: "bd"}, {K: "v", N: 0}}, es...), Ev{K: "ed"}) }
	switch kind {
	case "string":
		return doc(Ev{K: "sa", A: events.ArrayTypeString, Data: plain}), true
	case "rid":
		return doc(Ev{K: "sa", A: events.ArrayTypeResourceID, Data: plain}), true
	case "remote":
		return doc(Ev{K: "sa", A: events.ArrayTypeReferenceRemote, Data: plain}), true
	case "custom-text":
		return doc(Ev{K: "ct", N: 1, Data: plain}), true
	case "custom-binary":
		return doc(Ev{K: "cb", N: 1, Data: plain}), true
	case "media-type":
		return doc(Ev{K: "media", S: "application/x-" + string(plain), Data: []byte{1, 2, 3}}), true
	case "media-data":
		return doc(Ev{K: "media", S: "a/b", Data: plain}), true
	case "u8-array":
		return doc(Ev{K: "a", A: events.ArrayTypeUint8, N: uint64(n), Data: plain}), true
	case "u32-array":
		k := n/4 + 1
		return doc(Ev{K: "a", A: events.ArrayTypeUint32, N: uint64(k), Data: []byte(c29Pattern(4*k, "\x01\x02\x03\x04\x05"))}), true
	case "chunked-string":
		h := n / 3
		return doc(Ev{K: "ab", A: events.ArrayTypeString}, Ev{K: "ac", N: uint64(h), B: true}, Ev{K: "ad", Data: plain[:h]},
			Ev{K: "ac", N: uint64(n - h), B: false}, Ev{K: "ad", Data: plain[h : h+(n-h)/2]}, Ev{K: "ad", Data: plain[h+(n-h)/2:]}), true
	case "chunked-bytes":
		h := n / 2
		return doc(Ev{K: "ab", A: events.ArrayTypeUint8}, Ev{K: "ac", N: uint64(n), B: false}, Ev{K: "ad", Data: plain[:h]}, Ev{K: "ad", Data: plain[h:]}), true
	case "comment":
		return doc(Ev{K: "cm", B: false, Data: plain}, Ev{K: "pi", N: 1}), true
	case "string-then-more":
		return doc(Ev{K: "l"}, Ev{K: "sa", A: events.ArrayTypeString, Data: plain}, Ev{K: "pi", N: 1}, Ev{K: "sa", A: events.ArrayTypeString, Data: plain[:n/2]}, Ev{K: "e"}), true
	}
	return nil, false
}

func c29LongClass(kind string) int {
	if kind == "string" {
		return 1
	}
	return 2
}

func c29ParseLongRef(s string) (kind string, n int, ok bool) {
	p := strings.Split(s, ":")
	if len(p) != 2 {
		return "", 0, false
	}
	n, err := strconv.Atoi(p[1])
	return p[0], n, err == nil && n >= 0 && n <= 1<<20
}

// the lengths one kind is run at: thorough = eight fixed lengths from 31 to 4097 and two (at most 10000 bytes) that move
// along the ladder with the seed and the kind (the plain string: the whole ladder); quick =
// just above the fresh scratch buffer and one more (at most 1100 bytes) that moves along the ladder with the seed
// and the kind (the plain string: eight of them, from 32 bytes up to beyond 64 KiB)
func (c *Ctx) c29LongLengths(kindIdx int, full bool) []int {
	ladder := c29LongLadder()
	if c.Thorough() {
		if full {
			return ladder
		}
		mid := []int{}
		for _, n := range ladder {
			if n <= 10000 {
				mid = append(mid, n)
			}
		}
		rot := int((c.Seed%1000+1000)%1000)*7 + kindIdx*5
		return []int{31, 32, 33, 64, 65, 129, 1025, 4097, mid[rot%len(mid)], mid[(rot+len(mid)/2)%len(mid)]}
	}
	if full {
		return []int{32, 33, 65, 100, 200, 513, 4097, 70001}
	}
	small := []int{}
	for _, n := range ladder {
		if n > 33 && n <= 1100 {
			small = append(small, n)
		}
	}
	rot := int((c.Seed%1000+1000)%1000)*7 + kindIdx*5
	return []int{33, small[rot%len(small)]}
}

type c29WInput struct {
	long  int               // directed long payload: 1 = the plain string (every destination flavour), 2 = another kind
	desc  string            // for humans
	ref   map[string]string // how to rebuild it in a replay
	value interface{}       // marshal inputs
	evs   []Ev              // encoder inputs
}

func c29ValueByRef(ref map[string]string) (interface{}, bool) {
	if s, ok := ref["value_fixed"]; ok {
		i, err := strconv.Atoi(s)
		vs := c29FixedValues()
		if err != nil || i < 0 || i >= len(vs) {
			return nil, false
		}
		return vs[i], true
	}
	if s, ok := ref["value_seed"]; ok {
		seed, err := strconv.ParseInt(s, 10, 64)
		if err != nil {
			return nil, false
		}
		return c29GenValue(rand.New(rand.NewSource(seed)), 3), true
	}
	if s, ok := ref["value_long"]; ok {
		if kind, n, ok := c29ParseLongRef(s); ok {
			return c29LongValue(kind, n)
		}
	}
	return nil, false
}

func c29GenOpts() GenOpts {
	o := DefaultGenOpts()
	o.MaxDepth, o.MaxFan = 3, 3
	return o
}

func c29EventsByRef(ref map[string]string) ([]Ev, bool) {
	if s, ok := ref["events_seed"]; ok {
		seed, err := strconv.ParseInt(s, 10, 64)
		if err != nil {
			return nil, false
		}
		return NewEvGen(rand.New(rand.NewSource(seed)), c29GenOpts()).Document(), true
	}
	if s, ok := ref["events_doc_hex"]; ok {
		doc, err := hex.DecodeString(s)
		if err != nil {
			return nil, false
		}
		rec := &Recorder{}
		if ce.NewCBEDecoder(configuration.New()).DecodeDocument(doc, rec) != nil {
			return nil, false
		}
		return rec.Evs, true
	}
	if s, ok := ref["events_long"]; ok {
		if kind, n, ok := c29ParseLongRef(s); ok {
			return c29LongEvents(kind, n)
		}
	}
	return nil, false
}

// ---------------------------------------------------------------------------
// running the write entry points

var c29WriteEntries = []string{"marshal", "marshaler", "encoder", "rules-encoder"}

var c29Marshalers = map[string]ce.Marshaler{}

func c29Cfg(pass bool) *configuration.Configuration {
	cfg := configuration.New()
	cfg.Debug.PassThroughPanics = pass
	return cfg
}

// returns "ok", "err", "panic" or "panic@<event>"
func c29RunWrite(entry, format string, pass bool, in *c29WInput, w *c29Writer, dest io.Writer) (out string) {
	cfg := c29Cfg(pass)
	switch entry {
	case "marshal", "marshaler":
		defer func() {
			if r := recover(); r != nil {
				out = "panic"
			}
		}()
		var err error
		switch {
		case entry == "marshal" && format == "cbe":
			err = ce.MarshalCBE(in.value, dest, cfg)
		case entry == "marshal":
			err = ce.MarshalCTE(in.value, dest, cfg)
		default:
			// one marshaler per format and configuration, reused for every run (also after failed ones)
			key := fmt.Sprintf("%s/%v", format, pass)
			m := c29Marshalers[key]
			if m == nil {
				if format == "cbe" {
					m = ce.NewCBEMarshaler(cfg)
				} else {
					m = ce.NewCTEMarshaler(cfg)
				}
				c29Marshalers[key] = m
			}
			err = m.Marshal(in.value, dest)
		}
		if err != nil {
			return "err"
		}
		return "ok"
	case "encoder", "rules-encoder":
		var enc ce.Encoder
		if format == "cbe" {
			enc = ce.NewCBEEncoder(cfg)
		} else {
			enc = ce.NewCTEEncoder(cfg)
		}
		enc.PrepareToEncode(dest)
		var rcv events.DataEventReceiver = enc
		if entry == "rules-encoder" {
			rcv = ce.NewRules(enc, cfg)
		}
		for i, e := range in.evs {
			w.event = i
			if _, bad := playOne(rcv, e); bad {
				return fmt.Sprintf("panic@%d", i)
			}
		}
		return "ok"
	}
	panic("bad entry " + entry)
}

// ---------------------------------------------------------------------------
// running the read entry points

// entry -> (model entry constructor, family)
var c29ReadEntries = []struct{ name, ctor, family string }{
	{"cbe-unmarshal", "RECbeUnmarshal", "cbe"},
	{"cbe-unmarshaler", "RECbeUnmarshal", "cbe"},
	{"cbe-decode", "RECbeDecode", "cbe"},
	{"cte-unmarshal", "RECteUnmarshal", "cte"},
	{"cte-unmarshaler", "RECteUnmarshal", "cte"},
	{"cte-decode", "RECteDecode", "cte"},
	{"ce-unmarshal", "REUniUnmarshal", "ce"},
	{"ce-decode", "REUniDecode", "ce"},
}

func c29ReadEntry(name string) (ctor, family string, ok bool) {
	for _, e := range c29ReadEntries {
		if e.name == name {
			return e.ctor, e.family, true
		}
	}
	return "", "", false
}

var c29Unmarshalers = map[string]ce.Unmarshaler{}
var c29Decoders = map[string]ce.Decoder{}

// returns "ok", "err", "panic", or "hang" when the call has not returned after c29HangTimeout
// (the goroutine is then abandoned, together with the reused unmarshaler / decoder it holds)
const c29HangTimeout = 700 * time.Millisecond

func c29RunRead(entry string, pass bool, rd io.Reader) string {
	done := make(chan string, 1)
	go func() { done <- c29RunReadInline(entry, pass, rd) }()
	if out, answered := hangWait(done, c29HangTimeout); answered {
		return out
	}
	key := fmt.Sprintf("%s/%v", entry, pass)
	delete(c29Unmarshalers, key)
	delete(c29Decoders, key)
	return "hang"
}

func c29RunReadInline(entry string, pass bool, rd io.Reader) (out string) {
	defer func() {
		if r := recover(); r != nil {
			out = "panic"
		}
	}()
	cfg := c29Cfg(pass)
	var err error
	switch entry {
	case "cbe-unmarshal":
		_, err = ce.UnmarshalCBE(rd, nil, cfg)
	case "cte-unmarshal":
		_, err = ce.UnmarshalCTE(rd, nil, cfg)
	case "ce-unmarshal":
		_, err = ce.UnmarshalCE(rd, nil, cfg)
	case "cbe-unmarshaler", "cte-unmarshaler":
		// reused for every run (also after failed ones)
		key := fmt.Sprintf("%s/%v", entry, pass)
		u := c29Unmarshalers[key]
		if u == nil {
			if entry == "cbe-unmarshaler" {
				u = ce.NewCBEUnmarshaler(cfg)
			} else {
				u = ce.NewCTEUnmarshaler(cfg)
			}
			c29Unmarshalers[key] = u
		}
		_, err = u.Unmarshal(rd, nil)
	case "cbe-decode", "cte-decode", "ce-decode":
		key := fmt.Sprintf("%s/%v", entry, pass)
		d := c29Decoders[key]
		if d == nil {
			switch entry {
			case "cbe-decode":
				d = ce.NewCBEDecoder(cfg)
			case "cte-decode":
				d = ce.NewCTEDecoder(cfg)
			default:
				d = ce.NewCEDecoder(cfg)
			}
			c29Decoders[key] = d
		}
		err = d.Decode(rd, ce.NewRules(&Recorder{}, cfg))
	default:
		panic("bad entry " + entry)
	}
	if err != nil {
		return "err"
	}
	return "ok"
}

// the reader primitives the CBE decoder ran, from the traced calls of a run without failures
func c29Script(tr []c29RCall) (script []string, ok bool) {
	i := 0
	group := func(site string) int {
		l := tr[i].req
		rem := l
		for i < len(tr) && tr[i].site == site && tr[i].req == rem {
			rem -= tr[i].n
			i++
			if rem <= 0 || tr[i-1].n == 0 {
				break
			}
		}
		return l
	}
	for i < len(tr) {
		switch tr[i].site {
		case "RCbeUint8":
			script = append(script, "PUint8")
			i++
		case "RCbeTypeOrEOF":
			script = append(script, "PTypeOrEOF")
			i++
		case "RCbeIntoBuffer":
			script = append(script, cApp("PBytes", cNi(group("RCbeIntoBuffer"))))
		case "RUlebFirst":
			i++
			for i < len(tr) && tr[i].site == "RUlebCont" {
				i++
			}
			script = append(script, "PUleb")
		case "RCtByte":
			script = append(script, "PCtByte")
			i++
		case "RCtFill":
			script = append(script, cApp("PCtFill", cNi(group("RCtFill"))))
		default:
			return script, false
		}
	}
	return script, true
}

func c29ObsCoq(out string, calls int) string {
	o := ""
	switch {
	case out == "ok":
		o = "OOk"
	case out == "err":
		o = "OErr"
	case out == "panic":
		o = "OPanic"
	case strings.HasPrefix(out, "panic@"):
		o = cApp("OPanicAt", out[len("panic@"):])
	default:
		panic("bad outcome " + out)
	}
	return cApp("ob", o, cNi(calls))
}

const c29Preamble = `Definition lb (n : N) := {| lw_site := LBytes; lw_len := n |}.
Definition ls (n : N) := {| lw_site := LStringNotLF; lw_len := n |}.
Definition ll (n : N) := {| lw_site := LStringLF; lw_len := n |}.
Definition dc (s : site) (k : wkind) (n : N) := (s, {| wc_kind := k; wc_len := n |}).
Definition ws (calls : list N) (lim : option N) (st : bool) := {| wsc_calls := calls; wsc_limit := lim; wsc_sticky := st |}.
Definition ob (o : obs_out) (n : N) := {| o_out := o; o_calls := n |}.
Definition fc (k : N) := {| f_call := k; f_dirty := false |}.
Definition fd (k : N) := {| f_call := k; f_dirty := true |}.`

// ---------------------------------------------------------------------------
// write side: one input x format x entry x destination flavour

type c29WJob struct {
	entry, format string
	sw            bool
	in            *c29WInput
}

func (j c29WJob) input(s c29WSched, pass bool, errIdx int) map[string]string {
	m := map[string]string{"side": "write", "entry": j.entry, "format": j.format, "string_writer": cBool(j.sw),
		"pass_through_panics": cBool(pass), "limit": strconv.Itoa(s.limit), "sticky": cBool(s.sticky), "error": strconv.Itoa(errIdx)}
	ks := []string{}
	for k := range s.calls {
		ks = append(ks, strconv.Itoa(k))
	}
	sort.Strings(ks)
	m["fail_calls"] = strings.Join(ks, ",")
	for k, v := range j.in.ref {
		m[k] = v
	}
	return m
}

// run one schedule; returns outcome, the writer (for what it saw) and whether the property holds
func c29WriteOnce(j c29WJob, s c29WSched, pass bool, errIdx int, trace bool) (string, *c29Writer) {
	w := &c29Writer{sched: s, err: c29Errs[errIdx%len(c29Errs)], trace: trace}
	out := c29RunWrite(j.entry, j.format, pass, j.in, w, w.dest(j.sw))
	return out, w
}

// what the property demands of a run in which the destination failed
func c29WriteVerdict(j c29WJob, out string, w *c29Writer) (ok bool, expect, class string) {
	if !w.failed {
		return true, "", ""
	}
	if j.entry == "encoder" || j.entry == "rules-encoder" {
		// no error result exists: the panic is the report, and it must leave the event that issued the failed write
		want := fmt.Sprintf("panic@%d", w.failEv)
		if out == want {
			return true, want, ""
		}
		if out == "ok" {
			return false, want, "swallowed"
		}
		return false, want, "late-report"
	}
	switch out {
	case "err":
		return true, "err", ""
	case "ok":
		return false, "err", "swallowed"
	}
	return false, "err", "panic-escaped"
}

func (c *Ctx) c29WriteJob(cf *caseFile, j c29WJob) {
	none := c29WSched{calls: map[int]bool{}, limit: -1}
	out0, w0 := c29WriteOnce(j, none, false, 0, true)
	tag := j.format + "/" + j.entry
	if out0 != "ok" {
		// not an input for this property (the value / stream is not encodable by this entry point)
		c.Dist("write/" + tag + "/skipped-not-encodable")
		return
	}
	ncalls, nbytes := len(w0.calls), w0.bytes
	c.Dist(fmt.Sprintf("write/%s/calls<=%d", tag, bucket(ncalls)))
	// the writes per event (marshal entries: one pseudo-event)
	evs := [][]string{}
	kinds := []string{}
	unknown := 0
	for _, cl := range w0.calls {
		ev := 0
		if j.entry == "encoder" || j.entry == "rules-encoder" {
			ev = cl.event
		}
		for len(evs) <= ev {
			evs = append(evs, []string{})
		}
		ls := cl.lsite
		if ls == "?" {
			ls = "lb" // reported below; keeps the case file well-formed
		}
		evs[ev] = append(evs[ev], cApp(ls, cNi(cl.n)))
		if cl.kind == 'S' {
			kinds = append(kinds, cApp("dc", cl.psite, "KWriteString", cNi(cl.n)))
		} else {
			kinds = append(kinds, cApp("dc", cl.psite, "KWrite", cNi(cl.n)))
		}
		if cl.lsite == "?" || cl.psite == "SUnknown" {
			unknown++
		}
	}
	if unknown > 0 {
		// the destination was called from a place in the library that is none of the write sites of the shape:
		// nothing is known about the error handling there, and the theorems say nothing about such a call
		c.Dist("write/" + tag + "/calls-from-unknown-site")
		c.Fail(Replay{Kind: "write", Key: "C29/harness/unknown-write-site", Input: j.input(none, false, 0),
			Expect: "every call on the destination is issued by writeBytes / WriteString* of the cbe or cte Writer",
			Got:    fmt.Sprintf("%d of %d calls on the destination come from elsewhere", unknown, ncalls)})
	}
	if j.entry == "encoder" || j.entry == "rules-encoder" {
		for len(evs) < len(j.in.evs) {
			evs = append(evs, []string{})
		}
	}
	evsCoq := make([]string, len(evs))
	for i, e := range evs {
		evsCoq[i] = cList(e)
	}
	runs := []string{}
	human := []string{}
	var passRuns, passHuman []string
	one := func(s c29WSched, pass bool) {
		errIdx := c.Rng.Intn(len(c29Errs))
		out, w := c29WriteOnce(j, s, pass, errIdx, false)
		c.Count(fmt.Sprintf("w|%s|%v|%s|%s|%v", tag, j.sw, j.in.desc, s, pass), w.failed)
		if pass {
			passRuns = append(passRuns, cPair(s.coq(), c29ObsCoq(out, len(w.calls))))
			passHuman = append(passHuman, fmt.Sprintf("{%s -> %s/%d}", s, out, len(w.calls)))
		} else {
			runs = append(runs, cPair(s.coq(), c29ObsCoq(out, len(w.calls))))
			human = append(human, fmt.Sprintf("{%s -> %s/%d}", s, out, len(w.calls)))
		}
		if pass {
			return // PassThroughPanics is a debugging switch that lets panics out by design: correspondence only
		}
		ok, expect, class := c29WriteVerdict(j, out, w)
		kind := "none"
		if w.failed {
			kind = "hit"
		}
		c.Dist(fmt.Sprintf("write/%s/failure-%s/%s", tag, kind, strings.SplitN(out, "@", 2)[0]))
		if !ok {
			c.Fail(Replay{Kind: "write", Key: fmt.Sprintf("C29/write/%s/%s/%s", j.format, j.entry, class),
				Input: j.input(s, pass, errIdx), Expect: expect, Got: out})
		}
		if w.failed && len(c.Rep.Samples) < 3 {
			c.Sample(map[string]string{"side": "write", "entry": tag, "input": j.in.desc, "schedule": s.String(), "outcome": out})
		}
	}
	one(none, false)
	// a single transient failure at every call (beyond 300 / thorough 1200 calls: the first and the last third of that many and as many others)
	for _, k := range c.c29CallIndices(ncalls) {
		one(c29WSched{calls: map[int]bool{k: true}, limit: -1}, false)
	}
	// a failure after every byte offset (quick: a sample of offsets)
	step := 1
	if !c.Thorough() && nbytes > 24 {
		step = nbytes/24 + 1
	}
	if j.in.long != 0 && nbytes > c.Pick(8, 64) {
		step = nbytes/c.Pick(8, 64) + 1 // the directed long payloads are about the calls; the offsets inside them are sampled
	}
	for b := 0; b < nbytes; b += step {
		one(c29WSched{calls: map[int]bool{}, limit: b}, false)
	}
	// several failures, sticky or not
	for i := 0; i < c.Pick(2, 6) && ncalls > 0; i++ {
		s := c29WSched{calls: map[int]bool{}, limit: -1, sticky: c.Rng.Intn(2) == 0}
		for n := 1 + c.Rng.Intn(3); n > 0; n-- {
			s.calls[c.Rng.Intn(ncalls)] = true
		}
		one(s, false)
	}
	// PassThroughPanics: the panic is let out on purpose
	if ncalls > 0 && (j.entry == "marshal" || j.entry == "marshaler") && (j.in.long == 0 || c.Thorough()) {
		one(c29WSched{calls: map[int]bool{c.Rng.Intn(ncalls): true}, limit: -1}, true)
	}
	ctor := "WMarshal"
	if j.entry == "encoder" || j.entry == "rules-encoder" {
		ctor = "WEncoder"
	}
	fm := "WFcbe"
	if j.format == "cte" {
		fm = "WFcte"
	}
	if j.in.long != 0 && ncalls > 400 {
		// (CTE writes some payloads element by element.) The oracle above has run; the case would only repeat, at a
		// size coqc cannot read in reasonable time, what the same kind at a shorter length already compares
		c.Dist("write/" + tag + "/no-case-too-many-calls")
	} else {
		cf.Add(cApp("WriteCase", ctor, fm, cBool(j.sw), "false", cList(evsCoq), cList(kinds), cList(runs)),
			fmt.Sprintf("write %s sw=%v input=%s runs=%s", tag, j.sw, j.in.desc, strings.Join(human, " ")))
		if len(passRuns) > 0 {
			cf.Add(cApp("WriteCase", ctor, fm, cBool(j.sw), "true", cList(evsCoq), cList(kinds), cList(passRuns)),
				fmt.Sprintf("write %s sw=%v pass-through-panics input=%s runs=%s", tag, j.sw, j.in.desc, strings.Join(passHuman, " ")))
		}
	}

	// oracle only: the destination wrapped in a small bufio.Writer (an error of the wrapped writer during the
	// call surfaces from bufio's Write, so it must be reported; what is still buffered is the caller's Flush)
	if j.entry == "marshal" && ncalls > 0 {
		for i := 0; i < c.Pick(2, 8); i++ {
			k := c.Rng.Intn(ncalls)
			errIdx := c.Rng.Intn(len(c29Errs))
			w := &c29Writer{sched: c29WSched{calls: map[int]bool{k: true}, limit: -1}, err: c29Errs[errIdx]}
			bw := bufio.NewWriterSize(w, 16)
			out := c29RunWrite(j.entry, j.format, false, j.in, w, bw)
			c.Count(fmt.Sprintf("wb|%s|%s|%d", tag, j.in.desc, k), w.failed)
			c.Dist(fmt.Sprintf("write/%s/via-bufio/failure-%v/%s", tag, w.failed, out))
			if w.failed && out != "err" {
				in := j.input(w.sched, false, errIdx)
				in["via_bufio"] = "true"
				c.Fail(Replay{Kind: "write", Key: fmt.Sprintf("C29/write/%s/%s/via-bufio-swallowed", j.format, j.entry), Input: in, Expect: "err", Got: out})
			}
		}
	}
}

func (c *Ctx) c29CallIndices(ncalls int) []int {
	out := []int{}
	max := c.Pick(300, 1200)
	if ncalls <= max {
		for k := 0; k < ncalls; k++ {
			out = append(out, k)
		}
		return out
	}
	pick := map[int]bool{}
	for k := 0; k < max/3; k++ {
		pick[k], pick[ncalls-1-k] = true, true
	}
	for len(pick) < max {
		pick[max/3+c.Rng.Intn(ncalls-2*(max/3))] = true
	}
	for k := range pick {
		out = append(out, k)
	}
	sort.Ints(out)
	return out
}

func bucket(n int) int {
	b := 1
	for b < n {
		b *= 4
	}
	return b
}

// ---------------------------------------------------------------------------
// read side: one document x entry x chunking

type c29RJob struct {
	entry string
	doc   []byte
	chunk int
}

func (j c29RJob) input(s c29RSched, pass bool, errIdx int) map[string]string {
	return map[string]string{"side": "read", "entry": j.entry, "doc_hex": hex.EncodeToString(j.doc), "chunk": strconv.Itoa(j.chunk),
		"faults": s.faultsString(), "sticky": cBool(s.sticky), "pass_through_panics": cBool(pass), "error": strconv.Itoa(errIdx)}
}

func c29ReadOnce(j c29RJob, s c29RSched, pass bool, errIdx int, trace bool) (string, *c29Reader) {
	s.chunk = j.chunk
	r := &c29Reader{data: j.doc, sched: s, err: c29Errs[errIdx%len(c29Errs)], trace: trace}
	return c29RunRead(j.entry, pass, r), r
}

// key of a violation: which mechanism let the failure through
func c29ReadKey(j c29RJob, s c29RSched, pass bool, errIdx int, out string) string {
	_, family, _ := c29ReadEntry(j.entry)
	_, r := c29ReadOnce(j, s, pass, errIdx, true)
	site := "unknown-site"
	for _, cl := range r.tr {
		if cl.fail {
			site = cl.site
			break
		}
	}
	if family == "ce" && len(j.doc) > 0 {
		if j.doc[0] == 0x81 {
			family = "ce-cbe"
		} else {
			family = "ce-cte"
		}
	}
	mode := "clean"
	if r.dirtyHit {
		mode = "data-with-error"
	}
	if s.sticky {
		mode += "-sticky"
	} else {
		mode += "-transient"
	}
	what := "swallowed"
	if out == "panic" {
		what = "panic-escaped"
	}
	return fmt.Sprintf("C29/read/%s/%s/%s/%s", family, what, site, mode)
}

// documents on which an unmarshal entry point did not return (builder.ArtificiallyTerminate spins): one
// violation is recorded and the unmarshal entry points are not run on that document again
var c29Hung = map[string]bool{}

func c29HangKey(j c29RJob) string {
	_, family, _ := c29ReadEntry(j.entry)
	if family == "ce" && len(j.doc) > 0 {
		family = "ce-cte"
		if j.doc[0] == 0x81 {
			family = "ce-cbe"
		}
	}
	return fmt.Sprintf("C29/read/%s/hang-after-failure/artificial-termination", family)
}

// Every hang leaves a spinning goroutine behind. Once a few documents have shown the defect, the unmarshal entry
// points are no longer run on documents with the constructs that are known to trigger it (edges, nodes, records,
// record types, markers, references); everything else still runs under the timeout.
var c29RiskyCache = map[string]bool{}

func c29Risky(doc []byte) bool {
	if v, ok := c29RiskyCache[string(doc)]; ok {
		return v
	}
	rec := &Recorder{}
	cfg := configuration.New()
	func() {
		defer func() { recover() }()
		if len(doc) > 0 && doc[0] == 0x81 {
			ce.NewCBEDecoder(cfg).DecodeDocument(doc, rec)
		} else {
			ce.NewCTEDecoder(cfg).DecodeDocument(doc, rec)
		}
	}()
	risky := false
	for _, e := range rec.Evs {
		switch e.K {
		case "edge", "node", "rec", "rt", "mk", "ref":
			risky = true
		}
	}
	c29RiskyCache[string(doc)] = risky
	return risky
}

func (c *Ctx) c29ReadJob(cf *caseFile, j c29RJob, scripts map[string][]string) {
	ctor, family, _ := c29ReadEntry(j.entry)
	unm := strings.Contains(j.entry, "unmarshal")
	if unm && c29Hung[string(j.doc)] {
		c.Dist("read/" + j.entry + "/skipped-document-hangs-unmarshal")
		return
	}
	if unm && len(c29Hung) >= c.Pick(2, 4) && c29Risky(j.doc) {
		c.Dist("read/" + j.entry + "/skipped-hang-budget-spent")
		return
	}
	none := c29RSched{faults: map[int]bool{}}
	out0, r0 := c29ReadOnce(j, none, false, 0, true)
	if out0 == "hang" {
		// no I/O failure involved: not this property's business, but the document cannot be used
		c29Hung[string(j.doc)] = true
		c.Dist("read/" + j.entry + "/skipped-document-hangs-without-failure")
		return
	}
	for _, cl := range r0.tr {
		if cl.site == "SUnknown" {
			c.Fail(Replay{Kind: "read", Key: "C29/harness/unknown-read-site", Input: j.input(none, false, 0), Expect: "a known call site", Got: fmt.Sprint(r0.tr)})
			return
		}
	}
	ncalls := r0.ncalls
	tag := j.entry
	c.Dist(fmt.Sprintf("read/%s/chunk=%d/calls<=%d/%s", tag, j.chunk, bucket(ncalls), out0))
	// the script of reader primitives comes from the direct CBE run of the same API level on the same document
	script := []string{}
	if family != "cte" {
		skey := "decode"
		if strings.Contains(j.entry, "unmarshal") {
			skey = "unmarshal"
		}
		if sc, ok := scripts[skey]; ok {
			script = sc
		}
	}
	lens := make([]string, len(r0.lens))
	for i, l := range r0.lens {
		lens[i] = cNi(l)
	}
	runs := []string{}
	human := []string{}
	var passRuns, passHuman []string
	hung := false
	one := func(s c29RSched, pass bool) {
		if hung {
			return
		}
		errIdx := c.Rng.Intn(len(c29Errs))
		out, r := c29ReadOnce(j, s, pass, errIdx, false)
		if out == "hang" {
			hung = true
			c29Hung[string(j.doc)] = true
			c.Count(fmt.Sprintf("r|%s|%d|%x|%s|%v|%v", tag, j.chunk, j.doc, s.faultsString(), s.sticky, pass), true)
			c.Dist(fmt.Sprintf("read/%s/failure-hit/hang", tag))
			c.Fail(Replay{Kind: "read", Key: c29HangKey(j), Input: j.input(s, pass, errIdx), Expect: "err", Got: "no return within " + c29HangTimeout.String()})
			return
		}
		item := cTuple(s.faultsCoq(), cBool(s.sticky), c29ObsCoq(out, r.ncalls))
		h := fmt.Sprintf("{%s sticky=%v -> %s/%d}", s.faultsString(), s.sticky, out, r.ncalls)
		c.Count(fmt.Sprintf("r|%s|%d|%x|%s|%v|%v", tag, j.chunk, j.doc, s.faultsString(), s.sticky, pass), r.failed)
		if pass {
			passRuns, passHuman = append(passRuns, item), append(passHuman, h)
			return
		}
		runs, human = append(runs, item), append(human, h)
		kind := "none"
		if r.failed {
			kind = "hit"
		}
		c.Dist(fmt.Sprintf("read/%s/failure-%s/%s", tag, kind, out))
		if r.failed && out != "err" {
			c.Fail(Replay{Kind: "read", Key: c29ReadKey(j, s, pass, errIdx, out), Input: j.input(s, pass, errIdx), Expect: "err", Got: out})
		}
		if r.failed && len(c.Rep.Samples) < 6 && len(c.Rep.Samples) >= 3 {
			c.Sample(map[string]string{"side": "read", "entry": tag, "doc_hex": hex.EncodeToString(j.doc), "chunk": strconv.Itoa(j.chunk), "faults": s.faultsString(), "outcome": out})
		}
	}
	// a single failure at every call: without / with data, transient / sticky
	for k := 0; k < ncalls; k++ {
		for _, dirty := range []bool{false, true} {
			for _, sticky := range []bool{false, true} {
				one(c29RSched{faults: map[int]bool{k: dirty}, sticky: sticky}, false)
			}
		}
	}
	// several failures
	for i := 0; i < c.Pick(3, 10) && ncalls > 0; i++ {
		s := c29RSched{faults: map[int]bool{}, sticky: c.Rng.Intn(4) == 0}
		for n := 2 + c.Rng.Intn(3); n > 0; n-- {
			s.faults[c.Rng.Intn(ncalls)] = c.Rng.Intn(2) == 0
		}
		one(s, false)
	}
	if ncalls > 0 {
		one(c29RSched{faults: map[int]bool{c.Rng.Intn(ncalls): false}}, true)
	}
	mk := func(pass bool, rs, hs []string) {
		cf.Add(cApp("ReadCase", ctor, cBool(pass), cBytes(j.doc), cList(script), cBool(out0 == "ok"), cNi(j.chunk), cList(lens), cList(rs)),
			fmt.Sprintf("read %s pass=%v doc=%x chunk=%d nofault=%s/%d runs=%s", tag, pass, j.doc, j.chunk, out0, ncalls, strings.Join(hs, " ")))
	}
	if hung {
		c.Dist("read/" + tag + "/no-case-document-hangs-unmarshal")
		return
	}
	mk(false, runs, human)
	if len(passRuns) > 0 {
		mk(true, passRuns, passHuman)
	}
}

// scripts of the CBE decoder on a document, per API level ("decode", "unmarshal")
func c29Scripts(doc []byte) (map[string][]string, bool) {
	out := map[string][]string{}
	for level, entry := range map[string]string{"decode": "cbe-decode", "unmarshal": "cbe-unmarshal"} {
		_, r := c29ReadOnce(c29RJob{entry: entry, doc: doc}, c29RSched{faults: map[int]bool{}}, false, 0, true)
		sc, ok := c29Script(r.tr)
		if !ok {
			return nil, false
		}
		out[level] = sc
	}
	return out, true
}

// ---------------------------------------------------------------------------
// documents

func c29EncodeEvents(format string, es []Ev) ([]byte, bool) {
	w := &c29Writer{sched: c29WSched{calls: map[int]bool{}, limit: -1}}
	var buf strings.Builder
	in := &c29WInput{evs: es}
	if c29RunWrite("rules-encoder", format, false, in, w, &buf) != "ok" {
		return nil, false
	}
	return []byte(buf.String()), true
}

func c29BoundaryCBE() [][]byte {
	h := func(s string) []byte {
		b, err := hex.DecodeString(strings.ReplaceAll(s, " ", ""))
		if err != nil {
			panic(err)
		}
		return b
	}
	return [][]byte{
		h("81 00 01"),                                                 // smallest
		h("81 80 80 00 01"),                                           // version as a 3-byte ULEB
		h("81 80 80 80 80 00 01"),                                     // 5-byte ULEB
		h("81 00 90 86 80 00 61 62 63"),                               // string, chunk header as a 3-byte ULEB
		h("81 00 90 87 80 00 61 62 63 82 80 80 00 64"),                // two chunks, long headers
		h("81 00 83 61 62 63"),                                        // short string
		h("81 00 66 09 01 02 03 04 05 06 07 08 09"),                   // big positive int (length field + bytes)
		h("81 00 6a ff ff"),                                           // uint16
		h("81 00 6e 01 02 03 04 05 06 07 08"),                         // uint64
		h("81 00 65 00 01 02 03 04 05 06 07 08 09 0a 0b 0c 0d 0e 0f"), // uid
		h("81 00 9a 01 83 61 62 63 7d 7c 9b"),                         // list
		h("81 00 99 81 61 01 9b"),                                     // map
		h("81 00 97 01 02 03"),                                        // edge (a failure inside it leaves an edge builder on the unmarshaler's stack)
		h("81 00 76 06 0c"),                                           // decimal float
		h("81 00 92 82 80 00 68"),                                     // resource id, long chunk header
		h("81 00 7f f1 83 80 00 61 00 01 ff"),                         // media: type length ULEB + chunk
		h("81 00 9a 01"),                                              // unterminated list (fails at EOF for another reason)
		h("81 00"),                                                    // no object
		h("81"),                                                       // truncated after the signature
		h("80 00 01"),                                                 // wrong signature
		h("81 00 6e 01 02"),                                           // truncated fixed-width integer
		h("81 00 90 86 80"),                                           // truncated inside a ULEB
		{},
	}
}

func c29BoundaryCTE() [][]byte {
	return [][]byte{
		[]byte("c0 1"), []byte("c0\n[1 2 \"a\"]"), []byte("c1 {\"a\" = 1}"), []byte("C0 \"héllo ☃\""), []byte("c0 |u8x 01 02 03|"),
		[]byte("c0 @(1 2 3)"), []byte("c0 [1"), []byte("c0"), []byte("c"), []byte("x0 1"), []byte("c0 1 2"),
	}
}

// ---------------------------------------------------------------------------

func runC29(c *Ctx) {
	c29Calibrate()
	c.Rep.Rule = "write: (value | event stream | every string-like / array / big-number kind at lengths around every power of two from 16 to 65536, so that one logical write is larger than any scratch buffer) x {cbe,cte} x {MarshalCBE/CTE, reused Marshaler, Encoder events, Rules+Encoder events} x destination {io.Writer, io.StringWriter} x schedule {single transient failure at every call index, after every byte offset (quick: <=24 offsets), random multi-failure, sticky}; " +
		"read: document (generated valid CBE/CTE, boundary set with multi-byte ULEBs / truncations / wrong header, mutated) x {UnmarshalCBE/CTE/CE, reused Unmarshaler, CBE/CTE/universal Decoder.Decode} x bytes-per-Read {all,1,3} x schedule {one failure at every call index x with/without data x transient/sticky, random multi-failure}; " +
		"non-trivial = the injected failure was actually reached by the operation; distinct = distinct (entry, input, destination/source behaviour, schedule)"
	cf := c.Cases("iofail", "CE.Model.IoFail", "iofail_case", "iofail_case_ok")
	cf.preamble = c29Preamble
	cf.perFile = 100

	// 1. shape
	shape, notes := c29Shape()
	items := []string{}
	for _, s := range c29ShapeOrder {
		cls, ok := shape[s]
		if !ok {
			cls = "Unchecked"
		}
		items = append(items, cPair(s, cls))
		c.Dist("shape/" + s + "=" + cls)
	}
	for range notes {
		items = append(items, cPair("SUnknown", "Unchecked"))
	}
	c.Rep.Extra["shape_notes"] = notes
	c.Rep.Extra["shape"] = shape
	cf.Add(cApp("ShapeCase", cList(items)), "shape "+strings.Join(items, " ")+" notes="+strings.Join(notes, "; "))
	c.Count("shape", true)

	// 2. write side
	winputs := []*c29WInput{}
	fixed := c29FixedValues()
	for i, v := range fixed {
		if !c.Thorough() && i%3 != int(c.Seed%3+3)%3 && i > 12 {
			continue
		}
		winputs = append(winputs, &c29WInput{desc: fmt.Sprintf("fixed#%d(%T)", i, v), ref: map[string]string{"value_fixed": strconv.Itoa(i)}, value: v})
	}
	for i := 0; i < c.Pick(10, 60); i++ {
		seed := c.Rng.Int63()
		v, _ := c29ValueByRef(map[string]string{"value_seed": strconv.FormatInt(seed, 10)})
		winputs = append(winputs, &c29WInput{desc: fmt.Sprintf("gen(%d)", seed), ref: map[string]string{"value_seed": strconv.FormatInt(seed, 10)}, value: v})
	}
	streams := []*c29WInput{}
	for i := 0; i < c.Pick(12, 80); i++ {
		seed := c.Rng.Int63()
		es, _ := c29EventsByRef(map[string]string{"events_seed": strconv.FormatInt(seed, 10)})
		if len(es) > c.Pick(40, 200) {
			continue
		}
		streams = append(streams, &c29WInput{desc: fmt.Sprintf("events(%d)", seed), ref: map[string]string{"events_seed": strconv.FormatInt(seed, 10)}, evs: es})
	}
	for _, doc := range c29BoundaryCBE() {
		ref := map[string]string{"events_doc_hex": hex.EncodeToString(doc)}
		if es, ok := c29EventsByRef(ref); ok {
			streams = append(streams, &c29WInput{desc: fmt.Sprintf("events-of(%x)", doc), ref: ref, evs: es})
		}
	}
	// payloads that do not fit the writers' scratch buffers (write side only: the documents are too long for the
	// every-call read schedules; the read side has its own large documents below)
	longStreams := []*c29WInput{}
	for ki, kind := range c29LongKinds {
		for _, n := range c.c29LongLengths(ki, kind == "string") {
			ref := map[string]string{"value_long": fmt.Sprintf("%s:%d", kind, n)}
			if v, ok := c29ValueByRef(ref); ok {
				winputs = append(winputs, &c29WInput{long: c29LongClass(kind), desc: fmt.Sprintf("long(%s,%d)", kind, n), ref: ref, value: v})
			}
		}
	}
	for ki, kind := range c29LongEvKinds {
		for _, n := range c.c29LongLengths(ki+3, kind == "string") {
			ref := map[string]string{"events_long": fmt.Sprintf("%s:%d", kind, n)}
			if es, ok := c29EventsByRef(ref); ok {
				longStreams = append(longStreams, &c29WInput{long: c29LongClass(kind), desc: fmt.Sprintf("long-events(%s,%d)", kind, n), ref: ref, evs: es})
			}
		}
	}
	for _, format := range []string{"cbe", "cte"} {
		for _, in := range winputs {
			for _, entry := range []string{"marshal", "marshaler"} {
				for _, sw := range []bool{false, true} {
					if entry == "marshaler" && sw != (c.Rng.Intn(2) == 0) && !c.Thorough() {
						continue
					}
					if entry == "marshal" && sw && in.long == 2 && !c.Thorough() {
						continue
					}
					c.c29WriteJob(cf, c29WJob{entry: entry, format: format, sw: sw, in: in})
				}
			}
		}
		for _, in := range append(append([]*c29WInput{}, streams...), longStreams...) {
			for _, entry := range []string{"encoder", "rules-encoder"} {
				for _, sw := range []bool{false, true} {
					if entry == "rules-encoder" && sw != (c.Rng.Intn(2) == 0) && !c.Thorough() {
						continue
					}
					if entry == "encoder" && sw && in.long == 2 && !c.Thorough() {
						continue
					}
					c.c29WriteJob(cf, c29WJob{entry: entry, format: format, sw: sw, in: in})
				}
			}
		}
	}

	// 3. read side
	cbeDocs := c29BoundaryCBE()
	cteDocs := c29BoundaryCTE()
	maxDoc := c.Pick(48, 160)
	for _, in := range streams {
		if d, ok := c29EncodeEvents("cbe", in.evs); ok && len(d) <= maxDoc {
			cbeDocs = append(cbeDocs, d)
			// malformed streams: a truncation and a mutation of the valid document
			if len(d) > 3 && c.Rng.Intn(3) == 0 {
				cbeDocs = append(cbeDocs, append([]byte{}, d[:2+c.Rng.Intn(len(d)-2)]...))
				m := append([]byte{}, d...)
				m[2+c.Rng.Intn(len(m)-2)] = byte(c.Rng.Intn(256))
				cbeDocs = append(cbeDocs, m)
			}
		}
		if d, ok := c29EncodeEvents("cte", in.evs); ok && len(d) <= maxDoc {
			cteDocs = append(cteDocs, d)
			if len(d) > 3 && c.Rng.Intn(4) == 0 {
				cteDocs = append(cteDocs, append([]byte{}, d[:2+c.Rng.Intn(len(d)-2)]...))
			}
		}
	}
	chunks := []int{0, 1, 3}
	seenDoc := map[string]bool{}
	for _, doc := range cbeDocs {
		if seenDoc[string(doc)] {
			continue
		}
		seenDoc[string(doc)] = true
		scripts, ok := c29Scripts(doc)
		if !ok {
			c.Fail(Replay{Kind: "read", Key: "C29/harness/unknown-read-site", Input: map[string]string{"side": "read", "entry": "cbe-decode", "doc_hex": hex.EncodeToString(doc), "chunk": "0", "faults": "", "sticky": "false", "pass_through_panics": "false", "error": "0"},
				Expect: "a known call site", Got: "cannot reconstruct the reader primitives"})
			continue
		}
		c.Dist(fmt.Sprintf("docs/cbe/len<=%d", bucket(len(doc))))
		for _, e := range []string{"cbe-unmarshal", "cbe-unmarshaler", "cbe-decode", "ce-unmarshal", "ce-decode"} {
			for _, ch := range chunks {
				if !c.Thorough() && (e == "cbe-unmarshaler" || e == "ce-decode") && ch != chunks[c.Rng.Intn(len(chunks))] {
					continue
				}
				c.c29ReadJob(cf, c29RJob{entry: e, doc: doc, chunk: ch}, scripts)
			}
		}
	}
	for _, doc := range cteDocs {
		if seenDoc[string(doc)] {
			continue
		}
		seenDoc[string(doc)] = true
		c.Dist(fmt.Sprintf("docs/cte/len<=%d", bucket(len(doc))))
		for _, e := range []string{"cte-unmarshal", "cte-unmarshaler", "cte-decode", "ce-unmarshal", "ce-decode"} {
			for _, ch := range chunks {
				if !c.Thorough() && (e == "cte-unmarshaler" || e == "ce-decode") && ch != chunks[c.Rng.Intn(len(chunks))] {
					continue
				}
				c.c29ReadJob(cf, c29RJob{entry: e, doc: doc, chunk: ch}, map[string][]string{})
			}
		}
	}
	// a document larger than bufio's buffer and io.Copy's chunk boundaries: oracle only for the universal entry points
	// plus one correspondence case each with a handful of schedules
	c.c29BigDocs(cf)
}

// large documents: a long string (3-byte ULEB length, reads larger than bufio's buffer)
func (c *Ctx) c29BigDocs(cf *caseFile) {
	cfg := configuration.New()
	val := []interface{}{strings.Repeat("abcdefgh", c.Pick(1100, 2100)), 1}
	for _, format := range []string{"cbe", "cte"} {
		var doc []byte
		var err error
		if format == "cbe" {
			doc, err = ce.MarshalToCBEDocument(val, cfg)
		} else {
			doc, err = ce.MarshalToCTEDocument(val, cfg)
		}
		if err != nil {
			continue
		}
		for _, e := range []string{format + "-unmarshal", format + "-decode", "ce-unmarshal", "ce-decode"} {
			for _, ch := range []int{0, 1000} {
				j := c29RJob{entry: e, doc: doc, chunk: ch}
				none := c29RSched{faults: map[int]bool{}}
				_, r0 := c29ReadOnce(j, none, false, 0, false)
				for k := 0; k < r0.ncalls; k++ {
					for _, dirty := range []bool{false, true} {
						for _, sticky := range []bool{false, true} {
							s := c29RSched{faults: map[int]bool{k: dirty}, sticky: sticky}
							errIdx := c.Rng.Intn(len(c29Errs))
							out, r := c29ReadOnce(j, s, false, errIdx, false)
							if out == "hang" {
								c.Fail(Replay{Kind: "read", Key: c29HangKey(j), Input: j.input(s, false, errIdx), Expect: "err", Got: "no return within " + c29HangTimeout.String()})
								continue
							}
							c.Count(fmt.Sprintf("rbig|%s|%s|%d|%d|%v|%v", format, e, ch, k, dirty, sticky), r.failed)
							c.Dist(fmt.Sprintf("read-big/%s/%s/failure-%v/%s", format, e, r.failed, out))
							if r.failed && out != "err" {
								c.Fail(Replay{Kind: "read", Key: c29ReadKey(j, s, false, errIdx, out), Input: j.input(s, false, errIdx), Expect: "err", Got: out})
							}
						}
					}
				}
			}
		}
	}
}

// ---------------------------------------------------------------------------

func replayC29(r *Replay) (bool, string) {
	c29Calibrate()
	in := r.Input
	pass := in["pass_through_panics"] == "true"
	errIdx, _ := strconv.Atoi(in["error"])
	switch in["side"] {
	case "write":
		j := c29WJob{entry: in["entry"], format: in["format"], sw: in["string_writer"] == "true", in: &c29WInput{ref: in}}
		ok := false
		switch j.entry {
		case "marshal", "marshaler":
			j.in.value, ok = c29ValueByRef(in)
		case "encoder", "rules-encoder":
			j.in.evs, ok = c29EventsByRef(in)
		}
		if !ok || (j.format != "cbe" && j.format != "cte") {
			return false, "bad replay input"
		}
		s := c29WSched{calls: map[int]bool{}, limit: -1, sticky: in["sticky"] == "true"}
		if l, err := strconv.Atoi(in["limit"]); err == nil {
			s.limit = l
		}
		for _, f := range strings.Split(in["fail_calls"], ",") {
			if k, err := strconv.Atoi(f); err == nil {
				s.calls[k] = true
			}
		}
		w := &c29Writer{sched: s, err: c29Errs[errIdx%len(c29Errs)], trace: in["via_bufio"] != "true"}
		var dest io.Writer = w.dest(j.sw)
		if in["via_bufio"] == "true" {
			dest = bufio.NewWriterSize(w, 16)
		}
		out := c29RunWrite(j.entry, j.format, pass, j.in, w, dest)
		okv, expect, _ := c29WriteVerdict(j, out, w)
		if in["via_bufio"] == "true" {
			okv, expect = !w.failed || out == "err", "err"
		}
		unknown := 0
		for _, cl := range w.calls {
			if w.trace && (cl.lsite == "?" || cl.psite == "SUnknown") {
				unknown++
			}
		}
		if okv && unknown > 0 {
			return false, fmt.Sprintf("%s %s: %d of %d calls on the destination are issued from a place that is none of the write sites whose error handling is known -> %s", j.format, j.entry, unknown, len(w.calls), out)
		}
		return okv, fmt.Sprintf("%s %s: destination calls=%d failed=%v -> %s (required when the destination failed: %s)", j.format, j.entry, len(w.calls), w.failed, out, expect)
	case "read":
		doc, err := hex.DecodeString(in["doc_hex"])
		if _, _, known := c29ReadEntry(in["entry"]); err != nil || !known {
			return false, "bad replay input"
		}
		j := c29RJob{entry: in["entry"], doc: doc}
		j.chunk, _ = strconv.Atoi(in["chunk"])
		s := c29RSched{faults: map[int]bool{}, sticky: in["sticky"] == "true"}
		for _, f := range strings.Split(in["faults"], ",") {
			p := strings.Split(f, ":")
			if k, err := strconv.Atoi(p[0]); err == nil && len(p) == 2 {
				s.faults[k] = p[1] == "d"
			}
		}
		out, rd := c29ReadOnce(j, s, pass, errIdx, false)
		if out == "hang" {
			return false, fmt.Sprintf("%s: the call did not return within %s", j.entry, c29HangTimeout)
		}
		return !rd.failed || out == "err", fmt.Sprintf("%s: source calls=%d, a Read returned a non-EOF error=%v (first at call %d) -> %s (required then: err)", j.entry, rd.ncalls, rd.failed, rd.firstFail, out)
	}
	return false, "unknown replay input"
}
