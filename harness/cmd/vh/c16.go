package main

// C16 — reused instances behave like fresh ones.
//
// Search oracle: one instance (validator, decoder, encoder, marshaler,
// unmarshaler) is driven through a random history of operations; every
// operation is also given to a freshly created instance of the same kind and
// configuration, and the two observations (output bytes / forwarded events /
// decoded value / error-or-not / hang) must be equal.  A watchdog turns a call
// that blocks forever into the observation "hang".
//
// Correspondence: the same histories, restricted to the domain of the
// executable model CE.Model.Reuse, are written out as reuse_case terms together
// with what the REUSED implementation instance did; coqc compares with the
// model (which is faithful to the code, defects included).

import (
	"bytes"
	"encoding/hex"
	"fmt"
	"math"
	"os"
	"reflect"
	"runtime"
	"sort"
	"strconv"
	"strings"
	"time"
	"unsafe"

	"github.com/kstenerud/go-concise-encoding/ce"
	"github.com/kstenerud/go-concise-encoding/ce/events"
	"github.com/kstenerud/go-concise-encoding/configuration"
)

func init() { register("C16", runC16, replayC16) }

// ---------------------------------------------------------------------------
// Configuration of an instance: the limits that matter here.

type c16Cfg struct {
	MaxDoc, MaxDepth, MaxObjects uint64 // 0 = library default
}

func (k c16Cfg) config() *configuration.Configuration {
	cfg := configuration.New()
	if k.MaxDoc != 0 {
		cfg.Rules.MaxDocumentSizeBytes = k.MaxDoc
	}
	if k.MaxDepth != 0 {
		cfg.Rules.MaxContainerDepth = k.MaxDepth
	}
	if k.MaxObjects != 0 {
		cfg.Rules.MaxObjectCount = k.MaxObjects
	}
	return cfg
}

func (k c16Cfg) String() string { return fmt.Sprintf("%d/%d/%d", k.MaxDoc, k.MaxDepth, k.MaxObjects) }

func c16ParseCfg(s string) c16Cfg {
	p := strings.Split(s, "/")
	u := func(i int) uint64 {
		if i >= len(p) {
			return 0
		}
		v, _ := strconv.ParseUint(p[i], 10, 64)
		return v
	}
	return c16Cfg{u(0), u(1), u(2)}
}

func (k c16Cfg) rulesCfg() RulesCfg {
	r := k.config().Rules
	return RulesCfg{MaxObjects: r.MaxObjectCount, MaxDepth: r.MaxContainerDepth, MaxArray: r.MaxArraySizeBytes, MaxIdent: r.MaxIdentifierLength, MaxRefs: r.MaxLocalReferenceCount}
}

// ---------------------------------------------------------------------------
// Operations.  One op type for all kinds; each kind reads the fields it needs.

type c16Op struct {
	Evs []Ev   // validator / encoders
	Doc []byte // decoders / unmarshalers
	Val string // marshalers: name in c16Values; unmarshalers: name in c16Templates
}

func (o c16Op) text(kind string) string {
	switch c16Family(kind) {
	case "events":
		return evsString(o.Evs)
	case "doc":
		return hex.EncodeToString(o.Doc)
	case "value":
		return o.Val
	default: // unmarshal
		return o.Val + "@" + hex.EncodeToString(o.Doc)
	}
}

func c16ParseOp(kind, s string) (c16Op, error) {
	switch c16Family(kind) {
	case "events":
		es, err := parseEvs(s)
		return c16Op{Evs: es}, err
	case "doc":
		b, err := hex.DecodeString(s)
		return c16Op{Doc: b}, err
	case "value":
		if _, ok := c16Values[s]; !ok {
			return c16Op{}, fmt.Errorf("unknown value %q", s)
		}
		return c16Op{Val: s}, nil
	default:
		i := strings.Index(s, "@")
		if i < 0 {
			return c16Op{}, fmt.Errorf("bad unmarshal op %q", s)
		}
		b, err := hex.DecodeString(s[i+1:])
		if _, ok := c16Templates[s[:i]]; !ok {
			return c16Op{}, fmt.Errorf("unknown template %q", s[:i])
		}
		return c16Op{Val: s[:i], Doc: b}, err
	}
}

var c16Kinds = []string{"rules", "cbe-decoder", "cte-decoder", "ce-decoder", "cbe-encoder", "cte-encoder",
	"cbe-marshaler", "cte-marshaler", "cbe-unmarshaler", "cte-unmarshaler"}

func c16Family(kind string) string {
	switch kind {
	case "rules", "cbe-encoder", "cte-encoder":
		return "events"
	case "cbe-decoder", "cte-decoder", "ce-decoder":
		return "doc"
	case "cbe-marshaler", "cte-marshaler":
		return "value"
	}
	return "unmarshal"
}

// ---------------------------------------------------------------------------
// Go values handed to marshalers and templates handed to unmarshalers.
// Each constructor returns a new value on every call so that nothing is shared
// between the reused and the fresh instance.

type c16S1 struct {
	A int
	B string
}
type c16S2 struct {
	P *c16S1
	L []int
	M map[string]int
}
type c16MyInt int
type c16Rec struct {
	V    int
	Next *c16Rec
}
type c16BadS struct {
	A int
	C chan int
}
type c16BadOuter struct {
	X int
	S c16BadS
}
type c16BadCyc struct {
	P *c16BadCyc
	C chan int
}
type c16Dyn struct {
	A int
	I interface{}
}
type c16GoodOuter struct {
	S c16S1
	N c16MyInt
}

var c16Values = map[string]func() interface{}{
	"nil":        func() interface{} { return nil },
	"int":        func() interface{} { return 42 },
	"string":     func() interface{} { return "hello" },
	"ints":       func() interface{} { return []int{1, 2, 3} },
	"strmap":     func() interface{} { return map[string]int{"a": 1} },
	"S1":         func() interface{} { return c16S1{7, "x"} },
	"pS1":        func() interface{} { return &c16S1{8, "y"} },
	"S2":         func() interface{} { return c16S2{&c16S1{1, "p"}, []int{4}, map[string]int{"k": 2}} },
	"myint":      func() interface{} { return c16MyInt(5) },
	"myints":     func() interface{} { return []c16MyInt{1, 2} },
	"rec":        func() interface{} { return c16Rec{1, &c16Rec{2, nil}} },
	"goodouter":  func() interface{} { return c16GoodOuter{c16S1{1, "g"}, 3} },
	"iface-list": func() interface{} { return []interface{}{1, "a", c16S1{2, "b"}} },
	"dyn-good":   func() interface{} { return c16Dyn{1, c16S1{3, "d"}} },
	// unsupported types
	"chan":         func() interface{} { return make(chan int) },
	"func":         func() interface{} { return func() {} },
	"complex":      func() interface{} { return complex(1, 2) },
	"unsafeptr":    func() interface{} { var x int; return unsafe.Pointer(&x) },
	"badS":         func() interface{} { return c16BadS{1, nil} },
	"pbadS":        func() interface{} { return &c16BadS{1, nil} },
	"badouter":     func() interface{} { return c16BadOuter{1, c16BadS{2, nil}} },
	"chans":        func() interface{} { return []chan int{nil} },
	"chanmap":      func() interface{} { return map[string]chan int{"a": nil} },
	"badcyc":       func() interface{} { return c16BadCyc{} },
	"pbadcyc":      func() interface{} { return &c16BadCyc{P: &c16BadCyc{}} },
	"iface-chan":   func() interface{} { return []interface{}{1, make(chan int), 2} },
	"iface-badS":   func() interface{} { return []interface{}{"x", c16BadS{1, nil}} },
	"dyn-bad":      func() interface{} { return c16Dyn{1, make(chan int)} },
	"iface-pbadS":  func() interface{} { return []interface{}{&c16BadS{1, nil}} },
	"iface-chans2": func() interface{} { return []interface{}{[]chan int{nil}} },
}

var c16GoodValues = []string{"nil", "int", "string", "ints", "strmap", "S1", "pS1", "S2", "myint", "myints", "rec", "goodouter", "iface-list", "dyn-good"}
var c16BadValues = []string{"chan", "func", "complex", "unsafeptr", "badS", "pbadS", "badouter", "chans", "chanmap", "badcyc", "pbadcyc",
	"iface-chan", "iface-badS", "dyn-bad", "iface-pbadS", "iface-chans2"}

var c16Templates = map[string]func() interface{}{
	"nil":       func() interface{} { return nil },
	"int":       func() interface{} { return 0 },
	"string":    func() interface{} { return "" },
	"ints":      func() interface{} { return []int{} },
	"strmap":    func() interface{} { return map[string]int{} },
	"S1":        func() interface{} { return c16S1{} },
	"pS1":       func() interface{} { return &c16S1{} },
	"S1s":       func() interface{} { return []c16S1{} },
	"myint":     func() interface{} { return c16MyInt(0) },
	"goodouter": func() interface{} { return c16GoodOuter{} },
	"chan":      func() interface{} { return make(chan int) },
	"func":      func() interface{} { return func() {} },
	"complex":   func() interface{} { return complex(0, 0) },
	"badS":      func() interface{} { return c16BadS{} },
	"pbadS":     func() interface{} { return &c16BadS{} },
	"badouter":  func() interface{} { return c16BadOuter{} },
	"chans":     func() interface{} { return []chan int{} },
	"chanmap":   func() interface{} { return map[string]chan int{} },
	"badcyc":    func() interface{} { return c16BadCyc{} },
}
var c16GoodTemplates = []string{"nil", "int", "string", "ints", "strmap", "S1", "pS1", "S1s", "myint", "goodouter"}
var c16BadTemplates = []string{"chan", "func", "complex", "badS", "pbadS", "badouter", "chans", "chanmap", "badcyc"}

// ---------------------------------------------------------------------------
// Watchdog.  A call that is still running after a grace period and whose
// goroutine sits in sync.WaitGroup.Wait is blocked for good (nothing else runs
// that could release it): observation "hang".  The goroutine stays behind.

var c16Leaked int // goroutines already known to be blocked forever
var c16Spins int  // calls that neither returned nor parked within the deadline

func c16WaitingWorkers() int {
	buf := make([]byte, 1<<20)
	n := runtime.Stack(buf, true)
	for n == len(buf) && len(buf) < 1<<28 { // truncated: leaked goroutines add up
		buf = make([]byte, 4*len(buf))
		n = runtime.Stack(buf, true)
	}
	cnt := 0
	for _, g := range strings.Split(string(buf[:n]), "\n\n") {
		if strings.Contains(g, "c16Worker") && (strings.Contains(g, "sync.(*WaitGroup).Wait") || strings.Contains(g, "sync.runtime_Semacquire")) {
			cnt++
		}
	}
	return cnt
}

func c16Worker(f func() string, done chan string) {
	defer func() {
		if r := recover(); r != nil {
			done <- "panic"
		}
	}()
	done <- f()
}

// c16Watch runs f; returns its result, or "hang" when it blocks forever.
func c16Watch(f func() string) string {
	done := make(chan string, 1)
	go c16Worker(f, done)
	deadline := time.After(3 * time.Second)
	blockedPolls := 0
	for {
		select {
		case r := <-done:
			return r
		case <-deadline:
			// still running but not parked on a WaitGroup: a busy loop (not what C16 is about; the
			// goroutine keeps a core busy, so the caller stops generating inputs of this family)
			c16Spins++
			if os.Getenv("C16_DEBUG") != "" {
				buf := make([]byte, 1<<20)
				n := runtime.Stack(buf, true)
				fmt.Fprintf(os.Stderr, "c16: DEADLINE, stacks:\n%s\n", buf[:n])
			}
			return "spin"
		case <-time.After(15 * time.Millisecond):
			if c16WaitingWorkers() > c16Leaked {
				blockedPolls++
				if blockedPolls >= 3 {
					c16Leaked++
					return "hang"
				}
			} else {
				blockedPolls = 0
			}
		}
	}
}

// ---------------------------------------------------------------------------
// Instances.

type c16Inst struct {
	kind string
	cfg  c16Cfg
	dead bool // a call hung: the instance is still in use by the blocked goroutine
	// exactly one of these is set
	rules *c16RulesInst
	dec   ce.Decoder
	enc   ce.Encoder
	mar   ce.Marshaler
	unm   ce.Unmarshaler
}

type c16RulesInst struct {
	rec *Recorder
	r   interface {
		events.DataEventReceiver
		Reset()
	}
}

func c16New(kind string, k c16Cfg) *c16Inst {
	cfg := k.config()
	in := &c16Inst{kind: kind, cfg: k}
	switch kind {
	case "rules":
		rec := &Recorder{}
		in.rules = &c16RulesInst{rec: rec, r: ce.NewRules(rec, cfg)}
	case "cbe-decoder":
		in.dec = ce.NewCBEDecoder(cfg)
	case "cte-decoder":
		in.dec = ce.NewCTEDecoder(cfg)
	case "ce-decoder":
		in.dec = ce.NewCEDecoder(cfg)
	case "cbe-encoder":
		in.enc = ce.NewCBEEncoder(cfg)
	case "cte-encoder":
		in.enc = ce.NewCTEEncoder(cfg)
	case "cbe-marshaler":
		in.mar = ce.NewCBEMarshaler(cfg)
	case "cte-marshaler":
		in.mar = ce.NewCTEMarshaler(cfg)
	case "cbe-unmarshaler":
		in.unm = ce.NewCBEUnmarshaler(cfg)
	case "cte-unmarshaler":
		in.unm = ce.NewCTEUnmarshaler(cfg)
	default:
		panic("c16: unknown kind " + kind)
	}
	return in
}

// call performs one use of the instance (reset point included) and renders
// the observation.  Error texts are never part of it.
func (in *c16Inst) call(op c16Op) string {
	if in.dead {
		return "hang"
	}
	res := c16Watch(func() string { return in.callInner(op) })
	if res == "spin" && os.Getenv("C16_DEBUG") != "" {
		fmt.Fprintf(os.Stderr, "c16: SPIN kind=%s cfg=%s op=%s\n", in.kind, in.cfg, op.text(in.kind))
	}
	if res == "hang" || res == "spin" {
		in.dead = true
	}
	return res
}

func (in *c16Inst) callInner(op c16Op) string {
	switch {
	case in.rules != nil:
		in.rules.r.Reset()
		in.rules.rec.Evs = nil
		at, _ := playAll(in.rules.r, op.Evs)
		return fmt.Sprintf("rej=%d|%s", at, evsString(in.rules.rec.Evs))
	case in.dec != nil:
		if len(op.Doc) == 0 && in.kind == "ce-decoder" {
			return "skip" // UniversalDecoder.DecodeDocument indexes document[0]
		}
		rec := &Recorder{}
		rcv := ce.NewRules(rec, in.cfg.config())
		err := in.dec.DecodeDocument(cp(op.Doc), rcv)
		return renderResult(evsString(rec.Evs), err, nil)
	case in.enc != nil:
		var buf bytes.Buffer
		in.enc.PrepareToEncode(&buf)
		at, _ := playAll(in.enc, op.Evs)
		return fmt.Sprintf("rej=%d|%s", at, hex.EncodeToString(buf.Bytes()))
	case in.mar != nil:
		doc, err := in.mar.MarshalToDocument(c16Values[op.Val]())
		if err != nil {
			return "err|" + hex.EncodeToString(doc)
		}
		return "ok|" + hex.EncodeToString(doc)
	default:
		v, err := in.unm.UnmarshalFromDocument(cp(op.Doc), c16Templates[op.Val]())
		return c16RenderValue(v, err)
	}
}

func c16RenderValue(v interface{}, err error) (s string) {
	defer func() {
		if r := recover(); r != nil {
			s = "unrenderable"
		}
	}()
	d := c16Render(reflect.ValueOf(v), 0)
	if err != nil {
		return "err|" + d
	}
	return "ok|" + d
}

// c16Render prints a decoded value deterministically by reflection: map entries sorted by their
// rendered key, pointers followed (never printed), floats by bit pattern; leaf library types
// (times, big numbers, URLs ...) through their String method.
func c16Render(v reflect.Value, depth int) string {
	if !v.IsValid() {
		return "nil"
	}
	if depth > 14 {
		return "…"
	}
	t := v.Type()
	if (v.Kind() == reflect.Struct || (v.Kind() == reflect.Ptr && !v.IsNil() && t.Elem().Kind() == reflect.Struct)) && v.CanInterface() {
		pkg := t.PkgPath()
		if v.Kind() == reflect.Ptr {
			pkg = t.Elem().PkgPath()
		}
		if !strings.HasSuffix(pkg, "/types") && pkg != "main" {
			if st, ok := v.Interface().(fmt.Stringer); ok {
				return t.String() + "<" + st.String() + ">"
			}
		}
	}
	switch v.Kind() {
	case reflect.Interface, reflect.Ptr:
		if v.IsNil() {
			return "nil"
		}
		if v.Kind() == reflect.Ptr {
			return "&" + c16Render(v.Elem(), depth+1)
		}
		return c16Render(v.Elem(), depth+1)
	case reflect.Map:
		if v.IsNil() {
			return t.String() + "(nil)"
		}
		items := []string{}
		for _, k := range v.MapKeys() {
			items = append(items, c16Render(k, depth+1)+"="+c16Render(v.MapIndex(k), depth+1))
		}
		sort.Strings(items)
		return t.String() + "{" + strings.Join(items, " ") + "}"
	case reflect.Slice, reflect.Array:
		if v.Kind() == reflect.Slice && v.IsNil() {
			return t.String() + "(nil)"
		}
		items := []string{}
		for i := 0; i < v.Len(); i++ {
			items = append(items, c16Render(v.Index(i), depth+1))
		}
		return t.String() + "[" + strings.Join(items, " ") + "]"
	case reflect.Struct:
		items := []string{}
		for i := 0; i < v.NumField(); i++ {
			items = append(items, t.Field(i).Name+":"+c16Render(v.Field(i), depth+1))
		}
		return t.String() + "{" + strings.Join(items, " ") + "}"
	case reflect.Bool:
		return fmt.Sprint(v.Bool())
	case reflect.Int, reflect.Int8, reflect.Int16, reflect.Int32, reflect.Int64:
		return fmt.Sprintf("%s(%d)", t, v.Int())
	case reflect.Uint, reflect.Uint8, reflect.Uint16, reflect.Uint32, reflect.Uint64, reflect.Uintptr:
		return fmt.Sprintf("%s(%d)", t, v.Uint())
	case reflect.Float32, reflect.Float64:
		return fmt.Sprintf("%s(%016x)", t, math.Float64bits(v.Float()))
	case reflect.Complex64, reflect.Complex128:
		c := v.Complex()
		return fmt.Sprintf("%s(%016x,%016x)", t, math.Float64bits(real(c)), math.Float64bits(imag(c)))
	case reflect.String:
		return fmt.Sprintf("%q", v.String())
	}
	return t.String() // chan, func, unsafe pointer
}

// ---------------------------------------------------------------------------
// The property on one history.

type c16Step struct {
	Reused, Fresh string
}

// c16RunHistory drives one reused instance through ops and a fresh instance per op.
func c16RunHistory(kind string, k c16Cfg, ops []c16Op) []c16Step {
	in := c16New(kind, k)
	out := make([]c16Step, 0, len(ops))
	for _, op := range ops {
		fresh := c16New(kind, k).call(op)
		reused := in.call(op)
		out = append(out, c16Step{reused, fresh})
		if reused == "hang" || reused == "spin" || fresh == "spin" {
			break // the instance is gone
		}
	}
	return out
}

func c16Class(st c16Step) string {
	r, f := st.Reused, st.Fresh
	head := func(s string) string {
		if i := strings.Index(s, "|"); i >= 0 {
			return s[:i]
		}
		return s
	}
	switch {
	case r == "hang":
		return "hang"
	case r == "spin":
		return "busy-loop"
	case r == "panic" || f == "panic":
		return "panic"
	case head(r) != head(f):
		return "verdict-differs"
	default:
		return "output-differs"
	}
}

func c16HistoryText(kind string, ops []c16Op) string {
	ss := make([]string, len(ops))
	for i, o := range ops {
		ss[i] = o.text(kind)
	}
	return strings.Join(ss, " ; ")
}

func c16ParseHistory(kind, s string) ([]c16Op, error) {
	ops := []c16Op{}
	if strings.TrimSpace(s) == "" {
		return ops, nil
	}
	for _, part := range strings.Split(s, " ; ") {
		o, err := c16ParseOp(kind, strings.TrimSpace(part))
		if err != nil {
			return nil, err
		}
		ops = append(ops, o)
	}
	return ops, nil
}

// c16Check evaluates the property on a history and records failures (first
// diverging call only: later calls of the same history run on a state that
// already differs).
func c16Check(c *Ctx, kind string, k c16Cfg, ops []c16Op, tag string) []c16Step {
	steps := c16RunHistory(kind, k, ops)
	if i := c16FirstDivergence(kind, ops, steps); i >= 0 {
		st := steps[i]
		c.Fail(Replay{Kind: "history", Key: c16Key(kind, k, ops[:i+1], st),
			Input:  map[string]string{"kind": kind, "cfg": k.String(), "history": c16HistoryText(kind, ops[:i+1])},
			Expect: c16Trunc(st.Fresh), Got: c16Trunc(st.Reused), Note: tag + fmt.Sprintf("; call %d of the history diverges", i+1)})
	}
	return steps
}

// c16FirstDivergence: index of the first call on which the reused instance answers differently
// from a fresh one (-1: none).  Only the first one counts: later calls run on a state that
// already differs.  Calls that are not compared:
//   - a busy loop ("spin") that the fresh instance runs into as well is a different defect;
//   - the CTE encoder is reset by OnBeginDocument (EncoderContext.Begin): an event stream that
//     does not start with it never reset the instance, so the property says nothing about it
//     (the CBE encoder is reset by PrepareToEncode, which every call performs).
func c16FirstDivergence(kind string, ops []c16Op, steps []c16Step) int {
	for i, st := range steps {
		if st.Fresh == "skip" || st.Fresh == "spin" {
			continue
		}
		if kind == "cte-encoder" && (len(ops[i].Evs) == 0 || ops[i].Evs[0].K != "bd") {
			continue
		}
		if st.Reused != st.Fresh {
			return i
		}
	}
	return -1
}

// c16Key names the failure class: kind, how the answers differ, and the feature of the history
// that explains it (so that one defect maps to few keys).
func c16Key(kind string, k c16Cfg, ops []c16Op, st c16Step) string {
	key := "C16/" + kind + "/" + c16Class(st)
	last := ops[len(ops)-1]
	switch c16Family(kind) {
	case "value":
		for _, o := range ops[:len(ops)-1] {
			if c16IsBad(o.Val, c16BadValues) {
				return key + "/after-unsupported-type"
			}
		}
	case "unmarshal":
		for _, o := range ops[:len(ops)-1] {
			if c16IsBad(o.Val, c16BadTemplates) {
				return key + "/after-unsupported-type"
			}
		}
	case "events":
		if kind != "rules" {
			// was the diverging stream itself a complete valid document?
			valid := "invalid-stream"
			if at, _, _ := runRules(k.rulesCfg(), last.Evs); at < 0 && len(last.Evs) > 0 && last.Evs[len(last.Evs)-1].K == "ed" {
				valid = "valid-document"
			}
			for _, o := range ops[:len(ops)-1] {
				if c16LeavesArrayOpen(o.Evs) {
					return key + "/after-unfinished-array/" + valid
				}
			}
			return key + "/" + valid
		}
	}
	return key
}

func c16IsBad(name string, bad []string) bool {
	for _, b := range bad {
		if b == name {
			return true
		}
	}
	return false
}

// an array begun with begin/chunk events and not completed when the stream stops
func c16LeavesArrayOpen(es []Ev) bool {
	open := false
	for _, e := range es {
		switch e.K {
		case "ab", "mb", "cbeg":
			open = true
		case "ac":
			if !e.B && e.N == 0 {
				open = false
			}
		case "bd":
			open = false
		}
	}
	if !open {
		return false
	}
	// open unless the last chunk was final and fully delivered; approximated by: a begin event
	// after which no final chunk (more=false) was seen
	final := false
	for _, e := range es {
		switch e.K {
		case "ab", "mb", "cbeg":
			final = false
		case "ac":
			if !e.B {
				final = true
			}
		}
	}
	return !final
}

func c16Trunc(s string) string {
	if len(s) > 300 {
		return s[:300] + "…"
	}
	return s
}

func replayC16(r *Replay) (bool, string) {
	if r.Kind != "history" {
		return false, "unknown replay kind " + r.Kind
	}
	kind := r.Input["kind"]
	ops, err := c16ParseHistory(kind, r.Input["history"])
	if err != nil {
		return false, "cannot replay: " + err.Error()
	}
	steps := c16RunHistory(kind, c16ParseCfg(r.Input["cfg"]), ops)
	if i := c16FirstDivergence(kind, ops, steps); i >= 0 {
		st := steps[i]
		return false, fmt.Sprintf("%s: call %d: reused instance %q, fresh instance %q", kind, i+1, c16Trunc(st.Reused), c16Trunc(st.Fresh))
	}
	return true, fmt.Sprintf("%s: %d calls, reused and fresh instance agree on every call", kind, len(steps))
}

// ---------------------------------------------------------------------------
// Generators.

func c16GenOpts() GenOpts {
	o := DefaultGenOpts()
	o.Times = false   // not replayable from text
	o.BigNums = false // big floats / decimals are not replayable from text
	o.MaxDepth = 3
	o.MaxFan = 4
	return o
}

// aborted variants of a valid stream: cut after a container / array begin
func c16Abort(c *Ctx, es []Ev) []Ev {
	cand := []int{}
	for i, e := range es {
		switch e.K {
		case "ab", "mb", "cbeg", "l", "m", "node", "edge", "ac", "mk", "rec":
			cand = append(cand, i)
		}
	}
	if len(cand) == 0 {
		return es[:1+c.Rng.Intn(len(es))]
	}
	return es[:cand[c.Rng.Intn(len(cand))]+1]
}

func c16EventHistory(c *Ctx, g *EvGen, n int) []c16Op {
	ops := []c16Op{}
	for i := 0; i < n; i++ {
		es := g.Document()
		switch c.Rng.Intn(6) {
		case 0:
			es = g.Mutate(es)
		case 1, 2:
			es = c16Abort(c, es)
		}
		ops = append(ops, c16Op{Evs: es})
	}
	return ops
}

// encode a (valid) event stream with a fresh encoder; ok=false when the encoder refused it
func c16Encode(format string, es []Ev) ([]byte, bool) {
	var buf bytes.Buffer
	var enc ce.Encoder
	if format == "cbe" {
		enc = ce.NewCBEEncoder(configuration.New())
	} else {
		enc = ce.NewCTEEncoder(configuration.New())
	}
	enc.PrepareToEncode(&buf)
	at, _ := playAll(enc, es)
	return buf.Bytes(), at < 0
}

// hand-written documents: small values of the shapes the templates expect, plus invalid ones
var c16CteDocs = []string{"c0 1", "c0 \"a\"", "c0 [1 2 3]", "c0 {\"a\"=1}", "c0 {\"A\"=5 \"B\"=\"x\"}", "c0 [[[[1]]]]", "c0 [1 2 3 4 5 6 7 8 9 10 11 12]",
	"c0 null", "c0 [", "c0 {1=", "c0 }", "", "c1 1", "c0 [{\"A\"=1 \"B\"=\"q\"} {\"A\"=2}]", "c0 {\"S\"={\"A\"=1 \"B\"=\"z\"} \"N\"=4}",
	"c0 {\"A\"=1 \"C\"=2}", "c0 {\"X\"=1 \"S\"={\"A\"=2}}", "c0 {\"a\"=1 \"a\"=2}", "c0 \"xxxxxxxxxxxxxxxxxxxxxxxxxxxxxxxxxxxxxxxxxxxxxxxxxxxxxxxxxxxxxxxxxxxxxxxx\""}

var c16CbeDocs = [][]byte{
	{0x81, 0, 1}, {0x81, 0, 0x81, 'a'}, {0x81, 0, 0x9a, 1, 2, 3, 0x9b}, {0x81, 0, 0x99, 0x81, 'a', 1, 0x9b},
	{0x81, 0, 0x99, 0x81, 'A', 5, 0x81, 'B', 0x81, 'x', 0x9b}, {0x81, 0, 0x9a, 0x9a, 0x9a, 0x9a, 1, 0x9b, 0x9b, 0x9b, 0x9b},
	{0x81, 0, 0x9a, 1, 2, 3, 4, 5, 6, 7, 8, 9, 10, 11, 12, 0x9b}, {0x81, 0, 0x7d}, {0x81, 0, 0x9a}, {0x81, 0, 0x99, 1}, {0x81, 0, 0x9b}, {}, {0x81, 1, 1},
	{0x81, 0, 0x9a, 0x99, 0x81, 'A', 1, 0x81, 'B', 0x81, 'q', 0x9b, 0x99, 0x81, 'A', 2, 0x9b, 0x9b},
	{0x81, 0, 0x99, 0x81, 'S', 0x99, 0x81, 'A', 1, 0x81, 'B', 0x81, 'z', 0x9b, 0x81, 'N', 4, 0x9b},
	{0x81, 0, 0x99, 0x81, 'A', 1, 0x81, 'C', 2, 0x9b}, {0x81, 0, 0x99, 0x81, 'X', 1, 0x81, 'S', 0x99, 0x81, 'A', 2, 0x9b, 0x9b},
	{0x81, 0, 0x99, 0x81, 'a', 1, 0x81, 'a', 2, 0x9b},
	append([]byte{0x81, 0, 0x90, 0x90, 0x01}, bytes.Repeat([]byte{'x'}, 72)...),
	{0x81, 0, 0x6b, 1, 2, 3, 4, 5, 6, 7, 8}, {0x81, 0, 0x69, 1}, {0x80}, {0x81}, {0x81, 0, 0x82, 'h'},
}

// a valid document of the shape a typed template expects
func c16Matched(format, tmpl string) []byte {
	cte := map[string]int{"int": 0, "string": 1, "ints": 2, "strmap": 3, "S1": 4, "pS1": 4, "S1s": 13, "myint": 0, "goodouter": 14}
	i := cte[tmpl]
	if format == "cbe" {
		return cp(c16CbeDocs[i])
	}
	return []byte(c16CteDocs[i])
}

func c16Doc(c *Ctx, g *EvGen, format string) []byte {
	if c.Rng.Intn(3) == 0 {
		if format == "cbe" {
			return cp(c16CbeDocs[c.Rng.Intn(len(c16CbeDocs))])
		}
		return []byte(c16CteDocs[c.Rng.Intn(len(c16CteDocs))])
	}
	for try := 0; try < 20; try++ {
		doc, ok := c16Encode(format, g.Document())
		if !ok || len(doc) == 0 {
			continue
		}
		switch c.Rng.Intn(8) {
		case 0: // truncated
			doc = doc[:c.Rng.Intn(len(doc))]
		case 1:
			if format == "cte" { // corrupt one byte of the text (the CBE decoder trusts length fields: only truncate there)
				doc = cp(doc)
				doc[c.Rng.Intn(len(doc))] = "[]{}\"@ x1"[c.Rng.Intn(9)]
			} else {
				doc = append(cp(doc), 1)
			}
		}
		return doc
	}
	return []byte{}
}

func c16DocHistory(c *Ctx, g *EvGen, format string, n int) []c16Op {
	ops := []c16Op{}
	for i := 0; i < n; i++ {
		ops = append(ops, c16Op{Doc: c16Doc(c, g, format)})
	}
	return ops
}

func c16SumLen(ops []c16Op) int {
	n := 0
	for _, o := range ops {
		n += len(o.Doc)
	}
	return n
}

// a size limit that single documents mostly respect but the running total of a history does not
func c16DocLimit(c *Ctx, ops []c16Op) uint64 {
	max := 1
	for _, o := range ops {
		if len(o.Doc) > max {
			max = len(o.Doc)
		}
	}
	switch c.Rng.Intn(4) {
	case 0:
		return 0 // library default
	case 1:
		return uint64(max) // largest document just fits
	case 2:
		return uint64(1 + c.Rng.Intn(max)) // some documents too large on their own
	default:
		return uint64(max + c.Rng.Intn(1+c16SumLen(ops)))
	}
}

func c16Pick(c *Ctx, good, bad []string, pBad int) string {
	if c.Rng.Intn(100) < pBad {
		return bad[c.Rng.Intn(len(bad))]
	}
	return good[c.Rng.Intn(len(good))]
}

func runC16(c *Ctx) {
	c.Rep.Rule = "histories of 2..8 operations on ONE instance per kind (rules validator with Reset; CBE / CTE / universal decoder; CBE / CTE encoder with PrepareToEncode; CBE / CTE marshaler; CBE / CTE unmarshaler), every operation also given to a freshly created instance of the same configuration and the two answers compared (forwarded events / output bytes / decoded value rendered by reflection / error-or-not / hang, watchdog on blocked goroutines); operations: generated valid event streams and documents, mutants, streams aborted after a container or array begin, streams without begin-document, values and templates of unsupported Go types (chan, func, complex, unsafe.Pointer, structs / slices / maps / interfaces holding them) mixed with supported ones, documents near small MaxDocumentSizeBytes / MaxContainerDepth / MaxObjectCount limits incl. documents that fit one by one while their sizes add up beyond the limit; non-trivial = history of at least 2 operations; distinct by (kind, limits, history text)"
	g := NewEvGen(c.Rng, c16GenOpts())
	only := os.Getenv("C16_ONLY")
	t0 := time.Now()
	lap := func(what string) {
		if os.Getenv("C16_DEBUG") != "" {
			fmt.Fprintf(os.Stderr, "c16: %s done at %v\n", what, time.Since(t0))
		}
	}
	record := func(kind string, k c16Cfg, ops []c16Op, steps []c16Step) {
		c.Count(kind+"|"+k.String()+"|"+c16HistoryText(kind, ops), len(ops) >= 2)
		for _, st := range steps {
			c.Dist(kind + "/" + c16ObsHead(st.Reused))
		}
		if len(c.Rep.Samples) < 8 && c.Rng.Intn(40) == 0 {
			c.Sample(map[string]string{"kind": kind, "cfg": k.String(), "history": c16Trunc(c16HistoryText(kind, ops))})
		}
	}

	// 0a. directed encoder histories: a document aborted right after an array begin, then complete documents
	// (first, so that the recorded witnesses of a failure class are the small ones).  Pinned witness of the
	// CBE encoder defect repaired by "fix: a reused CBE encoder forgets the array state of an aborted
	// document": [bd v l ab:uint8] then [bd v null ed] gave 81 00 7d 93 instead of 81 00 7d.
	if only == "" || only == "cbe-encoder" || only == "cte-encoder" {
		for _, t := range []events.ArrayType{events.ArrayTypeUint8, events.ArrayTypeString, events.ArrayTypeUint16, events.ArrayTypeBit, events.ArrayTypeResourceID} {
			for _, second := range [][]Ev{
				{{K: "bd"}, {K: "v"}, {K: "null"}, {K: "ed"}},
				{{K: "bd"}, {K: "v"}, {K: "l"}, {K: "pi", N: 1}, {K: "e"}, {K: "ed"}},
				{{K: "bd"}, {K: "v"}, {K: "ab", A: events.ArrayTypeUint8}, {K: "ac", N: 2, B: false}, {K: "ad", Data: []byte{1, 2}}, {K: "ed"}},
				{{K: "bd"}, {K: "v"}, {K: "ac", N: 1, B: false}, {K: "ad", Data: []byte{1}}, {K: "ed"}},
			} {
				first := []Ev{{K: "bd"}, {K: "v"}, {K: "l"}, {K: "ab", A: t}}
				ops := []c16Op{{Evs: first}, {Evs: second}, {Evs: second}}
				for _, kind := range []string{"cbe-encoder", "cte-encoder"} {
					record(kind, c16Cfg{}, ops, c16Check(c, kind, c16Cfg{}, ops, "directed: aborted array then document"))
				}
				c16CaseCbeEnc(c, ops)
			}
		}
	}

	// 0b. directed type-cache histories: an unsupported type, then the same type / a type containing it / a supported type
	for _, kind := range []string{"cbe-marshaler", "cte-marshaler"} {
		if only != "" && only != kind {
			continue
		}
		for _, h := range [][]string{{"chan", "chan", "int"}, {"chan", "badS", "S1"}, {"badS", "chan"}, {"chans", "badouter", "ints"},
			{"chanmap", "iface-chan", "iface-list"}, {"dyn-bad", "dyn-good", "dyn-bad"}, {"badcyc", "pbadcyc", "rec"}, {"func", "complex", "unsafeptr", "myint"}} {
			ops := []c16Op{}
			for _, v := range h {
				ops = append(ops, c16Op{Val: v})
			}
			steps := c16Check(c, kind, c16Cfg{}, ops, "directed: unsupported type then related types")
			record(kind, c16Cfg{}, ops, steps)
			c16CaseMarshalCache(c, kind, ops, steps)
		}
	}
	for _, kind := range []string{"cbe-unmarshaler", "cte-unmarshaler"} {
		if only != "" && only != kind {
			continue
		}
		for _, h := range [][]int{{6, 6, 0}, {6, 9, 2}, {6, 10}, {9, 6}, {15, 12, 13}, {17, 16, 14}, {7, 8, 6, 11}} {
			ops := []c16Op{}
			for _, p := range h {
				tc := c16TmplCases[p]
				doc := []byte(tc.Cte)
				if kind == "cbe-unmarshaler" {
					doc = cp(tc.Cbe)
				}
				ops = append(ops, c16Op{Val: tc.Tmpl, Doc: doc})
			}
			steps := c16Check(c, kind, c16Cfg{}, ops, "directed: unsupported template type then related types")
			record(kind, c16Cfg{}, ops, steps)
			c16CaseUnmarshalCache(c, kind, h, steps, ops)
		}
	}

	// 1. event-driven instances
	for _, kind := range []string{"rules", "cbe-encoder", "cte-encoder"} {
		if only != "" && only != kind {
			continue
		}
		defer lap(kind)
		for i := 0; i < c.Pick(60, 1500); i++ {
			k := c16Cfg{}
			if kind == "rules" && c.Rng.Intn(3) == 0 {
				k = c16Cfg{0, uint64(1 + c.Rng.Intn(3)), uint64(3 + c.Rng.Intn(10))}
			}
			ops := c16EventHistory(c, g, 2+c.Rng.Intn(5))
			steps := c16Check(c, kind, k, ops, "generated")
			record(kind, k, ops, steps)
			switch kind {
			case "rules":
				if i < c.Pick(40, 400) {
					c16CaseRules(c, k, ops)
				}
			case "cbe-encoder":
				if i < c.Pick(50, 500) {
					c16CaseCbeEnc(c, ops)
				}
			}
		}
	}

	// 1c. CTE encoder histories over the structural alphabet of the model
	if only == "" || only == "cte-encoder" {
		for i := 0; i < c.Pick(150, 2000); i++ {
			ops := []c16Op{}
			for j, n := 0, 2+c.Rng.Intn(4); j < n; j++ {
				ops = append(ops, c16Op{Evs: c16CteDoc(c)})
			}
			record("cte-encoder", c16Cfg{}, ops, c16Check(c, "cte-encoder", c16Cfg{}, ops, "structural alphabet"))
			c16CaseCteEnc(c, ops)
		}
	}

	// 2. decoders
	for _, kind := range []string{"cbe-decoder", "cte-decoder", "ce-decoder"} {
		if only != "" && only != kind {
			continue
		}
		lap("before " + kind)
		for i := 0; i < c.Pick(60, 1500); i++ {
			format := "cbe"
			if kind == "cte-decoder" || (kind == "ce-decoder" && c.Rng.Intn(2) == 0) {
				format = "cte"
			}
			ops := c16DocHistory(c, g, format, 2+c.Rng.Intn(6))
			k := c16Cfg{MaxDoc: c16DocLimit(c, ops)}
			if c.Rng.Intn(4) == 0 {
				k.MaxDepth, k.MaxObjects = uint64(1+c.Rng.Intn(3)), uint64(3+c.Rng.Intn(10))
			}
			record(kind, k, ops, c16Check(c, kind, k, ops, "generated "+format))
			if kind == "cbe-decoder" && i < c.Pick(60, 600) {
				docs := [][]byte{}
				for _, o := range ops {
					docs = append(docs, o.Doc)
				}
				c16CaseReader(c, k.MaxDoc, docs, false)
			}
		}
	}

	// 2b. directed: documents that each fit the size limit while their sizes add up beyond it
	if only == "" || strings.HasPrefix(only, "cbe-") {
		doc := []byte{0x81, 0, 0x9a, 1, 2, 3, 4, 5, 6, 7, 8, 9, 10, 11, 12, 0x9b}
		str := append([]byte{0x81, 0, 0x90, 40}, bytes.Repeat([]byte{'y'}, 20)...)
		for _, lim := range []uint64{uint64(len(doc)), uint64(len(doc)) + 1, 24, 30, 40, 100} {
			for _, n := range []int{3, 8} {
				ops := []c16Op{}
				docs := [][]byte{}
				for j := 0; j < n; j++ {
					d := doc
					if j%3 == 2 {
						d = str
					}
					ops = append(ops, c16Op{Doc: cp(d), Val: "nil"})
					docs = append(docs, cp(d))
				}
				k := c16Cfg{MaxDoc: lim}
				for _, kind := range []string{"cbe-decoder", "ce-decoder", "cbe-unmarshaler"} {
					record(kind, k, ops, c16Check(c, kind, k, ops, "directed: sizes add up beyond the limit"))
				}
				c16CaseReader(c, lim, docs, false)
				c16CaseReader(c, lim, docs, true)
			}
		}
	}

	// 3. marshalers
	for _, kind := range []string{"cbe-marshaler", "cte-marshaler"} {
		if only != "" && only != kind {
			continue
		}
		lap("before " + kind)
		for i := 0; i < c.Pick(40, 600); i++ {
			n := 2 + c.Rng.Intn(5)
			ops := []c16Op{}
			pBad := []int{0, 15, 40}[c.Rng.Intn(3)]
			for j := 0; j < n; j++ {
				ops = append(ops, c16Op{Val: c16Pick(c, c16GoodValues, c16BadValues, pBad)})
			}
			steps := c16Check(c, kind, c16Cfg{}, ops, "generated")
			record(kind, c16Cfg{}, ops, steps)
			c16CaseMarshalCache(c, kind, ops, steps)
		}
	}

	// 3b. unmarshalers on typed templates with documents of the template's shape (the type-cache model's domain)
	for _, kind := range []string{"cbe-unmarshaler", "cte-unmarshaler"} {
		if only != "" && only != kind {
			continue
		}
		for i := 0; i < c.Pick(60, 800); i++ {
			ops, picks := []c16Op{}, []int{}
			for j, n := 0, 2+c.Rng.Intn(5); j < n; j++ {
				p := c.Rng.Intn(len(c16TmplCases))
				tc := c16TmplCases[p]
				doc := []byte(tc.Cte)
				if kind == "cbe-unmarshaler" {
					doc = cp(tc.Cbe)
				}
				ops = append(ops, c16Op{Val: tc.Tmpl, Doc: doc})
				picks = append(picks, p)
			}
			steps := c16Check(c, kind, c16Cfg{}, ops, "typed templates")
			record(kind, c16Cfg{}, ops, steps)
			c16CaseUnmarshalCache(c, kind, picks, steps, ops)
		}
	}

	// 4. unmarshalers on generated / hand-written / damaged documents
	gs := g
	for _, kind := range []string{"cbe-unmarshaler", "cte-unmarshaler"} {
		if only != "" && only != kind {
			continue
		}
		lap("before " + kind)
		format := kind[:3]
		for i := 0; i < c.Pick(60, 1200); i++ {
			if c16Spins > 3 {
				break
			}
			ops := c16DocHistory(c, gs, format, 2+c.Rng.Intn(6))
			pBad := []int{0, 10, 30}[c.Rng.Intn(3)]
			for j := range ops {
				switch r := c.Rng.Intn(100); {
				case r < pBad: // unsupported template type, any document
					ops[j].Val = c16BadTemplates[c.Rng.Intn(len(c16BadTemplates))]
				case r < pBad+25: // typed template, mostly with a document of its shape
					t := c16GoodTemplates[1+c.Rng.Intn(len(c16GoodTemplates)-1)]
					if c.Rng.Intn(4) == 0 {
						ops[j].Val = t
					} else {
						ops[j] = c16Op{Val: t, Doc: c16Matched(format, t)}
					}
				default:
					ops[j].Val = "nil"
				}
			}
			k := c16Cfg{MaxDoc: c16DocLimit(c, ops)}
			if c.Rng.Intn(4) == 0 {
				k.MaxDepth, k.MaxObjects = uint64(1+c.Rng.Intn(3)), uint64(3+c.Rng.Intn(10))
			}
			record(kind, k, ops, c16Check(c, kind, k, ops, "generated"))
		}
	}
}

// ---------------------------------------------------------------------------
// Correspondence with CE.Model.Reuse: histories inside the model's domain and
// what ONE reused implementation instance answered.

func (c *Ctx) c16Cases() *caseFile {
	cf := c.Cases("reuse", "CE.Model.Reuse CE.Model.Rules", "reuse_case", "reuse_case_ok")
	cf.perFile = 40
	return cf
}

// (a) validator histories: one validator, Reset before every document
func c16CaseRules(c *Ctx, k c16Cfg, ops []c16Op) {
	rec := &Recorder{}
	r := ce.NewRules(rec, k.config())
	docs, seen := []string{}, []string{}
	for _, o := range ops {
		r.Reset()
		rec.Evs = nil
		at, _ := playAll(r, o.Evs)
		docs = append(docs, cEvs(o.Evs))
		seen = append(seen, cPair(cEvs(rec.Evs), cOptN(at)))
	}
	c.c16Cases().Add(cApp("RulesHist", k.rulesCfg().coq(), cList(docs), cList(seen)),
		"rules "+k.String()+" :: "+c16HistoryText("rules", ops))
}

// (b) reader histories: the reads a decoder performs, seen through the io.Reader it is given
type c16LogReader struct {
	r     *bytes.Reader
	reads []string // Coq pairs (n, err)
}

func (l *c16LogReader) Read(p []byte) (int, error) {
	n, err := l.r.Read(p)
	l.reads = append(l.reads, cPair(cNi(n), cBool(err != nil)))
	return n, err
}

func c16Ns(v []string) string { return cList(v) }

func c16CaseReader(c *Ctx, maxDoc uint64, docs [][]byte, viaUnmarshaler bool) {
	lim := c16Cfg{MaxDoc: maxDoc}.config()
	var dec ce.Decoder
	var unm ce.Unmarshaler
	if viaUnmarshaler {
		unm = ce.NewCBEUnmarshaler(lim)
	} else {
		dec = ce.NewCBEDecoder(lim)
	}
	plans, seen := []string{}, []string{}
	for _, d := range docs {
		// the read plan: a fresh decoder without a size limit
		pl := &c16LogReader{r: bytes.NewReader(d)}
		var perr error
		if viaUnmarshaler {
			_, perr = ce.NewCBEUnmarshaler(configuration.New()).Unmarshal(pl, nil)
		} else {
			perr = ce.NewCBEDecoder(configuration.New()).Decode(pl, ce.NewRules(&Recorder{}, configuration.New()))
		}
		plans = append(plans, cPair(c16Ns(pl.reads), cBool(perr != nil)))
		// the reused, limited instance
		ob := &c16LogReader{r: bytes.NewReader(d)}
		var oerr error
		if viaUnmarshaler {
			_, oerr = unm.Unmarshal(ob, nil)
		} else {
			oerr = dec.Decode(ob, ce.NewRules(&Recorder{}, configuration.New()))
		}
		seen = append(seen, cPair(c16Ns(ob.reads), cBool(oerr != nil)))
	}
	hs := make([]string, len(docs))
	for i, d := range docs {
		hs[i] = hex.EncodeToString(d)
	}
	c.c16Cases().Add(cApp("ReaderHist", cN(lim.Rules.MaxDocumentSizeBytes), cList(plans), cList(seen)),
		fmt.Sprintf("reader max=%d unmarshaler=%v :: %s", maxDoc, viaUnmarshaler, strings.Join(hs, " ; ")))
}

// (c) encoder histories: index of the first rejected event and the bytes written by the accepted ones
func c16EncodeObserved(enc ce.Encoder, es []Ev) (int, []byte) {
	var buf bytes.Buffer
	enc.PrepareToEncode(&buf)
	for i, e := range es {
		mark := buf.Len()
		if _, bad := playOne(enc, e); bad {
			return i, cp(buf.Bytes()[:mark])
		}
	}
	return -1, cp(buf.Bytes())
}

func c16InCbeModel(es []Ev) bool {
	for _, e := range es {
		switch e.K {
		case "tm", "bf", "bdf":
			return false
		case "df": // DFloat values carrying the special exponent are not expressible in the model
			if e.DF.Exponent == -0x80000000 {
				return false
			}
		}
	}
	return true
}

func c16CaseCbeEnc(c *Ctx, ops []c16Op) {
	enc := ce.NewCBEEncoder(configuration.New())
	docs, seen := []string{}, []string{}
	for _, o := range ops {
		if !c16InCbeModel(o.Evs) {
			return
		}
		at, out := c16EncodeObserved(enc, o.Evs)
		docs = append(docs, cEvs(o.Evs))
		seen = append(seen, cPair(cOptN(at), cBytes(out)))
	}
	c.c16Cases().Add(cApp("CbeEncHist", cList(docs), cList(seen)), "cbe-encoder :: "+c16HistoryText("cbe-encoder", ops))
}

// (d) CTE encoder histories over the model's own event alphabet
func c16CevTerm(e Ev) string {
	switch e.K {
	case "bd":
		return "CBegin"
	case "v":
		return cApp("CVersion", cN(e.N))
	case "ed":
		return "CEndDoc"
	case "pad":
		return "CPadding"
	case "cm":
		return cApp("CComment", cBool(e.B), cBytes(e.Data))
	case "null":
		return "CNull"
	case "t":
		return "CTrue"
	case "f":
		return "CFalse"
	case "pi":
		return cApp("CPosInt", cN(e.N))
	case "l":
		return "CList"
	case "m":
		return "CMap"
	case "edge":
		return "CEdge"
	case "node":
		return "CNode"
	case "e":
		return "CEndContainer"
	case "mk":
		return cApp("CMarker", cBytes(e.Data))
	case "ref":
		return cApp("CRef", cBytes(e.Data))
	}
	panic("c16CevTerm: event outside the CTE model: " + e.K)
}

// random structure over the CTE model's alphabet; mostly well-formed
func c16CteValue(c *Ctx, depth int, out []Ev) []Ev {
	r := c.Rng
	if r.Intn(6) == 0 {
		txt := [][]byte{[]byte("c"), []byte(" a b "), {}, []byte("x\ny"), []byte("\n")}[r.Intn(5)]
		multi := r.Intn(2) == 0
		if !multi && bytes.IndexByte(txt, '\n') >= 0 {
			multi = true
		}
		out = append(out, Ev{K: "cm", B: multi, Data: txt})
	}
	if r.Intn(8) == 0 {
		out = append(out, Ev{K: "mk", Data: []byte(fmt.Sprintf("m%d", r.Intn(3)))})
	}
	k := r.Intn(10)
	if depth >= 3 && k >= 5 {
		k = r.Intn(5)
	}
	scalar := func() Ev {
		switch r.Intn(5) {
		case 0:
			return Ev{K: "null"}
		case 1:
			return Ev{K: "t"}
		case 2:
			return Ev{K: "f"}
		case 3:
			return Ev{K: "ref", Data: []byte("m0")}
		}
		return Ev{K: "pi", N: []uint64{0, 7, 10, 99, 100, 12345, 1<<64 - 1}[r.Intn(7)]}
	}
	switch k {
	case 0, 1, 2, 3, 4:
		out = append(out, scalar())
	case 5, 6:
		out = append(out, Ev{K: "l"})
		for i, n := 0, r.Intn(4); i < n; i++ {
			out = c16CteValue(c, depth+1, out)
		}
		out = append(out, Ev{K: "e"})
	case 7:
		out = append(out, Ev{K: "m"})
		for i, n := 0, r.Intn(3); i < n; i++ {
			out = append(out, scalar())
			out = c16CteValue(c, depth+1, out)
		}
		out = append(out, Ev{K: "e"})
	case 8:
		out = append(out, Ev{K: "edge"})
		for i := 0; i < 3; i++ {
			out = c16CteValue(c, depth+1, out)
		}
		out = append(out, Ev{K: "e"})
	default:
		out = append(out, Ev{K: "node"})
		for i, n := 0, 1+r.Intn(3); i < n; i++ {
			out = c16CteValue(c, depth+1, out)
		}
		out = append(out, Ev{K: "e"})
	}
	return out
}

func c16CteDoc(c *Ctx) []Ev {
	es := []Ev{{K: "bd"}, {K: "v", N: 0}}
	es = c16CteValue(c, 0, es)
	es = append(es, Ev{K: "ed"})
	r := c.Rng
	switch r.Intn(8) {
	case 0: // aborted
		es = es[:1+r.Intn(len(es))]
	case 1: // an event too many / too few
		p := r.Intn(len(es))
		repl := []Ev{{K: "e"}, {K: "l"}, {K: "m"}, {K: "node"}, {K: "edge"}, {K: "null"}, {K: "pad"}, {K: "mk", Data: []byte("q")}}
		es = append(append(append([]Ev{}, es[:p]...), repl[r.Intn(len(repl))]), es[p:]...)
	case 2:
		p := r.Intn(len(es))
		es = append(append([]Ev{}, es[:p]...), es[p+1:]...)
	case 3: // no begin-document: the reset point is skipped
		es = es[1:]
	}
	return es
}

func c16CaseCteEnc(c *Ctx, ops []c16Op) {
	enc := ce.NewCTEEncoder(configuration.New())
	docs, seen := []string{}, []string{}
	for _, o := range ops {
		at, out := c16EncodeObserved(enc, o.Evs)
		ts := make([]string, len(o.Evs))
		for i, e := range o.Evs {
			ts[i] = c16CevTerm(e)
		}
		docs = append(docs, cList(ts))
		seen = append(seen, cPair(cOptN(at), cBytes(out)))
	}
	c.c16Cases().Add(cApp("CteEncHist", cList(docs), cList(seen)), "cte-encoder :: "+c16HistoryText("cte-encoder", ops))
}

// (e) type caches: the catalogue values / templates as terms of the model's [ty]
const (
	c16TInt    = "(TLeaf 1)"
	c16TString = "(TLeaf 2)"
	c16TChan   = "(TBad 100)"
)

func c16TComp(name int, comps ...string) string {
	return cApp("TComp", cNi(name), cList(comps))
}
func c16R(t string) string  { return cPair("true", t) }  // reached by the operation
func c16U(t string) string  { return cPair("false", t) } // not reached
func c16Dy(t string) string { return cApp("TDyn", t) }

var (
	c16TS1    = c16TComp(10, c16R(c16TInt), c16R(c16TString))
	c16TBadS  = c16TComp(30, c16R(c16TInt), c16R(c16TChan))
	c16TChans = c16TComp(33, c16R(c16TChan))
)

// marshaler side: every part of the value is visited
var c16ValueTy = map[string]string{
	"int": c16TInt, "string": c16TString, "ints": "(TLeaf 12)", "strmap": "(TLeaf 13)",
	"S1": c16TS1, "pS1": c16TComp(11, c16R(c16TS1)),
	"S2":         c16TComp(14, c16R(c16TComp(11, c16R(c16TS1))), c16R("(TLeaf 12)"), c16R("(TLeaf 13)")),
	"myint":      "(TLeaf 15)",
	"myints":     c16TComp(16, c16R("(TLeaf 15)"), c16R("(TLeaf 15)")),
	"goodouter":  c16TComp(19, c16R(c16TS1), c16R("(TLeaf 15)")),
	"iface-list": c16TComp(20, c16R(c16Dy(c16TInt)), c16R(c16Dy(c16TString)), c16R(c16Dy(c16TS1))),
	"dyn-good":   c16TComp(21, c16R(c16TInt), c16R(c16Dy(c16TS1))),
	"chan":       c16TChan, "func": "(TBad 101)", "complex": "(TBad 102)", "unsafeptr": "(TBad 103)",
	"badS": c16TBadS, "pbadS": c16TComp(31, c16R(c16TBadS)),
	"badouter":     c16TComp(32, c16R(c16TInt), c16R(c16TBadS)),
	"chans":        c16TChans,
	"chanmap":      c16TComp(34, c16R(c16TString), c16R(c16TChan)),
	"iface-chan":   c16TComp(20, c16R(c16Dy(c16TInt)), c16R(c16Dy(c16TChan)), c16R(c16Dy(c16TInt))),
	"iface-badS":   c16TComp(20, c16R(c16Dy(c16TString)), c16R(c16Dy(c16TBadS))),
	"dyn-bad":      c16TComp(21, c16R(c16TInt), c16R(c16Dy(c16TChan))),
	"iface-pbadS":  c16TComp(20, c16R(c16Dy(c16TComp(31, c16R(c16TBadS))))),
	"iface-chans2": c16TComp(20, c16R(c16Dy(c16TChans))),
}

func c16ResTerm(obs string) string {
	switch {
	case obs == "hang":
		return "CHang"
	case strings.HasPrefix(obs, "ok|"):
		return "COk"
	}
	return "CErr"
}

func c16CaseMarshalCache(c *Ctx, kind string, ops []c16Op, steps []c16Step) {
	tys, seen := []string{}, []string{}
	for i, st := range steps {
		t, ok := c16ValueTy[ops[i].Val]
		if !ok {
			return // recursive types are outside the model
		}
		tys = append(tys, t)
		seen = append(seen, c16ResTerm(st.Reused))
	}
	c.c16Cases().Add(cApp("CacheHist", "true", cList(tys), cList(seen)), kind+" cache :: "+c16HistoryText(kind, ops[:len(steps)]))
}

// unmarshaler side: template, a document of its shape (CTE text; CBE bytes), and the parts of the type the document reaches
type c16TmplCase struct {
	Tmpl string
	Cte  string
	Cbe  []byte
	Ty   string
}

var c16TmplCases = []c16TmplCase{
	{"int", "c0 1", []byte{0x81, 0, 1}, c16TInt},
	{"string", "c0 \"a\"", []byte{0x81, 0, 0x81, 'a'}, c16TString},
	{"S1", "c0 {\"A\"=5 \"B\"=\"x\"}", []byte{0x81, 0, 0x99, 0x81, 'A', 5, 0x81, 'B', 0x81, 'x', 0x9b}, c16TS1},
	{"S1", "c0 {\"A\"=5}", []byte{0x81, 0, 0x99, 0x81, 'A', 5, 0x9b}, c16TComp(10, c16R(c16TInt), c16U(c16TString))},
	{"goodouter", "c0 {\"S\"={\"A\"=1 \"B\"=\"z\"} \"N\"=4}", []byte{0x81, 0, 0x99, 0x81, 'S', 0x99, 0x81, 'A', 1, 0x81, 'B', 0x81, 'z', 0x9b, 0x81, 'N', 4, 0x9b},
		c16TComp(19, c16R(c16TS1), c16R("(TLeaf 15)"))},
	{"S1s", "c0 [{\"A\"=1 \"B\"=\"q\"}]", []byte{0x81, 0, 0x9a, 0x99, 0x81, 'A', 1, 0x81, 'B', 0x81, 'q', 0x9b, 0x9b}, c16TComp(40, c16R(c16TS1))},
	{"chan", "c0 1", []byte{0x81, 0, 1}, c16TChan},
	{"func", "c0 1", []byte{0x81, 0, 1}, "(TBad 101)"},
	{"complex", "c0 1", []byte{0x81, 0, 1}, "(TBad 102)"},
	{"badS", "c0 {\"A\"=5}", []byte{0x81, 0, 0x99, 0x81, 'A', 5, 0x9b}, c16TComp(30, c16R(c16TInt), c16U(c16TChan))},
	{"badS", "c0 {\"A\"=5 \"C\"=1}", []byte{0x81, 0, 0x99, 0x81, 'A', 5, 0x81, 'C', 1, 0x9b}, c16TBadS},
	{"badS", "c0 {}", []byte{0x81, 0, 0x99, 0x9b}, c16TComp(30, c16U(c16TInt), c16U(c16TChan))},
	{"badouter", "c0 {\"X\"=1}", []byte{0x81, 0, 0x99, 0x81, 'X', 1, 0x9b}, c16TComp(32, c16R(c16TInt), c16U(c16TBadS))},
	{"badouter", "c0 {\"X\"=1 \"S\"={\"A\"=2}}", []byte{0x81, 0, 0x99, 0x81, 'X', 1, 0x81, 'S', 0x99, 0x81, 'A', 2, 0x9b, 0x9b},
		c16TComp(32, c16R(c16TInt), c16R(c16TComp(30, c16R(c16TInt), c16U(c16TChan))))},
	{"chans", "c0 []", []byte{0x81, 0, 0x9a, 0x9b}, c16TComp(33, c16U(c16TChan))},
	{"chans", "c0 [1]", []byte{0x81, 0, 0x9a, 1, 0x9b}, c16TChans},
	{"chanmap", "c0 {}", []byte{0x81, 0, 0x99, 0x9b}, c16TComp(34, c16U(c16TString), c16U(c16TChan))},
	{"chanmap", "c0 {\"a\"=1}", []byte{0x81, 0, 0x99, 0x81, 'a', 1, 0x9b}, c16TComp(34, c16R(c16TString), c16R(c16TChan))},
}

func c16CaseUnmarshalCache(c *Ctx, kind string, picks []int, steps []c16Step, ops []c16Op) {
	tys, seen := []string{}, []string{}
	for i, st := range steps {
		tys = append(tys, c16TmplCases[picks[i]].Ty)
		seen = append(seen, c16ResTerm(st.Reused))
	}
	c.c16Cases().Add(cApp("CacheHist", "false", cList(tys), cList(seen)), kind+" cache :: "+c16HistoryText(kind, ops[:len(steps)]))
}

func c16ObsHead(s string) string {
	if strings.HasPrefix(s, "rej=-1") {
		return "accepted"
	}
	if strings.HasPrefix(s, "rej=") {
		return "rejected"
	}
	if i := strings.Index(s, "|"); i >= 0 {
		return s[:i]
	}
	return s
}
