package main

// C16 — reused instances behave like fresh ones.
//
// Search oracle: one instance (validator, decoder, encoder, marshaler,
// unmarshaler) is driven through a random history of operations; every
// operation is also given to a freshly created instance of the same kind and
// configuration, and the two observations (output bytes / forwarded events /
// decoded value / error-or-not / hang) must be equal.  A watchdog turns a call
// that blocks forever into the observation "hang".
//
// Correspondence: the same histories, restricted to the domain of the
// executable model CE.Model.Reuse, are written out as reuse_case terms together
// with what the REUSED implementation instance did; coqc compares with the
// model (which is faithful to the code, defects included).

import (
	"bufio"
	"bytes"
	"encoding/hex"
	"errors"
	"fmt"
	"io"
	"math"
	"os"
	"reflect"
	"runtime"
	"sort"
	"strconv"
	"strings"
	"time"
	"unsafe"

	"github.com/kstenerud/go-concise-encoding/ce"
	"github.com/kstenerud/go-concise-encoding/ce/events"
	"github.com/kstenerud/go-concise-encoding/configuration"
	"github.com/kstenerud/go-concise-encoding/types"
)

func init() { register("C16", runC16, replayC16) }

// ---------------------------------------------------------------------------
// Configuration of an instance: the limits that matter here.

type c16Cfg struct {
	MaxDoc, MaxDepth, MaxObjects uint64 // 0 = library default
	MaxRefs, MaxMarkers          uint64 // 0 = library default
	Rec                          bool   // Iterator.RecursionSupport (markers / references for shared and cyclic pointers)
}

func (k c16Cfg) config() *configuration.Configuration {
	cfg := configuration.New()
	if k.MaxDoc != 0 {
		cfg.Rules.MaxDocumentSizeBytes = k.MaxDoc
	}
	if k.MaxDepth != 0 {
		cfg.Rules.MaxContainerDepth = k.MaxDepth
	}
	if k.MaxObjects != 0 {
		cfg.Rules.MaxObjectCount = k.MaxObjects
	}
	if k.MaxRefs != 0 {
		cfg.Rules.MaxLocalReferenceCount = k.MaxRefs
	}
	if k.MaxMarkers != 0 {
		cfg.Rules.MaxMarkerCount = k.MaxMarkers
	}
	if k.Rec {
		cfg.Iterator.RecursionSupport = true
	}
	return cfg
}

func (k c16Cfg) String() string {
	if k.Rec {
		return fmt.Sprintf("%d/%d/%d/%d/%d/1", k.MaxDoc, k.MaxDepth, k.MaxObjects, k.MaxRefs, k.MaxMarkers)
	}
	if k.MaxRefs == 0 && k.MaxMarkers == 0 {
		return fmt.Sprintf("%d/%d/%d", k.MaxDoc, k.MaxDepth, k.MaxObjects)
	}
	return fmt.Sprintf("%d/%d/%d/%d/%d", k.MaxDoc, k.MaxDepth, k.MaxObjects, k.MaxRefs, k.MaxMarkers)
}

func c16ParseCfg(s string) c16Cfg {
	p := strings.Split(s, "/")
	u := func(i int) uint64 {
		if i >= len(p) {
			return 0
		}
		v, _ := strconv.ParseUint(p[i], 10, 64)
		return v
	}
	return c16Cfg{u(0), u(1), u(2), u(3), u(4), u(5) != 0}
}

func (k c16Cfg) rulesCfg() RulesCfg {
	r := k.config().Rules
	return RulesCfg{MaxObjects: r.MaxObjectCount, MaxDepth: r.MaxContainerDepth, MaxArray: r.MaxArraySizeBytes, MaxIdent: r.MaxIdentifierLength, MaxRefs: r.MaxLocalReferenceCount,
		MaxMarkers: r.MaxMarkerCount}
}

// ---------------------------------------------------------------------------
// Operations.  One op type for all kinds; each kind reads the fields it needs.

type c16Op struct {
	Evs []Ev   // validator / encoders
	Doc []byte // decoders / unmarshalers
	Val string // marshalers: name in c16Values; unmarshalers: name in c16Templates
	W   string // encoders / marshalers: kind of destination writer (name in c16DestKinds; "" = bytes.Buffer)
}

func (o c16Op) text(kind string) string {
	if o.W != "" {
		w := o.W
		o.W = ""
		return "<" + w + "> " + o.text(kind)
	}
	switch c16Family(kind) {
	case "events":
		return evsString(o.Evs)
	case "doc":
		return hex.EncodeToString(o.Doc)
	case "value":
		return o.Val
	default: // unmarshal
		return o.Val + "@" + hex.EncodeToString(o.Doc)
	}
}

func c16ParseOp(kind, s string) (c16Op, error) {
	if strings.HasPrefix(s, "<") {
		i := strings.Index(s, "> ")
		if i < 0 || !c16IsBad(s[1:i], c16DestKinds) {
			return c16Op{}, fmt.Errorf("bad destination kind in %q", s)
		}
		o, err := c16ParseOp(kind, s[i+2:])
		o.W = s[1:i]
		return o, err
	}
	switch c16Family(kind) {
	case "events":
		es, err := parseEvs(s)
		return c16Op{Evs: es}, err
	case "doc":
		b, err := hex.DecodeString(s)
		return c16Op{Doc: b}, err
	case "value":
		if _, ok := c16Values[s]; !ok {
			return c16Op{}, fmt.Errorf("unknown value %q", s)
		}
		return c16Op{Val: s}, nil
	default:
		i := strings.Index(s, "@")
		if i < 0 {
			return c16Op{}, fmt.Errorf("bad unmarshal op %q", s)
		}
		b, err := hex.DecodeString(s[i+1:])
		if _, ok := c16Templates[s[:i]]; !ok {
			return c16Op{}, fmt.Errorf("unknown template %q", s[:i])
		}
		return c16Op{Val: s[:i], Doc: b}, err
	}
}

var c16Kinds = []string{"rules", "cbe-decoder", "cte-decoder", "ce-decoder", "cbe-encoder", "cte-encoder",
	"cbe-marshaler", "cte-marshaler", "cbe-unmarshaler", "cte-unmarshaler"}

func c16Family(kind string) string {
	switch kind {
	case "rules", "cbe-encoder", "cte-encoder":
		return "events"
	case "cbe-decoder", "cte-decoder", "ce-decoder":
		return "doc"
	case "cbe-marshaler", "cte-marshaler":
		return "value"
	}
	return "unmarshal"
}

// ---------------------------------------------------------------------------
// Go values handed to marshalers and templates handed to unmarshalers.
// Each constructor returns a new value on every call so that nothing is shared
// between the reused and the fresh instance.

type c16S1 struct {
	A int
	B string
}
type c16S2 struct {
	P *c16S1
	L []int
	M map[string]int
}
type c16MyInt int
type c16Rec struct {
	V    int
	Next *c16Rec
}
type c16BadS struct {
	A int
	C chan int
}
type c16BadOuter struct {
	X int
	S c16BadS
}
type c16BadCyc struct {
	P *c16BadCyc
	C chan int
}
type c16Dyn struct {
	A int
	I interface{}
}
type c16GoodOuter struct {
	S c16S1
	N c16MyInt
}

var c16Values = map[string]func() interface{}{
	"nil":        func() interface{} { return nil },
	"int":        func() interface{} { return 42 },
	"string":     func() interface{} { return "hello" },
	"ints":       func() interface{} { return []int{1, 2, 3} },
	"strmap":     func() interface{} { return map[string]int{"a": 1} },
	"S1":         func() interface{} { return c16S1{7, "x"} },
	"pS1":        func() interface{} { return &c16S1{8, "y"} },
	"S2":         func() interface{} { return c16S2{&c16S1{1, "p"}, []int{4}, map[string]int{"k": 2}} },
	"myint":      func() interface{} { return c16MyInt(5) },
	"myints":     func() interface{} { return []c16MyInt{1, 2} },
	"rec":        func() interface{} { return c16Rec{1, &c16Rec{2, nil}} },
	"goodouter":  func() interface{} { return c16GoodOuter{c16S1{1, "g"}, 3} },
	"iface-list": func() interface{} { return []interface{}{1, "a", c16S1{2, "b"}} },
	"dyn-good":   func() interface{} { return c16Dyn{1, c16S1{3, "d"}} },
	// unsupported types
	"chan":         func() interface{} { return make(chan int) },
	"func":         func() interface{} { return func() {} },
	"complex":      func() interface{} { return complex(1, 2) },
	"unsafeptr":    func() interface{} { var x int; return unsafe.Pointer(&x) },
	"badS":         func() interface{} { return c16BadS{1, nil} },
	"pbadS":        func() interface{} { return &c16BadS{1, nil} },
	"badouter":     func() interface{} { return c16BadOuter{1, c16BadS{2, nil}} },
	"chans":        func() interface{} { return []chan int{nil} },
	"chanmap":      func() interface{} { return map[string]chan int{"a": nil} },
	"badcyc":       func() interface{} { return c16BadCyc{} },
	"pbadcyc":      func() interface{} { return &c16BadCyc{P: &c16BadCyc{}} },
	"iface-chan":   func() interface{} { return []interface{}{1, make(chan int), 2} },
	"iface-badS":   func() interface{} { return []interface{}{"x", c16BadS{1, nil}} },
	"dyn-bad":      func() interface{} { return c16Dyn{1, make(chan int)} },
	"iface-pbadS":  func() interface{} { return []interface{}{&c16BadS{1, nil}} },
	"iface-chans2": func() interface{} { return []interface{}{[]chan int{nil}} },
}

var c16GoodValues = []string{"nil", "int", "string", "ints", "strmap", "S1", "pS1", "S2", "myint", "myints", "rec", "goodouter", "iface-list", "dyn-good"}
var c16BadValues = []string{"chan", "func", "complex", "unsafeptr", "badS", "pbadS", "badouter", "chans", "chanmap", "badcyc", "pbadcyc",
	"iface-chan", "iface-badS", "dyn-bad", "iface-pbadS", "iface-chans2"}

var c16Templates = map[string]func() interface{}{
	"nil":       func() interface{} { return nil },
	"int":       func() interface{} { return 0 },
	"string":    func() interface{} { return "" },
	"ints":      func() interface{} { return []int{} },
	"strmap":    func() interface{} { return map[string]int{} },
	"S1":        func() interface{} { return c16S1{} },
	"pS1":       func() interface{} { return &c16S1{} },
	"S1s":       func() interface{} { return []c16S1{} },
	"myint":     func() interface{} { return c16MyInt(0) },
	"goodouter": func() interface{} { return c16GoodOuter{} },
	"chan":      func() interface{} { return make(chan int) },
	"func":      func() interface{} { return func() {} },
	"complex":   func() interface{} { return complex(0, 0) },
	"badS":      func() interface{} { return c16BadS{} },
	"pbadS":     func() interface{} { return &c16BadS{} },
	"badouter":  func() interface{} { return c16BadOuter{} },
	"chans":     func() interface{} { return []chan int{} },
	"chanmap":   func() interface{} { return map[string]chan int{} },
	"badcyc":    func() interface{} { return c16BadCyc{} },
}
var c16GoodTemplates = []string{"nil", "int", "string", "ints", "strmap", "S1", "pS1", "S1s", "myint", "goodouter"}
var c16BadTemplates = []string{"chan", "func", "complex", "badS", "pbadS", "badouter", "chans", "chanmap", "badcyc"}

// ---------------------------------------------------------------------------
// Watchdog.  A call that is still running after a grace period and whose
// goroutine sits in sync.WaitGroup.Wait is blocked for good (nothing else runs
// that could release it): observation "hang".  The goroutine stays behind.

var c16Leaked int // goroutines already known to be blocked forever
var c16Spins int  // calls that neither returned nor parked within the deadline

func c16WaitingWorkers() int {
	buf := make([]byte, 1<<20)
	n := runtime.Stack(buf, true)
	for n == len(buf) && len(buf) < 1<<28 { // truncated: leaked goroutines add up
		buf = make([]byte, 4*len(buf))
		n = runtime.Stack(buf, true)
	}
	cnt := 0
	for _, g := range strings.Split(string(buf[:n]), "\n\n") {
		if strings.Contains(g, "c16Worker") && (strings.Contains(g, "sync.(*WaitGroup).Wait") || strings.Contains(g, "sync.runtime_Semacquire")) {
			cnt++
		}
	}
	return cnt
}

func c16Worker(f func() string, done chan string) {
	defer func() {
		if r := recover(); r != nil {
			done <- "panic"
		}
	}()
	done <- f()
}

// c16Watch runs f; returns its result, or "hang" when it blocks forever.
func c16Watch(f func() string) string {
	done := make(chan string, 1)
	go c16Worker(f, done)
	deadline := time.After(3 * time.Second)
	blockedPolls := 0
	for {
		select {
		case r := <-done:
			return r
		case <-deadline:
			// still running but not parked on a WaitGroup: a busy loop (not what C16 is about; the
			// goroutine keeps a core busy, so the caller stops generating inputs of this family)
			c16Spins++
			if os.Getenv("C16_DEBUG") != "" {
				buf := make([]byte, 1<<20)
				n := runtime.Stack(buf, true)
				fmt.Fprintf(os.Stderr, "c16: DEADLINE, stacks:\n%s\n", buf[:n])
			}
			return "spin"
		case <-time.After(15 * time.Millisecond):
			if c16WaitingWorkers() > c16Leaked {
				blockedPolls++
				if blockedPolls >= 3 {
					c16Leaked++
					return "hang"
				}
			} else {
				blockedPolls = 0
			}
		}
	}
}

// ---------------------------------------------------------------------------
// Instances.

type c16Inst struct {
	kind string
	cfg  c16Cfg
	dead bool       // a call hung: the instance is still in use by the blocked goroutine
	past []*c16Dest // the destinations of the earlier calls (encoders / marshalers)
	// exactly one of these is set
	rules *c16RulesInst
	dec   ce.Decoder
	enc   ce.Encoder
	mar   ce.Marshaler
	unm   ce.Unmarshaler
}

type c16RulesInst struct {
	rec *Recorder
	r   interface {
		events.DataEventReceiver
		Reset()
	}
}

func c16New(kind string, k c16Cfg) *c16Inst {
	cfg := k.config()
	in := &c16Inst{kind: kind, cfg: k}
	switch kind {
	case "rules":
		rec := &Recorder{}
		in.rules = &c16RulesInst{rec: rec, r: ce.NewRules(rec, cfg)}
	case "cbe-decoder":
		in.dec = ce.NewCBEDecoder(cfg)
	case "cte-decoder":
		in.dec = ce.NewCTEDecoder(cfg)
	case "ce-decoder":
		in.dec = ce.NewCEDecoder(cfg)
	case "cbe-encoder":
		in.enc = ce.NewCBEEncoder(cfg)
	case "cte-encoder":
		in.enc = ce.NewCTEEncoder(cfg)
	case "cbe-marshaler":
		in.mar = ce.NewCBEMarshaler(cfg)
	case "cte-marshaler":
		in.mar = ce.NewCTEMarshaler(cfg)
	case "cbe-unmarshaler":
		in.unm = ce.NewCBEUnmarshaler(cfg)
	case "cte-unmarshaler":
		in.unm = ce.NewCTEUnmarshaler(cfg)
	default:
		panic("c16: unknown kind " + kind)
	}
	return in
}

// call performs one use of the instance (reset point included) and renders
// the observation.  Error texts are never part of it.
func (in *c16Inst) call(op c16Op) string {
	if in.dead {
		return "hang"
	}
	res := c16Watch(func() string { return in.callInner(op) })
	if res == "spin" && os.Getenv("C16_DEBUG") != "" {
		fmt.Fprintf(os.Stderr, "c16: SPIN kind=%s cfg=%s op=%s\n", in.kind, in.cfg, op.text(in.kind))
	}
	if res == "hang" || res == "spin" {
		in.dead = true
	}
	return res
}

func (in *c16Inst) callInner(op c16Op) string {
	switch {
	case in.rules != nil:
		in.rules.r.Reset()
		in.rules.rec.Evs = nil
		at, _ := playAll(in.rules.r, op.Evs)
		return fmt.Sprintf("rej=%d|%s", at, evsString(in.rules.rec.Evs))
	case in.dec != nil:
		if len(op.Doc) == 0 && in.kind == "ce-decoder" {
			return "skip" // UniversalDecoder.DecodeDocument indexes document[0]
		}
		rec := &Recorder{}
		rcv := ce.NewRules(rec, in.cfg.config())
		err := in.dec.DecodeDocument(cp(op.Doc), rcv)
		res := renderResult(evsString(rec.Evs), err, nil)
		if err != nil && c16ErrHead(err) != "err" && strings.HasPrefix(res, "err|") {
			res = c16ErrHead(err) + res[3:]
		}
		return res
	case in.enc != nil:
		d := c16NewDest(op.W)
		before := c16DestSizes(in.past)
		in.enc.PrepareToEncode(d.w)
		at, _ := playAll(in.enc, op.Evs)
		res := fmt.Sprintf("rej=%d|%s", at, hex.EncodeToString(d.bytes()))
		return res + in.leak(before, d)
	case in.mar != nil:
		if strings.HasPrefix(op.Val, "rec:") && !in.cfg.Rec {
			return "skip" // a cyclic value without RecursionSupport overflows the stack (C07 finding, fatal)
		}
		if op.W == "" { // the document API
			doc, err := in.mar.MarshalToDocument(c16Values[op.Val]())
			if err != nil {
				return c16ErrHead(err) + "|" + hex.EncodeToString(doc)
			}
			return "ok|" + hex.EncodeToString(doc)
		}
		d := c16NewDest(op.W)
		before := c16DestSizes(in.past)
		err := in.mar.Marshal(c16Values[op.Val](), d.w)
		head := "ok"
		if err != nil {
			head = c16ErrHead(err)
		}
		return head + "|" + hex.EncodeToString(d.bytes()) + in.leak(before, d)
	default:
		v, err := in.unm.UnmarshalFromDocument(cp(op.Doc), c16Templates[op.Val]())
		return c16RenderValue(v, err)
	}
}

// ---------------------------------------------------------------------------
// Destinations.  An encoder-side object writes to whatever io.Writer the call names; the library
// looks at the dynamic type of that writer (io.StringWriter ...), so the KIND of destination is
// part of an operation.  Every call gets a new destination; what earlier destinations of the same
// instance receive during a later call is observed too ("leak").

var c16DestKinds = []string{"buffer", "builder", "bufio", "plain", "plainbyte"}

type c16Dest struct {
	w     io.Writer
	bytes func() []byte
}

// only io.Writer
type c16PlainWriter struct{ b []byte }

func (p *c16PlainWriter) Write(d []byte) (int, error) { p.b = append(p.b, d...); return len(d), nil }

// io.Writer and io.ByteWriter, no WriteString
type c16PlainByteWriter struct{ b []byte }

func (p *c16PlainByteWriter) Write(d []byte) (int, error) {
	p.b = append(p.b, d...)
	return len(d), nil
}
func (p *c16PlainByteWriter) WriteByte(c byte) error { p.b = append(p.b, c); return nil }

func c16NewDest(kind string) *c16Dest {
	switch kind {
	case "", "buffer": // io.Writer, io.StringWriter, io.ByteWriter, io.ReaderFrom ...
		b := &bytes.Buffer{}
		return &c16Dest{w: b, bytes: func() []byte { return cp(b.Bytes()) }}
	case "builder": // io.Writer, io.StringWriter, io.ByteWriter
		b := &strings.Builder{}
		return &c16Dest{w: b, bytes: func() []byte { return []byte(b.String()) }}
	case "bufio": // io.StringWriter in front of a plain writer; flushed when it is read
		p := &c16PlainWriter{}
		b := bufio.NewWriterSize(p, 16)
		return &c16Dest{w: b, bytes: func() []byte { b.Flush(); return cp(p.b) }}
	case "plain":
		p := &c16PlainWriter{}
		return &c16Dest{w: p, bytes: func() []byte { return cp(p.b) }}
	case "plainbyte":
		p := &c16PlainByteWriter{}
		return &c16Dest{w: p, bytes: func() []byte { return cp(p.b) }}
	}
	panic("c16: unknown destination kind " + kind)
}

func c16DestSizes(ds []*c16Dest) []int {
	out := make([]int, len(ds))
	for i, d := range ds {
		out[i] = len(d.bytes())
	}
	return out
}

// leak renders what the destinations of EARLIER calls received during this call (nothing, on a
// correct instance and on every fresh one) and files this call's destination with them.
func (in *c16Inst) leak(before []int, d *c16Dest) string {
	n := 0
	for i, p := range in.past {
		n += len(p.bytes()) - before[i]
	}
	in.past = append(in.past, d)
	if n != 0 {
		return fmt.Sprintf("|earlier-destinations+%d", n)
	}
	return ""
}

func c16RenderValue(v interface{}, err error) (s string) {
	defer func() {
		if r := recover(); r != nil {
			s = "unrenderable"
		}
	}()
	d := c16Render(reflect.ValueOf(v), 0)
	if err != nil {
		return c16ErrHead(err) + "|" + d
	}
	return "ok|" + d
}

// c16ErrHead is the part of a returned error that is compared: the library reported a problem
// ("err"), or a fault of the Go runtime (nil dereference, index out of range, failed type
// assertion ...: a runtime.Error value that the Marshal / Unmarshal recover handler passed on)
// surfaced as the error ("err-runtime").  Never the text.
func c16ErrHead(err error) string {
	var rt runtime.Error
	if errors.As(err, &rt) {
		return "err-runtime"
	}
	return "err"
}

// c16Render prints a decoded value deterministically by reflection: map entries sorted by their
// rendered key, pointers followed (never printed), floats by bit pattern; leaf library types
// (times, big numbers, URLs ...) through their String method.
func c16Render(v reflect.Value, depth int) string {
	if !v.IsValid() {
		return "nil"
	}
	if depth > 14 {
		return "…"
	}
	t := v.Type()
	if (v.Kind() == reflect.Struct || (v.Kind() == reflect.Ptr && !v.IsNil() && t.Elem().Kind() == reflect.Struct)) && v.CanInterface() {
		pkg := t.PkgPath()
		if v.Kind() == reflect.Ptr {
			pkg = t.Elem().PkgPath()
		}
		if !strings.HasSuffix(pkg, "/types") && pkg != "main" {
			if st, ok := v.Interface().(fmt.Stringer); ok {
				return t.String() + "<" + st.String() + ">"
			}
		}
	}
	switch v.Kind() {
	case reflect.Interface, reflect.Ptr:
		if v.IsNil() {
			return "nil"
		}
		if v.Kind() == reflect.Ptr {
			return "&" + c16Render(v.Elem(), depth+1)
		}
		return c16Render(v.Elem(), depth+1)
	case reflect.Map:
		if v.IsNil() {
			return t.String() + "(nil)"
		}
		items := []string{}
		for _, k := range v.MapKeys() {
			items = append(items, c16Render(k, depth+1)+"="+c16Render(v.MapIndex(k), depth+1))
		}
		sort.Strings(items)
		return t.String() + "{" + strings.Join(items, " ") + "}"
	case reflect.Slice, reflect.Array:
		if v.Kind() == reflect.Slice && v.IsNil() {
			return t.String() + "(nil)"
		}
		items := []string{}
		for i := 0; i < v.Len(); i++ {
			items = append(items, c16Render(v.Index(i), depth+1))
		}
		return t.String() + "[" + strings.Join(items, " ") + "]"
	case reflect.Struct:
		items := []string{}
		for i := 0; i < v.NumField(); i++ {
			items = append(items, t.Field(i).Name+":"+c16Render(v.Field(i), depth+1))
		}
		return t.String() + "{" + strings.Join(items, " ") + "}"
	case reflect.Bool:
		return fmt.Sprint(v.Bool())
	case reflect.Int, reflect.Int8, reflect.Int16, reflect.Int32, reflect.Int64:
		return fmt.Sprintf("%s(%d)", t, v.Int())
	case reflect.Uint, reflect.Uint8, reflect.Uint16, reflect.Uint32, reflect.Uint64, reflect.Uintptr:
		return fmt.Sprintf("%s(%d)", t, v.Uint())
	case reflect.Float32, reflect.Float64:
		return fmt.Sprintf("%s(%016x)", t, math.Float64bits(v.Float()))
	case reflect.Complex64, reflect.Complex128:
		c := v.Complex()
		return fmt.Sprintf("%s(%016x,%016x)", t, math.Float64bits(real(c)), math.Float64bits(imag(c)))
	case reflect.String:
		return fmt.Sprintf("%q", v.String())
	}
	return t.String() // chan, func, unsafe pointer
}

// ---------------------------------------------------------------------------
// The property on one history.

type c16Step struct {
	Reused, Fresh string
}

// c16FreshCache (when set): answers of fresh instances, by kind, configuration and operation.  A
// fresh instance is a function of exactly these; the directed families give the same operation to
// thousands of fresh instances.
var c16FreshCache map[string]string

func c16Fresh(kind string, k c16Cfg, op c16Op) string {
	if c16FreshCache == nil {
		return c16New(kind, k).call(op)
	}
	key := kind + "|" + k.String() + "|" + op.text(kind)
	if r, ok := c16FreshCache[key]; ok {
		return r
	}
	r := c16New(kind, k).call(op)
	if r != "hang" && r != "spin" {
		c16FreshCache[key] = r
	}
	return r
}

// c16RunHistory drives one reused instance through ops and a fresh instance per op.
func c16RunHistory(kind string, k c16Cfg, ops []c16Op) []c16Step {
	in := c16New(kind, k)
	out := make([]c16Step, 0, len(ops))
	for _, op := range ops {
		fresh := c16Fresh(kind, k, op)
		reused := in.call(op)
		out = append(out, c16Step{reused, fresh})
		if reused == "hang" || reused == "spin" || fresh == "spin" {
			break // the instance is gone
		}
	}
	return out
}

func c16Class(st c16Step) string {
	r, f := st.Reused, st.Fresh
	head := func(s string) string {
		if i := strings.Index(s, "|"); i >= 0 {
			return s[:i]
		}
		return s
	}
	switch {
	case r == "hang":
		return "hang"
	case r == "spin":
		return "busy-loop"
	case r == "panic" || f == "panic":
		return "panic"
	case strings.HasPrefix(r, "err") && strings.HasPrefix(f, "err") && head(r) != head(f):
		return "error-kind-differs"
	case head(r) != head(f):
		return "verdict-differs"
	default:
		return "output-differs"
	}
}

func c16HistoryText(kind string, ops []c16Op) string {
	ss := make([]string, len(ops))
	for i, o := range ops {
		ss[i] = o.text(kind)
	}
	return strings.Join(ss, " ; ")
}

func c16ParseHistory(kind, s string) ([]c16Op, error) {
	ops := []c16Op{}
	if strings.TrimSpace(s) == "" {
		return ops, nil
	}
	for _, part := range strings.Split(s, " ; ") {
		o, err := c16ParseOp(kind, strings.TrimSpace(part))
		if err != nil {
			return nil, err
		}
		ops = append(ops, o)
	}
	return ops, nil
}

// c16Check evaluates the property on a history and records failures (first
// diverging call only: later calls of the same history run on a state that
// already differs).
func c16Check(c *Ctx, kind string, k c16Cfg, ops []c16Op, tag string) []c16Step {
	steps := c16RunHistory(kind, k, ops)
	if i := c16FirstDivergence(kind, ops, steps); i >= 0 {
		st := steps[i]
		c.Fail(Replay{Kind: "history", Key: c16Key(kind, k, ops[:i+1], st),
			Input:  map[string]string{"kind": kind, "cfg": k.String(), "history": c16HistoryText(kind, ops[:i+1])},
			Expect: c16Trunc(st.Fresh), Got: c16Trunc(st.Reused), Note: tag + fmt.Sprintf("; call %d of the history diverges", i+1)})
	}
	return steps
}

// c16FirstDivergence: index of the first call on which the reused instance answers differently
// from a fresh one (-1: none).  Only the first one counts: later calls run on a state that
// already differs.  Calls that are not compared:
//   - a busy loop ("spin") that the fresh instance runs into as well is a different defect;
//   - the CTE encoder is reset by OnBeginDocument (EncoderContext.Begin): an event stream that
//     does not start with it never reset the instance, so the property says nothing about it
//     (the CBE encoder is reset by PrepareToEncode, which every call performs).
func c16FirstDivergence(kind string, ops []c16Op, steps []c16Step) int {
	for i, st := range steps {
		if st.Fresh == "skip" || st.Fresh == "spin" {
			continue
		}
		if kind == "cte-encoder" && (len(ops[i].Evs) == 0 || ops[i].Evs[0].K != "bd") {
			continue
		}
		if st.Reused != st.Fresh {
			return i
		}
	}
	return -1
}

// c16Key names the failure class: kind, how the answers differ, and the feature of the history
// that explains it (so that one defect maps to few keys).
func c16Key(kind string, k c16Cfg, ops []c16Op, st c16Step) string {
	key := "C16/" + kind + "/" + c16Class(st)
	last := ops[len(ops)-1]
	switch c16Family(kind) {
	case "value", "unmarshal":
		table, bad := c16Values, c16BadValues
		if c16Family(kind) == "unmarshal" {
			table, bad = c16Templates, c16BadTemplates
		}
		// a failed generation inside a CYCLE of types leaves the iterators / builders of the other types of
		// the cycle in the session cache (they were completed while the failing one was in progress)
		if cyc, _ := c16NameCycle(table, last.Val); cyc {
			for _, o := range ops[:len(ops)-1] {
				if cyc, unsupported := c16NameCycle(table, o.Val); cyc && unsupported {
					return key + "/after-unsupported-type/in-type-cycle"
				}
			}
		}
		if c16MixedDests(ops) {
			return key + "/destination-kinds"
		}
		if k.Rec {
			return key + "/recursion-support"
		}
		for _, o := range ops[:len(ops)-1] {
			if c16IsBad(o.Val, bad) {
				return key + "/after-unsupported-type"
			}
		}
	case "events":
		if kind != "rules" && c16MixedDests(ops) {
			return key + "/destination-kinds"
		}
		if kind == "rules" {
			for _, o := range ops[:len(ops)-1] {
				if c16LeavesReferencePending(o.Evs) {
					return key + "/after-pending-reference"
				}
			}
		}
		if kind != "rules" {
			// was the diverging stream itself a complete valid document?
			valid := "invalid-stream"
			if at, _, _ := runRules(k.rulesCfg(), last.Evs); at < 0 && len(last.Evs) > 0 && last.Evs[len(last.Evs)-1].K == "ed" {
				valid = "valid-document"
			}
			for _, o := range ops[:len(ops)-1] {
				if c16LeavesArrayOpen(o.Evs) {
					return key + "/after-unfinished-array/" + valid
				}
			}
			return key + "/" + valid
		}
	}
	return key
}

// c16NameCycle: is the static type graph of the named value / template cyclic, and does it reach an
// unsupported kind (views of a graph root are judged by the root type)?
func c16NameCycle(table map[string]func() interface{}, name string) (cyclic, unsupported bool) {
	var t reflect.Type
	if strings.HasPrefix(name, "g:") {
		if i := strings.Index(name, "/"); i > 2 {
			t = c16GraphRoots[name[2:i]]
		}
	} else if f, ok := table[name]; ok {
		if v := f(); v != nil {
			t = reflect.TypeOf(v)
		}
	}
	if t == nil {
		return false, false
	}
	return c16TypeCyclic(t, map[reflect.Type]bool{}), c16TypeUnsupported(t, map[reflect.Type]bool{}) || strings.HasPrefix(name, "g:GJ/")
}

// were the calls of the history given destinations of different kinds?
func c16MixedDests(ops []c16Op) bool {
	norm := func(w string) string {
		if w == "" {
			return "buffer"
		}
		return w
	}
	for _, o := range ops[1:] {
		if norm(o.W) != norm(ops[0].W) {
			return true
		}
	}
	return false
}

func c16IsBad(name string, bad []string) bool {
	for _, b := range bad {
		if b == name {
			return true
		}
	}
	return false
}

// a local reference whose marker does not occur in the same stream
func c16LeavesReferencePending(es []Ev) bool {
	marked := map[string]bool{}
	for _, e := range es {
		if e.K == "mk" {
			marked[string(e.Data)] = true
		}
	}
	for _, e := range es {
		if e.K == "ref" && !marked[string(e.Data)] {
			return true
		}
	}
	return false
}

// an array begun with begin/chunk events and not completed when the stream stops
func c16LeavesArrayOpen(es []Ev) bool {
	open := false
	for _, e := range es {
		switch e.K {
		case "ab", "mb", "cbeg":
			open = true
		case "ac":
			if !e.B && e.N == 0 {
				open = false
			}
		case "bd":
			open = false
		}
	}
	if !open {
		return false
	}
	// open unless the last chunk was final and fully delivered; approximated by: a begin event
	// after which no final chunk (more=false) was seen
	final := false
	for _, e := range es {
		switch e.K {
		case "ab", "mb", "cbeg":
			final = false
		case "ac":
			if !e.B {
				final = true
			}
		}
	}
	return !final
}

func c16Trunc(s string) string {
	if len(s) > 300 {
		return s[:300] + "…"
	}
	return s
}

func replayC16(r *Replay) (bool, string) {
	if r.Kind != "history" {
		return false, "unknown replay kind " + r.Kind
	}
	kind := r.Input["kind"]
	ops, err := c16ParseHistory(kind, r.Input["history"])
	if err != nil {
		return false, "cannot replay: " + err.Error()
	}
	steps := c16RunHistory(kind, c16ParseCfg(r.Input["cfg"]), ops)
	if i := c16FirstDivergence(kind, ops, steps); i >= 0 {
		st := steps[i]
		return false, fmt.Sprintf("%s: call %d: reused instance %q, fresh instance %q", kind, i+1, c16Trunc(st.Reused), c16Trunc(st.Fresh))
	}
	return true, fmt.Sprintf("%s: %d calls, reused and fresh instance agree on every call", kind, len(steps))
}

// ---------------------------------------------------------------------------
// Generators.

func c16GenOpts() GenOpts {
	o := DefaultGenOpts()
	o.Times = false   // not replayable from text
	o.BigNums = false // big floats / decimals are not replayable from text
	o.MaxDepth = 3
	o.MaxFan = 4
	return o
}

// aborted variants of a valid stream: cut after a container / array begin
func c16Abort(c *Ctx, es []Ev) []Ev {
	cand := []int{}
	for i, e := range es {
		switch e.K {
		case "ab", "mb", "cbeg", "l", "m", "node", "edge", "ac", "mk", "rec":
			cand = append(cand, i)
		}
	}
	if len(cand) == 0 {
		return es[:1+c.Rng.Intn(len(es))]
	}
	return es[:cand[c.Rng.Intn(len(cand))]+1]
}

func c16EventHistory(c *Ctx, g *EvGen, n int) []c16Op {
	ops := []c16Op{}
	for i := 0; i < n; i++ {
		es := g.Document()
		switch c.Rng.Intn(7) {
		case 0:
			es = g.Mutate(es)
		case 1, 2:
			es = c16Abort(c, es)
		case 3: // drop the markers: the references stay unresolved (the generator reuses its identifiers from document to document)
			kept := []Ev{}
			for _, e := range es {
				if e.K != "mk" {
					kept = append(kept, e)
				}
			}
			es = kept
		}
		ops = append(ops, c16Op{Evs: es})
	}
	return ops
}

// encode a (valid) event stream with a fresh encoder; ok=false when the encoder refused it
func c16Encode(format string, es []Ev) ([]byte, bool) {
	var buf bytes.Buffer
	var enc ce.Encoder
	if format == "cbe" {
		enc = ce.NewCBEEncoder(configuration.New())
	} else {
		enc = ce.NewCTEEncoder(configuration.New())
	}
	enc.PrepareToEncode(&buf)
	at, _ := playAll(enc, es)
	return buf.Bytes(), at < 0
}

// hand-written documents: small values of the shapes the templates expect, plus invalid ones
var c16CteDocs = []string{"c0 1", "c0 \"a\"", "c0 [1 2 3]", "c0 {\"a\"=1}", "c0 {\"A\"=5 \"B\"=\"x\"}", "c0 [[[[1]]]]", "c0 [1 2 3 4 5 6 7 8 9 10 11 12]",
	"c0 null", "c0 [", "c0 {1=", "c0 }", "", "c1 1", "c0 [{\"A\"=1 \"B\"=\"q\"} {\"A\"=2}]", "c0 {\"S\"={\"A\"=1 \"B\"=\"z\"} \"N\"=4}",
	"c0 {\"A\"=1 \"C\"=2}", "c0 {\"X\"=1 \"S\"={\"A\"=2}}", "c0 {\"a\"=1 \"a\"=2}", "c0 \"xxxxxxxxxxxxxxxxxxxxxxxxxxxxxxxxxxxxxxxxxxxxxxxxxxxxxxxxxxxxxxxxxxxxxxxx\""}

var c16CbeDocs = [][]byte{
	{0x81, 0, 1}, {0x81, 0, 0x81, 'a'}, {0x81, 0, 0x9a, 1, 2, 3, 0x9b}, {0x81, 0, 0x99, 0x81, 'a', 1, 0x9b},
	{0x81, 0, 0x99, 0x81, 'A', 5, 0x81, 'B', 0x81, 'x', 0x9b}, {0x81, 0, 0x9a, 0x9a, 0x9a, 0x9a, 1, 0x9b, 0x9b, 0x9b, 0x9b},
	{0x81, 0, 0x9a, 1, 2, 3, 4, 5, 6, 7, 8, 9, 10, 11, 12, 0x9b}, {0x81, 0, 0x7d}, {0x81, 0, 0x9a}, {0x81, 0, 0x99, 1}, {0x81, 0, 0x9b}, {}, {0x81, 1, 1},
	{0x81, 0, 0x9a, 0x99, 0x81, 'A', 1, 0x81, 'B', 0x81, 'q', 0x9b, 0x99, 0x81, 'A', 2, 0x9b, 0x9b},
	{0x81, 0, 0x99, 0x81, 'S', 0x99, 0x81, 'A', 1, 0x81, 'B', 0x81, 'z', 0x9b, 0x81, 'N', 4, 0x9b},
	{0x81, 0, 0x99, 0x81, 'A', 1, 0x81, 'C', 2, 0x9b}, {0x81, 0, 0x99, 0x81, 'X', 1, 0x81, 'S', 0x99, 0x81, 'A', 2, 0x9b, 0x9b},
	{0x81, 0, 0x99, 0x81, 'a', 1, 0x81, 'a', 2, 0x9b},
	append([]byte{0x81, 0, 0x90, 0x90, 0x01}, bytes.Repeat([]byte{'x'}, 72)...),
	{0x81, 0, 0x6b, 1, 2, 3, 4, 5, 6, 7, 8}, {0x81, 0, 0x69, 1}, {0x80}, {0x81}, {0x81, 0, 0x82, 'h'},
}

// a valid document of the shape a typed template expects
func c16Matched(format, tmpl string) []byte {
	cte := map[string]int{"int": 0, "string": 1, "ints": 2, "strmap": 3, "S1": 4, "pS1": 4, "S1s": 13, "myint": 0, "goodouter": 14}
	i := cte[tmpl]
	if format == "cbe" {
		return cp(c16CbeDocs[i])
	}
	return []byte(c16CteDocs[i])
}

func c16Doc(c *Ctx, g *EvGen, format string) []byte {
	if c.Rng.Intn(3) == 0 {
		if format == "cbe" {
			return cp(c16CbeDocs[c.Rng.Intn(len(c16CbeDocs))])
		}
		return []byte(c16CteDocs[c.Rng.Intn(len(c16CteDocs))])
	}
	for try := 0; try < 20; try++ {
		doc, ok := c16Encode(format, g.Document())
		if !ok || len(doc) == 0 {
			continue
		}
		switch c.Rng.Intn(8) {
		case 0: // truncated
			doc = doc[:c.Rng.Intn(len(doc))]
		case 1:
			if format == "cte" { // corrupt one byte of the text (the CBE decoder trusts length fields: only truncate there)
				doc = cp(doc)
				doc[c.Rng.Intn(len(doc))] = "[]{}\"@ x1"[c.Rng.Intn(9)]
			} else {
				doc = append(cp(doc), 1)
			}
		}
		return doc
	}
	return []byte{}
}

func c16DocHistory(c *Ctx, g *EvGen, format string, n int) []c16Op {
	ops := []c16Op{}
	for i := 0; i < n; i++ {
		ops = append(ops, c16Op{Doc: c16Doc(c, g, format)})
	}
	return ops
}

func c16SumLen(ops []c16Op) int {
	n := 0
	for _, o := range ops {
		n += len(o.Doc)
	}
	return n
}

// a size limit that single documents mostly respect but the running total of a history does not
func c16DocLimit(c *Ctx, ops []c16Op) uint64 {
	max := 1
	for _, o := range ops {
		if len(o.Doc) > max {
			max = len(o.Doc)
		}
	}
	switch c.Rng.Intn(4) {
	case 0:
		return 0 // library default
	case 1:
		return uint64(max) // largest document just fits
	case 2:
		return uint64(1 + c.Rng.Intn(max)) // some documents too large on their own
	default:
		return uint64(max + c.Rng.Intn(1+c16SumLen(ops)))
	}
}

func c16Pick(c *Ctx, good, bad []string, pBad int) string {
	if c.Rng.Intn(100) < pBad {
		return bad[c.Rng.Intn(len(bad))]
	}
	return good[c.Rng.Intn(len(good))]
}

func runC16(c *Ctx) {
	c.Rep.Rule = "histories of 2..8 operations on ONE instance per kind (rules validator with Reset; CBE / CTE / universal decoder; CBE / CTE encoder with PrepareToEncode; CBE / CTE marshaler; CBE / CTE unmarshaler), every operation also given to a freshly created instance of the same configuration and the two answers compared (forwarded events / output bytes / decoded value rendered by reflection / error-or-not / hang, watchdog on blocked goroutines); operations: generated valid event streams and documents, mutants, streams aborted after a container or array begin, streams without begin-document, values and templates of unsupported Go types (chan, func, complex, unsafe.Pointer, structs / slices / maps / interfaces holding them) mixed with supported ones, documents near small MaxDocumentSizeBytes / MaxContainerDepth / MaxObjectCount limits incl. documents that fit one by one while their sizes add up beyond the limit; directed families: (S) first documents that FAIL or are abandoned with per-document state populated (pending forward reference with / without markers, markers, record types, open containers with a consumed map key, array chunk in progress incl. cut inside a UTF-8 sequence, array begun, marker pending; endings: stop, early end-of-document, proper end, too many ends, duplicate marker, null key, chunk without array, invalid UTF-8, undeclared record) crossed with later documents that use the SAME identifiers and read that state, under default limits and under small depth / object / reference / marker limits with documents on both sides of each limit, as event streams (validator, encoders) and as the CBE / CTE documents they encode to (decoders, unmarshalers); (B) documents abandoned at every byte position, with trailing bytes or over the limit, then documents of exactly limit-1 / limit / limit+1 bytes for several MaxDocumentSizeBytes; (G) self-referential and mutually recursive Go types reaching an unsupported kind, entered through different views (value, pointer, slice, map, interface, pointer to pointer ...) in every order, as marshaled values and as unmarshal templates; (W) every reusable encoder-side object (CBE / CTE encoder, CBE / CTE marshaler) given destinations of different KINDS call after call (bytes.Buffer, strings.Builder, bufio.Writer, a writer with only Write, a writer with Write and WriteByte): every ordered pair and triple of kinds, on streams / values with strings, chunked strings, resource IDs, media, record keys, custom text, a long string and a control without strings; the bytes that reach the call's own destination and the bytes that reach destinations of EARLIER calls are compared; (R) Iterator.RecursionSupport = true on reused marshalers over values with shared and cyclic pointers (0..3 markers: shared slice elements, fields, maps, slices, interface contents, self cycle, two-cycle, cycle plus sharing): every ordered pair, sampled longer histories, also mixed with ordinary values and destination kinds; the error of a call is compared as none / reported / Go runtime fault; non-trivial = history of at least 2 operations; distinct by (kind, limits, history text)"
	g := NewEvGen(c.Rng, c16GenOpts())
	only := os.Getenv("C16_ONLY")
	t0 := time.Now()
	lap := func(what string) {
		if os.Getenv("C16_DEBUG") != "" {
			fmt.Fprintf(os.Stderr, "c16: %s done at %v\n", what, time.Since(t0))
		}
	}
	record := func(kind string, k c16Cfg, ops []c16Op, steps []c16Step) {
		c.Count(kind+"|"+k.String()+"|"+c16HistoryText(kind, ops), len(ops) >= 2)
		for _, st := range steps {
			c.Dist(kind + "/" + c16ObsHead(st.Reused))
		}
		if len(c.Rep.Samples) < 8 && c.Rng.Intn(40) == 0 {
			c.Sample(map[string]string{"kind": kind, "cfg": k.String(), "history": c16Trunc(c16HistoryText(kind, ops))})
		}
	}

	// 0a. directed encoder histories: a document aborted right after an array begin, then complete documents
	// (first, so that the recorded witnesses of a failure class are the small ones).  Pinned witness of the
	// CBE encoder defect repaired by "fix: a reused CBE encoder forgets the array state of an aborted
	// document": [bd v l ab:uint8] then [bd v null ed] gave 81 00 7d 93 instead of 81 00 7d.
	if only == "" || only == "cbe-encoder" || only == "cte-encoder" {
		for _, t := range []events.ArrayType{events.ArrayTypeUint8, events.ArrayTypeString, events.ArrayTypeUint16, events.ArrayTypeBit, events.ArrayTypeResourceID} {
			for _, second := range [][]Ev{
				{{K: "bd"}, {K: "v"}, {K: "null"}, {K: "ed"}},
				{{K: "bd"}, {K: "v"}, {K: "l"}, {K: "pi", N: 1}, {K: "e"}, {K: "ed"}},
				{{K: "bd"}, {K: "v"}, {K: "ab", A: events.ArrayTypeUint8}, {K: "ac", N: 2, B: false}, {K: "ad", Data: []byte{1, 2}}, {K: "ed"}},
				{{K: "bd"}, {K: "v"}, {K: "ac", N: 1, B: false}, {K: "ad", Data: []byte{1}}, {K: "ed"}},
			} {
				first := []Ev{{K: "bd"}, {K: "v"}, {K: "l"}, {K: "ab", A: t}}
				ops := []c16Op{{Evs: first}, {Evs: second}, {Evs: second}}
				for _, kind := range []string{"cbe-encoder", "cte-encoder"} {
					record(kind, c16Cfg{}, ops, c16Check(c, kind, c16Cfg{}, ops, "directed: aborted array then document"))
				}
				c16CaseCbeEnc(c, ops)
			}
		}
	}

	// 0b. directed type-cache histories: an unsupported type, then the same type / a type containing it / a supported type
	for _, kind := range []string{"cbe-marshaler", "cte-marshaler"} {
		if only != "" && only != kind {
			continue
		}
		for _, h := range [][]string{{"chan", "chan", "int"}, {"chan", "badS", "S1"}, {"badS", "chan"}, {"chans", "badouter", "ints"},
			{"chanmap", "iface-chan", "iface-list"}, {"dyn-bad", "dyn-good", "dyn-bad"}, {"badcyc", "pbadcyc", "rec"}, {"func", "complex", "unsafeptr", "myint"}} {
			ops := []c16Op{}
			for _, v := range h {
				ops = append(ops, c16Op{Val: v})
			}
			steps := c16Check(c, kind, c16Cfg{}, ops, "directed: unsupported type then related types")
			record(kind, c16Cfg{}, ops, steps)
			c16CaseMarshalCache(c, kind, ops, steps)
		}
	}
	for _, kind := range []string{"cbe-unmarshaler", "cte-unmarshaler"} {
		if only != "" && only != kind {
			continue
		}
		for _, h := range [][]int{{6, 6, 0}, {6, 9, 2}, {6, 10}, {9, 6}, {15, 12, 13}, {17, 16, 14}, {7, 8, 6, 11}} {
			ops := []c16Op{}
			for _, p := range h {
				tc := c16TmplCases[p]
				doc := []byte(tc.Cte)
				if kind == "cbe-unmarshaler" {
					doc = cp(tc.Cbe)
				}
				ops = append(ops, c16Op{Val: tc.Tmpl, Doc: doc})
			}
			steps := c16Check(c, kind, c16Cfg{}, ops, "directed: unsupported template type then related types")
			record(kind, c16Cfg{}, ops, steps)
			c16CaseUnmarshalCache(c, kind, h, steps, ops)
		}
	}

	// 0c. directed families: state left by a failed document x documents sensitive to it; byte counters and
	// size limits after abandoned documents; type graphs entered through different views
	c16RunStateFamily(c, only, record)
	lap("state family")
	c16RunSizeFamily(c, only, record)
	lap("size family")
	c16RunGraphFamily(c, only, record)
	lap("graph family")
	c16RunDestFamily(c, only, record)
	lap("destination family")
	c16RunRecursionFamily(c, only, record)
	lap("recursion family")

	// 1. event-driven instances
	for _, kind := range []string{"rules", "cbe-encoder", "cte-encoder"} {
		if only != "" && only != kind {
			continue
		}
		defer lap(kind)
		for i := 0; i < c.Pick(60, 1500); i++ {
			k := c16Cfg{}
			if kind == "rules" && c.Rng.Intn(3) == 0 {
				k = c16Cfg{MaxDepth: uint64(1 + c.Rng.Intn(3)), MaxObjects: uint64(3 + c.Rng.Intn(10))}
			}
			ops := c16EventHistory(c, g, 2+c.Rng.Intn(5))
			steps := c16Check(c, kind, k, ops, "generated")
			record(kind, k, ops, steps)
			switch kind {
			case "rules":
				if i < c.Pick(40, 400) {
					c16CaseRules(c, k, ops)
				}
			case "cbe-encoder":
				if i < c.Pick(50, 500) {
					c16CaseCbeEnc(c, ops)
				}
			}
		}
	}

	// 1c. CTE encoder histories over the structural alphabet of the model
	if only == "" || only == "cte-encoder" {
		for i := 0; i < c.Pick(150, 2000); i++ {
			ops := []c16Op{}
			for j, n := 0, 2+c.Rng.Intn(4); j < n; j++ {
				ops = append(ops, c16Op{Evs: c16CteDoc(c)})
			}
			record("cte-encoder", c16Cfg{}, ops, c16Check(c, "cte-encoder", c16Cfg{}, ops, "structural alphabet"))
			c16CaseCteEnc(c, ops)
		}
	}

	// 2. decoders
	for _, kind := range []string{"cbe-decoder", "cte-decoder", "ce-decoder"} {
		if only != "" && only != kind {
			continue
		}
		lap("before " + kind)
		for i := 0; i < c.Pick(60, 1500); i++ {
			format := "cbe"
			if kind == "cte-decoder" || (kind == "ce-decoder" && c.Rng.Intn(2) == 0) {
				format = "cte"
			}
			ops := c16DocHistory(c, g, format, 2+c.Rng.Intn(6))
			k := c16Cfg{MaxDoc: c16DocLimit(c, ops)}
			if c.Rng.Intn(4) == 0 {
				k.MaxDepth, k.MaxObjects = uint64(1+c.Rng.Intn(3)), uint64(3+c.Rng.Intn(10))
			}
			record(kind, k, ops, c16Check(c, kind, k, ops, "generated "+format))
			if kind == "cbe-decoder" && i < c.Pick(60, 600) {
				docs := [][]byte{}
				for _, o := range ops {
					docs = append(docs, o.Doc)
				}
				c16CaseReader(c, k.MaxDoc, docs, false)
			}
		}
	}

	// 2b. directed: documents that each fit the size limit while their sizes add up beyond it
	if only == "" || strings.HasPrefix(only, "cbe-") {
		doc := []byte{0x81, 0, 0x9a, 1, 2, 3, 4, 5, 6, 7, 8, 9, 10, 11, 12, 0x9b}
		str := append([]byte{0x81, 0, 0x90, 40}, bytes.Repeat([]byte{'y'}, 20)...)
		for _, lim := range []uint64{uint64(len(doc)), uint64(len(doc)) + 1, 24, 30, 40, 100} {
			for _, n := range []int{3, 8} {
				ops := []c16Op{}
				docs := [][]byte{}
				for j := 0; j < n; j++ {
					d := doc
					if j%3 == 2 {
						d = str
					}
					ops = append(ops, c16Op{Doc: cp(d), Val: "nil"})
					docs = append(docs, cp(d))
				}
				k := c16Cfg{MaxDoc: lim}
				for _, kind := range []string{"cbe-decoder", "ce-decoder", "cbe-unmarshaler"} {
					record(kind, k, ops, c16Check(c, kind, k, ops, "directed: sizes add up beyond the limit"))
				}
				c16CaseReader(c, lim, docs, false)
				c16CaseReader(c, lim, docs, true)
			}
		}
	}

	// 3. marshalers
	for _, kind := range []string{"cbe-marshaler", "cte-marshaler"} {
		if only != "" && only != kind {
			continue
		}
		lap("before " + kind)
		for i := 0; i < c.Pick(40, 600); i++ {
			n := 2 + c.Rng.Intn(5)
			ops := []c16Op{}
			pBad := []int{0, 15, 40}[c.Rng.Intn(3)]
			for j := 0; j < n; j++ {
				ops = append(ops, c16Op{Val: c16Pick(c, c16GoodValues, c16BadValues, pBad)})
			}
			steps := c16Check(c, kind, c16Cfg{}, ops, "generated")
			record(kind, c16Cfg{}, ops, steps)
			c16CaseMarshalCache(c, kind, ops, steps)
		}
	}

	// 3b. unmarshalers on typed templates with documents of the template's shape (the type-cache model's domain)
	for _, kind := range []string{"cbe-unmarshaler", "cte-unmarshaler"} {
		if only != "" && only != kind {
			continue
		}
		for i := 0; i < c.Pick(60, 800); i++ {
			ops, picks := []c16Op{}, []int{}
			for j, n := 0, 2+c.Rng.Intn(5); j < n; j++ {
				p := c.Rng.Intn(len(c16TmplCases))
				tc := c16TmplCases[p]
				doc := []byte(tc.Cte)
				if kind == "cbe-unmarshaler" {
					doc = cp(tc.Cbe)
				}
				ops = append(ops, c16Op{Val: tc.Tmpl, Doc: doc})
				picks = append(picks, p)
			}
			steps := c16Check(c, kind, c16Cfg{}, ops, "typed templates")
			record(kind, c16Cfg{}, ops, steps)
			c16CaseUnmarshalCache(c, kind, picks, steps, ops)
		}
	}

	// 4. unmarshalers on generated / hand-written / damaged documents
	gs := g
	for _, kind := range []string{"cbe-unmarshaler", "cte-unmarshaler"} {
		if only != "" && only != kind {
			continue
		}
		lap("before " + kind)
		format := kind[:3]
		for i := 0; i < c.Pick(60, 1200); i++ {
			if c16Spins > 3 {
				break
			}
			ops := c16DocHistory(c, gs, format, 2+c.Rng.Intn(6))
			pBad := []int{0, 10, 30}[c.Rng.Intn(3)]
			for j := range ops {
				switch r := c.Rng.Intn(100); {
				case r < pBad: // unsupported template type, any document
					ops[j].Val = c16BadTemplates[c.Rng.Intn(len(c16BadTemplates))]
				case r < pBad+25: // typed template, mostly with a document of its shape
					t := c16GoodTemplates[1+c.Rng.Intn(len(c16GoodTemplates)-1)]
					if c.Rng.Intn(4) == 0 {
						ops[j].Val = t
					} else {
						ops[j] = c16Op{Val: t, Doc: c16Matched(format, t)}
					}
				default:
					ops[j].Val = "nil"
				}
			}
			k := c16Cfg{MaxDoc: c16DocLimit(c, ops)}
			if c.Rng.Intn(4) == 0 {
				k.MaxDepth, k.MaxObjects = uint64(1+c.Rng.Intn(3)), uint64(3+c.Rng.Intn(10))
			}
			record(kind, k, ops, c16Check(c, kind, k, ops, "generated"))
		}
	}
}

// ---------------------------------------------------------------------------
// Correspondence with CE.Model.Reuse: histories inside the model's domain and
// what ONE reused implementation instance answered.

func (c *Ctx) c16Cases() *caseFile {
	cf := c.Cases("reuse", "CE.Model.Reuse CE.Model.Rules", "reuse_case", "reuse_case_ok")
	cf.perFile = 80
	return cf
}

// (a) validator histories: one validator, Reset before every document
func c16CaseRules(c *Ctx, k c16Cfg, ops []c16Op) {
	rec := &Recorder{}
	r := ce.NewRules(rec, k.config())
	docs, seen := []string{}, []string{}
	for _, o := range ops {
		r.Reset()
		rec.Evs = nil
		at, _ := playAll(r, o.Evs)
		docs = append(docs, cEvs(o.Evs))
		seen = append(seen, cPair(cEvs(rec.Evs), cOptN(at)))
	}
	c.c16Cases().Add(cApp("RulesHist", k.rulesCfg().coq(), cList(docs), cList(seen)),
		"rules "+k.String()+" :: "+c16HistoryText("rules", ops))
}

// (b) reader histories: the reads a decoder performs, seen through the io.Reader it is given
type c16LogReader struct {
	r     *bytes.Reader
	reads []string // Coq pairs (n, err)
}

func (l *c16LogReader) Read(p []byte) (int, error) {
	n, err := l.r.Read(p)
	l.reads = append(l.reads, cPair(cNi(n), cBool(err != nil)))
	return n, err
}

func c16Ns(v []string) string { return cList(v) }

func c16CaseReader(c *Ctx, maxDoc uint64, docs [][]byte, viaUnmarshaler bool) {
	lim := c16Cfg{MaxDoc: maxDoc}.config()
	var dec ce.Decoder
	var unm ce.Unmarshaler
	if viaUnmarshaler {
		unm = ce.NewCBEUnmarshaler(lim)
	} else {
		dec = ce.NewCBEDecoder(lim)
	}
	plans, seen := []string{}, []string{}
	for _, d := range docs {
		// the read plan: a fresh decoder without a size limit
		pl := &c16LogReader{r: bytes.NewReader(d)}
		var perr error
		if viaUnmarshaler {
			_, perr = ce.NewCBEUnmarshaler(configuration.New()).Unmarshal(pl, nil)
		} else {
			perr = ce.NewCBEDecoder(configuration.New()).Decode(pl, ce.NewRules(&Recorder{}, configuration.New()))
		}
		plans = append(plans, cPair(c16Ns(pl.reads), cBool(perr != nil)))
		// the reused, limited instance
		ob := &c16LogReader{r: bytes.NewReader(d)}
		var oerr error
		if viaUnmarshaler {
			_, oerr = unm.Unmarshal(ob, nil)
		} else {
			oerr = dec.Decode(ob, ce.NewRules(&Recorder{}, configuration.New()))
		}
		seen = append(seen, cPair(c16Ns(ob.reads), cBool(oerr != nil)))
	}
	hs := make([]string, len(docs))
	for i, d := range docs {
		hs[i] = hex.EncodeToString(d)
	}
	c.c16Cases().Add(cApp("ReaderHist", cN(lim.Rules.MaxDocumentSizeBytes), cList(plans), cList(seen)),
		fmt.Sprintf("reader max=%d unmarshaler=%v :: %s", maxDoc, viaUnmarshaler, strings.Join(hs, " ; ")))
}

// (c) encoder histories: index of the first rejected event and the bytes written by the accepted ones
func c16EncodeObserved(enc ce.Encoder, es []Ev) (int, []byte) {
	return c16EncodeObservedTo(enc, es, "")
}

// the same into a destination of the given kind
func c16EncodeObservedTo(enc ce.Encoder, es []Ev, w string) (int, []byte) {
	d := c16NewDest(w)
	enc.PrepareToEncode(d.w)
	for i, e := range es {
		mark := len(d.bytes())
		if _, bad := playOne(enc, e); bad {
			return i, d.bytes()[:mark]
		}
	}
	return -1, d.bytes()
}

func c16InCbeModel(es []Ev) bool {
	for _, e := range es {
		switch e.K {
		case "tm", "bf", "bdf":
			return false
		case "df": // DFloat values carrying the special exponent are not expressible in the model
			if e.DF.Exponent == -0x80000000 {
				return false
			}
		}
	}
	return true
}

func c16CaseCbeEnc(c *Ctx, ops []c16Op) {
	enc := ce.NewCBEEncoder(configuration.New())
	docs, seen := []string{}, []string{}
	for _, o := range ops {
		if !c16InCbeModel(o.Evs) {
			return
		}
		at, out := c16EncodeObservedTo(enc, o.Evs, o.W) // the model's encoder has no notion of destination kinds
		docs = append(docs, cEvs(o.Evs))
		seen = append(seen, cPair(cOptN(at), cBytes(out)))
	}
	c.c16Cases().Add(cApp("CbeEncHist", cList(docs), cList(seen)), "cbe-encoder :: "+c16HistoryText("cbe-encoder", ops))
}

// (d) CTE encoder histories over the model's own event alphabet
func c16CevTerm(e Ev) string {
	switch e.K {
	case "bd":
		return "CBegin"
	case "v":
		return cApp("CVersion", cN(e.N))
	case "ed":
		return "CEndDoc"
	case "pad":
		return "CPadding"
	case "cm":
		return cApp("CComment", cBool(e.B), cBytes(e.Data))
	case "null":
		return "CNull"
	case "t":
		return "CTrue"
	case "f":
		return "CFalse"
	case "pi":
		return cApp("CPosInt", cN(e.N))
	case "l":
		return "CList"
	case "m":
		return "CMap"
	case "edge":
		return "CEdge"
	case "node":
		return "CNode"
	case "e":
		return "CEndContainer"
	case "mk":
		return cApp("CMarker", cBytes(e.Data))
	case "ref":
		return cApp("CRef", cBytes(e.Data))
	}
	panic("c16CevTerm: event outside the CTE model: " + e.K)
}

// random structure over the CTE model's alphabet; mostly well-formed
func c16CteValue(c *Ctx, depth int, out []Ev) []Ev {
	r := c.Rng
	if r.Intn(6) == 0 {
		txt := [][]byte{[]byte("c"), []byte(" a b "), {}, []byte("x\ny"), []byte("\n")}[r.Intn(5)]
		multi := r.Intn(2) == 0
		if !multi && bytes.IndexByte(txt, '\n') >= 0 {
			multi = true
		}
		out = append(out, Ev{K: "cm", B: multi, Data: txt})
	}
	if r.Intn(8) == 0 {
		out = append(out, Ev{K: "mk", Data: []byte(fmt.Sprintf("m%d", r.Intn(3)))})
	}
	k := r.Intn(10)
	if depth >= 3 && k >= 5 {
		k = r.Intn(5)
	}
	scalar := func() Ev {
		switch r.Intn(5) {
		case 0:
			return Ev{K: "null"}
		case 1:
			return Ev{K: "t"}
		case 2:
			return Ev{K: "f"}
		case 3:
			return Ev{K: "ref", Data: []byte("m0")}
		}
		return Ev{K: "pi", N: []uint64{0, 7, 10, 99, 100, 12345, 1<<64 - 1}[r.Intn(7)]}
	}
	switch k {
	case 0, 1, 2, 3, 4:
		out = append(out, scalar())
	case 5, 6:
		out = append(out, Ev{K: "l"})
		for i, n := 0, r.Intn(4); i < n; i++ {
			out = c16CteValue(c, depth+1, out)
		}
		out = append(out, Ev{K: "e"})
	case 7:
		out = append(out, Ev{K: "m"})
		for i, n := 0, r.Intn(3); i < n; i++ {
			out = append(out, scalar())
			out = c16CteValue(c, depth+1, out)
		}
		out = append(out, Ev{K: "e"})
	case 8:
		out = append(out, Ev{K: "edge"})
		for i := 0; i < 3; i++ {
			out = c16CteValue(c, depth+1, out)
		}
		out = append(out, Ev{K: "e"})
	default:
		out = append(out, Ev{K: "node"})
		for i, n := 0, 1+r.Intn(3); i < n; i++ {
			out = c16CteValue(c, depth+1, out)
		}
		out = append(out, Ev{K: "e"})
	}
	return out
}

func c16CteDoc(c *Ctx) []Ev {
	es := []Ev{{K: "bd"}, {K: "v", N: 0}}
	es = c16CteValue(c, 0, es)
	es = append(es, Ev{K: "ed"})
	r := c.Rng
	switch r.Intn(8) {
	case 0: // aborted
		es = es[:1+r.Intn(len(es))]
	case 1: // an event too many / too few
		p := r.Intn(len(es))
		repl := []Ev{{K: "e"}, {K: "l"}, {K: "m"}, {K: "node"}, {K: "edge"}, {K: "null"}, {K: "pad"}, {K: "mk", Data: []byte("q")}}
		es = append(append(append([]Ev{}, es[:p]...), repl[r.Intn(len(repl))]), es[p:]...)
	case 2:
		p := r.Intn(len(es))
		es = append(append([]Ev{}, es[:p]...), es[p+1:]...)
	case 3: // no begin-document: the reset point is skipped
		es = es[1:]
	}
	return es
}

func c16CaseCteEnc(c *Ctx, ops []c16Op) {
	enc := ce.NewCTEEncoder(configuration.New())
	docs, seen := []string{}, []string{}
	for _, o := range ops {
		at, out := c16EncodeObserved(enc, o.Evs)
		ts := make([]string, len(o.Evs))
		for i, e := range o.Evs {
			ts[i] = c16CevTerm(e)
		}
		docs = append(docs, cList(ts))
		seen = append(seen, cPair(cOptN(at), cBytes(out)))
	}
	c.c16Cases().Add(cApp("CteEncHist", cList(docs), cList(seen)), "cte-encoder :: "+c16HistoryText("cte-encoder", ops))
}

// (e) type caches: the catalogue values / templates as terms of the model's [ty]
const (
	c16TInt    = "(TLeaf 1)"
	c16TString = "(TLeaf 2)"
	c16TChan   = "(TBad 100)"
)

func c16TComp(name int, comps ...string) string {
	return cApp("TComp", cNi(name), cList(comps))
}
func c16R(t string) string  { return cPair("true", t) }  // reached by the operation
func c16U(t string) string  { return cPair("false", t) } // not reached
func c16Dy(t string) string { return cApp("TDyn", t) }

var (
	c16TS1    = c16TComp(10, c16R(c16TInt), c16R(c16TString))
	c16TBadS  = c16TComp(30, c16R(c16TInt), c16R(c16TChan))
	c16TChans = c16TComp(33, c16R(c16TChan))
)

// marshaler side: every part of the value is visited
var c16ValueTy = map[string]string{
	"int": c16TInt, "string": c16TString, "ints": "(TLeaf 12)", "strmap": "(TLeaf 13)",
	"S1": c16TS1, "pS1": c16TComp(11, c16R(c16TS1)),
	"S2":         c16TComp(14, c16R(c16TComp(11, c16R(c16TS1))), c16R("(TLeaf 12)"), c16R("(TLeaf 13)")),
	"myint":      "(TLeaf 15)",
	"myints":     c16TComp(16, c16R("(TLeaf 15)"), c16R("(TLeaf 15)")),
	"goodouter":  c16TComp(19, c16R(c16TS1), c16R("(TLeaf 15)")),
	"iface-list": c16TComp(20, c16R(c16Dy(c16TInt)), c16R(c16Dy(c16TString)), c16R(c16Dy(c16TS1))),
	"dyn-good":   c16TComp(21, c16R(c16TInt), c16R(c16Dy(c16TS1))),
	"chan":       c16TChan, "func": "(TBad 101)", "complex": "(TBad 102)", "unsafeptr": "(TBad 103)",
	"badS": c16TBadS, "pbadS": c16TComp(31, c16R(c16TBadS)),
	"badouter":     c16TComp(32, c16R(c16TInt), c16R(c16TBadS)),
	"chans":        c16TChans,
	"chanmap":      c16TComp(34, c16R(c16TString), c16R(c16TChan)),
	"iface-chan":   c16TComp(20, c16R(c16Dy(c16TInt)), c16R(c16Dy(c16TChan)), c16R(c16Dy(c16TInt))),
	"iface-badS":   c16TComp(20, c16R(c16Dy(c16TString)), c16R(c16Dy(c16TBadS))),
	"dyn-bad":      c16TComp(21, c16R(c16TInt), c16R(c16Dy(c16TChan))),
	"iface-pbadS":  c16TComp(20, c16R(c16Dy(c16TComp(31, c16R(c16TBadS))))),
	"iface-chans2": c16TComp(20, c16R(c16Dy(c16TChans))),
}

func c16ResTerm(obs string) string {
	switch {
	case obs == "hang":
		return "CHang"
	case strings.HasPrefix(obs, "ok|"):
		return "COk"
	}
	return "CErr"
}

func c16CaseMarshalCache(c *Ctx, kind string, ops []c16Op, steps []c16Step) {
	tys, seen := []string{}, []string{}
	for i, st := range steps {
		t, ok := c16ValueTy[ops[i].Val]
		if !ok {
			return // recursive types are outside the model
		}
		tys = append(tys, t)
		seen = append(seen, c16ResTerm(st.Reused))
	}
	c.c16Cases().Add(cApp("CacheHist", "true", cList(tys), cList(seen)), kind+" cache :: "+c16HistoryText(kind, ops[:len(steps)]))
}

// unmarshaler side: template, a document of its shape (CTE text; CBE bytes), and the parts of the type the document reaches
type c16TmplCase struct {
	Tmpl string
	Cte  string
	Cbe  []byte
	Ty   string
}

var c16TmplCases = []c16TmplCase{
	{"int", "c0 1", []byte{0x81, 0, 1}, c16TInt},
	{"string", "c0 \"a\"", []byte{0x81, 0, 0x81, 'a'}, c16TString},
	{"S1", "c0 {\"A\"=5 \"B\"=\"x\"}", []byte{0x81, 0, 0x99, 0x81, 'A', 5, 0x81, 'B', 0x81, 'x', 0x9b}, c16TS1},
	{"S1", "c0 {\"A\"=5}", []byte{0x81, 0, 0x99, 0x81, 'A', 5, 0x9b}, c16TComp(10, c16R(c16TInt), c16U(c16TString))},
	{"goodouter", "c0 {\"S\"={\"A\"=1 \"B\"=\"z\"} \"N\"=4}", []byte{0x81, 0, 0x99, 0x81, 'S', 0x99, 0x81, 'A', 1, 0x81, 'B', 0x81, 'z', 0x9b, 0x81, 'N', 4, 0x9b},
		c16TComp(19, c16R(c16TS1), c16R("(TLeaf 15)"))},
	{"S1s", "c0 [{\"A\"=1 \"B\"=\"q\"}]", []byte{0x81, 0, 0x9a, 0x99, 0x81, 'A', 1, 0x81, 'B', 0x81, 'q', 0x9b, 0x9b}, c16TComp(40, c16R(c16TS1))},
	{"chan", "c0 1", []byte{0x81, 0, 1}, c16TChan},
	{"func", "c0 1", []byte{0x81, 0, 1}, "(TBad 101)"},
	{"complex", "c0 1", []byte{0x81, 0, 1}, "(TBad 102)"},
	{"badS", "c0 {\"A\"=5}", []byte{0x81, 0, 0x99, 0x81, 'A', 5, 0x9b}, c16TComp(30, c16R(c16TInt), c16U(c16TChan))},
	{"badS", "c0 {\"A\"=5 \"C\"=1}", []byte{0x81, 0, 0x99, 0x81, 'A', 5, 0x81, 'C', 1, 0x9b}, c16TBadS},
	{"badS", "c0 {}", []byte{0x81, 0, 0x99, 0x9b}, c16TComp(30, c16U(c16TInt), c16U(c16TChan))},
	{"badouter", "c0 {\"X\"=1}", []byte{0x81, 0, 0x99, 0x81, 'X', 1, 0x9b}, c16TComp(32, c16R(c16TInt), c16U(c16TBadS))},
	{"badouter", "c0 {\"X\"=1 \"S\"={\"A\"=2}}", []byte{0x81, 0, 0x99, 0x81, 'X', 1, 0x81, 'S', 0x99, 0x81, 'A', 2, 0x9b, 0x9b},
		c16TComp(32, c16R(c16TInt), c16R(c16TComp(30, c16R(c16TInt), c16U(c16TChan))))},
	{"chans", "c0 []", []byte{0x81, 0, 0x9a, 0x9b}, c16TComp(33, c16U(c16TChan))},
	{"chans", "c0 [1]", []byte{0x81, 0, 0x9a, 1, 0x9b}, c16TChans},
	{"chanmap", "c0 {}", []byte{0x81, 0, 0x99, 0x9b}, c16TComp(34, c16U(c16TString), c16U(c16TChan))},
	{"chanmap", "c0 {\"a\"=1}", []byte{0x81, 0, 0x99, 0x81, 'a', 1, 0x9b}, c16TComp(34, c16R(c16TString), c16R(c16TChan))},
}

func c16CaseUnmarshalCache(c *Ctx, kind string, picks []int, steps []c16Step, ops []c16Op) {
	tys, seen := []string{}, []string{}
	for i, st := range steps {
		tys = append(tys, c16TmplCases[picks[i]].Ty)
		seen = append(seen, c16ResTerm(st.Reused))
	}
	c.c16Cases().Add(cApp("CacheHist", "false", cList(tys), cList(seen)), kind+" cache :: "+c16HistoryText(kind, ops[:len(steps)]))
}

func c16ObsHead(s string) string {
	if strings.HasPrefix(s, "rej=-1") {
		return "accepted"
	}
	if strings.HasPrefix(s, "rej=") {
		return "rejected"
	}
	if i := strings.Index(s, "|"); i >= 0 {
		return s[:i]
	}
	return s
}

// ===========================================================================
// Directed family S: state left behind by a document that FAILED (or was
// abandoned), crossed with documents that are sensitive to that state.
//
// A first document is composed of
//   - what it populates:  any subset of { a reference to "a" that is pending (no marker "a" before it),
//     a marker "a", a marker "b", a record type "R" (declared and used) }; "a" after the
//     reference resolves it, so the subsets cover: references pending without any marker,
//     pending beside an unrelated marker, resolved, markers only, nothing;
//   - what it leaves open: nothing / containers with a map key consumed / an array chunk in
//     progress (binary, and text cut inside a UTF-8 sequence) / an array begun without chunk /
//     a marker waiting for its object;
//   - how it ends: the stream just stops / end-of-document right there / containers closed and
//     end-of-document (fails only when a reference is pending) / one of the events the validator
//     rejects (too many container ends, duplicate marker, null map key, chunk without array,
//     invalid UTF-8, record of an undeclared type).
// The later documents use THE SAME identifiers (a, b, c, R) and the same map key.

type c16Named struct {
	Tag string
	Evs []Ev
}

func c16Evs(text string) []Ev {
	es, err := parseEvs(text)
	if err != nil {
		panic("c16: bad directed stream: " + err.Error())
	}
	return es
}

var c16StateAtoms = []struct{ Name, Top, Body string }{
	{"fwd", "", " ref:61"},
	{"mkA", "", " mk:61 pi:2"},
	{"mkB", "", " mk:62 pi:1"},
	{"rt", " rt:52 pi:7 e", " rec:52 pi:3 e"},
}

func c16StateOpen() []struct{ Name, Evs string } {
	u8, str := int(events.ArrayTypeUint8), int(events.ArrayTypeString)
	return []struct{ Name, Evs string }{
		{"none", ""},
		{"containers", " l m pi:1"},
		{"chunk", fmt.Sprintf(" ab:%d ac:4:true ad:0102", u8)},
		{"utf8-chunk", fmt.Sprintf(" ab:%d ac:4:true ad:61e2", str)},
		{"array-begun", fmt.Sprintf(" ab:%d", u8)},
		{"marker-pending", " mk:63"},
	}
}

func c16StateEndings(open string) []struct{ Name, Evs string } {
	str := int(events.ArrayTypeString)
	if open != "none" {
		return []struct{ Name, Evs string }{{"abort", ""}, {"end-document", " ed"}}
	}
	return []struct{ Name, Evs string }{
		{"abort", ""}, {"closed", " e ed"}, {"end-document", " ed"}, {"too-many-ends", " e e e"},
		{"duplicate-marker", " mk:7a pi:1 mk:7a pi:2"}, {"null-key", " m null"}, {"chunk-without-array", " ac:1:false ad:00"},
		{"bad-utf8", fmt.Sprintf(" ab:%d ac:1:false ad:ff", str)}, {"undeclared-record", " rec:51 pi:1 e"},
	}
}

// c16StateFirsts enumerates the first documents.  all=false (quick tier): every subset x nothing
// open x every ending, and for the open states every (open, ending) with the "pending reference
// only" subset plus `sample` further subsets chosen by pick.
func c16StateFirsts(all bool, sample int, pick func(n int) int) []c16Named {
	out := []c16Named{}
	nSub := 1 << uint(len(c16StateAtoms))
	for _, op := range c16StateOpen() {
		for _, en := range c16StateEndings(op.Name) {
			subs := map[int]bool{}
			if all || op.Name == "none" {
				for m := 0; m < nSub; m++ {
					subs[m] = true
				}
			} else {
				subs[1] = true // pending reference, no marker
				for i := 0; i < sample; i++ {
					subs[pick(nSub)] = true
				}
			}
			for m := 0; m < nSub; m++ {
				if !subs[m] {
					continue
				}
				top, body, names := "", "", []string{}
				for i, a := range c16StateAtoms {
					if m&(1<<uint(i)) != 0 {
						top += a.Top
						body += a.Body
						names = append(names, a.Name)
					}
				}
				out = append(out, c16Named{Tag: "{" + strings.Join(names, ",") + "}/" + op.Name + "/" + en.Name,
					Evs: c16Evs("bd v:0" + top + " l" + body + op.Evs + en.Evs)})
			}
		}
	}
	return out
}

// documents that read per-document state (same identifiers as the first documents)
func c16StateLaters() []c16Named {
	u8, str := int(events.ArrayTypeUint8), int(events.ArrayTypeString)
	mk := func(tag, text string) c16Named { return c16Named{tag, c16Evs(text)} }
	return []c16Named{
		mk("plain", "bd v:0 l pi:1 e ed"),
		mk("scalar", "bd v:0 pi:1 ed"),
		mk("marker-a-then-reference", "bd v:0 l mk:61 pi:1 ref:61 e ed"),
		mk("reference-a-then-marker", "bd v:0 l ref:61 mk:61 pi:1 e ed"),
		mk("reference-a-unresolved", "bd v:0 l ref:61 e ed"),
		mk("reference-b-unresolved", "bd v:0 l ref:62 pi:1 e ed"),
		mk("markers-b-c", "bd v:0 l mk:62 pi:1 mk:63 pi:2 e ed"),
		mk("marker-a-on-list", "bd v:0 mk:61 l ref:61 e ed"),
		mk("record-type-R-declared", "bd v:0 rt:52 pi:7 e l rec:52 pi:1 e e ed"),
		mk("record-R-undeclared", "bd v:0 l rec:52 pi:1 e e ed"),
		mk("chunk-without-array", "bd v:0 l ac:2:false ad:0102 e ed"),
		mk("data-without-chunk", "bd v:0 l ad:0304 e ed"),
		mk("utf8-continuation-first", fmt.Sprintf("bd v:0 ab:%d ac:2:false ad:82ac ed", str)),
		mk("array", fmt.Sprintf("bd v:0 l ab:%d ac:2:false ad:0102 e ed", u8)),
		mk("map-key-1", "bd v:0 m pi:1 pi:2 e ed"),
		mk("end-container-first", "bd v:0 e ed"),
	}
}

// first documents that use up the counters the limits are checked against, and later documents on
// both sides of every limit of c16SmallLimits (nesting depth, object count, references, markers)
var c16SmallLimits = c16Cfg{MaxDepth: 2, MaxObjects: 6, MaxRefs: 2, MaxMarkers: 2}

func c16CounterFirsts() []c16Named {
	mk := func(tag, text string) c16Named { return c16Named{tag, c16Evs(text)} }
	out := []c16Named{}
	for d := 1; d <= 4; d++ {
		out = append(out, mk(fmt.Sprintf("depth-%d/abort", d), "bd v:0"+strings.Repeat(" l", d)))
	}
	for n := 2; n <= 8; n += 2 {
		out = append(out, mk(fmt.Sprintf("objects-%d/abort", n), "bd v:0 l"+strings.Repeat(" pi:1", n)))
		out = append(out, mk(fmt.Sprintf("objects-%d/end-document", n), "bd v:0 l"+strings.Repeat(" pi:1", n)+" ed"))
	}
	for r := 1; r <= 3; r++ {
		out = append(out, mk(fmt.Sprintf("references-%d/abort", r), "bd v:0 l mk:61 pi:1"+strings.Repeat(" ref:61", r)))
		out = append(out, mk(fmt.Sprintf("pending-references-%d/closed", r), "bd v:0 l"+strings.Repeat(" ref:61", r)+" e ed"))
		ms := ""
		for i := 0; i < r; i++ {
			ms += fmt.Sprintf(" mk:%02x pi:1", 0x61+i)
		}
		out = append(out, mk(fmt.Sprintf("markers-%d/abort", r), "bd v:0 l"+ms))
	}
	return out
}

func c16CounterLaters() []c16Named {
	mk := func(tag, text string) c16Named { return c16Named{tag, c16Evs(text)} }
	out := []c16Named{}
	for d := 1; d <= 3; d++ {
		out = append(out, mk(fmt.Sprintf("depth-%d", d), "bd v:0"+strings.Repeat(" l", d)+strings.Repeat(" e", d)+" ed"))
	}
	for n := 4; n <= 7; n++ {
		out = append(out, mk(fmt.Sprintf("objects-%d", n), "bd v:0 l"+strings.Repeat(" pi:1", n)+" e ed"))
	}
	for r := 1; r <= 3; r++ {
		out = append(out, mk(fmt.Sprintf("references-%d", r), "bd v:0 l mk:61 pi:1"+strings.Repeat(" ref:61", r)+" e ed"))
		ms := ""
		for i := 0; i < r; i++ {
			ms += fmt.Sprintf(" mk:%02x pi:1", 0x61+i)
		}
		out = append(out, mk(fmt.Sprintf("markers-%d", r), "bd v:0 l"+ms+" e ed"))
	}
	return out
}

// F L1 F L2 ... : every later document right after the first one
func c16Interleave(first c16Op, laters []c16Op) []c16Op {
	ops := make([]c16Op, 0, 2*len(laters))
	for _, l := range laters {
		ops = append(ops, first, l)
	}
	return ops
}

// the document a (possibly invalid / unfinished) event stream encodes to: whatever the encoder
// wrote before it refused an event
func c16DocOf(format string, es []Ev) []byte {
	var enc ce.Encoder
	if format == "cbe" {
		enc = ce.NewCBEEncoder(configuration.New())
	} else {
		enc = ce.NewCTEEncoder(configuration.New())
	}
	_, out := c16EncodeObserved(enc, es)
	return out
}

// a valid CBE / CTE document of exactly n bytes (n >= 6): a list of one-digit integers
func c16SizedDoc(format string, n int) []byte {
	if format == "cbe" { // 81 00 9a <n-4 small ints> 9b
		return append(append([]byte{0x81, 0, 0x9a}, bytes.Repeat([]byte{1}, n-4)...), 0x9b)
	}
	// "c0 [" + "1 1 1" + "]" : 5 + (2k-1) bytes for k items; one more space before ] when n is odd
	k := (n - 4) / 2
	body := strings.TrimSuffix(strings.Repeat("1 ", k), " ")
	if (n-4)%2 == 1 {
		body += " "
	}
	return []byte("c0 [" + body + "]")
}

func c16DocFormat(kind string) string {
	if strings.HasPrefix(kind, "cte") {
		return "cte"
	}
	return "cbe"
}

// ===========================================================================
// Directed family G: type graphs for the per-session type caches.  A root type reaches an
// unsupported kind; the views of a root are the Go values / templates through which a call can
// enter the graph (by value, through a pointer, a slice, a map, an interface ...).  A failed
// generation for one view leaves entries of OTHER types of the graph behind (generated while the
// failing one was in progress); the next call enters through one of them.

type c16GA struct { // pointer to self declared BEFORE the unsupported field
	V    int
	Next *c16GA
	Bad  chan int
}
type c16GB struct { // unsupported field first
	Bad  chan int
	V    int
	Next *c16GB
}
type c16GC struct { // cycle through a slice of values
	V    int
	Kids []c16GC
	Bad  func()
}
type c16GD struct { // cycle through a slice of pointers and a map
	V    int
	Kids []*c16GD
	M    map[string]*c16GD
	Bad  complex128
}
type c16GE struct { // mutual recursion, unsupported kind at the far end
	V int
	F *c16GF
}
type c16GF struct {
	E    *c16GE
	Back []*c16GE
	Bad  unsafe.Pointer
}
type c16GG struct { // cycle of three, unsupported kind in the middle
	H *c16GH
}
type c16GH struct {
	I   *c16GI
	Bad chan int
	G   *c16GG
}
type c16GI struct {
	G *c16GG
	H *c16GH
}
type c16GJ struct { // every static type supported; the interface field holds a channel at run time
	V    int
	Next *c16GJ
	Bad  interface{}
}
type c16GK struct { // cycle through an array of pointers
	Arr [2]*c16GK
	Bad chan int
}
type c16GL struct { // cycle through a map value and a pointer to pointer
	M   map[string]c16GL
	PP  **c16GL
	Bad complex64
}
type c16GOK struct { // supported cycle (control)
	V    int
	Next *c16GOK
	Kids []*c16GOK
}
type c16GOuter struct { // supported wrapper around unsupported cycles
	OK *c16GOK
	A  *c16GA
	E  []*c16GE
}
type c16GN1 struct { // no cycle: unsupported kind behind a pointer
	V int
	P *c16BadS
}
type c16GN2 struct { // no cycle: behind a slice of values
	L []c16BadS
	V int
}
type c16GN3 struct { // no cycle: supported indirections first
	M  map[string]*c16S1
	PP **c16S1
	B  c16BadS
}

var c16GraphRoots = map[string]reflect.Type{
	"GA": reflect.TypeOf(c16GA{}), "GB": reflect.TypeOf(c16GB{}), "GC": reflect.TypeOf(c16GC{}), "GD": reflect.TypeOf(c16GD{}),
	"GE": reflect.TypeOf(c16GE{}), "GF": reflect.TypeOf(c16GF{}), "GG": reflect.TypeOf(c16GG{}), "GH": reflect.TypeOf(c16GH{}),
	"GI": reflect.TypeOf(c16GI{}), "GJ": reflect.TypeOf(c16GJ{}), "GK": reflect.TypeOf(c16GK{}), "GL": reflect.TypeOf(c16GL{}),
	"GOK": reflect.TypeOf(c16GOK{}), "GOuter": reflect.TypeOf(c16GOuter{}),
	"GN1": reflect.TypeOf(c16GN1{}), "GN2": reflect.TypeOf(c16GN2{}), "GN3": reflect.TypeOf(c16GN3{}),
}
var c16GraphRootNames = []string{"GA", "GB", "GC", "GD", "GE", "GF", "GG", "GH", "GI", "GJ", "GK", "GL", "GN1", "GN2", "GN3", "GOK", "GOuter"}

// val0 T{}   val2 T filled two levels deep   ptr0 &T{}   ptr2 &T filled   sliceptr []*T{&T{}}   ifacelist []interface{}{&T{}}
// nilptr (*T)(nil)   map map[string]*T{"k": &T{}}   sliceval []T{T filled one level}   emptyslice []*T{}   ptrptr **T   wrap struct{ P *T }
var c16GraphCoreViews = []string{"val0", "val2", "ptr0", "ptr2", "sliceptr", "ifacelist"}
var c16GraphViews = append(append([]string{}, c16GraphCoreViews...), "nilptr", "map", "sliceval", "emptyslice", "ptrptr", "wrap")

// c16Fill builds a value of type t whose pointers / slices / maps are non-nil down to `depth`
// levels of indirection.  Interface fields named Bad hold a channel.
func c16Fill(t reflect.Type, depth int, fieldName string) reflect.Value {
	v := reflect.New(t).Elem()
	switch t.Kind() {
	case reflect.Ptr:
		if depth > 0 {
			p := reflect.New(t.Elem())
			p.Elem().Set(c16Fill(t.Elem(), depth-1, ""))
			v.Set(p)
		}
	case reflect.Slice:
		if depth > 0 {
			v.Set(reflect.Append(v, c16Fill(t.Elem(), depth-1, "")))
		}
	case reflect.Array:
		for i := 0; i < t.Len(); i++ {
			v.Index(i).Set(c16Fill(t.Elem(), depth, ""))
		}
	case reflect.Map:
		if depth > 0 && t.Key().Kind() == reflect.String {
			m := reflect.MakeMap(t)
			m.SetMapIndex(reflect.ValueOf("k").Convert(t.Key()), c16Fill(t.Elem(), depth-1, ""))
			v.Set(m)
		}
	case reflect.Struct:
		for i := 0; i < t.NumField(); i++ {
			if t.Field(i).PkgPath == "" {
				v.Field(i).Set(c16Fill(t.Field(i).Type, depth, t.Field(i).Name))
			}
		}
	case reflect.Interface:
		if depth > 0 && fieldName == "Bad" {
			v.Set(reflect.ValueOf(make(chan int)))
		}
	case reflect.Int, reflect.Int8, reflect.Int16, reflect.Int32, reflect.Int64:
		v.SetInt(1)
	case reflect.String:
		v.SetString("s")
	}
	return v
}

func c16GraphValue(root, view string) interface{} {
	t := c16GraphRoots[root]
	pt := reflect.PtrTo(t)
	switch view {
	case "val0":
		return c16Fill(t, 0, "").Interface()
	case "val2":
		return c16Fill(t, 2, "").Interface()
	case "ptr0":
		return c16Fill(pt, 1, "").Interface()
	case "ptr2":
		return c16Fill(pt, 3, "").Interface()
	case "nilptr":
		return reflect.Zero(pt).Interface()
	case "sliceptr":
		return c16Fill(reflect.SliceOf(pt), 2, "").Interface()
	case "sliceval":
		return c16Fill(reflect.SliceOf(t), 2, "").Interface()
	case "emptyslice":
		return reflect.MakeSlice(reflect.SliceOf(pt), 0, 0).Interface()
	case "map":
		return c16Fill(reflect.MapOf(reflect.TypeOf(""), pt), 2, "").Interface()
	case "ptrptr":
		p := c16Fill(pt, 1, "")
		q := reflect.New(pt)
		q.Elem().Set(p)
		return q.Interface()
	case "ifacelist":
		return []interface{}{c16Fill(pt, 1, "").Interface()}
	case "wrap":
		st := reflect.StructOf([]reflect.StructField{{Name: "P", Type: pt}})
		return c16Fill(st, 1, "").Interface()
	}
	panic("c16: unknown view " + view)
}

func c16GraphName(root, view string) string { return "g:" + root + "/" + view }

// does the static type graph of t reach an unsupported kind?
func c16TypeUnsupported(t reflect.Type, seen map[reflect.Type]bool) bool {
	if seen[t] {
		return false
	}
	seen[t] = true
	switch t.Kind() {
	case reflect.Chan, reflect.Func, reflect.Complex64, reflect.Complex128, reflect.UnsafePointer, reflect.Uintptr:
		return true
	case reflect.Ptr, reflect.Slice, reflect.Array:
		return c16TypeUnsupported(t.Elem(), seen)
	case reflect.Map:
		return c16TypeUnsupported(t.Key(), seen) || c16TypeUnsupported(t.Elem(), seen)
	case reflect.Struct:
		for i := 0; i < t.NumField(); i++ {
			if t.Field(i).PkgPath == "" && c16TypeUnsupported(t.Field(i).Type, seen) {
				return true
			}
		}
	}
	return false
}

// does the static type graph of t contain a cycle?
func c16TypeCyclic(t reflect.Type, path map[reflect.Type]bool) bool {
	if path[t] {
		return true
	}
	path[t] = true
	defer delete(path, t)
	switch t.Kind() {
	case reflect.Ptr, reflect.Slice, reflect.Array:
		return c16TypeCyclic(t.Elem(), path)
	case reflect.Map:
		return c16TypeCyclic(t.Key(), path) || c16TypeCyclic(t.Elem(), path)
	case reflect.Struct:
		for i := 0; i < t.NumField(); i++ {
			if t.Field(i).PkgPath == "" && c16TypeCyclic(t.Field(i).Type, path) {
				return true
			}
		}
	}
	return false
}

func init() {
	for _, root := range c16GraphRootNames {
		bad := c16TypeUnsupported(c16GraphRoots[root], map[reflect.Type]bool{}) || root == "GJ"
		for _, view := range c16GraphViews {
			root, view := root, view
			name := c16GraphName(root, view)
			c16Values[name] = func() interface{} { return c16GraphValue(root, view) }
			c16Templates[name] = c16Values[name]
			if bad {
				c16BadValues = append(c16BadValues, name)
				c16BadTemplates = append(c16BadTemplates, name)
			}
		}
	}
}

// The model's [ty] of a value of an ACYCLIC type graph, computed by reflection (marshaler side:
// what the iterator generator asks the cache for, and which parts this value reaches).  Named
// types by number; slices / arrays / pointers one component (the element type), maps two.
var c16TyNames = map[reflect.Type]int{}

func c16TyName(t reflect.Type) int {
	n, ok := c16TyNames[t]
	if !ok {
		n = 1000 + len(c16TyNames)
		c16TyNames[t] = n
	}
	return n
}

func c16TyOf(v reflect.Value) string {
	t := v.Type()
	flag := func(reach bool, s string) string {
		if reach {
			return c16R(s)
		}
		return c16U(s)
	}
	switch t.Kind() {
	case reflect.Chan, reflect.Func, reflect.Complex64, reflect.Complex128, reflect.UnsafePointer, reflect.Uintptr:
		return fmt.Sprintf("(TBad %d)", c16TyName(t))
	case reflect.Interface:
		if v.IsNil() {
			return c16Dy("(TLeaf 0)")
		}
		return c16Dy(c16TyOf(v.Elem()))
	case reflect.Ptr:
		if v.IsNil() {
			return c16TComp(c16TyName(t), flag(false, c16TyOf(reflect.Zero(t.Elem()))))
		}
		return c16TComp(c16TyName(t), flag(true, c16TyOf(v.Elem())))
	case reflect.Slice, reflect.Array:
		if v.Len() == 0 {
			return c16TComp(c16TyName(t), flag(false, c16TyOf(reflect.Zero(t.Elem()))))
		}
		return c16TComp(c16TyName(t), flag(true, c16TyOf(v.Index(0))))
	case reflect.Map:
		if v.Len() == 0 {
			return c16TComp(c16TyName(t), flag(false, c16TyOf(reflect.Zero(t.Key()))), flag(false, c16TyOf(reflect.Zero(t.Elem()))))
		}
		k := v.MapKeys()[0]
		return c16TComp(c16TyName(t), flag(true, c16TyOf(k)), flag(true, c16TyOf(v.MapIndex(k))))
	case reflect.Struct:
		comps := []string{}
		for i := 0; i < t.NumField(); i++ {
			if t.Field(i).PkgPath == "" {
				comps = append(comps, flag(true, c16TyOf(v.Field(i))))
			}
		}
		return c16TComp(c16TyName(t), comps...)
	}
	return fmt.Sprintf("(TLeaf %d)", c16TyName(t))
}

func init() {
	for _, root := range c16GraphRootNames {
		if c16TypeCyclic(c16GraphRoots[root], map[reflect.Type]bool{}) {
			continue
		}
		for _, view := range c16GraphViews {
			if view == "wrap" {
				continue // reflect.StructOf creates the type on demand; not named here
			}
			c16ValueTy[c16GraphName(root, view)] = c16TyOf(reflect.ValueOf(c16GraphValue(root, view)))
		}
	}
}

// ---------------------------------------------------------------------------
// Runners of the directed families.

type c16Recorder func(kind string, k c16Cfg, ops []c16Op, steps []c16Step)

func c16Wanted(only, kind string) bool { return only == "" || only == kind }

var c16EventKinds = []string{"rules", "cbe-encoder", "cte-encoder"}
var c16DocKinds = []string{"cbe-unmarshaler", "cte-unmarshaler", "cbe-decoder", "cte-decoder", "ce-decoder"}

// family S.  Every first document F is followed, on the same instance, by every later document:
// F L1 F L2 ... (only the first diverging call of a history is reported).
func c16RunStateFamily(c *Ctx, only string, record c16Recorder) {
	firsts := c16StateFirsts(c.Thorough(), 3, c.Rng.Intn)
	laters := c16StateLaters()
	// under small limits: the counter documents, and the state documents that stop early or end "properly"
	cfirsts := c16CounterFirsts()
	for _, f := range firsts {
		if strings.HasSuffix(f.Tag, "/none/abort") || strings.HasSuffix(f.Tag, "/none/closed") {
			cfirsts = append(cfirsts, f)
		}
	}
	claters := append(c16CounterLaters(), laters...)
	fams := []struct {
		cfg            c16Cfg
		firsts, laters []c16Named
	}{{c16Cfg{}, firsts, laters}, {c16SmallLimits, cfirsts, claters}}

	c16FreshCache = map[string]string{}
	defer func() { c16FreshCache = nil }()
	for fi, fam := range fams {
		for i, f := range fam.firsts {
			tag := "directed: failed document leaving state [" + f.Tag + "] then documents sensitive to it"
			// event-driven instances
			evLaters := make([]c16Op, len(fam.laters))
			for j, l := range fam.laters {
				evLaters[j] = c16Op{Evs: l.Evs}
			}
			ops := c16Interleave(c16Op{Evs: f.Evs}, evLaters)
			for _, kind := range c16EventKinds {
				if !c16Wanted(only, kind) {
					continue
				}
				record(kind, fam.cfg, ops, c16Check(c, kind, fam.cfg, ops, tag))
			}
			if c16Wanted(only, "rules") && (c.Thorough() || strings.Contains(f.Tag, "/none/") || i%3 == fi) {
				// the model is given the history in pieces of 4 first/later pairs (same reused validator per piece)
				for at := 0; at < len(ops); at += 8 {
					end := at + 8
					if end > len(ops) {
						end = len(ops)
					}
					if c.Thorough() || (at/8+i)%4 == 0 {
						c16CaseRules(c, fam.cfg, ops[at:end])
					}
				}
			}
			// documents: what the stream encodes to, given to decoders and unmarshalers
			for _, kind := range c16DocKinds {
				if !c16Wanted(only, kind) {
					continue
				}
				formats := []string{c16DocFormat(kind)}
				if kind == "ce-decoder" {
					formats = []string{"cbe", "cte"}
				}
				for _, format := range formats {
					first := c16Op{Doc: c16DocOf(format, f.Evs), Val: "nil"}
					if len(first.Doc) == 0 {
						continue
					}
					docLaters := make([]c16Op, 0, len(fam.laters))
					for _, l := range fam.laters {
						if d := c16DocOf(format, l.Evs); len(d) > 0 {
							docLaters = append(docLaters, c16Op{Doc: d, Val: "nil"})
						}
					}
					dops := c16Interleave(first, docLaters)
					record(kind, fam.cfg, dops, c16Check(c, kind, fam.cfg, dops, tag+" ("+format+" documents)"))
				}
			}
		}
	}
}

// family B: byte counters and size limits.  First documents that are abandoned at EVERY byte
// position of a reference document (and documents with trailing bytes, documents over the limit),
// then valid documents of exactly limit-1, limit, limit+1 bytes and a small one, for limits around
// the sizes involved.
func c16RunSizeFamily(c *Ctx, only string, record c16Recorder) {
	u8 := int(events.ArrayTypeUint8)
	refDocs := map[string][][]byte{
		"cbe": {
			c16DocOf("cbe", c16Evs("bd v:0 l pi:1000000 sa:1:616263 m pi:1 pi:2 e e ed")),
			c16DocOf("cbe", c16Evs(fmt.Sprintf("bd v:0 l ab:%d ac:2:true ad:0102 ac:1:false ad:03 i:-70000 e ed", u8))),
		},
		"cte": {
			c16DocOf("cte", c16Evs("bd v:0 l pi:1000000 sa:1:616263 m pi:1 pi:2 e e ed")),
			[]byte("c0 [@u8x[01 02 03] -70000]"),
		},
	}
	kindsOf := map[string][]string{"cbe": {"cbe-decoder", "ce-decoder", "cbe-unmarshaler"}, "cte": {"cte-decoder", "ce-decoder", "cte-unmarshaler"}}
	c16FreshCache = map[string]string{}
	defer func() { c16FreshCache = nil }()
	n := 0
	for _, format := range []string{"cbe", "cte"} {
		for _, D := range refDocs[format] {
			firsts := []c16Named{}
			docs := [][]byte{}
			for p := 1; p < len(D); p++ {
				firsts = append(firsts, c16Named{Tag: fmt.Sprintf("cut at byte %d of %d", p, len(D))})
				docs = append(docs, cp(D[:p]))
			}
			firsts = append(firsts, c16Named{Tag: "trailing byte"}, c16Named{Tag: "unresolved reference"}, c16Named{Tag: "too many container ends"})
			docs = append(docs, append(cp(D), D[len(D)-1]), c16DocOf(format, c16Evs("bd v:0 l ref:61 pi:1 e ed")), c16DocOf(format, c16Evs("bd v:0 l e e")))
			for _, lim := range []int{8, 13, 20, len(D) - 1, len(D), len(D) + 1} {
				laters := []c16Op{}
				for _, sz := range []int{lim, lim - 1, lim + 1, 6} {
					laters = append(laters, c16Op{Doc: c16SizedDoc(format, sz), Val: "nil"})
				}
				k := c16Cfg{MaxDoc: uint64(lim)}
				fs := append([]c16Named{}, firsts...)
				ds := append([][]byte{}, docs...)
				fs = append(fs, c16Named{Tag: "over the limit by one"}, c16Named{Tag: "twice the limit"})
				ds = append(ds, c16SizedDoc(format, lim+1), c16SizedDoc(format, 2*lim))
				for i, f := range fs {
					ops := c16Interleave(c16Op{Doc: ds[i], Val: "nil"}, laters)
					tag := fmt.Sprintf("directed: abandoned %s document [%s] then documents around the size limit %d", format, f.Tag, lim)
					for _, kind := range kindsOf[format] {
						if c16Wanted(only, kind) {
							record(kind, k, ops, c16Check(c, kind, k, ops, tag))
						}
					}
					n++
					if format == "cbe" && (only == "" || strings.HasPrefix(only, "cbe-")) && (c.Thorough() || n%6 == 0) {
						hd := [][]byte{}
						for _, o := range ops {
							hd = append(hd, o.Doc)
						}
						c16CaseReader(c, uint64(lim), hd, n%12 == 0)
					}
				}
			}
		}
	}
}

// family G: type graphs.
func c16RunGraphFamily(c *Ctx, only string, record c16Recorder) {
	// marshalers: every ordered pair of core views of every root, then a supported value
	for _, kind := range []string{"cbe-marshaler", "cte-marshaler"} {
		if !c16Wanted(only, kind) {
			continue
		}
		run := func(names []string, tag string) {
			ops := []c16Op{}
			for _, v := range names {
				ops = append(ops, c16Op{Val: v})
			}
			steps := c16Check(c, kind, c16Cfg{}, ops, tag)
			record(kind, c16Cfg{}, ops, steps)
			c16CaseMarshalCache(c, kind, ops, steps)
			c16CaseGraphCache(c, kind, ops, steps)
		}
		for _, root := range c16GraphRootNames {
			for _, v1 := range c16GraphCoreViews {
				for _, v2 := range c16GraphCoreViews {
					run([]string{c16GraphName(root, v1), c16GraphName(root, v2), "S2"}, "directed: two views of one type graph")
				}
			}
		}
		for i := 0; i < c.Pick(150, 3000); i++ {
			root := c16GraphRootNames[c.Rng.Intn(len(c16GraphRootNames))]
			names := []string{}
			for j, n := 0, 2+c.Rng.Intn(3); j < n; j++ {
				r := root
				if c.Rng.Intn(3) == 0 {
					r = c16GraphRootNames[c.Rng.Intn(len(c16GraphRootNames))]
				}
				if c.Rng.Intn(6) == 0 {
					names = append(names, c16Pick(c, c16GoodValues, c16BadValues[:16], 30))
				} else {
					names = append(names, c16GraphName(r, c16GraphViews[c.Rng.Intn(len(c16GraphViews))]))
				}
			}
			run(names, "sampled views of type graphs")
		}
	}

	// unmarshalers: the views as templates, with documents of the view's shape
	bodies := []string{"{}", "{\"V\"=1 \"Next\"={\"V\"=2}}", "{\"Bad\"=1}"}
	shape := func(view, body string) string {
		switch view {
		case "sliceptr", "sliceval", "emptyslice", "ifacelist":
			return "c0 [" + body + "]"
		case "map":
			return "c0 {\"k\"=" + body + "}"
		case "wrap":
			return "c0 {\"P\"=" + body + "}"
		}
		return "c0 " + body
	}
	toCBE := func(cte string) []byte {
		var buf bytes.Buffer
		enc := ce.NewCBEEncoder(configuration.New())
		enc.PrepareToEncode(&buf)
		if err := ce.NewCTEDecoder(configuration.New()).DecodeDocument([]byte(cte), enc); err != nil {
			panic("c16: harness document does not convert: " + cte + ": " + err.Error())
		}
		return cp(buf.Bytes())
	}
	tmplViews := []string{"val0", "ptr0", "sliceptr", "map"}
	for _, kind := range []string{"cbe-unmarshaler", "cte-unmarshaler"} {
		if !c16Wanted(only, kind) {
			continue
		}
		doc := func(view, body string) []byte {
			if kind == "cbe-unmarshaler" {
				return toCBE(shape(view, body))
			}
			return []byte(shape(view, body))
		}
		control := c16Op{Val: "ints", Doc: c16Matched(kind[:3], "ints")}
		for _, root := range c16GraphRootNames {
			for _, v1 := range tmplViews {
				for _, v2 := range tmplViews {
					for bi, body := range bodies {
						if !c.Thorough() && bi == 2 && v1 != "val0" {
							continue
						}
						ops := []c16Op{{Val: c16GraphName(root, v1), Doc: doc(v1, body)}, {Val: c16GraphName(root, v2), Doc: doc(v2, body)}, control}
						record(kind, c16Cfg{}, ops, c16Check(c, kind, c16Cfg{}, ops, "directed: two views of one type graph as templates"))
					}
				}
			}
		}
		for i := 0; i < c.Pick(100, 2000); i++ {
			ops := []c16Op{}
			for j, n := 0, 2+c.Rng.Intn(3); j < n; j++ {
				root := c16GraphRootNames[c.Rng.Intn(len(c16GraphRootNames))]
				view := c16GraphViews[c.Rng.Intn(len(c16GraphViews))]
				dv := view
				if c.Rng.Intn(5) == 0 {
					dv = c16GraphViews[c.Rng.Intn(len(c16GraphViews))] // a document that does not fit the template
				}
				ops = append(ops, c16Op{Val: c16GraphName(root, view), Doc: doc(dv, bodies[c.Rng.Intn(len(bodies))])})
			}
			ops = append(ops, control)
			record(kind, c16Cfg{}, ops, c16Check(c, kind, c16Cfg{}, ops, "sampled views of type graphs as templates"))
		}
	}
}

// (f) type caches over type GRAPHS (CE.Model.Reuse section 5c): the table of all types a history
// touches (by reflection; cycles allowed) and, per operation, the value as the model's [vtree].
type c16GraphModel struct {
	nodes      map[int]string
	order      []int
	nonUniform bool
}

func (m *c16GraphModel) addType(t reflect.Type) int {
	id := c16TyName(t)
	if _, ok := m.nodes[id]; ok {
		return id
	}
	m.nodes[id] = "GLeaf" // entered before the components: the graph may be cyclic
	m.order = append(m.order, id)
	comps := func(ts ...reflect.Type) string {
		ids := make([]string, len(ts))
		for i, u := range ts {
			ids[i] = cNi(m.addType(u))
		}
		return cApp("GComp", cList(ids))
	}
	switch t.Kind() {
	case reflect.Chan, reflect.Func, reflect.Complex64, reflect.Complex128, reflect.UnsafePointer, reflect.Uintptr:
		m.nodes[id] = "GBad"
	case reflect.Interface:
		m.nodes[id] = "GDyn"
	case reflect.Ptr, reflect.Slice, reflect.Array:
		m.nodes[id] = comps(t.Elem())
	case reflect.Map:
		m.nodes[id] = comps(t.Key(), t.Elem())
	case reflect.Struct:
		fs := []reflect.Type{}
		for i := 0; i < t.NumField(); i++ {
			if t.Field(i).PkgPath == "" {
				fs = append(fs, t.Field(i).Type)
			}
		}
		m.nodes[id] = comps(fs...)
	}
	return id
}

func (m *c16GraphModel) value(v reflect.Value) string {
	some := func(s string) string { return cApp("Some", s) }
	vt := func(kids ...string) string { return cApp("VT", cList(kids)) }
	switch v.Kind() {
	case reflect.Interface:
		if v.IsNil() {
			return "VNil"
		}
		return cApp("VDyn", cNi(m.addType(v.Elem().Type())), m.value(v.Elem()))
	case reflect.Ptr:
		if v.IsNil() {
			return vt("None")
		}
		return vt(some(m.value(v.Elem())))
	case reflect.Slice, reflect.Array:
		if v.Len() == 0 {
			return vt("None")
		}
		if v.Len() > 1 && v.Type().Elem().Kind() == reflect.Interface {
			m.nonUniform = true // one component, several different contents: not expressible
		}
		return vt(some(m.value(v.Index(0)))) // the values of the graph family are uniform
	case reflect.Map:
		if v.Len() == 0 {
			return vt("None", "None")
		}
		k := v.MapKeys()[0]
		return vt(some(m.value(k)), some(m.value(v.MapIndex(k))))
	case reflect.Struct:
		// Iterator.DefaultFieldOmitBehavior = OmitFieldEmpty: a nil pointer / interface, a nil or empty
		// slice / map, an empty array / string is not handed to the field's iterator at all
		kids := []string{}
		for i := 0; i < v.NumField(); i++ {
			if v.Type().Field(i).PkgPath != "" {
				continue
			}
			f := v.Field(i)
			empty := false
			switch f.Kind() {
			case reflect.Interface, reflect.Ptr:
				empty = f.IsNil()
			case reflect.Map, reflect.Slice, reflect.Array, reflect.String:
				empty = f.Len() == 0
			}
			if empty {
				kids = append(kids, "None")
			} else {
				kids = append(kids, some(m.value(f)))
			}
		}
		return vt(kids...)
	}
	return vt()
}

func (c *Ctx) c16GraphCases() *caseFile {
	cf := c.Cases("reuse_graph", "CE.Model.Reuse", "reuse_case", "reuse_case_ok")
	cf.perFile = 300
	return cf
}

func c16CaseGraphCache(c *Ctx, kind string, ops []c16Op, steps []c16Step) {
	m := &c16GraphModel{nodes: map[int]string{}}
	terms, seen := []string{}, []string{}
	for i, st := range steps {
		v := reflect.ValueOf(c16Values[ops[i].Val]())
		if !v.IsValid() {
			return // nil interface: no type
		}
		terms = append(terms, cPair(cNi(m.addType(v.Type())), m.value(v)))
		seen = append(seen, c16ResTerm(st.Reused))
	}
	if m.nonUniform {
		return
	}
	tb := make([]string, len(m.order))
	for i, id := range m.order {
		tb[i] = cPair(cNi(id), m.nodes[id])
	}
	c.c16GraphCases().Add(cApp("CacheGraphHist", cList(tb), cList(terms), cList(seen)), kind+" type graph :: "+c16HistoryText(kind, ops[:len(steps)]))
}

// ===========================================================================
// Directed family W: kinds of destination writers x order, for every reusable encoder-side object.

func c16DestStreams() []c16Named {
	str, rid := int(events.ArrayTypeString), int(events.ArrayTypeResourceID)
	h := func(t string) string { return hex.EncodeToString([]byte(t)) }
	mk := func(tag, text string) c16Named { return c16Named{tag, c16Evs(text)} }
	return []c16Named{
		mk("string", fmt.Sprintf("bd v:0 l sa:%d:%s pi:1 e ed", str, h("abc"))),
		mk("media", fmt.Sprintf("bd v:0 media:%s:0102 ed", h("text/plain"))),
		mk("chunked-string", fmt.Sprintf("bd v:0 l ab:%d ac:2:true ad:6162 ac:1:false ad:63 e ed", str)),
		mk("map-key-and-resource", fmt.Sprintf("bd v:0 m sa:%d:%s sa:%d:%s e ed", str, h("k"), rid, h("http://x"))),
		mk("record-key", fmt.Sprintf("bd v:0 rt:52 sa:%d:%s e l rec:52 pi:1 e e ed", str, h("k"))),
		mk("media-begin-and-custom-text", fmt.Sprintf("bd v:0 l mb:%s ac:1:false ad:00 ct:1:%s e ed", h("a/b"), h("ab"))),
		mk("long-string", fmt.Sprintf("bd v:0 sa:%d:%s ed", str, h(strings.Repeat("long string ", 40)))),
		mk("no-string", "bd v:0 l pi:1 ni:2 e ed"),
	}
}

type c16Strs struct {
	Name string
	Tags []string
	M    map[string]string
}

func init() {
	c16Values["strs"] = func() interface{} { return []string{"a", "", "ccc"} }
	c16Values["media"] = func() interface{} { return types.Media{MediaType: "text/plain", Data: []byte{1, 2}} }
	c16Values["longstr"] = func() interface{} { return strings.Repeat("long string ", 40) }
	c16Values["strstruct"] = func() interface{} { return &c16Strs{"n", []string{"t1", "t2"}, map[string]string{"k": "v"}} }
}

var c16DestValues = []string{"string", "S1", "strmap", "iface-list", "media", "strs", "longstr", "strstruct", "int"}

// all ordered pairs (w1 w2 w1) and triples of destination kinds
func c16DestOrders() [][]string {
	out := [][]string{}
	for _, a := range c16DestKinds {
		for _, b := range c16DestKinds {
			out = append(out, []string{a, b, a})
		}
	}
	for _, a := range c16DestKinds {
		for _, b := range c16DestKinds {
			for _, d := range c16DestKinds {
				if a != d {
					out = append(out, []string{a, b, d})
				}
			}
		}
	}
	return out
}

func c16RunDestFamily(c *Ctx, only string, record c16Recorder) {
	c16FreshCache = map[string]string{}
	defer func() { c16FreshCache = nil }()
	orders := c16DestOrders()
	streams := c16DestStreams()
	for _, kind := range []string{"cbe-encoder", "cte-encoder"} {
		if !c16Wanted(only, kind) {
			continue
		}
		n := 0
		for oi, ws := range orders {
			for si := range streams {
				if len(ws) == 3 && ws[0] != ws[2] && !c.Thorough() && (si+oi)%4 != 0 {
					continue // triples of three kinds: a quarter of the streams each (quick tier)
				}
				ops := make([]c16Op, len(ws))
				for j, w := range ws {
					ops[j] = c16Op{Evs: streams[(si+j*(1+oi%3))%len(streams)].Evs, W: w}
				}
				record(kind, c16Cfg{}, ops, c16Check(c, kind, c16Cfg{}, ops, "directed: destinations of different kinds in sequence"))
				n++
				if kind == "cbe-encoder" && (c.Thorough() || n%3 == 0) {
					c16CaseCbeEnc(c, ops)
				}
			}
		}
	}
	for _, kind := range []string{"cbe-marshaler", "cte-marshaler"} {
		if !c16Wanted(only, kind) {
			continue
		}
		for oi, ws := range orders {
			for vi := range c16DestValues {
				if len(ws) == 3 && ws[0] != ws[2] && !c.Thorough() && (vi+oi)%4 != 0 {
					continue
				}
				ops := make([]c16Op, len(ws))
				for j, w := range ws {
					ops[j] = c16Op{Val: c16DestValues[(vi+j*(1+oi%3))%len(c16DestValues)], W: w}
				}
				record(kind, c16Cfg{}, ops, c16Check(c, kind, c16Cfg{}, ops, "directed: destinations of different kinds in sequence"))
			}
		}
		// the document API (its own buffer) between calls with caller-supplied destinations
		for _, w := range c16DestKinds {
			for _, v := range c16DestValues {
				ops := []c16Op{{Val: v}, {Val: v, W: w}, {Val: v}, {Val: "strstruct", W: w}}
				record(kind, c16Cfg{}, ops, c16Check(c, kind, c16Cfg{}, ops, "directed: document API and caller-supplied destinations in turn"))
			}
		}
	}
}

// ===========================================================================
// Directed family R: Iterator.RecursionSupport = true.  Marker names are per document: a reused
// marshaler must number them as a fresh one does, whatever it marshaled before.

type c16RN struct {
	V     int
	Next  *c16RN
	Other *c16RN
}
type c16RPair struct {
	A, B *c16S1
}

var c16RecValues = []string{"rec:none", "rec:shared-elements", "rec:shared-fields", "rec:self-cycle", "rec:two-cycle", "rec:two-shared",
	"rec:three-shared", "rec:shared-map", "rec:shared-slice", "rec:shared-in-interfaces", "rec:cycle-and-shared"}

func init() {
	p := func(i int) *c16S1 { return &c16S1{i, "p"} }
	c16Values["rec:none"] = func() interface{} { return &c16RN{V: 1, Next: &c16RN{V: 2}} }
	c16Values["rec:shared-elements"] = func() interface{} { a := p(1); return []*c16S1{a, a} }
	c16Values["rec:shared-fields"] = func() interface{} { a := p(1); return &c16RPair{a, a} }
	c16Values["rec:self-cycle"] = func() interface{} { n := &c16RN{V: 1}; n.Next = n; return n }
	c16Values["rec:two-cycle"] = func() interface{} {
		a, b := &c16RN{V: 1}, &c16RN{V: 2}
		a.Next, b.Next = b, a
		return a
	}
	c16Values["rec:two-shared"] = func() interface{} { a, b := p(1), p(2); return []*c16S1{a, b, a, b} }
	c16Values["rec:three-shared"] = func() interface{} { a, b, d := p(1), p(2), p(3); return []*c16S1{a, b, d, d, b, a} }
	c16Values["rec:shared-map"] = func() interface{} { m := map[string]int{"a": 1}; return []map[string]int{m, m} }
	c16Values["rec:shared-slice"] = func() interface{} { s := []int{1, 2}; return [][]int{s, s} }
	c16Values["rec:shared-in-interfaces"] = func() interface{} { a := p(1); return []interface{}{a, "x", a} }
	c16Values["rec:cycle-and-shared"] = func() interface{} {
		n, o := &c16RN{V: 1}, &c16RN{V: 9}
		n.Next, n.Other = n, o
		return []*c16RN{n, o}
	}
}

func c16RunRecursionFamily(c *Ctx, only string, record c16Recorder) {
	c16FreshCache = map[string]string{}
	defer func() { c16FreshCache = nil }()
	k := c16Cfg{Rec: true}
	for _, kind := range []string{"cbe-marshaler", "cte-marshaler"} {
		if !c16Wanted(only, kind) {
			continue
		}
		run := func(names []string, ws []string, tag string) {
			ops := make([]c16Op, len(names))
			for i, v := range names {
				ops[i] = c16Op{Val: v}
				if ws != nil {
					ops[i].W = ws[i]
				}
			}
			steps := c16Check(c, kind, k, ops, tag)
			record(kind, k, ops, steps)
			c16CaseMarkers(c, kind, k, ops)
		}
		for _, a := range c16RecValues {
			for _, b := range c16RecValues {
				run([]string{a, b, a}, nil, "directed: recursion support, values with shared / cyclic pointers in sequence")
			}
		}
		for i := 0; i < c.Pick(150, 3000); i++ {
			names, ws := []string{}, []string{}
			for j, n := 0, 2+c.Rng.Intn(5); j < n; j++ {
				if c.Rng.Intn(4) == 0 {
					names = append(names, c16GoodValues[c.Rng.Intn(len(c16GoodValues))])
				} else {
					names = append(names, c16RecValues[c.Rng.Intn(len(c16RecValues))])
				}
				ws = append(ws, c16DestKinds[c.Rng.Intn(len(c16DestKinds))])
			}
			if i%2 == 0 {
				ws = nil
			}
			run(names, ws, "sampled: recursion support, values with shared / cyclic pointers and ordinary values")
		}
	}
}

// (g) marker names: ONE marshaler with recursion support over the values of a history; per value the
// marker names found in the produced document (decoded without rules), in order.  The model names
// the k marked objects of every document 0 .. k-1.
func c16CaseMarkers(c *Ctx, kind string, k c16Cfg, ops []c16Op) {
	in := c16New(kind, k)
	ks, seen := []string{}, []string{}
	for _, o := range ops {
		doc, err := in.mar.MarshalToDocument(c16Values[o.Val]())
		if err != nil {
			return
		}
		rec := &Recorder{}
		var dec ce.Decoder
		if kind == "cbe-marshaler" {
			dec = ce.NewCBEDecoder(configuration.New())
		} else {
			dec = ce.NewCTEDecoder(configuration.New())
		}
		if err := dec.DecodeDocument(doc, rec); err != nil {
			return
		}
		names := []string{}
		for _, e := range rec.Evs {
			if e.K == "mk" {
				n, err := strconv.ParseUint(string(e.Data), 10, 64)
				if err != nil {
					return
				}
				names = append(names, cN(n))
			}
		}
		ks = append(ks, cNi(len(names)))
		seen = append(seen, cList(names))
	}
	c.c16GraphCases().Add(cApp("MarkerHist", cList(ks), cList(seen)), kind+" marker names :: "+c16HistoryText(kind, ops))
}
