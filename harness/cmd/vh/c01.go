package main

// C01 — CBE encode/decode preserves every rules-valid event stream.
//
// Search oracle on the implementation (streams with custom text: the encoder must refuse them): a generated rules-valid stream is played through
// ce.NewRules -> ce.NewCBEEncoder, the document is decoded by ce.NewCBEDecoder -> ce.NewRules ->
// Recorder; both stages must succeed and the denotation (den.go, the Go twin of Model/Denote.v)
// of the decoded stream must equal the denotation of the input without its comments.
// Correspondence: Go encoder / decoder vs CE.Model.Cbe on the same streams and documents (the
// two cross terms: the model decodes what the implementation encoded — cbe_dec_case — and the
// implementation's bytes are the model's bytes — cbe_enc_case — so decoding the model's bytes is
// decoding the implementation's); Go den vs Coq den (den_case); membership of the generated
// streams in the fragment the round-trip theorem covers (c01_frag_case).

import (
	"bytes"
	"encoding/base64"
	"encoding/gob"
	"encoding/hex"
	"fmt"
	"math"
	"math/big"
	"sort"
	"strings"

	"github.com/cockroachdb/apd/v2"
	"github.com/kstenerud/go-concise-encoding/ce"
	"github.com/kstenerud/go-concise-encoding/ce/events"
	"github.com/kstenerud/go-concise-encoding/configuration"
)

func init() { register("C01", runC01, replayC01) }

// c01Pipeline: events -> rules -> CBE encoder -> bytes -> CBE decoder -> rules -> recorder.
// stage: "" (all fine), "encode" (validator or encoder rejected event `at`), "decode".
func c01Pipeline(es []Ev) (doc []byte, out []Ev, stage string, at int, msg string) {
	cfg := configuration.New()
	var buf bytes.Buffer
	enc := ce.NewCBEEncoder(cfg)
	enc.PrepareToEncode(&buf)
	rej, m := playAll(ce.NewRules(enc, cfg), es)
	if rej >= 0 {
		return buf.Bytes(), nil, "encode", rej, m
	}
	rec := &Recorder{}
	err := ce.NewCBEDecoder(cfg).DecodeDocument(buf.Bytes(), ce.NewRules(rec, cfg))
	if err != nil {
		return buf.Bytes(), rec.Evs, "decode", -1, err.Error()
	}
	return buf.Bytes(), rec.Evs, "", -1, ""
}

func hasCustomText(es []Ev) bool {
	for _, e := range es {
		if e.K == "ct" || (e.K == "cbeg" && e.A == events.ArrayTypeCustomText) {
			return true
		}
	}
	return false
}

// c01Oracle: does the round trip preserve the data of es? Custom text is outside the property's
// quantifier (CBE carries custom binary only): for a stream containing it the required behaviour is
// that the encoder reports an error instead of writing something else.
func c01Oracle(es []Ev) (ok bool, expect, got string) {
	_, out, stage, at, msg := c01Pipeline(es)
	if hasCustomText(es) {
		if stage == "encode" && (es[at].K == "ct" || es[at].K == "cbeg") {
			return true, "the encoder refuses custom text", "refused at event " + es[at].String()
		}
		return false, "the encoder refuses custom text", fmt.Sprintf("stage=%q: custom text was not refused (%s)", stage, msg)
	}
	want := denString(denFilter(denGo(es), true, false))
	switch stage {
	case "encode":
		return false, want, fmt.Sprintf("rejected while encoding at event %d (%s): %s", at, es[at], msg)
	case "decode":
		return false, want, "the decoder (with rules) rejects the encoder's document: " + msg
	}
	g := denString(denGo(out))
	return g == want, want, g
}

func inexactBigFloat(e Ev) bool {
	if e.K != "bf" || e.BF == nil || e.BF.IsInf() {
		return false
	}
	_, acc := e.BF.Float64()
	return acc != big.Exact
}

// c01Construct names the construct of a stream the model / the recorded findings single out;
// "" when the stream has none of them.
func c01Construct(es []Ev) string {
	for _, e := range es {
		switch {
		case e.K == "ct" || (e.K == "cbeg" && e.A == events.ArrayTypeCustomText):
			return "custom-text-not-refused"
		case inexactBigFloat(e):
			return "bigfloat-not-float64"
		case e.K == "bdf" && e.BDF != nil && e.BDF.Form == apd.Finite && e.BDF.Coeff.Sign() != 0 && e.BDF.Exponent == math.MinInt32:
			return "bigdecimal-exp-min"
		}
	}
	return ""
}

// first position where the two denotations differ, as a constructor name
func c01FirstDiff(want, got string) string {
	w, g := strings.Split(want, " (D"), strings.Split(got, " (D")
	for i := range w {
		if i >= len(g) || w[i] != g[i] {
			f := strings.Fields(strings.TrimLeft(w[i], "("))
			if len(f) > 0 {
				return strings.Trim(f[0], "()")
			}
			return "?"
		}
	}
	return "length"
}

// in the fragment of the den-level round-trip theorem (CbeRoundtrip.c01_body)? Generated rules-valid
// streams only leave it through times, custom text, big floats that are zero or not exactly a float64, the
// MinInt32 big-decimal exponent, and comments between the events of a chunked array.
func c01InFragment(es []Ev) bool {
	inArray := false
	for _, e := range es {
		switch e.K {
		case "tm", "ct":
			return false
		case "bf":
			// finite big floats: only when exactly a non-zero float64
			if e.BF != nil && !e.BF.IsInf() && (e.BF.Sign() == 0 || inexactBigFloat(e)) {
				return false
			}
		case "bdf":
			if e.BDF != nil && e.BDF.Form == apd.Finite && e.BDF.Coeff.Sign() != 0 && e.BDF.Exponent == math.MinInt32 {
				return false
			}
		case "cbeg":
			if e.A != events.ArrayTypeCustomBinary {
				return false
			}
			inArray = true
		case "ab", "mb":
			inArray = true
		case "ac":
			if !e.B {
				inArray = false
			}
		case "cm", "pad":
			if inArray {
				return false
			}
		}
	}
	return true
}

// in the sub-fragment on which the decoded stream is proved to be accepted by the validator again
// (CbeRoundtrip.RulesPart.c01r_body)? On top of c01InFragment: no zero written as a float or decimal,
// whole arrays only when they take the short form, no string-like / media / custom events in one call,
// chunked arrays (any number of data events per chunk) not eligible for the short form.
func c01InRulesFragment(es []Ev) bool {
	if !c01InFragment(es) {
		return false
	}
	for i := 0; i < len(es); {
		e := es[i]
		switch e.K {
		case "fl":
			if e.F == 0 {
				return false
			}
		case "df":
			if e.DF.Coefficient == 0 {
				return false
			}
		case "bdf":
			if e.BDF != nil && e.BDF.Form == apd.Finite && e.BDF.Coeff.Sign() == 0 {
				return false
			}
		case "sa", "media", "cb":
			return false
		case "a":
			if !(e.N <= 15 && c22HasShortForm[e.A]) {
				return false
			}
		case "ab", "mb", "cbeg":
			j, nchunks := i+1, 0
			var firstN uint64
			firstMore := false
			for j < len(es) && es[j].K == "ac" {
				n, more := es[j].N, es[j].B
				j++
				for j < len(es) && es[j].K == "ad" {
					j++
				}
				if nchunks == 0 {
					firstN, firstMore = n, more
				}
				nchunks++
				if !more {
					break
				}
			}
			if e.K == "ab" && nchunks == 1 && !firstMore && firstN <= 15 && c22HasShortForm[e.A] {
				return false
			}
			i = j
			continue
		}
		i++
	}
	return true
}

func evsToGob(es []Ev) string {
	var buf bytes.Buffer
	if err := gob.NewEncoder(&buf).Encode(packAnswer(es, false)); err != nil {
		return ""
	}
	return base64.StdEncoding.EncodeToString(buf.Bytes())
}

func evsFromGob(s string) ([]Ev, error) {
	raw, err := base64.StdEncoding.DecodeString(s)
	if err != nil {
		return nil, err
	}
	var a childAnswer
	if err := gob.NewDecoder(bytes.NewReader(raw)).Decode(&a); err != nil {
		return nil, err
	}
	return a.events(), nil
}

func c01Check(c *Ctx, es []Ev, class string) {
	ok, want, got := c01Oracle(es)
	c.Count(evsString(es), len(es) > 4)
	construct := c01Construct(es)
	c.Dist(fmt.Sprintf("oracle/%s/construct=%s/ok=%v", class, construct, ok))
	if ok {
		return
	}
	key := "C01/roundtrip/" + construct
	if construct == "" {
		key = "C01/roundtrip/other/" + c01FirstDiff(want, got)
	}
	c.Fail(Replay{Kind: "roundtrip", Key: key,
		Input:  map[string]string{"events": evsString(es), "events_gob": evsToGob(es)},
		Expect: want, Got: got})
}

// directed streams: every construct the statement names, at the boundaries the encoder distinguishes
func c01Directed() map[string][]Ev {
	doc := func(body ...Ev) []Ev {
		return append(append([]Ev{{K: "bd"}, {K: "v", N: 0}}, body...), Ev{K: "ed"})
	}
	list := func(items ...Ev) []Ev { return doc(append(append([]Ev{{K: "l"}}, items...), Ev{K: "e"})...) }
	ints := []Ev{}
	for _, m := range cbeBoundaryMagnitudes() {
		ints = append(ints, cbeIntForms(false, new(big.Int).SetUint64(m))...)
		ints = append(ints, cbeIntForms(true, new(big.Int).SetUint64(m))...)
	}
	floats := []Ev{}
	for _, b := range cbeFloatEdgeBits() {
		floats = append(floats, Ev{K: "fl", F: math.Float64frombits(b)})
	}
	arrays := []Ev{}
	for _, t := range c22ArrayTypes {
		for _, n := range []uint64{0, 1, 15, 16, 17, 64} {
			data := bytes.Repeat([]byte{0x41}, int(byteCountFor(t, n)))
			if t == events.ArrayTypeBit && n%8 != 0 && len(data) > 0 {
				data[len(data)-1] = byte(1<<(n%8) - 1)
			}
			if t == events.ArrayTypeResourceID || t == events.ArrayTypeReferenceRemote {
				if n == 0 {
					continue
				}
			}
			if t == events.ArrayTypeUID {
				for i := range data {
					data[i] = byte(i)
				}
			}
			if t == events.ArrayTypeFloat16 || t == events.ArrayTypeFloat32 || t == events.ArrayTypeFloat64 {
				for i := range data {
					data[i] = 0
				}
			}
			arrays = append(arrays, Ev{K: "a", A: t, N: n, Data: data})
			if n > 1 && t != events.ArrayTypeBit {
				h := n / 2
				hb := int(byteCountFor(t, h))
				arrays = append(arrays, Ev{K: "ab", A: t}, Ev{K: "ac", N: h, B: true}, Ev{K: "ad", Data: data[:hb]},
					Ev{K: "ac", N: n - h, B: false}, Ev{K: "ad", Data: data[hb : hb+1]}, Ev{K: "ad", Data: data[hb+1:]})
			}
		}
	}
	return map[string][]Ev{
		"integers": list(ints...),
		"floats":   list(floats...),
		"arrays":   list(arrays...),
		"specials": list(Ev{K: "nan", B: true}, Ev{K: "nan"}, Ev{K: "df", DF: dfloatRaw(math.MinInt32, 0)}, Ev{K: "df", DF: dfloatRaw(5, 0)},
			Ev{K: "bdf", BDF: apdOf(true, big.NewInt(0), -7)}, Ev{K: "bdf", BDF: apdOf(false, bigPow2(130), 12)},
			Ev{K: "bf", BF: new(big.Float).SetInf(true)}, Ev{K: "bf", BF: big.NewFloat(1.5)}, Ev{K: "bi"}, Ev{K: "bf"}, Ev{K: "bdf"},
			Ev{K: "bi", Big: new(big.Int).Neg(bigPow2(64))}, Ev{K: "media", S: "a/b", Data: []byte{}}, Ev{K: "cb", N: 1<<32 - 1, Data: []byte{1}}),
		"split-utf8": list(Ev{K: "ab", A: events.ArrayTypeString}, Ev{K: "ac", N: 3, B: false}, Ev{K: "ad", Data: []byte{0xe2}},
			Ev{K: "ad", Data: []byte{0x82}}, Ev{K: "ad", Data: []byte{0xac}}),
		// pinned: both custom-text forms must be refused by the encoder
		"custom-text":          list(Ev{K: "ct", N: 3, Data: []byte("ab")}),
		"chunked-custom-text":  list(Ev{K: "cbeg", A: events.ArrayTypeCustomText, N: 3}, Ev{K: "ac", N: 2, B: false}, Ev{K: "ad", Data: []byte("ab")}),
		"bigfloat-not-float64": list(Ev{K: "bf", BF: new(big.Float).SetPrec(100).SetInt(new(big.Int).Add(bigPow2(80), big.NewInt(1)))}),
		"bigdecimal-exp-min":   list(Ev{K: "bdf", BDF: apdOf(false, big.NewInt(7), math.MinInt32)}),
	}
}

func runC01(c *Ctx) {
	c.Rep.Rule = "rules-valid streams from the tree generator with every option on (times, custom binary, media, markers/references, records, edges, nodes, big numbers, chunked arrays with arbitrary chunking and data splits), streams with custom text / inexact big floats in their own classes, and directed streams (every integer form around each width boundary, float exponent/mantissa edges, every array type at lengths 0/1/15/16/17/64 whole and chunked, special values); non-trivial = more than 4 events; distinct by event text"

	k := newCbeCorr(c)
	fc := c.Cases("c01_frag", "CE.Model.Cbe CE.Proofs.CbeRoundtrip", "c01_frag_case", "c01_frag_case_ok")
	fc.perFile = 120
	rc := c.Cases("c01_rfrag", "CE.Model.Cbe CE.Proofs.CbeRoundtrip", "RulesPart.c01r_frag_case", "RulesPart.c01r_frag_case_ok")
	rc.perFile = 120
	addR := func(es []Ev, label string) {
		want := c01InRulesFragment(es)
		rc.Add(rleTerm(cPair(cEvs(es), cBool(want))), fmt.Sprintf("%s in-rules-fragment=%v :: %s", label, want, evsString(es)))
		c.Dist(fmt.Sprintf("corr/c01-rules-fragment/%s/%v", label, want))
	}

	// ---- generated streams inside the implementation's CBE capabilities
	opts := DefaultGenOpts()
	opts.CustomText = false
	g := NewEvGen(c.Rng, opts)
	docs := [][]byte{}
	n := c.Pick(400, 8000)
	for i := 0; i < n; i++ {
		es := g.Document()
		c01Check(c, es, "generated")
		if i < 2 {
			c.Sample(map[string]string{"events": evsString(es)})
		}
		if i < c.Pick(120, 1500) {
			// model correspondence on the same stream: encoder bytes, decoder events, fragment membership, den twin
			out, ok := k.addEnc(es, "c01-gen")
			if ok && inCbeModel(es) {
				docs = append(docs, out)
			}
			if inCbeModel(es) {
				want := c01InFragment(es)
				fc.Add(rleTerm(cPair(cEvs(es), cBool(want))), fmt.Sprintf("in-fragment=%v :: %s", want, evsString(es)))
				c.Dist(fmt.Sprintf("corr/c01-fragment/%v", want))
				// the sub-fragment of the validator theorem: the stream itself and what the decoder made of it
				addR(es, "input")
				if _, dout, stage, _, _ := c01Pipeline(es); stage == "" && inCbeModel(dout) {
					addR(dout, "decoded")
				}
			}
			if i < c.Pick(40, 400) && inCbeModel(es) {
				c.addDenCase(es)
			}
		}
	}
	k.addDec(docs, "c01-encoder-output")

	// ---- the constructs CBE is known not to carry, each in its own class
	for _, variant := range []string{"custom-text", "bigfloat"} {
		o := DefaultGenOpts()
		o.CustomText = variant == "custom-text"
		o.NonFloat64BigFloats = variant == "bigfloat"
		gv := NewEvGen(c.Rng, o)
		for i := 0; i < c.Pick(60, 1000); i++ {
			c01Check(c, gv.Document(), "generated-"+variant)
		}
	}

	// ---- directed streams
	ddocs := [][]byte{}
	dir := c01Directed()
	names := []string{}
	for name := range dir {
		names = append(names, name)
	}
	sort.Strings(names)
	for _, name := range names {
		es := dir[name]
		c01Check(c, es, "directed-"+name)
		if inCbeModel(es) {
			out, ok := k.addEnc(es, "c01-directed")
			if ok {
				ddocs = append(ddocs, out)
			}
			c.addDenCase(es)
		}
	}
	k.addDec(ddocs, "c01-directed")
	c.c01Times() // times: the bit-packed layout against CE.Model.CbeTime (c01_time.go)
	for kind, v := range g.Kinds {
		c.Rep.Distribution["kind:"+kind] += v
	}
	c.Rep.Extra["decoder_results_with_times_skipped"] = k.SkippedTime
}

func replayC01(r *Replay) (bool, string) {
	var es []Ev
	var err error
	if g := r.Input["events_gob"]; g != "" {
		es, err = evsFromGob(g)
	} else {
		es, err = parseEvs(r.Input["events"])
	}
	if err != nil {
		return false, "cannot replay: " + err.Error()
	}
	ok, want, got := c01Oracle(es)
	doc, _, _, _, _ := c01Pipeline(es)
	return ok, fmt.Sprintf("document %s: expected denotation %q, got %q", hex.EncodeToString(doc), want, got)
}
