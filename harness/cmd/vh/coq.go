package main

import (
	"fmt"
	"math/big"
	"strings"
)

// Printers for Coq terms (N_scope is open in case files).

func cN(v uint64) string  { return fmt.Sprintf("%d", v) }
func cNi(v int) string    { return fmt.Sprintf("%d", v) }
func cBigN(v *big.Int) string { return v.String() }
func cZ(v int64) string {
	if v < 0 {
		return fmt.Sprintf("(%d)%%Z", v)
	}
	return fmt.Sprintf("%d%%Z", v)
}
func cBigZ(v *big.Int) string {
	if v.Sign() < 0 {
		return "(" + v.String() + ")%Z"
	}
	return v.String() + "%Z"
}
func cBool(b bool) string {
	if b {
		return "true"
	}
	return "false"
}
func cBytes(b []byte) string {
	var sb strings.Builder
	sb.WriteString("[")
	for i, x := range b {
		if i > 0 {
			sb.WriteString(";")
		}
		fmt.Fprintf(&sb, "%d", x)
	}
	sb.WriteString("]")
	return sb.String()
}
func cList(items []string) string { return "[" + strings.Join(items, "; ") + "]" }
func cSome(s string) string       { return "(Some " + s + ")" }
func cPair(a, b string) string    { return "(" + a + ", " + b + ")" }
func cTuple(xs ...string) string  { return "(" + strings.Join(xs, ", ") + ")" }
func cApp(f string, args ...string) string {
	if len(args) == 0 {
		return f
	}
	return "(" + f + " " + strings.Join(args, " ") + ")"
}
