package main

import (
	"bytes"
	"fmt"
	"reflect"
	"strings"

	"github.com/kstenerud/go-concise-encoding/ce"
	"github.com/kstenerud/go-concise-encoding/ce/events"
	"github.com/kstenerud/go-concise-encoding/configuration"
)

func init() { register("C13", runC13, replayC13) }

func c13Alphabet() []Ev {
	ids := []string{"a", "b", "c"}
	out := []Ev{{K: "pad"}, {K: "cm", Data: []byte("x")}, {K: "null"}, {K: "t"}, {K: "pi", N: 1}, {K: "pi", N: 2}, {K: "ni", N: 3},
		{K: "fl", F: 1.5}, {K: "nan"}, {K: "uid", Data: []byte("0123456789abcdef")},
		{K: "sa", A: events.ArrayTypeString, Data: []byte("s")}, {K: "sa", A: events.ArrayTypeResourceID, Data: []byte("r")},
		{K: "sa", A: events.ArrayTypeReferenceRemote, Data: []byte("u")}, {K: "a", A: events.ArrayTypeUint8, N: 1, Data: []byte{1}},
		{K: "ab", A: events.ArrayTypeString}, {K: "ab", A: events.ArrayTypeUint8}, {K: "ac", N: 1, B: false}, {K: "ac", N: 0, B: false}, {K: "ad", Data: []byte("k")},
		{K: "l"}, {K: "m"}, {K: "edge"}, {K: "node"}, {K: "e"}, {K: "e"}, {K: "rec", Data: []byte("r")}}
	for _, id := range ids {
		out = append(out, Ev{K: "mk", Data: []byte(id)}, Ev{K: "ref", Data: []byte(id)}, Ev{K: "ref", Data: []byte(id)})
	}
	// bad identifiers
	out = append(out, Ev{K: "mk", Data: []byte{}}, Ev{K: "ref", Data: []byte{}}, Ev{K: "mk", Data: []byte("a b")}, Ev{K: "ref", Data: []byte{0xff}},
		Ev{K: "mk", Data: []byte(strings.Repeat("i", 1001))}, Ev{K: "mk", Data: []byte(strings.Repeat("i", 1000))}, Ev{K: "mk", Data: []byte("é日_-.9")})
	return out
}

// c13Walk: a random walk that mostly follows events the recogniser allows.
func c13Walk(c *Ctx, alpha []Ev, maxLen int) []Ev {
	es := []Ev{{K: "bd"}, {K: "v"}}
	if c.Rng.Intn(3) == 0 {
		es = append(es, Ev{K: "rt", Data: []byte("r")}, Ev{K: "sa", A: events.ArrayTypeString, Data: []byte("f")}, Ev{K: "e"})
	}
	es = append(es, Ev{K: "l"})
	for len(es) < maxLen {
		var pick *Ev
		for try := 0; try < 12; try++ {
			e := alpha[c.Rng.Intn(len(alpha))]
			cand := append(append([]Ev{}, es...), e)
			bad, _ := wfCheck(cand, 1<<30, 1000)
			if bad < 0 || c.Rng.Intn(12) == 0 {
				pick = &e
				break
			}
		}
		if pick == nil {
			break
		}
		es = append(es, *pick)
		if bad, _ := wfCheck(es, 1<<30, 1000); bad >= 0 {
			return es
		}
	}
	// close what is open, then end the document
	for i := 0; i < 40; i++ {
		for _, e := range []Ev{{K: "e"}, {K: "ed"}, {K: "pi", N: 9}, {K: "ac", N: 0, B: false}, {K: "ad", Data: []byte("z")}} {
			cand := append(append([]Ev{}, es...), e)
			if bad, _ := wfCheck(cand, 1<<30, 1000); bad < 0 {
				es = cand
				if e.K == "ed" {
					return es
				}
				break
			}
		}
	}
	return append(es, Ev{K: "ed"})
}

func c13Key(es []Ev, rej, want int) string {
	rc := defaultRulesCfg()
	if relaxed, _ := wfCheckOpt(es, rc.MaxArray, int(rc.MaxIdent), true); relaxed == rej {
		return "C13/key-reference-to-marked-float-accepted"
	}
	if relaxed, _ := wfCheckRelaxed(es, rc.MaxArray, int(rc.MaxIdent), false, true); relaxed == rej {
		return "C13/marker-on-chunked-key-not-registered"
	}
	if (want < 0 || rej < want) && rej >= 0 && hasNestedMarker(es, rej) {
		return "C13/marker-inside-marked-container-rejected"
	}
	at := want
	kind := "accepts-invalid"
	if want < 0 || (rej >= 0 && rej < want) {
		kind, at = "rejects-valid", rej
	}
	ev := "end"
	if at >= 0 && at < len(es) {
		ev = es[at].K
	}
	return fmt.Sprintf("C13/%s/at-%s", kind, ev)
}

func c13Oracle(es []Ev) (bool, string, string) {
	rc := defaultRulesCfg()
	rej, _, _ := runRules(rc, es)
	want, _ := wfCheck(es, rc.MaxArray, int(rc.MaxIdent))
	return rej == want, fmt.Sprintf("first-invalid=%d", want), fmt.Sprintf("rejected-at=%d", rej)
}

// builder half: references are replaced by the marked value
func c13BuildOracle(doc string) (bool, string) {
	cfg := configuration.New()
	v, err := ce.UnmarshalFromCTEDocument([]byte(doc), nil, cfg)
	if err != nil {
		return false, "error: " + err.Error()
	}
	l, ok := v.([]interface{})
	if !ok || len(l) < 2 {
		return false, fmt.Sprintf("unexpected shape %T", v)
	}
	// by construction element i (marked) and element j (reference) are given in the doc comment "i j"
	return true, fmt.Sprintf("%v", l)
}

func runC13(c *Ctx) {
	c.Rep.Rule = "random walks (up to 40 events) over an alphabet rich in markers and references (3 ids, forward and backward references, key and value positions, nested containers, chunked arrays under markers, record types, empty / over-long / ill-formed / non-ASCII identifiers), guided by an independent recogniser so that most prefixes stay valid; verdict of the validator compared with the recogniser's; plus fixed scenarios; builder half: CTE documents with references in list, map-value and forward positions unmarshaled untyped, reference positions must hold the marked value; non-trivial = contains a marker or reference; distinct by event text"
	alpha := c13Alphabet()
	rc := defaultRulesCfg()
	fixed := []string{
		"bd v:0 l mk:61 pi:1 ref:61 e ed", "bd v:0 l ref:61 mk:61 pi:1 e ed", "bd v:0 l ref:61 e ed", "bd v:0 l mk:61 pi:1 mk:61 pi:2 e ed",
		"bd v:0 l mk:61 mk:62 pi:1 e ed", "bd v:0 l mk:61 ref:61 e ed", "bd v:0 mk:61 rt:72 e pi:1 ed", "bd v:0 ref:61 ed",
		"bd v:0 l mk:61 l e m ref:61 null e e ed", "bd v:0 l m ref:61 null e mk:61 l e e ed", "bd v:0 l mk:61 pi:1 m ref:61 null e e ed",
		"bd v:0 l m ref:61 null e mk:61 sa:1:73 e ed", "bd v:0 l mk:61 null m ref:61 null e e ed", "bd v:0 l mk: pi:1 e ed", "bd v:0 l mk:6120 pi:1 e ed",
		"bd v:0 l mk:61 l mk:62 pi:1 e e ed", "bd v:0 l mk:61 fl:3ff8000000000000 m ref:61 null e e ed", "bd v:0 m mk:61 ab:1 ac:1:false ad:6b null ref:61 null e ed",
		"bd v:0 l mk:61 cm:false:78 pi:1 e ed", "bd v:0 l mk:61 pad pi:1 e ed", "bd v:0 l mk:61 sa:3:75 e ed",
	}
	for _, w := range fixed {
		es, _ := parseEvs(w)
		rej, _ := c.addRulesCase(rc, es)
		want, _ := wfCheck(es, rc.MaxArray, int(rc.MaxIdent))
		c.Count(w, true)
		c.Dist(fmt.Sprintf("fixed/accepted=%v", rej < 0))
		if rej != want && !wfLateUTF8(es, rej, want, rc.MaxArray, int(rc.MaxIdent)) { // UTF-8 lateness inside one chunk is C10's finding, not a marker/reference matter
			c.Fail(Replay{Kind: "events", Key: c13Key(es, rej, want), Input: map[string]string{"events": w}, Expect: fmt.Sprintf("first-invalid=%d", want), Got: fmt.Sprintf("rejected-at=%d", rej)})
		}
	}
	// identifier length is counted in BYTES: identifiers of 1-, 2-, 3- and 4-byte characters whose byte length is
	// limit-1 / limit / limit+1 (and whose character count is far below), for every identifier-bearing event,
	// under the default limit and a small one
	for _, lim := range []uint64{rc.MaxIdent, 10, 4} {
		rcl := rc
		rcl.MaxIdent = lim
		for _, unit := range []string{"i", "\u00e9", "\u65e5", "\U00020000"} {
			for _, target := range []uint64{lim - 1, lim, lim + 1, lim + uint64(len(unit))} {
				n := int(target) / len(unit)
				if n == 0 {
					continue
				}
				id := strings.Repeat(unit, n)
				for len(id) < int(target) {
					id += "x"
				}
				for _, es := range [][]Ev{
					{{K: "bd"}, {K: "v", N: 0}, {K: "l"}, {K: "mk", Data: []byte(id)}, {K: "pi", N: 1}, {K: "ref", Data: []byte(id)}, {K: "e"}, {K: "ed"}},
					{{K: "bd"}, {K: "v", N: 0}, {K: "l"}, {K: "ref", Data: []byte(id)}, {K: "mk", Data: []byte(id)}, {K: "pi", N: 1}, {K: "e"}, {K: "ed"}},
					{{K: "bd"}, {K: "v", N: 0}, {K: "rt", Data: []byte(id)}, {K: "e"}, {K: "rec", Data: []byte(id)}, {K: "e"}, {K: "ed"}}} {
					rej, _ := c.addRulesCase(rcl, es)
					want, _ := wfCheck(es, rcl.MaxArray, int(rcl.MaxIdent))
					sev := fmt.Sprintf("maxident=%d|%s", lim, evsString(es))
					c.Count(sev, true)
					c.Dist(fmt.Sprintf("identifier-length/unit-bytes=%d/valid=%v", len(unit), want < 0))
					if rej != want {
						c.Fail(Replay{Kind: "events", Key: "C13/identifier-length/" + map[bool]string{true: "accepts-too-long", false: "rejects-within-limit"}[rej < 0 || (want >= 0 && rej > want)],
							Input: map[string]string{"events": evsString(es), "max_identifier_length": fmt.Sprint(lim)}, Expect: fmt.Sprintf("first-invalid=%d", want), Got: fmt.Sprintf("rejected-at=%d", rej)})
					}
				}
			}
		}
	}
	// pending forward references: 1..3 references to one id, each in value or map-key position, in
	// every order, then the marker on an object of every class (keyable / not keyable), then more
	// references; the requirement "keyable" must be the union over all pending references
	objs := [][]Ev{{{K: "pi", N: 7}}, {{K: "sa", A: events.ArrayTypeString, Data: []byte("s")}}, {{K: "l"}, {K: "e"}}, {{K: "m"}, {K: "e"}},
		{{K: "fl", F: 1.5}}, {{K: "null"}}, {{K: "b", B: true}}, {{K: "uid", Data: []byte("0123456789abcdef")}}, {{K: "ni", N: 3}}}
	refAt := func(pos int) []Ev {
		switch pos {
		case 0: // list element
			return []Ev{{K: "ref", Data: []byte("x")}}
		case 1: // map key
			return []Ev{{K: "m"}, {K: "ref", Data: []byte("x")}, {K: "pi", N: 1}, {K: "e"}}
		default: // map value
			return []Ev{{K: "m"}, {K: "pi", N: 1}, {K: "ref", Data: []byte("x")}, {K: "e"}}
		}
	}
	for nrefs := 1; nrefs <= 3; nrefs++ {
		for combo := 0; combo < pow3(nrefs); combo++ {
			for oi, obj := range objs {
				for after := 0; after < 3; after++ {
					if c.Tier == "quick" && nrefs == 3 && (combo+oi+after)%3 != int(c.Seed%3) {
						continue
					}
					es := []Ev{{K: "bd"}, {K: "v", N: 0}, {K: "l"}}
					x := combo
					for k := 0; k < nrefs; k++ {
						es = append(es, refAt(x%3)...)
						x /= 3
					}
					es = append(es, Ev{K: "mk", Data: []byte("x")})
					es = append(es, obj...)
					if after > 0 {
						es = append(es, refAt(after)...)
					}
					es = append(es, Ev{K: "e"}, Ev{K: "ed"})
					rej, _ := c.addRulesCase(rc, es)
					want, _ := wfCheck(es, rc.MaxArray, int(rc.MaxIdent))
					s := evsString(es)
					c.Count(s, true)
					c.Dist(fmt.Sprintf("pending-refs/valid=%v", want < 0))
					if rej != want && !wfLateUTF8(es, rej, want, rc.MaxArray, int(rc.MaxIdent)) { // UTF-8 lateness inside one chunk is C10's finding, not a marker/reference matter
						c.Fail(Replay{Kind: "events", Key: c13Key(es, rej, want), Input: map[string]string{"events": s}, Expect: fmt.Sprintf("first-invalid=%d", want), Got: fmt.Sprintf("rejected-at=%d", rej)})
					}
				}
			}
		}
	}
	n := c.Pick(500, 12000)
	for i := 0; i < n; i++ {
		es := c13Walk(c, alpha, 10+c.Rng.Intn(30))
		rej, _ := c.addRulesCase(rc, es)
		want, complete := wfCheck(es, rc.MaxArray, int(rc.MaxIdent))
		s := evsString(es)
		c.Count(s, strings.Contains(s, "mk:") || strings.Contains(s, "ref:"))
		c.Dist(fmt.Sprintf("walk/valid=%v/complete=%v", want < 0, complete))
		if i < 3 {
			c.Sample(s)
		}
		if rej != want && !wfLateUTF8(es, rej, want, rc.MaxArray, int(rc.MaxIdent)) { // UTF-8 lateness inside one chunk is C10's finding, not a marker/reference matter
			c.Fail(Replay{Kind: "events", Key: c13Key(es, rej, want), Input: map[string]string{"events": s}, Expect: fmt.Sprintf("first-invalid=%d", want), Got: fmt.Sprintf("rejected-at=%d", rej)})
		}
	}
	// builder half
	type bcase struct {
		doc      string
		marked   []int // path to the marked value
		refs     [][]int
		template interface{}
	}
	vals := []string{"1", "\"s\"", "[1 2]", "{\"k\"=1}", "-5", "1.5", "[]", "true"}
	for _, val := range vals {
		for _, bc := range []bcase{
			{"c0 [&a:" + val + " $a]", []int{0}, [][]int{{1}}, nil},
			{"c0 [$a &a:" + val + "]", []int{1}, [][]int{{0}}, nil},
			{"c0 [&a:" + val + " $a $a [$a]]", []int{0}, [][]int{{1}, {2}, {3, 0}}, nil},
			{"c0 [&a:" + val + " {\"x\"=$a}]", []int{0}, [][]int{{1, -1}}, nil},
			{"c0 [{\"x\"=$a} &a:" + val + "]", []int{1}, [][]int{{0, -1}}, nil},
		} {
			for _, id := range []string{"a", "aa", "marker_with_a_longer_name"} {
				doc := strings.NewReplacer("&a:", "&"+id+":", "$a", "$"+id).Replace(bc.doc)
				for _, format := range []string{"cte", "cbe"} {
					c.Count("build|"+format+"|"+doc, true)
					ok, detail := c13CheckBuildFmt(doc, format, bc.marked, bc.refs)
					c.Dist(fmt.Sprintf("build/%s/ok=%v", format, ok))
					if !ok {
						shape := strings.NewReplacer(val, "V", id, "a").Replace(doc)
						key := "C13/build/" + shape
						if format == "cbe" {
							key = "C13/build-cbe/" + shape
						}
						c.Fail(Replay{Kind: "build", Key: key, Input: map[string]string{"doc": doc, "format": format, "marked": fmt.Sprint(bc.marked), "refs": fmt.Sprint(bc.refs)},
							Expect: "every reference position holds the marked value", Got: detail})
					}
				}
			}
		}
	}
}

func c13Get(v interface{}, path []int) (interface{}, bool) {
	for _, p := range path {
		switch x := v.(type) {
		case []interface{}:
			if p < 0 || p >= len(x) {
				return nil, false
			}
			v = x[p]
		case map[interface{}]interface{}:
			if len(x) != 1 {
				return nil, false
			}
			for _, e := range x {
				v = e
			}
		default:
			return nil, false
		}
	}
	return v, true
}

func pow3(n int) int {
	r := 1
	for i := 0; i < n; i++ {
		r *= 3
	}
	return r
}

func c13CheckBuild(doc string, marked []int, refs [][]int) (ok bool, detail string) {
	return c13CheckBuildFmt(doc, "cte", marked, refs)
}

// c13CheckBuildFmt unmarshals the CTE document, or (format "cbe") the CBE document obtained by
// sending the CTE decoder's events through the CBE encoder, and checks the reference positions.
func c13CheckBuildFmt(doc, format string, marked []int, refs [][]int) (ok bool, detail string) {
	defer func() {
		if r := recover(); r != nil {
			ok, detail = false, fmt.Sprint("panic: ", r)
		}
	}()
	var v interface{}
	var err error
	if format == "cbe" {
		var buf bytes.Buffer
		enc := ce.NewCBEEncoder(configuration.New())
		enc.PrepareToEncode(&buf)
		if err = ce.NewCTEDecoder(configuration.New()).DecodeDocument([]byte(doc), enc); err != nil {
			return false, "conversion to CBE failed: " + err.Error()
		}
		v, err = ce.UnmarshalFromCBEDocument(buf.Bytes(), nil, configuration.New())
	} else {
		v, err = ce.UnmarshalFromCTEDocument([]byte(doc), nil, configuration.New())
	}
	if err != nil {
		return false, "error: " + err.Error()
	}
	m, ok1 := c13Get(v, marked)
	if !ok1 {
		return false, fmt.Sprintf("marked value not found in %#v", v)
	}
	for _, r := range refs {
		x, ok2 := c13Get(v, r)
		if !ok2 || !reflect.DeepEqual(x, m) {
			return false, fmt.Sprintf("reference at %v holds %#v, marked value is %#v", r, x, m)
		}
	}
	return true, ""
}

func replayC13(r *Replay) (bool, string) {
	if r.Kind == "build" {
		var marked []int
		var refs [][]int
		parseInts := func(s string) []int {
			out := []int{}
			for _, f := range strings.Fields(strings.NewReplacer("[", " ", "]", " ").Replace(s)) {
				var x int
				fmt.Sscan(f, &x)
				out = append(out, x)
			}
			return out
		}
		marked = parseInts(r.Input["marked"])
		for _, part := range strings.Split(strings.Trim(r.Input["refs"], "[]"), "] [") {
			refs = append(refs, parseInts(part))
		}
		format := r.Input["format"]
		if format == "" {
			format = "cte"
		}
		return c13CheckBuildFmt(r.Input["doc"], format, marked, refs)
	}
	es, err := parseEvs(r.Input["events"])
	if err != nil {
		return false, err.Error()
	}
	if ml := r.Input["max_identifier_length"]; ml != "" {
		rc := defaultRulesCfg()
		fmt.Sscan(ml, &rc.MaxIdent)
		rej, _, _ := runRules(rc, es)
		want, _ := wfCheck(es, rc.MaxArray, int(rc.MaxIdent))
		return rej == want, fmt.Sprintf("expected first-invalid=%d got rejected-at=%d (max identifier length %d)", want, rej, rc.MaxIdent)
	}
	ok, w, g := c13Oracle(es)
	return ok, "expected " + w + " got " + g
}
