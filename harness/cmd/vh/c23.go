package main

import (
	"bytes"
	"encoding/hex"
	"fmt"
	"math/rand"
	"regexp"
	"strconv"
	"strings"
	"unicode/utf8"

	"github.com/kstenerud/go-concise-encoding/ce"
	"github.com/kstenerud/go-concise-encoding/ce/events"
	"github.com/kstenerud/go-concise-encoding/configuration"
	"github.com/kstenerud/go-concise-encoding/verifhooks"
)

// C23 — CTE output depends only on the data.
//
// Search oracle: for a rules-valid event stream, the text written by ce.NewCTEEncoder must be the same for
// every delivery of the same arrays (whole-array events, or begin/chunk/data with any chunking and any
// split of the data over data events, also inside elements and inside UTF-8 characters), and decoding
// that text (ce.NewCTEDecoder behind the validator) and encoding the decoded events must give the text
// again. Correspondence: every encoded stream (original, canonical, re-chunked, malformed) is also
// handed to the Coq model CE.Model.CteEnc.cte_encode.

func init() {
	register("C23", runC23, replayC23)
	generators = append(generators, genCteCharTables)
}

// genCteCharTables writes Gen/CteCharTables.v: the code points the CTE encoder escapes inside quoted
// strings (internal/chars IsRuneSafeFor(r, SafetyString) is false), as closed intervals over 0..0x10FFFF,
// and the numeric-format constants / encoder defaults of package configuration.
func genCteCharTables(dir string) {
	g := newGen("CteCharTables.v")
	iv := []string{}
	start := -1
	for r := 0; r <= 0x110000; r++ {
		unsafe := r < 0x110000 && !verifhooks.IsRuneSafeFor(rune(r), verifhooks.SafetyString)
		if unsafe && start < 0 {
			start = r
		}
		if !unsafe && start >= 0 {
			iv = append(iv, fmt.Sprintf("(%d, %d)", start, r-1))
			start = -1
		}
	}
	g.def("string_unsafe_intervals", "list (N * N)", "["+joinLines(iv, 6)+"]")
	g.def("cte_fmt_decimal", "N", cN(uint64(configuration.CTEEncodingFormatDecimal)))
	g.def("cte_fmt_binary", "N", cN(uint64(configuration.CTEEncodingFormatBinary)))
	g.def("cte_fmt_binary_zf", "N", cN(uint64(configuration.CTEEncodingFormatBinaryZeroFilled)))
	g.def("cte_fmt_octal", "N", cN(uint64(configuration.CTEEncodingFormatOctal)))
	g.def("cte_fmt_octal_zf", "N", cN(uint64(configuration.CTEEncodingFormatOctalZeroFilled)))
	g.def("cte_fmt_hex", "N", cN(uint64(configuration.CTEEncodingFormatHexadecimal)))
	g.def("cte_fmt_hex_zf", "N", cN(uint64(configuration.CTEEncodingFormatHexadecimalZeroFilled)))
	fm := []string{}
	for _, f := range c23DefaultFormats() {
		fm = append(fm, cN(uint64(f)))
	}
	// order: u8 u16 u32 u64 i8 i16 i32 i64 f16 f32 f64
	g.def("cte_default_array_formats", "list N", "["+joinLines(fm, 11)+"]")
	g.write(dir)
}

// ---------------------------------------------------------------------------
// configuration: the eleven array element formats

type c23Formats [11]configuration.CTENumericFormat

func c23DefaultFormats() c23Formats {
	a := configuration.New().Encoder.CTE.DefaultNumericFormats.Array
	return c23Formats{a.Uint8, a.Uint16, a.Uint32, a.Uint64, a.Int8, a.Int16, a.Int32, a.Int64, a.Float16, a.Float32, a.Float64}
}

func (f c23Formats) config() *configuration.Configuration {
	cfg := configuration.New()
	a := &cfg.Encoder.CTE.DefaultNumericFormats.Array
	a.Uint8, a.Uint16, a.Uint32, a.Uint64 = f[0], f[1], f[2], f[3]
	a.Int8, a.Int16, a.Int32, a.Int64 = f[4], f[5], f[6], f[7]
	a.Float16, a.Float32, a.Float64 = f[8], f[9], f[10]
	return cfg
}

func (f c23Formats) String() string {
	s := make([]string, len(f))
	for i, x := range f {
		s[i] = fmt.Sprint(uint8(x))
	}
	return strings.Join(s, ",")
}

func c23ParseFormats(s string) c23Formats {
	f := c23DefaultFormats()
	for i, p := range strings.Split(s, ",") {
		var v int
		if _, err := fmt.Sscan(p, &v); err == nil && i < len(f) {
			f[i] = configuration.CTENumericFormat(v)
		}
	}
	return f
}

// integer formats the model covers; floats stay hexadecimal
var c23IntFormats = []configuration.CTENumericFormat{configuration.CTEEncodingFormatDecimal, configuration.CTEEncodingFormatBinary,
	configuration.CTEEncodingFormatBinaryZeroFilled, configuration.CTEEncodingFormatOctal, configuration.CTEEncodingFormatOctalZeroFilled,
	configuration.CTEEncodingFormatHexadecimal, configuration.CTEEncodingFormatHexadecimalZeroFilled}

func c23RandomFormats(r *rand.Rand) c23Formats {
	f := c23DefaultFormats()
	for i := 0; i < 8; i++ {
		f[i] = c23IntFormats[r.Intn(len(c23IntFormats))]
	}
	return f
}

func c23CoqCfg(f c23Formats, es []Ev) string {
	fm := make([]string, len(f))
	for i, x := range f {
		fm[i] = cN(uint64(x))
	}
	return fmt.Sprintf("{| cf_fmts := %s |}", cList(fm))
}

// ---------------------------------------------------------------------------
// the implementation

// c23Encode feeds the events to a fresh CTE encoder (no validator in front).
func c23Encode(f c23Formats, es []Ev) (text []byte, panicked bool) {
	var buf bytes.Buffer
	enc := ce.NewCTEEncoder(f.config())
	enc.PrepareToEncode(&buf)
	at, _ := playAll(enc, es)
	return buf.Bytes(), at >= 0
}

// c23Decode: text -> events as seen behind the validator.
func c23Decode(f c23Formats, doc []byte) (evs []Ev, failed bool, msg string) {
	defer func() {
		if r := recover(); r != nil {
			failed, msg = true, fmt.Sprint("panic: ", r)
		}
	}()
	rec := &Recorder{}
	cfg := f.config()
	err := ce.NewCTEDecoder(cfg).DecodeDocument(doc, ce.NewRules(rec, cfg))
	if err != nil {
		return rec.Evs, true, err.Error()
	}
	return rec.Evs, false, ""
}

func c23Valid(es []Ev) bool {
	rej, _, _ := runRules(defaultRulesCfg(), es)
	return rej < 0
}

// ---------------------------------------------------------------------------
// array groups and re-chunking

type c23Group struct {
	kind  string // num bit str hex
	hdr   string // a (typed array) media custom
	t     events.ArrayType
	mt    string // media type
	ct    uint64 // custom type
	width int    // bytes per element (byte kinds)
	data  []byte // byte kinds: all bytes
	bits  []bool // bit arrays: all elements
	// how the group was delivered in the parsed stream
	emptyData bool // contained an empty data event
	form      c23Form
}

// c23Form: one delivery of a group, either one whole-array event or a list of chunks.
type c23Chunk struct {
	n    uint64
	more bool
	ds   [][]byte
}
type c23Form struct {
	whole  *Ev
	chunks []c23Chunk
}

func (f c23Form) hasEmptyData() bool {
	for _, ch := range f.chunks {
		for _, d := range ch.ds {
			if len(d) == 0 {
				return true
			}
		}
	}
	return false
}

func (g *c23Group) beginEvent() Ev {
	switch g.hdr {
	case "media":
		return Ev{K: "mb", S: g.mt}
	case "custom":
		return Ev{K: "cbeg", A: g.t, N: g.ct}
	}
	return Ev{K: "ab", A: g.t}
}

func (g *c23Group) events(f c23Form) []Ev {
	if f.whole != nil {
		return []Ev{*f.whole}
	}
	out := []Ev{g.beginEvent()}
	for _, ch := range f.chunks {
		out = append(out, Ev{K: "ac", N: ch.n, B: ch.more})
		for _, d := range ch.ds {
			out = append(out, Ev{K: "ad", Data: cp(d)})
		}
	}
	return out
}

func (g *c23Group) coqHead() string {
	switch g.hdr {
	case "media":
		return cApp("HMedia", cBytes([]byte(g.mt)))
	case "custom":
		return cApp("HCustom", cN(uint64(g.t)), cN(g.ct))
	}
	return cApp("HArr", cN(uint64(g.t)))
}

func (f c23Form) coq() string {
	if f.whole != nil {
		return cApp("DWhole", cEv(*f.whole))
	}
	cs := []string{}
	for _, ch := range f.chunks {
		ds := []string{}
		for _, d := range ch.ds {
			ds = append(ds, cBytes(d))
		}
		cs = append(cs, cTuple(cN(ch.n), cBool(ch.more), cList(ds)))
	}
	return cApp("DChunked", cList(cs))
}

type c23Item struct {
	ev  *Ev
	grp *c23Group
}

func c23KindOf(t events.ArrayType) (kind string, width int) {
	switch t {
	case events.ArrayTypeString, events.ArrayTypeResourceID, events.ArrayTypeReferenceRemote, events.ArrayTypeCustomText:
		return "str", 1
	case events.ArrayTypeCustomBinary, events.ArrayTypeMedia:
		return "hex", 1
	case events.ArrayTypeBit:
		return "bit", 0
	}
	return "num", t.ElementSize() / 8
}

func c23Bits(data []byte, n uint64) []bool {
	out := make([]bool, 0, n)
	for i := uint64(0); i < n && int(i/8) < len(data); i++ {
		out = append(out, data[i/8]&(1<<(i%8)) != 0)
	}
	return out
}

func c23Pack(bits []bool) []byte {
	out := make([]byte, (len(bits)+7)/8)
	for i, b := range bits {
		if b {
			out[i/8] |= 1 << uint(i%8)
		}
	}
	return out
}

// c23Parse splits a stream into plain events and array groups (whole-array events are groups too).
func c23Parse(es []Ev) []c23Item {
	items := []c23Item{}
	for i := 0; i < len(es); i++ {
		e := es[i]
		var g *c23Group
		switch e.K {
		case "a":
			k, w := c23KindOf(e.A)
			ev := e
			g = &c23Group{kind: k, hdr: "a", t: e.A, width: w, form: c23Form{whole: &ev}}
			if k == "bit" {
				g.bits = c23Bits(e.Data, e.N)
			} else {
				g.data = cp(e.Data)
			}
		case "sa":
			ev := e
			g = &c23Group{kind: "str", hdr: "a", t: e.A, width: 1, data: cp(e.Data), form: c23Form{whole: &ev}}
		case "media":
			ev := e
			g = &c23Group{kind: "hex", hdr: "media", t: events.ArrayTypeMedia, mt: e.S, width: 1, data: cp(e.Data), form: c23Form{whole: &ev}}
		case "cb":
			ev := e
			g = &c23Group{kind: "hex", hdr: "custom", t: events.ArrayTypeCustomBinary, ct: e.N, width: 1, data: cp(e.Data), form: c23Form{whole: &ev}}
		case "ct":
			ev := e
			g = &c23Group{kind: "str", hdr: "custom", t: events.ArrayTypeCustomText, ct: e.N, width: 1, data: cp(e.Data), form: c23Form{whole: &ev}}
		case "ab", "mb", "cbeg":
			switch e.K {
			case "ab":
				k, w := c23KindOf(e.A)
				g = &c23Group{kind: k, hdr: "a", t: e.A, width: w}
			case "mb":
				g = &c23Group{kind: "hex", hdr: "media", t: events.ArrayTypeMedia, mt: e.S, width: 1}
			default:
				k, w := c23KindOf(e.A)
				g = &c23Group{kind: k, hdr: "custom", t: e.A, ct: e.N, width: w}
			}
			var chunkN uint64
			chunk := []byte{}
			flush := func() {
				if g.kind == "bit" {
					g.bits = append(g.bits, c23Bits(chunk, chunkN)...)
				} else {
					g.data = append(g.data, chunk...)
				}
				chunk = chunk[:0]
			}
			j := i + 1
			for ; j < len(es) && (es[j].K == "ac" || es[j].K == "ad"); j++ {
				if es[j].K == "ac" {
					flush()
					chunkN = es[j].N
					g.form.chunks = append(g.form.chunks, c23Chunk{n: es[j].N, more: es[j].B})
				} else {
					if len(es[j].Data) == 0 {
						g.emptyData = true
					}
					chunk = append(chunk, es[j].Data...)
					if k := len(g.form.chunks); k > 0 {
						g.form.chunks[k-1].ds = append(g.form.chunks[k-1].ds, cp(es[j].Data))
					}
				}
			}
			flush()
			i = j - 1
		}
		if g != nil {
			items = append(items, c23Item{grp: g})
		} else {
			ev := e
			items = append(items, c23Item{ev: &ev})
		}
	}
	return items
}

func (g *c23Group) elems() uint64 {
	if g.kind == "bit" {
		return uint64(len(g.bits))
	}
	return uint64(len(g.data) / g.width)
}

func (g *c23Group) label() string {
	switch g.hdr {
	case "media":
		return "media"
	case "custom":
		if g.kind == "hex" {
			return "custom-binary"
		}
		return "custom-text"
	}
	return strings.ReplaceAll(g.t.String(), " ", "")
}

// whole: the group as one whole-array event.
func (g *c23Group) whole(r *rand.Rand) []Ev {
	switch g.hdr {
	case "media":
		return []Ev{{K: "media", S: g.mt, Data: cp(g.data)}}
	case "custom":
		if g.kind == "hex" {
			return []Ev{{K: "cb", N: g.ct, Data: cp(g.data)}}
		}
		return []Ev{{K: "ct", N: g.ct, Data: cp(g.data)}}
	}
	if g.kind == "bit" {
		return []Ev{{K: "a", A: g.t, N: g.elems(), Data: c23Pack(g.bits)}}
	}
	if g.kind == "str" && r != nil && r.Intn(2) == 0 {
		return []Ev{{K: "sa", A: g.t, Data: cp(g.data)}}
	}
	return []Ev{{K: "a", A: g.t, N: g.elems(), Data: cp(g.data)}}
}

type c23ChunkOpts struct {
	emptyData  bool // sprinkle empty data events (only while the chunk is still open)
	zeroChunks bool // sprinkle zero-length chunks that announce more chunks
	maxChunks  int
	perByte    bool // every byte its own data event
}

// chunked: the group through begin / chunk / data events.
func (g *c23Group) chunked(r *rand.Rand, o c23ChunkOpts) []Ev {
	var out []Ev
	switch g.hdr {
	case "media":
		out = append(out, Ev{K: "mb", S: g.mt})
	case "custom":
		out = append(out, Ev{K: "cbeg", A: g.t, N: g.ct})
	default:
		out = append(out, Ev{K: "ab", A: g.t})
	}
	total := int(g.elems())
	if total == 0 {
		if o.zeroChunks && r.Intn(2) == 0 {
			out = append(out, Ev{K: "ac", N: 0, B: true})
		}
		return append(out, Ev{K: "ac", N: 0, B: false})
	}
	// chunk boundaries in elements
	cutset := map[int]bool{}
	if o.maxChunks > 1 {
		for k := r.Intn(o.maxChunks); k > 0; k-- {
			c := 1 + r.Intn(total)
			if g.kind == "str" { // chunk boundaries of string-like arrays must be character boundaries
				for c < total && !utf8.RuneStart(g.data[c]) {
					c++
				}
			}
			if c < total {
				cutset[c] = true
			}
		}
	}
	cuts := []int{}
	for c := range cutset {
		cuts = append(cuts, c)
	}
	sortInts(cuts)
	cuts = append(cuts, total)
	pos := 0
	for ci, c := range cuts {
		last := ci == len(cuts)-1
		if o.zeroChunks && r.Intn(3) == 0 {
			out = append(out, Ev{K: "ac", N: 0, B: true})
		}
		n := c - pos
		more := !last || (o.zeroChunks && r.Intn(4) == 0) // sometimes finish with an empty final chunk
		out = append(out, Ev{K: "ac", N: uint64(n), B: more})
		var bs []byte
		if g.kind == "bit" {
			bs = c23Pack(g.bits[pos:c])
		} else {
			bs = g.data[pos*g.width : c*g.width]
		}
		for p := 0; p < len(bs); {
			k := len(bs) - p
			if o.perByte {
				k = 1
			} else if r.Intn(3) > 0 {
				k = 1 + r.Intn(k)
			}
			if o.emptyData && r.Intn(4) == 0 {
				out = append(out, Ev{K: "ad", Data: []byte{}})
			}
			out = append(out, Ev{K: "ad", Data: cp(bs[p : p+k])})
			p += k
		}
		pos = c
		if last && more {
			out = append(out, Ev{K: "ac", N: 0, B: false})
		}
	}
	return out
}

func sortInts(a []int) {
	for i := 1; i < len(a); i++ {
		for j := i; j > 0 && a[j] < a[j-1]; j-- {
			a[j], a[j-1] = a[j-1], a[j]
		}
	}
}

// c23Deliver rebuilds a stream from items; mode: "whole" or "chunked".
func c23Deliver(r *rand.Rand, items []c23Item, mode string, o c23ChunkOpts) []Ev {
	out := []Ev{}
	for _, it := range items {
		if it.ev != nil {
			out = append(out, *it.ev)
			continue
		}
		m := mode
		if m == "mixed" {
			m = []string{"whole", "chunked", "chunked"}[r.Intn(3)]
		}
		if m == "whole" {
			out = append(out, it.grp.whole(r)...)
		} else {
			out = append(out, it.grp.chunked(r, o)...)
		}
	}
	return out
}

func c23HasHexEmpty(es []Ev) bool {
	for _, it := range c23Parse(es) {
		if it.grp != nil && it.grp.kind == "hex" && it.grp.emptyData {
			return true
		}
	}
	return false
}

// ---------------------------------------------------------------------------
// oracles

// c23ChunkOracle: es against its canonical (whole-array) delivery. Returns ok, canonical text, text of es.
func c23ChunkOracle(f c23Formats, es []Ev) (ok bool, want, got string) {
	canon := c23Deliver(nil, c23Parse(es), "whole", c23ChunkOpts{})
	wt, wp := c23Encode(f, canon)
	gt, gp := c23Encode(f, es)
	want, got = string(wt), string(gt)
	if wp {
		want = "panic after " + want
	}
	if gp {
		got = "panic after " + got
	}
	return want == got, want, got
}

// c23ChunkKey names the finding class of a chunking failure: by re-delivering one group at a time.
func c23ChunkKey(f c23Formats, es []Ev) (key string, minimal []Ev) {
	items := c23Parse(es)
	// the original delivery of each group, found by re-parsing slices: rebuild group by group
	// (a group's events are exactly those between its begin and the next non ac/ad event)
	idx := 0
	for _, it := range items {
		if it.ev != nil {
			idx++
			continue
		}
		j := idx + 1
		if es[idx].K == "ab" || es[idx].K == "mb" || es[idx].K == "cbeg" {
			for j < len(es) && (es[j].K == "ac" || es[j].K == "ad") {
				j++
			}
		}
		grpEvs := es[idx:j]
		idx = j
		doc := append([]Ev{{K: "bd"}, {K: "v", N: 0}}, grpEvs...)
		doc = append(doc, Ev{K: "ed"})
		if ok, _, _ := c23ChunkOracle(f, doc); !ok {
			cls := it.grp.label()
			if it.grp.kind == "hex" && it.grp.emptyData {
				cls = "hex-array-empty-data-event"
			}
			return "C23/chunking/" + cls, doc
		}
	}
	if c23HasHexEmpty(es) {
		return "C23/chunking/hex-array-empty-data-event", es
	}
	return "C23/chunking/in-context", es
}

// c23ReencodeOracle: text must decode and encode to itself.
func c23ReencodeOracle(f c23Formats, text []byte) (ok bool, class, got string) {
	evs, failed, msg := c23Decode(f, text)
	if failed {
		return false, "decode-error", "decode error: " + msg
	}
	t2, p := c23Encode(f, evs)
	if p {
		return false, "encode-panic", "panic after " + string(t2)
	}
	return bytes.Equal(t2, text), "text-differs", string(t2)
}

// c23ReencodeMinimise looks for one event (or array group) of es that fails the re-encode oracle on its
// own and names the finding class after it; the minimal text replaces the full one in the replay.
func c23ReencodeMinimise(f c23Formats, class string, es []Ev, text []byte) (key string, minimal []byte, got string) {
	structural := map[string]bool{"bd": true, "ed": true, "v": true, "pad": true, "l": true, "m": true, "e": true, "edge": true, "node": true,
		"rt": true, "rec": true, "mk": true, "ref": true}
	for _, it := range c23Parse(es) {
		var doc []Ev
		kind := ""
		switch {
		case it.grp != nil:
			doc = c23Doc(it.grp.whole(nil)...)
			kind = "array-" + it.grp.label()
		case it.ev.K == "cm":
			doc = c23Doc(*it.ev, Ev{K: "null"})
			kind = "comment"
			if it.ev.B && strings.HasSuffix(string(it.ev.Data), "/") {
				kind = "multiline-comment-ending-in-slash"
			}
		case structural[it.ev.K]:
			continue
		default:
			doc = c23Doc(*it.ev)
			kind = map[string]string{"bf": "big-float", "bdf": "big-decimal", "df": "decimal-float", "fl": "float", "tm": "time", "bi": "big-int",
				"pi": "int", "ni": "int", "i": "int", "uid": "uid", "nan": "nan", "null": "null", "b": "bool", "t": "bool", "f": "bool"}[it.ev.K]
			if kind == "" {
				kind = it.ev.K
			}
			if it.ev.K == "tm" && strings.Count(it.ev.T.String(), "/") >= 2 && strings.Contains(it.ev.T.String()[strings.Index(it.ev.T.String(), "/"):], ".") {
				kind = "time-latlong"
			}
		}
		t, p := c23Encode(f, doc)
		if p {
			continue
		}
		if ok, cls, g := c23ReencodeOracle(f, t); !ok {
			return "C23/reencode/" + cls + "/" + kind, t, g
		}
	}
	return "C23/reencode/" + class + "/in-context", text, ""
}

func sortStrings(a []string) {
	for i := 1; i < len(a); i++ {
		for j := i; j > 0 && a[j] < a[j-1]; j-- {
			a[j], a[j-1] = a[j-1], a[j]
		}
	}
}

// ---------------------------------------------------------------------------

type c23Run struct {
	c         *Ctx
	cf        *caseFile
	maxCases  int
	streams   int
	compact   bool // write long byte lists of the case terms in the compact form (see c23LongPreamble)
	reencDone map[string]bool
	coqN      int // >= 0: number of deliveries of the next checked streams that become Coq cases (overrides the default)
}

// Long byte lists in case terms. Coq spends about 0.15 ms per element on elaborating a list literal of N
// numerals, which is far more than the model needs to evaluate it; the family of the long arrays therefore
// writes byte lists of 24 elements and more as (c23_bytes n [g1; g2; ...]%uint63): the first n bytes of the
// big-endian 7-byte groups g_i, primitive integers that cost next to nothing. c23_bytes is defined in the
// preamble of these case files; the value is the same list.
const c23LongPreamble = `Require Coq.Numbers.Cyclic.Int63.Uint63 Coq.ZArith.ZArith.
Import PrimInt63.
Definition c23_byte (x k : PrimInt63.int) : N := BinInt.Z.to_N (Uint63.to_Z (PrimInt63.land (PrimInt63.lsr x k) 255%uint63)).
Definition c23_group (x : PrimInt63.int) : list N :=
  [c23_byte x 48%uint63; c23_byte x 40%uint63; c23_byte x 32%uint63; c23_byte x 24%uint63; c23_byte x 16%uint63; c23_byte x 8%uint63; c23_byte x 0%uint63].
Definition c23_bytes (n : N) (xs : list PrimInt63.int) : list N := List.firstn (N.to_nat n) (List.flat_map c23_group xs).`

var c23ByteListRe = regexp.MustCompile(`\[\d+(?:;\d+){23,}\]`)

func c23CompactBytes(term string) string {
	return c23ByteListRe.ReplaceAllStringFunc(term, func(m string) string {
		parts := strings.Split(m[1:len(m)-1], ";")
		bs := make([]byte, len(parts))
		for i, p := range parts {
			v, err := strconv.ParseUint(p, 10, 8)
			if err != nil {
				return m // not a list of bytes
			}
			bs[i] = byte(v)
		}
		var sb strings.Builder
		fmt.Fprintf(&sb, "(c23_bytes %d [", len(bs))
		for i := 0; i < len(bs); i += 7 {
			var g [7]byte
			copy(g[:], bs[i:])
			if i > 0 {
				sb.WriteString(";")
			}
			sb.WriteString("0x" + hex.EncodeToString(g[:]))
		}
		sb.WriteString("]%uint63)")
		return sb.String()
	})
}

func (r *c23Run) term(t string) string {
	if r.compact {
		return c23CompactBytes(t)
	}
	return t
}

func (r *c23Run) addCase(f c23Formats, es []Ev, valid bool, what string) {
	if r.cf.n >= r.maxCases {
		return
	}
	text, panicked := c23Encode(f, es)
	impl := cSome(cBytes(text))
	if panicked {
		impl = "None"
	}
	r.cf.Add(r.term(cApp("CteEncCase", c23CoqCfg(f, es), cEvs(es), impl, cBool(valid))),
		fmt.Sprintf("%s valid=%v fmts=%s panicked=%v text=%q :: %s", what, valid, f, panicked, text, evsString(es)))
	r.c.Dist("case/" + what)
}

// c23Segs describes two deliveries of the same stream segment by segment (Coq: list seg). ok=false when
// the streams do not line up, in which case the re-delivery is recorded as a plain case instead.
func c23Segs(a, b []Ev) (term string, ok bool) {
	ia, ib := c23Parse(a), c23Parse(b)
	if len(ia) != len(ib) {
		return "", false
	}
	segs := []string{}
	for i := range ia {
		x, y := ia[i], ib[i]
		if (x.ev == nil) != (y.ev == nil) {
			return "", false
		}
		if x.ev != nil {
			if cEv(*x.ev) != cEv(*y.ev) {
				return "", false
			}
			segs = append(segs, cApp("SPlain", cEv(*x.ev)))
			continue
		}
		if x.grp.coqHead() != y.grp.coqHead() {
			return "", false
		}
		segs = append(segs, cApp("SArr", x.grp.coqHead(), x.grp.form.coq(), y.grp.form.coq()))
	}
	return cList(segs), true
}

// addEquivCase records a stream and a re-delivery of it as one case: both implementation texts, and
// (in Coq) the check that the pair satisfies the hypothesis of the chunk-invariance theorem.
func (r *c23Run) addEquivCase(f c23Formats, a, b []Ev, valid bool, what string) bool {
	if r.cf.n >= r.maxCases {
		return true
	}
	segs, ok := c23Segs(a, b)
	if !ok {
		return false
	}
	impl := func(es []Ev) (string, []byte) {
		text, panicked := c23Encode(f, es)
		if panicked {
			return "None", text
		}
		return cSome(cBytes(text)), text
	}
	ia, ta := impl(a)
	ib, tb := impl(b)
	r.cf.Add(r.term(cApp("CteEquivCase", c23CoqCfg(f, a), segs, ia, ib, cBool(valid))),
		fmt.Sprintf("%s valid=%v fmts=%s text1=%q text2=%q :: %s  <=>  %s", what, valid, f, ta, tb, evsString(a), evsString(b)))
	r.c.Dist("case/" + what)
	return true
}

// check runs both halves of the property on one rules-valid stream and its re-deliveries.
func (r *c23Run) check(f c23Formats, es []Ev, variants int, what string) {
	c := r.c
	r.streams++
	// how many deliveries of this stream also become Coq cases
	coq := 3
	if strings.HasPrefix(what, "boundary") {
		coq = 0
		if r.streams%2 == 0 || what == "boundary-context" || strings.HasPrefix(what, "boundary-hex") {
			coq = 1
		}
	}
	if r.coqN >= 0 {
		coq = r.coqN
	}
	if !c23Valid(es) {
		c.Dist("stream/" + what + "/rejected-by-rules")
		return
	}
	c.Dist("stream/" + what + "/valid")
	items := c23Parse(es)
	ngroups := 0
	for _, it := range items {
		if it.grp != nil {
			ngroups++
			c.Dist("array/" + it.grp.label())
		}
	}
	c.Count(what+"|"+f.String()+"|"+evsString(es), ngroups > 0)
	if what == "generated" && len(c.Rep.Samples) < 5 && ngroups > 0 && len(es) < 40 {
		c.Sample(map[string]string{"events": evsString(es)})
	}
	canon := c23Deliver(nil, items, "whole", c23ChunkOpts{})
	all := [][]Ev{es, canon}
	for v := 0; v < variants; v++ {
		o := c23ChunkOpts{emptyData: v%3 == 1, zeroChunks: v%2 == 1, maxChunks: 1 + c.Rng.Intn(4), perByte: v%5 == 4}
		mode := "chunked"
		if v%4 == 3 {
			mode = "mixed"
		}
		all = append(all, c23Deliver(c.Rng, items, mode, o))
	}
	emitted := 0
	for vi, v := range all {
		if vi > 0 {
			if !c23Valid(v) {
				c.Dist("variant/rejected-by-rules")
				continue
			}
			c.Count(fmt.Sprintf("variant %d|", vi)+f.String()+"|"+evsString(v), ngroups > 0)
		}
		ok, want, got := c23ChunkOracle(f, v)
		c.Dist(fmt.Sprintf("chunk-oracle/ok=%v", ok))
		if !ok {
			key, minimal := c23ChunkKey(f, v)
			_, mw, mg := c23ChunkOracle(f, minimal)
			if len(minimal) == len(v) {
				mw, mg = want, got
			}
			c.Fail(Replay{Kind: "chunking", Key: key, Input: map[string]string{"events": evsString(minimal), "formats": f.String()}, Expect: mw, Got: mg})
		}
		if vi != 1 && emitted < coq {
			emitted++
			if !r.addEquivCase(f, canon, v, true, "equiv-whole-vs-redelivered") {
				r.addCase(f, v, true, "valid-redelivered-unpaired")
			}
		}
	}
	// decode and re-encode (the canonical text)
	text, panicked := c23Encode(f, canon)
	if !panicked && strings.HasPrefix(what, "long-") {
		// the deliveries of one long array share their canonical text: decode and re-encode it once
		k := f.String() + "|" + string(text)
		if r.reencDone[k] {
			panicked = true
		} else {
			r.reencDone[k] = true
		}
	}
	if !panicked {
		ok, class, got := c23ReencodeOracle(f, text)
		c.Dist(fmt.Sprintf("reencode-oracle/ok=%v", ok))
		if !ok {
			key, mtext, mgot := c23ReencodeMinimise(f, class, es, text)
			if mgot == "" {
				mgot = got
			}
			c.Fail(Replay{Kind: "reencode", Key: key,
				Input: map[string]string{"text_hex": hex.EncodeToString(mtext), "formats": f.String()}, Expect: string(mtext), Got: mgot})
		}
	}
}

func c23Doc(body ...Ev) []Ev {
	out := []Ev{{K: "bd"}, {K: "v", N: 0}}
	out = append(out, body...)
	return append(out, Ev{K: "ed"})
}

// boundary streams: every array type, element counts around the leftover buffer, every two-way split of
// the data, every bit-chunk boundary, multi-byte characters split between data events, arrays in every
// container position.
func (r *c23Run) boundary(f c23Formats) {
	c := r.c
	rng := c.Rng
	types := []events.ArrayType{events.ArrayTypeUint8, events.ArrayTypeUint16, events.ArrayTypeUint32, events.ArrayTypeUint64,
		events.ArrayTypeInt8, events.ArrayTypeInt16, events.ArrayTypeInt32, events.ArrayTypeInt64,
		events.ArrayTypeFloat16, events.ArrayTypeFloat32, events.ArrayTypeFloat64, events.ArrayTypeUID}
	interesting := [][]byte{{0}, {0xff}, {0x80}, {0x7f}, {1}, {0x3f}, {0xc0}, {0xf8}, {0x7c}}
	for _, t := range types {
		w := t.ElementSize() / 8
		for _, n := range []int{0, 1, 2, 3} {
			data := make([]byte, n*w)
			for i := range data {
				if rng.Intn(2) == 0 {
					data[i] = interesting[rng.Intn(len(interesting))][0]
				} else {
					data[i] = byte(rng.Intn(256))
				}
			}
			g := &c23Group{kind: "num", hdr: "a", t: t, width: w, data: data}
			r.check(f, c23Doc(g.whole(nil)...), 0, "boundary-num")
			// every split of the bytes into two data events of one chunk, and three-way splits at random
			step := 1
			if c.Tier == "quick" && len(data) > 16 {
				step = 3
			}
			for cut := 1; cut < len(data); cut += step {
				es := c23Doc(Ev{K: "ab", A: t}, Ev{K: "ac", N: uint64(n), B: false}, Ev{K: "ad", Data: cp(data[:cut])}, Ev{K: "ad", Data: cp(data[cut:])})
				r.check(f, es, 0, "boundary-num-split2")
			}
			if n >= 2 {
				// chunk boundary between the elements, data of each chunk byte by byte
				es := []Ev{{K: "ab", A: t}, {K: "ac", N: 1, B: true}}
				for _, b := range data[:w] {
					es = append(es, Ev{K: "ad", Data: []byte{b}})
				}
				es = append(es, Ev{K: "ac", N: uint64(n - 1), B: false})
				for _, b := range data[w:] {
					es = append(es, Ev{K: "ad", Data: []byte{b}})
				}
				r.check(f, c23Doc(es...), 1, "boundary-num-bytewise")
			}
		}
	}
	// bit arrays: every length 0..18, every chunk boundary, data byte by byte
	for n := 0; n <= c.Pick(18, 40); n++ {
		bits := make([]bool, n)
		for i := range bits {
			bits[i] = rng.Intn(2) == 0
		}
		g := &c23Group{kind: "bit", hdr: "a", t: events.ArrayTypeBit, bits: bits}
		r.check(f, c23Doc(g.whole(nil)...), 1, "boundary-bit")
		for cut := 1; cut < n; cut++ {
			es := []Ev{{K: "ab", A: events.ArrayTypeBit}, {K: "ac", N: uint64(cut), B: true}}
			for _, b := range c23Pack(bits[:cut]) {
				es = append(es, Ev{K: "ad", Data: []byte{b}})
			}
			es = append(es, Ev{K: "ac", N: uint64(n - cut), B: false}, Ev{K: "ad", Data: c23Pack(bits[cut:])})
			r.check(f, c23Doc(es...), 0, "boundary-bit-chunks")
		}
	}
	// string-like kinds: texts with 1..4 byte characters, escapes and line feeds, split at every byte
	texts := []string{"", "a", "ab\ncd", "é", "a€b", "\U0001D11Ex", "q\"\\\t\r\n/*", "  ", "x\x7f\x01y", "日本語", strings.Repeat("ab", 20)}
	for _, txt := range texts {
		for _, t := range []events.ArrayType{events.ArrayTypeString, events.ArrayTypeResourceID, events.ArrayTypeReferenceRemote} {
			g := &c23Group{kind: "str", hdr: "a", t: t, width: 1, data: []byte(txt)}
			r.check(f, c23Doc(g.whole(nil)...), 1, "boundary-str")
			if t != events.ArrayTypeString && len(txt) > 6 {
				continue
			}
			for cut := 1; cut < len(txt); cut++ {
				es := c23Doc(Ev{K: "ab", A: t}, Ev{K: "ac", N: uint64(len(txt)), B: false}, Ev{K: "ad", Data: []byte(txt[:cut])}, Ev{K: "ad", Data: []byte(txt[cut:])})
				r.check(f, es, 0, "boundary-str-split2")
			}
		}
		g := &c23Group{kind: "str", hdr: "custom", t: events.ArrayTypeCustomText, ct: 7, width: 1, data: []byte(txt)}
		r.check(f, c23Doc(g.whole(nil)...), 2, "boundary-customtext")
	}
	// media and custom binary: lengths 0..5, every two-way split, with and without an empty data event
	for n := 0; n <= 5; n++ {
		data := make([]byte, n)
		rng.Read(data)
		for _, g := range []*c23Group{{kind: "hex", hdr: "media", t: events.ArrayTypeMedia, mt: "a/b", width: 1, data: data},
			{kind: "hex", hdr: "custom", t: events.ArrayTypeCustomBinary, ct: 3, width: 1, data: data}} {
			r.check(f, c23Doc(g.whole(nil)...), 3, "boundary-hex")
			begin := g.chunked(rng, c23ChunkOpts{})[0]
			for cut := 1; cut < n; cut++ {
				r.check(f, c23Doc(begin, Ev{K: "ac", N: uint64(n), B: false}, Ev{K: "ad", Data: cp(data[:cut])}, Ev{K: "ad", Data: cp(data[cut:])}), 0, "boundary-hex-split2")
			}
			if n > 0 {
				r.check(f, c23Doc(begin, Ev{K: "ac", N: uint64(n), B: false}, Ev{K: "ad", Data: []byte{}}, Ev{K: "ad", Data: cp(data)}), 0, "boundary-hex-empty-first")
			}
			if n > 1 {
				r.check(f, c23Doc(begin, Ev{K: "ac", N: uint64(n), B: false}, Ev{K: "ad", Data: cp(data[:1])}, Ev{K: "ad", Data: []byte{}}, Ev{K: "ad", Data: cp(data[1:])}), 0, "boundary-hex-empty-middle")
			}
		}
	}
	// one chunked array in every container position
	arr := func() []Ev {
		return []Ev{{K: "ab", A: events.ArrayTypeUint16}, {K: "ac", N: 2, B: false}, {K: "ad", Data: []byte{1}}, {K: "ad", Data: []byte{0, 2}}, {K: "ad", Data: []byte{0}}}
	}
	str := func(s string) []Ev {
		return []Ev{{K: "ab", A: events.ArrayTypeString}, {K: "ac", N: uint64(len(s)), B: false}, {K: "ad", Data: []byte(s[:1])}, {K: "ad", Data: []byte(s[1:])}}
	}
	cat := func(parts ...[]Ev) []Ev {
		out := []Ev{}
		for _, p := range parts {
			out = append(out, p...)
		}
		return out
	}
	one := func(e Ev) []Ev { return []Ev{e} }
	ctxs := [][]Ev{
		cat(one(Ev{K: "l"}), arr(), arr(), one(Ev{K: "e"})),
		cat(one(Ev{K: "m"}), str("k1"), arr(), str("k\n2"), one(Ev{K: "node"}), arr(), arr(), one(Ev{K: "e"}), one(Ev{K: "e"})),
		cat(one(Ev{K: "node"}), arr(), one(Ev{K: "cm", B: true, Data: []byte("c")}), arr(), one(Ev{K: "e"})),
		cat(one(Ev{K: "node"}), one(Ev{K: "cm", B: false, Data: []byte("c")}), arr(), one(Ev{K: "e"})),
		cat(one(Ev{K: "edge"}), arr(), str("d"+"esc"), arr(), one(Ev{K: "e"})),
		cat(one(Ev{K: "l"}), one(Ev{K: "mk", Data: []byte("a")}), arr(), one(Ev{K: "ref", Data: []byte("a")}), one(Ev{K: "e"})),
		cat(one(Ev{K: "rt", Data: []byte("r")}), str("f1"), one(Ev{K: "e"}), one(Ev{K: "rec", Data: []byte("r")}), arr(), one(Ev{K: "e"})),
		cat(one(Ev{K: "m"}), str("a\nbcd"), one(Ev{K: "m"}), str("\nxyz"), one(Ev{K: "node"}), one(Ev{K: "pi", N: 1}), one(Ev{K: "e"}), one(Ev{K: "e"}), one(Ev{K: "e"})),
		cat(one(Ev{K: "l"}), one(Ev{K: "mb", S: "a/b"}), one(Ev{K: "ac", N: 2, B: false}), one(Ev{K: "ad", Data: []byte{1}}), one(Ev{K: "ad", Data: []byte{2}}), one(Ev{K: "node"}), one(Ev{K: "t"}), one(Ev{K: "e"}), one(Ev{K: "e"})),
	}
	for _, body := range ctxs {
		r.check(f, c23Doc(body...), 3, "boundary-context")
	}
}

// ---------------------------------------------------------------------------
// long arrays: accumulated sizes around buffer capacities
//
// The engine accumulates the contents of string-like arrays (string, resource id, remote reference,
// custom text) over all data events of the array in a buffer that it keeps between arrays, and writes
// the text only when the array ends. What a data event does therefore depends on the size accumulated so
// far and on the capacity retained from earlier arrays of the same encoder. The streams below put the
// accumulated size on both sides of every capacity c23Capacities at every position of the delivery (the
// data event that crosses the capacity is the 2nd, the last, one in the middle; the crossing is by one
// byte, by many, lands exactly on the capacity), on a fresh encoder and on one that has already
// accumulated shorter / longer arrays.

// capacities a growing buffer can plausibly have: powers of two (Go's append for small slices, doubling
// schemes, minimum capacities), 1.5x steps, round decimal sizes.
func c23Capacities(max int) []int {
	out := []int{}
	for _, c := range []int{8, 16, 24, 32, 48, 64, 96, 100, 128, 192, 256, 384, 512, 768, 1000, 1024, 1536, 2048, 3072, 4096, 8192, 16384, 32768, 65536} {
		if c <= max {
			out = append(out, c)
		}
	}
	return out
}

var c23Alphabet = []byte("0123456789abcdefghijklmnopqrstuvwxyzABCDEFGHIJKLMNOPQRSTUVWXYZ")

// c23LongText: n bytes of valid UTF-8. style 0: ASCII whose bytes tell their position; style 1: 1..4 byte
// characters, escapes, line feeds and spaces mixed in (padded with ASCII to exactly n bytes).
func c23LongText(rng *rand.Rand, n int, style int) []byte {
	out := make([]byte, 0, n)
	if style == 0 {
		off := rng.Intn(len(c23Alphabet))
		for i := 0; i < n; i++ {
			out = append(out, c23Alphabet[(i+off)%len(c23Alphabet)])
		}
		return out
	}
	palette := []string{"é", "€", "\U0001D11E", "日", "ß", " ", "\n", "\"", "\\", "\t", "/", "*", "\x01", "\x7f", " ", " "}
	for len(out) < n {
		var s string
		if rng.Intn(3) == 0 {
			s = palette[rng.Intn(len(palette))]
		} else {
			s = string(c23Alphabet[rng.Intn(len(c23Alphabet))])
		}
		if len(out)+len(s) > n {
			s = string(c23Alphabet[len(out)%len(c23Alphabet)])
		}
		out = append(out, s...)
	}
	return out
}

type c23Split struct {
	name string
	cuts []int // strictly increasing positions in 1..n-1
}

func c23CutsOfSizes(n int, sizes func(i int) int) []int {
	cuts := []int{}
	for p, i := 0, 0; ; i++ {
		k := sizes(i)
		if k < 1 {
			k = 1
		}
		p += k
		if p >= n {
			return cuts
		}
		cuts = append(cuts, p)
	}
}

// c23LongSplits: the ways n accumulated bytes are cut into data events / chunks.
func c23LongSplits(rng *rand.Rand, n int, perByte bool) []c23Split {
	out := []c23Split{}
	if n < 2 {
		return out
	}
	// two pieces: the second data event crosses every capacity below n from every distance
	pos := map[int]bool{1: true, n - 1: true, n / 2: true, 2 * n / 5: true}
	for _, c := range c23Capacities(n) {
		for _, p := range []int{c - 1, c, c + 1} {
			pos[p] = true
		}
	}
	ps := []int{}
	for p := range pos {
		if p >= 1 && p <= n-1 {
			ps = append(ps, p)
		}
	}
	sortInts(ps)
	for _, p := range ps {
		out = append(out, c23Split{fmt.Sprintf("2way@%d", p), []int{p}})
	}
	// equal pieces: the capacity is crossed by the k-th data event for every k
	for _, sz := range []int{1, 3, 7, 10, 16, 31, 33, 64, 100, 257, 1000} {
		if sz >= n || (sz == 1 && !perByte) || n/sz > 700 {
			continue
		}
		sz := sz
		out = append(out, c23Split{fmt.Sprintf("equal%d", sz), c23CutsOfSizes(n, func(int) int { return sz })})
	}
	// growing and shrinking pieces
	out = append(out, c23Split{"doubling", c23CutsOfSizes(n, func(i int) int {
		if i > 24 {
			i = 24
		}
		return 1 << uint(i)
	})})
	if n > 4 {
		out = append(out, c23Split{"halving", c23CutsOfSizes(n, func(i int) int {
			k := n >> uint(i+1)
			if i > 30 {
				k = 1
			}
			return k
		})})
	}
	// one large piece after many small ones and the reverse
	if n > 20 {
		tail := []int{}
		for p := 1; p <= 9; p++ {
			tail = append(tail, p)
		}
		out = append(out, c23Split{"small-then-rest", tail})
		head := []int{}
		for p := n - 9; p <= n-1; p++ {
			head = append(head, p)
		}
		out = append(out, c23Split{"most-then-small", head})
	}
	// random cuts
	for k := 0; k < 3; k++ {
		set := map[int]bool{}
		for j := 2 + rng.Intn(7); j > 0; j-- {
			set[1+rng.Intn(n-1)] = true
		}
		cuts := []int{}
		for p := range set {
			cuts = append(cuts, p)
		}
		sortInts(cuts)
		out = append(out, c23Split{fmt.Sprintf("random%d", k), cuts})
	}
	return out
}

// c23CutDelivery: the events of one array whose bytes are cut into chunks at chunkCuts and, inside the
// chunks, into data events at dataCuts (positions in bytes; for string-like kinds the chunk cuts are moved
// forward to the next character boundary). empties: put an empty data event before every third data event;
// zero: start with a zero-length chunk.
func (g *c23Group) cutDelivery(chunkCuts, dataCuts []int, empties, zero bool) []Ev {
	n := len(g.data)
	isCut := map[int]bool{}
	for _, p := range dataCuts {
		if p > 0 && p < n {
			isCut[p] = true
		}
	}
	cc := []int{}
	for _, p := range chunkCuts {
		p -= p % g.width
		if g.kind == "str" {
			for p < n && !utf8.RuneStart(g.data[p]) {
				p++
			}
		}
		if p > 0 && p < n && (len(cc) == 0 || cc[len(cc)-1] < p) {
			cc = append(cc, p)
		}
	}
	cc = append(cc, n)
	out := []Ev{g.beginEvent()}
	if zero {
		out = append(out, Ev{K: "ac", N: 0, B: true})
	}
	nd := 0
	for ci, a := 0, 0; ci < len(cc); ci++ {
		b := cc[ci]
		out = append(out, Ev{K: "ac", N: uint64((b - a) / g.width), B: ci < len(cc)-1})
		for p := a; p < b; {
			q := p + 1
			for q < b && !isCut[q] {
				q++
			}
			nd++
			if empties && nd%3 == 2 {
				out = append(out, Ev{K: "ad", Data: []byte{}})
			}
			out = append(out, Ev{K: "ad", Data: cp(g.data[p:q])})
			p = q
		}
		a = b
	}
	return out
}

// c23LongForms: the deliveries of a split: all pieces data events of one chunk; every piece its own chunk;
// chunks of two or three pieces with empty data events and a leading zero-length chunk.
func (g *c23Group) longForms(sp c23Split) (names []string, forms [][]Ev) {
	names = append(names, "data")
	forms = append(forms, g.cutDelivery(nil, sp.cuts, false, false))
	names = append(names, "chunks")
	forms = append(forms, g.cutDelivery(sp.cuts, nil, false, false))
	if len(sp.cuts) >= 2 {
		cc := []int{}
		for i := 1; i < len(sp.cuts); i += 2 + i%2 {
			cc = append(cc, sp.cuts[i])
		}
		names = append(names, "mixed")
		forms = append(forms, g.cutDelivery(cc, sp.cuts, true, true))
	}
	return
}

func c23StrGroup(t events.ArrayType, data []byte) *c23Group {
	if t == events.ArrayTypeCustomText {
		return &c23Group{kind: "str", hdr: "custom", t: t, ct: 7, width: 1, data: data}
	}
	return &c23Group{kind: "str", hdr: "a", t: t, width: 1, data: data}
}

// long: see the comment at the head of this section.
func (r *c23Run) long(f c23Formats) {
	c := r.c
	rng := c.Rng
	defer func() { r.coqN = -1 }()

	// sizes: one past every capacity; one below, exactly at and somewhere above every power of two
	maxLen := c.Pick(2048, 16384)
	lens := map[int]bool{2*maxLen + 1: true}
	for _, k := range c23Capacities(maxLen) {
		lens[k+1] = true
		if k >= 64 && k&(k-1) == 0 {
			lens[k-1] = true
			lens[k] = true
			lens[k+k/4+rng.Intn(k/4+1)] = true
		}
	}
	ls := []int{}
	for l := range lens {
		ls = append(ls, l)
	}
	sortInts(ls)
	strTypes := []events.ArrayType{events.ArrayTypeString, events.ArrayTypeResourceID, events.ArrayTypeReferenceRemote, events.ArrayTypeCustomText}
	turn := 0
	for li, n := range ls {
		for ti, t := range strTypes {
			style := 0
			if (n+ti)%3 == 0 {
				style = 1
			}
			g := c23StrGroup(t, c23LongText(rng, n, style))
			r.coqN = 0
			r.check(f, c23Doc(g.whole(nil)...), 0, "long-str-whole")
			type delivery struct {
				what string
				es   []Ev
			}
			ds := []delivery{}
			for si, sp := range c23LongSplits(rng, n, n <= c.Pick(300, 5000)) {
				if ti > 0 && n > 600 && (si+ti+n)%2 == 0 && c.Tier == "quick" {
					continue
				}
				names, forms := g.longForms(sp)
				for i, es := range forms {
					if strings.HasPrefix(sp.name, "2way") && names[i] == "chunks" && (si+ti)%3 != 0 {
						continue
					}
					c.Dist("long-str/" + strings.TrimRight(sp.name, "0123456789") + "/" + names[i])
					ds = append(ds, delivery{"long-str-" + names[i], es})
				}
			}
			// Coq cases: a long array costs the model a noticeable time, so a fixed number per size and type:
			// two deliveries (one for the sizes below the first capacity of interest and, in the quick tier,
			// for the largest ones), taken in rotation so that every kind of split gets its turn
			k := c.Pick(2, 6)
			switch {
			case n < 60 && c.Tier == "quick":
				k = 1
			case n > 5000:
				k = 0
				if ti == li%len(strTypes) {
					k = 1
				}
			case n > 1100 && c.Tier == "quick":
				k = 0
				if ti == 0 || ti == li%len(strTypes) {
					k = 1
				}
			case n > 1100:
				k = 2
			}
			pick := map[int]bool{}
			for j := 0; j < k && len(ds) > 0; j++ {
				pick[(li*7+ti*3+j*(len(ds)/k+1))%len(ds)] = true
			}
			for i, d := range ds {
				turn++
				r.coqN = 0
				if pick[i] {
					r.coqN = 1
				}
				r.check(f, c23Doc(d.es...), 0, d.what)
			}
		}
	}

	// several accumulating arrays on one encoder: the capacity left by earlier arrays is smaller / larger
	// than what the next one needs; whole-array events in between; as map keys and values.
	seqs := [][]int{{10, 100, 30, 300, 1000}, {1000, 300, 100, 30, 10}, {65, 64, 63, 129, 128, 127}, {40, 70, 40, 130, 70, 260}, {5, 9, 17, 33, 65, 129, 257, 513}}
	for k := 0; k < c.Pick(3, 20); k++ {
		seq := []int{}
		for j := 2 + rng.Intn(5); j > 0; j-- {
			cs := c23Capacities(c.Pick(1024, 8192))
			seq = append(seq, cs[rng.Intn(len(cs))]+rng.Intn(5)-2)
		}
		seqs = append(seqs, seq)
	}
	for si, seq := range seqs {
		for variant := 0; variant < 4; variant++ {
			body := []Ev{{K: "l"}}
			if variant == 3 {
				body = []Ev{{K: "m"}}
				if len(seq)%2 == 1 {
					seq = seq[:len(seq)-1]
				}
			}
			for j, n := range seq {
				t := strTypes[0]
				if variant == 1 {
					t = strTypes[(j+si)%len(strTypes)]
				}
				g := c23StrGroup(t, c23LongText(rng, n, (j+variant)%2))
				switch {
				case variant == 2 && j%2 == 1:
					body = append(body, g.whole(nil)...)
				default:
					sp := c23Split{"", c23CutsOfSizes(n, func(i int) int { return 1 + (2*n/5+i*7)%(n/2+1) })}
					if j%3 == 2 {
						body = append(body, g.cutDelivery(sp.cuts, nil, false, false)...)
					} else {
						body = append(body, g.cutDelivery(nil, sp.cuts, j%2 == 1, false)...)
					}
				}
			}
			body = append(body, Ev{K: "e"})
			r.coqN = 0
			if variant != 2 {
				r.coqN = 1
			}
			r.check(f, c23Doc(body...), 2, "long-str-sequence")
		}
	}

	// the other kinds do not accumulate, but their data events meet the same sizes: u8, u16 (odd cuts leave
	// half an element), uid, bits, media, custom binary at a few long sizes
	for _, n := range []int{63, 64, 65, 100, 255, 257, 1025} {
		if n > 300 && c.Tier == "quick" && n != 1025 {
			continue
		}
		raw := make([]byte, n*2)
		rng.Read(raw)
		groups := []*c23Group{
			{kind: "num", hdr: "a", t: events.ArrayTypeUint8, width: 1, data: raw[:n]},
			{kind: "num", hdr: "a", t: events.ArrayTypeUint16, width: 2, data: raw[:n*2]},
			{kind: "num", hdr: "a", t: events.ArrayTypeUID, width: 16, data: raw[:(n*2)/16*16]},
			{kind: "hex", hdr: "media", t: events.ArrayTypeMedia, mt: "a/b", width: 1, data: raw[:n]},
			{kind: "hex", hdr: "custom", t: events.ArrayTypeCustomBinary, ct: 3, width: 1, data: raw[:n]},
		}
		for gi, g := range groups {
			for si, sp := range c23LongSplits(rng, len(g.data), false) {
				if (si+gi)%3 != 0 && !strings.HasPrefix(sp.name, "equal") {
					continue
				}
				es := g.cutDelivery(nil, sp.cuts, false, false)
				if si%2 == 1 {
					cc := []int{}
					for i := 0; i < len(sp.cuts); i += 2 {
						cc = append(cc, sp.cuts[i])
					}
					es = g.cutDelivery(cc, sp.cuts, false, si%4 == 1)
				}
				turn++
				r.coqN = 0
				if turn%50 == 0 && n < 300 {
					r.coqN = 1
				}
				r.check(f, c23Doc(es...), 0, "long-"+g.kind)
			}
		}
		bits := make([]bool, n*3)
		for i := range bits {
			bits[i] = rng.Intn(2) == 0
		}
		g := &c23Group{kind: "bit", hdr: "a", t: events.ArrayTypeBit, bits: bits}
		r.coqN = 0
		r.check(f, c23Doc(g.whole(nil)...), c.Pick(3, 8), "long-bit")
	}
}

// stretched: documents of the tree generator in which some string-like arrays are made long (the generator's
// own strings stay far below the first capacity), then re-delivered like every generated document.
func (r *c23Run) stretched(f c23Formats, es []Ev) {
	rng := r.c.Rng
	items := c23Parse(es)
	n := 0
	for _, it := range items {
		if it.grp != nil && it.grp.kind == "str" && rng.Intn(2) == 0 {
			cs := c23Capacities(r.c.Pick(512, 4096))
			extra := cs[rng.Intn(len(cs))] + rng.Intn(7) - 3 - len(it.grp.data)
			if extra > 0 {
				it.grp.data = append(it.grp.data, c23LongText(rng, extra, rng.Intn(2))...)
				n++
			}
		}
	}
	if n == 0 {
		return
	}
	o := c23ChunkOpts{maxChunks: 1 + rng.Intn(4), emptyData: rng.Intn(3) == 0, zeroChunks: rng.Intn(3) == 0}
	r.check(f, c23Deliver(rng, items, "chunked", o), r.c.Pick(2, 5), "generated-stretched")
}

// malformed streams go to the encoder without a validator; only the model comparison applies.
func (r *c23Run) malformed(f c23Formats, g *EvGen) {
	u16 := events.ArrayTypeUint16
	streams := [][]Ev{
		{{K: "pi", N: 1}},                                       // value before begin-document
		{{K: "bd"}, {K: "v", N: 0}, {K: "e"}},                   // end at top level
		{{K: "bd"}, {K: "v", N: 0}, {K: "ad", Data: []byte{1}}}, // data without an array
		{{K: "bd"}, {K: "v", N: 0}, {K: "ac", N: 0, B: false}},
		{{K: "bd"}, {K: "v", N: 0}, {K: "ac", N: 2, B: true}},
		{{K: "bd"}, {K: "v", N: 0}, {K: "ab", A: u16}, {K: "ad", Data: []byte{1, 0, 2}}, {K: "ac", N: 1, B: false}, {K: "ad", Data: []byte{0}}},
		{{K: "bd"}, {K: "v", N: 0}, {K: "l"}, {K: "ab", A: u16}, {K: "ac", N: 1, B: false}, {K: "ad", Data: []byte{1, 0}}, {K: "ad", Data: []byte{}}, {K: "e"}},
		{{K: "bd"}, {K: "v", N: 0}, {K: "l"}, {K: "a", A: u16, N: 2, Data: []byte{1, 0, 2}}, {K: "pi", N: 1}, {K: "ad", Data: []byte{0}}, {K: "e"}},
		{{K: "bd"}, {K: "v", N: 0}, {K: "l"}, {K: "ab", A: u16}, {K: "ac", N: 2, B: false}, {K: "ad", Data: []byte{1, 0}}, {K: "pi", N: 5}, {K: "e"}, {K: "e"}},
		{{K: "bd"}, {K: "v", N: 0}, {K: "l"}, {K: "ab", A: u16}, {K: "ac", N: 1, B: false}, {K: "ad", Data: []byte{1, 0, 2, 0, 3}}, {K: "e"}},
		{{K: "bd"}, {K: "v", N: 0}, {K: "ab", A: events.ArrayTypeCustomText}},
		{{K: "bd"}, {K: "v", N: 0}, {K: "ab", A: events.ArrayTypeMedia}},
		{{K: "bd"}, {K: "v", N: 0}, {K: "a", A: events.ArrayTypeCustomBinary, N: 1, Data: []byte{1}}},
		{{K: "bd"}, {K: "v", N: 0}, {K: "sa", A: u16, Data: []byte{1}}},
		{{K: "bd"}, {K: "v", N: 0}, {K: "cbeg", A: u16, N: 1}},
		{{K: "bd"}, {K: "v", N: 0}, {K: "uid", Data: []byte{1, 2, 3}}},
		{{K: "bd"}, {K: "v", N: 0}, {K: "m"}, {K: "media", S: "a/b", Data: []byte{1, 2}}, {K: "node"}, {K: "pi", N: 1}, {K: "e"}, {K: "e"}},
		{{K: "bd"}, {K: "v", N: 0}, {K: "mk", Data: []byte("a")}, {K: "e"}},
		{{K: "bd"}, {K: "v", N: 0}, {K: "node"}, {K: "e"}},
		{{K: "bd"}, {K: "v", N: 0}, {K: "l"}, {K: "bd"}, {K: "pi", N: 1}, {K: "e"}},
		{{K: "bd"}, {K: "v", N: 0}, {K: "pi", N: 1}, {K: "pi", N: 2}, {K: "node"}, {K: "pi", N: 3}, {K: "e"}},
		{{K: "bd"}, {K: "v", N: 0}, {K: "ab", A: events.ArrayTypeBit}, {K: "ac", N: 3, B: false}, {K: "ad", Data: []byte{5, 7}}, {K: "ad", Data: []byte{1}}},
		{{K: "bd"}, {K: "v", N: 0}, {K: "sa", A: events.ArrayTypeString, Data: []byte{0xff, 'a', 0xc3}}},
		{{K: "bd"}, {K: "v", N: 0}, {K: "l"}, {K: "cm", B: false, Data: []byte("a\nb")}, {K: "cm", B: true, Data: []byte("a\nbc")}, {K: "node"}, {K: "cm", B: true, Data: []byte("x\n    ")}, {K: "pi", N: 1}, {K: "e"}, {K: "e"}},
	}
	for _, es := range streams {
		r.c.Count("malformed|"+evsString(es), true)
		r.addCase(f, es, false, "malformed-handwritten")
	}
	n := r.c.Pick(60, 600)
	for i := 0; i < n; i++ {
		es := g.Mutate(g.Document())
		if c23Valid(es) {
			continue
		}
		r.c.Count("mutant|"+evsString(es), true)
		r.addCase(f, es, false, "malformed-mutant")
	}
}

// pinned: the inputs of the two repaired findings (bf83d88: empty data event inside media / custom binary;
// 471e180: latitude/longitude time zones truncated on the way back). They stay in every run, under the
// keys the findings had.
func (r *c23Run) pinned(f c23Formats) {
	mb := Ev{K: "mb", S: "a/b"}
	cb := Ev{K: "cbeg", A: events.ArrayTypeCustomBinary, N: 3}
	for _, es := range [][]Ev{
		c23Doc(mb, Ev{K: "ac", N: 1, B: false}, Ev{K: "ad", Data: []byte{}}, Ev{K: "ad", Data: []byte{0x42}}),
		c23Doc(cb, Ev{K: "ac", N: 1, B: false}, Ev{K: "ad", Data: []byte{}}, Ev{K: "ad", Data: []byte{0x42}}),
		c23Doc(mb, Ev{K: "ac", N: 2, B: false}, Ev{K: "ad", Data: []byte{0x35}}, Ev{K: "ad", Data: []byte{}}, Ev{K: "ad", Data: []byte{0x20}}),
		c23Doc(cb, Ev{K: "ac", N: 2, B: false}, Ev{K: "ad", Data: []byte{0x35}}, Ev{K: "ad", Data: []byte{}}, Ev{K: "ad", Data: []byte{0x20}}),
		c23Doc(Ev{K: "l"}, mb, Ev{K: "ac", N: 1, B: true}, Ev{K: "ad", Data: []byte{}}, Ev{K: "ad", Data: []byte{1}}, Ev{K: "ac", N: 2, B: false},
			Ev{K: "ad", Data: []byte{}}, Ev{K: "ad", Data: []byte{}}, Ev{K: "ad", Data: []byte{2, 3}}, Ev{K: "pi", N: 1}, Ev{K: "e"}),
	} {
		r.check(f, es, 2, "boundary-hex-pinned")
	}
	for _, text := range []string{"c0\n05:25:47.386136/-67.71/138.76", "c0\n-58801-05-20/06:19:47.338/71.46/71.09",
		"c0\n1556-02-23/01:10:19.918/8.03/-17.36", "c0\n14:19:46/-64.82/115.19", "c0\n23:19:29.03489438/73.32/-26.54", "c0\n234-11-15/22:37:16/72.60/-54.61"} {
		ok, class, got := c23ReencodeOracle(f, []byte(text))
		r.c.Count("pinned-latlong|"+text, true)
		r.c.Dist(fmt.Sprintf("reencode-oracle/pinned-latlong/ok=%v", ok))
		if !ok {
			r.c.Fail(Replay{Kind: "reencode", Key: "C23/reencode/" + class + "/time-latlong",
				Input: map[string]string{"text_hex": hex.EncodeToString([]byte(text)), "formats": f.String()}, Expect: text, Got: got})
		}
	}
}

func runC23(c *Ctx) {
	c.Rep.Rule = "rules-valid documents from the tree generator (all array types, string-like kinds, media, custom, in every container position) " +
		"plus boundary sets (every array type x element counts 0..3 x every two-way split of the bytes; bit arrays of every length 0..18 x every chunk boundary; " +
		"strings with 1..4 byte characters split at every byte; media/custom with and without empty data events); each stream is re-delivered whole and k ways " +
		"chunked (random chunk boundaries, data events split at random bytes incl. mid-element and mid-character, empty data events, zero-length chunks); " +
		"long arrays (string, resource id, remote reference, custom text of every size one past each plausible buffer capacity 8..2048 (thorough: ..16384) and one below / " +
		"at / above each power of two, plus one of twice the largest: every two-way split next to every capacity below the size, equal pieces of 1..1000 bytes, doubling / " +
		"halving pieces, small-then-rest, most-then-small, random cuts, each as data events of one chunk, as chunks, and mixed with empty data events and zero-length " +
		"chunks; sequences of such arrays on one encoder with growing / shrinking / alternating sizes; long u8 / u16 / uid / bit / media / custom-binary arrays; generated " +
		"documents with strings stretched to those sizes); " +
		"non-trivial = the stream contains at least one array; distinct = distinct (delivery, formats, event text); malformed streams (hand-written + mutants) " +
		"are compared with the model only"
	r := &c23Run{c: c, cf: c.Cases("cteenc", "CE.Model.CteEnc", "cteenc_case", "cteenc_case_ok"), maxCases: c.Pick(1900, 20000), coqN: -1, reencDone: map[string]bool{}}
	r.cf.perFile = 200
	def := c23DefaultFormats()

	r.pinned(def)
	r.boundary(def)
	r.boundary(c23RandomFormats(c.Rng))

	opt := DefaultGenOpts()
	g := NewEvGen(c.Rng, opt)
	r.malformed(def, g)

	n := c.Pick(220, 4000)
	for i := 0; i < n; i++ {
		if i%50 == 25 {
			o2 := opt
			o2.NonFloat64BigFloats = true
			g = NewEvGen(c.Rng, o2)
		} else if i%50 == 35 {
			g = NewEvGen(c.Rng, opt)
		}
		es := g.Document()
		f := def
		if i%5 == 4 {
			f = c23RandomFormats(c.Rng)
		}
		r.check(f, es, c.Pick(3, 6), "generated")
	}
	for k, v := range g.Kinds {
		c.Rep.Distribution["gen-kind/"+k] += v
	}
	// after everything else, so that the streams above are the same as before for a given seed; the cases
	// go to a family of their own with few cases per file (a long array costs the model seconds)
	r.cf = c.Cases("cteenclong", "CE.Model.CteEnc", "cteenc_case", "cteenc_case_ok")
	r.cf.perFile = 60
	r.cf.preamble = c23LongPreamble
	r.compact = true
	r.maxCases = c.Pick(400, 6000)
	r.long(def)
	r.coqN = 0
	for i, n2 := 0, c.Pick(150, 2000); i < n2; i++ {
		if i%10 == 0 {
			r.coqN = 1
		} else {
			r.coqN = 0
		}
		r.stretched(def, g.Document())
	}
	r.coqN = -1
	c.Rep.Extra["coq_case_kinds"] = "CteEncCase: model text = implementation text (and no dirty Column read when rules-valid); " +
		"CteEquivCase: whole-array delivery vs a re-delivery, described segment by segment; Coq checks seg_okb (the pair satisfies the " +
		"hypothesis chunk_equiv of theorem C23_cte_text_chunk_invariant, by C23_generated_pairs_are_equivalent), both texts, col_clean of both"
	c.Rep.Extra["long_array_cases"] = "family cteenclong: byte lists of 24 and more elements are written as (c23_bytes n [7-byte groups]%uint63), decoded by the " +
		"definitions in the preamble of those case files (same list value; elaborating the plain literal costs Coq ten times the evaluation of the model)"
	c.Rep.Extra["not_covered_by_theorems"] = []string{
		"decode-and-re-encode half: no Coq model of the CTE reader; evaluated on the implementation only (keys C23/reencode/...)"}
	c.Rep.Extra["pinned_repaired_findings"] = []string{"C23/chunking/hex-array-empty-data-event (fix bf83d88)", "C23/reencode/text-differs/time-latlong (fix 471e180)"}
	c.Rep.Extra["model_scope"] = "times are the text of compact_time.Time.String() carried by the event (WriteTime compared against it on every case); " +
		"float array elements in the hexadecimal (default) format only; everything else concrete"
}

func replayC23(r *Replay) (bool, string) {
	f := c23ParseFormats(r.Input["formats"])
	switch r.Kind {
	case "chunking":
		es, err := parseEvs(r.Input["events"])
		if err != nil {
			return false, "cannot replay: " + err.Error()
		}
		ok, want, got := c23ChunkOracle(f, es)
		return ok, fmt.Sprintf("whole-array delivery gives %q, this delivery gives %q", want, got)
	case "reencode":
		text, err := hex.DecodeString(r.Input["text_hex"])
		if err != nil {
			return false, "bad replay input"
		}
		ok, _, got := c23ReencodeOracle(f, text)
		return ok, fmt.Sprintf("encoder text %q, after decode and re-encode %q", text, got)
	}
	return false, "unknown replay kind " + r.Kind
}
