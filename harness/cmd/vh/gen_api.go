package main

import (
	"fmt"

	"github.com/kstenerud/go-concise-encoding/cbe"
	"github.com/kstenerud/go-concise-encoding/ce"
	"github.com/kstenerud/go-concise-encoding/version"
)

func init() { generators = append(generators, genApi) }

func fmtCtor(s string) string {
	switch s {
	case "cte":
		return "FCte"
	case "cbe":
		return "FCbe"
	case "none":
		return "FNone"
	}
	panic("unexpected dispatcher result " + s)
}

// genApi executes the two first-byte dispatchers of package ce on all 256
// bytes and records the library's version constant and CBE signature byte.
func genApi(dir string) {
	g := newGen("ApiConsts.v")
	fmt.Fprintf(g, "Inductive fmt := FCte | FCbe | FNone.\n\n")
	dec := []string{}
	unm := []string{}
	for b := 0; b < 256; b++ {
		dec = append(dec, fmtCtor(ce.VerifChooseDecoder(byte(b))))
		unm = append(unm, fmtCtor(ce.VerifChooseUnmarshaler(byte(b))))
	}
	g.def("decoder_table", "list fmt", "["+joinLines(dec, 16)+"]")
	g.def("unmarshaler_table", "list fmt", "["+joinLines(unm, 16)+"]")
	g.def("ce_version", "N", cN(uint64(version.ConciseEncodingVersion)))
	g.def("cbe_signature_byte", "N", cN(uint64(cbe.CBESignatureByte)))
	g.write(dir)
}
