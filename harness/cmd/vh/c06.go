package main

// C06 — Any valid document unmarshals into an untyped value.
//
// Search oracle (public behaviour only): a document that the decoder with rules accepts must
// unmarshal with a nil template without error and without hanging, and marshaling the result
// must give a document that the decoder with rules accepts again and that carries the same data
// (records as maps, references replaced by their targets, comments dropped). Data are compared
// as trees: integers by value, binary floats by exact value, times field by field, maps unordered.
//
// Correspondence: the events that pass the validator are fed to a fresh BuilderEventReceiver; the
// value built (or the event at which it panicked, and whether OnError returned) and the events
// the iterator produces for that value are recorded for CE.Model.Build.build_case_ok.
//
// Every input is processed in a worker process (hidden sub-command "c06-worker"): a builder that
// hangs spins forever and a value that contains itself overflows the stack of the marshaler.

import (
	"bufio"
	"bytes"
	"encoding/hex"
	"encoding/json"
	"fmt"
	"math"
	"math/big"
	"math/rand"
	"net/url"
	"os"
	"os/exec"
	"reflect"
	"sort"
	"strconv"
	"strings"
	"time"

	"github.com/cockroachdb/apd/v2"
	compact_float "github.com/kstenerud/go-compact-float"
	compact_time "github.com/kstenerud/go-compact-time"
	"github.com/kstenerud/go-concise-encoding/builder"
	"github.com/kstenerud/go-concise-encoding/ce"
	"github.com/kstenerud/go-concise-encoding/ce/events"
	"github.com/kstenerud/go-concise-encoding/configuration"
	"github.com/kstenerud/go-concise-encoding/iterator"
	"github.com/kstenerud/go-concise-encoding/types"
)

func init() {
	register("C06", runC06, replayC06)
	if len(os.Args) >= 5 && os.Args[1] == "c06-worker" {
		c06Worker(os.Args[2], os.Args[3], os.Args[4])
		os.Exit(0)
	}
}

const c06CallTimeout = 600 * time.Millisecond

// c06Call runs f in a goroutine. status: "ok", "panic" (msg = text) or "hang".
func c06Call(f func()) (status, msg string) {
	ch := make(chan string, 1)
	go func() {
		defer func() {
			if r := recover(); r != nil {
				ch <- "panic:" + fmt.Sprint(r)
			}
		}()
		f()
		ch <- "ok"
	}()
	s, answered := hangWait(ch, c06CallTimeout)
	if !answered {
		return "hang", ""
	}
	if strings.HasPrefix(s, "panic:") {
		return "panic", s[6:]
	}
	return "ok", ""
}

// ---------------------------------------------------------------------------
// Data trees (the denotation of an event stream)

type c06Node struct {
	K    string // null bool int negzero bfloat nan dec uid time str rid remote arr media cbin ctext list map node edge record mark ref
	S    string // canonical text of a scalar
	T    events.ArrayType
	ID   string
	Kids []*c06Node // list: elements; map: k0 v0 k1 v1 ...; node: value, children...; edge: 3; record: values; mark: 1
	// provenance, for classifying differences
	FromRecord bool
	FwdRef     bool
	RefKey     bool // a map that had a reference in key position
	TimeKind   string
}

func c06BigFloatCanon(f *big.Float) string {
	if f.IsInf() {
		if f.Signbit() {
			return "-inf"
		}
		return "+inf"
	}
	if f.Sign() == 0 {
		if f.Signbit() {
			return "-0"
		}
		return "+0"
	}
	mant := new(big.Float)
	exp := f.MantExp(mant)
	prec := int(f.MinPrec())
	mant.SetMantExp(mant, prec)
	mi, _ := mant.Int(nil)
	return fmt.Sprintf("%s*2^%d", mi.String(), exp-prec)
}

func c06TimeCanon(t compact_time.Time) (canon, kind string) {
	tz := t.Timezone
	canon = fmt.Sprintf("%d|%d-%d-%d|%d:%d:%d.%d|%d|%s|%d|%d|%d", t.Type, t.Year, t.Month, t.Day, t.Hour, t.Minute, t.Second, t.Nanosecond,
		tz.Type, tz.LongAreaLocation, tz.LatitudeHundredths, tz.LongitudeHundredths, tz.MinutesOffsetFromUTC)
	switch t.Type {
	case compact_time.TimeTypeDate:
		kind = "date"
	case compact_time.TimeTypeTime:
		kind = "time-of-day"
	default:
		switch tz.Type {
		case compact_time.TimezoneTypeUTCOffset:
			kind = "timestamp-utc-offset"
		case compact_time.TimezoneTypeLatitudeLongitude:
			kind = "timestamp-latlong"
		case compact_time.TimezoneTypeAreaLocation:
			kind = "timestamp-area"
		case compact_time.TimezoneTypeLocal:
			kind = "timestamp-local"
		default:
			kind = "timestamp-utc"
		}
	}
	return
}

func c06ArrayNode(t events.ArrayType, data []byte) *c06Node {
	switch t {
	case events.ArrayTypeString:
		return &c06Node{K: "str", S: hex.EncodeToString(data)}
	case events.ArrayTypeResourceID:
		return &c06Node{K: "rid", S: hex.EncodeToString(data)}
	case events.ArrayTypeReferenceRemote:
		return &c06Node{K: "remote", S: hex.EncodeToString(data)}
	}
	return &c06Node{K: "arr", T: t, S: hex.EncodeToString(data)}
}

// c06Leaf: the data of a single value event (nil when the event is not a value event).
func c06Leaf(e Ev) *c06Node {
	switch e.K {
	case "null":
		return &c06Node{K: "null"}
	case "b":
		return &c06Node{K: "bool", S: fmt.Sprint(e.B)}
	case "t":
		return &c06Node{K: "bool", S: "true"}
	case "f":
		return &c06Node{K: "bool", S: "false"}
	case "pi":
		return &c06Node{K: "int", S: new(big.Int).SetUint64(e.N).String()}
	case "ni":
		if e.N == 0 {
			return &c06Node{K: "negzero"}
		}
		return &c06Node{K: "int", S: new(big.Int).Neg(new(big.Int).SetUint64(e.N)).String()}
	case "i":
		return &c06Node{K: "int", S: strconv.FormatInt(e.I, 10)}
	case "bi":
		if e.Big == nil {
			return &c06Node{K: "null"}
		}
		return &c06Node{K: "int", S: e.Big.String()}
	case "fl":
		if math.IsNaN(e.F) {
			return &c06Node{K: "nan", S: fmt.Sprint(math.Float64bits(e.F)&(1<<51) == 0)}
		}
		if e.F == 0 && math.Signbit(e.F) {
			return &c06Node{K: "negzero"} // the same datum as the integer -0: the encoders write both as "-0"
		}
		return &c06Node{K: "bfloat", S: c06BigFloatCanon(big.NewFloat(e.F))}
	case "bf":
		if e.BF == nil {
			return &c06Node{K: "null"}
		}
		if e.BF.Sign() == 0 && e.BF.Signbit() {
			return &c06Node{K: "negzero"}
		}
		return &c06Node{K: "bfloat", S: c06BigFloatCanon(e.BF)}
	case "df":
		switch {
		case e.DF.IsSignalingNan():
			return &c06Node{K: "nan", S: "true"}
		case e.DF.IsNan():
			return &c06Node{K: "nan", S: "false"}
		case e.DF.IsNegativeZero():
			return &c06Node{K: "negzero"}
		}
		return &c06Node{K: "dec", S: cDFloat(e.DF)}
	case "bdf":
		if e.BDF == nil {
			return &c06Node{K: "null"}
		}
		switch e.BDF.Form {
		case apd.NaNSignaling:
			return &c06Node{K: "nan", S: "true"}
		case apd.NaN:
			return &c06Node{K: "nan", S: "false"}
		}
		return &c06Node{K: "dec", S: cAPD(e.BDF)}
	case "nan":
		return &c06Node{K: "nan", S: fmt.Sprint(e.B)}
	case "uid":
		return &c06Node{K: "uid", S: hex.EncodeToString(e.Data)}
	case "tm":
		c, k := c06TimeCanon(e.T)
		return &c06Node{K: "time", S: c, TimeKind: k}
	case "a", "sa":
		return c06ArrayNode(e.A, e.Data)
	case "media":
		return &c06Node{K: "media", S: hex.EncodeToString([]byte(e.S)) + ":" + hex.EncodeToString(e.Data)}
	case "cb":
		return &c06Node{K: "cbin", S: fmt.Sprintf("%d:%x", e.N, e.Data)}
	case "ct":
		return &c06Node{K: "ctext", S: fmt.Sprintf("%d:%x", e.N, e.Data)}
	}
	return nil
}

type c06Parser struct {
	es  []Ev
	pos int
	err string
}

func (p *c06Parser) skipTrivia() {
	for p.pos < len(p.es) && (p.es[p.pos].K == "pad" || p.es[p.pos].K == "cm") {
		p.pos++
	}
}

func (p *c06Parser) fail(s string) *c06Node {
	if p.err == "" {
		p.err = fmt.Sprintf("%s at event %d", s, p.pos)
	}
	return nil
}

// seq parses values up to the end-container event.
func (p *c06Parser) seq() []*c06Node {
	out := []*c06Node{}
	for {
		p.skipTrivia()
		if p.pos >= len(p.es) {
			p.fail("unterminated container")
			return out
		}
		if p.es[p.pos].K == "e" {
			p.pos++
			return out
		}
		n := p.value()
		if n == nil {
			return out
		}
		out = append(out, n)
	}
}

func (p *c06Parser) value() *c06Node {
	p.skipTrivia()
	if p.pos >= len(p.es) {
		return p.fail("value expected")
	}
	e := p.es[p.pos]
	p.pos++
	switch e.K {
	case "l":
		return &c06Node{K: "list", Kids: p.seq()}
	case "m":
		kids := p.seq()
		if len(kids)%2 != 0 {
			return p.fail("odd map")
		}
		n := &c06Node{K: "map", Kids: kids}
		for i := 0; i < len(kids); i += 2 {
			if kids[i].K == "ref" {
				n.RefKey = true
			}
		}
		return n
	case "node":
		kids := p.seq()
		if len(kids) == 0 {
			return p.fail("empty node")
		}
		return &c06Node{K: "node", Kids: kids}
	case "edge":
		kids := p.seq()
		if len(kids) != 3 {
			return p.fail("edge arity")
		}
		return &c06Node{K: "edge", Kids: kids}
	case "rec":
		return &c06Node{K: "record", ID: string(e.Data), Kids: p.seq()}
	case "mk":
		v := p.value()
		if v == nil {
			return nil
		}
		return &c06Node{K: "mark", ID: string(e.Data), Kids: []*c06Node{v}}
	case "ref":
		return &c06Node{K: "ref", ID: string(e.Data)}
	case "ab", "mb", "cbeg":
		data := []byte{}
		for {
			if p.pos >= len(p.es) || p.es[p.pos].K != "ac" {
				return p.fail("chunk header expected")
			}
			more := p.es[p.pos].B
			p.pos++
			for p.pos < len(p.es) && p.es[p.pos].K == "ad" {
				data = append(data, p.es[p.pos].Data...)
				p.pos++
			}
			if !more {
				break
			}
		}
		switch e.K {
		case "ab":
			return c06ArrayNode(e.A, data)
		case "mb":
			return &c06Node{K: "media", S: hex.EncodeToString([]byte(e.S)) + ":" + hex.EncodeToString(data)}
		}
		if e.A == events.ArrayTypeCustomText {
			return &c06Node{K: "ctext", S: fmt.Sprintf("%d:%x", e.N, data)}
		}
		return &c06Node{K: "cbin", S: fmt.Sprintf("%d:%x", e.N, data)}
	}
	if n := c06Leaf(e); n != nil {
		return n
	}
	p.pos--
	return p.fail("unexpected event " + e.K)
}

type c06Doc struct {
	RecTypes map[string][]*c06Node
	Root     *c06Node
}

// c06Den parses a complete event stream (bd v rt* value ed).
func c06Den(es []Ev) (*c06Doc, string) {
	p := &c06Parser{es: es}
	d := &c06Doc{RecTypes: map[string][]*c06Node{}}
	p.skipTrivia()
	if p.pos+1 >= len(es) || es[p.pos].K != "bd" || es[p.pos+1].K != "v" {
		return nil, "no document header"
	}
	p.pos += 2
	for {
		p.skipTrivia()
		if p.pos < len(es) && es[p.pos].K == "rt" {
			name := string(es[p.pos].Data)
			p.pos++
			d.RecTypes[name] = p.seq()
			continue
		}
		break
	}
	d.Root = p.value()
	p.skipTrivia()
	if p.err == "" && (p.pos >= len(es) || es[p.pos].K != "ed") {
		p.fail("end of document expected")
	}
	if p.err != "" {
		return nil, p.err
	}
	return d, ""
}

// c06Erase: records -> maps, references -> targets (any direction), markers dropped.
// ok=false when the data are not a finite tree (a container that contains itself) or a reference dangles.
func c06Erase(d *c06Doc) (*c06Node, bool) {
	marks := map[string]*c06Node{}
	order := []string{}
	var collect func(n *c06Node)
	collect = func(n *c06Node) {
		if n.K == "mark" {
			marks[n.ID] = n.Kids[0]
			order = append(order, n.ID)
		}
		for _, k := range n.Kids {
			collect(k)
		}
	}
	collect(d.Root)
	defined := map[string]bool{}
	ok := true
	var er func(n *c06Node, active map[string]bool, depth int) *c06Node
	er = func(n *c06Node, active map[string]bool, depth int) *c06Node {
		if depth > 200 {
			ok = false
			return &c06Node{K: "null"}
		}
		switch n.K {
		case "mark":
			active[n.ID] = true
			r := er(n.Kids[0], active, depth+1)
			delete(active, n.ID)
			defined[n.ID] = true
			return r
		case "ref":
			t, found := marks[n.ID]
			if !found || active[n.ID] {
				ok = false
				return &c06Node{K: "null"}
			}
			fwd := !defined[n.ID]
			active[n.ID] = true
			r := er(t, active, depth+1)
			delete(active, n.ID)
			cp := *r
			cp.FwdRef = fwd
			return &cp
		case "record":
			keys := d.RecTypes[n.ID]
			out := &c06Node{K: "map", FromRecord: true}
			for i, v := range n.Kids {
				if i < len(keys) {
					out.Kids = append(out.Kids, keys[i], er(v, active, depth+1))
				}
			}
			return out
		}
		if len(n.Kids) == 0 {
			return n
		}
		cp := *n
		cp.Kids = make([]*c06Node, len(n.Kids))
		for i, k := range n.Kids {
			cp.Kids[i] = er(k, active, depth+1)
		}
		return &cp
	}
	r := er(d.Root, map[string]bool{}, 0)
	return r, ok
}

func (n *c06Node) canon() string {
	switch n.K {
	case "list", "node", "edge":
		parts := []string{}
		for _, k := range n.Kids {
			parts = append(parts, k.canon())
		}
		return n.K + "(" + strings.Join(parts, ",") + ")"
	case "map":
		parts := []string{}
		for i := 0; i+1 < len(n.Kids); i += 2 {
			parts = append(parts, n.Kids[i].canon()+"="+n.Kids[i+1].canon())
		}
		sort.Strings(parts)
		return "map{" + strings.Join(parts, ",") + "}"
	case "arr":
		return fmt.Sprintf("arr%d:%s", n.T, n.S)
	}
	return n.K + ":" + n.S
}

// c06Diff: class of the first difference between the expected data a and the data b that came back ("" = equal).
func c06Diff(a, b *c06Node) string {
	if a.canon() == b.canon() {
		return ""
	}
	if a.FwdRef && a.K != b.K {
		return "forward-reference-lost"
	}
	if a.K != b.K {
		switch {
		case a.K == "negzero":
			return "negative-zero-int-changed"
		case a.K == "remote":
			return "remote-reference-changed"
		}
		return "kind-" + a.K + "-became-" + b.K
	}
	switch a.K {
	case "list", "node", "edge":
		if len(a.Kids) != len(b.Kids) {
			if a.K == "node" && len(a.Kids) > 0 && len(b.Kids) > 0 {
				if d := c06Diff(a.Kids[0], b.Kids[0]); d != "" {
					return d
				}
			}
			return a.K + "-length-changed"
		}
		for i := range a.Kids {
			if d := c06Diff(a.Kids[i], b.Kids[i]); d != "" {
				if a.K == "node" && i == 0 && a.Kids[0].FwdRef {
					return "forward-reference-in-node-value-lost"
				}
				return d
			}
		}
	case "map":
		if a.FromRecord {
			plain := *a
			plain.FromRecord = false
			if d := c06Diff(&plain, b); !c06GenericDiff(d) {
				return d
			}
			return "record-fields-lost"
		}
		if a.RefKey {
			return "reference-as-map-key"
		}
		bm := map[string]*c06Node{}
		for i := 0; i+1 < len(b.Kids); i += 2 {
			bm[b.Kids[i].canon()] = b.Kids[i+1]
		}
		for i := 0; i+1 < len(a.Kids); i += 2 {
			bv, found := bm[a.Kids[i].canon()]
			if !found {
				k := a.Kids[i]
				if len(a.Kids) != len(b.Kids) {
					return "map-entries-changed"
				}
				// the key itself changed: classify by what happened to the key
				for j := 0; j+1 < len(b.Kids); j += 2 {
					if b.Kids[j].K == k.K || k.K == "negzero" {
						if d := c06Diff(k, b.Kids[j]); d != "" && !strings.HasPrefix(d, "kind-") {
							return "map-key/" + d
						}
					}
				}
				return "map-key-" + k.K + "-missing"
			}
			if d := c06Diff(a.Kids[i+1], bv); d != "" {
				return d
			}
		}
		return "map-entries-changed"
	case "int":
		x, _ := new(big.Int).SetString(a.S, 10)
		y, _ := new(big.Int).SetString(b.S, 10)
		if x != nil && y != nil && x.CmpAbs(y) == 0 {
			return "integer-sign-lost"
		}
		return "integer-changed"
	case "time":
		return a.TimeKind + "-changed"
	case "arr":
		if a.T != b.T {
			return "array-" + strings.ToLower(a.T.String()) + "-became-" + strings.ToLower(b.T.String())
		}
		return "array-" + strings.ToLower(a.T.String()) + "-contents-changed"
	case "rid":
		return "resource-id-rewritten"
	}
	return a.K + "-changed"
}

// difference classes that say nothing about the cause
func c06GenericDiff(d string) bool {
	return strings.HasSuffix(d, "-length-changed") || strings.HasPrefix(d, "kind-") || d == "map-entries-changed" || strings.HasSuffix(d, "-missing")
}

// features of a document that are known (or suspected) to break the untyped builder, most specific first
func c06Suspects(d *c06Doc, evs []Ev) []string {
	has := map[string]bool{}
	for _, e := range evs {
		if e.K == "ab" && e.A.ElementSize() > 8 {
			has["chunked-array"] = true
		}
		if (e.K == "media" || e.K == "mb") && e.S == "" {
			has["empty-media-type"] = true
		}
	}
	var walk func(n *c06Node, parent *c06Node, idx int)
	walk = func(n *c06Node, parent *c06Node, idx int) {
		switch n.K {
		case "edge":
			has["edge"] = true
			for i, k := range n.Kids {
				if k.K == "ref" {
					has["reference-in-edge"] = true
				}
				if k.K == "mark" && i == 2 {
					has["marker-on-edge-destination"] = true
				}
			}
		case "node":
			if len(n.Kids) > 0 && n.Kids[0].K == "mark" {
				switch n.Kids[0].Kids[0].K {
				case "list", "map", "node", "edge", "record":
				default:
					has["marker-on-node-value"] = true
				}
			}
		case "map":
			for i := 0; i+1 < len(n.Kids); i += 2 {
				if n.Kids[i].K == "ref" {
					has["reference-as-map-key"] = true
				}
			}
		case "record":
			has["record"] = true
		case "remote":
			has["remote-reference"] = true
		case "cbin", "ctext":
			has["custom-type"] = true
		case "rid":
			b, _ := hex.DecodeString(n.S)
			if _, err := url.Parse(string(b)); err != nil {
				has["resource-id-not-a-go-url"] = true
			}
		case "arr":
			switch n.T {
			case events.ArrayTypeBit:
				has["bit-array"] = true
			case events.ArrayTypeUID:
				has["uid-array"] = true
			}
		case "negzero":
			has["negative-zero"] = true
		}
		for i, k := range n.Kids {
			walk(k, n, i)
		}
	}
	walk(d.Root, nil, 0)
	for _, keys := range d.RecTypes {
		for _, k := range keys {
			walk(k, nil, 0)
		}
	}
	order := []string{"reference-in-edge", "marker-on-edge-destination", "edge", "marker-on-node-value", "reference-as-map-key",
		"bit-array", "uid-array", "remote-reference", "custom-type", "resource-id-not-a-go-url", "chunked-array", "record", "empty-media-type", "negative-zero"}
	out := []string{}
	for _, s := range order {
		if has[s] {
			out = append(out, s)
		}
	}
	return out
}

// ---------------------------------------------------------------------------
// The oracle, on one document

func c06Decode(format string, doc []byte) ([]Ev, bool) {
	cfg := configuration.New()
	rec := &Recorder{}
	r := ce.NewRules(rec, cfg)
	var err error
	status, _ := c06Call(func() {
		if format == "cte" {
			err = ce.NewCTEDecoder(cfg).DecodeDocument(doc, r)
		} else {
			err = ce.NewCBEDecoder(cfg).DecodeDocument(doc, r)
		}
	})
	return rec.Evs, status == "ok" && err == nil
}

func c06Encode(format string, es []Ev) ([]byte, bool) {
	var buf bytes.Buffer
	var enc ce.Encoder
	if format == "cte" {
		enc = ce.NewCTEEncoder(configuration.New())
	} else {
		enc = ce.NewCBEEncoder(configuration.New())
	}
	enc.PrepareToEncode(&buf)
	at, _ := playAll(enc, es)
	return buf.Bytes(), at < 0
}

func c06Unmarshal(format string, doc []byte) (v interface{}, status string, msg string) {
	var err error
	status, msg = c06Call(func() {
		if format == "cte" {
			v, err = ce.UnmarshalFromCTEDocument(doc, nil, configuration.New())
		} else {
			v, err = ce.UnmarshalFromCBEDocument(doc, nil, configuration.New())
		}
	})
	if status == "ok" && err != nil {
		status, msg = "error", err.Error()
	}
	return
}

func c06Marshal(format string, v interface{}) (doc []byte, status string, msg string) {
	var err error
	status, msg = c06Call(func() {
		if format == "cte" {
			doc, err = ce.MarshalToCTEDocument(v, configuration.New())
		} else {
			doc, err = ce.MarshalToCBEDocument(v, configuration.New())
		}
	})
	if status == "ok" && err != nil {
		status, msg = "error", err.Error()
	}
	return
}

// c06Cyclic reports whether a slice or map is reachable from itself.
func c06Cyclic(v interface{}) bool {
	onPath := map[uintptr]bool{}
	var walk func(rv reflect.Value) bool
	walk = func(rv reflect.Value) bool {
		for rv.IsValid() && (rv.Kind() == reflect.Interface || rv.Kind() == reflect.Ptr) {
			if rv.IsNil() {
				return false
			}
			rv = rv.Elem()
		}
		if !rv.IsValid() {
			return false
		}
		switch rv.Kind() {
		case reflect.Slice:
			if rv.Type().Elem().Kind() != reflect.Interface || rv.Len() == 0 {
				return false
			}
			p := rv.Pointer()
			if onPath[p] {
				return true
			}
			onPath[p] = true
			defer delete(onPath, p)
			for i := 0; i < rv.Len(); i++ {
				if walk(rv.Index(i)) {
					return true
				}
			}
		case reflect.Map:
			p := rv.Pointer()
			if onPath[p] {
				return true
			}
			onPath[p] = true
			defer delete(onPath, p)
			it := rv.MapRange()
			for it.Next() {
				if walk(it.Key()) || walk(it.Value()) {
					return true
				}
			}
		case reflect.Struct:
			switch rv.Type() {
			case reflect.TypeOf(types.Node{}), reflect.TypeOf(types.Edge{}):
				for i := 0; i < rv.NumField(); i++ {
					if walk(rv.Field(i)) {
						return true
					}
				}
			}
		}
		return false
	}
	return walk(reflect.ValueOf(v))
}

type c06Verdict struct {
	Applies bool   // the decoder with rules accepts the document
	OK      bool   // the property holds on it
	Key     string // failure class
	Expect  string
	Got     string
	Stage   string // how far the check got (for the distribution)
	Hang    bool
}

func c06Clip(s string) string {
	if len(s) > 400 {
		return s[:400] + "…"
	}
	return s
}

// c06OracleDoc evaluates the property on one document of the given format.
func c06OracleDoc(format string, doc []byte) c06Verdict {
	evs1, ok := c06Decode(format, doc)
	if !ok {
		return c06Verdict{Stage: "not-accepted"}
	}
	d1, perr := c06Den(evs1)
	if d1 == nil {
		return c06Verdict{Stage: "unparsed:" + perr}
	}
	suspects := c06Suspects(d1, evs1)
	class := func(deflt string) string {
		if len(suspects) > 0 {
			return suspects[0]
		}
		return deflt
	}
	res := c06Verdict{Applies: true}
	v, status, msg := c06Unmarshal(format, doc)
	switch status {
	case "hang":
		res.Key, res.Expect, res.Got, res.Stage, res.Hang = "C06/unmarshal-hangs/"+class("unclassified"), "a value, no error", "no return within "+c06CallTimeout.String(), "unmarshal-hang", true
		return res
	case "panic", "error":
		res.Key, res.Expect, res.Got, res.Stage = "C06/unmarshal-error/"+class("unclassified"), "a value, no error", status+": "+c06Clip(msg), "unmarshal-error"
		return res
	}
	want, finite := c06Erase(d1)
	if c06Cyclic(v) {
		// the document describes a container that contains itself; the second half of the property
		// (a finite document with references replaced by their targets) does not apply
		res.OK, res.Stage = true, "cyclic-value"
		return res
	}
	doc2, status, msg := c06Marshal(format, v)
	if status != "ok" {
		res.Key, res.Expect, res.Got, res.Stage, res.Hang = "C06/remarshal-"+status+"/"+class("unclassified"), "the value marshals", status+": "+c06Clip(msg), "remarshal-"+status, status == "hang"
		return res
	}
	evs2, ok2 := c06Decode(format, doc2)
	if !ok2 {
		res.Key, res.Expect, res.Got, res.Stage = "C06/remarshal-invalid/"+class("unclassified"), "a document the decoder with rules accepts", c06Clip(evsString(evs2)), "remarshal-invalid"
		return res
	}
	d2, perr2 := c06Den(evs2)
	if d2 == nil {
		res.Key, res.Expect, res.Got, res.Stage = "C06/remarshal-invalid/"+class("unclassified"), "a parsable event stream", perr2, "remarshal-invalid"
		return res
	}
	if !finite {
		res.OK, res.Stage = true, "not-a-finite-tree"
		return res
	}
	if diff := c06Diff(want, d2.Root); diff != "" {
		if c06GenericDiff(diff) && len(suspects) > 0 {
			diff = suspects[0] + "-lost"
		}
		res.Key, res.Expect, res.Got, res.Stage = "C06/data-changed/"+diff, c06Clip(want.canon()), c06Clip(d2.Root.canon()), "data-changed"
		return res
	}
	res.OK, res.Stage = true, "same-data"
	return res
}

// ---------------------------------------------------------------------------
// Correspondence: the builder fed directly

func c06N(v uint64) string { return strconv.FormatUint(v, 10) }

// c06CoqVal prints a built value as a term of CE.Model.Build.uval.
func c06CoqVal(v interface{}) string {
	if v == nil {
		return "UNil"
	}
	optBig := func(ctor string, isNil bool, body string) string {
		if isNil {
			return "(" + ctor + " 0 None)"
		}
		return "(" + ctor + " 0 (Some " + body + "))"
	}
	typed := func(t events.ArrayType, elems []string) string {
		return cApp("UTyped", cN(uint64(t)), cList(elems))
	}
	list := func(l []interface{}) string {
		items := make([]string, len(l))
		for i, x := range l {
			items[i] = c06CoqVal(x)
		}
		return cList(items)
	}
	switch x := v.(type) {
	case bool:
		return cApp("UBool", cBool(x))
	case int64:
		return cApp("UInt", cZ(x))
	case uint64:
		return cApp("UUint", cN(x))
	case *big.Int:
		if x == nil {
			return optBig("UBigInt", true, "")
		}
		return optBig("UBigInt", false, cBigZ(x))
	case float64:
		return cApp("UFloat", cN(math.Float64bits(x)))
	case *big.Float:
		if x == nil {
			return optBig("UBigFloat", true, "")
		}
		return optBig("UBigFloat", false, cBigFloat(x))
	case compact_float.DFloat:
		return cApp("UDec", cDFloat(x))
	case *apd.Decimal:
		if x == nil {
			return optBig("UBigDec", true, "")
		}
		return optBig("UBigDec", false, cAPD(x))
	case string:
		return cApp("UStr", cBytes([]byte(x)))
	case []byte:
		return cApp("UBytes", cBytes(x))
	case []uint16:
		e := make([]string, len(x))
		for i, y := range x {
			e[i] = c06N(uint64(y))
		}
		return typed(events.ArrayTypeUint16, e)
	case []uint32:
		e := make([]string, len(x))
		for i, y := range x {
			e[i] = c06N(uint64(y))
		}
		return typed(events.ArrayTypeUint32, e)
	case []uint64:
		e := make([]string, len(x))
		for i, y := range x {
			e[i] = c06N(y)
		}
		return typed(events.ArrayTypeUint64, e)
	case []int8:
		e := make([]string, len(x))
		for i, y := range x {
			e[i] = c06N(uint64(uint8(y)))
		}
		return typed(events.ArrayTypeInt8, e)
	case []int16:
		e := make([]string, len(x))
		for i, y := range x {
			e[i] = c06N(uint64(uint16(y)))
		}
		return typed(events.ArrayTypeInt16, e)
	case []int32:
		e := make([]string, len(x))
		for i, y := range x {
			e[i] = c06N(uint64(uint32(y)))
		}
		return typed(events.ArrayTypeInt32, e)
	case []int64:
		e := make([]string, len(x))
		for i, y := range x {
			e[i] = c06N(uint64(y))
		}
		return typed(events.ArrayTypeInt64, e)
	case []float32:
		e := make([]string, len(x))
		for i, y := range x {
			e[i] = c06N(uint64(math.Float32bits(y)))
		}
		return typed(events.ArrayTypeFloat32, e)
	case []float64:
		e := make([]string, len(x))
		for i, y := range x {
			e[i] = c06N(math.Float64bits(y))
		}
		return typed(events.ArrayTypeFloat64, e)
	case *url.URL:
		if x == nil {
			return "UNil"
		}
		return cApp("URid", "0", cBytes([]byte(x.String())))
	case types.UID:
		return cApp("UUid", cBytes(x[:]))
	case types.Media:
		return cApp("UMedia", cBytes([]byte(x.MediaType)), cBytes(x.Data))
	case time.Time:
		return cApp("UTime", "[]", cBytes([]byte(compact_time.AsCompactTime(x).String())))
	case compact_time.Time:
		return cApp("UCTime", cBytes([]byte(x.String())))
	case []interface{}:
		return cApp("UList", list(x))
	case map[interface{}]interface{}:
		items := []string{}
		for k, val := range x {
			items = append(items, cPair(c06CoqVal(k), c06CoqVal(val)))
		}
		return cApp("UMap", "0", cList(items))
	case types.Node:
		return cApp("UNode", c06CoqVal(x.Value), list(x.Children))
	case *types.Node:
		return c06CoqVal(*x)
	case types.Edge:
		return cApp("UEdge", c06CoqVal(x.Source), c06CoqVal(x.Description), c06CoqVal(x.Destination))
	case *types.Edge:
		return c06CoqVal(*x)
	}
	panic(fmt.Sprintf("c06CoqVal: unexpected type %T", v))
}

// strings the builder may hand to url.Parse / AsGoTime while consuming es
func c06LibTables(es []Ev) (urls, times string) {
	urlSeen := map[string]bool{}
	urlItems := []string{}
	addURL := func(b []byte) {
		s := string(b)
		if urlSeen[s] {
			return
		}
		urlSeen[s] = true
		u, err := url.Parse(s)
		if err != nil {
			urlItems = append(urlItems, cPair(cBytes(b), "None"))
		} else {
			urlItems = append(urlItems, cPair(cBytes(b), cSome(cBytes([]byte(u.String())))))
		}
	}
	type tm struct {
		s     string
		ok    bool
		g     time.Time
		ident string
	}
	tms := []tm{}
	timeItems := []string{}
	var chunkT events.ArrayType
	var acc []byte
	for _, e := range es {
		switch e.K {
		case "a", "sa":
			if e.A == events.ArrayTypeResourceID || e.A == events.ArrayTypeReferenceRemote {
				addURL(e.Data)
			}
		case "ab":
			chunkT, acc = e.A, []byte{}
		case "mb", "cbeg":
			chunkT = events.ArrayTypeInvalid
		case "ad":
			if chunkT == events.ArrayTypeResourceID || chunkT == events.ArrayTypeReferenceRemote {
				acc = append(acc, e.Data...)
				addURL(acc)
			}
		case "ac":
			if chunkT == events.ArrayTypeResourceID || chunkT == events.ArrayTypeReferenceRemote {
				addURL(acc)
			}
		case "tm":
			s := e.T.String()
			dup := false
			for _, t := range tms {
				if t.s == s {
					dup = true
				}
			}
			if dup {
				continue
			}
			t := e.T
			g, err := t.AsGoTime()
			cur := tm{s: s, ok: err == nil, g: g, ident: s}
			if cur.ok {
				for _, t := range tms {
					if t.ok && interface{}(t.g) == interface{}(g) {
						cur.ident = t.ident
						break
					}
				}
				timeItems = append(timeItems, cPair(cBytes([]byte(s)), cSome(cPair(cBytes([]byte(cur.ident)), cBytes([]byte(compact_time.AsCompactTime(g).String()))))))
			} else {
				timeItems = append(timeItems, cPair(cBytes([]byte(s)), "None"))
			}
			tms = append(tms, cur)
		}
	}
	return cList(urlItems), cList(timeItems)
}

// c06Direct feeds es to a fresh receiver and renders the build_case.
func c06Direct(es []Ev) (term string, human string, hang bool) {
	cfg := configuration.New()
	b := builder.NewSession(nil, cfg).NewBuilderFor(nil)
	at, _ := playAll(b, es)
	impl := ""
	iter := "None"
	if at >= 0 {
		status, _ := c06Call(func() { b.OnError() })
		if status == "hang" {
			impl, hang = cApp("IHang", cNi(at)), true
		} else {
			impl = cApp("IErr", cNi(at))
		}
		human = fmt.Sprintf("panic, OnError %s :: at %d", status, at)
	} else {
		v := b.GetBuiltObject()
		if c06Cyclic(v) {
			impl, human = "ICyclic", "cyclic value"
		} else {
			impl = cApp("IOk", c06CoqVal(v))
			human = "built"
			rec := &Recorder{}
			status, _ := c06Call(func() { iterator.NewSession(nil, cfg).NewIterator(rec).Iterate(v) })
			for try := 0; status == "hang" && try < 3; try++ {
				// the value is finite: on a busy machine the call merely missed the deadline
				rec = &Recorder{}
				status, _ = c06Call(func() { iterator.NewSession(nil, cfg).NewIterator(rec).Iterate(v) })
			}
			if status == "ok" {
				iter = cSome(cEvs(rec.Evs))
			} else {
				iter = "(Some [])" // the iterator panicked: the model must say so too
				human += ", iterator " + status
			}
		}
	}
	urls, times := c06LibTables(es)
	return cApp("BuildCase", cEvs(es), urls, times, impl, iter), human + " :: " + evsString(es), hang
}

// c06CoqTree renders a document as terms of CE.Model.Build: its record type declarations
// (list rtdecl) and its value (dt); ok=false when the stream is not a complete document tree.
func c06CoqTree(es []Ev) (rtsTerm string, tree string, ok bool) {
	body := []Ev{}
	for _, e := range es {
		if e.K != "pad" && e.K != "cm" {
			body = append(body, e)
		}
	}
	if len(body) < 4 || body[0].K != "bd" || body[1].K != "v" || body[len(body)-1].K != "ed" {
		return "", "", false
	}
	body = body[2 : len(body)-1]
	pos := 0
	ok = true
	var value func() string
	seq := func() []string {
		out := []string{}
		for ok {
			if pos >= len(body) {
				ok = false
				break
			}
			if body[pos].K == "e" {
				pos++
				break
			}
			out = append(out, value())
		}
		return out
	}
	value = func() string {
		if pos >= len(body) {
			ok = false
			return "(TLeaf ENull)"
		}
		e := body[pos]
		pos++
		switch e.K {
		case "l":
			return cApp("TList", cList(seq()))
		case "m":
			kids := seq()
			if len(kids)%2 != 0 {
				ok = false
				return "(TLeaf ENull)"
			}
			pairs := []string{}
			for i := 0; i < len(kids); i += 2 {
				pairs = append(pairs, cPair(kids[i], kids[i+1]))
			}
			return cApp("TMap", cList(pairs))
		case "node":
			kids := seq()
			if len(kids) == 0 {
				ok = false
				return "(TLeaf ENull)"
			}
			return cApp("TNode", kids[0], cList(kids[1:]))
		case "edge":
			kids := seq()
			if len(kids) != 3 {
				ok = false
				return "(TLeaf ENull)"
			}
			return cApp("TEdge", kids[0], kids[1], kids[2])
		case "rec":
			return cApp("TRecord", cBytes(e.Data), cList(seq()))
		case "mk":
			return cApp("TMark", cBytes(e.Data), value())
		case "ref":
			return cApp("TRef", cBytes(e.Data))
		case "ab", "mb", "cbeg":
			start := pos
			for pos < len(body) && (body[pos].K == "ac" || body[pos].K == "ad") {
				pos++
			}
			b := ""
			switch e.K {
			case "ab":
				b = cApp("ABArray", cN(uint64(e.A)))
			case "mb":
				b = cApp("ABMedia", cBytes([]byte(e.S)))
			default:
				b = cApp("ABCustom", cN(uint64(e.A)), cN(e.N))
			}
			return cApp("TChunked", b, cEvs(body[start:pos]))
		case "rt", "e", "bd", "ed", "v":
			ok = false
			return "(TLeaf ENull)"
		}
		return cApp("TLeaf", cEv(e))
	}
	rts := []string{}
	for pos < len(body) && body[pos].K == "rt" {
		name := body[pos].Data
		pos++
		rts = append(rts, cPair(cBytes(name), cList(seq())))
	}
	t := value()
	if pos != len(body) {
		ok = false
	}
	return cList(rts), t, ok
}

// ---------------------------------------------------------------------------
// Inputs

type c06Input struct {
	Label  string // family
	Evs    []Ev
	Oracle bool // also evaluate the property through the CBE and CTE documents
}

func c06Evs(s string) []Ev {
	es, err := parseEvs(s)
	if err != nil {
		panic(err)
	}
	return es
}

func c06WrapDoc(body ...Ev) []Ev {
	out := []Ev{{K: "bd"}, {K: "v", N: 0}}
	out = append(out, body...)
	return append(out, Ev{K: "ed"})
}

// tree generator for the fragment the untyped builder handles
type c06RecType struct {
	name  string
	arity int
}

type c06Gen struct {
	recs  []c06RecType
	r     *rand.Rand
	g     *EvGen
	ids   int
	defd  []string
	fwd   bool // also produce forward references (list / map value / node child positions)
	later []string
	// wide: lists, node children and maps that keep growing after a forward reference was stored in them
	// (lengths around the capacities a Go slice goes through: 4, 8, 16, 32, 64), several references to one
	// pending marker, and markers that complete inside the very container that holds the reference
	wide bool
}

// container lengths on both sides of every capacity a slice that starts at 4 and doubles goes through
var c06WideFans = []int{5, 5, 6, 7, 8, 9, 9, 10, 12, 15, 16, 17, 17, 20, 31, 32, 33, 40, 64, 65}

func (q *c06Gen) ts() compact_time.Time {
	r := q.r
	var tz compact_time.Timezone
	switch r.Intn(3) {
	case 0:
		tz = compact_time.TZAtUTC()
	case 1:
		tz = compact_time.TZAtAreaLocation([]string{"Europe/Berlin", "Asia/Tokyo", "America/Vancouver", "E/Paris"}[r.Intn(4)])
	default:
		tz = compact_time.TZAtLatLong(r.Intn(18001)-9000, r.Intn(36001)-18000)
	}
	year := 1 + r.Intn(3000)
	return compact_time.NewTimestamp(year, 1+r.Intn(12), 1+r.Intn(28), r.Intn(24), r.Intn(60), r.Intn(60), []int{0, 1, 999999999, r.Intn(1000000000)}[r.Intn(4)], tz)
}

func (q *c06Gen) ascii() []byte {
	const chars = "abcdefghijklmnopqrstuvwxyzABCDEFGHIJKLMNOPQRSTUVWXYZ0123456789_-."
	b := make([]byte, 1+q.r.Intn(8))
	for i := range b {
		b[i] = chars[q.r.Intn(len(chars))]
	}
	return b
}

func (q *c06Gen) str(t events.ArrayType, txt []byte) []Ev {
	switch q.r.Intn(3) {
	case 0:
		return q.g.chunked(Ev{K: "ab", A: t}, t, uint64(len(txt)), txt)
	case 1:
		return []Ev{{K: "sa", A: t, Data: txt}}
	}
	return []Ev{{K: "a", A: t, N: uint64(len(txt)), Data: txt}}
}

func (q *c06Gen) key() ([]Ev, string) {
	r := q.r
	switch r.Intn(6) {
	case 0:
		b := r.Intn(2) == 0
		return []Ev{{K: "b", B: b}}, fmt.Sprint("b", b)
	case 1, 2:
		mag := q.g.magnitude()
		if mag == 0 {
			return []Ev{{K: "pi", N: 0}}, "i0"
		}
		if r.Intn(3) == 0 && mag < 1<<63 {
			return []Ev{{K: "i", I: -int64(mag)}}, fmt.Sprint("i-", mag)
		}
		return []Ev{{K: "pi", N: mag}}, fmt.Sprint("i", mag)
	case 3:
		u := make([]byte, 16)
		r.Read(u)
		return []Ev{{K: "uid", Data: u}}, "u" + string(u)
	case 4:
		t := q.ts()
		return []Ev{{K: "tm", T: t}}, "t" + t.String()
	}
	txt := q.g.text(4)
	return q.str(events.ArrayTypeString, txt), "s" + string(txt)
}

func (q *c06Gen) leaf() []Ev {
	r := q.r
	switch r.Intn(16) {
	case 0:
		return []Ev{{K: "null"}}
	case 1:
		return []Ev{[]Ev{{K: "b", B: r.Intn(2) == 0}, {K: "t"}, {K: "f"}}[r.Intn(3)]}
	case 2, 3:
		mag := q.g.magnitude()
		neg := r.Intn(3) == 0
		return []Ev{q.g.intEvent(neg, mag)}
	case 4:
		return []Ev{{K: "bi", Big: q.g.bigInt()}}
	case 5, 6:
		return []Ev{{K: "fl", F: math.Float64frombits(q.g.floatBits())}}
	case 7:
		return []Ev{{K: "df", DF: q.g.dfloat()}}
	case 8:
		if r.Intn(2) == 0 {
			return []Ev{{K: "bf", BF: q.g.bigFloat()}}
		}
		return []Ev{{K: "bdf", BDF: q.g.apd()}}
	case 9:
		return []Ev{{K: "nan", B: r.Intn(2) == 0}}
	case 10:
		u := make([]byte, 16)
		r.Read(u)
		return []Ev{{K: "uid", Data: u}}
	case 11:
		return []Ev{{K: "tm", T: q.ts()}}
	case 12:
		return q.str(events.ArrayTypeString, q.g.text(6))
	case 13:
		return q.str(events.ArrayTypeResourceID, append([]byte("https://e.x/"), q.ascii()...))
	case 14:
		ts := []events.ArrayType{events.ArrayTypeUint8, events.ArrayTypeUint16, events.ArrayTypeUint32, events.ArrayTypeUint64,
			events.ArrayTypeInt8, events.ArrayTypeInt16, events.ArrayTypeInt32, events.ArrayTypeInt64, events.ArrayTypeFloat64}
		t := ts[r.Intn(len(ts))]
		n := uint64(r.Intn(16))
		if r.Intn(4) == 0 {
			n = uint64(16 + r.Intn(30)) // the CBE decoder delivers these in chunks
		}
		data := make([]byte, byteCountFor(t, n))
		r.Read(data)
		if r.Intn(2) == 0 {
			return q.g.chunked(Ev{K: "ab", A: t}, t, n, data)
		}
		return []Ev{{K: "a", A: t, N: n, Data: data}}
	}
	data := make([]byte, r.Intn(20))
	r.Read(data)
	mt := []string{"a/b", "text/plain", "image/png"}[r.Intn(3)]
	if r.Intn(2) == 0 {
		return q.g.chunked(Ev{K: "mb", S: mt}, events.ArrayTypeMedia, uint64(len(data)), data)
	}
	return []Ev{{K: "media", S: mt, Data: data}}
}

// value: pos is "elem" (list element / node child / map value), "nodevalue", "key" or "top"
func (q *c06Gen) value(depth int, pos string, inMarked bool) []Ev {
	r := q.r
	out := []Ev{}
	refOdds := 8
	if q.wide {
		refOdds = 5
	}
	if pos != "top" && pos != "key" && r.Intn(refOdds) == 0 {
		if len(q.defd) > 0 && (!q.fwd || r.Intn(2) == 0) {
			return []Ev{{K: "ref", Data: []byte(q.defd[r.Intn(len(q.defd))])}}
		}
		if q.fwd && pos == "elem" {
			if q.wide && len(q.later) > 0 && r.Intn(3) == 0 {
				// one more reference to a marker that is still to come
				return []Ev{{K: "ref", Data: []byte(q.later[r.Intn(len(q.later))])}}
			}
			q.ids++
			id := fmt.Sprintf("f%d", q.ids)
			q.later = append(q.later, id)
			return []Ev{{K: "ref", Data: []byte(id)}}
		}
	}
	container := depth < 4 && r.Intn(3) == 0
	marked := ""
	if !inMarked && r.Intn(8) == 0 && (container || pos != "nodevalue") {
		q.ids++
		marked = fmt.Sprintf("m%d", q.ids)
		out = append(out, Ev{K: "mk", Data: []byte(marked)})
	}
	inMarked = inMarked || marked != ""
	if !container {
		out = append(out, q.leaf()...)
	} else {
		fan := r.Intn(5)
		kind := r.Intn(3)
		if len(q.recs) > 0 && r.Intn(4) == 0 {
			kind = 3
		}
		if q.wide && kind != 3 && depth <= 1 && r.Intn(2) == 0 {
			// a long container of (mostly) leaves
			fan = c06WideFans[r.Intn(len(c06WideFans))]
			depth += 2
		}
		switch kind {
		case 3:
			rt := q.recs[r.Intn(len(q.recs))]
			out = append(out, Ev{K: "rec", Data: []byte(rt.name)})
			for i := 0; i < rt.arity; i++ {
				out = q.g.trivia(out)
				out = append(out, q.value(depth+1, "elem", inMarked)...)
			}
			out = append(out, Ev{K: "e"})
		case 0:
			out = append(out, Ev{K: "l"})
			for i := 0; i < fan; i++ {
				out = q.g.trivia(out)
				out = append(out, q.value(depth+1, "elem", inMarked)...)
			}
			out = append(out, Ev{K: "e"})
		case 1:
			out = append(out, Ev{K: "m"})
			seen := map[string]bool{}
			for i := 0; i < fan; i++ {
				k, canon := q.key()
				if seen[canon] {
					continue
				}
				seen[canon] = true
				if !inMarked && r.Intn(10) == 0 {
					q.ids++
					id := fmt.Sprintf("k%d", q.ids)
					out = append(out, Ev{K: "mk", Data: []byte(id)})
				}
				out = append(out, k...)
				out = q.g.trivia(out)
				out = append(out, q.value(depth+1, "elem", inMarked)...)
			}
			out = append(out, Ev{K: "e"})
		default:
			out = append(out, Ev{K: "node"})
			out = append(out, q.value(depth+1, "nodevalue", inMarked)...)
			for i := 0; i < fan; i++ {
				out = append(out, q.value(depth+1, "elem", inMarked)...)
			}
			out = append(out, Ev{K: "e"})
		}
	}
	if marked != "" {
		q.defd = append(q.defd, marked)
	}
	return out
}

// recordTypes: declarations whose keys are booleans, 64-bit integers, UIDs and strings
func (q *c06Gen) recordTypes() []Ev {
	out := []Ev{}
	q.recs = nil
	names := map[string]bool{}
	for n := q.r.Intn(3); n > 0; n-- {
		name := string(q.ascii())
		if names[name] {
			continue
		}
		names[name] = true
		out = append(out, Ev{K: "rt", Data: []byte(name)})
		seen := map[string]bool{}
		arity := 0
		for j := q.r.Intn(4); j > 0; j-- {
			k, canon := q.key()
			if seen[canon] || k[0].K == "tm" {
				continue
			}
			seen[canon] = true
			out = append(out, k...)
			arity++
		}
		out = append(out, Ev{K: "e"})
		q.recs = append(q.recs, c06RecType{name, arity})
	}
	return out
}

func (q *c06Gen) document() []Ev {
	q.ids, q.defd, q.later = 0, nil, nil
	decls := q.recordTypes()
	body := q.value(0, "top", false)
	if len(q.later) > 0 {
		// give the forward references their targets: wrap everything in a list that ends with the marked values
		wrapped := []Ev{{K: "l"}}
		wrapped = append(wrapped, body...)
		if q.wide && body[0].K == "l" && q.r.Intn(2) == 0 {
			// ... or let the top-level list itself end with them: its own forward references are then
			// completed while it is still being filled
			wrapped = append([]Ev{}, body[:len(body)-1]...)
		}
		for _, id := range q.later {
			wrapped = append(wrapped, Ev{K: "mk", Data: []byte(id)})
			switch q.r.Intn(2) {
			case 0:
				wrapped = append(wrapped, q.leaf()...)
			default:
				if q.wide && q.r.Intn(3) == 0 {
					wrapped = append(wrapped, Ev{K: "m"}, Ev{K: "pi", N: uint64(q.r.Intn(9))}, Ev{K: "t"}, Ev{K: "e"})
				} else {
					wrapped = append(wrapped, Ev{K: "l"}, Ev{K: "pi", N: uint64(q.r.Intn(9))}, Ev{K: "e"})
				}
			}
			if q.wide && q.r.Intn(4) == 0 {
				wrapped = append(wrapped, Ev{K: "ref", Data: []byte(id)}) // and a backward reference to it
			}
		}
		body = append(wrapped, Ev{K: "e"})
	}
	body = append(decls, body...)
	return c06WrapDoc(body...)
}

func c06Directed() []c06Input {
	in := []c06Input{}
	add := func(label, s string) {
		in = append(in, c06Input{Label: "directed/" + label, Evs: c06Evs("bd v:0 " + s + " ed"), Oracle: true})
	}
	// the fragment that works
	add("ok/scalars", "l null b:true t f pi:0 pi:18446744073709551615 i:-9223372036854775808 ni:1 ni:9223372036854775807 bi:-340282366920938463463374607431768211456 fl:3ff8000000000000 fl:8000000000000000 nan:true nan:false df:15:-1 uid:000102030405060708090a0b0c0d0e0f e")
	add("ok/strings", "l sa:1:68c3a9 a:1:2:6869 sa:2:687474703a2f2f782e792f7a a:7:3:010203 ab:1 ac:2:true ad:68 ad:69 ac:0:false media:612f62:0102 mb:612f62 ac:2:false ad:0102 e")
	add("ok/arrays", "l a:8:2:01000200 a:9:1:01000000 a:10:1:0100000000000000 a:11:2:ff01 a:12:1:feff a:13:1:feffffff a:14:1:feffffffffffffff a:16:1:0000c03f a:17:1:000000000000f83f a:8:0: e")
	add("ok/containers", "m sa:1:61 l pi:1 l e m e e pi:2 node sa:1:76 pi:1 node null e e t m i:-1 null e e")
	add("ok/markers", "l mk:61 pi:5 ref:61 mk:62 l pi:1 pi:2 e ref:62 m sa:1:78 mk:63 sa:1:79 sa:1:7a ref:63 e node ref:61 ref:62 mk:64 m e ref:64 e e")
	add("ok/forward-refs", "l ref:61 m pi:1 ref:61 e node pi:0 ref:61 e mk:61 l pi:7 e e")
	add("ok/marked-top", "mk:61 m sa:1:6b pi:1 e")
	add("ok/marked-key", "m mk:61 sa:1:6b pi:1 sa:1:7a ref:61 e")
	add("ok/marker-on-node-value-container", "node mk:61 l pi:1 e pi:2 ref:61 e")
	// defect classes (the ones labelled ok/repaired-* were violations until the /repo commits f77250c, c328897,
	// 2e3a258 and 7dbd995; they stay here as pinned witnesses)
	add("edge", "edge pi:1 pi:2 pi:3 e")
	add("edge-in-list", "l edge pi:1 pi:2 pi:3 e pi:4 e")
	add("edge-in-map", "m pi:1 edge pi:1 pi:2 pi:3 e pi:2 pi:3 e")
	add("edge-in-node", "node edge pi:1 pi:2 pi:3 e pi:4 e")
	add("edge-last-in-list", "l pi:0 edge sa:1:61 null l pi:1 e e e")
	add("reference-in-edge", "l mk:61 pi:1 edge pi:1 pi:2 ref:61 e e")
	add("reference-in-edge-source", "l mk:61 pi:1 edge ref:61 pi:2 pi:3 e e")
	add("marker-on-edge-destination", "l edge pi:1 pi:2 mk:61 pi:3 e e")
	add("marker-on-edge-source", "l edge mk:61 pi:1 pi:2 pi:3 e e")
	add("marker-on-node-value", "node mk:61 pi:1 pi:2 e")
	add("marker-on-node-value-then-ref", "node mk:61 pi:1 ref:61 pi:2 e")
	add("marker-on-node-value-in-list", "l node mk:61 sa:1:76 e e")
	add("reference-as-map-key", "m mk:61 sa:1:6b pi:1 ref:61 pi:2 e")
	add("reference-as-first-map-key", "l mk:61 sa:1:6b m ref:61 pi:2 e e")
	add("forward-reference-as-map-key", "m sa:1:6b pi:1 ref:61 pi:2 sa:1:7a mk:61 pi:3 e")
	add("forward-reference-in-node-value", "l node ref:61 pi:1 e mk:61 pi:7 e")
	add("forward-reference-in-node-value-marked", "l mk:62 node ref:61 pi:1 e mk:61 pi:7 ref:62 e")
	add("self-reference", "l mk:61 l ref:61 e e")
	add("self-reference-map", "mk:61 m pi:1 ref:61 e")
	add("ok/repaired-record", "rt:78 sa:1:61 sa:1:62 e rec:78 pi:1 pi:2 e")
	add("ok/repaired-record-int-keys", "rt:78 pi:1 pi:2 e rec:78 pi:5 pi:6 e")
	add("ok/repaired-record-two-types", "rt:78 sa:1:61 sa:1:62 e rt:79 sa:1:63 e l rec:78 pi:1 pi:2 e rec:79 pi:3 e e")
	add("ok/repaired-record-two-types-int-keys", "rt:78 pi:1 pi:2 e rt:79 pi:3 e l rec:78 pi:5 pi:6 e rec:79 pi:7 e e")
	add("ok/repaired-record-three-types", "rt:78 pi:1 pi:2 pi:3 e rt:79 pi:4 pi:5 e rt:7a pi:6 e l rec:78 t t t e rec:79 f f e rec:7a null e e")
	add("ok/repaired-record-empty", "rt:78 e l rec:78 e e")
	add("ok/repaired-record-marked", "rt:78 pi:1 e l mk:61 rec:78 l e e ref:61 e")
	add("ok/repaired-record-with-ref", "rt:78 pi:1 pi:2 e l mk:61 pi:9 rec:78 ref:61 mk:62 pi:8 e ref:62 e")
	add("bit-array", "l a:6:3:05 e")
	add("bit-array-empty", "a:6:0:")
	add("uid-array", "l a:18:1:000102030405060708090a0b0c0d0e0f e")
	add("remote-reference", "l a:3:10:687474703a2f2f782e792f7a e")
	add("remote-reference-stringlike", "l sa:3:687474703a2f2f782e792f7a e")
	add("custom-binary", "l cb:1:0102 e")
	add("custom-text", "l ct:1:6162 e")
	add("custom-chunked", "l cbeg:5:7 ac:1:false ad:01 e")
	add("resource-id-not-a-go-url", "l sa:2:25 e")
	add("resource-id-no-scheme", "l sa:2:3a666f6f e")
	add("resource-id-rewritten", "l sa:2:687474703a2f2f782e792f61207a e")
	add("resource-id-key", "m sa:2:687474703a2f2f782e792f7a pi:1 e")
	add("ok/repaired-negative-zero", "l ni:0 e")
	add("negative-zero-key", "m ni:0 pi:1 pi:0 pi:2 e")
	add("ok/repaired-negint-beyond-int64", "l ni:9223372036854775808 ni:18446744073709551615 e")
	add("float16-array", "l a:15:1:c03f e")
	add("float32-array-snan", "l a:16:1:0100a07f e")
	add("ok/repaired-long-array-u16", "l a:8:16:0100020003000400050006000700080009000a000b000c000d000e000f001000 e")
	add("ok/repaired-long-array-f64", "a:17:16:"+strings.Repeat("000000000000f03f", 16))
	add("ok/repaired-long-array-u8", "a:7:20:"+strings.Repeat("07", 20))
	add("ok/repaired-chunked-u16", "l ab:8 ac:2:false ad:01000200 pi:9 e")
	add("ok/repaired-chunked-u16-bytewise", "l ab:8 ac:1:false ad:01 ad:00 pi:9 e")
	add("ok/repaired-chunked-u32-two-chunks", "l ab:9 ac:1:true ad:01000000 ac:1:false ad:02000000 e")
	add("empty-media-type", "l media::01 e")
	add("null-top", "null")
	add("empty-containers", "l l e m e node null e e")
	add("big-numbers", "l bi:18446744073709551616 bi:-18446744073709551616 df:9223372036854775807:-3 df:-1:5000 e")
	for _, e := range in {
		_ = e
	}
	// times need constructed events
	tms := []struct {
		label string
		t     compact_time.Time
	}{
		{"date", compact_time.NewDate(2000, 1, 1)},
		{"time-of-day", compact_time.NewTime(10, 11, 12, 0, compact_time.TZAtUTC())},
		{"time-of-day-area", compact_time.NewTime(10, 11, 12, 5, compact_time.TZAtAreaLocation("Europe/Berlin"))},
		{"timestamp-utc", compact_time.NewTimestamp(2000, 1, 1, 10, 11, 12, 0, compact_time.TZAtUTC())},
		{"timestamp-area", compact_time.NewTimestamp(2000, 1, 1, 10, 11, 12, 999999999, compact_time.TZAtAreaLocation("E/Paris"))},
		{"timestamp-area-unknown", compact_time.NewTimestamp(2000, 1, 1, 10, 11, 12, 0, compact_time.TZAtAreaLocation("Mars/Olympus"))},
		{"timestamp-local", compact_time.NewTimestamp(2000, 1, 1, 10, 11, 12, 0, compact_time.TZLocal())},
		{"timestamp-latlong", compact_time.NewTimestamp(2000, 1, 1, 10, 11, 12, 0, compact_time.TZAtLatLong(1234, 5678))},
		{"timestamp-utc-offset", compact_time.NewTimestamp(2000, 1, 1, 10, 11, 12, 0, compact_time.TZWithMiutesOffsetFromUTC(90))},
		{"timestamp-year-far", compact_time.NewTimestamp(-50000, 1, 1, 10, 11, 12, 0, compact_time.TZAtUTC())},
	}
	for _, x := range tms {
		in = append(in, c06Input{Label: "directed/" + x.label, Evs: c06WrapDoc(Ev{K: "l"}, Ev{K: "tm", T: x.t}, Ev{K: "e"}), Oracle: true})
		in = append(in, c06Input{Label: "directed/" + x.label + "-key", Evs: c06WrapDoc(Ev{K: "m"}, Ev{K: "tm", T: x.t}, Ev{K: "pi", N: 1}, Ev{K: "e"}), Oracle: true})
	}
	in = append(in, c06Input{Label: "directed/date-and-midnight-keys", Oracle: true, Evs: c06WrapDoc(Ev{K: "m"},
		Ev{K: "tm", T: compact_time.NewDate(2000, 1, 1)}, Ev{K: "pi", N: 1},
		Ev{K: "tm", T: compact_time.NewTimestamp(2000, 1, 1, 0, 0, 0, 0, compact_time.TZAtUTC())}, Ev{K: "pi", N: 2}, Ev{K: "e"})})
	return in
}

// c06GrowthInputs: a forward reference is stored in a container (list, node children, map value, record
// field), the container then receives `post` more elements, and only then the marker completes, either
// inside the same container or after it in the enclosing list. The builder keeps the slot of the reference
// until then; `pre` and `post` put the length of the container on both sides of every capacity a slice goes
// through (4, 8, 16, 32, 64), so the slot must survive each reallocation. Variants rotate the marked value
// (string, list, map, integer), a second pending reference to the same marker in the middle of the growth,
// and a backward reference after the marker.
func c06GrowthInputs() []c06Input {
	in := []c06Input{}
	id := []byte("a")
	ref := Ev{K: "ref", Data: id}
	target := func(v int) []Ev {
		switch v % 4 {
		case 0:
			return []Ev{{K: "sa", A: events.ArrayTypeString, Data: []byte("x")}}
		case 1:
			return []Ev{{K: "l"}, {K: "pi", N: 1}, {K: "pi", N: 2}, {K: "e"}}
		case 2:
			return []Ev{{K: "m"}, {K: "pi", N: 1}, {K: "t"}, {K: "e"}}
		}
		return []Ev{{K: "i", I: -7}}
	}
	posts := []int{0, 1, 2, 3, 4, 5, 7, 8, 9, 15, 16, 17, 31, 32, 33, 63, 64, 65}
	n := 0
	for _, kind := range []string{"list", "node"} {
		for _, pre := range []int{0, 3} {
			for _, post := range posts {
				for _, same := range []bool{true, false} {
					n++
					body := []Ev{{K: "l"}}
					if kind == "list" {
						body = append(body, Ev{K: "l"})
					} else {
						body = append(body, Ev{K: "node"}, Ev{K: "sa", A: events.ArrayTypeString, Data: []byte("v")})
					}
					for i := 0; i < pre; i++ {
						body = append(body, Ev{K: "pi", N: uint64(i)})
					}
					body = append(body, ref)
					second := n%3 == 0 && post > 1
					for i := 0; i < post; i++ {
						if second && i == post/2 {
							body = append(body, ref)
						} else {
							body = append(body, Ev{K: "pi", N: uint64(100 + i)})
						}
					}
					marked := append([]Ev{{K: "mk", Data: id}}, target(n)...)
					if n%5 == 0 {
						marked = append(marked, ref)
					}
					where := "after"
					if same {
						where = "same"
						body = append(body, marked...)
						body = append(body, Ev{K: "e"})
					} else {
						body = append(body, Ev{K: "e"})
						body = append(body, marked...)
					}
					body = append(body, Ev{K: "e"})
					in = append(in, c06Input{Label: fmt.Sprintf("directed/forward-ref-growth/%s-pre%d-post%d-%s", kind, pre, post, where),
						Evs: c06WrapDoc(body...), Oracle: true})
				}
			}
		}
	}
	// the reference two lists deep, the inner lists finished long before the marker
	for _, post := range []int{4, 8, 16, 32} {
		body := []Ev{{K: "l"}, {K: "l"}, {K: "l"}, ref}
		for i := 0; i < post; i++ {
			body = append(body, Ev{K: "pi", N: uint64(i)})
		}
		body = append(body, Ev{K: "e"}, Ev{K: "e"})
		for i := 0; i < post; i++ {
			body = append(body, Ev{K: "t"})
		}
		body = append(body, Ev{K: "mk", Data: id})
		body = append(body, target(post/4)...)
		body = append(body, Ev{K: "e"})
		in = append(in, c06Input{Label: fmt.Sprintf("directed/forward-ref-growth/nested-post%d", post), Evs: c06WrapDoc(body...), Oracle: true})
	}
	// several pending markers in one growing list, completed in the opposite order
	for _, post := range []int{2, 4, 8, 16} {
		ids := [][]byte{[]byte("a"), []byte("b"), []byte("c")}
		body := []Ev{{K: "l"}}
		for _, x := range ids {
			body = append(body, Ev{K: "ref", Data: x})
			for i := 0; i < post; i++ {
				body = append(body, Ev{K: "pi", N: uint64(i)})
			}
		}
		for k := len(ids) - 1; k >= 0; k-- {
			body = append(body, Ev{K: "mk", Data: ids[k]})
			body = append(body, target(k)...)
		}
		body = append(body, Ev{K: "e"})
		in = append(in, c06Input{Label: fmt.Sprintf("directed/forward-ref-growth/three-markers-post%d", post), Evs: c06WrapDoc(body...), Oracle: true})
	}
	// map values: the map grows (and rehashes) between the reference and the marker
	for _, post := range []int{0, 1, 7, 8, 9, 16, 40} {
		for _, same := range []bool{true, false} {
			n++
			body := []Ev{{K: "l"}, {K: "m"}, {K: "sa", A: events.ArrayTypeString, Data: []byte("r")}, ref}
			for i := 0; i < post; i++ {
				body = append(body, Ev{K: "pi", N: uint64(i)}, Ev{K: "pi", N: uint64(100 + i)})
			}
			marked := append([]Ev{{K: "mk", Data: id}}, target(n)...)
			where := "after"
			if same {
				where = "same"
				body = append(body, Ev{K: "sa", A: events.ArrayTypeString, Data: []byte("t")})
				body = append(body, marked...)
				body = append(body, Ev{K: "e"})
			} else {
				body = append(body, Ev{K: "e"})
				body = append(body, marked...)
			}
			body = append(body, Ev{K: "e"})
			in = append(in, c06Input{Label: fmt.Sprintf("directed/forward-ref-growth/map-post%d-%s", post, where), Evs: c06WrapDoc(body...), Oracle: true})
		}
	}
	// record fields
	for _, arity := range []int{1, 2, 5, 9, 17} {
		n++
		body := []Ev{{K: "rt", Data: []byte("x")}}
		for i := 0; i < arity; i++ {
			body = append(body, Ev{K: "pi", N: uint64(i)})
		}
		body = append(body, Ev{K: "e"}, Ev{K: "l"}, Ev{K: "rec", Data: []byte("x")}, ref)
		for i := 1; i < arity; i++ {
			body = append(body, Ev{K: "pi", N: uint64(100 + i)})
		}
		body = append(body, Ev{K: "e"}, Ev{K: "mk", Data: id})
		body = append(body, target(n)...)
		body = append(body, Ev{K: "e"})
		in = append(in, c06Input{Label: fmt.Sprintf("directed/forward-ref-growth/record-arity%d", arity), Evs: c06WrapDoc(body...), Oracle: true})
	}
	return in
}

func c06FullOpts() GenOpts { return DefaultGenOpts() }

// c06Inputs: the deterministic input list of a run (same in the parent and in the workers).
func c06Inputs(tier string, seed int64) []c06Input {
	r := rand.New(rand.NewSource(seed))
	pick := func(q, t int) int {
		if tier == "thorough" {
			return t
		}
		return q
	}
	in := c06Directed()
	// the fragment the partial theorem is about (no failure expected), without and with forward references
	g := NewEvGen(r, DefaultGenOpts())
	q := &c06Gen{r: r, g: g}
	for i := 0; i < pick(300, 6000); i++ {
		q.fwd = i%4 == 3
		label := "fragment"
		if q.fwd {
			label = "fragment-forward-refs"
		}
		in = append(in, c06Input{Label: label, Evs: q.document(), Oracle: true})
	}
	// everything the validator accepts
	full := NewEvGen(r, c06FullOpts())
	for i := 0; i < pick(150, 4000); i++ {
		in = append(in, c06Input{Label: "all-constructs", Evs: full.Document(), Oracle: true})
	}
	// nested markers are accepted by the validator as well
	o := c06FullOpts()
	o.NestedMarkers = true
	nested := NewEvGen(r, o)
	for i := 0; i < pick(30, 800); i++ {
		in = append(in, c06Input{Label: "all-constructs-nested-markers", Evs: nested.Document(), Oracle: true})
	}
	// malformed streams: only the prefix the validator lets through reaches the builder (correspondence only)
	for i := 0; i < pick(100, 2500); i++ {
		var base []Ev
		if i%2 == 0 {
			base = q.document()
		} else {
			base = full.Document()
		}
		in = append(in, c06Input{Label: "malformed", Evs: full.Mutate(base)})
	}
	// forward references whose container keeps growing until the marker completes: every combination of
	// container kind, position and growth across the slice capacities, then generated trees of the same kind
	in = append(in, c06GrowthInputs()...)
	q.fwd, q.wide = true, true
	for i := 0; i < pick(120, 3000); i++ {
		in = append(in, c06Input{Label: "fragment-forward-refs-wide", Evs: q.document(), Oracle: true})
	}
	q.wide = false
	return in
}

// ---------------------------------------------------------------------------
// Worker

type c06Fail struct {
	Kind, Key, Expect, Got string
	Input                  map[string]string
}

type c06Result struct {
	Idx      int
	Term     string
	Human    string
	FragTerm string // frag_case for inputs of the fragment families
	Fails    []c06Fail
	Dist     []string
	CountKey string
	NonTriv  bool
	Sample   map[string]string
	Restart  bool // a call hung: the worker exits after this result
}

func c06Features(es []Ev) []string {
	has := map[string]bool{}
	for _, e := range es {
		switch e.K {
		case "l", "m", "node", "edge", "rec", "rt", "mk", "ref", "tm", "media", "cb", "ct", "ab", "mb", "cbeg", "uid", "bi", "bf", "bdf", "df", "nan", "cm":
			has[e.K] = true
		case "a", "sa":
			has["array:"+strings.ToLower(e.A.String())] = true
		}
	}
	out := []string{}
	for k := range has {
		out = append(out, k)
	}
	sort.Strings(out)
	return out
}

func c06Process(idx int, in c06Input) c06Result {
	res := c06Result{Idx: idx, CountKey: evsString(in.Evs)}
	rej, fwd, _ := runRules(defaultRulesCfg(), in.Evs)
	valid := rej < 0 && len(fwd) > 0 && fwd[len(fwd)-1].K == "ed"
	res.Dist = append(res.Dist, "input/"+in.Label, fmt.Sprintf("input/validator-accepts=%v", valid))
	for _, f := range c06Features(in.Evs) {
		res.Dist = append(res.Dist, "construct/"+f)
	}
	res.NonTriv = len(in.Evs) > 3
	if strings.HasPrefix(in.Label, "fragment") || strings.HasPrefix(in.Label, "directed/ok/") {
		// backward references only: the partial theorem's fragment
		if rts, t, ok := c06CoqTree(in.Evs); ok && !strings.HasPrefix(in.Label, "fragment-forward-refs") && in.Label != "directed/ok/forward-refs" {
			urls, times := c06LibTables(in.Evs)
			res.FragTerm = cApp("FragCase", cEvs(in.Evs), rts, t, urls, times, cBool(valid))
		}
	}
	chunkedKey := false // record type keys are copied by the builder since /repo 7dbd995
	// the three risky computations (builder fed directly, CBE document, CTE document) run side by side:
	// a hang costs one timeout instead of three
	type oracleOut struct {
		format  string
		doc     []byte
		encoded bool
		v       c06Verdict
	}
	directCh := make(chan [3]interface{}, 1)
	if chunkedKey {
		res.Dist = append(res.Dist, "correspondence/skipped-chunked-record-type-key")
		directCh <- [3]interface{}{"", "", false}
	} else {
		go func() {
			term, human, hang := c06Direct(fwd)
			directCh <- [3]interface{}{term, human, hang}
		}()
	}
	oracleCh := make(chan oracleOut, 2)
	formats := []string{}
	if in.Oracle && valid {
		formats = []string{"cbe", "cte"}
	}
	for _, format := range formats {
		go func(format string) {
			doc, ok := c06Encode(format, in.Evs)
			o := oracleOut{format: format, doc: doc, encoded: ok}
			if ok {
				o.v = c06OracleDoc(format, doc)
			}
			oracleCh <- o
		}(format)
	}
	d := <-directCh
	if term := d[0].(string); term != "" {
		human := d[1].(string)
		res.Term, res.Human = term, in.Label+" :: "+human
		res.Restart = res.Restart || d[2].(bool)
		res.Dist = append(res.Dist, "direct/"+strings.SplitN(human, " ::", 2)[0])
	}
	outs := map[string]oracleOut{}
	for range formats {
		o := <-oracleCh
		outs[o.format] = o
	}
	for _, format := range formats {
		o := outs[format]
		if !o.encoded {
			res.Dist = append(res.Dist, "oracle/"+format+"/not-encodable")
			continue
		}
		v := o.v
		res.Dist = append(res.Dist, "oracle/"+format+"/"+strings.SplitN(v.Stage, ":", 2)[0])
		res.Restart = res.Restart || v.Hang
		if v.Applies && !v.OK {
			res.Fails = append(res.Fails, c06Fail{Kind: "document", Key: v.Key, Expect: v.Expect, Got: v.Got,
				Input: map[string]string{"format": format, "doc_hex": hex.EncodeToString(o.doc), "family": in.Label, "events": c06Clip(evsString(in.Evs))}})
		}
		if v.Applies && res.Sample == nil && len(in.Evs) > 8 && len(in.Evs) < 40 {
			res.Sample = map[string]string{"family": in.Label, "format": format, "doc_hex": hex.EncodeToString(o.doc), "verdict": v.Stage}
		}
	}
	return res
}

func c06Worker(tier, seedS, startS string) {
	seed, _ := strconv.ParseInt(seedS, 10, 64)
	start, _ := strconv.Atoi(startS)
	inputs := c06Inputs(tier, seed)
	// first use of the CTE parser and of the builder / iterator caches is slow: do it before anything is timed
	for _, format := range []string{"cbe", "cte"} {
		if doc, ok := c06Encode(format, c06Evs("bd v:0 l pi:1 sa:1:61 m t null e node pi:1 e e ed")); ok {
			c06OracleDoc(format, doc)
		}
	}
	w := bufio.NewWriterSize(os.Stdout, 1<<20)
	enc := json.NewEncoder(w)
	for i := start; i < len(inputs); i++ {
		fmt.Fprintf(w, "BEGIN %d\n", i)
		w.Flush()
		res := c06Process(i, inputs[i])
		enc.Encode(&res)
		w.Flush()
		if res.Restart {
			return // hung goroutines keep spinning: start afresh
		}
	}
}

// ---------------------------------------------------------------------------

func runC06(c *Ctx) {
	c.Rep.Rule = "inputs: directed streams (one per construct and per known defect class), generated trees of the fragment the builder handles (scalars, strings, numeric arrays, lists, maps, nodes, markers, backward and forward references, timestamps), forward references in lists / node children / maps / records that grow by 0..65 elements (across the slice capacities 4, 8, 16, 32, 64) before the marker completes inside or after them (every combination, then generated trees with such long containers), NewEvGen streams with every option, mutated streams (only for the correspondence); each rules-valid stream is encoded as CBE and as CTE and the property is evaluated on both documents; a case is non-trivial when it has a value; distinct = distinct event streams"
	inputs := c06Inputs(c.Tier, c.Seed)
	// keep c.Rng in step for anything that follows
	_ = c.Rng.Int63()
	cf := c.Cases("build", "CE.Model.Build", "build_case", "build_case_ok")
	cf.perFile = 120
	ff := c.Cases("frag", "CE.Model.Build", "frag_case", "frag_case_ok")
	ff.perFile = 120
	next := 0
	apply := func(r *c06Result) {
		c.Count(r.CountKey, r.NonTriv)
		for _, d := range r.Dist {
			c.Dist(d)
		}
		if r.Term != "" {
			cf.Add(r.Term, r.Human)
		}
		if r.FragTerm != "" {
			ff.Add(r.FragTerm, r.Human)
		}
		for _, f := range r.Fails {
			c.Fail(Replay{Kind: f.Kind, Key: f.Key, Input: f.Input, Expect: f.Expect, Got: f.Got})
		}
		if r.Sample != nil {
			c.Sample(r.Sample)
		}
	}
	for next < len(inputs) {
		cmd := exec.Command(os.Args[0], "c06-worker", c.Tier, strconv.FormatInt(c.Seed, 10), strconv.Itoa(next))
		stdout, _ := cmd.StdoutPipe()
		cmd.Stderr = nil
		if err := cmd.Start(); err != nil {
			panic(err)
		}
		lines := make(chan string, 16)
		go func() {
			rd := bufio.NewReaderSize(stdout, 1<<22)
			for {
				line, err := rd.ReadString('\n')
				if line != "" {
					lines <- line
				}
				if err != nil {
					close(lines)
					return
				}
			}
		}()
		began := -1
	loop:
		for {
			select {
			case line, ok := <-lines:
				if !ok {
					break loop
				}
				if strings.HasPrefix(line, "BEGIN ") {
					began, _ = strconv.Atoi(strings.TrimSpace(line[6:]))
					continue
				}
				var r c06Result
				if err := json.Unmarshal([]byte(line), &r); err != nil {
					continue
				}
				apply(&r)
				next = r.Idx + 1
				began = -1
			case <-time.After(60 * time.Second):
				break loop
			}
		}
		cmd.Process.Kill()
		cmd.Wait()
		if began >= next {
			// the worker died (or stalled) inside input `began`
			in := inputs[began]
			c.Count(evsString(in.Evs), true)
			c.Dist("worker-died/" + in.Label)
			c.Fail(Replay{Kind: "events", Key: "C06/process-dies", Input: map[string]string{"family": in.Label, "events": evsString(in.Evs)},
				Expect: "the document is processed", Got: "the worker process died or stalled while processing it"})
			next = began + 1
		}
	}
	c.Rep.Extra["inputs"] = len(inputs)
}

func replayC06(r *Replay) (bool, string) {
	switch r.Kind {
	case "document":
		doc, err := hex.DecodeString(r.Input["doc_hex"])
		if err != nil {
			return false, "bad replay input"
		}
		v := c06OracleDoc(r.Input["format"], doc)
		if !v.Applies {
			return true, "the decoder with rules does not accept this document (" + v.Stage + ")"
		}
		if v.OK {
			return true, "holds (" + v.Stage + ")"
		}
		return false, fmt.Sprintf("%s: expected %s, got %s", v.Key, v.Expect, v.Got)
	case "events":
		es, err := parseEvs(r.Input["events"])
		if err != nil {
			return false, "cannot replay: " + err.Error()
		}
		ok := true
		detail := ""
		for _, format := range []string{"cbe", "cte"} {
			doc, enc := c06Encode(format, es)
			if !enc {
				continue
			}
			v := c06OracleDoc(format, doc)
			if v.Applies && !v.OK {
				ok = false
				detail += fmt.Sprintf("%s: %s expected %s got %s; ", format, v.Key, v.Expect, v.Got)
			}
		}
		return ok, detail
	}
	return false, "unknown replay kind " + r.Kind
}
