package main

import (
	"encoding/hex"
	"fmt"
	"math"
	"math/big"

	"github.com/kstenerud/go-concise-encoding/ce"
	"github.com/kstenerud/go-concise-encoding/ce/events"
	"github.com/kstenerud/go-concise-encoding/configuration"
)

func init() { register("C12", runC12, replayC12) }

type keySpelling struct {
	evs []Ev
	den string // denotation: kind + value
}

// intSpellings: every event form that can express sign*mag.
func intSpellings(neg bool, mag uint64) []keySpelling {
	den := fmt.Sprintf("int:+%d", mag)
	if neg {
		den = fmt.Sprintf("int:-%d", mag)
		if mag == 0 {
			den = "negzero"
		}
	}
	out := []keySpelling{}
	if !neg {
		out = append(out, keySpelling{[]Ev{{K: "pi", N: mag}}, den})
		if mag <= math.MaxInt64 {
			out = append(out, keySpelling{[]Ev{{K: "i", I: int64(mag)}}, den})
		}
		out = append(out, keySpelling{[]Ev{{K: "bi", Big: new(big.Int).SetUint64(mag)}}, den})
	} else {
		out = append(out, keySpelling{[]Ev{{K: "ni", N: mag}}, den})
		if mag > 0 {
			if mag <= 1<<63 {
				out = append(out, keySpelling{[]Ev{{K: "i", I: int64(-mag)}}, den})
			}
			out = append(out, keySpelling{[]Ev{{K: "bi", Big: new(big.Int).Neg(new(big.Int).SetUint64(mag))}}, den})
		}
	}
	return out
}

func (g *EvGen) stringSpellings(t events.ArrayType, kind string, txt []byte) []keySpelling {
	den := kind + ":" + string(txt)
	out := []keySpelling{
		{[]Ev{{K: "sa", A: t, Data: txt}}, den},
		{[]Ev{{K: "a", A: t, N: uint64(len(txt)), Data: txt}}, den},
		{g.chunked(Ev{K: "ab", A: t}, t, uint64(len(txt)), txt), den},
		{g.chunked(Ev{K: "ab", A: t}, t, uint64(len(txt)), txt), den},
	}
	return out
}

func (g *EvGen) keyFamily() []keySpelling {
	r := g.R
	switch r.Intn(8) {
	case 0, 1, 2:
		mag := g.magnitude()
		fam := intSpellings(false, mag)
		fam = append(fam, intSpellings(true, mag)...)
		if mag > 0 {
			fam = append(fam, intSpellings(r.Intn(2) == 0, mag-1)...)
		}
		return fam
	case 3:
		b := g.bigInt()
		nb := new(big.Int).Neg(b)
		return []keySpelling{{[]Ev{{K: "bi", Big: b}}, "int:" + b.String()}, {[]Ev{{K: "bi", Big: new(big.Int).Set(b)}}, "int:" + b.String()},
			{[]Ev{{K: "bi", Big: nb}}, "int:" + nb.String()}}
	case 4:
		txt := g.text(4)
		fam := g.stringSpellings(events.ArrayTypeString, "str", txt)
		fam = append(fam, g.stringSpellings(events.ArrayTypeResourceID, "rid", txt)...)
		fam = append(fam, g.stringSpellings(events.ArrayTypeString, "str", append(append([]byte{}, txt...), 'x'))...)
		return fam
	case 5:
		return []keySpelling{{[]Ev{{K: "b", B: true}}, "bool:true"}, {[]Ev{{K: "t"}}, "bool:true"}, {[]Ev{{K: "b", B: false}}, "bool:false"}, {[]Ev{{K: "f"}}, "bool:false"}}
	case 6:
		u := make([]byte, 16)
		r.Read(u)
		u2 := append([]byte{}, u...)
		u2[r.Intn(16)] ^= 1 << uint(r.Intn(8))
		return []keySpelling{{[]Ev{{K: "uid", Data: u}}, "uid:" + string(u)}, {[]Ev{{K: "uid", Data: append([]byte{}, u...)}}, "uid:" + string(u)}, {[]Ev{{K: "uid", Data: u2}}, "uid:" + string(u2)}}
	default:
		t := g.time()
		txt := []byte(t.String())
		fam := []keySpelling{{[]Ev{{K: "tm", T: t}}, "time:" + t.String()}, {[]Ev{{K: "tm", T: t}}, "time:" + t.String()}}
		fam = append(fam, g.stringSpellings(events.ArrayTypeString, "str", txt)[:2]...)
		fam = append(fam, g.stringSpellings(events.ArrayTypeResourceID, "rid", txt)[:1]...)
		return fam
	}
}

// c12Doc: a map (or a record type) holding the given keys; returns events and the index range of each key.
// c12Values: optional value events per key (nil = null); lets chunked arrays run between keys.
var c12Values [][]Ev

func c12Doc(keys []keySpelling, recordType bool) ([]Ev, [][2]int) {
	es := []Ev{{K: "bd"}, {K: "v"}}
	spans := [][2]int{}
	if recordType {
		es = append(es, Ev{K: "rt", Data: []byte("r")})
	} else {
		es = append(es, Ev{K: "m"})
	}
	for i, k := range keys {
		st := len(es)
		es = append(es, k.evs...)
		spans = append(spans, [2]int{st, len(es) - 1})
		if !recordType {
			if i < len(c12Values) && c12Values[i] != nil {
				es = append(es, c12Values[i]...)
			} else {
				es = append(es, Ev{K: "null"})
			}
		}
	}
	es = append(es, Ev{K: "e"})
	if recordType {
		es = append(es, Ev{K: "null"})
	}
	es = append(es, Ev{K: "ed"})
	return es, spans
}

// c12Expect: where the validator must reject: at the last event of the first key whose value was seen before; -1 = accept.
func c12Expect(keys []keySpelling, spans [][2]int) int {
	seen := map[string]bool{}
	for i, k := range keys {
		if seen[k.den] {
			return spans[i][1]
		}
		seen[k.den] = true
	}
	return -1
}

func c12Oracle(es []Ev, want int) (bool, string, string) {
	rej, _, _ := runRules(defaultRulesCfg(), es)
	return rej == want, fmt.Sprintf("rejected-at=%d", want), fmt.Sprintf("rejected-at=%d", rej)
}

// CBE spellings of one integer for crafted documents
func cbeIntSpellings(neg bool, mag uint64) [][]byte {
	out := [][]byte{}
	le := func(n int) []byte {
		b := make([]byte, n)
		for i := 0; i < n; i++ {
			b[i] = byte(mag >> (8 * uint(i)))
		}
		return b
	}
	code := func(pos byte) byte {
		if neg {
			return pos + 1
		}
		return pos
	}
	if mag <= 100 && !(neg && mag == 0) {
		v := int8(mag)
		if neg {
			v = -v
		}
		out = append(out, []byte{byte(v)})
	}
	if mag < 1<<8 {
		out = append(out, append([]byte{code(0x68)}, le(1)...))
	}
	if mag < 1<<16 {
		out = append(out, append([]byte{code(0x6a)}, le(2)...))
	}
	if mag < 1<<32 {
		out = append(out, append([]byte{code(0x6c)}, le(4)...))
	}
	out = append(out, append([]byte{code(0x6e)}, le(8)...))
	for _, n := range []int{8, 9, 12} { // variable length incl. the big-integer path with zero high bytes
		if n > 8 && neg && mag == 0 {
			continue // the decoder reads a long negative zero as the big integer 0: not the validator's concern
		}
		b := append([]byte{code(0x66), byte(n)}, le(8)...)
		for len(b) < 2+n {
			b = append(b, 0)
		}
		out = append(out, b)
	}
	return out
}

func cbeVerdict(doc []byte) bool {
	cfg := configuration.New()
	rules := ce.NewRules(&Recorder{}, cfg)
	return ce.NewCBEDecoder(cfg).DecodeDocument(doc, rules) == nil
}

func runC12(c *Ctx) {
	c.Rep.Rule = "maps and record types whose keys are drawn from one family of spellings (all event forms of an integer and of its neighbours/negation, whole and chunked strings / resource ids, both boolean forms, uids, times vs strings with the same text); expected verdict from the keys' denotations; plus crafted CBE maps using every binary encoding of one integer; non-trivial = at least two keys; distinct by event text"
	g := NewEvGen(c.Rng, DefaultGenOpts())
	n := c.Pick(500, 10000)
	for i := 0; i < n; i++ {
		fam := g.keyFamily()
		nk := 2 + c.Rng.Intn(3)
		keys := []keySpelling{}
		for j := 0; j < nk; j++ {
			keys = append(keys, fam[c.Rng.Intn(len(fam))])
		}
		recordType := c.Rng.Intn(5) == 0
		c12Values = nil
		if i%4 == 1 {
			// buffer-reuse scenario: a chunked key, then chunked arrays of the same length with other contents
			// (as further keys and as values), then the first key again in another form
			txt := g.text(5)
			if len(txt) == 0 {
				txt = []byte("k")
			}
			other := func() []byte {
				o := make([]byte, len(txt))
				for j := range o {
					o[j] = byte('a' + c.Rng.Intn(26))
				}
				return o
			}
			t := []events.ArrayType{events.ArrayTypeString, events.ArrayTypeResourceID}[c.Rng.Intn(2)]
			kind := map[events.ArrayType]string{events.ArrayTypeString: "str", events.ArrayTypeResourceID: "rid"}[t]
			sp := g.stringSpellings(t, kind, txt)
			keys = []keySpelling{sp[2]}
			for j := 0; j < 1+c.Rng.Intn(2); j++ {
				o := other()
				keys = append(keys, g.stringSpellings(t, kind, o)[2+c.Rng.Intn(2)])
			}
			keys = append(keys, sp[c.Rng.Intn(len(sp))])
			recordType = c.Rng.Intn(6) == 0
			for range keys {
				if c.Rng.Intn(2) == 0 {
					o := other()
					c12Values = append(c12Values, g.chunked(Ev{K: "ab", A: events.ArrayTypeString}, events.ArrayTypeString, uint64(len(o)), o))
				} else {
					c12Values = append(c12Values, nil)
				}
			}
		}
		es, spans := c12Doc(keys, recordType)
		want := c12Expect(keys, spans)
		ok, w, got := c12Oracle(es, want)
		c.addRulesCase(defaultRulesCfg(), es)
		c.Count(evsString(es), true)
		c.Dist(fmt.Sprintf("events/%s/dup=%v", keys[0].den[:3], want >= 0))
		if i < 3 {
			c.Sample(evsString(es))
		}
		if !ok {
			kind := "missed-duplicate"
			if want < 0 {
				kind = "false-duplicate"
			}
			c.Fail(Replay{Kind: "events", Key: fmt.Sprintf("C12/%s/%s-vs-%s", kind, keys[0].evs[0].K, keys[len(keys)-1].evs[0].K),
				Input: map[string]string{"events": evsString(es), "want": fmt.Sprint(want)}, Expect: w, Got: got})
		}
	}
	// crafted CBE: { <spelling a> null <spelling b> null }
	for i := 0; i < c.Pick(150, 3000); i++ {
		mag := g.magnitude()
		neg := c.Rng.Intn(2) == 0
		sp := cbeIntSpellings(neg, mag)
		a := sp[c.Rng.Intn(len(sp))]
		same := c.Rng.Intn(2) == 0
		var b []byte
		if same {
			b = sp[c.Rng.Intn(len(sp))]
		} else {
			other := cbeIntSpellings(!neg, mag)
			if mag == 0 || c.Rng.Intn(2) == 0 {
				other = cbeIntSpellings(neg, mag^1)
			}
			b = other[c.Rng.Intn(len(other))]
		}
		doc := append([]byte{0x81, 0x00, 0x99}, a...)
		doc = append(doc, 0x7d)
		doc = append(doc, b...)
		doc = append(doc, 0x7d, 0x9b)
		acc := cbeVerdict(doc)
		c.Count("cbe:"+hex.EncodeToString(doc), true)
		c.Dist(fmt.Sprintf("cbe/same=%v/accepted=%v", same, acc))
		if acc == same {
			kind := "missed-duplicate"
			if !same {
				kind = "false-duplicate"
			}
			c.Fail(Replay{Kind: "cbe", Key: "C12/cbe/" + kind, Input: map[string]string{"doc_hex": hex.EncodeToString(doc), "same": fmt.Sprint(same)},
				Expect: fmt.Sprintf("accepted=%v", !same), Got: fmt.Sprintf("accepted=%v", acc)})
		}
	}
}

func replayC12(r *Replay) (bool, string) {
	switch r.Kind {
	case "cbe":
		doc, _ := hex.DecodeString(r.Input["doc_hex"])
		same := r.Input["same"] == "true"
		acc := cbeVerdict(doc)
		return acc != same, fmt.Sprintf("keys denote the same value: %v; document accepted: %v", same, acc)
	case "events":
		es, err := parseEvs(r.Input["events"])
		if err != nil {
			return false, err.Error()
		}
		var want int
		fmt.Sscan(r.Input["want"], &want)
		ok, w, got := c12Oracle(es, want)
		return ok, "expected " + w + " got " + got
	}
	return false, "unknown kind"
}
