package main

import (
	"fmt"
	"math/big"
)

func init() { register("C10", runC10, nil) }

func runC10(c *Ctx) {
	c.Rep.Rule = "random rules-valid documents from the tree generator, their mutants, and all sequences over a 30-event alphabet up to a length bound (prefix-pruned); non-trivial = more than 3 events; distinct by event text"
	g := NewEvGen(c.Rng, DefaultGenOpts())
	rc := defaultRulesCfg()
	n := c.Pick(300, 5000)
	for i := 0; i < n; i++ {
		es := g.Document()
		rej, _ := c.addRulesCase(rc, es)
		c.Count(evsString(es), len(es) > 3)
		c.Dist(fmt.Sprintf("valid-gen/accepted=%v", rej < 0))
		if rej >= 0 {
			c.Fail(Replay{Kind: "valid-rejected", Key: "C10/valid-rejected", Input: map[string]string{"events": evsString(es)},
				Expect: "accepted", Got: fmt.Sprintf("rejected at %d (%s)", rej, es[rej])})
		}
		if i < 3 {
			c.Sample(evsString(es))
		}
		m := g.Mutate(es)
		rej2, _ := c.addRulesCase(rc, m)
		c.Count(evsString(m), len(m) > 3)
		c.Dist(fmt.Sprintf("mutant/accepted=%v", rej2 < 0))
	}
	// bounded-exhaustive exploration over the abstract alphabet
	alpha := rulesAlphabet()
	cf := c.exhCases(rc)
	exploreRules(c, rc, c.Pick(4, 6), c.Pick(300, 5000), 12, func(p []int, mask *big.Int, acc []int) {
		cf.Add(cPair("["+idxString(p)+"]", mask.String()), fmt.Sprintf("prefix [%s] accepts-next %v", idxString(p), acc))
		c.Rep.Evaluations += len(alpha)
		c.Rep.Distinct += len(alpha)
		c.Dist(fmt.Sprintf("exh/prefix-len=%d", len(p)))
	})
	for k, v := range g.Kinds {
		c.Rep.Distribution["kind:"+k] = v
	}
}
