package main

import (
	"fmt"
	compact_time "github.com/kstenerud/go-compact-time"
	"math/big"
	"math/rand"
	"strings"
)

func init() { register("C10", runC10, replayEvents("C10", c10Oracle)) }

// c10Oracle: the validator's verdict (index of the first rejected event) must equal the recogniser's.
func c10Oracle(es []Ev) (bool, string, string) {
	rc := defaultRulesCfg()
	rej, _, _ := runRules(rc, es)
	want, _ := wfCheck(es, rc.MaxArray, int(rc.MaxIdent))
	return rej == want, fmt.Sprintf("first-invalid=%d", want), fmt.Sprintf("rejected-at=%d", rej)
}

// c10Class: a narrow class name for a disagreement, from the event at which the two verdicts part.
func c10Class(es []Ev, rej, want int) string {
	at := rej
	kind := "accepts-invalid"
	if want < 0 || (rej >= 0 && rej < want) {
		kind = "rejects-valid"
	} else {
		at = want
	}
	ctx := ""
	depth := []string{}
	for i := 0; i < at && i < len(es); i++ {
		switch es[i].K {
		case "l", "m", "edge", "node", "rec", "rt", "mk":
			depth = append(depth, es[i].K)
		case "e":
			for len(depth) > 0 && depth[len(depth)-1] == "mk" {
				depth = depth[:len(depth)-1]
			}
			if len(depth) > 0 {
				depth = depth[:len(depth)-1]
			}
		}
	}
	if len(depth) > 0 {
		ctx = depth[len(depth)-1]
	}
	ev := "end"
	if at >= 0 && at < len(es) {
		ev = es[at].K
	}
	nested := ""
	mk := 0
	for _, d := range depth {
		if d == "mk" {
			mk++
		}
	}
	if mk >= 1 && kind == "rejects-valid" {
		nested = "/marked-container"
	}
	return fmt.Sprintf("C10/%s/%s-in-%s%s", kind, ev, ctx, nested)
}

// hasNestedMarker: does a marker occur inside a marked container before event index `upto`?
func hasNestedMarker(es []Ev, upto int) bool {
	stack := []bool{} // is the container marked (directly or through an enclosing one)?
	pending := false
	inMarked := func() bool { return len(stack) > 0 && stack[len(stack)-1] }
	for i := 0; i < upto && i < len(es); i++ {
		switch es[i].K {
		case "mk":
			if inMarked() {
				return true
			}
			pending = true
		case "l", "m", "edge", "node", "rec":
			stack = append(stack, pending || inMarked())
			pending = false
		case "rt":
			stack = append(stack, false)
		case "e":
			if len(stack) > 0 {
				stack = stack[:len(stack)-1]
			}
		case "pad", "cm", "ac", "ad":
		default:
			pending = false
		}
	}
	return false
}

func (c *Ctx) c10Judge(es []Ev, rej int) {
	rc := defaultRulesCfg()
	want, _ := wfCheck(es, rc.MaxArray, int(rc.MaxIdent))
	if rej != want {
		key := c10Class(es, rej, want)
		if relaxed, _ := wfCheckOpt(es, rc.MaxArray, int(rc.MaxIdent), true); relaxed == rej {
			key = "C10/accepts-invalid/key-reference-to-marked-float" // the only deviation is the float bit of the AllowKeyable mask
		} else if relaxed, _ := wfCheckRelaxed(es, rc.MaxArray, int(rc.MaxIdent), false, true); relaxed == rej {
			key = "C10/marker-on-chunked-key-not-registered"
		} else if wfLateUTF8(es, rej, want, rc.MaxArray, int(rc.MaxIdent)) {
			key = "C10/late-rejection/invalid-utf8-noticed-after-the-offending-data-event"
		} else if (want < 0 || rej < want) && rej >= 0 && hasNestedMarker(es, rej) {
			key = "C10/rejects-valid/marker-inside-marked-container"
		}
		c.Fail(Replay{Kind: "events", Key: key, Input: map[string]string{"events": evsString(es)},
			Expect: fmt.Sprintf("first-invalid=%d", want), Got: fmt.Sprintf("rejected-at=%d", rej)})
	}
}

func runC10(c *Ctx) {
	c.Rep.Rule = "random rules-valid documents from the tree generator, their mutants, and all sequences over a 30-event alphabet up to a length bound (prefix-pruned); non-trivial = more than 3 events; distinct by event text"
	g := NewEvGen(c.Rng, DefaultGenOpts())
	rc := defaultRulesCfg()
	n := c.Pick(300, 5000)
	for i := 0; i < n; i++ {
		es := g.Document()
		rej, _ := c.addRulesCase(rc, es)
		c.Count(evsString(es), len(es) > 3)
		c.Dist(fmt.Sprintf("valid-gen/accepted=%v", rej < 0))
		c.c10Judge(es, rej)
		if i < 3 {
			c.Sample(evsString(es))
		}
		m := g.Mutate(es)
		rej2, _ := c.addRulesCase(rc, m)
		c.c10Judge(m, rej2)
		c.Count(evsString(m), len(m) > 3)
		c.Dist(fmt.Sprintf("mutant/accepted=%v", rej2 < 0))
	}
	// side streams inside the two known deviation classes, and their fixed witnesses
	for _, w := range []string{"bd v:0 l mk:61 l mk:62 pi:1 e e ed", "bd v:0 l mk:61 fl:3ff8000000000000 m ref:61 null e e ed",
		"bd v:0 m mk:62 uid:30313233343536373839616263646566 null mk:62 ab:2 ac:0:false null e ed",
		// invalid UTF-8 split over data events: noticed late (open finding), in list / key / edge positions
		"bd v:0 l ab:1 ac:3:false ad:e0 ad:41 ad:a0 e ed", "bd v:0 m ab:1 ac:4:false ad:f0 ad:e0 ad:a0 ad:80 null e ed",
		"bd v:0 edge ab:2 ac:3:false ad:e0 ad:e0 ad:a0 pi:1 pi:2 e ed", "bd v:0 l ab:1 ac:2:true ad:c3 ad:a9 ac:3:false ad:e2 ad:82 ad:ac e ed"} {
		es, _ := parseEvs(w)
		rej, _ := c.addRulesCase(rc, es)
		c.Count(w, true)
		c.c10Judge(es, rej)
	}
	// record instances with one value too many / one too few, for every record of a generated
	// document (zero-field record types included), and the smallest such documents directly
	for _, n := range []int{0, 1, 2, 3} {
		for _, have := range []int{0, 1, 2, 3, 4} {
			es := []Ev{{K: "bd"}, {K: "v", N: 0}, {K: "rt", Data: []byte("r")}}
			for i := 0; i < n; i++ {
				es = append(es, Ev{K: "pi", N: uint64(i + 1)})
			}
			es = append(es, Ev{K: "e"}, Ev{K: "rec", Data: []byte("r")})
			for i := 0; i < have; i++ {
				es = append(es, Ev{K: "null"})
			}
			es = append(es, Ev{K: "e"}, Ev{K: "ed"})
			rej, _ := c.addRulesCase(rc, es)
			c.Count(evsString(es), true)
			c.Dist("record-arity/directed")
			c.c10Judge(es, rej)
		}
	}
	// times: rules accept the zero value and what compact_time's Validate accepts, nothing else
	for i, tv := range c10Times() {
		for _, es := range [][]Ev{{{K: "bd"}, {K: "v", N: 0}, {K: "tm", T: tv}, {K: "ed"}},
			{{K: "bd"}, {K: "v", N: 0}, {K: "m"}, {K: "tm", T: tv}, {K: "null"}, {K: "e"}, {K: "ed"}},
			{{K: "bd"}, {K: "v", N: 0}, {K: "l"}, {K: "mk", Data: []byte("a")}, {K: "tm", T: tv}, {K: "e"}, {K: "ed"}}} {
			rej, _ := c.addRulesCase(rc, es)
			c.Count(fmt.Sprintf("time-%d|%s", i, evsString(es)), true)
			c.Dist(fmt.Sprintf("times/accepted=%v", rej < 0))
			c.c10Judge(es, rej)
		}
	}
	optR := DefaultGenOpts()
	optR.Records = true
	gr := NewEvGen(c.Rng, optR)
	for i := 0; i < c.Pick(150, 2500); i++ {
		es := gr.Document()
		for _, m := range recordArityMutants(es, c.Rng) {
			rej, _ := c.addRulesCase(rc, m)
			c.Count(evsString(m), len(m) > 3)
			c.Dist(fmt.Sprintf("record-arity/mutant/accepted=%v", rej < 0))
			c.c10Judge(m, rej)
		}
	}
	optN := DefaultGenOpts()
	optN.NestedMarkers = true
	gn := NewEvGen(c.Rng, optN)
	for i := 0; i < c.Pick(60, 1000); i++ {
		es := gn.Document()
		rej, _ := c.addRulesCase(rc, es)
		c.Count(evsString(es), len(es) > 3)
		c.Dist(fmt.Sprintf("nested-marker-gen/accepted=%v", rej < 0))
		c.c10Judge(es, rej)
	}
	// bounded-exhaustive exploration over the abstract alphabet
	alpha := rulesAlphabet()
	cf := c.exhCases(rc)
	exploreRules(c, rc, c.Pick(4, 6), c.Pick(300, 5000), 12, func(p []int, mask *big.Int, acc []int) {
		cf.Add(cPair("["+idxString(p)+"]", mask.String()), fmt.Sprintf("prefix [%s] accepts-next %v", idxString(p), acc))
		base := make([]Ev, len(p))
		for i, x := range p {
			base[i] = alpha[x]
		}
		for i := range alpha {
			es := append(append([]Ev{}, base...), alpha[i])
			rej := -1
			if mask.Bit(i) == 0 {
				rej = len(base)
			}
			c.c10Judge(es, rej)
		}
		c.Rep.Evaluations += len(alpha)
		c.Rep.Distinct += len(alpha)
		c.Dist(fmt.Sprintf("exh/prefix-len=%d", len(p)))
	})
	for k, v := range g.Kinds {
		c.Rep.Distribution["kind:"+k] = v
	}
}

// recordArityMutants: for one record instance of the document (chosen at random), the document with
// one more value before the record's end, and the one with the record's last value (if it is a
// single event) removed.
func recordArityMutants(es []Ev, r *rand.Rand) [][]Ev {
	var recs []int
	for i, e := range es {
		if e.K == "rec" {
			recs = append(recs, i)
		}
	}
	if len(recs) == 0 {
		return nil
	}
	i := recs[r.Intn(len(recs))]
	depth, j := 0, -1
	for k := i; k < len(es) && j < 0; k++ {
		switch es[k].K {
		case "l", "m", "edge", "node", "rec", "rt":
			depth++
		case "e":
			depth--
			if depth == 0 {
				j = k
			}
		}
	}
	if j < 0 {
		return nil
	}
	more := append(append(append([]Ev{}, es[:j]...), Ev{K: "null"}), es[j:]...)
	out := [][]Ev{more}
	if j-1 > i {
		switch es[j-1].K {
		case "null", "b", "pi", "ni", "fl", "uid", "nan":
			out = append(out, append(append([]Ev{}, es[:j-1]...), es[j:]...))
		}
	}
	return out
}

// c10Times: valid times of every kind and times with exactly one field out of range (built in the
// struct directly, as a Go caller of the event API can).
func c10Times() []compact_time.Time {
	ok := []compact_time.Time{
		compact_time.NewDate(2020, 2, 29), compact_time.NewTime(23, 59, 60, 999999999, compact_time.TZAtUTC()),
		compact_time.NewTimestamp(-1, 12, 31, 0, 0, 0, 0, compact_time.TZAtAreaLocation("Europe/Berlin")),
		compact_time.NewTime(1, 2, 3, 4, compact_time.TZAtLatLong(-9000, 18000)), compact_time.NewTime(1, 2, 3, 0, compact_time.TZWithMiutesOffsetFromUTC(-1439)),
		compact_time.ZeroDate(), compact_time.ZeroTime(), compact_time.ZeroTimestamp(),
	}
	out := append([]compact_time.Time{}, ok...)
	mut := func(f func(t *compact_time.Time)) {
		t := compact_time.NewTimestamp(2001, 6, 15, 12, 30, 30, 5, compact_time.TZAtUTC())
		f(&t)
		out = append(out, t)
	}
	mut(func(t *compact_time.Time) { t.Year = 0 })
	mut(func(t *compact_time.Time) { t.Month = 0 })
	mut(func(t *compact_time.Time) { t.Month = 13 })
	mut(func(t *compact_time.Time) { t.Day = 0 })
	mut(func(t *compact_time.Time) { t.Month, t.Day = 2, 30 })
	mut(func(t *compact_time.Time) { t.Hour = 24 })
	mut(func(t *compact_time.Time) { t.Minute = 60 })
	mut(func(t *compact_time.Time) { t.Second = 61 })
	mut(func(t *compact_time.Time) { t.Nanosecond = 1000000000 })
	mut(func(t *compact_time.Time) { t.Timezone = compact_time.TZAtLatLong(9001, 0) })
	mut(func(t *compact_time.Time) { t.Timezone = compact_time.TZAtLatLong(0, -18001) })
	mut(func(t *compact_time.Time) { t.Timezone = compact_time.TZWithMiutesOffsetFromUTC(1440) })
	mut(func(t *compact_time.Time) { t.Timezone = compact_time.TZAtAreaLocation(strings.Repeat("A", 128)) })
	d := compact_time.NewDate(2001, 13, 1)
	out = append(out, d)
	tm := compact_time.NewTime(25, 0, 0, 0, compact_time.TZAtUTC())
	out = append(out, tm)
	return out
}
