package main

// C08 — decoding cost is bounded by document size and configured limits.
//
// Search oracle: runtime.MemStats.TotalAlloc and CPU time around ONE Decode, measured
// in a child `vh` process (hidden sub-command "c08-worker") that runs under an
// address-space cap (RLIMIT_AS) and a per-document timeout. A document violates the
// property when the decoder allocates more than
//     c08K*len(doc) + 2*MaxArraySizeBytes + c08C0
// or when the child dies under a cap that leaves ample room for that bound.
// Time: doubling experiment per document family; only clearly super-linear growth
// (ratio > 3 per doubling over three consecutive doublings) is flagged.
//
// History: before /repo commit 8884bbf the CBE reader allocated twice the ANNOUNCED length before reading
// (finding keys C08/alloc/rules-off/oversized-chunk, C08/alloc/rules-off/oversized-mediatype,
// C08/alloc/rules-on/oversized-mediatype). The witnesses are pinned (c08PinnedWitnesses) and run in every
// tier; should they violate again, the run switches to a budgeted mode (see runC08).
//
// Sequences (stage (g), c08Sequences): one large chunked array then thousands of tiny long-form arrays in ONE
// document (shared reader buffer / validator buffer): absolute bound and growth of the per-byte allocation when
// both halves grow; the CTE counterpart is the "sequence" group of stage (f).
//
// CTE (stage (f), c08CteAlloc): allocation of one decode against a stated bound with a larger constant and
// against growth of the per-byte allocation inside a family; string-like values with escapes are compared
// with CE.Model.Cost.cte_string (CteStrRun).
//
// Correspondence: CE.Model.Cost (cost_case / cost_case_ok): error-or-not, len(Reader.buffer),
// Reader.bytesRead, events delivered (exact) and TotalAlloc (bracketed by the model's
// reader-buffer bytes below and reader+validator bytes plus slack above); for killed
// children the model must explain the death; cbe.Reader alone on ReadBytes sequences.

import (
	"bufio"
	"bytes"
	"encoding/hex"
	"fmt"
	"math/big"
	"os"
	"os/exec"
	"reflect"
	"runtime"
	"runtime/debug"
	"sort"
	"strconv"
	"strings"
	"syscall"
	"time"
	"unsafe"

	"github.com/cockroachdb/apd/v2"
	compact_float "github.com/kstenerud/go-compact-float"
	compact_time "github.com/kstenerud/go-compact-time"
	"github.com/kstenerud/go-concise-encoding/cbe"
	"github.com/kstenerud/go-concise-encoding/ce"
	"github.com/kstenerud/go-concise-encoding/ce/events"
	"github.com/kstenerud/go-concise-encoding/configuration"
)

func init() {
	register("C08", runC08, replayC08)
	if len(os.Args) >= 2 && os.Args[1] == "c08-worker" {
		c08Worker()
		os.Exit(0)
	}
}

// The bound of the oracle (generous, stated): allocation <= c08K*len + 2*MaxArraySizeBytes + c08C0.
const (
	c08K  = 64
	c08C0 = 1 << 20
	// address-space caps of the children. A child that dies under a cap is a violation only when
	// bound + baseline + margin fits under the cap (checked per document).
	c08CapSmall = uint64(2 << 30) // documents under small MaxArraySizeBytes settings
	c08CapBig   = uint64(5 << 30) // documents under the default 1 GiB setting (bound > 2 GiB)
	c08Margin   = uint64(256 << 20)
)

// ---------------------------------------------------------------------------
// event counter (the receiver behind the decoder / validator): counts, keeps nothing

type c08Counter struct {
	n   uint64
	pay uint64 // bytes of array / string payload handed over (CTE correspondence: the value that was accumulated)
}

func (r *c08Counter) OnBeginDocument()                    { r.n++ }
func (r *c08Counter) OnVersion(uint64)                    { r.n++ }
func (r *c08Counter) OnComment(bool, []byte)              { r.n++ }
func (r *c08Counter) OnPadding()                          { r.n++ }
func (r *c08Counter) OnNull()                             { r.n++ }
func (r *c08Counter) OnBoolean(bool)                      { r.n++ }
func (r *c08Counter) OnTrue()                             { r.n++ }
func (r *c08Counter) OnFalse()                            { r.n++ }
func (r *c08Counter) OnPositiveInt(uint64)                { r.n++ }
func (r *c08Counter) OnNegativeInt(uint64)                { r.n++ }
func (r *c08Counter) OnInt(int64)                         { r.n++ }
func (r *c08Counter) OnBigInt(*big.Int)                   { r.n++ }
func (r *c08Counter) OnFloat(float64)                     { r.n++ }
func (r *c08Counter) OnBigFloat(*big.Float)               { r.n++ }
func (r *c08Counter) OnDecimalFloat(compact_float.DFloat) { r.n++ }
func (r *c08Counter) OnBigDecimalFloat(*apd.Decimal)      { r.n++ }
func (r *c08Counter) OnNan(bool)                          { r.n++ }
func (r *c08Counter) OnUID([]byte)                        { r.n++ }
func (r *c08Counter) OnTime(compact_time.Time)            { r.n++ }
func (r *c08Counter) OnArray(_ events.ArrayType, _ uint64, d []byte) {
	r.n++
	r.pay += uint64(len(d))
}
func (r *c08Counter) OnStringlikeArray(_ events.ArrayType, d string) {
	r.n++
	r.pay += uint64(len(d))
}
func (r *c08Counter) OnMedia(_ string, d []byte) {
	r.n++
	r.pay += uint64(len(d))
}
func (r *c08Counter) OnCustomBinary(_ uint64, d []byte) {
	r.n++
	r.pay += uint64(len(d))
}
func (r *c08Counter) OnCustomText(_ uint64, d string) {
	r.n++
	r.pay += uint64(len(d))
}
func (r *c08Counter) OnArrayBegin(events.ArrayType)          { r.n++ }
func (r *c08Counter) OnMediaBegin(string)                    { r.n++ }
func (r *c08Counter) OnCustomBegin(events.ArrayType, uint64) { r.n++ }
func (r *c08Counter) OnArrayChunk(uint64, bool)              { r.n++ }
func (r *c08Counter) OnArrayData(d []byte) {
	r.n++
	r.pay += uint64(len(d))
}
func (r *c08Counter) OnList()                 { r.n++ }
func (r *c08Counter) OnMap()                  { r.n++ }
func (r *c08Counter) OnRecordType([]byte)     { r.n++ }
func (r *c08Counter) OnRecord([]byte)         { r.n++ }
func (r *c08Counter) OnEdge()                 { r.n++ }
func (r *c08Counter) OnNode()                 { r.n++ }
func (r *c08Counter) OnEndContainer()         { r.n++ }
func (r *c08Counter) OnMarker([]byte)         { r.n++ }
func (r *c08Counter) OnReferenceLocal([]byte) { r.n++ }
func (r *c08Counter) OnEndDocument()          { r.n++ }
func (r *c08Counter) OnError()                {}

// ---------------------------------------------------------------------------
// jobs and results

// c08Job is one decode to be measured. The document is Prefix + Unit*Count + Suffix
// (so that large family members need not be shipped as hex).
type c08Job struct {
	Format   string // "cbe" or "cte"
	Rules    bool
	MaxArray uint64
	MaxDoc   uint64 // 0 = library default
	Prefix   []byte
	Unit     []byte
	Count    int
	Suffix   []byte
	Reps     int // the decode is repeated Reps times (>=1); CPU time = minimum
	noWarm   bool
}

const c08WarmUnits = 64

func (j c08Job) doc() []byte {
	out := make([]byte, 0, len(j.Prefix)+len(j.Unit)*j.Count+len(j.Suffix))
	out = append(out, j.Prefix...)
	for i := 0; i < j.Count; i++ {
		out = append(out, j.Unit...)
	}
	return append(out, j.Suffix...)
}

func (j c08Job) docLen() int { return len(j.Prefix) + len(j.Unit)*j.Count + len(j.Suffix) }

type c08Res struct {
	Killed bool
	Note   string
	Err    bool
	Buf    uint64 // len(Reader.buffer) after the decode (cbe only)
	Nread  uint64 // Reader.bytesRead (cbe only)
	Nev    uint64 // events delivered to the counter
	Pay    uint64 // array / string payload bytes delivered to the counter
	Alloc  uint64 // TotalAlloc delta around the (first) decode
	CPU    uint64 // ns, minimum over the repetitions
	Base   uint64 // VmSize of the child before its first job
	Retire bool   // (worker only) a big allocation happened: answer, then leave
}

func c08CfgOf(j c08Job) *configuration.Configuration {
	cfg := configuration.New()
	cfg.Rules.MaxArraySizeBytes = j.MaxArray
	if j.MaxDoc != 0 {
		cfg.Rules.MaxDocumentSizeBytes = j.MaxDoc
	}
	return cfg
}

// CPU time of the calling thread (the worker locks its goroutine to one thread): the decoder's own work
// including allocation and GC assists, without the runtime's background GC workers.
// clock_gettime(CLOCK_THREAD_CPUTIME_ID) has nanosecond resolution (getrusage is tick based).
func c08CPU() uint64 {
	var ts syscall.Timespec
	const clockThreadCPUTimeID = 3
	if _, _, e := syscall.Syscall(syscall.SYS_CLOCK_GETTIME, clockThreadCPUTimeID, uintptr(unsafe.Pointer(&ts)), 0); e != 0 {
		return uint64(time.Now().UnixNano())
	}
	return uint64(ts.Sec)*1e9 + uint64(ts.Nsec)
}

// c08Measure performs the decode(s) in THIS process. Only the worker calls it on untrusted documents.
func c08Measure(j c08Job) (r c08Res) {
	if j.Format == "cte" && !j.noWarm {
		// The ANTLR runtime builds its prediction tables lazily and keeps them for the life of the process: a
		// one-time cost bounded by the grammar, not a cost of the document. A small member of the same shape is
		// decoded first (not measured) so that the measurement below is the document's own cost.
		w := j
		w.noWarm, w.Reps = true, 1
		if w.Count > c08WarmUnits {
			w.Count = c08WarmUnits
		}
		c08Measure(w)
	}
	doc := j.doc()
	reps := j.Reps
	if reps < 1 {
		reps = 1
	}
	for i := 0; i < reps; i++ {
		cfg := c08CfgOf(j)
		cnt := &c08Counter{}
		var rcv events.DataEventReceiver = cnt
		if j.Rules {
			rcv = ce.NewRules(cnt, cfg)
		}
		var dec ce.Decoder
		var cdec *cbe.Decoder
		if j.Format == "cte" {
			dec = ce.NewCTEDecoder(cfg)
		} else {
			cdec = cbe.NewDecoder(cfg)
			dec = cdec
		}
		var m0, m1 runtime.MemStats
		runtime.ReadMemStats(&m0)
		t0 := c08CPU()
		err := func() (e error) {
			defer func() {
				if x := recover(); x != nil {
					e = fmt.Errorf("panic: %v", x)
				}
			}()
			return dec.DecodeDocument(doc, rcv)
		}()
		cpu := c08CPU() - t0
		runtime.ReadMemStats(&m1)
		if i == 0 {
			r.Err = err != nil
			r.Nev = cnt.n
			r.Pay = cnt.pay
			r.Alloc = m1.TotalAlloc - m0.TotalAlloc
			r.CPU = cpu
			if cdec != nil {
				rd := reflect.ValueOf(cdec).Elem().FieldByName("reader")
				r.Buf = uint64(rd.FieldByName("buffer").Len())
				r.Nread = rd.FieldByName("bytesRead").Uint()
			}
		} else if cpu < r.CPU {
			r.CPU = cpu
		}
		if m1.TotalAlloc-m0.TotalAlloc > 16<<20 {
			// A big buffer was handed out. If this process went on, the next big request would be served
			// from the freed span and zero-filled page by page (slow); the worker retires instead.
			r.Retire = true
			if i+1 < reps {
				cdec, dec, rcv = nil, nil, nil
				debug.FreeOSMemory()
			}
		}
	}
	return r
}

func c08VmSize() uint64 {
	b, err := os.ReadFile("/proc/self/statm")
	if err != nil {
		return 0
	}
	var pages uint64
	fmt.Sscan(string(b), &pages)
	return pages * uint64(os.Getpagesize())
}

// worker protocol, one job per line:
//
//	<format> <rules 0|1> <maxArray> <maxDoc> <reps> <count> <hex prefix|-> <hex unit|-> <hex suffix|->
//
// answer: "r <err 0|1> <buf> <nread> <nev> <alloc> <cpu> <payload>"; first line of the child: "base <VmSize>"
func c08Worker() {
	runtime.LockOSThread()
	memCap := uint64(4 << 30)
	if len(os.Args) >= 3 {
		fmt.Sscan(os.Args[2], &memCap)
	}
	out := bufio.NewWriter(os.Stdout)
	runtime.GC()
	fmt.Fprintf(out, "base %d\n", c08VmSize())
	out.Flush()
	if memCap != 0 {
		syscall.Setrlimit(syscall.RLIMIT_AS, &syscall.Rlimit{Cur: memCap, Max: memCap})
	}
	in := bufio.NewReaderSize(os.Stdin, 1<<20)
	unhex := func(s string) []byte {
		if s == "-" {
			return nil
		}
		b, _ := hex.DecodeString(s)
		return b
	}
	for {
		line, err := in.ReadString('\n')
		line = strings.TrimRight(line, "\r\n")
		if line != "" {
			f := strings.Split(line, " ")
			if len(f) != 9 {
				fmt.Fprintf(out, "bad\n")
			} else {
				j := c08Job{Format: f[0], Rules: f[1] == "1"}
				j.MaxArray, _ = strconv.ParseUint(f[2], 10, 64)
				j.MaxDoc, _ = strconv.ParseUint(f[3], 10, 64)
				j.Reps, _ = strconv.Atoi(f[4])
				j.Count, _ = strconv.Atoi(f[5])
				j.Prefix, j.Unit, j.Suffix = unhex(f[6]), unhex(f[7]), unhex(f[8])
				r := c08Measure(j)
				e := 0
				if r.Err {
					e = 1
				}
				fmt.Fprintf(out, "r %d %d %d %d %d %d %d\n", e, r.Buf, r.Nread, r.Nev, r.Alloc, r.CPU, r.Pay)
				if r.Retire {
					fmt.Fprintf(out, "bye\n")
					out.Flush()
					return
				}
			}
			out.Flush()
		}
		if err != nil {
			return
		}
	}
}

func c08Hex(b []byte) string {
	if len(b) == 0 {
		return "-"
	}
	return hex.EncodeToString(b)
}

// c08RunChild measures every job in a child process under the address-space cap; a job on which the
// child dies or hangs is reported as Killed and a fresh child continues with the rest.
// (Same mechanism as DecodeInChild in cbe_run.go, reporting MemStats / CPU time instead of events.)
func c08RunChild(jobs []c08Job, memCap uint64, timeout time.Duration) []c08Res {
	res := make([]c08Res, len(jobs))
	next := 0
	for next < len(jobs) {
		cmd := exec.Command(os.Args[0], "c08-worker", fmt.Sprint(memCap))
		cmd.Env = append(os.Environ(), "GOTRACEBACK=none")
		stdin, _ := cmd.StdinPipe()
		stdout, _ := cmd.StdoutPipe()
		var stderr bytes.Buffer
		cmd.Stderr = &stderr
		if err := cmd.Start(); err != nil {
			panic(err)
		}
		start := next
		go func() {
			w := bufio.NewWriterSize(stdin, 1<<20)
			for i := start; i < len(jobs); i++ {
				j := jobs[i]
				r := 0
				if j.Rules {
					r = 1
				}
				fmt.Fprintf(w, "%s %d %d %d %d %d %s %s %s\n", j.Format, r, j.MaxArray, j.MaxDoc, j.Reps, j.Count, c08Hex(j.Prefix), c08Hex(j.Unit), c08Hex(j.Suffix))
				if w.Flush() != nil {
					break
				}
			}
			stdin.Close()
		}()
		lines := make(chan string, 64)
		go func() {
			rd := bufio.NewReaderSize(stdout, 1<<20)
			for {
				line, err := rd.ReadString('\n')
				if err != nil {
					close(lines)
					return
				}
				lines <- line
			}
		}()
		note := ""
		base := uint64(0)
		retired := false
	batch:
		for next < len(jobs) {
			select {
			case line, ok := <-lines:
				if !ok {
					break batch
				}
				f := strings.Fields(line)
				if len(f) == 2 && f[0] == "base" {
					base, _ = strconv.ParseUint(f[1], 10, 64)
					continue
				}
				if len(f) == 1 && f[0] == "bye" {
					retired = true
					break batch
				}
				if len(f) != 8 || f[0] != "r" {
					panic("c08-worker: bad answer " + line)
				}
				r := c08Res{Err: f[1] == "1", Base: base}
				r.Buf, _ = strconv.ParseUint(f[2], 10, 64)
				r.Nread, _ = strconv.ParseUint(f[3], 10, 64)
				r.Nev, _ = strconv.ParseUint(f[4], 10, 64)
				r.Alloc, _ = strconv.ParseUint(f[5], 10, 64)
				r.CPU, _ = strconv.ParseUint(f[6], 10, 64)
				r.Pay, _ = strconv.ParseUint(f[7], 10, 64)
				res[next] = r
				next++
			case <-time.After(timeout):
				note = "timeout"
				cmd.Process.Kill()
				break batch
			}
		}
		cmd.Process.Kill()
		go func() {
			for range lines {
			}
		}()
		werr := cmd.Wait()
		if next < len(jobs) && !retired {
			if note == "" {
				note = stderr.String()
				if i := strings.IndexByte(note, '\n'); i >= 0 {
					note = note[:i]
				}
				note = fmt.Sprintf("%v: %s", werr, note)
			}
			res[next] = c08Res{Killed: true, Note: note, Base: base}
			next++
		}
	}
	return res
}

// c08Parallel splits the jobs over n children (order of results preserved).
func c08Parallel(jobs []c08Job, memCap uint64, timeout time.Duration, n int) []c08Res {
	if n < 1 {
		n = 1
	}
	res := make([]c08Res, len(jobs))
	type part struct{ lo, hi int }
	parts := []part{}
	per := (len(jobs) + n - 1) / n
	for lo := 0; lo < len(jobs); lo += per {
		hi := lo + per
		if hi > len(jobs) {
			hi = len(jobs)
		}
		parts = append(parts, part{lo, hi})
	}
	done := make(chan bool)
	for _, p := range parts {
		go func(p part) {
			copy(res[p.lo:p.hi], c08RunChild(jobs[p.lo:p.hi], memCap, timeout))
			done <- true
		}(p)
	}
	for range parts {
		<-done
	}
	return res
}

// ---------------------------------------------------------------------------
// the oracle

func c08Bound(j c08Job) uint64 {
	return c08K*uint64(j.docLen()) + 2*j.MaxArray + c08C0
}

// c08Verdict: ok=false when the decode of j violates the allocation bound.
func c08Verdict(j c08Job, r c08Res, memCap uint64) (ok bool, detail string) {
	b := c08Bound(j)
	if r.Killed {
		if r.Note == "timeout" {
			return false, "decode did not finish within the timeout"
		}
		if b+r.Base+c08Margin <= memCap {
			return false, fmt.Sprintf("process died under a %d MiB address-space cap (bound %d bytes, baseline %d MiB): %s", memCap>>20, b, r.Base>>20, r.Note)
		}
		return true, "died, but the cap leaves no room for the bound (not judged)"
	}
	if r.Alloc > b {
		return false, fmt.Sprintf("allocated %d bytes for a %d-byte document (bound %d)", r.Alloc, j.docLen(), b)
	}
	return true, fmt.Sprintf("allocated %d bytes (bound %d)", r.Alloc, b)
}

// ---------------------------------------------------------------------------
// Coq terms

func c08CfgTerm(j c08Job) string {
	md := j.MaxDoc
	if md == 0 {
		md = configuration.New().Rules.MaxDocumentSizeBytes
	}
	return fmt.Sprintf("{| rules_on := %s; max_array := %d; max_doc := %d |}", cBool(j.Rules), j.MaxArray, md)
}

func c08Stop(j c08Job, r c08Res, pure bool) string {
	if !j.Rules || !r.Err || pure {
		return "None"
	}
	return cSome(cN(r.Nev))
}

func c08DocTerm(doc []byte) string { return rleTerm(cBytes(doc)) }

// ---------------------------------------------------------------------------
// document construction

type c08Doc struct {
	doc   []byte
	class string // failure-key class: which length field is oversized ("none" when honest)
	pos   string
	pure  bool // refused by nothing but what the model itself checks (stop = None in the case)
	over  bool // carries an announced length larger than the input that follows it
}

func c08Uleb(v uint64) []byte { return uleb(v) }

func c08ChunkHeader(count uint64, more bool) []byte {
	// count < 2^63
	h := new(big.Int).SetUint64(count)
	h.Lsh(h, 1)
	if more {
		h.Or(h, big.NewInt(1))
	}
	return ulebOf(h)
}

var c08Positions = []string{"top", "list", "mapval", "mapkey", "deep", "second", "marked"}

func c08Wrap(pos string, payload []byte) []byte {
	switch pos {
	case "top":
		return cat([]byte{0x81, 0}, payload)
	case "list":
		return cat([]byte{0x81, 0, 0x9a, 1}, payload)
	case "mapval":
		return cat([]byte{0x81, 0, 0x99, 0x81, 'k'}, payload)
	case "mapkey":
		return cat([]byte{0x81, 0, 0x99}, payload)
	case "deep":
		return cat([]byte{0x81, 0}, bytes.Repeat([]byte{0x9a}, 40), payload)
	case "second":
		return cat([]byte{0x81, 0, 0x9a, 0x90, 4, 'h', 'i'}, payload)
	case "marked":
		return cat([]byte{0x81, 0, 0x7f, 0xf0, 1, 'm'}, payload)
	}
	panic("bad position " + pos)
}

// every kind of length field: name, builder(announced n) -> bytes up to and including the length field,
// bytes of input one announced unit stands for (for "just satisfied" variants)
type c08Field struct {
	name  string
	head  func(n uint64) []byte
	array bool   // an array chunk header (n = element count), checked by the validator's limit
	bits  uint64 // element width of the array
	limit uint64 // largest value the decoder accepts in a non-array length field
}

// c08Heavy: rough forecast (used only to budget the quick tier) of whether decoding will request a buffer
// of more than 16 MiB, i.e. the child will retire or die and a new process has to be started.
func c08Heavy(f c08Field, n uint64, rules bool, maxArray uint64) bool {
	est := n
	if f.array {
		est = n * f.bits / 8 // uint64 arithmetic, as in the decoder
		if rules && maxArray > 0 && est > maxArray {
			return false
		}
	} else if n > f.limit {
		return false
	}
	return est > 8<<20 && est <= 1<<47
}

func c08Fields() []c08Field {
	fs := []c08Field{}
	chunk := func(name string, typ []byte) {
		bits := uint64(8)
		switch {
		case name == "bit":
			bits = 1
		case strings.HasSuffix(name, "16"):
			bits = 16
		case strings.HasSuffix(name, "32"):
			bits = 32
		case strings.HasSuffix(name, "64"):
			bits = 64
		case name == "uid":
			bits = 128
		}
		fs = append(fs, c08Field{name: "chunk/" + name, array: true, bits: bits, head: func(n uint64) []byte { return cat(typ, c08ChunkHeader(n, false)) }})
	}
	chunk("string", []byte{0x90})
	chunk("rid", []byte{0x91})
	chunk("custom", []byte{0x92, 7})
	chunk("uint8", []byte{0x93})
	chunk("bit", []byte{0x94})
	names := map[events.ArrayType]string{}
	for _, a := range cbeArrayTypeNames {
		names[a.t] = strings.ToLower(a.name)
	}
	short := map[int]bool{} // high nibbles taken by the short-array forms: dispatched before the table
	for _, tc := range cbe.VerifTypeCodes() {
		if strings.HasPrefix(tc.Name, "cbeTypeShortArray") {
			short[int(tc.Value)&0xf0] = true
		}
	}
	for code, t := range cbe.VerifPlane7fTypeToArrayType() {
		if t != events.ArrayTypeInvalid && !short[code&0xf0] && code != 0xf0 && code != 0xf1 && code != 0xf2 && code != 0xf3 {
			chunk(names[t], []byte{0x7f, byte(code)}) // the four codes left out are dispatched before the table (marker, record type, remote reference, media)
		}
	}
	chunk("remote", []byte{0x7f, 0xf2})
	fs = append(fs, c08Field{name: "chunk2/string", array: true, bits: 8, head: func(n uint64) []byte {
		return cat([]byte{0x90}, c08ChunkHeader(2, true), []byte("ab"), c08ChunkHeader(n, false))
	}})
	fs = append(fs, c08Field{name: "chunk2/uint16", array: true, bits: 16, head: func(n uint64) []byte {
		return cat([]byte{0x7f, 0xe2}, c08ChunkHeader(1, true), []byte{1, 2}, c08ChunkHeader(n, false))
	}})
	fs = append(fs, c08Field{name: "chunk/mediadata", array: true, bits: 8, head: func(n uint64) []byte {
		return cat([]byte{0x7f, 0xf3, 3, 'a', '/', 'b'}, c08ChunkHeader(n, false))
	}})
	fs = append(fs, c08Field{name: "mediatype", limit: 1<<32 - 1, head: func(n uint64) []byte { return cat([]byte{0x7f, 0xf3}, c08Uleb(n)) }})
	fs = append(fs, c08Field{name: "ident/ref", limit: 100000, head: func(n uint64) []byte { return cat([]byte{0x77}, c08Uleb(n)) }})
	fs = append(fs, c08Field{name: "ident/record", limit: 100000, head: func(n uint64) []byte { return cat([]byte{0x96}, c08Uleb(n)) }})
	fs = append(fs, c08Field{name: "ident/marker", limit: 100000, head: func(n uint64) []byte { return cat([]byte{0x7f, 0xf0}, c08Uleb(n)) }})
	fs = append(fs, c08Field{name: "ident/rectype", limit: 100000, head: func(n uint64) []byte { return cat([]byte{0x7f, 0xf1}, c08Uleb(n)) }})
	fs = append(fs, c08Field{name: "uint/pos", limit: 1024, head: func(n uint64) []byte { return cat([]byte{0x66}, c08Uleb(n)) }})
	fs = append(fs, c08Field{name: "uint/neg", limit: 1024, head: func(n uint64) []byte { return cat([]byte{0x67}, c08Uleb(n)) }})
	return fs
}

// announced sizes: around the configured limit and around every power of two that matters
// (2^29 / 2^30: the gigabyte requests; 2^32: media type ceiling; 2^47: runtime maxAlloc / 2;
// 2^58..2^63: uint64 wrap-around of the byte count)
func c08Sizes(maxArray uint64) []uint64 {
	out := []uint64{}
	if maxArray > 1 {
		out = append(out, maxArray-1, maxArray, maxArray+1, 2*maxArray, maxArray/8+1)
	}
	out = append(out, 200, 1025, 100001, 1<<16, 1<<20, 1<<24, 1<<26, 1<<29, 1<<30, 1<<31, 1<<32-1, 1<<32, 1<<40, 1<<46, 1<<47, 1<<47+1,
		1<<56, 1<<58, 1<<58+1, 1<<60, 1<<61, 1<<61+3, 1<<62, 1<<63-1)
	return out
}

func (d c08Doc) key() string { return "C08/alloc/" + d.class }

// c08PinnedWitnesses: the documents on which the unrepaired reader (before /repo 8884bbf) violated the bound:
// 8 bytes announcing a 2^30-byte chunk without a validator (2 GiB requested), 9 bytes announcing a 2^24-byte
// chunk inside a list, 9 bytes announcing a 2^29-byte media type WITH a validator and a 1 MiB limit (1 GiB),
// 9 bytes announcing a 2^32-1-byte media type under the default configuration (8 GiB), and a media type
// after an array without a validator. Kept so that a regression is reported under the old finding keys.
type c08Witness struct {
	d        c08Doc
	rules    bool
	maxArray uint64
}

func c08PinnedWitnesses() []c08Witness {
	return []c08Witness{
		{c08Doc{doc: cat([]byte{0x81, 0, 0x93}, c08ChunkHeader(1<<30, false)), class: "chunk/uint8", pos: "top", pure: true, over: true}, false, 1 << 20},
		{c08Doc{doc: cat([]byte{0x81, 0, 0x9a, 1, 0x93}, c08ChunkHeader(1<<24, false)), class: "chunk/uint8", pos: "list", pure: true, over: true}, false, 4096},
		{c08Doc{doc: cat([]byte{0x81, 0, 0x7f, 0xf3}, c08Uleb(1<<29)), class: "mediatype", pos: "top", pure: true, over: true}, true, 1 << 20},
		{c08Doc{doc: cat([]byte{0x81, 0, 0x7f, 0xf3}, c08Uleb(1<<32-1)), class: "mediatype", pos: "top", pure: true, over: true}, true, 1 << 30},
		{c08Doc{doc: cat([]byte{0x81, 0, 0x9a, 0x90, 4, 'h', 'i', 0x7f, 0xf3}, c08Uleb(1<<21)), class: "mediatype", pos: "second", pure: true, over: true}, false, 1 << 20},
	}
}

// ---------------------------------------------------------------------------
// run

type c08Item struct {
	job  c08Job
	d    c08Doc
	fam  string
	cap_ uint64
}

func runC08(c *Ctx) {
	c.Rep.Rule = "CBE documents decoded one per measurement in a child process under an address-space cap, rules on/off x MaxArraySizeBytes in {4 KiB, 1 MiB, 16 MiB, 1 GiB default}: (a) encoder outputs of generated rules-valid streams and byte mutations of them, (b) an oversized announced length in every kind of length field (array chunk headers of every array type, second chunk, media type, media data, identifiers, integer length) x sizes around the limit and around 2^16..2^63 x structural positions (top, list, map key/value, depth 40, after an array, marked), (c) honest large members (lengths satisfied), (d) nested-container runs and many-tiny-token families with a doubling experiment for CPU time, (e) CTE time families measured only (time slope), (f) CTE allocation of one decode (rules on, MaxArraySizeBytes 1 MiB) held to 2048*len + 2*MaxArraySizeBytes + 4 MiB and to 'the largest member allocates at most twice as much per document byte as the 2 KiB member': families of documents dominated by one long value at 2..32 KiB (thorough: ..64 KiB): every string-like kind (string, resource ID, remote reference, custom text, media text) x every escape form of the grammar (each escape character, code point escapes of 1-4 UTF-8 bytes / invalid / leading zeros, continuations, verbatim sequences, a mix, none) x distance between escapes 0..48 characters x position (top level, list, map value, after other values, marked, after comments), typed arrays of every element type and radix, custom / media binary, comments, long numbers, many tiny tokens of every kind, nesting; top-level string-likes are compared with the model's accumulation of the value (CteStrRun: error, events, value length exact; TotalAlloc bracketed)., plus sequences (one large value of kind A, then a run of tiny values of kind B, both halves growing together), (g) CBE sequences inside one document: a large long-form array of kind A in chunks of 16 bytes..1 MiB (every array type, custom, media data, or one large media type) followed by 250..4000 tiny long-form arrays of kind B, rules on/off, MaxArraySizeBytes 1 MiB, members 16 KiB+250, 64 KiB+1000, 256 KiB+4000: absolute bound and per-byte allocation of the largest member at most twice that of the smallest; smallest members compared with the model (CostRun). Non-trivial = the document announces more than it carries, or is at least 1 KiB; distinct = distinct (configuration, document)"
	cf := c.Cases("cost", "CE.Model.Cost", "cost_case", "cost_case_ok")
	cf.perFile = 250
	t0 := time.Now()
	items := []c08Item{}
	maxArrays := []uint64{4096, 1 << 20, 16 << 20}
	addItem := func(fam string, d c08Doc, rules bool, maxArray uint64) {
		capv := c08CapSmall
		if maxArray > 64<<20 {
			capv = c08CapBig
		}
		items = append(items, c08Item{job: c08Job{Format: "cbe", Rules: rules, MaxArray: maxArray, Prefix: d.doc, Reps: 1}, d: d, fam: fam, cap_: capv})
	}

	// (a) generated rules-valid documents, and mutations
	opts := CbeGenOpts()
	opts.CustomText = false
	g := NewEvGen(c.Rng, opts)
	pristine := [][]byte{}
	for i := 0; i < c.Pick(60, 600); i++ {
		out, ok := cbeEncode(g.Document())
		if !ok || len(out) > 6000 {
			continue
		}
		pristine = append(pristine, out)
		ma := maxArrays[c.Rng.Intn(len(maxArrays))]
		addItem("valid", c08Doc{doc: out, class: "none", pos: "gen", pure: true}, true, ma)
		if i%3 == 0 {
			addItem("valid", c08Doc{doc: out, class: "none", pos: "gen", pure: true}, false, ma)
		}
	}
	for i := 0; i < c.Pick(120, 1500) && len(pristine) > 0; i++ {
		d := cp(pristine[c.Rng.Intn(len(pristine))])
		for j := 0; j < 1+c.Rng.Intn(3) && len(d) > 2; j++ {
			p := 2 + c.Rng.Intn(len(d)-2)
			switch c.Rng.Intn(5) {
			case 0:
				d[p] = byte(c.Rng.Intn(256))
			case 1:
				d[p] ^= 1 << uint(c.Rng.Intn(8))
			case 2:
				d = append(d[:p], d[p+1:]...)
			case 3:
				d = d[:p]
			case 4:
				d[p] = []byte{0x7f, 0x90, 0x92, 0x93, 0x94, 0x66, 0x76, 0x77, 0x96, 0x65, 0x9b, 0x8f, 0xe0, 0xf0, 0xf2, 0xf3, 0xff, 0x80}[c.Rng.Intn(18)]
			}
		}
		if bytes.IndexAny(d, "\x7a\x7b\x7c") >= 0 {
			// a time type code may have been created; the model leaves times to an external decoder: oracle only
			addItem("mutated-time", c08Doc{doc: d, class: "mutated", pos: "gen"}, c.Rng.Intn(2) == 0, maxArrays[c.Rng.Intn(len(maxArrays))])
			continue
		}
		addItem("mutated", c08Doc{doc: d, class: "mutated", pos: "gen"}, c.Rng.Intn(2) == 0, maxArrays[c.Rng.Intn(len(maxArrays))])
	}

	// (b) oversized announced lengths
	fields := c08Fields()
	type cand struct {
		d     c08Doc
		rules bool
		ma    uint64
		heavy bool
	}
	cands := []cand{}
	for _, f := range fields {
		for _, ma := range append(append([]uint64{}, maxArrays...), 1<<30) {
			sizes := c08Sizes(ma)
			for si, n := range sizes {
				if !f.array && n > 1<<33 && si%3 != 0 {
					continue // non-array length fields are capped far below; a few huge values are enough
				}
				// quick tier: a sample of (size, position, rules, tail); thorough: every position, both rules settings
				poss := []string{c08Positions[c.Rng.Intn(len(c08Positions))]}
				ruless := []bool{c.Rng.Intn(2) == 0}
				if c.Thorough() {
					poss = c08Positions
					ruless = []bool{true, false}
				} else if ma == 1<<30 && c.Rng.Intn(4) != 0 {
					continue
				} else if c.Rng.Intn(3) == 0 {
					continue
				}
				for _, pos := range poss {
					for _, rules := range ruless {
						tail := []byte{}
						if c.Rng.Intn(2) == 0 {
							tail = []byte("abcde")
						}
						doc := c08Wrap(pos, cat(f.head(n), tail))
						// pure: nothing but the checks the model carries itself can refuse the document. Not so for element
						// counts whose byte count wraps to 0 mod 2^64: the validator then waits for data that never comes.
						pure := pos != "mapkey" && pos != "marked" && n < 1<<56
						cands = append(cands, cand{c08Doc{doc: doc, class: f.name, pos: pos, pure: pure, over: true}, rules, ma, c08Heavy(f, n, rules, ma)})
					}
				}
			}
		}
	}
	// The pinned witnesses of the defect repaired by /repo commit 8884bbf (reader grew its buffer to the ANNOUNCED
	// length) go first. If one of them violates the bound again, the defect is back: every "heavy" candidate
	// (forecast under the old policy) then costs a process start, so only a budget of them is run, taken
	// round-robin over the length fields so that every field keeps some. With the repaired reader nothing is heavy
	// and every candidate runs.
	regression := false
	{
		pj := []c08Job{}
		for _, w := range c08PinnedWitnesses() {
			pj = append(pj, c08Job{Format: "cbe", Rules: w.rules, MaxArray: w.maxArray, Prefix: w.d.doc, Reps: 1})
		}
		for i, r := range c08RunChild(pj, c08CapBig, 30*time.Second) {
			if ok, _ := c08Verdict(pj[i], r, c08CapBig); !ok {
				regression = true
			}
		}
	}
	c.Rep.Extra["pinned_witnesses_violate_again"] = regression
	budget := 1 << 30
	if regression {
		budget = c.Pick(45, 2500)
	}
	byField := map[string][]int{}
	order := []string{}
	for i, cd := range cands {
		if cd.heavy {
			if _, ok := byField[cd.d.class]; !ok {
				order = append(order, cd.d.class)
			}
			byField[cd.d.class] = append(byField[cd.d.class], i)
		}
	}
	keep := map[int]bool{}
	for round := 0; len(keep) < budget; round++ {
		any := false
		for _, fn := range order {
			if round < len(byField[fn]) && len(keep) < budget {
				keep[byField[fn][round]] = true
				any = true
			}
		}
		if !any {
			break
		}
	}
	for i, cd := range cands {
		if cd.heavy && !keep[i] {
			c.Dist("oversized/heavy-candidates-not-run(quick budget)")
			continue
		}
		addItem("oversized", cd.d, cd.rules, cd.ma)
	}
	// the pinned witnesses themselves (always part of the run, every tier)
	for _, w := range c08PinnedWitnesses() {
		c.Dist("pinned-witness/" + w.d.class)
		addItem("oversized", w.d, w.rules, w.maxArray)
	}

	// (c) honest members: the announced length is there
	for _, f := range fields {
		for _, n := range []uint64{1, 15, 16, 100, 127, 128, 129, 254, 255, 300, 1000, 1024, 4096, 5000} {
			unit := uint64(1)
			switch {
			case strings.HasSuffix(f.name, "16"):
				unit = 2
			case strings.HasSuffix(f.name, "32"):
				unit = 4
			case strings.HasSuffix(f.name, "64"):
				unit = 8
			case strings.HasSuffix(f.name, "uid"):
				unit = 16
			}
			nb := n * unit
			if strings.HasSuffix(f.name, "/bit") {
				nb = (n + 7) / 8
			}
			if !c.Thorough() && c.Rng.Intn(3) != 0 {
				continue
			}
			body := bytes.Repeat([]byte{'a'}, int(nb))
			pos := []string{"top", "list", "mapval", "second"}[c.Rng.Intn(4)]
			tail := []byte{}
			if pos != "top" {
				tail = []byte{0x9b}
			}
			if f.name == "mediatype" {
				body = append(body, 0) // empty media data chunk
			}
			doc := c08Wrap(pos, cat(f.head(n), body, tail))
			ma := maxArrays[c.Rng.Intn(len(maxArrays))]
			addItem("honest", c08Doc{doc: doc, class: f.name, pos: pos, pure: false}, c.Rng.Intn(2) == 0, ma)
		}
	}
	// honest LARGE members: the reader's buffer doubles as the data arrives (geometric growth)
	for _, f := range fields {
		if f.name != "chunk/string" && f.name != "chunk/uint8" && f.name != "chunk/uint64" && f.name != "mediatype" && f.name != "ident/ref" && f.name != "chunk2/string" {
			continue
		}
		for _, nb := range []uint64{20000, 100000, uint64(c.Pick(300000, 1<<20))} {
			n := nb
			if f.name == "chunk/uint64" {
				n = nb / 8
				nb = n * 8
			}
			if f.name == "ident/ref" && n > 100000 {
				continue
			}
			body := bytes.Repeat([]byte{'a'}, int(nb))
			if f.name == "mediatype" {
				body = append(body, 0)
			}
			doc := c08Wrap("list", cat(f.head(n), body, []byte{0x9b}))
			for _, rules := range []bool{false, true} {
				addItem("honest-large", c08Doc{doc: doc, class: f.name, pos: "list", pure: false}, rules, 16<<20)
			}
		}
	}
	// honest growth sequences inside one document: buffer doubling across tokens
	for i := 0; i < c.Pick(10, 100); i++ {
		doc := []byte{0x81, 0, 0x9a}
		for k := 0; k < 2+c.Rng.Intn(6); k++ {
			n := uint64(c.Rng.Intn(2000))
			if c.Rng.Intn(2) == 0 {
				doc = cat(doc, []byte{0x90}, c08ChunkHeader(n, false), bytes.Repeat([]byte{'x'}, int(n)))
			} else {
				doc = cat(doc, []byte{0x93}, c08ChunkHeader(n/2, true), bytes.Repeat([]byte{1}, int(n/2)), c08ChunkHeader(n-n/2, false), bytes.Repeat([]byte{2}, int(n-n/2)))
			}
		}
		doc = append(doc, 0x9b)
		addItem("honest-seq", c08Doc{doc: doc, class: "none", pos: "list", pure: true}, c.Rng.Intn(2) == 0, maxArrays[c.Rng.Intn(len(maxArrays))])
	}

	// run the allocation jobs, grouped by cap
	byCap := map[uint64][]int{}
	for i, it := range items {
		byCap[it.cap_] = append(byCap[it.cap_], i)
	}
	results := make([]c08Res, len(items))
	for capv, idx := range byCap {
		jobs := make([]c08Job, len(idx))
		for k, i := range idx {
			jobs[k] = items[i].job
		}
		rs := c08Parallel(jobs, capv, 30*time.Second, 10)
		for k, i := range idx {
			results[i] = rs[k]
		}
	}
	tAlloc := time.Since(t0)

	maxRatio := 0.0
	killed := 0
	for i, it := range items {
		r := results[i]
		j := it.job
		doc := it.d.doc
		nontrivial := it.d.over || len(doc) >= 1024
		c.Count(fmt.Sprintf("%v/%d/%x", j.Rules, j.MaxArray, doc), nontrivial)
		outc := "ok"
		if r.Killed {
			outc = "process-died"
			killed++
		} else if r.Err {
			outc = "error"
		}
		c.Dist(fmt.Sprintf("alloc/%s/rules=%v/%s", it.fam, j.Rules, outc))
		if it.fam == "oversized" {
			c.Dist("oversized/field=" + it.d.class)
			c.Dist("oversized/pos=" + it.d.pos)
		}
		ok, detail := c08Verdict(j, r, it.cap_)
		if !r.Killed {
			if ratio := float64(r.Alloc) / float64(c08Bound(j)); ratio > maxRatio {
				maxRatio = ratio
			}
		}
		if len(c.Rep.Samples) < 6 && (i%97 == 0 || !ok) {
			c.Sample(map[string]string{"family": it.fam, "field": it.d.class, "position": it.d.pos, "rules": fmt.Sprint(j.Rules), "max_array": fmt.Sprint(j.MaxArray),
				"doc_hex": c08Trunc(hex.EncodeToString(doc)), "observed": detail})
		}
		if !ok {
			rl := "off"
			if j.Rules {
				rl = "on"
			}
			class := c08KeyClass(it)
			if class == "mutated" {
				// which length field did the mutation blow up? With a validator in the pipeline only the media type
				// can (C08_alloc_bound_partial); without one, decode again WITH one: a violation that persists is the
				// media type's, one that disappears was an array chunk's.
				class = "oversized-mediatype"
				if !j.Rules {
					j2 := j
					j2.Rules = true
					r2 := c08RunChild([]c08Job{j2}, it.cap_, 30*time.Second)[0]
					if ok2, _ := c08Verdict(j2, r2, it.cap_); ok2 {
						class = "oversized-chunk"
					}
				}
				c.Dist("alloc/mutated-violation-classified-as/" + class)
			}
			c.Fail(Replay{Kind: "alloc", Key: fmt.Sprintf("C08/alloc/rules-%s/%s", rl, class),
				Input:  map[string]string{"rules": fmt.Sprint(j.Rules), "max_array": fmt.Sprint(j.MaxArray), "doc_hex": hex.EncodeToString(doc), "cap": fmt.Sprint(it.cap_)},
				Expect: fmt.Sprintf("at most %d*len + 2*MaxArraySizeBytes + %d = %d bytes allocated", c08K, c08C0, c08Bound(j)), Got: detail})
		}
		// correspondence
		if it.fam == "mutated-time" {
			continue
		}
		human := fmt.Sprintf("%s %s@%s rules=%v max_array=%d :: %s", it.fam, it.d.class, it.d.pos, j.Rules, j.MaxArray, c08Trunc(hex.EncodeToString(doc)))
		if r.Killed {
			if r.Note != "timeout" {
				cf.Add(cApp("CostKilled", c08CfgTerm(j), c08DocTerm(doc), cN(it.cap_), cN(r.Base), cN(c08BlockOf(r.Note))), human+" -> process died: "+r.Note)
			}
			continue
		}
		cf.Add(cApp("CostRun", c08CfgTerm(j), c08Stop(j, r, it.d.pure), c08DocTerm(doc), cBool(r.Err), cN(r.Buf), cN(r.Nread), cN(r.Nev), cN(r.Alloc)),
			fmt.Sprintf("%s -> err=%v buf=%d nread=%d nev=%d alloc=%d", human, r.Err, r.Buf, r.Nread, r.Nev, r.Alloc))
	}

	// cbe.Reader alone
	c08ReaderCases(c, cf)

	// (g) sequences: one large array, then many tiny ones
	tS := time.Now()
	c08Sequences(c)
	c.Rep.Extra["seq_stage_s"] = time.Since(tS).Seconds()

	// (d) + (e) time: doubling experiments
	tT := time.Now()
	c08TimeExperiments(c)
	c.Rep.Extra["alloc_stage_s"] = tAlloc.Seconds()
	c.Rep.Extra["time_stage_s"] = time.Since(tT).Seconds()
	// (f) CTE allocation
	tC := time.Now()
	c08CteAlloc(c)
	c.Rep.Extra["cte_alloc_stage_s"] = time.Since(tC).Seconds()
	c.Rep.Extra["alloc_jobs"] = len(items)
	c.Rep.Extra["children_died"] = killed
	c.Rep.Extra["max_alloc_over_bound_surviving"] = maxRatio
	c.Rep.Extra["bound"] = fmt.Sprintf("%d*len + 2*MaxArraySizeBytes + %d", c08K, c08C0)
}

// c08BlockOf extracts N from the runtime's "cannot allocate N-byte block" (0 when absent).
func c08BlockOf(note string) uint64 {
	const mark = "cannot allocate "
	i := strings.Index(note, mark)
	if i < 0 {
		return 0
	}
	rest := note[i+len(mark):]
	k := strings.Index(rest, "-byte block")
	if k < 0 {
		return 0
	}
	v, _ := strconv.ParseUint(rest[:k], 10, 64)
	return v
}

func c08Trunc(s string) string {
	if len(s) > 160 {
		return s[:160] + fmt.Sprintf("...(%d hex digits)", len(s))
	}
	return s
}

func c08KeyClass(it c08Item) string {
	switch it.fam {
	case "mutated-time":
		return "mutated"
	case "oversized":
		cl := it.d.class
		if i := strings.IndexByte(cl, '/'); i >= 0 && strings.HasPrefix(cl, "chunk") {
			cl = "chunk" // one class for every array type: the same ReadBytes call
		}
		return "oversized-" + cl
	}
	return it.fam
}

// ---------------------------------------------------------------------------
// cbe.Reader alone: ReadBytes sequences (in process: only small counts, or counts make() refuses)

func c08ReaderCases(c *Ctx, cf *caseFile) {
	seqs := [][]uint64{
		{0, 1, 126, 127, 128, 255, 256, 257, 100, 511, 512, 513},
		{128, 64, 129, 200, 256, 257},
		{1000, 2001, 2000, 4003, 10},
		{127, 127, 127},
		{1 << 47, 5}, // 2^48 requested: refused? no: exactly maxAlloc is attempted -> not run in process (see below)
		{1<<47 + 1, 5},
		{1 << 60, 1},
		{300, 1<<47 + 1},
	}
	for i := 0; i < c.Pick(20, 200); i++ {
		s := []uint64{}
		for k := 0; k < 1+c.Rng.Intn(8); k++ {
			s = append(s, uint64(c.Rng.Intn(1<<uint(1+c.Rng.Intn(13)))))
		}
		seqs = append(seqs, s)
	}
	for _, s := range seqs {
		unsafe := false
		total := uint64(0)
		for _, n := range s {
			if n > 1<<20 && n <= 1<<47 {
				unsafe = true // would really allocate
			}
			if n <= 1<<20 {
				total += n
			}
		}
		if unsafe {
			continue
		}
		inLen := int(total)
		if c.Rng.Intn(3) == 0 && inLen > 0 {
			inLen = c.Rng.Intn(inLen) // input ends early
		}
		input := bytes.Repeat([]byte{7}, inLen)
		rd := cbe.NewReader(configuration.New())
		rd.SetReader(bytes.NewBuffer(input))
		bufs := []string{}
		for _, n := range s {
			failed := func() (f bool) {
				defer func() {
					if recover() != nil {
						f = true
					}
				}()
				rd.ReadBytes(int(n))
				return false
			}()
			bufs = append(bufs, cNi(reflect.ValueOf(rd).Elem().FieldByName("buffer").Len()))
			if failed {
				break
			}
		}
		cs := []string{}
		for _, n := range s {
			cs = append(cs, cN(n))
		}
		c.Dist("reader-alone/sequences")
		c.Count(fmt.Sprintf("reader/%v/%d", s, inLen), true)
		cf.Add(cApp("ReaderRun", cList(cs), rleTerm(cBytes(input)), cList(bufs)), fmt.Sprintf("reader alone: ReadBytes%v over %d bytes -> buffer lengths %v", s, inLen, bufs))
	}
}

// ---------------------------------------------------------------------------
// time: doubling experiments

type c08Family struct {
	name   string
	format string
	rules  bool
	prefix []byte
	unit   []byte
	suffix func(n int) []byte
}

func c08Families() []c08Family {
	rep := func(b byte) func(int) []byte { return func(n int) []byte { return bytes.Repeat([]byte{b}, n) } }
	none := func(int) []byte { return nil }
	fs := []c08Family{}
	for _, rules := range []bool{false, true} {
		r := "bare"
		if rules {
			r = "rules"
		}
		fs = append(fs,
			c08Family{"cbe/" + r + "/nested-lists", "cbe", rules, []byte{0x81, 0}, []byte{0x9a}, rep(0x9b)},
			c08Family{"cbe/" + r + "/nested-maps", "cbe", rules, []byte{0x81, 0}, []byte{0x99, 1}, func(n int) []byte { return append([]byte{1}, bytes.Repeat([]byte{0x9b}, n)...) }},
			c08Family{"cbe/" + r + "/small-ints", "cbe", rules, []byte{0x81, 0, 0x9a}, []byte{5}, func(int) []byte { return []byte{0x9b} }},
			c08Family{"cbe/" + r + "/empty-strings", "cbe", rules, []byte{0x81, 0, 0x9a}, []byte{0x80}, func(int) []byte { return []byte{0x9b} }},
			c08Family{"cbe/" + r + "/one-byte-chunks", "cbe", rules, []byte{0x81, 0, 0x90}, []byte{3, 'a'}, func(int) []byte { return []byte{0} }},
			c08Family{"cbe/" + r + "/empty-chunks", "cbe", rules, []byte{0x81, 0, 0x93}, []byte{1}, func(int) []byte { return []byte{0} }},
			c08Family{"cbe/" + r + "/map-int-keys", "cbe", rules, []byte{0x81, 0, 0x99}, nil, nil}, // filled below (distinct keys)
			c08Family{"cbe/" + r + "/long-uleb-chunk-header", "cbe", rules, []byte{0x81, 0, 0x93}, []byte{0x80}, func(int) []byte { return []byte{0} }},
			c08Family{"cbe/" + r + "/long-uleb-version", "cbe", rules, []byte{0x81}, []byte{0x80}, func(int) []byte { return []byte{0, 1} }},
			c08Family{"cbe/" + r + "/long-uleb-decimal-coefficient", "cbe", rules, []byte{0x81, 0, 0x76, 0x04}, []byte{0xff}, func(int) []byte { return []byte{1} }},
			c08Family{"cbe/" + r + "/one-long-string", "cbe", rules, nil, nil, nil}, // header depends on n
		)
	}
	fs = append(fs,
		c08Family{"cte/rules/nested-lists", "cte", true, []byte("c0 "), []byte("["), rep(']')},
		c08Family{"cte/rules/small-ints", "cte", true, []byte("c0 ["), []byte("1 "), func(int) []byte { return []byte("]") }},
		c08Family{"cte/rules/long-number", "cte", true, []byte("c0 1"), []byte("0"), none},
		c08Family{"cte/rules/long-string", "cte", true, []byte("c0 \""), []byte("a"), func(int) []byte { return []byte("\"") }},
		c08Family{"cte/rules/map-pairs", "cte", true, []byte("c0 ["), []byte("{1=2} "), func(int) []byte { return []byte("]") }},
	)
	return fs
}

// job for family member of size n (n units)
func c08FamilyJob(f c08Family, n int, reps int) c08Job {
	j := c08Job{Format: f.format, Rules: f.rules, MaxArray: 1 << 30, Reps: reps}
	switch {
	case strings.HasSuffix(f.name, "/one-long-string"):
		j.Prefix = cat([]byte{0x81, 0, 0x90}, c08ChunkHeader(uint64(n), false))
		j.Unit, j.Count = []byte{'a'}, n
	case strings.HasSuffix(f.name, "/map-int-keys"):
		// distinct 16-bit keys (6a lo hi) with value 1: n pairs, keys cycle through 65536 values only when n is larger
		b := make([]byte, 0, 4*n+4)
		b = append(b, f.prefix...)
		for i := 0; i < n; i++ {
			b = append(b, 0x6c, byte(i), byte(i>>8), byte(i>>16), byte(i>>24), 1)
		}
		j.Prefix = append(b, 0x9b)
	default:
		j.Prefix, j.Unit, j.Count = f.prefix, f.unit, n
		j.Suffix = f.suffix(n)
	}
	return j
}

// c08SuperlinearRun: longest run of consecutive doublings whose CPU time grows by more than 3x, counting only
// steps that start above the noise floor (2 ms).
func c08SuperlinearRun(cpu []uint64) int {
	run, worst := 0, 0
	for i := 1; i < len(cpu); i++ {
		if cpu[i-1] >= 2e6 && cpu[i] != 0 && float64(cpu[i]) > 3*float64(cpu[i-1]) {
			run++
			if run > worst {
				worst = run
			}
		} else {
			run = 0
		}
	}
	return worst
}

func c08TimeExperiments(c *Ctx) {
	// sizes: units, doubling
	lo, hi := 1<<11, c.Pick(1<<18, 1<<22)
	reps := 3
	type fres struct {
		sizes []int
		cpu   []uint64
		alloc []uint64
		lens  []int
		note  []string
	}
	all := map[string]*fres{}
	fams := c08Families()
	jobs := []c08Job{}
	owner := []string{}
	for _, f := range fams {
		top, bot := hi, lo
		if f.format == "cte" {
			bot, top = 1<<9, c.Pick(1<<13, 1<<15) // the ANTLR front end is slow (microseconds per byte): keep CTE members small
			if strings.HasSuffix(f.name, "nested-lists") && top > 1<<12 {
				top = 1 << 12 // recursive descent: deeper nesting overflows the goroutine stack
			}
		}
		all[f.name] = &fres{}
		for n := bot; n <= top; n *= 2 {
			all[f.name].sizes = append(all[f.name].sizes, n)
			jobs = append(jobs, c08FamilyJob(f, n, reps))
			owner = append(owner, f.name)
		}
	}
	rs := c08Parallel(jobs, 6<<30, 120*time.Second, 4)
	for i, r := range rs {
		fr := all[owner[i]]
		fr.lens = append(fr.lens, jobs[i].docLen())
		if r.Killed {
			fr.cpu = append(fr.cpu, 0)
			fr.alloc = append(fr.alloc, 0)
			fr.note = append(fr.note, "died: "+r.Note)
		} else {
			fr.cpu = append(fr.cpu, r.CPU)
			fr.alloc = append(fr.alloc, r.Alloc)
			fr.note = append(fr.note, fmt.Sprintf("err=%v", r.Err))
		}
	}
	names := []string{}
	for n := range all {
		names = append(names, n)
	}
	sort.Strings(names)
	report := map[string]interface{}{}
	for _, name := range names {
		fr := all[name]
		ratios := []float64{}
		run, worst := 0, 0
		for i := range fr.sizes {
			c.Count("time/"+name+"/"+fmt.Sprint(fr.sizes[i]), true)
			c.Dist("time-family/" + name)
			if i == 0 {
				continue
			}
			if fr.cpu[i-1] == 0 || fr.cpu[i] == 0 {
				ratios = append(ratios, 0)
				run = 0
				continue
			}
			q := float64(fr.cpu[i]) / float64(fr.cpu[i-1])
			ratios = append(ratios, q)
			// only measurements above the noise floor (2 ms) take part in the verdict
			if q > 3 && fr.cpu[i-1] >= 2e6 {
				run++
				if run > worst {
					worst = run
				}
			} else {
				run = 0
			}
		}
		last := len(fr.sizes) - 1
		perByte, allocPerByte := 0.0, 0.0
		if last >= 0 && fr.lens[last] > 0 {
			perByte = float64(fr.cpu[last]) / float64(fr.lens[last])
			allocPerByte = float64(fr.alloc[last]) / float64(fr.lens[last])
		}
		report[name] = map[string]interface{}{"units": fr.sizes, "doc_bytes": fr.lens, "cpu_ns": fr.cpu, "alloc_bytes": fr.alloc, "ratio_per_doubling": ratios,
			"ns_per_byte_at_largest": perByte, "alloc_per_byte_at_largest": allocPerByte, "outcome": fr.note}
		died := false
		for _, n := range fr.note {
			if strings.HasPrefix(n, "died") {
				died = true
			}
		}
		if worst >= 3 {
			// timing on a shared machine is noisy: a family is reported only when a second, more careful
			// measurement (fresh child, 5 repetitions per member) shows the same picture
			c.Dist("time/suspect-families-remeasured")
			var fam c08Family
			for _, f := range fams {
				if f.name == name {
					fam = f
				}
			}
			jobs2 := []c08Job{}
			for _, n := range fr.sizes {
				jobs2 = append(jobs2, c08FamilyJob(fam, n, 5))
			}
			cpu2 := []uint64{}
			for _, x := range c08RunChild(jobs2, 6<<30, 300*time.Second) {
				cpu2 = append(cpu2, x.CPU)
			}
			if c08SuperlinearRun(cpu2) >= 3 && !strings.HasPrefix(name, "cbe/") {
				// CTE is measured only (the ANTLR front end is outside the model and outside this property's oracle)
				c.Dist("time/cte-superlinear-suspect(reported only)/" + name)
			} else if c08SuperlinearRun(cpu2) >= 3 {
				c.Fail(Replay{Kind: "time", Key: "C08/time-superlinear/" + name, Input: map[string]string{"family": name, "lo": fmt.Sprint(fr.sizes[0]), "hi": fmt.Sprint(fr.sizes[last])},
					Expect: "CPU time per doubling of the document grows by a factor of at most 3 (roughly linear)", Got: fmt.Sprintf("cpu ns per member %v, re-measured %v", fr.cpu, cpu2)})
			}
		}
		if died && !strings.HasPrefix(name, "cbe/") {
			c.Dist("time/cte-process-died(reported only)/" + name)
		} else if died {
			c.Fail(Replay{Kind: "time", Key: "C08/died/" + name, Input: map[string]string{"family": name, "lo": fmt.Sprint(fr.sizes[0]), "hi": fmt.Sprint(fr.sizes[last])},
				Expect: "decode returns (value or error)", Got: fmt.Sprintf("%v", fr.note)})
		}
		// allocation bound on the big family members as well (CBE only; CTE is measured only)
		if strings.HasPrefix(name, "cbe/") {
			for i := range fr.sizes {
				j := c08Job{MaxArray: 1 << 30, Prefix: make([]byte, 0)}
				b := c08K*uint64(fr.lens[i]) + 2*j.MaxArray + c08C0
				if fr.alloc[i] > b {
					c.Fail(Replay{Kind: "time", Key: "C08/alloc/family/" + name, Input: map[string]string{"family": name, "lo": fmt.Sprint(fr.sizes[i]), "hi": fmt.Sprint(fr.sizes[i])},
						Expect: fmt.Sprintf("at most %d bytes", b), Got: fmt.Sprint(fr.alloc[i])})
				}
			}
		}
	}
	c.Rep.Extra["time_families"] = report
}

// ---------------------------------------------------------------------------
// (g) CBE sequences inside ONE document: a large array of kind A (long form, in chunks) followed by many tiny
// long-form arrays of kind B, through decoder (-> rules). The arrays share the reader's buffer and, with a
// validator, Context.builtArrayBuffer / the chunk accounting: whatever the first array made them grow to must not
// be paid again by every later array. Either half alone is linear; the product (largest earlier array) x (number
// of later arrays) is what the bound excludes. Members scale both halves together (k = 1, 4, 16: 16k KiB + 250k
// tiny arrays), judged against the absolute bound (c08Bound, MaxArraySizeBytes 1 MiB) and against growth of the
// allocation per document byte between the smallest and the largest member (at most twice).

type c08Arr struct {
	name    string
	typ     []byte // type code(s) (and custom type / media type) before the first chunk header
	bits    uint64
	strlike bool // accumulated by the validator (builtArrayBuffer)
	group   string
}

func c08ArrKinds() []c08Arr {
	out := []c08Arr{}
	for _, f := range c08Fields() {
		if !f.array || !strings.HasPrefix(f.name, "chunk/") {
			continue
		}
		h := f.head(0)
		a := c08Arr{name: strings.TrimPrefix(f.name, "chunk/"), typ: h[:len(h)-1], bits: f.bits, group: "typed"}
		switch a.name {
		case "string", "rid", "remote", "referenceremote", "resourceid":
			a.strlike, a.group = true, "stringlike"
		case "custom", "mediadata":
			a.group = "binary"
		}
		out = append(out, a)
	}
	return out
}

// long form of an array with nbytes of data (a multiple of the element size), in chunks of chunkBytes
func (a c08Arr) encode(nbytes, chunkBytes int) []byte {
	elems := func(nb int) uint64 { return uint64(nb) * 8 / a.bits }
	out := append([]byte{}, a.typ...)
	for nbytes > chunkBytes {
		out = append(out, c08ChunkHeader(elems(chunkBytes), true)...)
		out = append(out, bytes.Repeat([]byte{'a'}, chunkBytes)...)
		nbytes -= chunkBytes
	}
	out = append(out, c08ChunkHeader(elems(nbytes), false)...)
	return append(out, bytes.Repeat([]byte{'a'}, nbytes)...)
}

// the same bytes as a compact Coq term (lrep / nrep of CE.Model.Cost): long list literals overflow coqc's parser
func (a c08Arr) encodeTerm(nbytes, chunkBytes int) string {
	elems := func(nb int) uint64 { return uint64(nb) * 8 / a.bits }
	parts := []string{cBytes(a.typ)}
	if full := (nbytes - 1) / chunkBytes; full > 0 {
		parts = append(parts, fmt.Sprintf("lrep (%s ++ nrep 97 %d) %d", cBytes(c08ChunkHeader(elems(chunkBytes), true)), chunkBytes, full))
		nbytes -= full * chunkBytes
	}
	parts = append(parts, cBytes(c08ChunkHeader(elems(nbytes), false)), fmt.Sprintf("nrep 97 %d", nbytes))
	return strings.Join(parts, " ++ ")
}

func (a c08Arr) tiny() []byte {
	nb := int(a.bits / 8)
	if nb == 0 {
		nb = 1
	}
	return a.encode(nb, nb)
}

type c08SeqFam struct {
	a, b  c08Arr
	rules bool
	chunk int
	big   func(nbytes int) []byte
	name  string
}

func c08SeqJob(f c08SeqFam, k int) c08Job {
	return c08Job{Format: "cbe", Rules: f.rules, MaxArray: 1 << 20, Reps: 1,
		Prefix: cat([]byte{0x81, 0, 0x9a}, f.big(k*16<<10)), Unit: f.b.tiny(), Count: 250 * k, Suffix: []byte{0x9b}}
}

const c08SeqExpectGrowth = "allocation per document byte does not grow when both halves of the sequence grow: the largest member needs at most twice the per-byte allocation of the smallest (checked when it allocates at least one byte per document byte)"

func c08Sequences(c *Ctx) {
	cf := c.Cases("seqcost", "CE.Model.Cost", "cost_case", "cost_case_ok")
	cf.perFile = 8
	kinds := c08ArrKinds()
	fams := []c08SeqFam{}
	chunkSizes := []int{16, 64, 256, 1024, 4096, 1 << 20}
	for _, a := range kinds {
		for _, b := range kinds {
			// quick: every pair in which a validator-accumulated kind takes part, a sample of the others
			if !c.Thorough() && !a.strlike && !b.strlike && c.Rng.Intn(8) != 0 {
				continue
			}
			for _, rules := range []bool{true, false} {
				if !rules && !c.Thorough() && c.Rng.Intn(4) != 0 {
					continue // without a validator only the reader's buffer is shared
				}
				a, b := a, b
				ch := chunkSizes[c.Rng.Intn(len(chunkSizes))]
				fams = append(fams, c08SeqFam{a: a, b: b, rules: rules, chunk: ch, name: fmt.Sprintf("%s(chunks of %d)-then-%s/rules=%v", a.name, ch, b.name, rules),
					big: func(n int) []byte { return a.encode(n, ch) }})
			}
		}
	}
	// a large MEDIA TYPE (one length-prefixed string, handed over whole) followed by tiny arrays
	for _, b := range kinds {
		if !c.Thorough() && c.Rng.Intn(3) != 0 {
			continue
		}
		b := b
		mt := c08Arr{name: "mediatype", group: "mediatype"}
		fams = append(fams, c08SeqFam{a: mt, b: b, rules: true, name: "mediatype-then-" + b.name + "/rules=true",
			big: func(n int) []byte {
				return cat([]byte{0x7f, 0xf3}, c08Uleb(uint64(n)), []byte("a/"), bytes.Repeat([]byte{'b'}, n-2), []byte{0})
			}})
	}
	ks := []int{1, 4, 16}
	jobs := []c08Job{}
	for _, f := range fams {
		for _, k := range ks {
			jobs = append(jobs, c08SeqJob(f, k))
		}
	}
	rs := c08Parallel(jobs, c08CapSmall, 120*time.Second, 10)
	maxRatio, maxGrowth := 0.0, 0.0
	for fi, f := range fams {
		rl := "off"
		if f.rules {
			rl = "on"
		}
		key := fmt.Sprintf("rules-%s/%s-then-%s", rl, f.a.group, f.b.group)
		for ki, k := range ks {
			j, r := jobs[fi*len(ks)+ki], rs[fi*len(ks)+ki]
			c.Count(fmt.Sprintf("seq/%s/%d", f.name, k), true)
			c.Dist("alloc-seq/" + key)
			outc := "ok"
			if r.Killed {
				outc = "process-died"
			} else if r.Err {
				outc = "error"
			}
			c.Dist("alloc-seq/outcome=" + outc)
			ok, detail := c08Verdict(j, r, c08CapSmall)
			if !r.Killed {
				if q := float64(r.Alloc) / float64(c08Bound(j)); q > maxRatio {
					maxRatio = q
				}
			}
			in := map[string]string{"family": f.name, "rules": fmt.Sprint(j.Rules), "max_array": fmt.Sprint(j.MaxArray), "prefix_hex": hex.EncodeToString(j.Prefix),
				"unit_hex": hex.EncodeToString(j.Unit), "count": fmt.Sprint(j.Count), "suffix_hex": hex.EncodeToString(j.Suffix)}
			if !ok {
				c.Fail(Replay{Kind: "alloc-seq", Key: "C08/alloc-seq/bound/" + key, Input: in,
					Expect: fmt.Sprintf("at most %d*len + 2*MaxArraySizeBytes + %d = %d bytes allocated", c08K, c08C0, c08Bound(j)), Got: detail})
			}
			if ki == len(ks)-1 {
				j0, r0 := jobs[fi*len(ks)], rs[fi*len(ks)]
				if !r.Killed && !r0.Killed && !r.Err && !r0.Err {
					p0 := float64(r0.Alloc) / float64(j0.docLen())
					p1 := float64(r.Alloc) / float64(j.docLen())
					if g := p1 / p0; g > maxGrowth {
						maxGrowth = g
					}
					// a decode that allocates less than one byte per document byte (rules off: a few dozen bytes in
					// all) has no growth to speak of; the ratio of two such numbers is noise
					if p1 > 2*p0 && p1 >= 1.0 {
						in["ref_prefix_hex"], in["ref_count"] = hex.EncodeToString(j0.Prefix), fmt.Sprint(j0.Count)
						c.Fail(Replay{Kind: "alloc-seq", Key: "C08/alloc-seq/growth/" + key, Input: in, Expect: c08SeqExpectGrowth,
							Got: fmt.Sprintf("%d-byte member: %d bytes allocated = %.1f per byte; %d-byte member: %d = %.1f per byte", j0.docLen(), r0.Alloc, p0, j.docLen(), r.Alloc, p1)})
					}
				}
			}
			// correspondence with the cost model: the smallest member (the model walks a document byte by byte: seconds per
			// 100 KB) of every pair of validator-accumulated kinds and of a sample of the others
			if k == 1 && !r.Killed && f.a.group != "mediatype" && ((f.a.strlike && f.b.strlike) || fi%c.Pick(6, 2) == 0) {
				doc := j.doc()
				term := fmt.Sprintf("(%s ++ %s ++ lrep %s %d ++ %s)", cBytes([]byte{0x81, 0, 0x9a}), f.a.encodeTerm(k*16<<10, f.chunk), cBytes(j.Unit), j.Count, cBytes(j.Suffix))
				cf.Add(cApp("CostRun", c08CfgTerm(j), c08Stop(j, r, false), term, cBool(r.Err), cN(r.Buf), cN(r.Nread), cN(r.Nev), cN(r.Alloc)),
					fmt.Sprintf("sequence %s k=%d (%d bytes) -> err=%v buf=%d nread=%d nev=%d alloc=%d", f.name, k, len(doc), r.Err, r.Buf, r.Nread, r.Nev, r.Alloc))
				c.Dist("alloc-seq/compared-with-model")
			}
		}
	}
	c.Rep.Extra["seq_families"] = len(fams)
	c.Rep.Extra["seq_max_alloc_over_bound"] = maxRatio
	c.Rep.Extra["seq_max_growth_of_per_byte"] = maxGrowth
}

// ---------------------------------------------------------------------------
// (f) CTE: allocation of ONE decode. The CTE decoder is held to the same kind of bound as the CBE decoder,
//     alloc <= c08KCte*len + 2*MaxArraySizeBytes + c08C0Cte
// with a larger (stated) constant: the ANTLR front end keeps a token and a parse-tree node per character (about
// 0.3-0.5 KiB per document byte on the unchanged tree). Every family is a document dominated by ONE long value
// (or one long run of tokens) at doubling sizes, decoded under a small MaxArraySizeBytes so that the limit term
// does not hide anything; besides the absolute bound the allocation PER DOCUMENT BYTE of the largest member
// must not exceed twice that of the 2 KiB member ("a fixed multiple of the document's length").
// String-like values (string, resource ID, remote reference, custom text, media text) are crossed with every
// escape form of the grammar x the distance between escapes x position; top-level members inside the
// alphabet of CE.Model.Cost.cte_pieces are compared with the model as well (CteStrRun).

const (
	c08KCte      = 2048
	c08C0Cte     = 4 << 20
	c08CteMaxArr = 1 << 20
	c08CteRefLen = 2048 // the member the per-byte growth is measured against is the first of at least this length
)

type c08CteFam struct {
	name     string // <group>/<shape>
	group    string // failure-key class
	prefix   []byte
	unit     []byte
	suffix   []byte
	open     int    // > 0: top-level string-like value whose body starts at doc[open] (compared with the model)
	inner    []byte // nesting families: suffix = inner + closer * units
	closer   []byte
	maxUnits int // > 0: no member has more units than this
	maxLen   int // > 0: no member is longer than this many bytes
	// sequence families: the document is prefix + bigOpen + bigUnit*m + bigClose + " " + unit*n + suffix, the large value
	// as long (in bytes) as the run of tiny ones, so that both halves grow together from member to member
	bigOpen, bigUnit, bigClose []byte
}

var c08CteStrKinds = []struct{ name, open string }{
	{"string", `"`}, {"rid", `@"`}, {"remote-ref", `$"`}, {"custom-text", `@7"`}, {"media-text", `@a/b"`},
}

// every escape form of MODE_STRING_ESCAPE (codegen/cte/CTELexer.g4). cp-surrogate / cp-beyond-unicode: since /repo
// 9d7e9c8 parseHexCodepoint refuses them (error path; the model CE.Model.Cost.cte_body says so too) - the families
// stay: the allocation of a decode that ends in an error is held to the same bound.
var c08CteEscapes = []struct {
	name, src string
	model     bool // inside the model's alphabet (verbatim sequences are not)
}{
	{"none", "", true},
	{"lf", `\n`, true}, {"LF", `\N`, true}, {"tab", `\t`, true}, {"cr", `\r`, true}, {"quote", `\"`, true}, {"star", `\*`, true},
	{"slash", `\/`, true}, {"backslash", `\\`, true}, {"shy", `\-`, true}, {"nbsp", `\_`, true},
	{"cp-1byte", `\[41]`, true}, {"cp-2byte", `\[e9]`, true}, {"cp-3byte", `\[4E2D]`, true}, {"cp-4byte", `\[1f600]`, true},
	{"cp-leading-zeros", `\[00000041]`, true}, {"cp-surrogate", `\[d800]`, true}, {"cp-beyond-unicode", `\[110000]`, true},
	{"continuation", "\\\n  \t", true}, {"continuation-crlf", "\\\r\n", true},
	{"verbatim", `\.# xyz#`, false}, {"verbatim-empty", `\.# #`, false}, {"verbatim-long-sentinel", "\\.END\nxy zEND", false},
	{"mixed", "", true},
}

func c08CteWrap(pos string, open string) (prefix, suffix []byte) {
	switch pos {
	case "top":
		return []byte("c0\n" + open), []byte(`"`)
	case "list":
		return []byte("c0\n[1 " + open), []byte(`" 2]`)
	case "mapval":
		return []byte("c0\n{\"k\"=" + open), []byte(`"}`)
	case "second": // the listener's buffer has been used by an earlier value
		return []byte("c0\n[\"" + strings.Repeat("earlier ", 40) + "\" @u8x[01 02 03] " + open), []byte(`"]`)
	case "marked":
		return []byte("c0\n[&m:" + open), []byte(`" $m]`)
	case "commented":
		return []byte("c0\n/* a comment */\n// another\n" + open), []byte("\"\n \t\n")
	}
	panic("bad position " + pos)
}

var c08CtePositions = []string{"list", "mapval", "second", "marked", "commented"}

func c08CteFamilies(c *Ctx) []c08CteFam {
	fs := []c08CteFam{}
	fillers := []string{"abcdefghijklmnopqrstuvwxyzABCDEFGHIJKLMNOPQRSTUVWXYZ0123456789 .,;:!?()[]{}<>=+-_#%&'|~^`@$", "é中ö日本語ΑΒΓ"}
	filler := func(n int) string {
		out := []rune{}
		src := []rune(fillers[0])
		if c.Rng.Intn(4) == 0 {
			src = append(src, []rune(fillers[1])...)
		}
		off := c.Rng.Intn(len(src))
		for i := 0; i < n; i++ {
			out = append(out, src[(off+i*7)%len(src)])
		}
		return string(out)
	}
	spacings := []int{0, 1, 3, 8, 20, 48}
	if c.Thorough() {
		spacings = append(spacings, 128)
	}
	for _, k := range c08CteStrKinds {
		for _, e := range c08CteEscapes {
			sps := spacings
			if !c.Thorough() {
				// quick: one of the distances per (kind, escape)
				sps = []int{spacings[c.Rng.Intn(len(spacings))]}
			}
			for si, sp := range sps {
				if e.name == "none" && sp == 0 {
					sp = 10
				}
				unit := ""
				if e.name == "mixed" {
					for _, e2 := range c08CteEscapes {
						if e2.src != "" && e2.model {
							unit += filler(sp) + e2.src
						}
					}
					unit += "x" // a continuation swallows white space: the unit must not start with any after one
				} else {
					f := filler(sp)
					if strings.HasPrefix(e.name, "continuation") || strings.HasPrefix(e.name, "verbatim") {
						f = strings.TrimLeft(f, " ") + "x"
					}
					unit = f + e.src
				}
				// top level (compared with the model) or one of the other positions
				pos := "top"
				if (si+len(fs))%2 == 1 {
					pos = c08CtePositions[c.Rng.Intn(len(c08CtePositions))]
					if pos == "marked" && k.name == "remote-ref" {
						pos = "list" // a remote reference cannot be marked
					}
				}
				prefix, suffix := c08CteWrap(pos, k.open)
				fam := c08CteFam{name: fmt.Sprintf("stringlike/%s/%s/every-%d/%s", k.name, e.name, sp, pos), group: "stringlike-" + k.name, prefix: prefix, unit: []byte(unit), suffix: suffix}
				if pos == "top" && e.model {
					fam.open = len(prefix)
				}
				if strings.HasPrefix(e.name, "verbatim") {
					// the lexer's sentinel predicates make verbatim sequences expensive in TIME (reported by the time
					// stage's policy for CTE: measured only); the members stay small
					fam.maxLen = c.Pick(8<<10, 16<<10)
				}
				fs = append(fs, fam)
			}
		}
	}
	add := func(group, shape, prefix, unit, suffix string) {
		fs = append(fs, c08CteFam{name: group + "/" + shape, group: group + "/" + shape, prefix: []byte("c0\n" + prefix), unit: []byte(unit), suffix: []byte(suffix)})
	}
	// one long typed array / binary blob
	add("typed-array", "u8x", "@u8x[", "ff ", "]")
	add("typed-array", "u8", "@u8[", "255 ", "]")
	add("typed-array", "u8b", "@u8b[", "10101010 ", "]")
	add("typed-array", "i8o", "@i8o[", "-177 ", "]")
	add("typed-array", "i16", "@i16[", "-12345 0x7fff ", "]")
	add("typed-array", "u16x", "@u16x[", "ffff ", "]")
	add("typed-array", "i32", "@i32[", "-2147483648 ", "]")
	add("typed-array", "u32b", "@u32b[", "1 ", "]")
	add("typed-array", "i64x", "@i64x[", "-7fffffffffffffff ", "]")
	add("typed-array", "u64", "@u64[", "18446744073709551615 ", "]")
	add("typed-array", "f16", "@f16[", "1.5 ", "]")
	add("typed-array", "f32", "@f32[", "-1.25e10 nan inf ", "]")
	add("typed-array", "f32x", "@f32x[", "1.8p3 ", "]")
	add("typed-array", "f64", "@f64[", "3.141592653589793 ", "]")
	add("typed-array", "f64x", "@f64x[", "-1.fp-10 snan ", "]")
	add("typed-array", "bit", "@b[", "1011001110001111 ", "]")
	add("typed-array", "bit-unbroken", "@b[", "1", "]")
	add("typed-array", "uid", "@uid[", "01234567-89ab-cdef-0123-456789abcdef ", "]")
	add("binary", "custom", "@7[00", " ab", "]")
	add("binary", "media", "@application/x-thing[00", "\nab", "]")
	// comments
	add("comment", "one-block", "/* ", "comment text ", "*/ 1")
	add("comment", "one-line", "// ", "comment text ", "\n1")
	add("comment", "many-lines", "", "// c\n", "1")
	add("comment", "many-blocks", "", "/* c */ ", "1")
	add("comment", "in-list", "[", "1 /* c */ ", "]")
	// one long number
	add("number", "decimal-int", "1", "0", "")
	add("number", "hex-int", "-0xf", "f", "")
	add("number", "binary-int", "0b1", "01", "")
	add("number", "decimal-fraction", "1.", "7", "")
	add("number", "hex-float", "0x1.", "a", "p10")
	// many tiny tokens
	add("tokens", "ints", "[", "1 ", "]")
	add("tokens", "nulls-bools", "[", "null true false ", "]")
	add("tokens", "floats-times", "[", "1.5 2000-01-01 12:00:00 ", "]")
	add("tokens", "uids", "[", "01234567-89ab-cdef-0123-456789abcdef ", "]")
	add("tokens", "short-strings", "[", `"ab" `, "]")
	add("tokens", "short-escaped-strings", "[", `"a\nb\t\[41]" `, "]")
	add("tokens", "short-rids", "[", `@"a:b" `, "]")
	add("tokens", "short-arrays", "[", `@u8x[01 02] @b[101] `, "]")
	add("tokens", "map-pairs", "[", "{1=2} ", "]")
	add("tokens", "map-string-keys", "{", "", "}") // filled per member (distinct keys)
	add("tokens", "empty-containers", "[", "[] {} ", "]")
	add("tokens", "nodes-edges", "[", "(1 2 3) @(1 2 3) ", "]")
	add("tokens", "references", "[&m:\"marked\" ", "$m ", "]")
	add("tokens", "records", "@r<a b c>\n[", "@r{1 2 3} ", "]")
	add("tokens", "white-space", "[", "  \n\t ", "1]")
	// sequences: one large value of kind A, then many tiny values of kind B, in one list (the listener's arrayData and
	// the validator's buffers are shared by all of them); both halves grow together (see c08CteJob)
	{
		bigs := []struct{ name, open, unit, close string }{
			{"string", `"`, "abcdefg\\n", `"`}, {"rid", `@"`, "abcdefgh", `"`}, {"remote-ref", `$"`, "abc\\[e9]", `"`}, {"custom-text", `@7"`, "abcdefgh", `"`},
			{"media-text", `@a/b"`, "abcd\\tef", `"`}, {"u8x", "@u8x[", "ab ", "]"}, {"u16", "@u16[", "4660 ", "]"}, {"f64", "@f64[", "1.5 ", "]"},
			{"bit", "@b[", "10110011", "]"}, {"uid", "@uid[", "01234567-89ab-cdef-0123-456789abcdef ", "]"}, {"custom-binary", "@7[00", " ab", "]"}, {"media-binary", "@a/b[00", " ab", "]"},
		}
		tinies := []struct{ name, src string }{
			{"string", `"a" `}, {"escaped-string", `"\\n" `}, {"rid", `@"a" `}, {"remote-ref", `$"a" `}, {"custom-text", `@7"a" `}, {"media-text", `@a/b"a" `},
			{"u8x", "@u8x[01] "}, {"i32", "@i32[-1] "}, {"f32", "@f32[1.5] "}, {"bit", "@b[1] "}, {"uid", "@uid[01234567-89ab-cdef-0123-456789abcdef] "},
			{"custom-binary", "@7[01] "}, {"media-binary", "@a/b[01] "},
		}
		for _, a := range bigs {
			for _, b := range tinies {
				if !c.Thorough() && c.Rng.Intn(12) != 0 {
					continue
				}
				add("sequence", a.name+"-then-"+b.name, "[", b.src, "]")
				fs[len(fs)-1].bigOpen, fs[len(fs)-1].bigUnit, fs[len(fs)-1].bigClose = []byte(a.open), []byte(a.unit), []byte(a.close)
			}
		}
	}
	// nesting: the recursive-descent parser limits the depth (a few thousand levels), so these families stay small
	nest := func(shape, unit, inner, closer string) {
		fs = append(fs, c08CteFam{name: "nesting/" + shape, group: "nesting", prefix: []byte("c0\n"), unit: []byte(unit), inner: []byte(inner), closer: []byte(closer), maxUnits: 2048})
	}
	nest("lists", "[", "", "]")
	nest("maps", "{1=", "2", "}")
	nest("nodes", "(1 ", "2", ")")
	nest("list-of-map", "[{1=", "2", "}]")
	return fs
}

func c08CteJob(f c08CteFam, units int) c08Job {
	j := c08Job{Format: "cte", Rules: true, MaxArray: c08CteMaxArr, Reps: 1, Prefix: f.prefix, Unit: f.unit, Count: units, Suffix: f.suffix}
	switch {
	case f.name == "tokens/map-string-keys":
		b := append([]byte{}, f.prefix...)
		for i := 0; i < units; i++ {
			b = append(b, fmt.Sprintf("\"k%d\"=%d ", i, i%10)...)
		}
		j.Prefix, j.Unit, j.Count = b, nil, 0
	case f.closer != nil:
		j.Suffix = cat(f.inner, bytes.Repeat(f.closer, units))
	case f.bigUnit != nil:
		m := units * len(f.unit) / len(f.bigUnit)
		j.Prefix = cat(f.prefix, f.bigOpen, bytes.Repeat(f.bigUnit, m), f.bigClose, []byte(" "))
	}
	return j
}

// units of the members of a family: documents of about 2, 8, 32 KiB (quick) / 2, 4, 8 ... 64 KiB (thorough)
func c08CteMembers(c *Ctx, f c08CteFam) []int {
	ul := len(f.unit)
	if f.name == "tokens/map-string-keys" {
		ul = 10
	}
	ul += len(f.closer)
	out := []int{}
	if f.closer != nil {
		return []int{512, 1024, 2048}
	}
	for target := c08CteRefLen; target <= c.Pick(1<<15, 1<<16); target *= c.Pick(4, 2) {
		n := (target + ul - 1) / ul
		if (f.maxUnits > 0 && n > f.maxUnits) || (f.maxLen > 0 && target > f.maxLen) {
			break
		}
		out = append(out, n)
	}
	return out
}

// Families on which the UNCHANGED tree (/repo afaa1e5) already shows allocation growing faster than the document.
// They are measured and reported (distribution bucket "cte-alloc/reported-only/...", Extra "cte_alloc_families")
// but do not fail the check: the decision between a fix and a known finding is the lead's. Witnesses:
//   - one long number: `c0 1000...0` of 64 KiB allocates 158 bytes per byte, the 2 KiB one 18 (doubling the
//     document doubles the per-byte cost: quadratic; hex / binary integers and float spellings alike);
//   - a record type followed by a list of records (`c0 @r<a b c> [@r{1 2 3} ...]`, refused by the rules):
//     490 MB for a 64 KiB document (7475 per byte), 1.3 MB for a 2 KiB one (631 per byte).
var c08CteReportedOnly = []string{}

func c08CteIsReportedOnly(name string) bool {
	for _, p := range c08CteReportedOnly {
		if strings.HasPrefix(name, p) {
			return true
		}
	}
	return false
}

func c08CteBound(j c08Job) uint64 { return c08KCte*uint64(j.docLen()) + 2*j.MaxArray + c08C0Cte }

const c08CteExpectBound = "CTE decode allocates at most 2048*len + 2*MaxArraySizeBytes + 4 MiB"
const c08CteExpectGrowth = "allocation per document byte does not grow with the document: the largest member of a family needs at most twice the per-byte allocation of its 2 KiB member"

// verdict on one member against the absolute bound
func c08CteVerdict(j c08Job, r c08Res) (bool, string) {
	if r.Killed {
		return false, "decode did not return: " + r.Note
	}
	if b := c08CteBound(j); r.Alloc > b {
		return false, fmt.Sprintf("allocated %d bytes for a %d-byte document = %d per byte (bound %d)", r.Alloc, j.docLen(), r.Alloc/uint64(j.docLen()), b)
	}
	return true, fmt.Sprintf("allocated %d bytes for a %d-byte document", r.Alloc, j.docLen())
}

// verdict on the growth between the reference member and a larger one
func c08CteGrowth(jr c08Job, rr c08Res, jl c08Job, rl c08Res) (bool, string) {
	if rr.Killed || rl.Killed || jr.docLen() == 0 || jl.docLen() <= jr.docLen() {
		return true, "not judged"
	}
	pr := float64(rr.Alloc) / float64(jr.docLen())
	pl := float64(rl.Alloc) / float64(jl.docLen())
	detail := fmt.Sprintf("%d-byte member: %d bytes allocated = %.0f per byte; %d-byte member: %d = %.0f per byte", jr.docLen(), rr.Alloc, pr, jl.docLen(), rl.Alloc, pl)
	return pl <= 2*pr, detail
}

// replay input of a member; ref (optional) is the reference member of a growth verdict
func c08CteReplayInput(f c08CteFam, j c08Job, ref *c08Job) map[string]string {
	m := map[string]string{"family": f.name, "prefix_hex": hex.EncodeToString(j.Prefix), "unit_hex": hex.EncodeToString(j.Unit), "suffix_hex": hex.EncodeToString(j.Suffix),
		"count": fmt.Sprint(j.Count), "max_array": fmt.Sprint(j.MaxArray)}
	if ref != nil {
		m["ref_prefix_hex"], m["ref_suffix_hex"], m["ref_count"] = hex.EncodeToString(ref.Prefix), hex.EncodeToString(ref.Suffix), fmt.Sprint(ref.Count)
	}
	return m
}

// code points of a body as a Coq term: (lrep unit count ++ tail)
func c08CodepointsTerm(b []byte) string {
	items := []string{}
	for _, r := range string(b) {
		items = append(items, fmt.Sprint(int(r)))
	}
	return "[" + strings.Join(items, ";") + "]"
}

func c08CteAlloc(c *Ctx) {
	cf := c.Cases("ctecost", "CE.Model.Cost", "cost_case", "cost_case_ok")
	cf.perFile = 40
	fams := c08CteFamilies(c)
	type member struct {
		fam   int
		units int
	}
	jobs := []c08Job{}
	ms := []member{}
	for fi, f := range fams {
		for _, n := range c08CteMembers(c, f) {
			jobs = append(jobs, c08CteJob(f, n))
			ms = append(ms, member{fi, n})
		}
	}
	// interleave so that every child gets a mix of small and large members
	order := c.Rng.Perm(len(jobs))
	shuffled := make([]c08Job, len(jobs))
	for k, i := range order {
		shuffled[k] = jobs[i]
	}
	rs0 := c08Parallel(shuffled, 6<<30, 120*time.Second, 12)
	rs := make([]c08Res, len(jobs))
	for k, i := range order {
		rs[i] = rs0[k]
	}
	report := map[string]interface{}{}
	maxPerByte, maxGrowth := 0.0, 0.0
	maxPerByteFam, maxGrowthFam := "", ""
	for fi, f := range fams {
		idx := []int{}
		for i, m := range ms {
			if m.fam == fi {
				idx = append(idx, i)
			}
		}
		lens, allocs, errs, cpus := []int{}, []uint64{}, []bool{}, []uint64{}
		ref := -1
		for _, i := range idx {
			j, r := jobs[i], rs[i]
			lens = append(lens, j.docLen())
			allocs = append(allocs, r.Alloc)
			errs = append(errs, r.Err)
			cpus = append(cpus, r.CPU/1000000)
			c.Count(fmt.Sprintf("cte-alloc/%s/%d", f.name, ms[i].units), j.docLen() >= 1024)
			c.Dist("cte-alloc/group=" + f.group)
			outc := "ok"
			if r.Killed {
				outc = "died"
			} else if r.Err {
				outc = "error"
			}
			c.Dist("cte-alloc/outcome=" + outc)
			if ref < 0 && j.docLen() >= c08CteRefLen && !r.Killed {
				ref = i
			}
			if !r.Killed {
				if pb := float64(r.Alloc) / float64(j.docLen()); pb > maxPerByte && j.docLen() >= c08CteRefLen {
					maxPerByte, maxPerByteFam = pb, f.name
				}
			}
			if ok, detail := c08CteVerdict(j, r); !ok && c08CteIsReportedOnly(f.name) {
				c.Dist("cte-alloc/reported-only/bound-exceeded/" + f.name)
			} else if !ok {
				c.Fail(Replay{Kind: "cte-alloc", Key: "C08/cte-alloc/bound/" + f.group, Input: c08CteReplayInput(f, j, nil), Expect: c08CteExpectBound, Got: detail})
			}
			// correspondence with the model: top-level string-like values inside its alphabet
			if f.open > 0 && !r.Killed && j.docLen() <= 33<<10 { // larger members: oracle only (keeps the case files small)
				body := c08CodepointsTerm(f.unit)
				term := cApp("CteStrRun", cN(j.MaxArray), cN(uint64(j.docLen())),
					fmt.Sprintf("(%s ++ lrep %s %d ++ %s)", c08CodepointsTerm(f.prefix[f.open:]), body, j.Count, c08CodepointsTerm(f.suffix)),
					cBool(r.Err), cN(r.Nev), cN(r.Pay), cN(r.Alloc))
				cf.Add(term, fmt.Sprintf("cte %s x %d units (%d bytes) -> err=%v nev=%d payload=%d alloc=%d", f.name, j.Count, j.docLen(), r.Err, r.Nev, r.Pay, r.Alloc))
				c.Dist("cte-alloc/compared-with-model")
			}
		}
		if ref >= 0 {
			last := idx[len(idx)-1]
			if last != ref {
				ok, detail := c08CteGrowth(jobs[ref], rs[ref], jobs[last], rs[last])
				if !rs[last].Killed {
					g := (float64(rs[last].Alloc) / float64(jobs[last].docLen())) / (float64(rs[ref].Alloc) / float64(jobs[ref].docLen()))
					if g > maxGrowth {
						maxGrowth, maxGrowthFam = g, f.name
					}
				}
				if !ok && c08CteIsReportedOnly(f.name) {
					c.Dist("cte-alloc/reported-only/per-byte-growth/" + f.name)
				} else if !ok {
					c.Fail(Replay{Kind: "cte-alloc", Key: "C08/cte-alloc/growth/" + f.group, Input: c08CteReplayInput(f, jobs[last], &jobs[ref]), Expect: c08CteExpectGrowth, Got: detail})
				}
			}
		}
		if len(c.Rep.Samples) < 8 && fi%41 == 0 && len(idx) > 0 {
			last := idx[len(idx)-1]
			c.Sample(map[string]string{"family": "cte-alloc/" + f.name, "doc_prefix": c08Trunc(string(jobs[last].doc()[:min(len(jobs[last].doc()), 120)])), "doc_bytes": fmt.Sprint(lens), "alloc_bytes": fmt.Sprint(allocs)})
		}
		report[f.name] = map[string]interface{}{"doc_bytes": lens, "alloc_bytes": allocs, "err": errs, "cpu_ms": cpus}
	}
	c.Rep.Extra["cte_alloc_families"] = report
	c.Rep.Extra["cte_alloc_bound"] = fmt.Sprintf("%d*len + 2*MaxArraySizeBytes + %d (MaxArraySizeBytes = %d)", c08KCte, c08C0Cte, c08CteMaxArr)
	c.Rep.Extra["cte_alloc_max_per_byte"] = fmt.Sprintf("%.0f (%s)", maxPerByte, maxPerByteFam)
	c.Rep.Extra["cte_alloc_max_growth_of_per_byte"] = fmt.Sprintf("%.2f (%s)", maxGrowth, maxGrowthFam)
}

// ---------------------------------------------------------------------------
// replay

func replayC08(r *Replay) (bool, string) {
	switch r.Kind {
	case "alloc":
		doc, err := hex.DecodeString(r.Input["doc_hex"])
		if err != nil {
			return false, "bad replay input"
		}
		ma, _ := strconv.ParseUint(r.Input["max_array"], 10, 64)
		capv, _ := strconv.ParseUint(r.Input["cap"], 10, 64)
		if capv == 0 {
			capv = c08CapSmall
		}
		j := c08Job{Format: "cbe", Rules: r.Input["rules"] == "true", MaxArray: ma, Prefix: doc, Reps: 1}
		res := c08RunChild([]c08Job{j}, capv, 60*time.Second)[0]
		return c08Verdict(j, res, capv)
	case "alloc-seq":
		unhex := func(k string) []byte { b, _ := hex.DecodeString(r.Input[k]); return b }
		ma, _ := strconv.ParseUint(r.Input["max_array"], 10, 64)
		n, _ := strconv.Atoi(r.Input["count"])
		j := c08Job{Format: "cbe", Rules: r.Input["rules"] == "true", MaxArray: ma, Prefix: unhex("prefix_hex"), Unit: unhex("unit_hex"), Count: n, Suffix: unhex("suffix_hex"), Reps: 1}
		res := c08RunChild([]c08Job{j}, c08CapSmall, 300*time.Second)[0]
		ok, detail := c08Verdict(j, res, c08CapSmall)
		if _, growth := r.Input["ref_count"]; growth && ok && !res.Killed {
			j0 := j
			j0.Prefix = unhex("ref_prefix_hex")
			j0.Count, _ = strconv.Atoi(r.Input["ref_count"])
			r0 := c08RunChild([]c08Job{j0}, c08CapSmall, 300*time.Second)[0]
			if r0.Killed || j0.docLen() == 0 {
				return false, "reference member did not return"
			}
			p0, p1 := float64(r0.Alloc)/float64(j0.docLen()), float64(res.Alloc)/float64(j.docLen())
			return p1 <= 2*p0, fmt.Sprintf("%d-byte member: %.1f bytes allocated per byte; %d-byte member: %.1f", j0.docLen(), p0, j.docLen(), p1)
		}
		return ok, detail
	case "cte-alloc":
		unhex := func(k string) []byte { b, _ := hex.DecodeString(r.Input[k]); return b }
		ma, _ := strconv.ParseUint(r.Input["max_array"], 10, 64)
		n, _ := strconv.Atoi(r.Input["count"])
		j := c08Job{Format: "cte", Rules: true, MaxArray: ma, Prefix: unhex("prefix_hex"), Unit: unhex("unit_hex"), Count: n, Suffix: unhex("suffix_hex"), Reps: 1}
		if j.docLen() == 0 {
			return false, "bad replay input"
		}
		res := c08RunChild([]c08Job{j}, 6<<30, 600*time.Second)[0]
		ok, detail := c08CteVerdict(j, res)
		if _, growth := r.Input["ref_count"]; growth && ok {
			jr := j
			jr.Prefix, jr.Suffix = unhex("ref_prefix_hex"), unhex("ref_suffix_hex")
			jr.Count, _ = strconv.Atoi(r.Input["ref_count"])
			rr := c08RunChild([]c08Job{jr}, 6<<30, 600*time.Second)[0]
			ok, detail = c08CteGrowth(jr, rr, j, res)
		}
		return ok, detail
	case "time":
		lo, _ := strconv.Atoi(r.Input["lo"])
		hi, _ := strconv.Atoi(r.Input["hi"])
		for _, f := range c08Families() {
			if f.name != r.Input["family"] {
				continue
			}
			jobs := []c08Job{}
			for n := lo; n <= hi; n *= 2 {
				jobs = append(jobs, c08FamilyJob(f, n, 3))
			}
			rs := c08RunChild(jobs, 6<<30, 300*time.Second)
			cpu := []uint64{}
			run, worst := 0, 0
			died := false
			for i, x := range rs {
				cpu = append(cpu, x.CPU)
				if x.Killed {
					died = true
				}
				if i > 0 && rs[i-1].CPU >= 2e6 && float64(x.CPU) > 3*float64(rs[i-1].CPU) {
					run++
					if run > worst {
						worst = run
					}
				} else {
					run = 0
				}
			}
			return worst < 3 && !died, fmt.Sprintf("family %s sizes %d..%d: cpu ns per member %v (died=%v)", f.name, lo, hi, cpu, died)
		}
		return false, "unknown family " + r.Input["family"]
	}
	return false, "unknown replay kind " + r.Kind
}
