package main

// Shared CBE helpers: generator of Gen/CbeConsts.v, runners for the real
// encoder / decoder, Coq printers for the correspondence cases of
// CE.Model.Cbe (cbe_enc_case / cbe_dec_case), input families.

import (
	"bufio"
	"bytes"
	"encoding/base64"
	"encoding/gob"
	"encoding/hex"
	"fmt"
	"math"
	"math/big"
	"os"
	"os/exec"
	"regexp"
	"strings"
	"syscall"
	"time"

	"github.com/cockroachdb/apd/v2"
	compact_float "github.com/kstenerud/go-compact-float"
	"github.com/kstenerud/go-concise-encoding/cbe"
	"github.com/kstenerud/go-concise-encoding/ce"
	"github.com/kstenerud/go-concise-encoding/ce/events"
	"github.com/kstenerud/go-concise-encoding/configuration"
)

func init() {
	generators = append(generators, genCbeConsts)
	// hidden sub-command: decoder worker process (see cbeDecodeBatch)
	if len(os.Args) >= 2 && os.Args[1] == "cbe-dec-worker" {
		cbeDecWorker()
		os.Exit(0)
	}
}

// ---------------------------------------------------------------------------
// Gen/CbeConsts.v

// largest v with pred(v), for a predicate that is true on an initial segment of uint64
func lastTrue(pred func(uint64) bool) uint64 {
	if !pred(0) {
		panic("lastTrue: predicate false at 0")
	}
	if pred(math.MaxUint64) {
		return math.MaxUint64
	}
	lo, hi := uint64(0), uint64(math.MaxUint64) // pred(lo), !pred(hi)
	for hi-lo > 1 {
		mid := lo + (hi-lo)/2
		if pred(mid) {
			lo = mid
		} else {
			hi = mid
		}
	}
	return lo
}

var cbeArrayTypeNames = []struct {
	name string
	t    events.ArrayType
}{
	{"Invalid", events.ArrayTypeInvalid}, {"String", events.ArrayTypeString}, {"ResourceID", events.ArrayTypeResourceID},
	{"ReferenceRemote", events.ArrayTypeReferenceRemote}, {"CustomText", events.ArrayTypeCustomText},
	{"CustomBinary", events.ArrayTypeCustomBinary}, {"Bit", events.ArrayTypeBit}, {"Uint8", events.ArrayTypeUint8},
	{"Uint16", events.ArrayTypeUint16}, {"Uint32", events.ArrayTypeUint32}, {"Uint64", events.ArrayTypeUint64},
	{"Int8", events.ArrayTypeInt8}, {"Int16", events.ArrayTypeInt16}, {"Int32", events.ArrayTypeInt32},
	{"Int64", events.ArrayTypeInt64}, {"Float16", events.ArrayTypeFloat16}, {"Float32", events.ArrayTypeFloat32},
	{"Float64", events.ArrayTypeFloat64}, {"UID", events.ArrayTypeUID}, {"Media", events.ArrayTypeMedia},
	{"MediaData", events.ArrayTypeMediaData},
}

func genCbeConsts(dir string) {
	g := newGen("CbeConsts.v")
	fmt.Fprintf(g, "(* cbe/common.go: type codes *)\n")
	for _, tc := range cbe.VerifTypeCodes() {
		g.def(tc.Name, "N", cN(uint64(tc.Value)))
	}
	g.def("cbeSignatureByte", "N", cN(uint64(cbe.CBESignatureByte)))
	g.def("cbeSmallIntMin", "Z", cZ(cbe.VerifSmallIntMin))
	g.def("cbeSmallIntMax", "Z", cZ(cbe.VerifSmallIntMax))
	g.def("cbeMaxSmallArrayLength", "N", cNi(cbe.VerifMaxSmallArrayLength))
	g.def("cbeMaxBigIntBitCount", "N", cNi(cbe.VerifMaxBigIntBitCount))
	g.def("cbeDecoderStartBufferSize", "N", cNi(cbe.VerifDecoderStartBufferSize))
	fmt.Fprintf(g, "(* cbe/encoder.go fitsIn*: largest magnitude each predicate accepts (found by bisection on the predicate) *)\n")
	for i, name := range []string{"cbeFitsSmallintMax", "cbeFitsUint8Max", "cbeFitsUint16Max", "cbeFitsUint32Max", "cbeFitsUint48Max"} {
		i := i
		g.def(name, "N", cN(lastTrue(func(v uint64) bool { return cbe.VerifFitsIn(v)[i] })))
	}
	fmt.Fprintf(g, "(* ce/events: array types *)\n")
	for _, a := range cbeArrayTypeNames {
		g.def("cbeAT_"+a.name, "N", cN(uint64(a.t)))
	}
	g.def("cbeNumArrayTypes", "N", cN(uint64(events.NumArrayTypes)))
	bits := []string{}
	for i := 0; i < int(events.NumArrayTypes); i++ {
		bits = append(bits, cNi(events.ArrayType(i).ElementSize()))
	}
	g.def("cbeElementBits", "list N", "["+joinLines(bits, 16)+"]")
	fmt.Fprintf(g, "(* cbe/common.go tables, index = array type *)\n")
	p7 := []string{}
	for _, b := range cbe.VerifIsPlane7fArray() {
		p7 = append(p7, cBool(b))
	}
	g.def("cbeIsPlane7fArray", "list bool", "["+joinLines(p7, 16)+"]")
	a2c := []string{}
	for _, v := range cbe.VerifArrayTypeToCBEType() {
		a2c = append(a2c, cN(uint64(v)))
	}
	g.def("cbeArrayTypeToCBEType", "list N", "["+joinLines(a2c, 16)+"]")
	fmt.Fprintf(g, "(* cbe/common.go cbePlane7fTypeToArrayType, index = byte after 0x7f *)\n")
	c2a := []string{}
	for _, v := range cbe.VerifPlane7fTypeToArrayType() {
		c2a = append(c2a, cN(uint64(v)))
	}
	g.def("cbePlane7fTypeToArrayType", "list N", "["+joinLines(c2a, 16)+"]")
	fmt.Fprintf(g, "(* cbe/encoder.go arrayInfo, index = array type: (shortArrayType, hasSmallArraySupport, isPlane7f) *)\n")
	ai := []string{}
	for _, v := range cbe.VerifArrayInfoTable() {
		ai = append(ai, cTuple(cN(uint64(v.ShortArrayType)), cBool(v.HasSmallArraySupport), cBool(v.IsPlane7f)))
	}
	g.def("cbeArrayInfo", "list (N * bool * bool)", "["+joinLines(ai, 4)+"]")
	ss := []string{}
	for i := 1; i <= 15; i++ {
		ss = append(ss, fmt.Sprintf("cbeTypeString%d", i))
	}
	g.def("cbeShortStringCodes", "list N", "["+joinLines(ss, 8)+"]")
	fmt.Fprintf(g, "(* go-compact-float: special value encodings (EncodeQuietNan & co) *)\n")
	buf := make([]byte, 16)
	g.def("cfQuietNan", "list N", cBytes(buf[:compact_float.EncodeQuietNan(buf)]))
	g.def("cfSignalingNan", "list N", cBytes(buf[:compact_float.EncodeSignalingNan(buf)]))
	g.def("cfInfinity", "list N", cBytes(buf[:compact_float.EncodeInfinity(buf)]))
	g.def("cfNegativeInfinity", "list N", cBytes(buf[:compact_float.EncodeNegativeInfinity(buf)]))
	g.def("cfZero", "list N", cBytes(buf[:compact_float.EncodeZero(buf)]))
	g.def("cfNegativeZero", "list N", cBytes(buf[:compact_float.EncodeNegativeZero(buf)]))
	g.def("cbeDefaultMaxDocumentSizeBytes", "N", cN(configuration.New().Rules.MaxDocumentSizeBytes))
	g.write(dir)
}

// ---------------------------------------------------------------------------
// Running the real encoder

// cbeEncode plays the events into a fresh CBE encoder. ok=false when the encoder panicked
// (the bytes written before the panic are returned too, but are not part of the observable).
func cbeEncode(es []Ev) (out []byte, ok bool) {
	var buf bytes.Buffer
	enc := ce.NewCBEEncoder(configuration.New())
	enc.PrepareToEncode(&buf)
	at, _ := playAll(enc, es)
	return buf.Bytes(), at < 0
}

// cbeEncodeOne encodes a single value event without document framing.
func cbeEncodeOne(e Ev) ([]byte, bool) { return cbeEncode([]Ev{e}) }

// ---------------------------------------------------------------------------
// Running the real decoder

type cbeDecResult struct {
	Evs []Ev
	Err bool
}

// cbeDecode runs the real CBE decoder in this process, delivering straight into a Recorder (no validator).
// Only for documents that cannot make the decoder allocate absurd amounts of memory (encoder outputs);
// everything else must go through DecodeInChild.
func cbeDecode(doc []byte, cfg *configuration.Configuration) cbeDecResult {
	if cfg == nil {
		cfg = configuration.New()
	}
	rec := &Recorder{}
	err := ce.NewCBEDecoder(cfg).DecodeDocument(doc, rec)
	return cbeDecResult{Evs: rec.Evs, Err: err != nil}
}

func hasTime(es []Ev) bool {
	for _, e := range es {
		if e.K == "tm" {
			return true
		}
	}
	return false
}

// ---------------------------------------------------------------------------
// Decoding untrusted documents in a child process.
//
// The CBE reader allocates a buffer of twice the announced length BEFORE reading
// (decoder_reader.go expandBufferTo), so a few bytes of input can request
// terabytes; when the allocation fails the Go runtime aborts the whole process
// with the unrecoverable "fatal error: runtime: out of memory" (recover() does
// not help). DecodeInChild therefore runs the decoder in a child `vh` process
// (hidden sub-command "cbe-dec-worker") under an address-space cap (RLIMIT_AS)
// and a per-document timeout, and reports per document the events delivered,
// whether an error was returned, or that the child was killed / died.

// ChildDecodeOpts selects what the child runs on every document of a batch.
type ChildDecodeOpts struct {
	Format      string        // "cbe" (default), "cte" or "ce" (universal decoder)
	Rules       bool          // put the rules validator between decoder and recorder
	MaxDocSize  []uint64      // per-document Rules.MaxDocumentSizeBytes (nil or 0 = library default)
	MemCapBytes uint64        // RLIMIT_AS of the child (default 4 GiB)
	Timeout     time.Duration // per document (default 20 s)
}

// ChildDecodeResult is the observation for one document.
type ChildDecodeResult struct {
	Evs    []Ev   // events delivered to the recorder
	Err    bool   // the decoder returned an error
	Killed bool   // the child died (fatal runtime error, e.g. out of memory) or was killed after the timeout
	Note   string // first line of the child's stderr / "timeout"
}

type childAnswer struct {
	Evs   []Ev
	FBits []uint64 // math.Float64bits of Evs[i].F (gob drops the sign of a negative zero)
	Err   bool
}

func packAnswer(evs []Ev, err bool) childAnswer {
	a := childAnswer{Evs: make([]Ev, len(evs)), FBits: make([]uint64, len(evs)), Err: err}
	for i, e := range evs {
		a.FBits[i] = math.Float64bits(e.F)
		e.F = 0
		a.Evs[i] = e
	}
	return a
}

func (a childAnswer) events() []Ev {
	for i := range a.Evs {
		a.Evs[i].F = math.Float64frombits(a.FBits[i])
	}
	return a.Evs
}

func cbeDecWorker() {
	memCap := uint64(4 << 30)
	if len(os.Args) >= 3 {
		fmt.Sscan(os.Args[2], &memCap)
	}
	if memCap != 0 {
		syscall.Setrlimit(syscall.RLIMIT_AS, &syscall.Rlimit{Cur: memCap, Max: memCap})
	}
	in := bufio.NewReaderSize(os.Stdin, 1<<20)
	out := bufio.NewWriter(os.Stdout)
	for {
		line, err := in.ReadString('\n')
		line = strings.TrimRight(line, "\r\n")
		if line != "" {
			// "<format>\t<rules 0|1>\t<max document size, 0 = default>\t<hex document>"
			parts := strings.SplitN(line, "\t", 4)
			if len(parts) != 4 {
				fmt.Fprintf(out, "bad\n")
			} else {
				var maxDoc uint64
				fmt.Sscan(parts[2], &maxDoc)
				doc, _ := hex.DecodeString(parts[3])
				cfg := configuration.New()
				if maxDoc != 0 {
					cfg.Rules.MaxDocumentSizeBytes = maxDoc
				}
				rec := &Recorder{}
				var rcv events.DataEventReceiver = rec
				if parts[1] == "1" {
					rcv = ce.NewRules(rec, cfg)
				}
				var d ce.Decoder
				switch parts[0] {
				case "cte":
					d = ce.NewCTEDecoder(cfg)
				case "ce":
					d = ce.NewCEDecoder(cfg)
				default:
					d = ce.NewCBEDecoder(cfg)
				}
				derr := func() (e error) {
					defer func() {
						if r := recover(); r != nil {
							e = fmt.Errorf("panic: %v", r)
						}
					}()
					return d.DecodeDocument(doc, rcv)
				}()
				var buf bytes.Buffer
				if gerr := gob.NewEncoder(&buf).Encode(packAnswer(rec.Evs, derr != nil)); gerr != nil {
					fmt.Fprintf(out, "bad gob %v\n", gerr)
				} else {
					fmt.Fprintf(out, "%s\n", base64.StdEncoding.EncodeToString(buf.Bytes()))
				}
			}
			out.Flush()
		}
		if err != nil {
			return
		}
	}
}

// DecodeInChild decodes every document in a child process; a document on which the child dies or
// hangs is reported as Killed and a fresh child continues with the remaining documents.
func DecodeInChild(docs [][]byte, opt ChildDecodeOpts) []ChildDecodeResult {
	if opt.Format == "" {
		opt.Format = "cbe"
	}
	if opt.MemCapBytes == 0 {
		opt.MemCapBytes = 4 << 30
	}
	if opt.Timeout == 0 {
		opt.Timeout = 20 * time.Second
	}
	rules := "0"
	if opt.Rules {
		rules = "1"
	}
	res := make([]ChildDecodeResult, len(docs))
	next := 0
	for next < len(docs) {
		cmd := exec.Command(os.Args[0], "cbe-dec-worker", fmt.Sprint(opt.MemCapBytes))
		stdin, _ := cmd.StdinPipe()
		stdout, _ := cmd.StdoutPipe()
		var stderr bytes.Buffer
		cmd.Stderr = &stderr
		if err := cmd.Start(); err != nil {
			panic(err)
		}
		start := next
		go func() {
			w := bufio.NewWriter(stdin)
			for i := start; i < len(docs); i++ {
				maxDoc := uint64(0)
				if opt.MaxDocSize != nil {
					maxDoc = opt.MaxDocSize[i]
				}
				fmt.Fprintf(w, "%s\t%s\t%d\t%s\n", opt.Format, rules, maxDoc, hex.EncodeToString(docs[i]))
				if w.Flush() != nil {
					break
				}
			}
			stdin.Close()
		}()
		lines := make(chan string, 64)
		go func() {
			rd := bufio.NewReaderSize(stdout, 1<<20)
			for {
				line, err := rd.ReadString('\n')
				if err != nil {
					close(lines)
					return
				}
				lines <- line
			}
		}()
		note := ""
	batch:
		for next < len(docs) {
			select {
			case line, ok := <-lines:
				if !ok {
					break batch
				}
				raw, err := base64.StdEncoding.DecodeString(strings.TrimRight(line, "\n"))
				var a childAnswer
				if err != nil || gob.NewDecoder(bytes.NewReader(raw)).Decode(&a) != nil {
					panic("cbe-dec-worker: bad answer " + line)
				}
				res[next] = ChildDecodeResult{Evs: a.events(), Err: a.Err}
				next++
			case <-time.After(opt.Timeout):
				note = "timeout"
				cmd.Process.Kill()
				break batch
			}
		}
		cmd.Process.Kill()
		go func() {
			for range lines {
			}
		}()
		werr := cmd.Wait()
		if next < len(docs) {
			// the worker died (or was killed) while decoding docs[next]
			if note == "" {
				note = stderr.String()
				if i := strings.IndexByte(note, '\n'); i >= 0 {
					note = note[:i]
				}
				note = fmt.Sprintf("%v: %s", werr, note)
			}
			res[next] = ChildDecodeResult{Killed: true, Note: note}
			next++
		}
	}
	return res
}

// ---------------------------------------------------------------------------
// Coq printers for the cases

func cOptBytes(b []byte, ok bool) string {
	if !ok {
		return "None"
	}
	return cSome(cBytes(b))
}

// cbe_enc_case := (list event * option bytes)
func cCbeEncCase(es []Ev, out []byte, ok bool) string {
	return rleTerm(cPair(cEvs(es), cOptBytes(out, ok)))
}

// cbe_dec_case := (bytes * list event * bool)
func cCbeDecCase(doc []byte, evsCoq string, err bool) string {
	return rleTerm(cTuple(cBytes(doc), evsCoq, cBool(err)))
}

var byteListRe = regexp.MustCompile(`\[\d+(;\d+)*\]`)

// rleTerm rewrites, inside a Coq term, every byte-list literal (as printed by cBytes) that contains a run of
// 256 or more equal bytes into pieces joined with ++, the runs written as (nrep byte count) (CE.Model.Cbe.nrep),
// so that very long documents do not overflow coqc's parser.
func rleTerm(term string) string {
	if len(term) < 1024 {
		return term
	}
	return byteListRe.ReplaceAllStringFunc(term, func(lit string) string {
		if len(lit) < 512 {
			return lit
		}
		items := strings.Split(lit[1:len(lit)-1], ";")
		parts := []string{}
		cur := []string{}
		flush := func() {
			if len(cur) > 0 {
				parts = append(parts, "["+strings.Join(cur, ";")+"]")
				cur = nil
			}
		}
		for i := 0; i < len(items); {
			j := i
			for j < len(items) && items[j] == items[i] {
				j++
			}
			if j-i >= 256 {
				flush()
				parts = append(parts, fmt.Sprintf("nrep %s %d", items[i], j-i))
			} else {
				cur = append(cur, items[i:j]...)
			}
			i = j
		}
		flush()
		if len(parts) == 1 && strings.HasPrefix(parts[0], "[") {
			return parts[0]
		}
		return "(" + strings.Join(parts, " ++ ") + ")"
	})
}

// ---------------------------------------------------------------------------
// Input families

// CbeGenOpts: generator options for streams inside the executable model's domain
// (no times; big floats only when exactly a float64).
func CbeGenOpts() GenOpts {
	o := DefaultGenOpts()
	o.Times = false
	o.NonFloat64BigFloats = false
	return o
}

// magnitudes around every width boundary of the integer forms, each +-2
func cbeBoundaryMagnitudes() []uint64 {
	centers := []uint64{0, 100, 127, 128, 255, 256, 1 << 15, 1 << 16, 1 << 24, 1 << 31, 1 << 32, 1 << 40, 1 << 47, 1 << 48, 1 << 55, 1 << 56, 1 << 63, math.MaxUint64}
	seen := map[uint64]bool{}
	out := []uint64{}
	for _, c := range centers {
		for d := -2; d <= 2; d++ {
			v := c + uint64(int64(d))
			if (d < 0 && c < uint64(-d)) || (d > 0 && v < c) {
				continue
			}
			if !seen[v] {
				seen[v] = true
				out = append(out, v)
			}
		}
	}
	return out
}

// every event form able to express sign*mag (mag as big.Int so that values beyond 64 bits work too)
func cbeIntForms(neg bool, mag *big.Int) []Ev {
	out := []Ev{}
	if mag.IsUint64() {
		m := mag.Uint64()
		if !neg {
			out = append(out, Ev{K: "pi", N: m})
			if m <= math.MaxInt64 {
				out = append(out, Ev{K: "i", I: int64(m)})
			}
		} else {
			out = append(out, Ev{K: "ni", N: m})
			if m <= 1<<63 && m > 0 {
				out = append(out, Ev{K: "i", I: int64(-m)})
			}
		}
	}
	b := new(big.Int).Set(mag)
	if neg {
		b.Neg(b)
	}
	if !(neg && mag.Sign() == 0) {
		out = append(out, Ev{K: "bi", Big: b})
	}
	return out
}

// float bit patterns at the exponent / mantissa edges of the three widths
func cbeFloatEdgeBits() []uint64 {
	out := []uint64{0, 1 << 63, 0x7ff0000000000000, 0xfff0000000000000, 0x7ff8000000000000, 0x7ff8000000000001, 0x7ff4000000000000,
		0x7ff0000000000001, 0xfff8000000000000, 0xfff0000000000001, 0x7fffffffffffffff, 0x7ff7ffffffffffff, 0x7ffc000000000000,
		1, 2, 0x000fffffffffffff, 0x0010000000000000, 0x7fefffffffffffff, 0x3ff0000000000000, 0x3ff0000000000001}
	f32 := []uint32{1, 2, 0x007fffff, 0x00800000, 0x00800001, 0x7f7fffff, 0x7f7f0000, 0x3f800000, 0x3f810000, 0x3f800001, 0x3f808000, 0x00010000,
		0x00008000, 0x007f0000, 0x00400000, 0x00000100, 0x7f000000, 0x00ffffff, 0x3f80ffff, 0x7e800000}
	for _, w := range f32 {
		for _, s := range []uint32{0, 0x80000000} {
			b := math.Float64bits(float64(math.Float32frombits(w | s)))
			out = append(out, b, b+1, b-1, b|1<<28, b|1<<29, b|1<<44, b|1<<45)
		}
	}
	// exponents just outside the float32 normal / subnormal ranges
	for _, e := range []uint64{1023 - 150, 1023 - 149, 1023 - 148, 1023 - 127, 1023 - 126, 1023 - 125, 1023 + 126, 1023 + 127, 1023 + 128, 1, 2046} {
		for _, m := range []uint64{0, 1, 1 << 51, 1 << 29, 1 << 28, 1 << 45, 1 << 44, 0xfffffe0000000, 0xfe00000000000, 0xfffffffffffff} {
			out = append(out, e<<52|m, 1<<63|e<<52|m)
		}
	}
	return out
}

// all array types the API knows plus two invalid ones
func cbeAllArrayTypes() []events.ArrayType {
	out := []events.ArrayType{}
	for i := 0; i <= int(events.NumArrayTypes)+1; i++ {
		out = append(out, events.ArrayType(i))
	}
	return out
}

func cbeElemBytes(t events.ArrayType, n uint64) uint64 {
	if int(t) >= int(events.NumArrayTypes) || t.ElementSize() == 0 {
		return n
	}
	return byteCountFor(t, n)
}

// ---------------------------------------------------------------------------
// Correspondence families (model vs implementation), shared by the CBE properties

type cbeCorr struct {
	c                *Ctx
	enc, dec, deccfg *caseFile
	SkippedTime      int      // decoder results containing a time event (outside the model)
	Crashes          []string // documents on which the decoding child process died or was killed
}

func newCbeCorr(c *Ctx) *cbeCorr {
	k := &cbeCorr{c: c}
	k.enc = c.Cases("cbe_enc", "CE.Model.Cbe", "cbe_enc_case", "cbe_enc_case_ok")
	k.dec = c.Cases("cbe_dec", "CE.Model.Cbe", "cbe_dec_case", "cbe_dec_case_ok")
	k.deccfg = c.Cases("cbe_deccfg", "CE.Model.Cbe", "cbe_dec_cfg_case", "cbe_dec_cfg_case_ok")
	k.enc.perFile, k.dec.perFile, k.deccfg.perFile = 250, 250, 250
	return k
}

func inCbeModel(es []Ev) bool {
	for _, e := range es {
		if e.K == "tm" {
			return false
		}
		if e.K == "bf" && e.BF != nil && !e.BF.IsInf() {
			if _, acc := e.BF.Float64(); acc != big.Exact {
				return false
			}
		}
	}
	return true
}

// addEnc runs the real encoder on es and records the observation as a model case
// (unless the stream is outside the model's domain). Returns what the encoder produced.
func (k *cbeCorr) addEnc(es []Ev, label string) ([]byte, bool) {
	out, ok := cbeEncode(es)
	if inCbeModel(es) {
		h := "panic"
		if ok {
			h = hex.EncodeToString(out)
		}
		k.enc.Add(cCbeEncCase(es, out, ok), fmt.Sprintf("%s :: %s -> %s", label, evsString(es), h))
		k.c.Dist(fmt.Sprintf("corr/enc/%s/ok=%v", label, ok))
	}
	return out, ok
}

// addDec decodes the documents (child process) and records the observations as model cases.
func (k *cbeCorr) addDec(docs [][]byte, label string) []ChildDecodeResult {
	res := DecodeInChild(docs, ChildDecodeOpts{})
	for i, r := range res {
		switch {
		case r.Killed:
			k.Crashes = append(k.Crashes, hex.EncodeToString(docs[i])+" :: "+r.Note)
			k.c.Dist("corr/dec/" + label + "/process-died")
		case hasTime(r.Evs):
			k.SkippedTime++
			k.c.Dist("corr/dec/" + label + "/skipped-time")
		default:
			k.dec.Add(cCbeDecCase(docs[i], cEvs(r.Evs), r.Err), fmt.Sprintf("%s :: %s -> err=%v", label, hex.EncodeToString(docs[i]), r.Err))
			k.c.Dist(fmt.Sprintf("corr/dec/%s/err=%v", label, r.Err))
		}
	}
	return res
}

func (k *cbeCorr) addDecCfg(docs [][]byte, maxDocs []uint64, label string) {
	res := DecodeInChild(docs, ChildDecodeOpts{MaxDocSize: maxDocs})
	for i, r := range res {
		if r.Killed || hasTime(r.Evs) {
			continue
		}
		maxDoc := maxDocs[i]
		k.deccfg.Add(cTuple(cN(maxDoc), cBytes(docs[i]), cEvs(r.Evs), cBool(r.Err)), fmt.Sprintf("%s max=%d :: %s -> err=%v", label, maxDoc, hex.EncodeToString(docs[i]), r.Err))
		k.c.Dist(fmt.Sprintf("corr/deccfg/err=%v", r.Err))
	}
}

func rndBytes(c *Ctx, n int) []byte {
	b := make([]byte, n)
	c.Rng.Read(b)
	return b
}

func bigPow2(n uint) *big.Int { return new(big.Int).Lsh(big.NewInt(1), n) }

func apdOf(neg bool, coeff *big.Int, exp int32) *apd.Decimal {
	d := new(apd.Decimal)
	d.Coeff.Set(coeff)
	d.Negative = neg
	d.Exponent = exp
	return d
}

func apdForm(f apd.Form, neg bool) *apd.Decimal {
	d := new(apd.Decimal)
	d.Form = f
	d.Negative = neg
	return d
}

// cbeDirectedEncoderCases: hand-picked event lists exercising every encoder branch and the state kept between events.
func cbeDirectedEncoderCases() [][]Ev {
	add1 := func(o big.Int, d int64) *big.Int { return new(big.Int).Add(&o, big.NewInt(d)) }
	p64 := *bigPow2(64)
	out := [][]Ev{
		{{K: "bd"}, {K: "v", N: 0}, {K: "ed"}},
		{{K: "bd"}, {K: "v", N: 1}, {K: "null"}, {K: "ed"}},
		{{K: "v", N: 127}, {K: "v", N: 128}, {K: "v", N: 1 << 63}, {K: "v", N: math.MaxUint64}},
		{{K: "bi"}, {K: "bf"}, {K: "bdf"}},
		{{K: "pad"}, {K: "cm", B: true, Data: []byte("x")}, {K: "cm", Data: []byte{}}, {K: "null"}, {K: "b", B: true}, {K: "b"}, {K: "t"}, {K: "f"}},
		{{K: "l"}, {K: "m"}, {K: "edge"}, {K: "node"}, {K: "e"}},
		{{K: "nan", B: true}, {K: "nan"}},
		{{K: "uid", Data: []byte{1, 2, 3, 4, 5, 6, 7, 8, 9, 10, 11, 12, 13, 14, 15, 255}}, {K: "uid", Data: []byte{1, 2, 3}}, {K: "uid", Data: []byte{}}},
		{{K: "rt", Data: []byte("a")}, {K: "rec", Data: []byte("a")}, {K: "mk", Data: []byte("m1")}, {K: "ref", Data: []byte("m1")}},
		{{K: "rt", Data: []byte{}}, {K: "rec", Data: []byte{}}, {K: "mk", Data: []byte{}}, {K: "ref", Data: []byte{}}},
		{{K: "mk", Data: bytes.Repeat([]byte("a"), 127)}, {K: "mk", Data: bytes.Repeat([]byte("b"), 128)}, {K: "ref", Data: bytes.Repeat([]byte("c"), 300)}},
		{{K: "media", S: "", Data: []byte{}}, {K: "media", S: "a/b", Data: []byte{1, 2, 3}}, {K: "media", S: strings.Repeat("m", 130), Data: bytes.Repeat([]byte{9}, 70)}},
		{{K: "cb", N: 0, Data: []byte{}}, {K: "cb", N: 127, Data: []byte{1}}, {K: "cb", N: 128, Data: []byte{1, 2}}, {K: "cb", N: 1<<32 - 1, Data: []byte{1}}, {K: "cb", N: 1 << 32, Data: []byte{1}}, {K: "cb", N: math.MaxUint64, Data: []byte{}}},
		{{K: "ct", N: 1, Data: []byte("x")}},
		{{K: "null"}, {K: "ct", N: 1, Data: []byte("x")}},
		// encoder state across events
		{{K: "ab", A: events.ArrayTypeString}, {K: "ed"}},
		{{K: "ab", A: events.ArrayTypeUint16}, {K: "ed"}, {K: "ed"}},
		{{K: "ab", A: events.ArrayTypeMediaData}, {K: "ed"}},
		{{K: "ab", A: events.ArrayTypeUint16}, {K: "l"}, {K: "ac", N: 3, B: false}, {K: "ad", Data: []byte{1, 0, 2, 0, 3, 0}}, {K: "e"}},
		{{K: "ab", A: events.ArrayTypeMediaData}, {K: "ac", N: 1, B: false}},
		{{K: "ab", A: events.ArrayType(21)}, {K: "ac", N: 20, B: true}},
		{{K: "ab", A: events.ArrayType(200)}},
		{{K: "ab", A: events.ArrayType(200)}, {K: "ac", N: 1, B: false}},
		{{K: "ab", A: events.ArrayTypeUint32}, {K: "mb", S: "a/b"}, {K: "ac", N: 2, B: false}, {K: "ad", Data: []byte{1, 2}}},
		{{K: "ab", A: events.ArrayTypeUint32}, {K: "cbeg", A: events.ArrayTypeCustomText, N: 7}, {K: "ac", N: 2, B: false}, {K: "ad", Data: []byte{1, 2}}},
		{{K: "ab", A: events.ArrayTypeString}, {K: "ac", N: 16, B: false}, {K: "ad", Data: []byte("0123456789abcdef")}},
		{{K: "ab", A: events.ArrayTypeString}, {K: "ac", N: 15, B: false}, {K: "ad", Data: []byte("0123456789abcde")}},
		{{K: "ab", A: events.ArrayTypeString}, {K: "ac", N: 15, B: true}, {K: "ad", Data: []byte("0123456789abcde")}, {K: "ac", N: 0, B: false}},
		{{K: "ab", A: events.ArrayTypeString}, {K: "ac", N: 0, B: true}, {K: "ac", N: 2, B: false}, {K: "ad", Data: []byte("hi")}},
		{{K: "ac", N: 3, B: false}, {K: "ad", Data: []byte{1, 2, 3}}},
		{{K: "ab", A: events.ArrayTypeString}, {K: "a", A: events.ArrayTypeString, N: 2, Data: []byte("hi")}, {K: "ac", N: 2, B: false}, {K: "ad", Data: []byte("yo")}},
		{{K: "ab", A: events.ArrayTypeString}, {K: "cb", N: 1, Data: []byte{1}}, {K: "ac", N: 2, B: false}, {K: "ad", Data: []byte("yo")}},
		{{K: "ab", A: events.ArrayTypeString}, {K: "media", S: "a/b", Data: []byte{1}}, {K: "ac", N: 2, B: false}, {K: "ad", Data: []byte("yo")}},
		{{K: "ab", A: events.ArrayTypeInvalid}, {K: "ac", N: 1, B: false}},
		{{K: "ab", A: events.ArrayTypeUint8}, {K: "ac", N: 1 << 63, B: false}},
		{{K: "ab", A: events.ArrayTypeUint8}, {K: "ac", N: math.MaxUint64, B: true}, {K: "ac", N: 1<<63 + 1, B: false}},
		{{K: "a", A: events.ArrayTypeUint8, N: 1<<63 + 5, Data: []byte{1}}},
		{{K: "a", A: events.ArrayTypeUint16, N: 3, Data: []byte{1}}},
		{{K: "sa", A: events.ArrayTypeUint16, Data: []byte{1, 2, 3, 4}}},
		{{K: "ad", Data: []byte{}}, {K: "ad", Data: []byte{0, 255}}},
	}
	// big integers around 2^63 / 2^64 and far beyond
	bis := []*big.Int{add1(p64, -1), &p64, add1(p64, 1), bigPow2(63), add1(*bigPow2(63), 1), add1(*bigPow2(63), -1), add1(*bigPow2(71), -1), bigPow2(72), bigPow2(1000),
		add1(*bigPow2(1016), 0), add1(*bigPow2(2040), -1), bigPow2(2040), big.NewInt(0)}
	for _, b := range bis {
		out = append(out, []Ev{{K: "bi", Big: b}, {K: "bi", Big: new(big.Int).Neg(b)}})
	}
	// decimal floats
	dfs := []compact_float.DFloat{compact_float.Zero(), compact_float.NegativeZero(), compact_float.Infinity(), compact_float.NegativeInfinity(),
		compact_float.QuietNaN(), compact_float.SignalingNaN(), {Exponent: 5, Coefficient: 0}, {Exponent: -5, Coefficient: 0},
		{Exponent: 0, Coefficient: math.MinInt64}, {Exponent: 0, Coefficient: math.MaxInt64}, {Exponent: 0x7fffffff, Coefficient: 1},
		{Exponent: -0x7fffffff, Coefficient: -1}, {Exponent: 0, Coefficient: 1}, {Exponent: 0, Coefficient: -1}, {Exponent: -1, Coefficient: 15},
		{Exponent: 31, Coefficient: 127}, {Exponent: 32, Coefficient: 128}, {Exponent: -32, Coefficient: -128}, {Exponent: 1, Coefficient: 10}}
	for _, d := range dfs {
		out = append(out, []Ev{{K: "df", DF: d}})
	}
	// big decimal floats
	bds := []*apd.Decimal{apdOf(false, big.NewInt(0), 0), apdOf(true, big.NewInt(0), 0), apdOf(false, big.NewInt(0), 5), apdOf(true, big.NewInt(0), -5),
		apdForm(apd.Infinite, false), apdForm(apd.Infinite, true), apdForm(apd.NaN, false), apdForm(apd.NaN, true), apdForm(apd.NaNSignaling, false),
		apdOf(false, big.NewInt(1), 0), apdOf(true, big.NewInt(1), 0), apdOf(false, bigPow2(63), 0), apdOf(true, bigPow2(63), 0), apdOf(false, add1(p64, -1), 3),
		apdOf(false, &p64, -3), apdOf(true, add1(p64, 1), 100), apdOf(false, bigPow2(128), -100), apdOf(true, add1(*bigPow2(200), 12345), 7),
		apdOf(false, big.NewInt(7), math.MinInt32), apdOf(false, big.NewInt(7), math.MaxInt32), apdOf(true, big.NewInt(7), -0x7fffffff),
		apdOf(false, add1(*bigPow2(63), -1), 0), apdOf(false, bigPow2(126), 0), apdOf(false, bigPow2(127), 0), apdOf(false, bigPow2(133), 0)}
	for _, d := range bds {
		out = append(out, []Ev{{K: "bdf", BDF: d}})
	}
	// big floats that are exactly a float64 (and the infinities / zeros)
	negz := new(big.Float).Neg(new(big.Float))
	bfs := []*big.Float{new(big.Float).SetInf(false), new(big.Float).SetInf(true), new(big.Float), negz, big.NewFloat(1.5), big.NewFloat(-0.1),
		big.NewFloat(math.SmallestNonzeroFloat64), big.NewFloat(math.MaxFloat64), big.NewFloat(math.Float64frombits(0x000fffffffffffff)),
		big.NewFloat(math.Float64frombits(0x0010000000000000)), new(big.Float).SetPrec(100).SetInt64(3), new(big.Float).SetPrec(10).SetInt64(-384),
		new(big.Float).SetPrec(200).SetMantExp(big.NewFloat(1), -1074), new(big.Float).SetPrec(200).SetMantExp(big.NewFloat(3), -1074),
		new(big.Float).SetPrec(200).SetMantExp(big.NewFloat(1), 1023), big.NewFloat(float64(math.MaxFloat32)), big.NewFloat(float64(math.SmallestNonzeroFloat32))}
	for _, f := range bfs {
		out = append(out, []Ev{{K: "bf", BF: f}})
	}
	return out
}

// cbeArrayEvents: one array of type t with n elements through each API.
// api: "a" OnArray, "sa" OnStringlikeArray (count = byte length), "c1" begin + one final chunk, "c2" begin + two chunks, "c0" begin + chunk + empty final chunk
func cbeArrayEvents(c *Ctx, t events.ArrayType, n uint64, api string) []Ev {
	data := rndBytes(c, int(cbeElemBytes(t, n)))
	switch api {
	case "a":
		return []Ev{{K: "a", A: t, N: n, Data: data}}
	case "sa":
		return []Ev{{K: "sa", A: t, Data: data}}
	case "c1":
		return []Ev{{K: "ab", A: t}, {K: "ac", N: n, B: false}, {K: "ad", Data: data}}
	case "c0":
		return []Ev{{K: "ab", A: t}, {K: "ac", N: n, B: true}, {K: "ad", Data: data}, {K: "ac", N: 0, B: false}}
	default:
		h := n / 2
		if t == events.ArrayTypeBit {
			h = h / 8 * 8
		}
		hb := int(cbeElemBytes(t, h))
		return []Ev{{K: "ab", A: t}, {K: "ac", N: h, B: true}, {K: "ad", Data: data[:hb]}, {K: "ac", N: n - h, B: false}, {K: "ad", Data: rndBytes(c, int(cbeElemBytes(t, n-h)))}}
	}
}

var cbeArrayLengths = []uint64{0, 1, 2, 3, 4, 5, 6, 7, 8, 9, 10, 11, 12, 13, 14, 15, 16, 17, 31, 32, 63, 64, 65}

// cbeEncFamilies feeds every encoder input family through the implementation and records model cases.
// Returns the documents the encoder produced for the generated rules-valid streams.
func cbeEncFamilies(c *Ctx, k *cbeCorr, nStreams, nMutants int) (docs [][]byte) {
	// generated streams (inside the model: no times, no inexact big floats), with custom text off for most
	opts := CbeGenOpts()
	opts.CustomText = false
	g := NewEvGen(c.Rng, opts)
	for i := 0; i < nStreams; i++ {
		if i%10 == 9 {
			g.Opt.CustomText = true
		} else {
			g.Opt.CustomText = false
		}
		es := g.Document()
		out, ok := k.addEnc(es, "gen")
		if ok {
			docs = append(docs, out)
		}
		if i < nMutants {
			k.addEnc(g.Mutate(es), "mutant")
		}
	}
	for kind, n := range g.Kinds {
		c.Rep.Distribution["corr/gen-kind:"+kind] += n
	}
	// integers: every form of every boundary magnitude, both signs; random ones
	mags := cbeBoundaryMagnitudes()
	for i := 0; i < c.Pick(40, 400); i++ {
		mags = append(mags, c.Rng.Uint64()>>uint(c.Rng.Intn(64)))
	}
	for _, m := range mags {
		es := append(cbeIntForms(false, new(big.Int).SetUint64(m)), cbeIntForms(true, new(big.Int).SetUint64(m))...)
		k.addEnc(es, "int")
	}
	// floats: edge patterns and generator classes, 8 per case
	fb := cbeFloatEdgeBits()
	for i := 0; i < c.Pick(160, 4000); i++ {
		fb = append(fb, g.floatBits())
	}
	for i := 0; i < len(fb); i += 8 {
		es := []Ev{}
		for j := i; j < i+8 && j < len(fb); j++ {
			es = append(es, Ev{K: "fl", F: math.Float64frombits(fb[j])})
		}
		k.addEnc(es, "float")
	}
	// arrays: every type (and invalid ones) x lengths around the short-form limit x API
	for _, t := range append(cbeAllArrayTypes(), events.ArrayType(255)) {
		for _, api := range []string{"a", "sa", "c1", "c2", "c0"} {
			es := []Ev{}
			for _, n := range cbeArrayLengths {
				if !c.Thorough() && n > 17 && n != 64 {
					continue
				}
				es = append(es, cbeArrayEvents(c, t, n, api)...)
			}
			k.addEnc(es, "array-"+api)
		}
	}
	for _, es := range cbeDirectedEncoderCases() {
		k.addEnc(es, "directed")
	}
	return docs
}

func cbeDoc(body ...byte) []byte { return append([]byte{0x81, 0}, body...) }

func ulebOf(v *big.Int) []byte {
	buf := make([]byte, v.BitLen()/7+2)
	n := ulebEncodeBig(v, buf)
	return buf[:n]
}

func ulebEncodeBig(v *big.Int, buf []byte) int {
	x := new(big.Int).Set(v)
	n := 0
	for {
		b := byte(new(big.Int).And(x, big.NewInt(0x7f)).Uint64())
		x.Rsh(x, 7)
		if x.Sign() == 0 {
			buf[n] = b
			return n + 1
		}
		buf[n] = b | 0x80
		n++
	}
}

func cat(parts ...[]byte) []byte {
	out := []byte{}
	for _, p := range parts {
		out = append(out, p...)
	}
	return out
}

// cbeDirectedDecoderDocs: hand-written documents for the decoder branches the encoder never produces.
func cbeDirectedDecoderDocs(thorough bool) [][]byte {
	padded := func(v uint64, n int) []byte { // non-minimal ULEB of v using n bytes
		b := []byte{}
		for i := 0; i < n-1; i++ {
			b = append(b, byte(v&0x7f)|0x80)
			v >>= 7
		}
		return append(b, byte(v&0x7f))
	}
	tail := []byte{1, 2, 3, 4, 5, 6, 7, 8, 9, 10, 11, 12, 13, 14, 15, 16, 17, 18, 19, 20}
	docs := [][]byte{
		{}, {0x81}, {0x80, 0}, {0x81, 0}, {0x81, 1}, {0x81, 2, 1}, {0x81, 0x80}, {0x81, 0x80, 0}, {0x81, 0x81, 0, 5},
		cat([]byte{0x81}, uleb(math.MaxUint64), []byte{5}), cat([]byte{0x81}, ulebOf(bigPow2(64)), []byte{5}),
		cat([]byte{0x81}, padded(0, 18), []byte{5}), cat([]byte{0x81}, padded(0, 19), []byte{5}), cat([]byte{0x81}, padded(1, 10), []byte{5}),
		// variable-length integers
		cbeDoc(0x66, 0), cbeDoc(0x67, 0), cbeDoc(0x66, 1, 0), cbeDoc(0x67, 1, 0), cbeDoc(0x66, 8, 1, 2, 3, 4, 5, 6, 7, 8), cbeDoc(0x67, 8, 0xff, 0xff, 0xff, 0xff, 0xff, 0xff, 0xff, 0xff),
		cbeDoc(0x66, 9, 1, 2, 3, 4, 5, 6, 7, 8, 9), cbeDoc(0x67, 9, 0, 0, 0, 0, 0, 0, 0, 0, 0), cbeDoc(0x66, 9, 1, 0, 0, 0, 0, 0, 0, 0, 0), cbeDoc(0x67, 10, 1, 2, 3, 4, 5, 6, 7, 8, 9, 0),
		cbeDoc(0x66, 3, 1, 2), cbeDoc(0x66, 0x80, 0), cbeDoc(0x66, 0x81, 0, 7), cbeDoc(0x66),
		cat(cbeDoc(0x66), uleb(1024), bytes.Repeat([]byte{0xab}, 1024), []byte{1}), cat(cbeDoc(0x67), uleb(1025), bytes.Repeat([]byte{0xab}, 1025), []byte{1}),
		cat(cbeDoc(0x66), uleb(17), bytes.Repeat([]byte{0x11}, 17)), cat(cbeDoc(0x67), uleb(16), bytes.Repeat([]byte{0xff}, 16)),
		// fixed-width integers and floats, truncated ones
		cbeDoc(0x68, 0), cbeDoc(0x69, 0), cbeDoc(0x68, 5), cbeDoc(0x69, 200), cbeDoc(0x6a, 1), cbeDoc(0x6b, 0, 0), cbeDoc(0x6c, 1, 2, 3), cbeDoc(0x6d, 0, 0, 0, 0),
		cbeDoc(0x6e, 1, 2, 3, 4, 5, 6, 7), cbeDoc(0x6f, 0, 0, 0, 0, 0, 0, 0, 0x80), cbeDoc(0x6e, 100, 0, 0, 0, 0, 0, 0, 0),
		cbeDoc(0x70, 0x80, 0x3f), cbeDoc(0x70, 0x80, 0x7f), cbeDoc(0x70, 0x80, 0xff), cbeDoc(0x70, 0x81, 0x7f), cbeDoc(0x70, 0xc1, 0x7f), cbeDoc(0x70, 0xc1, 0xff), cbeDoc(0x70, 0xff, 0xff),
		cbeDoc(0x70, 0, 0), cbeDoc(0x70, 0, 0x80), cbeDoc(0x70, 1, 0), cbeDoc(0x70, 0x7f, 0), cbeDoc(0x70, 0x80, 0), cbeDoc(0x70, 0x7f, 0x7f), cbeDoc(0x70, 1),
		cbeDoc(0x71, 0, 0, 0x80, 0x7f), cbeDoc(0x71, 1, 0, 0x80, 0x7f), cbeDoc(0x71, 1, 0, 0xc0, 0x7f), cbeDoc(0x71, 1, 0, 0xc0, 0xff), cbeDoc(0x71, 0xff, 0xff, 0xff, 0xff), cbeDoc(0x71, 0xff, 0xff, 0xbf, 0x7f),
		cbeDoc(0x71, 1, 0, 0, 0), cbeDoc(0x71, 0xff, 0xff, 0x7f, 0), cbeDoc(0x71, 0, 0, 0x80, 0), cbeDoc(0x71, 0, 0, 0, 0x80), cbeDoc(0x71, 0xff, 0xff, 0x7f, 0x7f), cbeDoc(0x71, 1, 2, 3),
		cbeDoc(0x72, 1, 0, 0, 0, 0, 0, 0xf0, 0x7f), cbeDoc(0x72, 0, 0, 0, 0, 0, 0, 0xf8, 0xff), cbeDoc(0x72, 0, 0, 0, 0, 0, 0, 0, 0x80), cbeDoc(0x72, 1, 2, 3, 4, 5, 6, 7),
		// decimal floats
		cbeDoc(0x76, 2), cbeDoc(0x76, 3), cbeDoc(0x76, 0x80, 0), cbeDoc(0x76, 0x81, 0), cbeDoc(0x76, 0x82, 0), cbeDoc(0x76, 0x83, 0), cbeDoc(0x76, 0x84, 0, 1),
		cbeDoc(0x76, 0x82, 0x80, 0, 5), cbeDoc(0x76, 0x80, 0x80, 0, 5), cbeDoc(0x76, 0, 0), cbeDoc(0x76, 1, 0), cbeDoc(0x76, 4, 0), cbeDoc(0x76, 6, 0), cbeDoc(0x76, 7, 0), cbeDoc(0x76, 0, 5), cbeDoc(0x76, 1, 5), cbeDoc(0x76, 6, 5), cbeDoc(0x76, 7, 5),
		cbeDoc(0x76), cbeDoc(0x76, 0), cbeDoc(0x76, 0x80), cbeDoc(0x76, 4, 0x80),
		cat(cbeDoc(0x76), uleb(0x1ffffffff), []byte{1}), cat(cbeDoc(0x76), uleb(0x200000000), []byte{1}), cat(cbeDoc(0x76), uleb(0x1fffffffc), []byte{1}), cat(cbeDoc(0x76), uleb(math.MaxUint64), []byte{1}), cat(cbeDoc(0x76), ulebOf(bigPow2(64)), []byte{1}),
		cat(cbeDoc(0x76, 0), uleb(1<<63-1)), cat(cbeDoc(0x76, 1), uleb(1<<63-1)), cat(cbeDoc(0x76, 0), uleb(1<<63)), cat(cbeDoc(0x76, 1), uleb(1<<63)), cat(cbeDoc(0x76, 5), uleb(math.MaxUint64)),
		cat(cbeDoc(0x76, 5), ulebOf(bigPow2(64))), cat(cbeDoc(0x76, 7), ulebOf(bigPow2(130))), cat(cbeDoc(0x76, 4), padded(0, 19)), cat(cbeDoc(0x76, 5), padded(0, 19)), cat(cbeDoc(0x76, 5), padded(3, 18)), cat(cbeDoc(0x76, 5), padded(3, 10)),
		// identifiers
		cbeDoc(0x77, 0), cbeDoc(0x77, 1, 'a'), cbeDoc(0x77, 2, 'a'), cbeDoc(0x77), cbeDoc(0x96, 0), cbeDoc(0x96, 1, 'a', 0x9b), cbeDoc(0x7f, 0xf0, 0), cbeDoc(0x7f, 0xf0, 2, 'a', 'b', 1), cbeDoc(0x7f, 0xf1, 1, 'r', 0x9b), cbeDoc(0x7f, 0xf1, 0),
		cat(cbeDoc(0x77), uleb(100001)), cat(cbeDoc(0x77), uleb(100000)), cat(cbeDoc(0x77), uleb(1<<40)),
		cat(cbeDoc(0x77), uleb(100000), bytes.Repeat([]byte{'a'}, 100000), []byte{1}), cat(cbeDoc(0x96), uleb(100001), bytes.Repeat([]byte{'a'}, 100001), []byte{1}),
		// uid, strings
		cbeDoc(0x65, 1, 2, 3, 4, 5, 6, 7, 8, 9, 10, 11, 12, 13, 14, 15, 16), cbeDoc(0x65, 1, 2, 3, 4, 5, 6, 7, 8, 9, 10, 11, 12, 13, 14, 15),
		cbeDoc(0x80), cbeDoc(0x81, 'a'), cbeDoc(0x81), cbeDoc(0x8f, 1, 2, 3, 4, 5, 6, 7, 8, 9, 10, 11, 12, 13, 14, 15), cbeDoc(0x8f, 1, 2, 3, 4, 5, 6, 7, 8, 9, 10, 11, 12, 13, 14),
		// chunked arrays
		cbeDoc(0x90, 0), cbeDoc(0x90, 1), cbeDoc(0x90, 1, 0), cbeDoc(0x90, 4, 'h', 'i'), cbeDoc(0x90, 5, 'h', 'i', 0), cbeDoc(0x90, 5, 'h', 'i', 2, '!'), cbeDoc(0x90, 5, 'h', 'i'), cbeDoc(0x90, 4, 'h'), cbeDoc(0x90),
		cbeDoc(0x91, 2, 'x'), cbeDoc(0x93, 4, 1, 2), cbeDoc(0x93, 0), cbeDoc(0x94, 0), cbeDoc(0x94, 2, 1), cbeDoc(0x94, 16, 0xff), cbeDoc(0x94, 18, 0xff, 1), cbeDoc(0x94, 18, 0xff), cbeDoc(0x94, 17, 0xff, 1, 2, 1),
		cbeDoc(0x90, 1, 1, 1, 1, 1, 1, 0), cbeDoc(0x90, 0x80, 0), cbeDoc(0x90, 0x84, 0, 'h', 'i'),
		cbeDoc(0x92, 0, 0), cbeDoc(0x92, 5, 4, 1, 2), cbeDoc(0x92, 5), cbeDoc(0x92), cbeDoc(0x92, 5, 5, 1, 2, 0),
		cat(cbeDoc(0x92), uleb(1<<32-1), []byte{0}), cat(cbeDoc(0x92), uleb(1<<32), []byte{0}),
		cbeDoc(0x7f, 0xf3, 0, 0), cbeDoc(0x7f, 0xf3, 3, 'a', '/', 'b', 4, 1, 2), cbeDoc(0x7f, 0xf3, 3, 'a', '/'), cbeDoc(0x7f, 0xf3, 1, 'a'), cbeDoc(0x7f, 0xf3),
		cat(cbeDoc(0x7f, 0xf3), uleb(1<<32), []byte{0}),
		cbeDoc(0x7f, 0xf2, 2, 'r'), cbeDoc(0x7f, 0xf2, 0), cbeDoc(0x7f), cbeDoc(0x7f, 0xe0, 2, 1, 2, 3, 4, 5, 6, 7, 8, 9, 10, 11, 12, 13, 14, 15, 16), cbeDoc(0x7f, 0xe0, 2, 1),
		cbeDoc(0x7f, 0xe2, 4, 1, 0, 2, 0), cbeDoc(0x7f, 0xe2, 4, 1, 0, 2), cbeDoc(0x7f, 0xea, 2, 1, 2, 3, 4, 5, 6, 7, 8),
		// element counts whose byte count wraps around 2^64
		cat(cbeDoc(0x7f, 0xe0), ulebOf(bigPow2(58))), cat(cbeDoc(0x7f, 0xe0), ulebOf(new(big.Int).Add(bigPow2(58), big.NewInt(2))), tail), cat(cbeDoc(0x7f, 0xe0), ulebOf(new(big.Int).Add(bigPow2(58), big.NewInt(3))), tail, []byte{0}),
		cat(cbeDoc(0x7f, 0xe6), ulebOf(bigPow2(62)), tail), cat(cbeDoc(0x7f, 0xea), ulebOf(new(big.Int).Add(bigPow2(62), big.NewInt(2))), tail),
		cat(cbeDoc(0x7f, 0xe0), uleb(math.MaxUint64), tail), cat(cbeDoc(0x7f, 0xe0), ulebOf(bigPow2(64)), tail),
		// containers and friends
		cbeDoc(0x9a, 0x9b), cbeDoc(0x99, 0x81, 'a', 1, 0x9b), cbeDoc(0x97, 1, 2, 3, 0x9b), cbeDoc(0x98, 1, 0x9b), cbeDoc(0x9b), cbeDoc(0x95, 0x95, 0x7d), cbeDoc(0x78, 0x79, 0x7d),
		cbeDoc(0x73), cbeDoc(0x74), cbeDoc(0x75), cbeDoc(0x7e), cbeDoc(100), cbeDoc(0x9c), cbeDoc(0xff), cbeDoc(1, 2, 3),
	}
	_ = thorough
	return docs
}

// cbeDecFamilies: decoder inputs. pristine = encoder outputs.
func cbeDecFamilies(c *Ctx, k *cbeCorr, pristine [][]byte, nMut, nTruncDocs, nRandom int) {
	k.addDec(pristine, "encoder-output")
	// byte mutations of encoder outputs
	mut := [][]byte{}
	for i := 0; i < nMut && len(pristine) > 0; i++ {
		d := cp(pristine[c.Rng.Intn(len(pristine))])
		for j := 0; j < 1+c.Rng.Intn(3) && len(d) > 0; j++ {
			p := c.Rng.Intn(len(d))
			switch c.Rng.Intn(5) {
			case 0:
				d[p] = byte(c.Rng.Intn(256))
			case 1:
				d[p] ^= 1 << uint(c.Rng.Intn(8))
			case 2:
				d = append(d[:p], d[p+1:]...)
			case 3:
				d = append(d[:p+1], d[p:]...)
				d[p] = byte(c.Rng.Intn(256))
			case 4:
				d[p] = []byte{0x7f, 0x90, 0x92, 0x93, 0x94, 0x66, 0x67, 0x76, 0x77, 0x96, 0x65, 0x70, 0x71, 0x72, 0x9b, 0x80, 0x8f, 0xe0, 0xf0, 0xf1, 0xf2, 0xf3}[c.Rng.Intn(22)]
			}
		}
		mut = append(mut, d)
	}
	k.addDec(mut, "mutated")
	// every truncation of a few documents
	tr := [][]byte{}
	cand := [][]byte{}
	for _, d := range pristine {
		if len(d) >= 40 {
			cand = append(cand, d)
		}
	}
	if len(cand) == 0 {
		cand = pristine
	}
	for i := 0; i < nTruncDocs && i < len(cand); i++ {
		d := cand[(i*7+3)%len(cand)]
		if len(d) > 80 {
			d = d[:80]
		}
		for n := 0; n < len(d); n++ {
			tr = append(tr, d[:n])
		}
	}
	k.addDec(tr, "truncated")
	// random bytes behind a valid header
	rnd := [][]byte{}
	for i := 0; i < nRandom; i++ {
		b := rndBytes(c, 1+c.Rng.Intn(24))
		if i%3 == 0 { // tame variant: no ULEB continuation runs
			for j := range b {
				if j%2 == 1 {
					b[j] &= 0x7f
				}
			}
		}
		rnd = append(rnd, cbeDoc(b...))
	}
	k.addDec(rnd, "random")
	// every first byte and every plane-7f second byte, followed by small bytes
	tail := []byte{3, 1, 2, 3, 4, 5, 6, 7, 8, 9, 10, 11, 12, 13, 14, 15, 16, 17, 18, 19, 20, 21, 22, 23, 24, 25, 26, 27, 28, 29, 30, 31, 32, 33, 34, 35}
	sweep := [][]byte{}
	for b := 0; b < 256; b++ {
		sweep = append(sweep, cat(cbeDoc(byte(b)), tail))
		sweep = append(sweep, cat(cbeDoc(0x7f, byte(b)), tail, bytes.Repeat([]byte{0}, 240)))
	}
	k.addDec(sweep, "sweep")
	k.addDec(cbeDirectedDecoderDocs(c.Thorough()), "directed")
	// document size limit
	cd, cm := [][]byte{}, []uint64{}
	// every limit from 1 to the document length for a few encoder outputs (the limit counts every byte consumed)
	nlim := 0
	for _, d := range pristine {
		if len(d) < 12 || len(d) > 90 {
			continue
		}
		for m := 1; m <= len(d)+1; m++ {
			cd, cm = append(cd, d), append(cm, uint64(m))
		}
		nlim++
		if nlim >= 3 {
			break
		}
	}
	for _, d := range cbeDirectedDecoderDocs(false) {
		if len(d) >= 3 && len(d) <= 40 {
			cd, cm = append(cd, d, d), append(cm, uint64(len(d)), uint64(len(d)-1))
		}
	}
	k.addDecCfg(cd, cm, "maxdoc")
}

func dfloatRaw(exp int32, coef int64) compact_float.DFloat {
	return compact_float.DFloat{Exponent: exp, Coefficient: coef}
}
