package main

// C20 — shared and cyclic pointers survive a round trip with recursion support.
//
// Implementation side: random pointer graphs over the Go type c20N (struct nodes with three pointer
// fields and an int payload, a slice-of-pointers field, a map-with-pointer-values field) are
// marshaled with Iterator.RecursionSupport = true to CBE and CTE and unmarshaled into a *c20N.
// Search oracle: marshaling terminates (watchdog) and the unmarshaled graph is isomorphic to the
// original (simultaneous walk from both roots building a bijection between object identities).
// Correspondence: for every graph the harness records what go-duplicates answered, the events the
// iterator delivered and the graphs Unmarshal returned; Model/Graph.v (graph_case_ok) recomputes all
// of them and checks the statement of the round-trip theorem on the library's own answers. A second
// family plays event streams with forward references, missing and repeated markers straight into
// validator + builder.
//
// Further streams over c20N: the root handed to Marshal BY VALUE (the graph is then "copy of the root
// object -> everything it pointed at"; same model, the copy is the root node of the heap), and long
// slices / maps that hold references which are unresolved when the builder reads them, at every
// position relative to the points where the builder's slice grows.
//
// The zoo (second half of this file): values of a Go type with the shapes c20N does not have —
// pointers to int / float64 / string (shared, first written as map values, as fields, in by-value
// containers), structs nested by value, arrays of pointers, slices and maps of structs, pointers to
// slices and maps — marshaled from a pointer, a struct value, an array, a slice and a map as root.
// Oracle: a generic isomorphism walk over reflect.Values. Correspondence: Model/Graph.v's extended
// heap language (shape_case_ok recomputes every verdict and the fragment assertion).
// Interior pointers (c20Interior): pointers to the first field / first array element / element 0 of
// an object that is itself referenced — same address, different type.  For every zoo value the
// iterator's events are matched against the value (c20CrossTypeRefs): a reference that names the
// marker of another object gives the key C20/interior-pointer-emitted-as-reference-to-enclosing-object
// (also used for the unmarshal error / shape mismatch that follows from it).
// Every class that fails on the unchanged library has a key computed from the shape of the input
// (c20X.features) and the symptom: C20/back-edge-in-{by-value-struct,array,slice-of-structs,
// map-of-structs}, C20/pointer-to-{slice,map}.

import (
	"encoding/json"
	"fmt"
	"math"
	"math/rand"
	"reflect"
	"sort"
	"strings"
	"time"

	"github.com/kstenerud/go-concise-encoding/builder"
	"github.com/kstenerud/go-concise-encoding/ce"
	"github.com/kstenerud/go-concise-encoding/ce/events"
	"github.com/kstenerud/go-concise-encoding/configuration"
	"github.com/kstenerud/go-concise-encoding/iterator"
	"github.com/kstenerud/go-concise-encoding/rules"
	duplicates "github.com/kstenerud/go-duplicates"
)

func init() { register("C20", runC20, replayC20) }

// the Go type of the graphs
type c20N struct {
	V int
	A *c20N
	B *c20N
	C *c20N
	S []*c20N
	M map[int]*c20N
}

const (
	c20Struct = 0
	c20Slice  = 1
	c20Map    = 2
)

// abstract graph: node i has address i+1 in the Coq heap
type c20Node struct {
	Kind int     `json:"k"`
	V    int64   `json:"v,omitempty"`
	F    [5]int  `json:"f"`              // struct: A B C (struct nodes), S (slice node), M (map node); -1 = nil
	El   []int   `json:"el,omitempty"`   // slice elements: struct node or -1
	Keys []int64 `json:"keys,omitempty"` // map keys
	Vals []int   `json:"vals,omitempty"` // map values: struct node or -1
}
type c20Graph struct {
	Nodes []c20Node `json:"nodes"`
	Root  int       `json:"root"`
	// the root object is handed to Marshal BY VALUE (a c20N, not a *c20N). The root node then stands
	// for that copy: nothing points at it (withByValueRoot adds the copy).
	ByValue bool `json:"by_value,omitempty"`
}

func c20NewNode(kind int) c20Node {
	return c20Node{Kind: kind, F: [5]int{-1, -1, -1, -1, -1}}
}

func (g *c20Graph) succ(i int) []int {
	n := g.Nodes[i]
	switch n.Kind {
	case c20Struct:
		return n.F[:]
	case c20Slice:
		return n.El
	}
	return n.Vals
}

// keep only what the root reaches, renumbered in order of first visit
func (g *c20Graph) prune() *c20Graph {
	ren := map[int]int{}
	order := []int{}
	var walk func(i int)
	walk = func(i int) {
		if i < 0 {
			return
		}
		if _, ok := ren[i]; ok {
			return
		}
		ren[i] = len(order)
		order = append(order, i)
		for _, j := range g.succ(i) {
			walk(j)
		}
	}
	walk(g.Root)
	r := func(i int) int {
		if i < 0 {
			return -1
		}
		return ren[i]
	}
	out := &c20Graph{Root: r(g.Root), ByValue: g.ByValue}
	for _, i := range order {
		n := g.Nodes[i]
		m := c20Node{Kind: n.Kind, V: n.V, Keys: append([]int64{}, n.Keys...)}
		for k := 0; k < 5; k++ {
			m.F[k] = r(n.F[k])
		}
		for _, e := range n.El {
			m.El = append(m.El, r(e))
		}
		for _, e := range n.Vals {
			m.Vals = append(m.Vals, r(e))
		}
		out.Nodes = append(out.Nodes, m)
	}
	return out
}

// ---------------------------------------------------------------------------
// materialisation

type c20Mat struct {
	structs map[int]*c20N
	slices  map[int][]*c20N
	maps    map[int]map[int]*c20N
	root    *c20N
}

func (g *c20Graph) materialize() *c20Mat {
	m := &c20Mat{structs: map[int]*c20N{}, slices: map[int][]*c20N{}, maps: map[int]map[int]*c20N{}}
	for i, n := range g.Nodes {
		switch n.Kind {
		case c20Struct:
			m.structs[i] = &c20N{V: int(n.V)}
		case c20Slice:
			m.slices[i] = make([]*c20N, len(n.El))
		case c20Map:
			m.maps[i] = make(map[int]*c20N)
		}
	}
	sp := func(i int) *c20N {
		if i < 0 {
			return nil
		}
		return m.structs[i]
	}
	for i, n := range g.Nodes {
		switch n.Kind {
		case c20Struct:
			s := m.structs[i]
			s.A, s.B, s.C = sp(n.F[0]), sp(n.F[1]), sp(n.F[2])
			if n.F[3] >= 0 {
				s.S = m.slices[n.F[3]]
			}
			if n.F[4] >= 0 {
				s.M = m.maps[n.F[4]]
			}
		case c20Slice:
			for k, e := range n.El {
				m.slices[i][k] = sp(e)
			}
		case c20Map:
			for k, key := range n.Keys {
				m.maps[i][int(key)] = sp(n.Vals[k])
			}
		}
	}
	if g.Root >= 0 {
		m.root = m.structs[g.Root]
	}
	return m
}

// what is handed to Marshal: the pointer, or the struct itself
func (m *c20Mat) object(g *c20Graph) interface{} {
	if g.ByValue && m.root != nil {
		return *m.root
	}
	return m.root
}

// the same graph with its root handed over by value: Marshal receives a copy of the root object, so
// the graph that is written is "copy -> everything the root pointed at" (if the root lies on a cycle
// the original root object is still there, below the copy)
func (g *c20Graph) withByValueRoot() *c20Graph {
	out := &c20Graph{Root: len(g.Nodes), ByValue: true}
	for _, n := range g.Nodes {
		m := n
		m.El = append([]int{}, n.El...)
		m.Keys = append([]int64{}, n.Keys...)
		m.Vals = append([]int{}, n.Vals...)
		out.Nodes = append(out.Nodes, m)
	}
	cp := g.Nodes[g.Root]
	cp.El, cp.Keys, cp.Vals = nil, nil, nil
	out.Nodes = append(out.Nodes, cp)
	return out.prune()
}

// the identity the library uses for node i
func (m *c20Mat) typedPointer(g *c20Graph, i int) (duplicates.TypedPointer, bool) {
	switch g.Nodes[i].Kind {
	case c20Struct:
		return duplicates.TypedPointerOf(m.structs[i]), true
	case c20Slice:
		if len(m.slices[i]) == 0 {
			return duplicates.TypedPointer{}, false
		}
		return duplicates.TypedPointerOfRV(reflect.ValueOf(m.slices[i])), true
	}
	return duplicates.TypedPointerOfRV(reflect.ValueOf(m.maps[i])), true
}

func (m *c20Mat) dups(g *c20Graph) []int {
	found := duplicates.FindDuplicatePointers(m.object(g))
	out := []int{}
	for i := range g.Nodes {
		if tp, ok := m.typedPointer(g, i); ok && found[tp] {
			out = append(out, i)
		}
	}
	return out
}

// ---------------------------------------------------------------------------
// the harness's own walk (used only to protect the process against unbounded recursion in the
// library and to generate streams with forward references)

// would the iterator come back, given the set of marked nodes?
func (g *c20Graph) walkTerminates(dups []int) bool {
	isDup := map[int]bool{}
	for _, d := range dups {
		isDup[d] = true
	}
	named := map[int]bool{}
	steps := 0
	var walk func(i int) bool
	walk = func(i int) bool {
		if i < 0 {
			return true
		}
		steps++
		if steps > 200000 {
			return false
		}
		if isDup[i] {
			if named[i] {
				return true
			}
			named[i] = true
		}
		for _, j := range g.succ(i) {
			if !walk(j) {
				return false
			}
		}
		return true
	}
	return walk(g.Root)
}

var c20FieldNames = []string{"a", "b", "c", "s", "m"}

// events for the graph with the marker of each shared node placed at its markAt-th visit
// (0 = first visit = what the iterator does; later = forward references)
func (g *c20Graph) eventsWithMarkersAt(dups []int, markAt func(node, visits int) int) []Ev {
	isDup := map[int]bool{}
	for _, d := range dups {
		isDup[d] = true
	}
	visits := map[int]int{}
	total := map[int]int{}
	for i := range g.Nodes {
		for _, j := range g.succ(i) {
			if j >= 0 {
				total[j]++
			}
		}
	}
	total[g.Root]++
	ids := map[int]int{}
	idOf := func(i int) []byte {
		if _, ok := ids[i]; !ok {
			ids[i] = len(ids)
		}
		return []byte(fmt.Sprint(ids[i]))
	}
	written := map[int]bool{}
	es := []Ev{{K: "bd"}, {K: "v", N: 0}}
	var walk func(i int)
	walk = func(i int) {
		if i < 0 {
			es = append(es, Ev{K: "null"})
			return
		}
		if isDup[i] {
			k := visits[i]
			visits[i]++
			at := markAt(i, total[i])
			if written[i] || k != at {
				es = append(es, Ev{K: "ref", Data: idOf(i)})
				return
			}
			written[i] = true
			es = append(es, Ev{K: "mk", Data: idOf(i)})
		}
		n := g.Nodes[i]
		switch n.Kind {
		case c20Struct:
			es = append(es, Ev{K: "m"}, Ev{K: "sa", A: events.ArrayTypeString, Data: []byte("v")}, Ev{K: "i", I: n.V})
			for k := 0; k < 5; k++ {
				if n.F[k] >= 0 && !(g.Nodes[n.F[k]].Kind != c20Struct && len(g.succ(n.F[k])) == 0) {
					es = append(es, Ev{K: "sa", A: events.ArrayTypeString, Data: []byte(c20FieldNames[k])})
					walk(n.F[k])
				}
			}
		case c20Slice:
			es = append(es, Ev{K: "l"})
			for _, e := range n.El {
				walk(e)
			}
		case c20Map:
			es = append(es, Ev{K: "m"})
			for k, key := range n.Keys {
				es = append(es, Ev{K: "i", I: key})
				walk(n.Vals[k])
			}
		}
		es = append(es, Ev{K: "e"})
	}
	walk(g.Root)
	return append(es, Ev{K: "ed"})
}

// ---------------------------------------------------------------------------
// reading the iterator's events: marker nesting, and the order in which map entries were delivered

func c20Nested(es []Ev) bool {
	stack := []bool{}
	pending := false
	open := 0
	for _, e := range es {
		switch e.K {
		case "mk":
			if open > 0 {
				return true
			}
			pending = true
		case "l", "m":
			stack = append(stack, pending)
			if pending {
				open++
			}
			pending = false
		case "e":
			if len(stack) > 0 {
				if stack[len(stack)-1] {
					open--
				}
				stack = stack[:len(stack)-1]
			}
		default:
			pending = false
		}
	}
	return false
}

func c20HasMarker(es []Ev) bool {
	for _, e := range es {
		if e.K == "mk" {
			return true
		}
	}
	return false
}

// returns, for every map node, its keys in the order the iterator delivered them
func (g *c20Graph) mapOrder(es []Ev) (order map[int][]int, ok bool) {
	order = map[int][]int{}
	pos := 2
	defer func() {
		if r := recover(); r != nil {
			ok = false
		}
	}()
	var walk func(i int)
	walk = func(i int) {
		e := es[pos]
		if i < 0 {
			if e.K != "null" {
				panic("x")
			}
			pos++
			return
		}
		if e.K == "ref" {
			pos++
			return
		}
		if e.K == "mk" {
			pos++
			e = es[pos]
		}
		n := g.Nodes[i]
		switch n.Kind {
		case c20Struct:
			if e.K != "m" {
				panic("x")
			}
			pos++
			for es[pos].K != "e" {
				name := string(es[pos].Data)
				pos++
				if name == "v" {
					pos++
					continue
				}
				fi := -1
				for k, fn := range c20FieldNames {
					if fn == name {
						fi = k
					}
				}
				if fi < 0 {
					panic("x")
				}
				if es[pos].K == "null" {
					pos++
					continue
				}
				// an empty slice/map that is written out
				if n.F[fi] >= 0 {
					walk(n.F[fi])
				} else {
					panic("x")
				}
			}
			pos++
		case c20Slice:
			if e.K != "l" {
				panic("x")
			}
			pos++
			for _, el := range n.El {
				walk(el)
			}
			if es[pos].K != "e" {
				panic("x")
			}
			pos++
		case c20Map:
			if e.K != "m" {
				panic("x")
			}
			pos++
			seen := []int{}
			for es[pos].K != "e" {
				if es[pos].K != "i" {
					panic("x")
				}
				key := es[pos].I
				pos++
				ki := -1
				for k, kk := range n.Keys {
					if kk == key {
						ki = k
					}
				}
				if ki < 0 {
					panic("x")
				}
				seen = append(seen, ki)
				walk(n.Vals[ki])
			}
			pos++
			if len(seen) != len(n.Keys) {
				panic("x")
			}
			order[i] = seen
		}
	}
	walk(g.Root)
	return order, true
}

// ---------------------------------------------------------------------------
// Coq terms

func c20Ref(i int) string {
	if i < 0 {
		return "None"
	}
	return fmt.Sprintf("(Some %d)", i+1)
}

func (g *c20Graph) coqHeap(order map[int][]int) string {
	items := []string{}
	for i, n := range g.Nodes {
		kids := []string{}
		kind := ""
		switch n.Kind {
		case c20Struct:
			kind = "(KStruct " + cZ(n.V) + ")"
			for k := 0; k < 5; k++ {
				kids = append(kids, fmt.Sprintf("(LF %d, %s)", k, c20Ref(n.F[k])))
			}
		case c20Slice:
			kind = "KSlice"
			for k, e := range n.El {
				kids = append(kids, fmt.Sprintf("(LI %d, %s)", k, c20Ref(e)))
			}
		case c20Map:
			kind = "KMap"
			idx := []int{}
			if o, ok := order[i]; ok && len(o) == len(n.Keys) {
				idx = o
			} else {
				for k := range n.Keys {
					idx = append(idx, k)
				}
			}
			for _, k := range idx {
				kids = append(kids, fmt.Sprintf("(LK %s, %s)", cZ(n.Keys[k]), c20Ref(n.Vals[k])))
			}
		}
		items = append(items, fmt.Sprintf("(%d, mkNode %s %s)", i+1, kind, cList(kids)))
	}
	return cList(items)
}

func c20Addrs(is []int) string {
	s := []string{}
	for _, i := range is {
		s = append(s, fmt.Sprint(i+1))
	}
	return cList(s)
}

// ---------------------------------------------------------------------------
// the object graph Unmarshal returned, as an abstract graph (numbered in order of first visit)

type c20Ident struct {
	kind int
	ptr  uintptr
}

func c20Abstract(root *c20N) *c20Graph {
	g := &c20Graph{Root: -1}
	ids := map[c20Ident]int{}
	var walkStruct func(p *c20N) int
	walkStruct = func(p *c20N) int {
		if p == nil {
			return -1
		}
		id := c20Ident{c20Struct, reflect.ValueOf(p).Pointer()}
		if i, ok := ids[id]; ok {
			return i
		}
		i := len(g.Nodes)
		ids[id] = i
		g.Nodes = append(g.Nodes, c20NewNode(c20Struct))
		g.Nodes[i].V = int64(p.V)
		f := [5]int{-1, -1, -1, -1, -1}
		f[0], f[1], f[2] = walkStruct(p.A), walkStruct(p.B), walkStruct(p.C)
		if p.S != nil {
			sid := c20Ident{c20Slice, reflect.ValueOf(p.S).Pointer()}
			si, ok := ids[sid]
			if !ok || len(p.S) == 0 {
				si = len(g.Nodes)
				if len(p.S) > 0 {
					ids[sid] = si
				}
				g.Nodes = append(g.Nodes, c20NewNode(c20Slice))
				el := []int{}
				for _, e := range p.S {
					el = append(el, walkStruct(e))
				}
				g.Nodes[si].El = el
			}
			f[3] = si
		}
		if p.M != nil {
			mid := c20Ident{c20Map, reflect.ValueOf(p.M).Pointer()}
			mi, ok := ids[mid]
			if !ok {
				mi = len(g.Nodes)
				ids[mid] = mi
				g.Nodes = append(g.Nodes, c20NewNode(c20Map))
				keys := []int{}
				for k := range p.M {
					keys = append(keys, k)
				}
				sort.Ints(keys)
				ks, vs := []int64{}, []int{}
				for _, k := range keys {
					ks = append(ks, int64(k))
					vs = append(vs, walkStruct(p.M[k]))
				}
				g.Nodes[mi].Keys, g.Nodes[mi].Vals = ks, vs
			}
			f[4] = mi
		}
		g.Nodes[i].F = f
		return i
	}
	g.Root = walkStruct(root)
	return g
}

// ---------------------------------------------------------------------------
// the search oracle: isomorphism of two object graphs, on the Go objects themselves

type c20IsoState struct {
	fwd, bwd map[c20Ident]c20Ident
	why      string
}

func (st *c20IsoState) pair(a, b c20Ident) (seen bool, ok bool) {
	if x, have := st.fwd[a]; have {
		if x != b {
			st.why = "an object shared in the original is not shared in the same place in the result"
			return true, false
		}
		return true, true
	}
	if _, have := st.bwd[b]; have {
		st.why = "two different objects of the original are one object in the result"
		return true, false
	}
	st.fwd[a] = b
	st.bwd[b] = a
	return false, true
}

func (st *c20IsoState) structs(a, b *c20N) bool {
	if a == nil || b == nil {
		if a != b {
			st.why = "nil pointer on one side only"
		}
		return a == b
	}
	seen, ok := st.pair(c20Ident{c20Struct, reflect.ValueOf(a).Pointer()}, c20Ident{c20Struct, reflect.ValueOf(b).Pointer()})
	if !ok {
		return false
	}
	if seen {
		return true
	}
	if a.V != b.V {
		st.why = fmt.Sprintf("payload %d became %d", a.V, b.V)
		return false
	}
	if !st.structs(a.A, b.A) || !st.structs(a.B, b.B) || !st.structs(a.C, b.C) {
		return false
	}
	// slices
	// a nil slice / map and an empty one are not distinguished (empty fields are omitted by default)
	if len(a.S) != len(b.S) {
		st.why = fmt.Sprintf("slice of length %d became length %d", len(a.S), len(b.S))
		return false
	}
	if a.S != nil && b.S != nil {
		if len(a.S) != len(b.S) {
			st.why = fmt.Sprintf("slice of length %d became length %d", len(a.S), len(b.S))
			return false
		}
		if len(a.S) > 0 {
			seen, ok := st.pair(c20Ident{c20Slice, reflect.ValueOf(a.S).Pointer()}, c20Ident{c20Slice, reflect.ValueOf(b.S).Pointer()})
			if !ok {
				return false
			}
			if !seen {
				for i := range a.S {
					if !st.structs(a.S[i], b.S[i]) {
						return false
					}
				}
			}
		}
	}
	if len(a.M) != len(b.M) {
		st.why = fmt.Sprintf("map of length %d became length %d", len(a.M), len(b.M))
		return false
	}
	if a.M != nil && b.M != nil {
		if len(a.M) != len(b.M) {
			st.why = fmt.Sprintf("map of length %d became length %d", len(a.M), len(b.M))
			return false
		}
		seen, ok := st.pair(c20Ident{c20Map, reflect.ValueOf(a.M).Pointer()}, c20Ident{c20Map, reflect.ValueOf(b.M).Pointer()})
		if !ok {
			return false
		}
		if !seen {
			keys := []int{}
			for k := range a.M {
				keys = append(keys, k)
			}
			sort.Ints(keys)
			for _, k := range keys {
				bv, have := b.M[k]
				if !have {
					st.why = fmt.Sprintf("map key %d is missing in the result", k)
					return false
				}
				if !st.structs(a.M[k], bv) {
					return false
				}
			}
		}
	}
	return true
}

func c20Iso(a, b *c20N) (bool, string) {
	st := &c20IsoState{fwd: map[c20Ident]c20Ident{}, bwd: map[c20Ident]c20Ident{}}
	ok := st.structs(a, b)
	return ok, st.why
}

// ---------------------------------------------------------------------------
// running the library

type c20Cfg struct {
	OmitNever bool
	Rules     bool
}

func (k c20Cfg) config() *configuration.Configuration {
	cfg := configuration.New()
	cfg.Iterator.RecursionSupport = true
	if k.OmitNever {
		cfg.Iterator.DefaultFieldOmitBehavior = configuration.OmitFieldNever
	}
	cfg.Marshal.EnforceRules = k.Rules
	return cfg
}

// runs f under a watchdog; status: "ok", "panic", "hang"
func c20Watch(f func()) (status string, msg string) {
	done := make(chan string, 1)
	go func() {
		defer func() {
			if r := recover(); r != nil {
				done <- "panic: " + fmt.Sprint(r)
			}
		}()
		f()
		done <- ""
	}()
	// (hangWait: 10 s, then — for the first few — another 10 s before the call counts as hanging)
	m, answered := hangWait(done, 10*time.Second)
	if !answered {
		return "hang", "no answer within 10-20 s"
	}
	if m != "" {
		return "panic", m
	}
	return "ok", ""
}

func c20Marshal(format string, root interface{}, cfg *configuration.Configuration) (doc []byte, status string, msg string) {
	var err error
	status, msg = c20Watch(func() {
		if format == "cbe" {
			doc, err = ce.MarshalToCBEDocument(root, cfg)
		} else {
			doc, err = ce.MarshalToCTEDocument(root, cfg)
		}
	})
	if status == "ok" && err != nil {
		return doc, "error", err.Error()
	}
	return
}

func c20Unmarshal(format string, doc []byte, cfg *configuration.Configuration) (res *c20N, status string, msg string) {
	var err error
	var v interface{}
	status, msg = c20Watch(func() {
		if format == "cbe" {
			v, err = ce.UnmarshalFromCBEDocument(doc, (*c20N)(nil), cfg)
		} else {
			v, err = ce.UnmarshalFromCTEDocument(doc, (*c20N)(nil), cfg)
		}
	})
	if status != "ok" {
		return nil, status, msg
	}
	if err != nil {
		return nil, "error", err.Error()
	}
	if v == nil {
		return nil, "ok", ""
	}
	p, ok := v.(*c20N)
	if !ok {
		return nil, "error", fmt.Sprintf("Unmarshal returned a %T", v)
	}
	return p, "ok", ""
}

// a Recorder that gives up (with an ordinary panic, which the watchdog turns into a status) once far
// more containers have been opened than any of the generated graphs has objects: an iterator that
// does not find its way out of a cycle is stopped long before the Go stack is exhausted (a stack
// overflow cannot be recovered from and would take the whole run down)
type c20LimitRecorder struct {
	Recorder
	opened int
}

const c20MaxContainers = 4000

func (r *c20LimitRecorder) count() {
	r.opened++
	if r.opened > c20MaxContainers {
		panic("c20: the iterator opened more than 4000 containers")
	}
}
func (r *c20LimitRecorder) OnList() { r.count(); r.Recorder.OnList() }
func (r *c20LimitRecorder) OnMap()  { r.count(); r.Recorder.OnMap() }

func c20IterEvents(root interface{}, cfg *configuration.Configuration) (es []Ev, status string) {
	rec := &c20LimitRecorder{}
	status, _ = c20Watch(func() { iterator.NewSession(nil, cfg).NewIterator(rec).Iterate(root) })
	if status == "panic" && rec.opened > c20MaxContainers {
		status = "nonterminating"
	}
	return rec.Evs, status
}

// plays events into (validator +) builder for a *c20N
func c20PlayStream(es []Ev, withRules bool) (res *c20N, ok bool) {
	cfg := c20Cfg{Rules: withRules}.config()
	b := builder.NewSession(nil, cfg).NewBuilderFor((*c20N)(nil))
	var rcv events.DataEventReceiver = b
	if withRules {
		rcv = rules.NewRules(b, cfg)
	}
	status, _ := c20Watch(func() {
		for _, e := range es {
			play(rcv, e)
		}
	})
	if status != "ok" {
		return nil, false
	}
	var v interface{}
	status, _ = c20Watch(func() { v = b.GetBuiltObject() })
	if status != "ok" {
		return nil, false
	}
	if v == nil {
		return nil, true
	}
	p, isN := v.(*c20N)
	if !isN {
		return nil, false
	}
	return p, true
}

func c20ImplResult(p *c20N, ok bool) string {
	if !ok {
		return "IErr"
	}
	g := c20Abstract(p)
	return cApp("IOk", g.coqHeap(nil), c20Ref(g.Root))
}

// ---------------------------------------------------------------------------
// one graph through the library: oracle + correspondence case

func (g *c20Graph) features() (emptyContainer, nilMapUnderNever bool) {
	for _, n := range g.Nodes {
		if n.Kind != c20Struct && len(n.El)+len(n.Keys) == 0 {
			emptyContainer = true
		}
		if n.Kind == c20Struct && n.F[4] < 0 {
			nilMapUnderNever = true
		}
	}
	return
}

type c20Outcome struct {
	failures []Replay
	term     string // Coq case, "" when there is none
	human    string
	nested   bool
	markers  bool
	dups     int
	accepted bool
}

func c20RootSuffix(g *c20Graph) string {
	if g.ByValue {
		return "/by-value-root"
	}
	return ""
}

func c20GraphJSON(g *c20Graph) string {
	b, _ := json.Marshal(g)
	return string(b)
}

func c20RunGraph(g *c20Graph, k c20Cfg) c20Outcome {
	out := c20Outcome{}
	in := func(format string) map[string]string {
		return map[string]string{"graph": c20GraphJSON(g), "omit_never": fmt.Sprint(k.OmitNever), "rules": fmt.Sprint(k.Rules), "format": format}
	}
	cfg := k.config()
	m := g.materialize()
	dups := m.dups(g)
	out.dups = len(dups)
	if !g.walkTerminates(dups) {
		// do not call the library: its recursion would not come back and would take the process down
		out.failures = append(out.failures, Replay{Kind: "graph", Key: "C20/marshal-nonterminating", Input: in("-"),
			Expect: "every cycle passes through a pointer that FindDuplicatePointers reports", Got: fmt.Sprintf("reported: %v", dups)})
		return out
	}
	obj := m.object(g)
	es, st := c20IterEvents(obj, cfg)
	if st != "ok" {
		out.failures = append(out.failures, Replay{Kind: "graph", Key: "C20/iterate-" + st + c20RootSuffix(g), Input: in("-"), Expect: "events", Got: st})
		return out
	}
	out.nested = c20Nested(es)
	out.markers = c20HasMarker(es)
	order, _ := g.mapOrder(es)
	emptyContainer, nilMap := g.features()
	results := []string{}
	out.accepted = true
	for _, format := range []string{"cbe", "cte"} {
		doc, st, msg := c20Marshal(format, obj, cfg)
		if st != "ok" {
			out.failures = append(out.failures, Replay{Kind: "graph", Key: "C20/marshal-" + st + "/" + format + c20RootSuffix(g), Input: in(format), Expect: "a document", Got: msg})
			out.accepted = false
			continue
		}
		res, st, msg := c20Unmarshal(format, doc, cfg)
		if st != "ok" {
			out.accepted = false
			key := "C20/unmarshal-" + st + "/" + format + c20RootSuffix(g)
			switch {
			case st == "error" && k.Rules && out.nested && strings.Contains(msg, "already exists"):
				// classification only (the failure itself is that a marshaled document is refused)
				key = "C20/nested-marker-rejected"
			case st == "error" && k.OmitNever && nilMap:
				key = "C20/nil-map-written-as-null-rejected"
			}
			out.failures = append(out.failures, Replay{Kind: "graph", Key: key, Input: in(format), Expect: "the document produced by Marshal is accepted", Got: msg})
			results = append(results, "IErr")
			continue
		}
		results = append(results, c20ImplResult(res, true))
		if ok, why := c20Iso(m.root, res); !ok {
			key := "C20/not-isomorphic/" + format + c20RootSuffix(g)
			if emptyContainer && strings.Contains(why, "not shared") {
				key = "C20/empty-map-sharing-lost"
			}
			out.failures = append(out.failures, Replay{Kind: "graph", Key: key, Input: in(format), Expect: "a graph of the same shape", Got: why})
		}
	}
	if len(results) == 2 {
		out.term = cApp("GraphCase", cBool(k.OmitNever), cBool(k.Rules), g.coqHeap(order), c20Ref(g.Root), c20Addrs(dups), cEvs(es), cList(results))
		out.human = fmt.Sprintf("graph omit_never=%v rules=%v by_value_root=%v nested=%v dups=%v %s", k.OmitNever, k.Rules, g.ByValue, out.nested, dups, c20GraphJSON(g))
	}
	return out
}

// ---------------------------------------------------------------------------
// generators

var c20Payloads = []int64{0, 1, -1, 2, 7, 100, -100, 255, 256, 65535, math.MaxInt32, math.MinInt32, math.MaxInt64, math.MinInt64}

func c20Payload(r *rand.Rand) int64 {
	if r.Intn(3) == 0 {
		return c20Payloads[r.Intn(len(c20Payloads))]
	}
	return int64(r.Intn(41) - 20)
}

type c20Slot struct {
	node, field int // field 0..4 for structs; -1 = append an element / a new key
}

func (g *c20Graph) freeSlots(wantKind int, maxLen int) []c20Slot {
	out := []c20Slot{}
	for i, n := range g.Nodes {
		switch n.Kind {
		case c20Struct:
			for k := 0; k < 5; k++ {
				if n.F[k] >= 0 {
					continue
				}
				kk := c20Struct
				if k == 3 {
					kk = c20Slice
				} else if k == 4 {
					kk = c20Map
				}
				if kk == wantKind {
					out = append(out, c20Slot{i, k})
				}
			}
		case c20Slice:
			if wantKind == c20Struct && len(n.El) < maxLen {
				out = append(out, c20Slot{i, -1})
			}
		case c20Map:
			if wantKind == c20Struct && len(n.Keys) < maxLen {
				out = append(out, c20Slot{i, -1})
			}
		}
	}
	return out
}

func (g *c20Graph) newKey(r *rand.Rand, i int) int64 {
	for {
		k := c20Payload(r)
		dup := false
		for _, x := range g.Nodes[i].Keys {
			if x == k {
				dup = true
			}
		}
		if !dup {
			return k
		}
	}
}

func (g *c20Graph) attach(r *rand.Rand, s c20Slot, target int) {
	n := &g.Nodes[s.node]
	switch {
	case s.field >= 0:
		n.F[s.field] = target
	case n.Kind == c20Slice:
		n.El = append(n.El, target)
	default:
		n.Keys = append(n.Keys, g.newKey(r, s.node))
		n.Vals = append(n.Vals, target)
	}
}

// is y below x in the graph built so far?
func (g *c20Graph) reaches(x, y int) bool {
	seen := map[int]bool{}
	var walk func(i int) bool
	walk = func(i int) bool {
		if i < 0 || seen[i] {
			return false
		}
		if i == y {
			return true
		}
		seen[i] = true
		for _, j := range g.succ(i) {
			if walk(j) {
				return true
			}
		}
		return false
	}
	return walk(x)
}

// a random tree of n nodes, then extra edges: shared (any compatible free slot) or back (from below the target)
func c20Random(r *rand.Rand, n, extra int, backBias int) *c20Graph {
	g := &c20Graph{Root: 0}
	root := c20NewNode(c20Struct)
	root.V = c20Payload(r)
	g.Nodes = append(g.Nodes, root)
	for len(g.Nodes) < n {
		kind := c20Struct
		switch r.Intn(6) {
		case 0:
			kind = c20Slice
		case 1:
			kind = c20Map
		}
		slots := g.freeSlots(kind, 4)
		if len(slots) == 0 {
			continue
		}
		nn := c20NewNode(kind)
		if kind == c20Struct {
			nn.V = c20Payload(r)
		}
		g.Nodes = append(g.Nodes, nn)
		g.attach(r, slots[r.Intn(len(slots))], len(g.Nodes)-1)
	}
	for e := 0; e < extra; e++ {
		target := r.Intn(len(g.Nodes))
		slots := g.freeSlots(g.Nodes[target].Kind, 5)
		if r.Intn(100) < backBias {
			below := []c20Slot{}
			for _, s := range slots {
				if s.node == target || g.reaches(target, s.node) {
					below = append(below, s)
				}
			}
			slots = below
		}
		if len(slots) == 0 {
			continue
		}
		g.attach(r, slots[r.Intn(len(slots))], target)
	}
	// nil elements, and no empty slice or map
	for i := range g.Nodes {
		n := &g.Nodes[i]
		if n.Kind == c20Slice && (len(n.El) == 0 || r.Intn(4) == 0) {
			n.El = append(n.El, -1)
		}
		if n.Kind == c20Map && (len(n.Keys) == 0 || r.Intn(4) == 0) {
			n.Keys = append(n.Keys, g.newKey(r, i))
			n.Vals = append(n.Vals, -1)
		}
	}
	return g.prune()
}

func c20Boundary() []*c20Graph {
	s := func(v int64, f ...int) c20Node {
		n := c20NewNode(c20Struct)
		n.V = v
		copy(n.F[:], f)
		return n
	}
	sl := func(el ...int) c20Node { n := c20NewNode(c20Slice); n.El = el; return n }
	mp := func(kv ...int) c20Node {
		n := c20NewNode(c20Map)
		for i := 0; i+1 < len(kv); i += 2 {
			n.Keys = append(n.Keys, int64(kv[i]))
			n.Vals = append(n.Vals, kv[i+1])
		}
		return n
	}
	gs := []*c20Graph{
		{Nodes: []c20Node{s(1)}},                                                                  // one object
		{Nodes: []c20Node{s(2, 0)}},                                                               // self loop
		{Nodes: []c20Node{s(2, 0, 0, 0)}},                                                         // three self loops
		{Nodes: []c20Node{s(3, 1), s(4, -1, 0)}},                                                  // cycle of two
		{Nodes: []c20Node{s(1, 1, 1, 1), s(7)}},                                                   // one leaf, three times
		{Nodes: []c20Node{s(1, 1, 2), s(7), s(7)}},                                                // equal but distinct leaves
		{Nodes: []c20Node{s(1, -1, -1, -1, 1), sl(2, 2, -1, 2), s(9)}},                            // slice holding one pointer three times
		{Nodes: []c20Node{s(1, -1, -1, -1, 1), sl(0)}},                                            // cycle through a slice
		{Nodes: []c20Node{s(1, -1, -1, -1, -1, 1), mp(5, 0, -1, -1)}},                             // cycle through a map
		{Nodes: []c20Node{s(1, 1, -1, -1, 2), s(2, -1, -1, -1, 2), sl(3, -1), s(5)}},              // shared slice
		{Nodes: []c20Node{s(1, 1, -1, -1, -1, 2), s(2, -1, -1, -1, -1, 2), mp(1, 3, 2, 3), s(5)}}, // shared map whose values are one leaf
		{Nodes: []c20Node{s(1, 1, 1), s(2, 2, 2), s(3)}},                                          // marker inside a marked object
		{Nodes: []c20Node{s(1, 1, 1, 0), s(7)}},                                                   // marked root holding a shared leaf
		{Nodes: []c20Node{s(1, 1, 2), s(2, 3), s(3, 3), s(4)}},                                    // shared leaf reached through two unshared objects
	}
	// a chain of 12 closed into a ring
	ring := &c20Graph{}
	for i := 0; i < 12; i++ {
		ring.Nodes = append(ring.Nodes, s(int64(i), (i+1)%12))
	}
	gs = append(gs, ring)
	// a chain of 12 whose last object points back into the middle
	rho := &c20Graph{}
	for i := 0; i < 12; i++ {
		nx := i + 1
		if i == 11 {
			nx = 6
		}
		rho.Nodes = append(rho.Nodes, s(int64(-i), nx))
	}
	gs = append(gs, rho)
	out := []*c20Graph{}
	for _, g := range gs {
		out = append(out, g.prune())
	}
	return out
}

// Long slices and maps that contain references which cannot be resolved when they are read
// (back-edges to an object that is still being built), at every position relative to the points
// where the builder's slice has to grow (capacities 4, 8, 16, 32, ...): lengths around the powers of
// two, the unresolved reference first / in the middle / last / at random positions, held by the root
// or by a child, the rest of the elements fresh objects, nil, or one shared leaf.
func c20LongContainers(r *rand.Rand, thorough bool) []*c20Graph {
	lengths := []int{1, 2, 3, 4, 5, 6, 8, 9, 16, 17, 33}
	if thorough {
		lengths = []int{1, 2, 3, 4, 5, 6, 7, 8, 9, 10, 15, 16, 17, 18, 31, 32, 33, 34, 63, 64, 65, 129}
	}
	out := []*c20Graph{}
	// kind: c20Slice or c20Map; holder: 0 = the root holds the container, 1 = a child of the root does;
	// back[i] = 1: element i points back at the root, 2: at the holder; fill: what the other elements are
	build := func(kind, holder, n int, back map[int]int, fill func(i int) int) *c20Graph {
		g := &c20Graph{Root: 0}
		root := c20NewNode(c20Struct)
		root.V = 1
		g.Nodes = append(g.Nodes, root)
		h := 0
		if holder == 1 {
			child := c20NewNode(c20Struct)
			child.V = 2
			g.Nodes = append(g.Nodes, child)
			g.Nodes[0].F[r.Intn(3)] = 1
			h = 1
		}
		cont := c20NewNode(kind)
		g.Nodes = append(g.Nodes, cont)
		ci := len(g.Nodes) - 1
		if kind == c20Slice {
			g.Nodes[h].F[3] = ci
		} else {
			g.Nodes[h].F[4] = ci
		}
		leaf := -1
		for i := 0; i < n; i++ {
			target := -1
			switch {
			case back[i] == 1:
				target = 0
			case back[i] == 2:
				target = h
			default:
				switch fill(i) {
				case 0: // fresh object
					nn := c20NewNode(c20Struct)
					nn.V = int64(100 + i)
					g.Nodes = append(g.Nodes, nn)
					target = len(g.Nodes) - 1
				case 1: // nil
				case 2: // one shared leaf
					if leaf < 0 {
						nn := c20NewNode(c20Struct)
						nn.V = -7
						g.Nodes = append(g.Nodes, nn)
						leaf = len(g.Nodes) - 1
					}
					target = leaf
				}
			}
			c := &g.Nodes[ci]
			if kind == c20Slice {
				c.El = append(c.El, target)
			} else {
				c.Keys = append(c.Keys, int64(i*3-4))
				c.Vals = append(c.Vals, target)
			}
		}
		return g.prune()
	}
	fresh := func(int) int { return 0 }
	mixed := func(int) int { return []int{0, 0, 0, 1, 2}[r.Intn(5)] }
	for _, kind := range []int{c20Slice, c20Map} {
		for _, n := range lengths {
			positions := map[int]bool{0: true, n / 2: true, n - 1: true}
			if n > 4 {
				positions[3] = true // the last slot of the first allocation
				positions[4] = true // the first slot after it
			}
			ps := []int{}
			for p := range positions {
				ps = append(ps, p)
			}
			sort.Ints(ps)
			if kind == c20Map && !thorough {
				ps = ps[:1]
			}
			for _, p := range ps {
				out = append(out, build(kind, 0, n, map[int]int{p: 1}, fresh))
			}
			// held by a child: one element points at the root, another at the child
			out = append(out, build(kind, 1, n, map[int]int{r.Intn(n): 1, r.Intn(n): 2}, mixed))
			// several unresolved references at random positions
			back := map[int]int{r.Intn(n): 1 + r.Intn(2)}
			for i := 0; i < n; i++ {
				if r.Intn(4) == 0 {
					back[i] = 1 + r.Intn(2)
				}
			}
			out = append(out, build(kind, r.Intn(2), n, back, mixed))
		}
	}
	return out
}

// ---------------------------------------------------------------------------

func c20Record(c *Ctx, cf *caseFile, stream string, g *c20Graph, k c20Cfg) c20Outcome {
	o := c20RunGraph(g, k)
	key := fmt.Sprintf("%v|%v|%s", k.OmitNever, k.Rules, c20GraphJSON(g))
	c.Count(key, len(g.Nodes) > 1)
	c.Dist("stream/" + stream)
	c.Dist(fmt.Sprintf("nodes/%02d", len(g.Nodes)))
	c.Dist(fmt.Sprintf("marked-objects/%d", o.dups))
	c.Dist(fmt.Sprintf("marker-inside-marked/%v", o.nested))
	cyclic := false
	for j := range g.Nodes {
		if g.reaches2(j) {
			cyclic = true
		}
	}
	c.Dist(fmt.Sprintf("cyclic/%v", cyclic))
	kinds := [3]int{}
	for _, n := range g.Nodes {
		kinds[n.Kind]++
	}
	c.Dist(fmt.Sprintf("slices/%d", kinds[1]))
	c.Dist(fmt.Sprintf("maps/%d", kinds[2]))
	c.Dist(fmt.Sprintf("cfg/omit_never=%v,rules=%v", k.OmitNever, k.Rules))
	c.Dist(fmt.Sprintf("root-by-value/%v", g.ByValue))
	longest := 0
	for _, n := range g.Nodes {
		if l := len(n.El) + len(n.Keys); l > longest {
			longest = l
		}
	}
	c.Dist(fmt.Sprintf("longest-container/%s", map[bool]string{true: "5+", false: "0-4"}[longest > 4]))
	c.Dist(fmt.Sprintf("accepted/%v", o.accepted))
	if o.dups > 0 && len(c.Rep.Samples) < 6 {
		c.Sample(map[string]string{"stream": stream, "graph": c20GraphJSON(g), "marked": fmt.Sprint(o.dups), "accepted": fmt.Sprint(o.accepted)})
	}
	for _, f := range o.failures {
		c.Fail(f)
	}
	if o.term != "" {
		cf.Add(o.term, o.human)
	}
	return o
}

func runC20(c *Ctx) {
	c.Rep.Rule = "graphs over type N{V int; A,B,C *N; S []*N; M map[int]*N}: random tree of 1..12 nodes plus 0..4 extra edges (shared / back edges), each run through CBE and CTE; streams: main (shared objects inside shared objects and cycles through shared objects included; rules on), rules-off, omit-never, empty containers, slice prefixes, boundary shapes; event streams with forward references / missing / repeated markers played into validator+builder; by-value-root: the same graphs with the root struct handed to Marshal by value; long-containers: slices / maps of 1..33 (thorough ..129) entries around the powers of two holding back-edges at the first / middle / last / growth-point / random positions; zoo: values of type Z{V int; P,Q *Z; I,J *int; F,G *float64; T,U *string; In struct{W int; Q *Z; I *int}; Ar [2]*Z; S []*Z; Sv []In; Mp map[string]*Z; Mi map[string]*int; Mf map[int]*float64; Mt map[int]*string; Mv map[string]In; Ps *[]*Z; Pm *map[string]*Z} from a pointer / struct value / array / slice / map root: directed (shared leaf pointers first written as map values with later occurrences in later fields, children, a second map, the same map; sharing through by-value containers; the failing classes) and random (1..7 Z objects, 25% back-edges, 40% sharing per reference slot); interior-pointers: a referenced (held once / shared / cyclic) struct or slice of structs next to pointers to its first field / first element of its first-field array / element 0 (same address, other type; control: a field elsewhere), each held 1..3 times, written before / after / on both sides of the enclosing object; for every zoo value the iterator's events are walked along the value and every reference must name the marker put on the object (type and address) its slot holds; non-trivial = more than one object; distinct = distinct (configuration, graph) or stream"
	cf := c.Cases("graph", "CE.Model.Graph", "graph_case", "graph_case_ok")
	cf.perFile = 120

	gen := func(wantNested bool) *c20Graph {
		for try := 0; ; try++ {
			n := 1 + c.Rng.Intn(12)
			extra := c.Rng.Intn(5)
			if wantNested && extra < 2 {
				extra = 2
			}
			g := c20Random(c.Rng, n, extra, 40)
			m := g.materialize()
			dups := m.dups(g)
			if !g.walkTerminates(dups) {
				return g // let the oracle report it
			}
			es, st := c20IterEvents(m.object(g), c20Cfg{Rules: true}.config())
			if st != "ok" || c20Nested(es) == wantNested || try > 200 {
				return g
			}
		}
	}

	// boundary shapes, every configuration that is meant to work
	for _, g := range c20Boundary() {
		c20Record(c, cf, "boundary", g, c20Cfg{Rules: true})
		c20Record(c, cf, "boundary", g, c20Cfg{Rules: false})
	}
	// main stream: any sharing, any cycles; half of the graphs are asked to have a marker inside a marked object
	for i := 0; i < c.Pick(330, 2000); i++ {
		c20Record(c, cf, "main", gen(i%2 == 1), c20Cfg{Rules: true})
	}
	// the same with the validator switched off
	for i := 0; i < c.Pick(90, 600); i++ {
		c20Record(c, cf, "rules-off", gen(i%2 == 1), c20Cfg{Rules: false})
	}
	// omit-never: nil fields are written as null
	for i := 0; i < c.Pick(12, 150); i++ {
		c20Record(c, cf, "omit-never", gen(false), c20Cfg{OmitNever: true, Rules: true})
	}
	// omit-never with every map field set (possibly empty, possibly shared)
	for i := 0; i < c.Pick(40, 400); i++ {
		g := gen(false)
		shared := -1
		for j := range g.Nodes {
			if g.Nodes[j].Kind == c20Struct && g.Nodes[j].F[4] < 0 {
				if shared >= 0 && c.Rng.Intn(3) == 0 {
					g.Nodes[j].F[4] = shared
					continue
				}
				g.Nodes = append(g.Nodes, c20NewNode(c20Map))
				g.Nodes[j].F[4] = len(g.Nodes) - 1
				shared = len(g.Nodes) - 1
			}
		}
		c20Record(c, cf, "omit-never-maps-set", g.prune(), c20Cfg{OmitNever: true, Rules: c.Rng.Intn(2) == 0})
	}
	// empty containers under the default omit behaviour
	for i := 0; i < c.Pick(10, 100); i++ {
		g := gen(false)
		for j := range g.Nodes {
			if g.Nodes[j].Kind == c20Struct && c.Rng.Intn(2) == 0 {
				k := 3 + c.Rng.Intn(2)
				if g.Nodes[j].F[k] < 0 {
					kind := c20Slice
					if k == 4 {
						kind = c20Map
					}
					g.Nodes = append(g.Nodes, c20NewNode(kind))
					g.Nodes[j].F[k] = len(g.Nodes) - 1
				}
			}
		}
		c20Record(c, cf, "empty-containers", g.prune(), c20Cfg{Rules: true})
	}

	// the root object handed to Marshal by value instead of by pointer (boundary shapes and random graphs)
	for _, g := range c20Boundary() {
		c20Record(c, cf, "by-value-root", g.withByValueRoot(), c20Cfg{Rules: true})
	}
	for i := 0; i < c.Pick(60, 500); i++ {
		c20Record(c, cf, "by-value-root", gen(i%2 == 1).withByValueRoot(), c20Cfg{Rules: i%3 != 0})
	}
	// long slices / maps holding unresolved references around the builder's growth points
	for i, g := range c20LongContainers(c.Rng, c.Thorough()) {
		c20Record(c, cf, "long-containers", g, c20Cfg{Rules: i%4 != 3})
		if i%5 == 0 {
			c20Record(c, cf, "long-containers", g.withByValueRoot(), c20Cfg{Rules: true})
		}
	}

	c20SlicePrefixes(c)
	c20PointerToPointer(c)
	c20Streams(c, cf)
	c20Zoo(c)
	c20Interior(c)
}

// two slices over one backing array with different lengths: not expressible in the model's heaps
// (one identity, two lengths); oracle only
func c20SlicePrefixes(c *Ctx) {
	for i := 0; i < c.Pick(6, 40); i++ {
		n := 2 + c.Rng.Intn(3)
		cut := 1 + c.Rng.Intn(n-1)
		first := i%2 == 1
		format := []string{"cbe", "cte"}[(i/2)%2]
		ok, why := c20SlicePrefixOracle(n, cut, first, format)
		c.Count(fmt.Sprintf("prefix|%d|%d|%v|%s", n, cut, first, format), true)
		c.Dist("stream/slice-prefix")
		if !ok {
			c.Fail(Replay{Kind: "slice-prefix", Key: "C20/slice-prefix-aliased", Input: map[string]string{"len": fmt.Sprint(n), "cut": fmt.Sprint(cut), "prefix_first": fmt.Sprint(first), "format": format},
				Expect: "slices of the original lengths", Got: why})
		}
	}
}

func c20SlicePrefixOracle(n, cut int, prefixFirst bool, format string) (bool, string) {
	full := make([]*c20N, n)
	for i := range full {
		full[i] = &c20N{V: i}
	}
	// the full slice is visited twice, its prefix once; all three have the same TypedPointer
	root := &c20N{V: 1, A: &c20N{V: 2, S: full}, B: &c20N{V: 3, S: full[:cut]}, C: &c20N{V: 4, S: full}}
	if prefixFirst {
		root.A, root.B = root.B, root.A
	}
	cfg := c20Cfg{Rules: false}.config()
	doc, st, msg := c20Marshal(format, root, cfg)
	if st != "ok" {
		return false, "marshal: " + msg
	}
	res, st, msg := c20Unmarshal(format, doc, cfg)
	if st != "ok" {
		return false, "unmarshal: " + msg
	}
	if res == nil || res.A == nil || res.B == nil || res.C == nil {
		return false, "objects missing"
	}
	if len(res.A.S) != len(root.A.S) || len(res.B.S) != len(root.B.S) || len(res.C.S) != len(root.C.S) {
		return false, fmt.Sprintf("slices of lengths %d, %d, %d came back with lengths %d, %d, %d",
			len(root.A.S), len(root.B.S), len(root.C.S), len(res.A.S), len(res.B.S), len(res.C.S))
	}
	return true, ""
}

// a shared pointer to a shared pointer: outside the model's Go type (no **N there); oracle only
type c20PP struct {
	P *c20N
	X **c20N
	Y **c20N
}

func c20PointerToPointerOracle(format string, rules bool) (bool, string) {
	ok, why := c20PPRoundTrip(format, rules, true)
	if !ok {
		// control: the same type with nothing shared
		if okc, whyc := c20PPRoundTrip(format, rules, false); !okc {
			why += " [control: a **N field holding an unshared pointer does not come back either: " + whyc + "]"
		}
	}
	return ok, why
}

func c20PPRoundTrip(format string, rules bool, shared bool) (bool, string) {
	leaf := &c20N{V: 7}
	pp := &leaf
	root := &c20PP{P: leaf, X: pp, Y: pp}
	if !shared {
		other := &c20N{V: 7}
		root = &c20PP{P: &c20N{V: 7}, X: pp, Y: &other}
	}
	cfg := c20Cfg{Rules: rules}.config()
	var doc []byte
	var err error
	st, msg := c20Watch(func() {
		if format == "cbe" {
			doc, err = ce.MarshalToCBEDocument(root, cfg)
		} else {
			doc, err = ce.MarshalToCTEDocument(root, cfg)
		}
	})
	if st != "ok" || err != nil {
		return false, fmt.Sprintf("marshal: %s %s %v", st, msg, err)
	}
	var v interface{}
	st, msg = c20Watch(func() {
		if format == "cbe" {
			v, err = ce.UnmarshalFromCBEDocument(doc, (*c20PP)(nil), cfg)
		} else {
			v, err = ce.UnmarshalFromCTEDocument(doc, (*c20PP)(nil), cfg)
		}
	})
	if st != "ok" || err != nil {
		return false, fmt.Sprintf("unmarshal: %s %s %v", st, msg, err)
	}
	res, ok := v.(*c20PP)
	if !ok || res == nil || res.P == nil || res.X == nil || res.Y == nil || *res.X == nil {
		return false, "objects missing"
	}
	if shared && res.X != res.Y {
		return false, "the shared pointer-to-pointer came back as two objects"
	}
	if shared && *res.X != res.P {
		return false, "the pointer behind the shared pointer is no longer the shared leaf"
	}
	if !shared && (res.X == res.Y || *res.X == res.P || *res.Y == nil || *res.X == *res.Y) {
		return false, "objects that were distinct came back shared"
	}
	if res.P.V != 7 || (*res.X).V != 7 {
		return false, "payload changed"
	}
	return true, ""
}

func c20PointerToPointer(c *Ctx) {
	for _, format := range []string{"cbe", "cte"} {
		for _, rules := range []bool{true, false} {
			ok, why := c20PointerToPointerOracle(format, rules)
			c.Count(fmt.Sprintf("pp|%s|%v", format, rules), true)
			c.Dist("stream/pointer-to-shared-pointer")
			if !ok {
				c.Fail(Replay{Kind: "pointer-to-pointer", Key: "C20/pointer-to-shared-pointer", Input: map[string]string{"format": format, "rules": fmt.Sprint(rules)},
					Expect: "X and Y share one pointer whose target is the shared leaf", Got: why})
			}
		}
	}
}

// event streams played into validator + builder
func c20Streams(c *Ctx, cf *caseFile) {
	add := func(kind string, g *c20Graph, es []Ev, withRules bool, expectIso bool) {
		res, ok := c20PlayStream(es, withRules)
		c.Count("stream|"+fmt.Sprint(withRules)+"|"+evsString(es), true)
		c.Dist("stream/events-" + kind)
		c.Dist(fmt.Sprintf("events-%s/accepted=%v", kind, ok))
		cf.Add(cApp("StreamCase", cBool(withRules), cEvs(es), c20ImplResult(res, ok)), fmt.Sprintf("stream %s rules=%v %s", kind, withRules, evsString(es)))
		if expectIso {
			// a legal document describing g: the builder must produce g
			in := map[string]string{"events": evsString(es), "rules": fmt.Sprint(withRules), "graph": c20GraphJSON(g)}
			if !ok {
				key := "C20/forward-reference-stream-rejected"
				if withRules && c20Nested(es) {
					key = "C20/nested-marker-rejected"
				}
				c.Fail(Replay{Kind: "stream", Key: key, Input: in, Expect: "accepted", Got: "rejected"})
			} else if iso, why := c20Iso(g.materialize().root, res); !iso {
				c.Fail(Replay{Kind: "stream", Key: "C20/forward-reference-stream-not-isomorphic", Input: in, Expect: "the graph the stream describes", Got: why})
			}
		}
	}
	for i := 0; i < c.Pick(60, 400); i++ {
		g := c20Random(c.Rng, 1+c.Rng.Intn(10), 1+c.Rng.Intn(4), 40)
		m := g.materialize()
		dups := m.dups(g)
		if !g.walkTerminates(dups) {
			continue
		}
		// forward references: the marker sits at a later visit
		pick := map[int]int{}
		es := g.eventsWithMarkersAt(dups, func(node, visits int) int {
			if _, ok := pick[node]; !ok {
				pick[node] = c.Rng.Intn(visits)
			}
			return pick[node]
		})
		withRules := c.Rng.Intn(2) == 0
		cyclic := false
		for _, d := range dups {
			if g.reaches2(d) {
				cyclic = true
			}
		}
		// moving the marker of an object on a cycle to a later visit does not give a finite document; keep those as they are
		if cyclic {
			es = g.eventsWithMarkersAt(dups, func(node, visits int) int { return 0 })
		}
		add("forward", g, es, withRules, true)
		// damaged streams: a marker removed, a marker id repeated, a reference to nothing
		if len(dups) > 0 {
			switch c.Rng.Intn(3) {
			case 0:
				out := []Ev{}
				dropped := false
				for _, e := range es {
					if e.K == "mk" && !dropped {
						dropped = true
						continue
					}
					out = append(out, e)
				}
				add("marker-dropped", g, out, withRules, false)
			case 1:
				// (a reference to a marked object of another type than the slot is a type error in the builder,
				// outside the model: only collapse ids when every marked object is a struct)
				allStructs := true
				for _, d := range dups {
					if g.Nodes[d].Kind != c20Struct {
						allStructs = false
					}
				}
				if !allStructs {
					break
				}
				out := []Ev{}
				for _, e := range es {
					if e.K == "mk" || e.K == "ref" {
						e.Data = []byte("0")
					}
					out = append(out, e)
				}
				add("ids-collapsed", g, out, withRules, false)
			case 2:
				out := []Ev{}
				for _, e := range es {
					if e.K == "ref" {
						e.Data = []byte("99")
					}
					out = append(out, e)
				}
				add("dangling-reference", g, out, withRules, false)
			}
		}
	}
}

// is node d on a cycle?
func (g *c20Graph) reaches2(d int) bool {
	for _, j := range g.succ(d) {
		if j == d || (j >= 0 && g.reaches(j, d)) {
			return true
		}
	}
	return false
}

// ---------------------------------------------------------------------------

func replayC20(r *Replay) (bool, string) {
	switch r.Kind {
	case "graph":
		var g c20Graph
		if err := json.Unmarshal([]byte(r.Input["graph"]), &g); err != nil {
			return false, "bad replay input: " + err.Error()
		}
		k := c20Cfg{OmitNever: r.Input["omit_never"] == "true", Rules: r.Input["rules"] == "true"}
		o := c20RunGraph(&g, k)
		for _, f := range o.failures {
			if f.Input["format"] == r.Input["format"] || r.Input["format"] == "-" {
				return false, fmt.Sprintf("%s: %s (required: %s)", f.Key, f.Got, f.Expect)
			}
		}
		return true, "marshaling terminated and the unmarshaled graph is isomorphic to the original"
	case "slice-prefix":
		var n, cut int
		fmt.Sscan(r.Input["len"], &n)
		fmt.Sscan(r.Input["cut"], &cut)
		if n < 2 || cut < 1 || cut >= n {
			return false, "bad replay input"
		}
		ok, why := c20SlicePrefixOracle(n, cut, r.Input["prefix_first"] == "true", r.Input["format"])
		return ok, why
	case "pointer-to-pointer":
		return c20PointerToPointerOracle(r.Input["format"], r.Input["rules"] == "true")
	case "zoo":
		return c20ReplayZoo(r)
	case "stream":
		es, err := parseEvs(r.Input["events"])
		if err != nil {
			return false, "bad replay input: " + err.Error()
		}
		var g c20Graph
		if err := json.Unmarshal([]byte(r.Input["graph"]), &g); err != nil {
			return false, "bad replay input: " + err.Error()
		}
		res, ok := c20PlayStream(es, r.Input["rules"] == "true")
		if !ok {
			return false, "the stream was rejected"
		}
		iso, why := c20Iso(g.materialize().root, res)
		return iso, why
	}
	return false, "unknown replay kind " + r.Kind
}

// ===========================================================================
// The zoo: pointer graphs over shapes the type c20N does not have — pointers to scalars and strings
// (markers on values that are not containers), maps whose values are such pointers, structs nested
// BY VALUE that hold pointers, arrays of pointers, slices and maps of structs that hold pointers,
// pointers to slices and to maps — and roots of every kind (pointer, struct value, array, slice,
// map).  Everything below works on reflect.Values, so a further shape is a further Go type.
//
// Search oracle: c20RIso, the isomorphism walk on the Go objects themselves.
// Correspondence: the original and every result are written as heaps of Model/Graph.v's extended
// heap language (xheap); the case checker recomputes the isomorphism verdicts there (xiso_check) and
// checks the statement "inside the supported fragment the round trip gives an isomorphic graph".
// The library's behaviour on these shapes is NOT modelled in Coq (Model/Graph.v says so).

type c20ZI struct {
	W int
	Q *c20Z
	I *int
}

type c20Z struct {
	V  int
	P  *c20Z
	I  *int
	F  *float64
	T  *string
	In c20ZI
	Ar [2]*c20Z
	S  []*c20Z
	Sv []c20ZI
	Mp map[string]*c20Z
	Mi map[string]*int
	Mf map[int]*float64
	Mt map[int]*string
	Mv map[string]c20ZI
	Ps *[]*c20Z
	Pm *map[string]*c20Z
	// written after the containers above: later occurrences of what those hold
	Q *c20Z
	J *int
	G *float64
	U *string
}

var c20ZType = reflect.TypeOf(c20Z{})

// ---------------------------------------------------------------------------
// generic isomorphism walk (search oracle)

type c20RIdent struct {
	t reflect.Type
	p uintptr
}

type c20RIsoState struct {
	fwd, bwd map[c20RIdent]c20RIdent
	why      string
	// where the walk failed: the by-value containers between the nearest object with an identity and
	// the slot ("" for a slot directly in such an object), and whether a reference of the original
	// came back nil
	chain string
	lost  bool
}

func (st *c20RIsoState) pair(a, b c20RIdent, path string) (seen bool, ok bool) {
	if x, have := st.fwd[a]; have {
		if x != b {
			st.why = path + ": an object shared in the original is not shared in the same place in the result"
			return true, false
		}
		return true, true
	}
	if _, have := st.bwd[b]; have {
		st.why = path + ": two different objects of the original are one object in the result"
		return true, false
	}
	st.fwd[a] = b
	st.bwd[b] = a
	return false, true
}

func c20ChainAdd(chain, what string) string {
	if chain == "" {
		return what
	}
	return chain
}

// chain: "" directly inside an object with identity, otherwise the outermost by-value container
func (st *c20RIsoState) walk(a, b reflect.Value, path, chain string) bool {
	if a.Type() != b.Type() {
		st.why = fmt.Sprintf("%s: type %v became %v", path, a.Type(), b.Type())
		return false
	}
	fail := func(format string, args ...interface{}) bool {
		st.why = path + ": " + fmt.Sprintf(format, args...)
		st.chain = chain
		return false
	}
	switch a.Kind() {
	case reflect.Int, reflect.Int64:
		if a.Int() != b.Int() {
			return fail("%d became %d", a.Int(), b.Int())
		}
	case reflect.Float64:
		if math.Float64bits(a.Float()) != math.Float64bits(b.Float()) {
			return fail("%v became %v", a.Float(), b.Float())
		}
	case reflect.String:
		if a.String() != b.String() {
			return fail("%q became %q", a.String(), b.String())
		}
	case reflect.Ptr:
		if a.IsNil() || b.IsNil() {
			if a.IsNil() != b.IsNil() {
				st.lost = b.IsNil()
				return fail("nil pointer on one side only (original nil: %v)", a.IsNil())
			}
			return true
		}
		seen, ok := st.pair(c20RIdent{a.Type(), a.Pointer()}, c20RIdent{b.Type(), b.Pointer()}, path)
		if !ok {
			st.chain = chain
			return false
		}
		if seen {
			return true
		}
		return st.walk(a.Elem(), b.Elem(), path+"*", "")
	case reflect.Slice:
		// nil and empty are not distinguished (empty fields are omitted by default)
		if a.Len() != b.Len() {
			st.lost = b.Len() == 0
			return fail("slice of length %d became length %d", a.Len(), b.Len())
		}
		if a.Len() == 0 {
			return true
		}
		seen, ok := st.pair(c20RIdent{a.Type(), a.Pointer()}, c20RIdent{b.Type(), b.Pointer()}, path)
		if !ok {
			st.chain = chain
			return false
		}
		if seen {
			return true
		}
		for i := 0; i < a.Len(); i++ {
			ch := ""
			if k := a.Type().Elem().Kind(); k == reflect.Struct || k == reflect.Array {
				ch = "slice-of-structs"
			}
			if !st.walk(a.Index(i), b.Index(i), fmt.Sprintf("%s[%d]", path, i), ch) {
				return false
			}
		}
	case reflect.Map:
		if a.Len() != b.Len() {
			st.lost = b.Len() == 0
			return fail("map of length %d became length %d", a.Len(), b.Len())
		}
		if a.Len() == 0 {
			return true
		}
		seen, ok := st.pair(c20RIdent{a.Type(), a.Pointer()}, c20RIdent{b.Type(), b.Pointer()}, path)
		if !ok {
			st.chain = chain
			return false
		}
		if seen {
			return true
		}
		for _, k := range c20SortedKeys(a) {
			bv := b.MapIndex(k)
			if !bv.IsValid() {
				return fail("map key %v is missing in the result", k)
			}
			ch := ""
			if kk := a.Type().Elem().Kind(); kk == reflect.Struct || kk == reflect.Array {
				ch = "map-of-structs"
			}
			if !st.walk(a.MapIndex(k), bv, fmt.Sprintf("%s[%v]", path, k), ch) {
				return false
			}
		}
	case reflect.Struct:
		for i := 0; i < a.NumField(); i++ {
			ch := chain
			if k := a.Type().Field(i).Type.Kind(); k == reflect.Struct {
				ch = c20ChainAdd(chain, "by-value-struct")
			}
			if !st.walk(a.Field(i), b.Field(i), path+"."+a.Type().Field(i).Name, ch) {
				return false
			}
		}
	case reflect.Array:
		for i := 0; i < a.Len(); i++ {
			if !st.walk(a.Index(i), b.Index(i), fmt.Sprintf("%s[%d]", path, i), c20ChainAdd(chain, "array")) {
				return false
			}
		}
	default:
		return fail("kind %v is outside the zoo", a.Kind())
	}
	return true
}

func c20SortedKeys(m reflect.Value) []reflect.Value {
	keys := m.MapKeys()
	sort.Slice(keys, func(i, j int) bool {
		if keys[i].Kind() == reflect.String {
			return keys[i].String() < keys[j].String()
		}
		return keys[i].Int() < keys[j].Int()
	})
	return keys
}

func c20RIso(a, b reflect.Value) (ok bool, st *c20RIsoState) {
	st = &c20RIsoState{fwd: map[c20RIdent]c20RIdent{}, bwd: map[c20RIdent]c20RIdent{}}
	return st.walk(a, b, "root", ""), st
}

// ---------------------------------------------------------------------------
// a Go value as a heap of Model/Graph.v's extended heap language

type c20XV struct {
	K    byte // 'n' nil / empty, 'i' int, 'f' float64 (bits), 's' string, 'r' reference, 'S' struct, 'A' array
	Z    int64
	Str  string
	Ref  int
	Kids []c20XV
}

type c20XCell struct {
	K    byte // 'o' what a pointer points at, 'l' slice (backing array and length), 'm' map
	T    reflect.Type
	Val  c20XV
	Els  []c20XV // 'l': elements; 'm': values
	Keys []c20XV
}

type c20X struct {
	Cells []c20XCell
	Root  c20XV
}

func c20Abstract2(root reflect.Value) *c20X {
	x := &c20X{}
	ids := map[c20RIdent]int{}
	var val func(v reflect.Value) c20XV
	alloc := func(v reflect.Value, k byte) (int, bool) {
		id := c20RIdent{v.Type(), v.Pointer()}
		if i, ok := ids[id]; ok {
			return i, true
		}
		ids[id] = len(x.Cells)
		x.Cells = append(x.Cells, c20XCell{K: k, T: v.Type()})
		return len(x.Cells) - 1, false
	}
	val = func(v reflect.Value) c20XV {
		switch v.Kind() {
		case reflect.Int, reflect.Int64:
			return c20XV{K: 'i', Z: v.Int()}
		case reflect.Float64:
			return c20XV{K: 'f', Z: int64(math.Float64bits(v.Float()))}
		case reflect.String:
			return c20XV{K: 's', Str: v.String()}
		case reflect.Ptr:
			if v.IsNil() {
				return c20XV{K: 'n'}
			}
			i, seen := alloc(v, 'o')
			if !seen {
				c := val(v.Elem())
				x.Cells[i].Val = c
			}
			return c20XV{K: 'r', Ref: i}
		case reflect.Slice:
			if v.Len() == 0 {
				return c20XV{K: 'n'}
			}
			i, seen := alloc(v, 'l')
			if !seen {
				els := []c20XV{}
				for k := 0; k < v.Len(); k++ {
					els = append(els, val(v.Index(k)))
				}
				x.Cells[i].Els = els
			}
			return c20XV{K: 'r', Ref: i}
		case reflect.Map:
			if v.Len() == 0 {
				return c20XV{K: 'n'}
			}
			i, seen := alloc(v, 'm')
			if !seen {
				keys, els := []c20XV{}, []c20XV{}
				for _, k := range c20SortedKeys(v) {
					keys = append(keys, val(k))
					els = append(els, val(v.MapIndex(k)))
				}
				x.Cells[i].Keys, x.Cells[i].Els = keys, els
			}
			return c20XV{K: 'r', Ref: i}
		case reflect.Struct:
			out := c20XV{K: 'S'}
			for k := 0; k < v.NumField(); k++ {
				out.Kids = append(out.Kids, val(v.Field(k)))
			}
			return out
		case reflect.Array:
			out := c20XV{K: 'A'}
			for k := 0; k < v.Len(); k++ {
				out.Kids = append(out.Kids, val(v.Index(k)))
			}
			return out
		}
		panic(fmt.Sprintf("c20: kind %v is outside the zoo", v.Kind()))
	}
	x.Root = val(root)
	return x
}

func (v c20XV) coq() string {
	switch v.K {
	case 'n':
		return "XNil"
	case 'i':
		return cApp("XInt", cZ(v.Z))
	case 'f':
		return cApp("XFlt", fmt.Sprintf("%d%%Z", uint64(v.Z)))
	case 's':
		return cApp("XStr", cBytes([]byte(v.Str)))
	case 'r':
		return fmt.Sprintf("(XRef %d)", v.Ref+1)
	}
	kids := []string{}
	for _, k := range v.Kids {
		kids = append(kids, k.coq())
	}
	if v.K == 'S' {
		return cApp("XStruct", cList(kids))
	}
	return cApp("XArr", cList(kids))
}

func (x *c20X) coqHeap() string {
	items := []string{}
	for i, c := range x.Cells {
		body := ""
		switch c.K {
		case 'o':
			body = cApp("XCObj", c.Val.coq())
		case 'l':
			els := []string{}
			for _, e := range c.Els {
				els = append(els, e.coq())
			}
			body = cApp("XCSlice", cList(els))
		case 'm':
			kvs := []string{}
			for k := range c.Keys {
				kvs = append(kvs, cPair(c.Keys[k].coq(), c.Els[k].coq()))
			}
			body = cApp("XCMap", cList(kvs))
		}
		items = append(items, fmt.Sprintf("(%d, %s)", i+1, body))
	}
	return cList(items)
}

// ---------------------------------------------------------------------------
// the shape of an input: which classes of slots it has (computed from the value alone, independent
// of the order in which the library happens to walk maps)

// features, in the order in which they are consulted for a failure key
var c20FeatureOrder = []string{"pointer-to-slice", "pointer-to-map", "back-edge-in-by-value-struct", "back-edge-in-array",
	"back-edge-in-slice-of-structs", "back-edge-in-map-of-structs"}

func (x *c20X) refsOf(c int) []int {
	out := []int{}
	var walk func(v c20XV)
	walk = func(v c20XV) {
		if v.K == 'r' {
			out = append(out, v.Ref)
		}
		for _, k := range v.Kids {
			walk(k)
		}
	}
	cell := x.Cells[c]
	walk(cell.Val)
	for _, e := range cell.Els {
		walk(e)
	}
	return out
}

func (x *c20X) reaches(from, to int) bool {
	seen := map[int]bool{}
	var walk func(i int) bool
	walk = func(i int) bool {
		if i == to {
			return true
		}
		if seen[i] {
			return false
		}
		seen[i] = true
		for _, j := range x.refsOf(i) {
			if walk(j) {
				return true
			}
		}
		return false
	}
	return walk(from)
}

// A reference held in a by-value container (a struct nested in a struct, an array, a struct that is
// an element of a slice or a value of a map) whose target leads back to the object holding that
// container: when the library writes the graph, such a reference can be one to an object that is
// still open ("back-edge"); whether it is depends on the order of the walk, so the feature is the
// possibility.  Also: any pointer to a slice or to a map.
func (x *c20X) features() map[string]bool {
	f := map[string]bool{}
	for ci, c := range x.Cells {
		var walk func(v c20XV, chain string)
		walk = func(v c20XV, chain string) {
			switch v.K {
			case 'r':
				if chain != "" && x.reaches(v.Ref, ci) {
					f["back-edge-in-"+chain] = true
				}
			case 'S':
				for _, k := range v.Kids {
					ch := chain
					if k.K == 'S' {
						ch = c20ChainAdd(chain, "by-value-struct")
					}
					walk(k, ch)
				}
			case 'A':
				for _, k := range v.Kids {
					walk(k, c20ChainAdd(chain, "array"))
				}
			}
		}
		switch c.K {
		case 'o':
			switch c.T.Elem().Kind() {
			case reflect.Slice:
				f["pointer-to-slice"] = true
			case reflect.Map:
				f["pointer-to-map"] = true
			}
			walk(c.Val, "")
		case 'l', 'm':
			for _, e := range c.Els {
				ch := ""
				if e.K == 'S' || e.K == 'A' {
					ch = map[byte]string{'l': "slice-of-structs", 'm': "map-of-structs"}[c.K]
				}
				walk(e, ch)
			}
		}
	}
	return f
}

// other statistics of a shape (for the distribution report)
func (x *c20X) stats() (cells, leafCells, sharedLeaves, sharedCells int, cyclic bool) {
	indeg := map[int]int{}
	var count func(v c20XV)
	count = func(v c20XV) {
		if v.K == 'r' {
			indeg[v.Ref]++
		}
		for _, k := range v.Kids {
			count(k)
		}
	}
	count(x.Root)
	for _, c := range x.Cells {
		count(c.Val)
		for _, e := range c.Els {
			count(e)
		}
	}
	for i, c := range x.Cells {
		leaf := c.K == 'o' && (c.Val.K == 'i' || c.Val.K == 'f' || c.Val.K == 's')
		if leaf {
			leafCells++
		}
		if indeg[i] > 1 {
			sharedCells++
			if leaf {
				sharedLeaves++
			}
		}
		for _, j := range x.refsOf(i) {
			if x.reaches(j, i) {
				cyclic = true
			}
		}
	}
	return len(x.Cells), leafCells, sharedLeaves, sharedCells, cyclic
}

// ---------------------------------------------------------------------------
// building zoo values

type c20ZSpec struct {
	Shape     string `json:"shape"`          // "random" or the name of a directed shape
	Root      string `json:"root"`           // ptr | value | array | slice | map
	Seed      int64  `json:"seed,omitempty"` // random: the generator's own seed
	Size      int    `json:"size,omitempty"` // random: number of c20Z objects allowed
	Fields    string `json:"fields,omitempty"`
	BackByVal bool   `json:"back_by_val,omitempty"`
	P         []int  `json:"p,omitempty"` // directed: parameters
}

func (sp c20ZSpec) json() string {
	b, _ := json.Marshal(sp)
	return string(b)
}

// fields of c20Z that a random value may populate
const c20FieldsClean = "P,I,F,T,In,Ar,S,Sv,Mp,Mi,Mf,Mt,Mv,Q,J,G,U"
const c20FieldsLeaves = "P,I,F,T,Mi,Mf,Mt,Mp,Q,J,G,U"
const c20FieldsAll = "P,I,F,T,In,Ar,S,Sv,Mp,Mi,Mf,Mt,Mv,Ps,Pm,Q,J,G,U"

type c20ZGen struct {
	r         *rand.Rand
	fields    map[string]bool
	backByVal bool
	budget    int
	open      map[reflect.Type][]reflect.Value
	done      map[reflect.Type][]reflect.Value
	strKeys   int
}

var c20Floats = []float64{0, 1.5, 2.5, -0.25, 100.125, 1e10, -3}
var c20Strings = []string{"", "a", "lo", "hi", "x y", "été"}

func (g *c20ZGen) pick(vs []reflect.Value) reflect.Value { return vs[g.r.Intn(len(vs))] }

func (g *c20ZGen) value(t reflect.Type, byval bool) reflect.Value {
	switch t.Kind() {
	case reflect.Int:
		return reflect.ValueOf(int(c20Payload(g.r)))
	case reflect.Float64:
		return reflect.ValueOf(c20Floats[g.r.Intn(len(c20Floats))])
	case reflect.String:
		return reflect.ValueOf(c20Strings[g.r.Intn(len(c20Strings))])
	case reflect.Ptr, reflect.Slice, reflect.Map:
		if g.r.Intn(100) < 25 && (!byval || g.backByVal) && len(g.open[t]) > 0 {
			return g.pick(g.open[t])
		}
		if g.r.Intn(100) < 40 && len(g.done[t]) > 0 {
			return g.pick(g.done[t])
		}
		return g.fresh(t)
	case reflect.Array:
		a := reflect.New(t).Elem()
		for i := 0; i < a.Len(); i++ {
			if g.r.Intn(4) > 0 {
				a.Index(i).Set(g.value(t.Elem(), true))
			}
		}
		return a
	case reflect.Struct:
		s := reflect.New(t).Elem()
		g.fillStruct(s, true)
		return s
	}
	panic("c20: kind outside the zoo")
}

func (g *c20ZGen) length() int {
	if g.r.Intn(8) == 0 {
		return 5 + g.r.Intn(5)
	}
	return 1 + g.r.Intn(4)
}

func (g *c20ZGen) fresh(t reflect.Type) reflect.Value {
	var v reflect.Value
	switch t.Kind() {
	case reflect.Ptr:
		et := t.Elem()
		if et == c20ZType {
			if g.budget <= 0 {
				return reflect.Zero(t)
			}
			g.budget--
		}
		v = reflect.New(et)
		g.open[t] = append(g.open[t], v)
		switch et.Kind() {
		case reflect.Struct:
			g.fillStruct(v.Elem(), false)
		case reflect.Slice, reflect.Map:
			// a pointer to a slice / map: always a non-empty one
			v.Elem().Set(g.fresh(et))
		default:
			v.Elem().Set(g.value(et, false))
		}
	case reflect.Slice:
		n := g.length()
		v = reflect.MakeSlice(t, n, n)
		g.open[t] = append(g.open[t], v)
		for i := 0; i < n; i++ {
			if t.Elem().Kind() == reflect.Struct || g.r.Intn(6) > 0 {
				v.Index(i).Set(g.value(t.Elem(), false))
			}
		}
	case reflect.Map:
		n := g.length()
		v = reflect.MakeMap(t)
		g.open[t] = append(g.open[t], v)
		for i := 0; i < n; i++ {
			var key reflect.Value
			if t.Key().Kind() == reflect.String {
				key = reflect.ValueOf([]string{"a", "b", "lo", "hi", "k", "m", "n", "o", "p", "q"}[(i+g.strKeys)%10])
			} else {
				key = reflect.ValueOf(i*7 - 3)
			}
			ev := reflect.Zero(t.Elem())
			if t.Elem().Kind() == reflect.Struct || g.r.Intn(6) > 0 {
				ev = g.value(t.Elem(), false)
			}
			v.SetMapIndex(key, ev)
		}
		g.strKeys += 3
	default:
		panic("c20: fresh")
	}
	g.open[t] = g.open[t][:len(g.open[t])-1]
	g.done[t] = append(g.done[t], v)
	return v
}

func (g *c20ZGen) fillStruct(s reflect.Value, byval bool) {
	t := s.Type()
	for i := 0; i < t.NumField(); i++ {
		f := t.Field(i)
		switch {
		case f.Type.Kind() == reflect.Int:
			s.Field(i).Set(g.value(f.Type, byval))
		case t == c20ZType && !g.fields[f.Name]:
		case f.Type.Kind() == reflect.Struct:
			if g.r.Intn(2) == 0 {
				s.Field(i).Set(g.value(f.Type, true))
			}
		case f.Type.Kind() == reflect.Array:
			if g.r.Intn(3) == 0 {
				s.Field(i).Set(g.value(f.Type, true))
			}
		default:
			p := 30
			if t != c20ZType {
				p = 60
			}
			if g.r.Intn(100) < p {
				s.Field(i).Set(g.value(f.Type, byval))
			}
		}
	}
}

func c20RootType(root string) reflect.Type {
	switch root {
	case "ptr":
		return reflect.TypeOf((*c20Z)(nil))
	case "value":
		return c20ZType
	case "array":
		return reflect.TypeOf([2]*c20Z{})
	case "slice":
		return reflect.TypeOf([]*c20Z{})
	case "map":
		return reflect.TypeOf(map[string]*c20Z{})
	}
	panic("c20: unknown root kind " + root)
}

// wraps a *c20Z graph into the requested kind of root
func c20WrapRoot(root string, z *c20Z, other *c20Z) reflect.Value {
	switch root {
	case "ptr":
		return reflect.ValueOf(z)
	case "value":
		return reflect.ValueOf(*z)
	case "array":
		return reflect.ValueOf([2]*c20Z{z, other})
	case "slice":
		return reflect.ValueOf([]*c20Z{z, other, z})
	case "map":
		return reflect.ValueOf(map[string]*c20Z{"a": z, "b": other, "c": z})
	}
	panic("c20: unknown root kind " + root)
}

func (sp c20ZSpec) build() (obj reflect.Value, err error) {
	defer func() {
		if r := recover(); r != nil {
			err = fmt.Errorf("%v", r)
		}
	}()
	if sp.Shape == "random" {
		g := &c20ZGen{r: rand.New(rand.NewSource(sp.Seed)), fields: map[string]bool{}, backByVal: sp.BackByVal, budget: sp.Size,
			open: map[reflect.Type][]reflect.Value{}, done: map[reflect.Type][]reflect.Value{}}
		for _, f := range strings.Split(sp.Fields, ",") {
			g.fields[f] = true
		}
		t := c20RootType(sp.Root)
		switch t.Kind() {
		case reflect.Struct:
			s := reflect.New(t).Elem()
			g.fillStruct(s, false)
			return s, nil
		case reflect.Array:
			a := reflect.New(t).Elem()
			for i := 0; i < a.Len(); i++ {
				a.Index(i).Set(g.value(t.Elem(), true))
			}
			return a, nil
		}
		g.budget++
		return g.fresh(t), nil
	}
	p := func(i int) int {
		if i < len(sp.P) {
			return sp.P[i]
		}
		return 0
	}
	if sp.Shape == "interior" {
		return c20InteriorBuild(p), nil
	}
	z, other := c20Directed(sp.Shape, p)
	if z == nil {
		return obj, fmt.Errorf("unknown shape %q", sp.Shape)
	}
	return c20WrapRoot(sp.Root, z, other), nil
}

// Directed shapes.  The second result is another object of the same graph (used to fill roots that
// have several slots).
func c20Directed(shape string, p func(int) int) (*c20Z, *c20Z) {
	root := &c20Z{V: 1}
	switch shape {
	case "leaf-in-map":
		// Pointers to scalars / strings shared between the values of a map and places that are written
		// later.  p0: 0 *int, 1 *float64, 2 *string; p1: number of entries; p2: where the later
		// occurrences are: 0 = fields of a chain of children (and of the root), 1 = a second map, in a
		// child, 2 = further entries of the same map, 3 = an earlier field of the root as well (then the
		// map holds references only)
		kind, n, where := p(0), p(1), p(2)
		ints, flts, strs := []*int{}, []*float64{}, []*string{}
		for i := 0; i < n; i++ {
			a, b, c := 10+i, 1.5+float64(i), fmt.Sprintf("s%d", i)
			ints, flts, strs = append(ints, &a), append(flts, &b), append(strs, &c)
		}
		put := func(z *c20Z, key int, i int) {
			switch kind {
			case 0:
				if z.Mi == nil {
					z.Mi = map[string]*int{}
				}
				z.Mi[fmt.Sprintf("k%02d", key)] = ints[i]
			case 1:
				if z.Mf == nil {
					z.Mf = map[int]*float64{}
				}
				z.Mf[key] = flts[i]
			default:
				if z.Mt == nil {
					z.Mt = map[int]*string{}
				}
				z.Mt[key] = strs[i]
			}
		}
		field := func(z *c20Z, early bool, i int) {
			switch {
			case kind == 0 && early:
				z.I = ints[i]
			case kind == 0:
				z.J = ints[i]
			case kind == 1 && early:
				z.F = flts[i]
			case kind == 1:
				z.G = flts[i]
			case early:
				z.T = strs[i]
			default:
				z.U = strs[i]
			}
		}
		for i := 0; i < n; i++ {
			put(root, i, i)
		}
		switch where {
		case 0:
			cur := root
			field(root, false, n-1)
			for i := 0; i < n; i++ {
				child := &c20Z{V: 20 + i}
				field(child, i%2 == 1, i)
				cur.Q = child
				cur = child
			}
		case 1:
			child := &c20Z{V: 2}
			for i := 0; i < n; i++ {
				put(child, i+100, i)
			}
			root.Q = child
		case 2:
			for i := 0; i < n; i++ {
				put(root, i+100, i)
				put(root, i+200, i)
			}
		case 3:
			field(root, true, 0)
			field(root, false, n-1)
			root.Q = &c20Z{V: 2}
			field(root.Q, false, 0)
		}
		return root, root.Q
	case "forward-in-by-value":
		// sharing (no cycle) through every kind of by-value container: expected to come back
		leaf := &c20Z{V: 9}
		n := 7
		root.P = leaf
		root.I = &n
		root.In = c20ZI{W: 1, Q: leaf, I: &n}
		root.Ar = [2]*c20Z{leaf, leaf}
		root.Sv = []c20ZI{{W: 2, Q: leaf}, {W: 3}, {W: 4, Q: leaf, I: &n}}
		root.Mv = map[string]c20ZI{"a": {W: 5, Q: leaf}, "b": {W: 6, I: &n}}
		for i := 0; i < p(0); i++ {
			root.Sv = append(root.Sv, c20ZI{W: 10 + i, Q: leaf})
		}
		return root, leaf
	case "back-edge-in-by-value":
		// A reference to an object that is still being built, held in a by-value container.
		// p0: 0 nested struct, 1 array, 2 slice of structs, 3 map of structs; p1: 0 = the container's
		// holder is the target, 1 = the holder is a child of the target; p2: position in the container
		holder, target := root, root
		if p(1) == 1 {
			holder = &c20Z{V: 2}
			root.P = holder
		}
		switch p(0) {
		case 0:
			holder.In = c20ZI{W: 3, Q: target}
		case 1:
			holder.Ar[p(2)%2] = target
			holder.Ar[(p(2)+1)%2] = &c20Z{V: 4}
		case 2:
			holder.Sv = []c20ZI{{W: 5}, {W: 6}, {W: 7}}
			holder.Sv[p(2)%3].Q = target
		case 3:
			holder.Mv = map[string]c20ZI{"a": {W: 8}, "b": {W: 9}}
			holder.Mv[[]string{"a", "b"}[p(2)%2]] = c20ZI{W: 10, Q: target}
		}
		return root, holder
	case "pointer-to-container":
		// p0: 0 pointer to a slice, 1 pointer to a map; p1: 0 held once, 1 shared
		child := &c20Z{V: 2}
		root.Q = child
		if p(0) == 0 {
			s := []*c20Z{{V: 3}, {V: 4}}
			root.Ps = &s
			if p(1) == 1 {
				child.Ps = &s
			}
		} else {
			m := map[string]*c20Z{"a": {V: 3}}
			root.Pm = &m
			if p(1) == 1 {
				child.Pm = &m
			}
		}
		return root, child
	case "shared-leaves":
		// p0 = number of places one *int / *float64 / *string is held in, spread over struct fields,
		// by-value containers and a child
		i, f, s := 5, 2.5, "hi"
		child := &c20Z{V: 2, I: &i, G: &f, U: &s}
		root.I, root.J, root.F, root.T = &i, &i, &f, &s
		root.Q = child
		if p(0) > 0 {
			root.In.I = &i
			root.Sv = []c20ZI{{I: &i}, {W: 1}, {I: &i}}
			root.Mv = map[string]c20ZI{"a": {I: &i}}
		}
		return root, child
	}
	return nil, nil
}

// ---------------------------------------------------------------------------
// one zoo value through the library

// what Unmarshal returned, as a value of the type that was marshaled
func c20ZooResult(v interface{}, t reflect.Type) (reflect.Value, error) {
	if v == nil {
		return reflect.Zero(t), nil
	}
	rv := reflect.ValueOf(v)
	if rv.Type() == t {
		return rv, nil
	}
	if rv.Kind() == reflect.Ptr && rv.Type().Elem() == t && !rv.IsNil() {
		return rv.Elem(), nil
	}
	return rv, fmt.Errorf("Unmarshal returned a %T for a %v", v, t)
}

func c20ZooUnmarshal(format string, doc []byte, t reflect.Type, cfg *configuration.Configuration) (res reflect.Value, status string, msg string) {
	var err error
	var v interface{}
	tmpl := reflect.Zero(t).Interface()
	if t.Kind() == reflect.Struct {
		tmpl = reflect.Zero(reflect.PtrTo(t)).Interface()
	}
	status, msg = c20Watch(func() {
		if format == "cbe" {
			v, err = ce.UnmarshalFromCBEDocument(doc, tmpl, cfg)
		} else {
			v, err = ce.UnmarshalFromCTEDocument(doc, tmpl, cfg)
		}
	})
	if status != "ok" {
		return res, status, msg
	}
	if err != nil {
		return res, "error", err.Error()
	}
	res, err = c20ZooResult(v, t)
	if err != nil {
		return res, "error", err.Error()
	}
	return res, "ok", ""
}

type c20ZooOutcome struct {
	followed bool // the iterator's events could be matched against the value (c20CrossTypeRefs)
	failures []Replay
	term     string
	human    string
	features map[string]bool
	x        *c20X
}

func c20RootKeySuffix(root string) string {
	if root == "ptr" {
		return ""
	}
	return "/" + root + "-root"
}

func c20RunZoo(sp c20ZSpec, rules bool) c20ZooOutcome {
	out := c20ZooOutcome{features: map[string]bool{}}
	in := func(format string) map[string]string {
		return map[string]string{"spec": sp.json(), "rules": fmt.Sprint(rules), "format": format}
	}
	obj, err := sp.build()
	if err != nil {
		out.failures = append(out.failures, Replay{Kind: "zoo", Key: "C20/zoo-bad-spec", Input: in("-"), Got: err.Error()})
		return out
	}
	x := c20Abstract2(obj)
	out.x = x
	out.features = x.features()
	cfg := c20Cfg{Rules: rules}.config()
	suffix := c20RootKeySuffix(sp.Root)
	es, st := c20IterEvents(obj.Interface(), cfg)
	if st != "ok" {
		out.failures = append(out.failures, Replay{Kind: "zoo", Key: "C20/zoo-iterate-" + st + suffix, Input: in("-"),
			Expect: "the iterator comes back", Got: st})
		return out
	}
	// the events against the value: every reference must name the marker that was put on the very
	// object (type and address) the slot holds
	crossed, followed := c20CrossTypeRefs(obj, es)
	out.followed = followed
	if len(crossed) > 0 {
		out.failures = append(out.failures, Replay{Kind: "zoo", Key: c20CrossKey, Input: in("-"),
			Expect: "a reference names the marker of the object the pointer points at", Got: strings.Join(crossed, "; ")})
	}
	results := []string{}
	for _, format := range []string{"cbe", "cte"} {
		doc, st, msg := c20Marshal(format, obj.Interface(), cfg)
		if st != "ok" {
			out.failures = append(out.failures, Replay{Kind: "zoo", Key: "C20/zoo-marshal-" + st + "/" + format + suffix, Input: in(format), Expect: "a document", Got: msg})
			results = append(results, "SErr")
			continue
		}
		res, st, msg := c20ZooUnmarshal(format, doc, obj.Type(), cfg)
		if st != "ok" {
			key := "C20/zoo-unmarshal-" + st + "/" + format + suffix
			// shapes with their own failure class on the unchanged library
			if st == "error" || st == "panic" {
				for _, f := range []string{"pointer-to-slice", "pointer-to-map"} {
					if out.features[f] {
						key = "C20/" + f
						break
					}
				}
			}
			if len(crossed) > 0 {
				key = c20CrossKey
			}
			out.failures = append(out.failures, Replay{Kind: "zoo", Key: key, Input: in(format), Expect: "the document produced by Marshal is accepted", Got: msg})
			results = append(results, "SErr")
			continue
		}
		ok, st2 := c20RIso(obj, res)
		rx := c20Abstract2(res)
		results = append(results, cApp("SOk", rx.coqHeap(), rx.Root.coq(), cBool(ok)))
		if !ok {
			key := "C20/zoo-not-isomorphic/" + format + suffix
			// a reference that came back nil, in a by-value container, in a graph that has a possible
			// back-edge in that kind of container
			if st2.lost && st2.chain != "" && out.features["back-edge-in-"+st2.chain] {
				key = "C20/back-edge-in-" + st2.chain
			}
			if len(crossed) > 0 {
				key = c20CrossKey
			}
			out.failures = append(out.failures, Replay{Kind: "zoo", Key: key, Input: in(format), Expect: "a graph of the same shape", Got: st2.why})
		}
	}
	feats := []string{}
	for _, f := range c20FeatureOrder {
		if out.features[f] {
			feats = append(feats, f)
		}
	}
	out.term = cApp("ShapeCase", x.coqHeap(), x.Root.coq(), cList(results))
	out.human = fmt.Sprintf("zoo rules=%v features=%v %s", rules, feats, sp.json())
	return out
}

func c20RecordZoo(c *Ctx, cf *caseFile, stream string, sp c20ZSpec, rules bool) c20ZooOutcome {
	o := c20RunZoo(sp, rules)
	c.Dist("stream/" + stream)
	c.Dist("zoo-root/" + sp.Root)
	if o.x == nil {
		for _, f := range o.failures {
			c.Fail(f)
		}
		return o
	}
	cells, leaves, sharedLeaves, shared, cyclic := o.x.stats()
	c.Count(fmt.Sprintf("zoo|%v|%s|%s|%s", rules, sp.Root, o.x.coqHeap(), o.x.Root.coq()), cells > 1)
	c.Dist(fmt.Sprintf("zoo-cells/%02d", cells/4*4))
	c.Dist(fmt.Sprintf("zoo-leaf-cells/%v", leaves > 0))
	c.Dist(fmt.Sprintf("zoo-shared-leaf-cells/%v", sharedLeaves > 0))
	c.Dist(fmt.Sprintf("zoo-shared-cells/%v", shared > 0))
	c.Dist(fmt.Sprintf("zoo-cyclic/%v", cyclic))
	c.Dist(fmt.Sprintf("zoo-events-followed/%v", o.followed))
	none := true
	for _, f := range c20FeatureOrder {
		if o.features[f] {
			c.Dist("zoo-feature/" + f)
			none = false
		}
	}
	if none {
		c.Dist("zoo-feature/none")
	}
	for _, f := range o.failures {
		c.Fail(f)
	}
	if o.term != "" {
		cf.Add(o.term, o.human)
	}
	return o
}

func c20Zoo(c *Ctx) {
	cf := c.Cases("shape", "CE.Model.Graph", "shape_case", "shape_case_ok")
	cf.perFile = 100
	roots := []string{"ptr", "value", "array", "slice", "map"}

	// directed: pointers to scalars / strings first written as map values (every kind of leaf, 2..6
	// entries, every placement of the later occurrences), every kind of root
	sizes := []int{2, 3, 4, 6}
	if c.Thorough() {
		sizes = []int{1, 2, 3, 4, 5, 6, 9, 17}
	}
	for kind := 0; kind < 3; kind++ {
		for _, n := range sizes {
			for where := 0; where < 4; where++ {
				root := "ptr"
				if c.Thorough() || (kind+n+where)%4 == 0 {
					root = roots[(kind+n+where)/4%len(roots)]
				}
				c20RecordZoo(c, cf, "zoo-leaf-in-map", c20ZSpec{Shape: "leaf-in-map", Root: root, P: []int{kind, n, where}}, (kind+n+where)%3 != 0)
			}
		}
	}
	// directed: sharing through by-value containers, shared leaves
	for i, root := range roots {
		c20RecordZoo(c, cf, "zoo-directed", c20ZSpec{Shape: "forward-in-by-value", Root: root, P: []int{i * 2}}, true)
		c20RecordZoo(c, cf, "zoo-directed", c20ZSpec{Shape: "shared-leaves", Root: root, P: []int{i % 2}}, i%2 == 0)
	}
	// directed: the classes that fail on the unchanged library (one key each)
	for cont := 0; cont < 4; cont++ {
		for depth := 0; depth < 2; depth++ {
			for pos := 0; pos < c.Pick(1, 3); pos++ {
				c20RecordZoo(c, cf, "zoo-back-edge-in-by-value", c20ZSpec{Shape: "back-edge-in-by-value", Root: "ptr", P: []int{cont, depth, pos}}, true)
			}
		}
	}
	for kind := 0; kind < 2; kind++ {
		for shared := 0; shared < 2; shared++ {
			c20RecordZoo(c, cf, "zoo-pointer-to-container", c20ZSpec{Shape: "pointer-to-container", Root: "ptr", P: []int{kind, shared}}, true)
		}
	}
	// random: leaves and maps only (markers on values that are not containers), every kind of root
	for i := 0; i < c.Pick(120, 1500); i++ {
		sp := c20ZSpec{Shape: "random", Root: roots[i%len(roots)], Seed: c.Rng.Int63(), Size: 1 + c.Rng.Intn(5), Fields: c20FieldsLeaves}
		c20RecordZoo(c, cf, "zoo-random-leaves", sp, i%3 != 0)
	}
	// random: all supported fields, no back-edges placed in by-value containers
	for i := 0; i < c.Pick(160, 2000); i++ {
		sp := c20ZSpec{Shape: "random", Root: roots[i%len(roots)], Seed: c.Rng.Int63(), Size: 1 + c.Rng.Intn(7), Fields: c20FieldsClean}
		c20RecordZoo(c, cf, "zoo-random", sp, i%3 != 0)
	}
	// random: everything, back-edges in by-value containers and pointers to slices / maps included
	for i := 0; i < c.Pick(40, 400); i++ {
		sp := c20ZSpec{Shape: "random", Root: roots[i%len(roots)], Seed: c.Rng.Int63(), Size: 1 + c.Rng.Intn(7), Fields: c20FieldsAll, BackByVal: true}
		if i%2 == 0 {
			sp.Fields = c20FieldsClean
		}
		c20RecordZoo(c, cf, "zoo-random-all", sp, i%3 != 0)
	}
}

// ---------------------------------------------------------------------------
// Interior pointers at the address of another referenced object.
//
// Go lets a pointer point INTO an object: at a field of a struct, at an element of an array field,
// at an element of a slice.  The first field of a struct (and the first element of a first-field
// array, and element 0 of a slice) lives at the very address of the enclosing object, so the two
// pointers differ in type only — and duplicates.TypedPointer (type + address) is what keeps them
// apart.  The shapes below put a referenced (shared / cyclic / held once) enclosing object next to
// pointers to its first field / first array element / element 0, held once or several times, written
// before or after the enclosing object; controls point at a field that is NOT at the object's
// address.  The oracle treats the target of an interior pointer as an object of its own whose
// identity is (type, address) — the identity the library uses; that the copy which comes back no
// longer aliases the field of the enclosing object is not counted.

type c20IHead struct {
	Title string
	Rev   int
}

// first field is a struct: &d.Head is at the address of d
type c20IDoc struct {
	Head c20IHead
	Arr  [2]c20IHead
	Body int
	Prev *c20IDoc
}

// first field is an array: &d.Arr[0] (and &d.Arr) are at the address of d
type c20IDocA struct {
	Arr  [2]c20IHead
	Body int
	Prev *c20IDocA
}

type c20IIndex struct {
	Pre     []*c20IHead // interior pointers written before the objects they point into
	Docs    []*c20IDoc
	Latest  *c20IDoc
	Adocs   []*c20IDocA
	Alatest *c20IDocA
	Sv      []c20IHead  // a slice of structs ...
	Sw      []c20IHead  // ... possibly the same slice again
	Post    []*c20IHead // interior pointers written after
	Last    *c20IHead
}

const c20CrossKey = "C20/interior-pointer-emitted-as-reference-to-enclosing-object"

// p0: what the interior pointers point at: 0 = first field of a struct (Doc.Head), 1 = first element
//
//	of a first-field array (DocA.Arr[0]), 2 = element 0 of a slice of structs, 3 = control: a field
//	that is not at the object's address (Doc.Arr[1])
//
// p1: the enclosing object is 0 = held once, 1 = shared, 2 = on a cycle (and shared)
// p2: how often each interior pointer is held (1..3)
// p3: 0 = interior pointers after the objects, 1 = before, 2 = both
// p4: number of enclosing objects (1..3); p5: 1 = only the first object has interior pointers
func c20InteriorBuild(p func(int) int) reflect.Value {
	kind, sharing, held, order, n, firstOnly := p(0), p(1), p(2), p(3), p(4), p(5)
	if n < 1 {
		n = 1
	}
	idx := &c20IIndex{}
	interior := []*c20IHead{}
	head := func(i int) c20IHead { return c20IHead{Title: fmt.Sprintf("t%d", i), Rev: i + 1} }
	switch kind {
	case 0, 3:
		for i := 0; i < n; i++ {
			d := &c20IDoc{Head: head(i), Arr: [2]c20IHead{head(10 + i), head(20 + i)}, Body: 100 + i}
			idx.Docs = append(idx.Docs, d)
			if kind == 0 {
				interior = append(interior, &d.Head)
			} else {
				interior = append(interior, &d.Arr[1])
			}
		}
		if sharing >= 1 {
			idx.Latest = idx.Docs[n-1]
			if n > 1 {
				idx.Docs = append(idx.Docs, idx.Docs[0])
			}
		}
		if sharing == 2 {
			for i := 0; i < n; i++ {
				idx.Docs[i].Prev = idx.Docs[(i+1)%n]
			}
		}
	case 1:
		for i := 0; i < n; i++ {
			d := &c20IDocA{Arr: [2]c20IHead{head(i), head(20 + i)}, Body: 100 + i}
			idx.Adocs = append(idx.Adocs, d)
			interior = append(interior, &d.Arr[0])
		}
		if sharing >= 1 {
			idx.Alatest = idx.Adocs[n-1]
			if n > 1 {
				idx.Adocs = append(idx.Adocs, idx.Adocs[0])
			}
		}
		if sharing == 2 {
			for i := 0; i < n; i++ {
				idx.Adocs[i].Prev = idx.Adocs[(i+1)%n]
			}
		}
	default:
		idx.Sv = make([]c20IHead, n+1)
		for i := range idx.Sv {
			idx.Sv[i] = head(i)
		}
		interior = append(interior, &idx.Sv[0])
		if n > 1 {
			interior = append(interior, &idx.Sv[n])
		}
		if sharing >= 1 {
			idx.Sw = idx.Sv
		}
	}
	if firstOnly == 1 {
		interior = interior[:1]
	}
	for h := 0; h < held; h++ {
		for _, ip := range interior {
			if order == 1 || order == 2 {
				idx.Pre = append(idx.Pre, ip)
			}
			if order == 0 || order == 2 {
				idx.Post = append(idx.Post, ip)
			}
		}
	}
	if order != 1 {
		idx.Last = interior[0]
	}
	return reflect.ValueOf(idx)
}

func c20Interior(c *Ctx) {
	cf := c.Cases("shape", "CE.Model.Graph", "shape_case", "shape_case_ok")
	i := 0
	for kind := 0; kind < 4; kind++ {
		for sharing := 0; sharing < 3; sharing++ {
			for held := 1; held <= 3; held++ {
				for order := 0; order < 3; order++ {
					ns := []int{1 + (kind+sharing+held+order)%3}
					if c.Thorough() {
						ns = []int{1, 2, 3}
					}
					for _, n := range ns {
						sp := c20ZSpec{Shape: "interior", Root: "ptr", P: []int{kind, sharing, held, order, n, (i / 3) % 2}}
						o := c20RecordZoo(c, cf, "interior-pointers", sp, i%3 != 0)
						c.Dist(fmt.Sprintf("interior/%s", []string{"first-field", "first-array-element", "slice-element-0", "control-other-field"}[kind]))
						c.Dist(fmt.Sprintf("interior-enclosing/%s", []string{"held-once", "shared", "cyclic"}[sharing]))
						c.Dist(fmt.Sprintf("interior-violations/%s/%v", []string{"first-field", "first-array-element", "slice-element-0", "control-other-field"}[kind], len(o.failures) > 0))
						i++
					}
				}
			}
		}
	}
}

// Walks the iterator's events along the value they were produced from.  Returns a description of
// every reference that names a marker which was put on a DIFFERENT object (another type, or another
// address) than the one the slot holds.  nil when the events cannot be followed (then nothing is
// claimed).
func c20CrossTypeRefs(root reflect.Value, es []Ev) (crossed []string, followed bool) {
	defer func() {
		if r := recover(); r != nil {
			crossed, followed = nil, false
		}
	}()
	pos := 0
	next := func() Ev {
		if pos >= len(es) {
			panic("eof")
		}
		e := es[pos]
		pos++
		return e
	}
	for pos < len(es) && (es[pos].K == "bd" || es[pos].K == "v") {
		pos++
	}
	// marker id -> the object(s) it can be on (a marker in front of a pointer to a slice / map / pointer
	// may belong to the pointer or to what it points at: both are accepted)
	marks := map[string][]c20RIdent{}
	norm := func(s string) string { return strings.ToLower(strings.ReplaceAll(s, "_", "")) }
	var walk func(v reflect.Value, path string)
	// the objects a marker or reference in front of v can be about: v itself, and — when v is a pointer
	// to a pointer / slice / map — what it points at (the pointer iterator hands over to theirs)
	cands := func(v reflect.Value) []c20RIdent {
		ids := []c20RIdent{{v.Type(), v.Pointer()}}
		for v.Kind() == reflect.Ptr && !v.IsNil() {
			v = v.Elem()
			switch v.Kind() {
			case reflect.Ptr:
				if !v.IsNil() {
					ids = append(ids, c20RIdent{v.Type(), v.Pointer()})
				}
			case reflect.Slice, reflect.Map:
				if v.Len() > 0 {
					ids = append(ids, c20RIdent{v.Type(), v.Pointer()})
				}
			}
		}
		return ids
	}
	// a slot that can carry a marker / be a reference: returns true when the value was not written out
	refOrMark := func(v reflect.Value, path string) bool {
		id := c20RIdent{v.Type(), v.Pointer()}
		switch es[pos].K {
		case "ref":
			e := next()
			if ms, ok := marks[string(e.Data)]; ok {
				match := false
				for _, m := range ms {
					for _, cand := range cands(v) {
						if m == cand {
							match = true
						}
					}
				}
				if !match {
					crossed = append(crossed, fmt.Sprintf("%s (a %v) is written as a reference to marker %s, which is on a %v (same address: %v)",
						path, id.t, e.Data, ms[0].t, ms[0].p == id.p))
				}
			}
			return true
		case "mk":
			e := next()
			marks[string(e.Data)] = cands(v)
		}
		return false
	}
	walk = func(v reflect.Value, path string) {
		if pos >= len(es) {
			panic("eof")
		}
		switch v.Kind() {
		case reflect.Ptr:
			if v.IsNil() {
				if next().K != "null" {
					panic("x")
				}
				return
			}
			if refOrMark(v, path) {
				return
			}
			walk(v.Elem(), path+"*")
		case reflect.Slice, reflect.Array:
			if v.Kind() == reflect.Slice {
				if v.IsNil() {
					if next().K != "null" {
						panic("x")
					}
					return
				}
				if v.Len() > 0 && refOrMark(v, path) {
					return
				}
			}
			if next().K != "l" {
				panic("x")
			}
			for i := 0; i < v.Len(); i++ {
				walk(v.Index(i), fmt.Sprintf("%s[%d]", path, i))
			}
			if next().K != "e" {
				panic("x")
			}
		case reflect.Map:
			if v.IsNil() {
				if next().K != "null" {
					panic("x")
				}
				return
			}
			if v.Len() > 0 && refOrMark(v, path) {
				return
			}
			if next().K != "m" {
				panic("x")
			}
			for es[pos].K != "e" {
				ke := next()
				var key reflect.Value
				switch v.Type().Key().Kind() {
				case reflect.String:
					key = reflect.ValueOf(string(ke.Data))
				default:
					n := ke.I
					switch ke.K {
					case "pi":
						n = int64(ke.N)
					case "ni":
						n = -int64(ke.N)
					}
					key = reflect.ValueOf(n).Convert(v.Type().Key())
				}
				ev := v.MapIndex(key)
				if !ev.IsValid() {
					panic("x")
				}
				walk(ev, fmt.Sprintf("%s[%v]", path, key))
			}
			pos++
		case reflect.Struct:
			if next().K != "m" {
				panic("x")
			}
			for es[pos].K != "e" {
				name := norm(string(next().Data))
				fi := -1
				for i := 0; i < v.NumField(); i++ {
					if norm(v.Type().Field(i).Name) == name {
						fi = i
					}
				}
				if fi < 0 {
					panic("x")
				}
				walk(v.Field(fi), path+"."+v.Type().Field(fi).Name)
			}
			pos++
		default:
			next() // a scalar or a string: one event
		}
	}
	walk(root, "root")
	if pos >= len(es) || es[pos].K != "ed" {
		return nil, false
	}
	return crossed, true
}

func c20ReplayZoo(r *Replay) (bool, string) {
	var sp c20ZSpec
	if err := json.Unmarshal([]byte(r.Input["spec"]), &sp); err != nil {
		return false, "bad replay input: " + err.Error()
	}
	// the order in which the library walks a Go map differs from run to run, and with it which
	// occurrence of a shared object is written out: several rounds
	for round := 0; round < 12; round++ {
		o := c20RunZoo(sp, r.Input["rules"] == "true")
		for _, f := range o.failures {
			if f.Input["format"] == r.Input["format"] || r.Input["format"] == "-" || f.Input["format"] == "-" {
				return false, fmt.Sprintf("%s: %s (required: %s)", f.Key, f.Got, f.Expect)
			}
		}
	}
	return true, "marshaling terminated and the unmarshaled graph is isomorphic to the original"
}
