package main

// C20 — shared and cyclic pointers survive a round trip with recursion support.
//
// Implementation side: random pointer graphs over the Go type c20N (struct nodes with three pointer
// fields and an int payload, a slice-of-pointers field, a map-with-pointer-values field) are
// marshaled with Iterator.RecursionSupport = true to CBE and CTE and unmarshaled into a *c20N.
// Search oracle: marshaling terminates (watchdog) and the unmarshaled graph is isomorphic to the
// original (simultaneous walk from both roots building a bijection between object identities).
// Correspondence: for every graph the harness records what go-duplicates answered, the events the
// iterator delivered and the graphs Unmarshal returned; Model/Graph.v (graph_case_ok) recomputes all
// of them and checks the statement of the round-trip theorem on the library's own answers. A second
// family plays event streams with forward references, missing and repeated markers straight into
// validator + builder.

import (
	"encoding/json"
	"fmt"
	"math"
	"math/rand"
	"reflect"
	"sort"
	"strings"
	"time"

	"github.com/kstenerud/go-concise-encoding/builder"
	"github.com/kstenerud/go-concise-encoding/ce"
	"github.com/kstenerud/go-concise-encoding/ce/events"
	"github.com/kstenerud/go-concise-encoding/configuration"
	"github.com/kstenerud/go-concise-encoding/iterator"
	"github.com/kstenerud/go-concise-encoding/rules"
	duplicates "github.com/kstenerud/go-duplicates"
)

func init() { register("C20", runC20, replayC20) }

// the Go type of the graphs
type c20N struct {
	V int
	A *c20N
	B *c20N
	C *c20N
	S []*c20N
	M map[int]*c20N
}

const (
	c20Struct = 0
	c20Slice  = 1
	c20Map    = 2
)

// abstract graph: node i has address i+1 in the Coq heap
type c20Node struct {
	Kind int     `json:"k"`
	V    int64   `json:"v,omitempty"`
	F    [5]int  `json:"f"`              // struct: A B C (struct nodes), S (slice node), M (map node); -1 = nil
	El   []int   `json:"el,omitempty"`   // slice elements: struct node or -1
	Keys []int64 `json:"keys,omitempty"` // map keys
	Vals []int   `json:"vals,omitempty"` // map values: struct node or -1
}
type c20Graph struct {
	Nodes []c20Node `json:"nodes"`
	Root  int       `json:"root"`
}

func c20NewNode(kind int) c20Node {
	return c20Node{Kind: kind, F: [5]int{-1, -1, -1, -1, -1}}
}

func (g *c20Graph) succ(i int) []int {
	n := g.Nodes[i]
	switch n.Kind {
	case c20Struct:
		return n.F[:]
	case c20Slice:
		return n.El
	}
	return n.Vals
}

// keep only what the root reaches, renumbered in order of first visit
func (g *c20Graph) prune() *c20Graph {
	ren := map[int]int{}
	order := []int{}
	var walk func(i int)
	walk = func(i int) {
		if i < 0 {
			return
		}
		if _, ok := ren[i]; ok {
			return
		}
		ren[i] = len(order)
		order = append(order, i)
		for _, j := range g.succ(i) {
			walk(j)
		}
	}
	walk(g.Root)
	r := func(i int) int {
		if i < 0 {
			return -1
		}
		return ren[i]
	}
	out := &c20Graph{Root: r(g.Root)}
	for _, i := range order {
		n := g.Nodes[i]
		m := c20Node{Kind: n.Kind, V: n.V, Keys: append([]int64{}, n.Keys...)}
		for k := 0; k < 5; k++ {
			m.F[k] = r(n.F[k])
		}
		for _, e := range n.El {
			m.El = append(m.El, r(e))
		}
		for _, e := range n.Vals {
			m.Vals = append(m.Vals, r(e))
		}
		out.Nodes = append(out.Nodes, m)
	}
	return out
}

// ---------------------------------------------------------------------------
// materialisation

type c20Mat struct {
	structs map[int]*c20N
	slices  map[int][]*c20N
	maps    map[int]map[int]*c20N
	root    *c20N
}

func (g *c20Graph) materialize() *c20Mat {
	m := &c20Mat{structs: map[int]*c20N{}, slices: map[int][]*c20N{}, maps: map[int]map[int]*c20N{}}
	for i, n := range g.Nodes {
		switch n.Kind {
		case c20Struct:
			m.structs[i] = &c20N{V: int(n.V)}
		case c20Slice:
			m.slices[i] = make([]*c20N, len(n.El))
		case c20Map:
			m.maps[i] = make(map[int]*c20N)
		}
	}
	sp := func(i int) *c20N {
		if i < 0 {
			return nil
		}
		return m.structs[i]
	}
	for i, n := range g.Nodes {
		switch n.Kind {
		case c20Struct:
			s := m.structs[i]
			s.A, s.B, s.C = sp(n.F[0]), sp(n.F[1]), sp(n.F[2])
			if n.F[3] >= 0 {
				s.S = m.slices[n.F[3]]
			}
			if n.F[4] >= 0 {
				s.M = m.maps[n.F[4]]
			}
		case c20Slice:
			for k, e := range n.El {
				m.slices[i][k] = sp(e)
			}
		case c20Map:
			for k, key := range n.Keys {
				m.maps[i][int(key)] = sp(n.Vals[k])
			}
		}
	}
	if g.Root >= 0 {
		m.root = m.structs[g.Root]
	}
	return m
}

// the identity the library uses for node i
func (m *c20Mat) typedPointer(g *c20Graph, i int) (duplicates.TypedPointer, bool) {
	switch g.Nodes[i].Kind {
	case c20Struct:
		return duplicates.TypedPointerOf(m.structs[i]), true
	case c20Slice:
		if len(m.slices[i]) == 0 {
			return duplicates.TypedPointer{}, false
		}
		return duplicates.TypedPointerOfRV(reflect.ValueOf(m.slices[i])), true
	}
	return duplicates.TypedPointerOfRV(reflect.ValueOf(m.maps[i])), true
}

func (m *c20Mat) dups(g *c20Graph) []int {
	found := duplicates.FindDuplicatePointers(m.root)
	out := []int{}
	for i := range g.Nodes {
		if tp, ok := m.typedPointer(g, i); ok && found[tp] {
			out = append(out, i)
		}
	}
	return out
}

// ---------------------------------------------------------------------------
// the harness's own walk (used only to protect the process against unbounded recursion in the
// library and to generate streams with forward references)

// would the iterator come back, given the set of marked nodes?
func (g *c20Graph) walkTerminates(dups []int) bool {
	isDup := map[int]bool{}
	for _, d := range dups {
		isDup[d] = true
	}
	named := map[int]bool{}
	steps := 0
	var walk func(i int) bool
	walk = func(i int) bool {
		if i < 0 {
			return true
		}
		steps++
		if steps > 200000 {
			return false
		}
		if isDup[i] {
			if named[i] {
				return true
			}
			named[i] = true
		}
		for _, j := range g.succ(i) {
			if !walk(j) {
				return false
			}
		}
		return true
	}
	return walk(g.Root)
}

var c20FieldNames = []string{"a", "b", "c", "s", "m"}

// events for the graph with the marker of each shared node placed at its markAt-th visit
// (0 = first visit = what the iterator does; later = forward references)
func (g *c20Graph) eventsWithMarkersAt(dups []int, markAt func(node, visits int) int) []Ev {
	isDup := map[int]bool{}
	for _, d := range dups {
		isDup[d] = true
	}
	visits := map[int]int{}
	total := map[int]int{}
	for i := range g.Nodes {
		for _, j := range g.succ(i) {
			if j >= 0 {
				total[j]++
			}
		}
	}
	total[g.Root]++
	ids := map[int]int{}
	idOf := func(i int) []byte {
		if _, ok := ids[i]; !ok {
			ids[i] = len(ids)
		}
		return []byte(fmt.Sprint(ids[i]))
	}
	written := map[int]bool{}
	es := []Ev{{K: "bd"}, {K: "v", N: 0}}
	var walk func(i int)
	walk = func(i int) {
		if i < 0 {
			es = append(es, Ev{K: "null"})
			return
		}
		if isDup[i] {
			k := visits[i]
			visits[i]++
			at := markAt(i, total[i])
			if written[i] || k != at {
				es = append(es, Ev{K: "ref", Data: idOf(i)})
				return
			}
			written[i] = true
			es = append(es, Ev{K: "mk", Data: idOf(i)})
		}
		n := g.Nodes[i]
		switch n.Kind {
		case c20Struct:
			es = append(es, Ev{K: "m"}, Ev{K: "sa", A: events.ArrayTypeString, Data: []byte("v")}, Ev{K: "i", I: n.V})
			for k := 0; k < 5; k++ {
				if n.F[k] >= 0 && !(g.Nodes[n.F[k]].Kind != c20Struct && len(g.succ(n.F[k])) == 0) {
					es = append(es, Ev{K: "sa", A: events.ArrayTypeString, Data: []byte(c20FieldNames[k])})
					walk(n.F[k])
				}
			}
		case c20Slice:
			es = append(es, Ev{K: "l"})
			for _, e := range n.El {
				walk(e)
			}
		case c20Map:
			es = append(es, Ev{K: "m"})
			for k, key := range n.Keys {
				es = append(es, Ev{K: "i", I: key})
				walk(n.Vals[k])
			}
		}
		es = append(es, Ev{K: "e"})
	}
	walk(g.Root)
	return append(es, Ev{K: "ed"})
}

// ---------------------------------------------------------------------------
// reading the iterator's events: marker nesting, and the order in which map entries were delivered

func c20Nested(es []Ev) bool {
	stack := []bool{}
	pending := false
	open := 0
	for _, e := range es {
		switch e.K {
		case "mk":
			if open > 0 {
				return true
			}
			pending = true
		case "l", "m":
			stack = append(stack, pending)
			if pending {
				open++
			}
			pending = false
		case "e":
			if len(stack) > 0 {
				if stack[len(stack)-1] {
					open--
				}
				stack = stack[:len(stack)-1]
			}
		default:
			pending = false
		}
	}
	return false
}

func c20HasMarker(es []Ev) bool {
	for _, e := range es {
		if e.K == "mk" {
			return true
		}
	}
	return false
}

// returns, for every map node, its keys in the order the iterator delivered them
func (g *c20Graph) mapOrder(es []Ev) (order map[int][]int, ok bool) {
	order = map[int][]int{}
	pos := 2
	defer func() {
		if r := recover(); r != nil {
			ok = false
		}
	}()
	var walk func(i int)
	walk = func(i int) {
		e := es[pos]
		if i < 0 {
			if e.K != "null" {
				panic("x")
			}
			pos++
			return
		}
		if e.K == "ref" {
			pos++
			return
		}
		if e.K == "mk" {
			pos++
			e = es[pos]
		}
		n := g.Nodes[i]
		switch n.Kind {
		case c20Struct:
			if e.K != "m" {
				panic("x")
			}
			pos++
			for es[pos].K != "e" {
				name := string(es[pos].Data)
				pos++
				if name == "v" {
					pos++
					continue
				}
				fi := -1
				for k, fn := range c20FieldNames {
					if fn == name {
						fi = k
					}
				}
				if fi < 0 {
					panic("x")
				}
				if es[pos].K == "null" {
					pos++
					continue
				}
				// an empty slice/map that is written out
				if n.F[fi] >= 0 {
					walk(n.F[fi])
				} else {
					panic("x")
				}
			}
			pos++
		case c20Slice:
			if e.K != "l" {
				panic("x")
			}
			pos++
			for _, el := range n.El {
				walk(el)
			}
			if es[pos].K != "e" {
				panic("x")
			}
			pos++
		case c20Map:
			if e.K != "m" {
				panic("x")
			}
			pos++
			seen := []int{}
			for es[pos].K != "e" {
				if es[pos].K != "i" {
					panic("x")
				}
				key := es[pos].I
				pos++
				ki := -1
				for k, kk := range n.Keys {
					if kk == key {
						ki = k
					}
				}
				if ki < 0 {
					panic("x")
				}
				seen = append(seen, ki)
				walk(n.Vals[ki])
			}
			pos++
			if len(seen) != len(n.Keys) {
				panic("x")
			}
			order[i] = seen
		}
	}
	walk(g.Root)
	return order, true
}

// ---------------------------------------------------------------------------
// Coq terms

func c20Ref(i int) string {
	if i < 0 {
		return "None"
	}
	return fmt.Sprintf("(Some %d)", i+1)
}

func (g *c20Graph) coqHeap(order map[int][]int) string {
	items := []string{}
	for i, n := range g.Nodes {
		kids := []string{}
		kind := ""
		switch n.Kind {
		case c20Struct:
			kind = "(KStruct " + cZ(n.V) + ")"
			for k := 0; k < 5; k++ {
				kids = append(kids, fmt.Sprintf("(LF %d, %s)", k, c20Ref(n.F[k])))
			}
		case c20Slice:
			kind = "KSlice"
			for k, e := range n.El {
				kids = append(kids, fmt.Sprintf("(LI %d, %s)", k, c20Ref(e)))
			}
		case c20Map:
			kind = "KMap"
			idx := []int{}
			if o, ok := order[i]; ok && len(o) == len(n.Keys) {
				idx = o
			} else {
				for k := range n.Keys {
					idx = append(idx, k)
				}
			}
			for _, k := range idx {
				kids = append(kids, fmt.Sprintf("(LK %s, %s)", cZ(n.Keys[k]), c20Ref(n.Vals[k])))
			}
		}
		items = append(items, fmt.Sprintf("(%d, mkNode %s %s)", i+1, kind, cList(kids)))
	}
	return cList(items)
}

func c20Addrs(is []int) string {
	s := []string{}
	for _, i := range is {
		s = append(s, fmt.Sprint(i+1))
	}
	return cList(s)
}

// ---------------------------------------------------------------------------
// the object graph Unmarshal returned, as an abstract graph (numbered in order of first visit)

type c20Ident struct {
	kind int
	ptr  uintptr
}

func c20Abstract(root *c20N) *c20Graph {
	g := &c20Graph{Root: -1}
	ids := map[c20Ident]int{}
	var walkStruct func(p *c20N) int
	walkStruct = func(p *c20N) int {
		if p == nil {
			return -1
		}
		id := c20Ident{c20Struct, reflect.ValueOf(p).Pointer()}
		if i, ok := ids[id]; ok {
			return i
		}
		i := len(g.Nodes)
		ids[id] = i
		g.Nodes = append(g.Nodes, c20NewNode(c20Struct))
		g.Nodes[i].V = int64(p.V)
		f := [5]int{-1, -1, -1, -1, -1}
		f[0], f[1], f[2] = walkStruct(p.A), walkStruct(p.B), walkStruct(p.C)
		if p.S != nil {
			sid := c20Ident{c20Slice, reflect.ValueOf(p.S).Pointer()}
			si, ok := ids[sid]
			if !ok || len(p.S) == 0 {
				si = len(g.Nodes)
				if len(p.S) > 0 {
					ids[sid] = si
				}
				g.Nodes = append(g.Nodes, c20NewNode(c20Slice))
				el := []int{}
				for _, e := range p.S {
					el = append(el, walkStruct(e))
				}
				g.Nodes[si].El = el
			}
			f[3] = si
		}
		if p.M != nil {
			mid := c20Ident{c20Map, reflect.ValueOf(p.M).Pointer()}
			mi, ok := ids[mid]
			if !ok {
				mi = len(g.Nodes)
				ids[mid] = mi
				g.Nodes = append(g.Nodes, c20NewNode(c20Map))
				keys := []int{}
				for k := range p.M {
					keys = append(keys, k)
				}
				sort.Ints(keys)
				ks, vs := []int64{}, []int{}
				for _, k := range keys {
					ks = append(ks, int64(k))
					vs = append(vs, walkStruct(p.M[k]))
				}
				g.Nodes[mi].Keys, g.Nodes[mi].Vals = ks, vs
			}
			f[4] = mi
		}
		g.Nodes[i].F = f
		return i
	}
	g.Root = walkStruct(root)
	return g
}

// ---------------------------------------------------------------------------
// the search oracle: isomorphism of two object graphs, on the Go objects themselves

type c20IsoState struct {
	fwd, bwd map[c20Ident]c20Ident
	why      string
}

func (st *c20IsoState) pair(a, b c20Ident) (seen bool, ok bool) {
	if x, have := st.fwd[a]; have {
		if x != b {
			st.why = "an object shared in the original is not shared in the same place in the result"
			return true, false
		}
		return true, true
	}
	if _, have := st.bwd[b]; have {
		st.why = "two different objects of the original are one object in the result"
		return true, false
	}
	st.fwd[a] = b
	st.bwd[b] = a
	return false, true
}

func (st *c20IsoState) structs(a, b *c20N) bool {
	if a == nil || b == nil {
		if a != b {
			st.why = "nil pointer on one side only"
		}
		return a == b
	}
	seen, ok := st.pair(c20Ident{c20Struct, reflect.ValueOf(a).Pointer()}, c20Ident{c20Struct, reflect.ValueOf(b).Pointer()})
	if !ok {
		return false
	}
	if seen {
		return true
	}
	if a.V != b.V {
		st.why = fmt.Sprintf("payload %d became %d", a.V, b.V)
		return false
	}
	if !st.structs(a.A, b.A) || !st.structs(a.B, b.B) || !st.structs(a.C, b.C) {
		return false
	}
	// slices
	// a nil slice / map and an empty one are not distinguished (empty fields are omitted by default)
	if len(a.S) != len(b.S) {
		st.why = fmt.Sprintf("slice of length %d became length %d", len(a.S), len(b.S))
		return false
	}
	if a.S != nil && b.S != nil {
		if len(a.S) != len(b.S) {
			st.why = fmt.Sprintf("slice of length %d became length %d", len(a.S), len(b.S))
			return false
		}
		if len(a.S) > 0 {
			seen, ok := st.pair(c20Ident{c20Slice, reflect.ValueOf(a.S).Pointer()}, c20Ident{c20Slice, reflect.ValueOf(b.S).Pointer()})
			if !ok {
				return false
			}
			if !seen {
				for i := range a.S {
					if !st.structs(a.S[i], b.S[i]) {
						return false
					}
				}
			}
		}
	}
	if len(a.M) != len(b.M) {
		st.why = fmt.Sprintf("map of length %d became length %d", len(a.M), len(b.M))
		return false
	}
	if a.M != nil && b.M != nil {
		if len(a.M) != len(b.M) {
			st.why = fmt.Sprintf("map of length %d became length %d", len(a.M), len(b.M))
			return false
		}
		seen, ok := st.pair(c20Ident{c20Map, reflect.ValueOf(a.M).Pointer()}, c20Ident{c20Map, reflect.ValueOf(b.M).Pointer()})
		if !ok {
			return false
		}
		if !seen {
			keys := []int{}
			for k := range a.M {
				keys = append(keys, k)
			}
			sort.Ints(keys)
			for _, k := range keys {
				bv, have := b.M[k]
				if !have {
					st.why = fmt.Sprintf("map key %d is missing in the result", k)
					return false
				}
				if !st.structs(a.M[k], bv) {
					return false
				}
			}
		}
	}
	return true
}

func c20Iso(a, b *c20N) (bool, string) {
	st := &c20IsoState{fwd: map[c20Ident]c20Ident{}, bwd: map[c20Ident]c20Ident{}}
	ok := st.structs(a, b)
	return ok, st.why
}

// ---------------------------------------------------------------------------
// running the library

type c20Cfg struct {
	OmitNever bool
	Rules     bool
}

func (k c20Cfg) config() *configuration.Configuration {
	cfg := configuration.New()
	cfg.Iterator.RecursionSupport = true
	if k.OmitNever {
		cfg.Iterator.DefaultFieldOmitBehavior = configuration.OmitFieldNever
	}
	cfg.Marshal.EnforceRules = k.Rules
	return cfg
}

// runs f under a watchdog; status: "ok", "panic", "hang"
func c20Watch(f func()) (status string, msg string) {
	done := make(chan string, 1)
	go func() {
		defer func() {
			if r := recover(); r != nil {
				done <- "panic: " + fmt.Sprint(r)
			}
		}()
		f()
		done <- ""
	}()
	select {
	case m := <-done:
		if m != "" {
			return "panic", m
		}
		return "ok", ""
	case <-time.After(20 * time.Second):
		return "hang", "no answer within 20 s"
	}
}

func c20Marshal(format string, root *c20N, cfg *configuration.Configuration) (doc []byte, status string, msg string) {
	var err error
	status, msg = c20Watch(func() {
		if format == "cbe" {
			doc, err = ce.MarshalToCBEDocument(root, cfg)
		} else {
			doc, err = ce.MarshalToCTEDocument(root, cfg)
		}
	})
	if status == "ok" && err != nil {
		return doc, "error", err.Error()
	}
	return
}

func c20Unmarshal(format string, doc []byte, cfg *configuration.Configuration) (res *c20N, status string, msg string) {
	var err error
	var v interface{}
	status, msg = c20Watch(func() {
		if format == "cbe" {
			v, err = ce.UnmarshalFromCBEDocument(doc, (*c20N)(nil), cfg)
		} else {
			v, err = ce.UnmarshalFromCTEDocument(doc, (*c20N)(nil), cfg)
		}
	})
	if status != "ok" {
		return nil, status, msg
	}
	if err != nil {
		return nil, "error", err.Error()
	}
	if v == nil {
		return nil, "ok", ""
	}
	p, ok := v.(*c20N)
	if !ok {
		return nil, "error", fmt.Sprintf("Unmarshal returned a %T", v)
	}
	return p, "ok", ""
}

func c20IterEvents(root *c20N, cfg *configuration.Configuration) (es []Ev, status string) {
	rec := &Recorder{}
	status, _ = c20Watch(func() { iterator.NewSession(nil, cfg).NewIterator(rec).Iterate(root) })
	return rec.Evs, status
}

// plays events into (validator +) builder for a *c20N
func c20PlayStream(es []Ev, withRules bool) (res *c20N, ok bool) {
	cfg := c20Cfg{Rules: withRules}.config()
	b := builder.NewSession(nil, cfg).NewBuilderFor((*c20N)(nil))
	var rcv events.DataEventReceiver = b
	if withRules {
		rcv = rules.NewRules(b, cfg)
	}
	status, _ := c20Watch(func() {
		for _, e := range es {
			play(rcv, e)
		}
	})
	if status != "ok" {
		return nil, false
	}
	var v interface{}
	status, _ = c20Watch(func() { v = b.GetBuiltObject() })
	if status != "ok" {
		return nil, false
	}
	if v == nil {
		return nil, true
	}
	p, isN := v.(*c20N)
	if !isN {
		return nil, false
	}
	return p, true
}

func c20ImplResult(p *c20N, ok bool) string {
	if !ok {
		return "IErr"
	}
	g := c20Abstract(p)
	return cApp("IOk", g.coqHeap(nil), c20Ref(g.Root))
}

// ---------------------------------------------------------------------------
// one graph through the library: oracle + correspondence case

func (g *c20Graph) features() (emptyContainer, nilMapUnderNever bool) {
	for _, n := range g.Nodes {
		if n.Kind != c20Struct && len(n.El)+len(n.Keys) == 0 {
			emptyContainer = true
		}
		if n.Kind == c20Struct && n.F[4] < 0 {
			nilMapUnderNever = true
		}
	}
	return
}

type c20Outcome struct {
	failures []Replay
	term     string // Coq case, "" when there is none
	human    string
	nested   bool
	markers  bool
	dups     int
	accepted bool
}

func c20GraphJSON(g *c20Graph) string {
	b, _ := json.Marshal(g)
	return string(b)
}

func c20RunGraph(g *c20Graph, k c20Cfg) c20Outcome {
	out := c20Outcome{}
	in := func(format string) map[string]string {
		return map[string]string{"graph": c20GraphJSON(g), "omit_never": fmt.Sprint(k.OmitNever), "rules": fmt.Sprint(k.Rules), "format": format}
	}
	cfg := k.config()
	m := g.materialize()
	dups := m.dups(g)
	out.dups = len(dups)
	if !g.walkTerminates(dups) {
		// do not call the library: its recursion would not come back and would take the process down
		out.failures = append(out.failures, Replay{Kind: "graph", Key: "C20/marshal-nonterminating", Input: in("-"),
			Expect: "every cycle passes through a pointer that FindDuplicatePointers reports", Got: fmt.Sprintf("reported: %v", dups)})
		return out
	}
	es, st := c20IterEvents(m.root, cfg)
	if st != "ok" {
		out.failures = append(out.failures, Replay{Kind: "graph", Key: "C20/iterate-" + st, Input: in("-"), Expect: "events", Got: st})
		return out
	}
	out.nested = c20Nested(es)
	out.markers = c20HasMarker(es)
	order, _ := g.mapOrder(es)
	emptyContainer, nilMap := g.features()
	results := []string{}
	out.accepted = true
	for _, format := range []string{"cbe", "cte"} {
		doc, st, msg := c20Marshal(format, m.root, cfg)
		if st != "ok" {
			out.failures = append(out.failures, Replay{Kind: "graph", Key: "C20/marshal-" + st + "/" + format, Input: in(format), Expect: "a document", Got: msg})
			out.accepted = false
			continue
		}
		res, st, msg := c20Unmarshal(format, doc, cfg)
		if st != "ok" {
			out.accepted = false
			key := "C20/unmarshal-" + st + "/" + format
			switch {
			case st == "error" && k.Rules && out.nested && strings.Contains(msg, "already exists"):
				// classification only (the failure itself is that a marshaled document is refused)
				key = "C20/nested-marker-rejected"
			case st == "error" && k.OmitNever && nilMap:
				key = "C20/nil-map-written-as-null-rejected"
			}
			out.failures = append(out.failures, Replay{Kind: "graph", Key: key, Input: in(format), Expect: "the document produced by Marshal is accepted", Got: msg})
			results = append(results, "IErr")
			continue
		}
		results = append(results, c20ImplResult(res, true))
		if ok, why := c20Iso(m.root, res); !ok {
			key := "C20/not-isomorphic/" + format
			if emptyContainer && strings.Contains(why, "not shared") {
				key = "C20/empty-map-sharing-lost"
			}
			out.failures = append(out.failures, Replay{Kind: "graph", Key: key, Input: in(format), Expect: "a graph of the same shape", Got: why})
		}
	}
	if len(results) == 2 {
		out.term = cApp("GraphCase", cBool(k.OmitNever), cBool(k.Rules), g.coqHeap(order), c20Ref(g.Root), c20Addrs(dups), cEvs(es), cList(results))
		out.human = fmt.Sprintf("graph omit_never=%v rules=%v nested=%v dups=%v %s", k.OmitNever, k.Rules, out.nested, dups, c20GraphJSON(g))
	}
	return out
}

// ---------------------------------------------------------------------------
// generators

var c20Payloads = []int64{0, 1, -1, 2, 7, 100, -100, 255, 256, 65535, math.MaxInt32, math.MinInt32, math.MaxInt64, math.MinInt64}

func c20Payload(r *rand.Rand) int64 {
	if r.Intn(3) == 0 {
		return c20Payloads[r.Intn(len(c20Payloads))]
	}
	return int64(r.Intn(41) - 20)
}

type c20Slot struct {
	node, field int // field 0..4 for structs; -1 = append an element / a new key
}

func (g *c20Graph) freeSlots(wantKind int, maxLen int) []c20Slot {
	out := []c20Slot{}
	for i, n := range g.Nodes {
		switch n.Kind {
		case c20Struct:
			for k := 0; k < 5; k++ {
				if n.F[k] >= 0 {
					continue
				}
				kk := c20Struct
				if k == 3 {
					kk = c20Slice
				} else if k == 4 {
					kk = c20Map
				}
				if kk == wantKind {
					out = append(out, c20Slot{i, k})
				}
			}
		case c20Slice:
			if wantKind == c20Struct && len(n.El) < maxLen {
				out = append(out, c20Slot{i, -1})
			}
		case c20Map:
			if wantKind == c20Struct && len(n.Keys) < maxLen {
				out = append(out, c20Slot{i, -1})
			}
		}
	}
	return out
}

func (g *c20Graph) newKey(r *rand.Rand, i int) int64 {
	for {
		k := c20Payload(r)
		dup := false
		for _, x := range g.Nodes[i].Keys {
			if x == k {
				dup = true
			}
		}
		if !dup {
			return k
		}
	}
}

func (g *c20Graph) attach(r *rand.Rand, s c20Slot, target int) {
	n := &g.Nodes[s.node]
	switch {
	case s.field >= 0:
		n.F[s.field] = target
	case n.Kind == c20Slice:
		n.El = append(n.El, target)
	default:
		n.Keys = append(n.Keys, g.newKey(r, s.node))
		n.Vals = append(n.Vals, target)
	}
}

// is y below x in the graph built so far?
func (g *c20Graph) reaches(x, y int) bool {
	seen := map[int]bool{}
	var walk func(i int) bool
	walk = func(i int) bool {
		if i < 0 || seen[i] {
			return false
		}
		if i == y {
			return true
		}
		seen[i] = true
		for _, j := range g.succ(i) {
			if walk(j) {
				return true
			}
		}
		return false
	}
	return walk(x)
}

// a random tree of n nodes, then extra edges: shared (any compatible free slot) or back (from below the target)
func c20Random(r *rand.Rand, n, extra int, backBias int) *c20Graph {
	g := &c20Graph{Root: 0}
	root := c20NewNode(c20Struct)
	root.V = c20Payload(r)
	g.Nodes = append(g.Nodes, root)
	for len(g.Nodes) < n {
		kind := c20Struct
		switch r.Intn(6) {
		case 0:
			kind = c20Slice
		case 1:
			kind = c20Map
		}
		slots := g.freeSlots(kind, 4)
		if len(slots) == 0 {
			continue
		}
		nn := c20NewNode(kind)
		if kind == c20Struct {
			nn.V = c20Payload(r)
		}
		g.Nodes = append(g.Nodes, nn)
		g.attach(r, slots[r.Intn(len(slots))], len(g.Nodes)-1)
	}
	for e := 0; e < extra; e++ {
		target := r.Intn(len(g.Nodes))
		slots := g.freeSlots(g.Nodes[target].Kind, 5)
		if r.Intn(100) < backBias {
			below := []c20Slot{}
			for _, s := range slots {
				if s.node == target || g.reaches(target, s.node) {
					below = append(below, s)
				}
			}
			slots = below
		}
		if len(slots) == 0 {
			continue
		}
		g.attach(r, slots[r.Intn(len(slots))], target)
	}
	// nil elements, and no empty slice or map
	for i := range g.Nodes {
		n := &g.Nodes[i]
		if n.Kind == c20Slice && (len(n.El) == 0 || r.Intn(4) == 0) {
			n.El = append(n.El, -1)
		}
		if n.Kind == c20Map && (len(n.Keys) == 0 || r.Intn(4) == 0) {
			n.Keys = append(n.Keys, g.newKey(r, i))
			n.Vals = append(n.Vals, -1)
		}
	}
	return g.prune()
}

func c20Boundary() []*c20Graph {
	s := func(v int64, f ...int) c20Node {
		n := c20NewNode(c20Struct)
		n.V = v
		copy(n.F[:], f)
		return n
	}
	sl := func(el ...int) c20Node { n := c20NewNode(c20Slice); n.El = el; return n }
	mp := func(kv ...int) c20Node {
		n := c20NewNode(c20Map)
		for i := 0; i+1 < len(kv); i += 2 {
			n.Keys = append(n.Keys, int64(kv[i]))
			n.Vals = append(n.Vals, kv[i+1])
		}
		return n
	}
	gs := []*c20Graph{
		{Nodes: []c20Node{s(1)}},                                                                  // one object
		{Nodes: []c20Node{s(2, 0)}},                                                               // self loop
		{Nodes: []c20Node{s(2, 0, 0, 0)}},                                                         // three self loops
		{Nodes: []c20Node{s(3, 1), s(4, -1, 0)}},                                                  // cycle of two
		{Nodes: []c20Node{s(1, 1, 1, 1), s(7)}},                                                   // one leaf, three times
		{Nodes: []c20Node{s(1, 1, 2), s(7), s(7)}},                                                // equal but distinct leaves
		{Nodes: []c20Node{s(1, -1, -1, -1, 1), sl(2, 2, -1, 2), s(9)}},                            // slice holding one pointer three times
		{Nodes: []c20Node{s(1, -1, -1, -1, 1), sl(0)}},                                            // cycle through a slice
		{Nodes: []c20Node{s(1, -1, -1, -1, -1, 1), mp(5, 0, -1, -1)}},                             // cycle through a map
		{Nodes: []c20Node{s(1, 1, -1, -1, 2), s(2, -1, -1, -1, 2), sl(3, -1), s(5)}},              // shared slice
		{Nodes: []c20Node{s(1, 1, -1, -1, -1, 2), s(2, -1, -1, -1, -1, 2), mp(1, 3, 2, 3), s(5)}}, // shared map whose values are one leaf
		{Nodes: []c20Node{s(1, 1, 1), s(2, 2, 2), s(3)}},                                          // marker inside a marked object
		{Nodes: []c20Node{s(1, 1, 1, 0), s(7)}},                                                   // marked root holding a shared leaf
		{Nodes: []c20Node{s(1, 1, 2), s(2, 3), s(3, 3), s(4)}},                                    // shared leaf reached through two unshared objects
	}
	// a chain of 12 closed into a ring
	ring := &c20Graph{}
	for i := 0; i < 12; i++ {
		ring.Nodes = append(ring.Nodes, s(int64(i), (i+1)%12))
	}
	gs = append(gs, ring)
	// a chain of 12 whose last object points back into the middle
	rho := &c20Graph{}
	for i := 0; i < 12; i++ {
		nx := i + 1
		if i == 11 {
			nx = 6
		}
		rho.Nodes = append(rho.Nodes, s(int64(-i), nx))
	}
	gs = append(gs, rho)
	out := []*c20Graph{}
	for _, g := range gs {
		out = append(out, g.prune())
	}
	return out
}

// ---------------------------------------------------------------------------

func c20Record(c *Ctx, cf *caseFile, stream string, g *c20Graph, k c20Cfg) c20Outcome {
	o := c20RunGraph(g, k)
	key := fmt.Sprintf("%v|%v|%s", k.OmitNever, k.Rules, c20GraphJSON(g))
	c.Count(key, len(g.Nodes) > 1)
	c.Dist("stream/" + stream)
	c.Dist(fmt.Sprintf("nodes/%02d", len(g.Nodes)))
	c.Dist(fmt.Sprintf("marked-objects/%d", o.dups))
	c.Dist(fmt.Sprintf("marker-inside-marked/%v", o.nested))
	cyclic := false
	for j := range g.Nodes {
		if g.reaches2(j) {
			cyclic = true
		}
	}
	c.Dist(fmt.Sprintf("cyclic/%v", cyclic))
	kinds := [3]int{}
	for _, n := range g.Nodes {
		kinds[n.Kind]++
	}
	c.Dist(fmt.Sprintf("slices/%d", kinds[1]))
	c.Dist(fmt.Sprintf("maps/%d", kinds[2]))
	c.Dist(fmt.Sprintf("cfg/omit_never=%v,rules=%v", k.OmitNever, k.Rules))
	c.Dist(fmt.Sprintf("accepted/%v", o.accepted))
	if o.dups > 0 && len(c.Rep.Samples) < 6 {
		c.Sample(map[string]string{"stream": stream, "graph": c20GraphJSON(g), "marked": fmt.Sprint(o.dups), "accepted": fmt.Sprint(o.accepted)})
	}
	for _, f := range o.failures {
		c.Fail(f)
	}
	if o.term != "" {
		cf.Add(o.term, o.human)
	}
	return o
}

func runC20(c *Ctx) {
	c.Rep.Rule = "graphs over type N{V int; A,B,C *N; S []*N; M map[int]*N}: random tree of 1..12 nodes plus 0..4 extra edges (shared / back edges), each run through CBE and CTE; streams: main (shared objects inside shared objects and cycles through shared objects included; rules on), rules-off, omit-never, empty containers, slice prefixes, boundary shapes; event streams with forward references / missing / repeated markers played into validator+builder; non-trivial = more than one object; distinct = distinct (configuration, graph) or stream"
	cf := c.Cases("graph", "CE.Model.Graph", "graph_case", "graph_case_ok")
	cf.perFile = 150

	gen := func(wantNested bool) *c20Graph {
		for try := 0; ; try++ {
			n := 1 + c.Rng.Intn(12)
			extra := c.Rng.Intn(5)
			if wantNested && extra < 2 {
				extra = 2
			}
			g := c20Random(c.Rng, n, extra, 40)
			m := g.materialize()
			dups := m.dups(g)
			if !g.walkTerminates(dups) {
				return g // let the oracle report it
			}
			es, st := c20IterEvents(m.root, c20Cfg{Rules: true}.config())
			if st != "ok" || c20Nested(es) == wantNested || try > 200 {
				return g
			}
		}
	}

	// boundary shapes, every configuration that is meant to work
	for _, g := range c20Boundary() {
		c20Record(c, cf, "boundary", g, c20Cfg{Rules: true})
		c20Record(c, cf, "boundary", g, c20Cfg{Rules: false})
	}
	// main stream: any sharing, any cycles; half of the graphs are asked to have a marker inside a marked object
	for i := 0; i < c.Pick(330, 2000); i++ {
		c20Record(c, cf, "main", gen(i%2 == 1), c20Cfg{Rules: true})
	}
	// the same with the validator switched off
	for i := 0; i < c.Pick(90, 600); i++ {
		c20Record(c, cf, "rules-off", gen(i%2 == 1), c20Cfg{Rules: false})
	}
	// omit-never: nil fields are written as null
	for i := 0; i < c.Pick(12, 150); i++ {
		c20Record(c, cf, "omit-never", gen(false), c20Cfg{OmitNever: true, Rules: true})
	}
	// omit-never with every map field set (possibly empty, possibly shared)
	for i := 0; i < c.Pick(40, 400); i++ {
		g := gen(false)
		shared := -1
		for j := range g.Nodes {
			if g.Nodes[j].Kind == c20Struct && g.Nodes[j].F[4] < 0 {
				if shared >= 0 && c.Rng.Intn(3) == 0 {
					g.Nodes[j].F[4] = shared
					continue
				}
				g.Nodes = append(g.Nodes, c20NewNode(c20Map))
				g.Nodes[j].F[4] = len(g.Nodes) - 1
				shared = len(g.Nodes) - 1
			}
		}
		c20Record(c, cf, "omit-never-maps-set", g.prune(), c20Cfg{OmitNever: true, Rules: c.Rng.Intn(2) == 0})
	}
	// empty containers under the default omit behaviour
	for i := 0; i < c.Pick(10, 100); i++ {
		g := gen(false)
		for j := range g.Nodes {
			if g.Nodes[j].Kind == c20Struct && c.Rng.Intn(2) == 0 {
				k := 3 + c.Rng.Intn(2)
				if g.Nodes[j].F[k] < 0 {
					kind := c20Slice
					if k == 4 {
						kind = c20Map
					}
					g.Nodes = append(g.Nodes, c20NewNode(kind))
					g.Nodes[j].F[k] = len(g.Nodes) - 1
				}
			}
		}
		c20Record(c, cf, "empty-containers", g.prune(), c20Cfg{Rules: true})
	}

	c20SlicePrefixes(c)
	c20PointerToPointer(c)
	c20Streams(c, cf)
}

// two slices over one backing array with different lengths: not expressible in the model's heaps
// (one identity, two lengths); oracle only
func c20SlicePrefixes(c *Ctx) {
	for i := 0; i < c.Pick(6, 40); i++ {
		n := 2 + c.Rng.Intn(3)
		cut := 1 + c.Rng.Intn(n-1)
		first := i%2 == 1
		format := []string{"cbe", "cte"}[(i/2)%2]
		ok, why := c20SlicePrefixOracle(n, cut, first, format)
		c.Count(fmt.Sprintf("prefix|%d|%d|%v|%s", n, cut, first, format), true)
		c.Dist("stream/slice-prefix")
		if !ok {
			c.Fail(Replay{Kind: "slice-prefix", Key: "C20/slice-prefix-aliased", Input: map[string]string{"len": fmt.Sprint(n), "cut": fmt.Sprint(cut), "prefix_first": fmt.Sprint(first), "format": format},
				Expect: "slices of the original lengths", Got: why})
		}
	}
}

func c20SlicePrefixOracle(n, cut int, prefixFirst bool, format string) (bool, string) {
	full := make([]*c20N, n)
	for i := range full {
		full[i] = &c20N{V: i}
	}
	// the full slice is visited twice, its prefix once; all three have the same TypedPointer
	root := &c20N{V: 1, A: &c20N{V: 2, S: full}, B: &c20N{V: 3, S: full[:cut]}, C: &c20N{V: 4, S: full}}
	if prefixFirst {
		root.A, root.B = root.B, root.A
	}
	cfg := c20Cfg{Rules: false}.config()
	doc, st, msg := c20Marshal(format, root, cfg)
	if st != "ok" {
		return false, "marshal: " + msg
	}
	res, st, msg := c20Unmarshal(format, doc, cfg)
	if st != "ok" {
		return false, "unmarshal: " + msg
	}
	if res == nil || res.A == nil || res.B == nil || res.C == nil {
		return false, "objects missing"
	}
	if len(res.A.S) != len(root.A.S) || len(res.B.S) != len(root.B.S) || len(res.C.S) != len(root.C.S) {
		return false, fmt.Sprintf("slices of lengths %d, %d, %d came back with lengths %d, %d, %d",
			len(root.A.S), len(root.B.S), len(root.C.S), len(res.A.S), len(res.B.S), len(res.C.S))
	}
	return true, ""
}

// a shared pointer to a shared pointer: outside the model's Go type (no **N there); oracle only
type c20PP struct {
	P *c20N
	X **c20N
	Y **c20N
}

func c20PointerToPointerOracle(format string, rules bool) (bool, string) {
	ok, why := c20PPRoundTrip(format, rules, true)
	if !ok {
		// control: the same type with nothing shared
		if okc, whyc := c20PPRoundTrip(format, rules, false); !okc {
			why += " [control: a **N field holding an unshared pointer does not come back either: " + whyc + "]"
		}
	}
	return ok, why
}

func c20PPRoundTrip(format string, rules bool, shared bool) (bool, string) {
	leaf := &c20N{V: 7}
	pp := &leaf
	root := &c20PP{P: leaf, X: pp, Y: pp}
	if !shared {
		other := &c20N{V: 7}
		root = &c20PP{P: &c20N{V: 7}, X: pp, Y: &other}
	}
	cfg := c20Cfg{Rules: rules}.config()
	var doc []byte
	var err error
	st, msg := c20Watch(func() {
		if format == "cbe" {
			doc, err = ce.MarshalToCBEDocument(root, cfg)
		} else {
			doc, err = ce.MarshalToCTEDocument(root, cfg)
		}
	})
	if st != "ok" || err != nil {
		return false, fmt.Sprintf("marshal: %s %s %v", st, msg, err)
	}
	var v interface{}
	st, msg = c20Watch(func() {
		if format == "cbe" {
			v, err = ce.UnmarshalFromCBEDocument(doc, (*c20PP)(nil), cfg)
		} else {
			v, err = ce.UnmarshalFromCTEDocument(doc, (*c20PP)(nil), cfg)
		}
	})
	if st != "ok" || err != nil {
		return false, fmt.Sprintf("unmarshal: %s %s %v", st, msg, err)
	}
	res, ok := v.(*c20PP)
	if !ok || res == nil || res.P == nil || res.X == nil || res.Y == nil || *res.X == nil {
		return false, "objects missing"
	}
	if shared && res.X != res.Y {
		return false, "the shared pointer-to-pointer came back as two objects"
	}
	if shared && *res.X != res.P {
		return false, "the pointer behind the shared pointer is no longer the shared leaf"
	}
	if !shared && (res.X == res.Y || *res.X == res.P || *res.Y == nil || *res.X == *res.Y) {
		return false, "objects that were distinct came back shared"
	}
	if res.P.V != 7 || (*res.X).V != 7 {
		return false, "payload changed"
	}
	return true, ""
}

func c20PointerToPointer(c *Ctx) {
	for _, format := range []string{"cbe", "cte"} {
		for _, rules := range []bool{true, false} {
			ok, why := c20PointerToPointerOracle(format, rules)
			c.Count(fmt.Sprintf("pp|%s|%v", format, rules), true)
			c.Dist("stream/pointer-to-shared-pointer")
			if !ok {
				c.Fail(Replay{Kind: "pointer-to-pointer", Key: "C20/pointer-to-shared-pointer", Input: map[string]string{"format": format, "rules": fmt.Sprint(rules)},
					Expect: "X and Y share one pointer whose target is the shared leaf", Got: why})
			}
		}
	}
}

// event streams played into validator + builder
func c20Streams(c *Ctx, cf *caseFile) {
	add := func(kind string, g *c20Graph, es []Ev, withRules bool, expectIso bool) {
		res, ok := c20PlayStream(es, withRules)
		c.Count("stream|"+fmt.Sprint(withRules)+"|"+evsString(es), true)
		c.Dist("stream/events-" + kind)
		c.Dist(fmt.Sprintf("events-%s/accepted=%v", kind, ok))
		cf.Add(cApp("StreamCase", cBool(withRules), cEvs(es), c20ImplResult(res, ok)), fmt.Sprintf("stream %s rules=%v %s", kind, withRules, evsString(es)))
		if expectIso {
			// a legal document describing g: the builder must produce g
			in := map[string]string{"events": evsString(es), "rules": fmt.Sprint(withRules), "graph": c20GraphJSON(g)}
			if !ok {
				key := "C20/forward-reference-stream-rejected"
				if withRules && c20Nested(es) {
					key = "C20/nested-marker-rejected"
				}
				c.Fail(Replay{Kind: "stream", Key: key, Input: in, Expect: "accepted", Got: "rejected"})
			} else if iso, why := c20Iso(g.materialize().root, res); !iso {
				c.Fail(Replay{Kind: "stream", Key: "C20/forward-reference-stream-not-isomorphic", Input: in, Expect: "the graph the stream describes", Got: why})
			}
		}
	}
	for i := 0; i < c.Pick(60, 400); i++ {
		g := c20Random(c.Rng, 1+c.Rng.Intn(10), 1+c.Rng.Intn(4), 40)
		m := g.materialize()
		dups := m.dups(g)
		if !g.walkTerminates(dups) {
			continue
		}
		// forward references: the marker sits at a later visit
		pick := map[int]int{}
		es := g.eventsWithMarkersAt(dups, func(node, visits int) int {
			if _, ok := pick[node]; !ok {
				pick[node] = c.Rng.Intn(visits)
			}
			return pick[node]
		})
		withRules := c.Rng.Intn(2) == 0
		cyclic := false
		for _, d := range dups {
			if g.reaches2(d) {
				cyclic = true
			}
		}
		// moving the marker of an object on a cycle to a later visit does not give a finite document; keep those as they are
		if cyclic {
			es = g.eventsWithMarkersAt(dups, func(node, visits int) int { return 0 })
		}
		add("forward", g, es, withRules, true)
		// damaged streams: a marker removed, a marker id repeated, a reference to nothing
		if len(dups) > 0 {
			switch c.Rng.Intn(3) {
			case 0:
				out := []Ev{}
				dropped := false
				for _, e := range es {
					if e.K == "mk" && !dropped {
						dropped = true
						continue
					}
					out = append(out, e)
				}
				add("marker-dropped", g, out, withRules, false)
			case 1:
				// (a reference to a marked object of another type than the slot is a type error in the builder,
				// outside the model: only collapse ids when every marked object is a struct)
				allStructs := true
				for _, d := range dups {
					if g.Nodes[d].Kind != c20Struct {
						allStructs = false
					}
				}
				if !allStructs {
					break
				}
				out := []Ev{}
				for _, e := range es {
					if e.K == "mk" || e.K == "ref" {
						e.Data = []byte("0")
					}
					out = append(out, e)
				}
				add("ids-collapsed", g, out, withRules, false)
			case 2:
				out := []Ev{}
				for _, e := range es {
					if e.K == "ref" {
						e.Data = []byte("99")
					}
					out = append(out, e)
				}
				add("dangling-reference", g, out, withRules, false)
			}
		}
	}
}

// is node d on a cycle?
func (g *c20Graph) reaches2(d int) bool {
	for _, j := range g.succ(d) {
		if j == d || (j >= 0 && g.reaches(j, d)) {
			return true
		}
	}
	return false
}

// ---------------------------------------------------------------------------

func replayC20(r *Replay) (bool, string) {
	switch r.Kind {
	case "graph":
		var g c20Graph
		if err := json.Unmarshal([]byte(r.Input["graph"]), &g); err != nil {
			return false, "bad replay input: " + err.Error()
		}
		k := c20Cfg{OmitNever: r.Input["omit_never"] == "true", Rules: r.Input["rules"] == "true"}
		o := c20RunGraph(&g, k)
		for _, f := range o.failures {
			if f.Input["format"] == r.Input["format"] || r.Input["format"] == "-" {
				return false, fmt.Sprintf("%s: %s (required: %s)", f.Key, f.Got, f.Expect)
			}
		}
		return true, "marshaling terminated and the unmarshaled graph is isomorphic to the original"
	case "slice-prefix":
		var n, cut int
		fmt.Sscan(r.Input["len"], &n)
		fmt.Sscan(r.Input["cut"], &cut)
		if n < 2 || cut < 1 || cut >= n {
			return false, "bad replay input"
		}
		ok, why := c20SlicePrefixOracle(n, cut, r.Input["prefix_first"] == "true", r.Input["format"])
		return ok, why
	case "pointer-to-pointer":
		return c20PointerToPointerOracle(r.Input["format"], r.Input["rules"] == "true")
	case "stream":
		es, err := parseEvs(r.Input["events"])
		if err != nil {
			return false, "bad replay input: " + err.Error()
		}
		var g c20Graph
		if err := json.Unmarshal([]byte(r.Input["graph"]), &g); err != nil {
			return false, "bad replay input: " + err.Error()
		}
		res, ok := c20PlayStream(es, r.Input["rules"] == "true")
		if !ok {
			return false, "the stream was rejected"
		}
		iso, why := c20Iso(g.materialize().root, res)
		return iso, why
	}
	return false, "unknown replay kind " + r.Kind
}
